(* C17, step level: reusable relational lemmas about every function a poll calls.
   - [st_rel]: how the connection state may move once our FIN is numbered (never back, the number kept);
   - [pk_ok]:  what a datagram emitted in a given state looks like (never ST_RESET / ST_SYN; an ST_FIN only
               once our FIN is numbered, and then carrying that number);
   - [G0] / [G]: the relation every function of a poll satisfies between its entry and exit state
               (state movement, datagrams appended, inbox only drained, inbox_closed and options kept;
               [G] adds [W]: nobody but transition_to_fin_wait_1 enters FinWait1), proved function by
               function; [GE] is what an error leaves behind (the channel-closed arm of the receive loop
               leaves FinWait1 only with ErrSend); no function but process_incoming_message reports
               ErrStResetReceived ([sG]);
   - poll_body in parts ([body_head] / [body_mid] / [body_back]) with generic walks under G
               ([body_head_walk], [body_mid_walk], [body_front_walk]) and the G0 summary of a whole
               poll_body ([poll_body_G0]); [poll_loop_ind]: induction over the restart loop;
   - [GN]: datagrams other than ST_FIN (incoming path, SYN-ACK, ACKs); the reset error comes from the
               state table with the state Closed ([recv_loop_N], [process_all_N]); send_tx_queue asks
               for a restart only when it emitted ST_DATA only ([stq_restart_data]);
   - [LB]: the bound 0 <= segmented bytes <= ring length (with the segment-table and segment-size
               invariants), proved Hoare-style for every function, poll, every event and vsock_new. *)
From Utp Require Conn.VSock_Inv.
From Utp Require Import Base.Prelude Wire.SeqNr Wire.Header Wire.Header_Proofs Rtt.Rtte Mtu.SegSizes
  Rx.Rx Tx.Ring Tx.Segments Tx.Segments_Proofs Conn.VSock_LemmasIn Conn.Recovery Conn.Msg Conn.VSockRec Conn.VSock Conn.VSockRun Conn.VObs
  Conn.VSock_LemmasTx Conn.VSock_LemmasFin Conn.C17_Pred Conn.C17_Proofs.

Ltac abs_as t F z := revert F; generalize t; intros z F.

Section WithCC.
Context {CC : Type} (cci : cc_iface CC).
Notation vsock := (vsock CC).

(* ------------------------------------------------------------------ states *)
Definition st_rel (a b : vstate) : Prop :=
  match a with
  | FinWait1 f => match b with FinWait1 f' | LastAck f' _ => f' = f | FinWait2 | Closed => True | _ => False end
  | FinWait2 => match b with FinWait2 | Closed => True | _ => False end
  | LastAck f _ => match b with LastAck f' _ => f' = f | Closed => True | _ => False end
  | Closed => match b with Closed => True | _ => False end
  | _ => True
  end.

Lemma st_rel_refl a : st_rel a a.
Proof. destruct a; cbn [st_rel]; auto. Qed.

Lemma st_rel_trans a b c : st_rel a b -> st_rel b c -> st_rel a c.
Proof. destruct a, b, c; cbn [st_rel]; intros; try tauto; try congruence. Qed.

Lemma st_rel_eq a b : b = a -> st_rel a b.
Proof. intros ->. apply st_rel_refl. Qed.

Lemma st_rel_fin a b f f' :
  st_rel a b -> our_fin_if_unacked a = Some f -> our_fin_if_unacked b = Some f' -> f = f'.
Proof. destruct a, b; cbn [st_rel our_fin_if_unacked]; intros H H1 H2; try discriminate; try tauto; congruence. Qed.

Lemma st_rel_local a b : st_rel a b -> is_local_fin_or_later a = true -> is_local_fin_or_later b = true.
Proof. destruct a, b; cbn [st_rel is_local_fin_or_later]; intros; try tauto; try discriminate; auto. Qed.

(* ------------------------------------------------------------------ datagrams *)
Definition hk_ok (st : vstate) (t : ptype) (seq : Z) : Prop :=
  t <> ST_RESET /\ t <> ST_SYN /\
  (t = ST_FIN -> is_local_fin_or_later st = true /\ forall f, our_fin_if_unacked st = Some f -> seq = f).

Definition pk_ok (st : vstate) (p : packet) : Prop := hk_ok st (ch_type (p_hdr p)) (ch_seq (p_hdr p)).

Lemma hk_ok_mono a b t q : st_rel a b -> hk_ok a t q -> hk_ok b t q.
Proof.
  intros Hr (H1 & H1' & H2). split; [exact H1|]. split; [exact H1'|]. intro Ht. destruct (H2 Ht) as (L & F).
  split; [eapply st_rel_local; eauto|].
  intros f Hf. destruct a, b; cbn [st_rel our_fin_if_unacked is_local_fin_or_later] in *;
    try discriminate; try tauto; injection Hf as <-; subst; apply F; reflexivity.
Qed.

Lemma pk_ok_mono a b p : st_rel a b -> pk_ok a p -> pk_ok b p.
Proof. apply hk_ok_mono. Qed.

Lemma hk_ok_state st q : hk_ok st ST_STATE q.
Proof. repeat split; discriminate. Qed.
Lemma hk_ok_data st q : hk_ok st ST_DATA q.
Proof. repeat split; discriminate. Qed.
Lemma hk_ok_fin st f : our_fin_if_unacked st = Some f -> hk_ok st ST_FIN f.
Proof.
  intro H. split; [discriminate|]. split; [discriminate|]. intros _.
  split; [destruct st; try discriminate; reflexivity|]. intros f' H'. congruence.
Qed.

(* ------------------------------------------------------------------ the relation of a poll *)
Definition G0 (s s' : vsock) : Prop :=
  st_rel (v_state s) (v_state s') /\
  (exists l, v_out s' = l ++ v_out s /\ Forall (pk_ok (v_state s')) l) /\
  (v_inbox s = [] -> v_inbox s' = []) /\
  v_inbox_closed s' = v_inbox_closed s /\
  v_opts s' = v_opts s.

(* nobody but transition_to_fin_wait_1 moves into FinWait1.  (The arm of the receive loop that runs
   when the dispatcher's channel is closed calls it too, but sets the state to Closed at once; only
   when its FIN cannot be sent does the state stay FinWait1: see [GE] below.) *)
Definition W (s s' : vsock) : Prop :=
  forall f, v_state s' = FinWait1 f -> v_state s = FinWait1 f.

Definition G (s s' : vsock) : Prop := G0 s s' /\ W s s'.

Lemma G0_refl s : G0 s s.
Proof. unfold G0. split; [apply st_rel_refl|]. split; [exists []; split; [reflexivity|constructor]|]. auto. Qed.

Lemma G0_opts a b : G0 a b -> v_opts b = v_opts a.
Proof. intros (_ & _ & _ & _ & H). exact H. Qed.

Lemma G0_trans a b c : G0 a b -> G0 b c -> G0 a c.
Proof.
  intros (A1 & (l1 & A2 & A3) & A4 & A5 & A6) (B1 & (l2 & B2 & B3) & B4 & B5 & B6).
  split; [eapply st_rel_trans; eauto|]. split; [|split; [auto|split; congruence]].
  exists (l2 ++ l1). split; [rewrite B2, A2, app_assoc; reflexivity|].
  apply Forall_app. split; [exact B3|]. eapply Forall_impl; [|exact A3]. intro p. apply pk_ok_mono. exact B1.
Qed.

Lemma W_refl s : W s s.
Proof. unfold W. auto. Qed.

Lemma G_refl s : G s s.
Proof. split; [apply G0_refl|apply W_refl]. Qed.

Lemma G_trans a b c : G a b -> G b c -> G a c.
Proof.
  intros (A & WA) (B & WB). split; [eapply G0_trans; eauto|].
  intros f Hf. apply WA. apply WB. exact Hf.
Qed.

Lemma G_G0 a b : G a b -> G0 a b.
Proof. intros [H _]; exact H. Qed.

(* the three ways a primitive step relates its states *)
Lemma G_same (s s' : vsock) :
  v_state s' = v_state s -> v_out s' = v_out s -> v_inbox s' = v_inbox s ->
  v_inbox_closed s' = v_inbox_closed s -> v_opts s' = v_opts s -> G s s'.
Proof.
  intros E1 E2 E3 E4 E6. split.
  - split; [rewrite E1; apply st_rel_refl|]. split; [exists []; split; [exact E2|constructor]|].
    split; [congruence|split; [exact E4|exact E6]].
  - intros f Hf. congruence.
Qed.

Lemma G_emit (s s' : vsock) p :
  v_state s' = v_state s -> v_out s' = p :: v_out s -> v_inbox s' = v_inbox s ->
  v_inbox_closed s' = v_inbox_closed s -> v_opts s' = v_opts s -> pk_ok (v_state s) p -> G s s'.
Proof.
  intros E1 E2 E3 E4 E6 Hp. split.
  - split; [rewrite E1; apply st_rel_refl|].
    split; [exists [p]; split; [exact E2|constructor; [rewrite E1; exact Hp|constructor]]|].
    split; [congruence|split; [exact E4|exact E6]].
  - intros f Hf. congruence.
Qed.

Lemma G_state (s s' : vsock) :
  st_rel (v_state s) (v_state s') -> v_out s' = v_out s -> (v_inbox s = [] -> v_inbox s' = []) ->
  v_inbox_closed s' = v_inbox_closed s -> v_opts s' = v_opts s ->
  (forall f, v_state s' = FinWait1 f -> v_state s = FinWait1 f) -> G s s'.
Proof.
  intros E1 E2 E3 E4 E6 E5. split.
  - split; [exact E1|]. split; [exists []; split; [exact E2|constructor]|].
    split; [exact E3|split; [exact E4|exact E6]].
  - exact E5.
Qed.

Ltac g_same := apply G_same; vsimpl; reflexivity.

(* ------------------------------------------------------------------ step results *)
(* the state an error leaves behind: as [G], except that the channel-closed arm of the receive loop
   leaves FinWait1 behind when its FIN cannot be sent (the error is then ErrSend) *)
Definition GE (s s' : vsock) (e : verror) : Prop :=
  G0 s s' /\ (W s s' \/ (v_inbox_closed s = true /\ e = ErrSend)).

Lemma GE_G s s' e : G s s' -> GE s s' e.
Proof. intros [H1 H2]. split; [exact H1|left; exact H2]. Qed.

Lemma GE_trans a b c e : G a b -> GE b c e -> GE a c e.
Proof.
  intros (A & WA) (B & HB). split; [eapply G0_trans; eauto|].
  destruct HB as [WB|(Hc & He)].
  - left. intros f Hf. apply WA. apply WB. exact Hf.
  - right. split; [|exact He]. destruct A as (_ & _ & _ & A5 & _). congruence.
Qed.

(* [sG]: an error is never the reset error.  [sGr]: no claim on the error (incoming path). *)
Definition sG {A} (s : vsock) (m : step A) : Prop :=
  match m with SOk s' _ => G s s' | SErr s' e => GE s s' e /\ e <> ErrStResetReceived | SPanic => True end.
Definition sGr {A} (s : vsock) (m : step A) : Prop :=
  match m with SOk s' _ => G s s' | SErr s' e => GE s s' e | SPanic => True end.

Lemma sG_sGr {A} s (m : step A) : sG s m -> sGr s m.
Proof. destruct m; cbn [sG sGr]; tauto. Qed.

Lemma sG_bind {A B} s (m : step A) (f : vsock -> A -> step B) :
  sG s m -> (forall s1 a, sG s1 (f s1 a)) -> sG s (sbind m f).
Proof.
  intros Hm Hf. destruct m as [s1 a|s1 e|]; cbn [sbind sG] in *; auto.
  specialize (Hf s1 a). destruct (f s1 a); cbn [sG] in *; auto.
  - eapply G_trans; eauto.
  - destruct Hf as [Hf He]. split; [eapply GE_trans; eauto|exact He].
Qed.

Lemma sGr_bind {A B} s (m : step A) (f : vsock -> A -> step B) :
  sGr s m -> (forall s1 a, sGr s1 (f s1 a)) -> sGr s (sbind m f).
Proof.
  intros Hm Hf. destruct m as [s1 a|s1 e|]; cbn [sbind sGr] in *; auto.
  specialize (Hf s1 a). destruct (f s1 a); cbn [sGr] in *; auto;
    [eapply G_trans; eauto|eapply GE_trans; eauto].
Qed.

Lemma sG_weaken {A} s0 s (m : step A) : G s0 s -> sG s m -> sG s0 m.
Proof.
  intros H Hm. destruct m; cbn [sG] in *; auto; [eapply G_trans; eauto|].
  destruct Hm as [Hm He]. split; [eapply GE_trans; eauto|exact He].
Qed.

Lemma sGr_weaken {A} s0 s (m : step A) : G s0 s -> sGr s m -> sGr s0 m.
Proof.
  intros H Hm. destruct m; cbn [sGr] in *; auto; [eapply G_trans; eauto|eapply GE_trans; eauto].
Qed.

(* ------------------------------------------------------------------ sending *)
Lemma next_send_G (s : vsock) n s1 o : next_send s n = (s1, o) -> G s s1.
Proof. intro E. apply next_send_same in E. destruct E as [->|[r ->]]; [apply G_refl|g_same]. Qed.

Lemma send_control_packet_G (s : vsock) h :
  hk_ok (v_state s) (ch_type h) (ch_seq h) -> sG s (send_control_packet s h).
Proof.
  intro Hk. unfold send_control_packet. destruct (v_transport_pending s); [apply G_refl|].
  destruct (next_send s _) as [s1 o] eqn:E. apply next_send_same in E.
  destruct o; cbn [sG].
  - destruct E as [->|[r ->]]; unfold on_packet_sent, emit;
      (eapply G_emit; vsimpl; [reflexivity..|exact Hk]).
  - destruct E as [->|[r ->]]; g_same.
  - split; [apply GE_G; destruct E as [->|[r ->]]; [apply G_refl|g_same]|discriminate].
  - split; [apply GE_G; destruct E as [->|[r ->]]; [apply G_refl|g_same]|discriminate].
Qed.

Lemma send_ack_G (s : vsock) : sG s (send_ack s).
Proof. unfold send_ack. apply send_control_packet_G. apply hk_ok_state. Qed.

Lemma maybe_send_fin_G (s : vsock) : sG s (maybe_send_fin s).
Proof.
  unfold maybe_send_fin. destruct (v_transport_pending s); [apply G_refl|].
  destruct (our_fin_if_unacked (v_state s)) as [f|] eqn:Ef; [|apply G_refl].
  destruct (negb _); [apply G_refl|].
  apply sG_bind; [apply send_control_packet_G; apply hk_ok_fin; exact Ef|].
  intros s1 a. destruct a; cbn [sG]; [g_same|apply G_refl].
Qed.

Lemma send_data_G (s : vsock) h f : sG s (send_data s h f).
Proof.
  unfold send_data. destruct (_ =? _); [split; [apply GE_G, G_refl|discriminate]|].
  destruct (_ <? 0); [exact I|]. destruct (_ <? _); [split; [apply GE_G, G_refl|discriminate]|].
  destruct (_ <? _); [split; [apply GE_G, G_refl|discriminate]|].
  destruct (next_send s _) as [s1 o] eqn:E. apply next_send_same in E.
  destruct o; cbn [sG].
  - cbv zeta. unfold on_packet_sent, emit.
    destruct E as [->|[r ->]]; vsimpl;
      (destruct (seq_gt (fs_seq f) _); [destruct (seq_gt (wadd16 (fs_seq f) 1) _)|]);
      (eapply G_emit; vsimpl; [reflexivity..|apply hk_ok_data]).
  - destruct E as [->|[r ->]]; g_same.
  - destruct E as [->|[r ->]]; [apply G_refl|g_same].
  - split; [apply GE_G; destruct E as [->|[r ->]]; [apply G_refl|g_same]|discriminate].
Qed.

Lemma on_rto_reactions_G s s' : on_rto_reactions cci s = Some s' -> G s s'.
Proof. unfold on_rto_reactions. destruct (on_rto_timeout _); [|discriminate].
  intro H; injection H as <-. g_same. Qed.

Lemma recovery_loop_G : forall items s h mss0 st, sG s (recovery_loop items s h mss0 st).
Proof.
  induction items as [|f rest IH]; intros; cbn [recovery_loop]; [apply G_refl|].
  destruct (negb _); [apply G_refl|].
  destruct (_ && _); [apply IH|]. destruct (_ && _); [apply G_refl|].
  pose proof (send_data_G s h f) as Hd. destruct (send_data s h f) as [s1 r|s1 e|]; cbn [sG] in *; auto.
  destruct r; cbn [sG]; auto; [eapply sG_weaken; [exact Hd|apply IH]|split; [apply GE_G; exact Hd|discriminate]].
Qed.

Lemma new_data_loop_G : forall items s h rem, sG s (new_data_loop items s h rem).
Proof.
  induction items as [|f rest IH]; intros; cbn [new_data_loop]; [apply G_refl|].
  destruct (_ <? _); [apply G_refl|].
  pose proof (send_data_G s h f) as Hd. destruct (send_data s h f) as [s1 r|s1 e|]; cbn [sG] in *; auto.
  destruct r; cbn [sG]; auto. eapply sG_weaken; [exact Hd|apply IH].
Qed.

Lemma set_recovering_G (s : vsock) rc : G s (set_recovering s rc).
Proof. unfold set_recovering. g_same. Qed.

Lemma send_tx_queue_G (s : vsock) : sG s (send_tx_queue cci s).
Proof.
  unfold send_tx_queue. destruct (v_transport_pending s); [apply G_refl|].
  apply sG_bind.
  { destruct (timer_expired _ _); [|apply G_refl].
    destruct (iter_for_sending _ _) as [|f l].
    - destruct (our_fin_if_unacked _); [|cbn [sG]; g_same].
      destruct (_ =? _); [|cbn [sG]; g_same].
      apply sG_weaken with (s := set_last_sent_seq_nr s (wsub16 (v_last_sent_seq_nr s) 1)); [g_same|].
      apply sG_bind; [apply maybe_send_fin_G|].
      intros s1 a. destruct a; [|apply G_refl].
      destruct (on_rto_reactions cci s1) eqn:E; [|exact I]. apply on_rto_reactions_G in E.
      cbn [sG]. eapply G_trans; [exact E|]. g_same.
    - pose proof (send_data_G s (outgoing_header s) f) as Hd.
      destruct (send_data _ _ f) as [s1 r|s1 e|]; cbn [sG] in *; auto.
      destruct r; cbn [sG]; auto; [|split; [apply GE_G; exact Hd|discriminate]].
      cbv zeta.
      match goal with |- sG _ (match ?o with _ => _ end) => destruct o as [s2|] eqn:E end; [|exact I].
      assert (F2 : G s1 s2).
      { destruct (negb _); [apply on_rto_reactions_G; exact E|injection E as <-; apply G_refl]. }
      cbn [sG]. eapply G_trans; [exact Hd|]. eapply G_trans; [exact F2|]. g_same. }
  intros s1 ret. destruct ret; [apply G_refl|].
  destruct (0 <? _); [apply G_refl|]. destruct (ss_segs _); [apply G_refl|].
  apply sG_bind.
  { destruct (rv_phase _); try apply G_refl.
    apply sG_bind; [apply recovery_loop_G|].
    intros s2 [st early]. cbv beta iota zeta.
    destruct early; [apply set_recovering_G|].
    match goal with |- sG _ (match our_fin_if_unacked (v_state ?y) with _ => _ end) =>
      assert (F3 : G s2 y); [|abs_as y F3 sy] end.
    { eapply G_trans; [apply set_recovering_G|].
      destruct (_ <? _); [|apply G_refl]. destruct (rc_recalc _); [g_same|].
      destruct (0 <? _); [g_same|apply G_refl]. }
    destruct (our_fin_if_unacked _); [destruct (_ =? _)|]; cbn [sG]; auto. }
  intros s2 ret. destruct ret; [apply G_refl|].
  apply sG_bind; [apply new_data_loop_G|].
  intros s3 tl. destruct tl as [[sq sz]|]; [|apply G_refl].
  destruct (pop_mtu_probe _ _) as [segs' popped]. destruct popped; cbn [sG]; [g_same|].
  split; [apply GE_G, G_refl|discriminate].
Qed.

Lemma maybe_send_ack_G (s : vsock) : sG s (maybe_send_ack s).
Proof.
  unfold maybe_send_ack. destruct (immediate_ack_to_transmit s); [apply send_ack_G|].
  destruct (should_send_window_update s); [apply send_ack_G|].
  destruct (timer_expired _ _).
  - destruct (ack_to_transmit s); [apply send_ack_G|cbn [sG]; g_same].
  - destruct (0 <? _); cbn [sG]; [g_same|apply G_refl].
Qed.

Lemma add_wakes_G (s : vsock) w : G s (add_wakes s w).
Proof. unfold add_wakes. g_same. Qed.

Lemma split_cont_G (s0 s2 : vsock) tl :
  G s0 s2 ->
  sG s0 (if tl <? ss_len_bytes (v_segs s2) then SErr s2 (ErrBug BugInBufferComputations)
       else match segment_loop (ring (v_tx s2)) (o_nagle (v_opts s2)) (v_ss s2) (v_segs s2)
                    (tl - ss_len_bytes (v_segs s2)) (v_last_remote_window s2) with
            | Some (ss', segs', remaining) =>
                SOk (set_unsegmented (set_segs (set_ss s2 ss') segs') remaining) tt
            | None => SPanic
            end).
Proof.
  intros F2. destruct (_ <? _); [split; [apply GE_G; exact F2|discriminate]|].
  destruct (segment_loop _ _ _ _ _ _) as [[[ss' segs'] rem]|]; [|exact I].
  cbn [sG]. eapply G_trans; [exact F2|g_same].
Qed.

Lemma split_G (s : vsock) : sG s (split_tx_queue_into_segments cci s).
Proof.
  unfold split_tx_queue_into_segments. cbv zeta. destruct (_ =? 0); [cbn [sG]; g_same|].
  match goal with |- sG _ (if is_remote_fin_or_later (v_state ?x) then _ else _) =>
    assert (F : G s x); [|abs_as x F sx] end.
  { destruct (_ && _); [|apply G_refl]. destruct (grow _ _) as [tx1 g]. destruct g.
    - destruct (wake_writer tx1) as [tx2 w]. eapply G_trans; [|apply add_wakes_G]. g_same.
    - g_same. }
  destruct (is_remote_fin_or_later _); [exact F|].
  destruct (pop_expired_mtu_probe _ _ _) as [segs1 pe].
  destruct pe.
  - apply split_cont_G. eapply G_trans; [exact F|].
    destruct (seq_gt _ _); g_same.
  - cbn [sG]. eapply G_trans; [exact F|g_same].
  - apply split_cont_G. exact F.
Qed.

Lemma mark_both_closed_G (s : vsock) : G s (mark_both_closed s).
Proof.
  unfold mark_both_closed. destruct (rx_mark_vsock_closed _) as [rx1 w1].
  destruct (mark_vsock_closed _) as [tx1 w2].
  eapply G_trans; [|apply add_wakes_G]. g_same.
Qed.

Lemma restart_inact_G (s : vsock) : G s (restart_remote_inactivity_timer s).
Proof. unfold restart_remote_inactivity_timer. g_same. Qed.

Lemma force_ack_G (s : vsock) : G s (force_immediate_ack s).
Proof. unfold force_immediate_ack. g_same. Qed.

(* transition_to_fin_wait_1 satisfies G0, not W *)
Lemma transition_G0 (s : vsock) : G0 s (transition_to_fin_wait_1 s).
Proof.
  unfold transition_to_fin_wait_1.
  destruct (v_state s) eqn:Es; try apply G0_refl;
    (split; [vsimpl; rewrite Es; exact I|]; split; [exists []; split; [reflexivity|constructor]|];
     split; [vsimpl; auto|split; reflexivity]).
Qed.

Lemma maybe_send_fin_err (s s' : vsock) e : maybe_send_fin s = SErr s' e -> e = ErrSend.
Proof.
  unfold maybe_send_fin. destruct (v_transport_pending s) eqn:Ep; [discriminate|].
  destruct (our_fin_if_unacked (v_state s)) as [f|]; [|discriminate].
  destruct (negb _); [discriminate|].
  destruct (send_control_packet_cases s (hdr_with (outgoing_header s) ST_FIN f None) Ep)
    as [(s1 & Hs & ->)|[(s1 & Hs & ->)|(s1 & Hs & ->)]]; cbn [sbind]; try discriminate.
  intro H; injection H as _ <-. reflexivity.
Qed.

(* ------------------------------------------------------------------ incoming messages *)
Definition tG (s : vsock) (r : table_res) : Prop :=
  match r with TblDrop s' | TblContinue s' => G s s' | TblErr s' _ => G s s' end.

Lemma state_table_G (s : vsock) h : tG s (state_table s h).
Proof.
  unfold state_table, restart_remote_inactivity_timer.
  destruct (ch_type h); destruct (v_state s) eqn:Es; cbn [tG];
    repeat match goal with |- context [if ?c then _ else _] => destruct c end;
    cbn [tG]; try apply G_refl;
    (apply G_state; vsimpl; rewrite ?Es; cbn [st_rel]; auto; intros; discriminate).
Qed.

Lemma process_incoming_message_G (s : vsock) m : sGr s (process_incoming_message cci s m).
Proof.
  unfold process_incoming_message. cbv zeta.
  pose proof (state_table_G s (m_hdr m)) as Ht.
  destruct (state_table s (m_hdr m)) as [s1|s1 e|s1]; cbn [tG sGr] in *; auto using GE_G.
  destruct (remove_up_to_ack _ _ _ _) as [segs1 res].
  match goal with |- sGr _ (match ?o with Some _ => _ | None => _ end) => destruct o as [rtte1|] end; [|exact I].
  destruct (cc_on_ack _ _ _ _ _) as [cc3|]; [|exact I].
  destruct (recovery_on_ack _ _ _ _ _ _ _ _) as [[[rec1 segs2] cc4]|]; [|exact I].
  match goal with |- sGr _ (match ch_type _ with ST_DATA => _ | ST_FIN => _ | ST_STATE => SOk ?x _
                                | ST_RESET => _ | ST_SYN => _ end) =>
    assert (F2 : G s x) by (eapply G_trans; [exact Ht|g_same]); abs_as x F2 s2 end.
  destruct (ch_type (m_hdr m)); try exact F2.
  - (* ST_DATA *)
    destruct (_ <? 0); [cbn [sGr]; eapply G_trans; [exact F2|apply force_ack_G]|].
    destruct (rx_add_remove _ _ _ _) as [[rx1 ar] w].
    destruct ar as [r|]; [|exact I].
    match goal with |- sGr _ (match add_err r with Some e => SErr ?x e | None => _ end) =>
      assert (F4 : G s x); [|abs_as x F4 s4] end.
    { eapply G_trans; [exact F2|]. eapply G_trans; [|apply add_wakes_G]. g_same. }
    destruct (add_err r); [apply GE_G; exact F4|].
    match goal with |- sGr _ (if _ then _ else SOk ?x _) =>
      assert (F5 : G s x); [|abs_as x F5 s5] end.
    { destruct r; exact F4. }
    destruct (_ || _); [|exact F5].
    eapply sGr_weaken; [eapply G_trans; [exact F5|apply force_ack_G]|].
    apply sGr_bind; [apply sG_sGr, send_ack_G|]. intros; apply G_refl.
  - (* ST_FIN *)
    destruct (_ && _); [|cbn [sGr]; eapply G_trans; [exact F2|apply force_ack_G]].
    destruct (rx_add_remove _ _ _ _) as [[rx1 ar] w].
    destruct ar as [r|]; [|exact I].
    match goal with |- sGr _ (match add_err r with Some e => SErr ?x e | None => _ end) =>
      assert (F5 : G s x); [|abs_as x F5 s5] end.
    { eapply G_trans; [exact F2|]. eapply G_trans; [|apply add_wakes_G].
      unfold force_immediate_ack. g_same. }
    destruct (add_err r); [apply GE_G; exact F5|].
    destruct (mark_vsock_closed _) as [tx1 w2]. cbn [sGr].
    eapply G_trans; [exact F5|]. eapply G_trans; [|apply add_wakes_G]. g_same.
Qed.

(* the arm of the receive loop that runs when the inbox is empty *)
Lemma recv_empty_G (s : vsock) (acc : on_ack_result) :
  v_inbox s = [] ->
  sG s (if v_inbox_closed s
        then sbind (maybe_send_fin (transition_to_fin_wait_1 s))
                   (fun s2 _ => SOk (set_state s2 Closed) (acc, true))
        else SOk (set_inbox_waker s true) (acc, false)).
Proof.
  intro Hi. destruct (v_inbox_closed s) eqn:Hc; [|cbn [sG]; g_same].
  pose proof (transition_G0 s) as HT. pose proof (maybe_send_fin_G (transition_to_fin_wait_1 s)) as HF.
  destruct (maybe_send_fin (transition_to_fin_wait_1 s)) as [s2 b|s2 e|] eqn:Em; cbn [sbind sG] in *; [| |exact I].
  - split.
    + eapply G0_trans; [exact HT|]. eapply G0_trans; [apply G_G0; exact HF|].
      split; [vsimpl; destruct (v_state s2); exact I|].
      split; [exists []; split; [reflexivity|constructor]|]. split; [vsimpl; auto|split; reflexivity].
    + intros f Hf. vsimpl. discriminate.
  - destruct HF as [(HF & _) He]. split; [|exact He]. split; [eapply G0_trans; eauto|].
    right. split; [exact Hc|]. eapply maybe_send_fin_err; exact Em.
Qed.

Lemma recv_loop_G : forall fuel s acc, sGr s (recv_loop cci fuel s acc).
Proof.
  induction fuel as [|m0 fuel IH]; intros s acc; cbn [recv_loop]; destruct (v_inbox s) as [|m rest] eqn:Ei.
  - apply sG_sGr. apply recv_empty_G. exact Ei.
  - exact I.
  - apply sG_sGr. apply recv_empty_G. exact Ei.
  - eapply sGr_weaken with (s := set_inbox s rest).
    { apply G_state; vsimpl; try reflexivity; [apply st_rel_refl|congruence|auto]. }
    apply sGr_bind; [apply process_incoming_message_G|].
    intros s1 r. destruct (_ || _); [apply G_refl|apply IH].
Qed.

Lemma acked_counts_as_sent_G (s : vsock) : G s (acked_counts_as_sent s).
Proof. unfold acked_counts_as_sent. destruct (seq_gt _ _ && seq_lt _ _); [g_same|apply G_refl]. Qed.

(* the bookkeeping of process_all_incoming_messages after the receive loop *)
Definition pa_tail (s1 : vsock) (res : on_ack_result * bool) : step unit :=
    let '(r, _) := res in
      let s2 :=
        if (0 <? ar_acked_segments r) || (0 <? ar_newly_sacked_segments r) then
          let s' := set_rto_retransmissions s1 0 in
          match ss_segs (v_segs s'), our_fin_if_unacked (v_state s') with
          | [], None => set_t_inactivity (set_t_retransmit s' None) None
          | _, _ =>
              restart_remote_inactivity_timer
                (set_t_retransmit s' (timer_arm (v_t_retransmit s') (v_now s')
                                        (retransmission_timeout (v_rtte s')) true))
          end
        else s1 in
      let s3o : step unit :=
        if 0 <? ar_acked_segments r then
          let s2 := acked_counts_as_sent s2 in
          let '(tx1, tr) := truncate_front (v_tx s2) (ar_acked_bytes r) in
          match tr with
          | TrBug _ _ => SErr (set_tx s2 tx1) (ErrBug BugTruncateFront)
          | TrOk => let '(tx2, w) := wake_writer tx1 in
                    SOk (add_wakes (set_tx s2 tx2) (tx_wakes w)) tt
          end
        else SOk s2 tt in
      sbind s3o (fun s3 _ =>
        match rv_phase (v_recovery s3) with
        | Recovering rc =>
            match calc_pipe (v_segs s3) (rc_high_rxt rc) (v_last_sent_seq_nr s3)
                            (roundtrip_time (v_rtte s3)) (v_now s3) with
            | None => SPanic
            | Some (segs', pipe, recalc) =>
                SOk (set_recovering (set_segs s3 segs')
                       {| rc_recovery_point := rc_recovery_point rc; rc_high_rxt := rc_high_rxt rc;
                          rc_total_retx := rc_total_retx rc; rc_pipe := pipe; rc_recalc := recalc;
                          rc_cwnd := rc_cwnd rc |}) tt
            end
        | _ => SOk s3 tt
        end).

Lemma process_all_eq (s : vsock) :
  process_all_incoming_messages cci s =
  sbind (recv_loop cci (v_inbox s ++ [ {| m_hdr := outgoing_header s; m_payload := [] |} ]) s
                   on_ack_result_default) pa_tail.
Proof. reflexivity. Qed.

Lemma pa_tail_G (s1 : vsock) res : sGr s1 (pa_tail s1 res).
Proof.
  destruct res as [r early]. unfold pa_tail. cbv beta iota zeta.
  match goal with |- context [acked_counts_as_sent ?x] =>
    assert (F2 : G s1 x); [|abs_as x F2 s2] end.
  { destruct (_ || _); [|apply G_refl].
    destruct (ss_segs _); [destruct (our_fin_if_unacked _)|];
      unfold restart_remote_inactivity_timer; g_same. }
  eapply sGr_weaken; [exact F2|].
  apply sGr_bind.
  { destruct (0 <? _); [|apply G_refl].
    eapply sGr_weaken; [apply acked_counts_as_sent_G|].
    generalize (acked_counts_as_sent s2). intro s2'.
    destruct (truncate_front _ _) as [tx1 tr]. destruct tr; cbn [sGr]; [|apply GE_G; g_same].
    destruct (wake_writer tx1) as [tx2 w]. eapply G_trans; [|apply add_wakes_G]. g_same. }
  intros s3 _. destruct (rv_phase _); try apply G_refl.
  destruct (calc_pipe _ _ _ _ _) as [[[segs' pipe] recalc]|]; [|exact I].
  cbn [sGr]. eapply G_trans; [|apply set_recovering_G]. g_same.
Qed.

(* the bookkeeping touches neither the inbox, nor the state, nor the transport flag *)
Definition keeps_in (s s' : vsock) : Prop :=
  v_inbox s' = v_inbox s /\ v_state s' = v_state s /\ v_opts s' = v_opts s /\
  v_transport_pending s' = v_transport_pending s.

Lemma pa_tail_keeps (s1 : vsock) res s3 u : pa_tail s1 res = SOk s3 u -> keeps_in s1 s3.
Proof.
  destruct res as [r early]. unfold pa_tail, keeps_in. cbv beta iota zeta.
  match goal with |- context [acked_counts_as_sent ?x] =>
    assert (F2 : keeps_in s1 x); [|abs_as x F2 s2] end.
  { unfold keeps_in. destruct (_ || _); [|auto].
    destruct (ss_segs _); [destruct (our_fin_if_unacked _)|];
      unfold restart_remote_inactivity_timer; vsimpl; auto. }
  assert (K : forall s3' : vsock, keeps_in s1 s3' ->
     match rv_phase (v_recovery s3') with
     | Recovering rc =>
         match calc_pipe (v_segs s3') (rc_high_rxt rc) (v_last_sent_seq_nr s3')
                         (roundtrip_time (v_rtte s3')) (v_now s3') with
         | None => SPanic
         | Some (segs', pipe, recalc) =>
             SOk (set_recovering (set_segs s3' segs')
                    {| rc_recovery_point := rc_recovery_point rc; rc_high_rxt := rc_high_rxt rc;
                       rc_total_retx := rc_total_retx rc; rc_pipe := pipe; rc_recalc := recalc;
                       rc_cwnd := rc_cwnd rc |}) tt
         end
     | _ => SOk s3' tt
     end = SOk s3 u -> keeps_in s1 s3).
  { intros s3' F3. destruct (rv_phase _).
    - intro H; injection H as <-. exact F3.
    - intro H; injection H as <-. exact F3.
    - destruct (calc_pipe _ _ _ _ _) as [[[segs' pipe] recalc]|]; [|discriminate].
      intro H; injection H as <-. exact F3. }
  destruct (0 <? ar_acked_segments r).
  - assert (Ha : keeps_in s1 (acked_counts_as_sent s2))
      by (unfold acked_counts_as_sent; destruct (seq_gt _ _ && seq_lt _ _); exact F2).
    revert Ha. generalize (acked_counts_as_sent s2). intros s2' Ha.
    destruct (truncate_front _ _) as [tx1 tr]. destruct tr; cbn [sbind]; [|discriminate].
    destruct (wake_writer tx1) as [tx2 w]. apply K. exact Ha.
  - cbn [sbind]. apply K. exact F2.
Qed.

Lemma process_all_G (s : vsock) : sGr s (process_all_incoming_messages cci s).
Proof.
  rewrite process_all_eq. apply sGr_bind; [apply recv_loop_G|]. intros s1 res. apply pa_tail_G.
Qed.

(* ------------------------------------------------------------------ handshake *)
Lemma maybe_send_syn_ack_G (s : vsock) : sG s (maybe_send_syn_ack s).
Proof.
  unfold maybe_send_syn_ack.
  assert (Gg : forall c, is_local_fin_or_later (v_state s) = false ->
    sG s (if c =? o_max_retx (v_opts s) then SErr s ErrMaxSynAckRetransmissionsReached
     else sbind (send_ack s) (fun s1 sent => if sent then
        SOk (set_t_syn_ack_resend (set_state s1 (SynAckSent (c + 1)))
              (timer_arm (v_t_syn_ack_resend s1) (v_now s1) SYNACK_RESEND_INTERNAL true)) tt
        else SOk s1 tt))).
  { intros c Hl. destruct (_ =? _); [split; [apply GE_G, G_refl|discriminate]|].
    pose proof (send_ack_G s) as H. unfold send_ack in H |- *.
    match goal with |- context [send_control_packet s ?h] =>
      pose proof (send_control_packet_fields s h) as Hf end.
    destruct (send_control_packet s _) as [s1 a|s1 e|]; cbn [sbind sG] in *; auto.
    destruct a; cbn [sG]; [|exact H]. eapply G_trans; [exact H|].
    destruct Hf as (_ & _ & Hst & _).
    apply G_state; vsimpl; auto; [|intros; discriminate].
    rewrite Hst. destruct (v_state s); cbn [is_local_fin_or_later] in Hl; try discriminate; exact I. }
  destruct (v_state s) eqn:Es; try (cbn [sG]; g_same).
  - apply Gg. reflexivity.
  - destruct (timer_expired _ _); [apply Gg; reflexivity|apply G_refl].
Qed.

(* ------------------------------------------------------------------ death *)
(* just_before_death: the state and the send side are kept; at most one datagram is added, the FIN of
   the error path (only for an error in a state before our own FIN), numbered seq_nr *)
Lemma jbd_spec (s : vsock) e :
  let s' := just_before_death s e in
  v_state s' = v_state s /\ v_segs s' = v_segs s /\ ring (v_tx s') = ring (v_tx s) /\
  v_inbox s' = v_inbox s /\ v_inbox_closed s' = v_inbox_closed s /\
  v_t_syn_ack_resend s' = v_t_syn_ack_resend s /\
  (v_out s' = v_out s \/
   (is_local_fin_or_later (v_state s) = false /\ e <> None /\
    exists p, v_out s' = p :: v_out s /\ ch_type (p_hdr p) = ST_FIN /\ ch_seq (p_hdr p) = v_seq_nr s)).
Proof.
  unfold just_before_death. cbv zeta.
  match goal with |- context [mark_both_closed ?x] =>
    assert (H1 : v_state x = v_state s /\ v_segs x = v_segs s /\ ring (v_tx x) = ring (v_tx s) /\
                 v_inbox x = v_inbox s /\ v_inbox_closed x = v_inbox_closed s /\
                 v_t_syn_ack_resend x = v_t_syn_ack_resend s /\ v_out x = v_out s /\ v_seq_nr x = v_seq_nr s);
    [|revert H1; generalize x; intros s1 (A1 & A2 & A3 & A4 & A5 & A6 & A7 & A8)] end.
  { destruct e; [|repeat split]. unfold rx_enqueue_error, add_wakes. vsimpl. repeat split. }
  assert (H2 : v_state (mark_both_closed s1) = v_state s /\ v_segs (mark_both_closed s1) = v_segs s /\
               ring (v_tx (mark_both_closed s1)) = ring (v_tx s) /\
               v_inbox (mark_both_closed s1) = v_inbox s /\
               v_inbox_closed (mark_both_closed s1) = v_inbox_closed s /\
               v_t_syn_ack_resend (mark_both_closed s1) = v_t_syn_ack_resend s /\
               v_out (mark_both_closed s1) = v_out s /\ v_seq_nr (mark_both_closed s1) = v_seq_nr s).
  { unfold mark_both_closed. destruct (rx_mark_vsock_closed (v_rx s1)) as [rx1 w1].
    unfold mark_vsock_closed, add_wakes. vsimpl. cbn [ring upd]. repeat split; assumption. }
  revert H2. generalize (mark_both_closed s1). intros s2 (B1 & B2 & B3 & B4 & B5 & B6 & B7 & B8).
  destruct e as [err|]; [|repeat split; auto].
  destruct (negb (is_local_fin_or_later (v_state s2))) eqn:El; [|repeat split; auto].
  assert (Hl : is_local_fin_or_later (v_state s) = false) by (rewrite <- B1; apply negb_true_iff; exact El).
  set (s3 := set_seq_nr s2 (wadd16 (v_seq_nr s2) 1)).
  set (h := hdr_with (outgoing_header s2) ST_FIN (v_seq_nr s2) None).
  pose proof (send_control_packet_fields s3 h) as Hf.
  assert (Hout : forall s4 b, send_control_packet s3 h = SOk s4 b ->
            v_out s4 = v_out s3 \/ exists p, v_out s4 = p :: v_out s3 /\ ch_type (p_hdr p) = ST_FIN /\
                                              ch_seq (p_hdr p) = v_seq_nr s2).
  { intros s4 b. unfold send_control_packet. destruct (v_transport_pending s3).
    { intro H; injection H as <- _. left; reflexivity. }
    destruct (next_send s3 _) as [sx o] eqn:En. apply next_send_same in En.
    destruct o; try discriminate; intro H; injection H as <- _.
    - right. eexists. unfold on_packet_sent, emit. destruct En as [->|[r ->]]; vsimpl;
        (split; [reflexivity|split; reflexivity]).
    - left. destruct En as [->|[r ->]]; reflexivity. }
  assert (Herr : forall s4 e4, send_control_packet s3 h = SErr s4 e4 -> v_out s4 = v_out s3).
  { intros s4 e4 H. eapply send_control_packet_out_noemit. right. eexists; exact H. }
  assert (R3 : ring (v_tx s3) = ring (v_tx s) /\ v_inbox s3 = v_inbox s /\ v_inbox_closed s3 = v_inbox_closed s /\
               v_t_syn_ack_resend s3 = v_t_syn_ack_resend s /\ v_out s3 = v_out s) by (unfold s3; vsimpl; auto).
  destruct R3 as (R1 & R2 & R3 & R4 & R5).
  assert (Hfr : forall s4 : vsock, (v_rx s4 = v_rx s3 /\ v_tx s4 = v_tx s3 /\ v_state s4 = v_state s3 /\
                            v_wakes s4 = v_wakes s3 /\ v_seq_nr s4 = v_seq_nr s3 /\ v_segs s4 = v_segs s3) ->
                v_state s4 = v_state s /\ v_segs s4 = v_segs s /\ ring (v_tx s4) = ring (v_tx s)).
  { intros s4 (_ & F2 & F3 & _ & _ & F6). rewrite F2, F3, F6. unfold s3; vsimpl. auto. }
  destruct (send_control_packet s3 h) as [s4 b|s4 e4|] eqn:Es.
  - destruct (Hfr s4 Hf) as (C1 & C2 & C3).
    assert (Hin : v_inbox s4 = v_inbox s /\ v_inbox_closed s4 = v_inbox_closed s /\
                  v_t_syn_ack_resend s4 = v_t_syn_ack_resend s).
    { revert Es. unfold send_control_packet. destruct (v_transport_pending s3).
      { intro H; injection H as <- _. auto. }
      destruct (next_send s3 _) as [sx o] eqn:En. apply next_send_same in En.
      destruct o; try discriminate; intro H; injection H as <- _;
        destruct En as [->|[r ->]]; unfold on_packet_sent, emit; vsimpl; auto. }
    destruct Hin as (D1 & D2 & D3).
    repeat (split; [assumption|]).
    destruct (Hout s4 b eq_refl) as [Ho|(p & Ho & Hp1 & Hp2)].
    + left. congruence.
    + right. split; [exact Hl|]. split; [discriminate|]. exists p. rewrite Ho, R5. repeat split; congruence.
  - destruct (Hfr s4 Hf) as (C1 & C2 & C3).
    assert (Hin : v_inbox s4 = v_inbox s /\ v_inbox_closed s4 = v_inbox_closed s /\
                  v_t_syn_ack_resend s4 = v_t_syn_ack_resend s).
    { revert Es. unfold send_control_packet. destruct (v_transport_pending s3); [discriminate|].
      destruct (next_send s3 _) as [sx o] eqn:En. apply next_send_same in En.
      destruct o; try discriminate; intro H; injection H as <- _;
        destruct En as [->|[r ->]]; vsimpl; auto. }
    destruct Hin as (D1 & D2 & D3).
    repeat (split; [assumption|]). left. rewrite (Herr s4 e4 eq_refl). exact R5.
  - unfold s3. vsimpl. repeat (split; [assumption|]). left. assumption.
Qed.

Lemma jbd_G0 (s0 s1 : vsock) e :
  G0 s0 s1 -> (is_local_fin_or_later (v_state s1) = true \/ e = None) -> G0 s0 (just_before_death s1 e).
Proof.
  intros H Hc. pose proof (jbd_spec s1 e) as J. cbv zeta in J.
  destruct J as (J1 & _ & _ & J4 & J5 & _ & J7).
  assert (Ho : v_out (just_before_death s1 e) = v_out s1).
  { destruct J7 as [J7|(Hl & He & _)]; [exact J7|]. destruct Hc; congruence. }
  destruct H as (A1 & (l & A2 & A3) & A4 & A5 & A6).
  split; [rewrite J1; exact A1|]. split; [exists l; rewrite Ho, J1; auto|].
  split; [intro Hi; rewrite J4; auto|]. split; [congruence|].
  pose proof (just_before_death_frame s1 e) as ((Fo & _) & _). congruence.
Qed.

(* ------------------------------------------------------------------ poll_body, in two parts *)
(* the end of poll_body, after maybe_send_ack *)
Definition body_finish (s : vsock) : body_res :=
  if state_is_closed (v_state s) (o_wait_for_last_ack (v_opts s)) then
    BrReturn (just_before_death s None) PollReadyOk
  else
    let s := if is_local_fin_or_later (v_state s)
             then set_t_inactivity s (timer_arm (v_t_inactivity s) (v_now s)
                                        SHUTDOWN_FINAL_CHANCE_DELAY false)
             else s in
    let '(s, t) := next_timer_to_poll s in
    let s := match t with
             | Some instant => arm_in s (sat_sub instant (v_now s))
             | None => s
             end in
    BrReturn s PollPending.

(* from the decision to close on own initiative on *)
Definition body_back (s : vsock) : body_res :=
  let s := if should_close_on_own_initiative s then transition_to_fin_wait_1 s else s in
  pend (maybe_send_fin s) (fun s _ =>
  pend (maybe_send_ack s) (fun s _ => body_finish s)).

(* everything before, with the rest as a continuation: the head (up to the incoming messages) and the
   middle part (flush, inactivity, segmentation, send_tx_queue) *)
Definition body_head (k : vsock -> body_res) (s0 : vsock) : body_res :=
  pend (maybe_send_syn_ack (body_start s0)) (fun s _ =>
  pend (if immediate_ack_to_transmit s then send_ack s else SOk s false) (fun s _ =>
  pend (process_all_incoming_messages cci s) (fun s _ => k s))).

Definition body_mid (k : vsock -> body_res) (s : vsock) : body_res :=
  let '(rx1, fr, w) := rx_flush (v_rx s) in
  match fr with
  | FlPanic => BrPanic
  | FlOk _ =>
    let s := add_wakes (set_rx s rx1) (rx_wakes w) in
    if timer_expired (v_t_inactivity s) (v_now s) then die s ErrRemoteInactiveForTooLong
    else
    bail (split_tx_queue_into_segments cci s) (fun s _ =>
    pend (send_tx_queue cci s) (fun s _ => k s))
  end.

Definition body_front (k : vsock -> body_res) (s0 : vsock) : body_res := body_head (body_mid k) s0.

Lemma poll_body_parts s0 : poll_body cci s0 = body_front body_back s0.
Proof. reflexivity. Qed.

(* the ways out of the front part: all of them under G *)
Definition early (s : vsock) (r : body_res) : Prop :=
  match r with
  | BrRestart s' => G s s'
  | BrReturn s' PollPending => G s s' /\ v_transport_pending s' = true
  | BrReturn s' (PollReadyErr e) => exists s1, GE s s1 e /\ s' = just_before_death s1 (Some e)
  | BrReturn _ _ => False
  | BrPanic => True
  end.

Lemma bail_walk {A} (P : body_res -> Prop) (s0 s : vsock) (m : step A) k :
  G s0 s -> sGr s m -> (forall r, early s0 r -> P r) ->
  (forall s1 a, m = SOk s1 a -> G s0 s1 -> v_restart s1 = false -> P (k s1 a)) -> P (bail m k).
Proof.
  intros F Hm He Hk. unfold bail. destruct m as [s1 a|s1 e|]; cbn [sGr] in Hm.
  - assert (F1 : G s0 s1) by (eapply G_trans; eauto).
    destruct (v_restart s1) eqn:R; [apply He; exact F1|apply Hk; auto].
  - apply He. unfold die. cbn [early]. exists s1. split; [eapply GE_trans; eauto|reflexivity].
  - apply He. exact I.
Qed.

Lemma pend_walk {A} (P : body_res -> Prop) (s0 s : vsock) (m : step A) k :
  G s0 s -> sGr s m -> (forall r, early s0 r -> P r) ->
  (forall s1 a, m = SOk s1 a -> G s0 s1 -> v_restart s1 = false -> v_transport_pending s1 = false ->
                P (k s1 a)) ->
  P (pend m k).
Proof.
  intros F Hm He Hk. unfold pend. eapply bail_walk; eauto.
  intros s1 a Em F1 R. destruct (v_transport_pending s1) eqn:T; [apply He; split; assumption|].
  rewrite R. apply Hk; assumption.
Qed.

Lemma body_start_G (s0 : vsock) : G s0 (body_start s0).
Proof. unfold body_start. g_same. Qed.

Lemma body_head_walk (P : body_res -> Prop) k (s0 : vsock) :
  (forall r, early s0 r -> P r) ->
  (forall s2 s3, G s0 s2 -> v_transport_pending s2 = false ->
                 process_all_incoming_messages cci s2 = SOk s3 tt -> G s0 s3 ->
                 v_restart s3 = false -> v_transport_pending s3 = false -> P (k s3)) ->
  P (body_head k s0).
Proof.
  intros He Hk. unfold body_head.
  eapply pend_walk; [apply body_start_G|apply sG_sGr, maybe_send_syn_ack_G|exact He|]. intros s1 _ _ F1 _ _.
  eapply pend_walk; [exact F1| |exact He|].
  { destruct (immediate_ack_to_transmit s1); [apply sG_sGr, send_ack_G|apply G_refl]. }
  intros s2 _ _ F2 _ T2.
  eapply pend_walk; [exact F2|apply process_all_G|exact He|]. intros s3 [] E3 F3 R3 T3.
  apply (Hk s2 s3); assumption.
Qed.

Lemma body_mid_walk (P : body_res -> Prop) k (s0 s3 : vsock) :
  G s0 s3 ->
  (forall r, early s0 r -> P r) ->
  (forall s4 s5 s6, G s0 s4 -> split_tx_queue_into_segments cci s4 = SOk s5 tt ->
                    send_tx_queue cci s5 = SOk s6 tt -> G s0 s6 ->
                    v_restart s6 = false -> v_transport_pending s6 = false -> P (k s6)) ->
  P (body_mid k s3).
Proof.
  intros F3 He Hk. unfold body_mid.
  destruct (rx_flush (v_rx s3)) as [[rx1 fr] w]. destruct fr; cbv beta iota zeta; [|apply He; exact I].
  assert (F4 : G s0 (add_wakes (set_rx s3 rx1) (rx_wakes w))).
  { eapply G_trans; [exact F3|]. eapply G_trans; [|apply add_wakes_G]. g_same. }
  abs_as (add_wakes (set_rx s3 rx1) (rx_wakes w)) F4 s4.
  destruct (timer_expired _ _).
  { apply He. unfold die. cbn [early]. exists s4. split; [apply GE_G; exact F4|reflexivity]. }
  eapply bail_walk; [exact F4|apply sG_sGr, split_G|exact He|]. intros s5 [] E5 F5 _.
  eapply pend_walk; [exact F5|apply sG_sGr, send_tx_queue_G|exact He|]. intros s6 [] E6 F6 R6 T6.
  apply (Hk s4 s5 s6); assumption.
Qed.

Lemma body_front_walk (P : body_res -> Prop) k (s0 : vsock) :
  (forall r, early s0 r -> P r) ->
  (forall s4 s5 s6, G s0 s4 -> split_tx_queue_into_segments cci s4 = SOk s5 tt ->
                    send_tx_queue cci s5 = SOk s6 tt -> G s0 s6 ->
                    v_restart s6 = false -> v_transport_pending s6 = false -> P (k s6)) ->
  P (body_front k s0).
Proof.
  intros He Hk. unfold body_front. apply body_head_walk; [exact He|].
  intros s2 s3 _ _ _ F3 _ _. apply (body_mid_walk P k s0 s3 F3 He Hk).
Qed.

(* what a whole poll_body does, under G0; a Pending return with a writable transport comes from the end
   of the body, where the connection is not closed *)
Definition not_closed (s : vsock) : Prop :=
  state_is_closed (v_state s) (o_wait_for_last_ack (v_opts s)) = false.

Definition bG0 (s0 : vsock) (r : body_res) : Prop :=
  match r with
  | BrRestart s' => G0 s0 s'
  | BrReturn s' PollPending => G0 s0 s' /\ (v_transport_pending s' = false -> not_closed s')
  | BrReturn s' PollReadyOk => exists s1, G0 s0 s1 /\ s' = just_before_death s1 None
  | BrReturn s' (PollReadyErr e) => exists s1, G0 s0 s1 /\ s' = just_before_death s1 (Some e)
  | BrReturn _ PollPanic => False
  | BrPanic => True
  end.

Lemma early_bG0 s0 r : early s0 r -> bG0 s0 r.
Proof.
  destruct r as [s' [| |e|]|s'|]; cbn [early bG0]; auto using G_G0; try tauto.
  - intros [H T]. split; [apply G_G0; exact H|]. intro X. congruence.
  - intros (s1 & H & E). exists s1. split; [apply H|exact E].
Qed.

Definition sG0 {A} (s : vsock) (m : step A) : Prop :=
  match m with SOk s' _ | SErr s' _ => G0 s s' | SPanic => True end.

Lemma sG_sG0 {A} s (m : step A) : sG s m -> sG0 s m.
Proof. destruct m; cbn [sG sG0]; [apply G_G0|intros [[H _] _]; exact H|auto]. Qed.

Lemma pend_G0 {A} (s0 s : vsock) (m : step A) k :
  G0 s0 s -> sG0 s m -> (forall s1 a, G0 s0 s1 -> bG0 s0 (k s1 a)) -> bG0 s0 (pend m k).
Proof.
  intros F Hm Hk. unfold pend, bail. destruct m as [s1 a|s1 e|]; cbn [sG0] in Hm; [| |exact I].
  - assert (F1 : G0 s0 s1) by (eapply G0_trans; eauto).
    destruct (v_restart s1); [exact F1|]. destruct (v_transport_pending s1) eqn:T.
    + cbn [bG0]. split; [exact F1|]. intro X. congruence.
    + apply Hk; exact F1.
  - unfold die. cbn [bG0]. exists s1. split; [eapply G0_trans; eauto|reflexivity].
Qed.

Lemma body_finish_G0 (s0 s : vsock) : G0 s0 s -> bG0 s0 (body_finish s).
Proof.
  intro F. unfold body_finish. destruct (state_is_closed _ _) eqn:Ec.
  { cbn [bG0]. exists s. auto. }
  match goal with |- context [next_timer_to_poll ?x] =>
    assert (F10 : G0 s0 x /\ not_closed x); [|abs_as x F10 s10] end.
  { destruct (is_local_fin_or_later (v_state s)); split; try exact F; exact Ec. }
  destruct F10 as [F10 N10].
  unfold next_timer_to_poll, arm_in, add_wakes. destruct (v_transport_pending s10).
  - destruct (v_t_inactivity s10); cbn [bG0]; [|split; [exact F10|intros _; exact N10]].
    destruct (_ <=? _); (split; [exact F10|intros _; exact N10]).
  - match goal with |- bG0 _ (BrReturn match ?t with _ => _ end _) => destruct t end; cbn [bG0];
      [destruct (_ <=? _)|]; (split; [exact F10|intros _; exact N10]).
Qed.

Lemma body_back_G0 (s0 s6 : vsock) : G0 s0 s6 -> bG0 s0 (body_back s6).
Proof.
  intro F6. unfold body_back.
  assert (F7 : G0 s0 (if should_close_on_own_initiative s6 then transition_to_fin_wait_1 s6 else s6)).
  { destruct (should_close_on_own_initiative s6); [eapply G0_trans; [exact F6|apply transition_G0]|exact F6]. }
  eapply pend_G0; [exact F7|apply sG_sG0, maybe_send_fin_G|]. intros s8 _ F8.
  eapply pend_G0; [exact F8|apply sG_sG0, maybe_send_ack_G|]. intros s9 _ F9.
  apply body_finish_G0. exact F9.
Qed.

(* the middle and back parts from any state reached under G *)
Lemma body_mid_back_G0 (s0 s3 : vsock) : G s0 s3 -> bG0 s0 (body_mid body_back s3).
Proof.
  intro F3. apply (body_mid_walk (bG0 s0) body_back s0 s3 F3).
  - apply early_bG0.
  - intros s4 s5 s6 _ _ _ F6 _ _. apply body_back_G0. apply G_G0. exact F6.
Qed.

Theorem poll_body_G0 (s0 : vsock) : bG0 s0 (poll_body cci s0).
Proof.
  rewrite poll_body_parts. apply body_front_walk.
  - apply early_bG0.
  - intros s4 s5 s6 _ _ _ F6 _ _. apply body_back_G0. apply G_G0. exact F6.
Qed.

(* the restart loop *)
Lemma poll_loop_ind (I : vsock -> Prop) (Q : vsock -> poll_result -> Prop) :
  (forall s, I s -> Q s PollPanic) ->
  (forall s, I s -> match poll_body cci s with
                    | BrReturn s' r => Q s' r
                    | BrRestart s' => I s'
                    | BrPanic => True
                    end) ->
  forall fuel s, I s -> Q (fst (poll_loop cci fuel s)) (snd (poll_loop cci fuel s)).
Proof.
  intros Hp Hb. induction fuel as [|fuel IH]; intros s Hi; cbn [poll_loop fst snd]; [apply Hp; exact Hi|].
  specialize (Hb s Hi). destruct (poll_body cci s) as [s' r|s'|]; cbn [fst snd].
  - exact Hb.
  - apply IH. exact Hb.
  - apply Hp. exact Hi.
Qed.

(* ================================================================== datagrams other than ST_FIN *)
Definition nofin (p : packet) : Prop := ch_type (p_hdr p) <> ST_FIN.

Definition GN (s s' : vsock) : Prop := exists l, v_out s' = l ++ v_out s /\ Forall nofin l.

Lemma GN_refl s : GN s s.
Proof. exists []. split; [reflexivity|constructor]. Qed.

Lemma GN_trans a b c : GN a b -> GN b c -> GN a c.
Proof.
  intros (l1 & A1 & A2) (l2 & B1 & B2). exists (l2 ++ l1).
  split; [rewrite B1, A1, app_assoc; reflexivity|apply Forall_app; auto].
Qed.

Lemma GN_eq (s s' : vsock) : v_out s' = v_out s -> GN s s'.
Proof. intro E. exists []. split; [exact E|constructor]. Qed.

Definition is_reset_err (e : verror) : Prop := e = ErrStResetReceived.

(* an error is never the reset error *)
Definition sGN {A} (s : vsock) (m : step A) : Prop :=
  match m with SOk s' _ => GN s s' | SErr s' e => GN s s' /\ e <> ErrStResetReceived | SPanic => True end.

Lemma sGN_bind {A B} s (m : step A) (f : vsock -> A -> step B) :
  sGN s m -> (forall s1 a, sGN s1 (f s1 a)) -> sGN s (sbind m f).
Proof.
  intros Hm Hf. destruct m as [s1 a|s1 e|]; cbn [sbind sGN] in *; auto.
  specialize (Hf s1 a). destruct (f s1 a); cbn [sGN] in *; auto.
  - eapply GN_trans; eauto.
  - destruct Hf as [Hf He]. split; [eapply GN_trans; eauto|exact He].
Qed.

Lemma sGN_weaken {A} s0 s (m : step A) : GN s0 s -> sGN s m -> sGN s0 m.
Proof.
  intros H Hm. destruct m; cbn [sGN] in *; auto; [eapply GN_trans; eauto|].
  destruct Hm as [Hm He]. split; [eapply GN_trans; eauto|exact He].
Qed.

Lemma send_control_packet_GN (s : vsock) h : ch_type h <> ST_FIN -> sGN s (send_control_packet s h).
Proof.
  intro Hk. unfold send_control_packet. destruct (v_transport_pending s); [(apply GN_eq; reflexivity)|].
  destruct (next_send s _) as [s1 o] eqn:E. apply next_send_same in E.
  destruct o; cbn [sGN].
  - destruct E as [->|[r ->]]; unfold on_packet_sent, emit;
      (eexists [_]; split; [reflexivity|constructor; [exact Hk|constructor]]).
  - destruct E as [->|[r ->]]; (apply GN_eq; reflexivity).
  - split; [destruct E as [->|[r ->]]; (apply GN_eq; reflexivity)|discriminate].
  - split; [destruct E as [->|[r ->]]; (apply GN_eq; reflexivity)|discriminate].
Qed.

Lemma send_ack_GN (s : vsock) : sGN s (send_ack s).
Proof. unfold send_ack. apply send_control_packet_GN. discriminate. Qed.

Lemma maybe_send_syn_ack_GN (s : vsock) : sGN s (maybe_send_syn_ack s).
Proof.
  unfold maybe_send_syn_ack.
  assert (Gg : forall c,
    sGN s (if c =? o_max_retx (v_opts s) then SErr s ErrMaxSynAckRetransmissionsReached
     else sbind (send_ack s) (fun s1 sent => if sent then
        SOk (set_t_syn_ack_resend (set_state s1 (SynAckSent (c + 1)))
              (timer_arm (v_t_syn_ack_resend s1) (v_now s1) SYNACK_RESEND_INTERNAL true)) tt
        else SOk s1 tt))).
  { intros c. destruct (_ =? _); [split; [(apply GN_eq; reflexivity)|discriminate]|].
    apply sGN_bind; [apply send_ack_GN|]. intros s1 a. destruct a; (apply GN_eq; reflexivity). }
  destruct (v_state s); try (apply GN_eq; reflexivity); try apply Gg.
  destruct (timer_expired _ _); [apply Gg|(apply GN_eq; reflexivity)].
Qed.

Lemma state_table_keeps (s : vsock) h :
  match state_table s h with
  | TblDrop s' | TblContinue s' => v_out s' = v_out s
  | TblErr s' e => v_out s' = v_out s /\ (e = ErrStResetReceived -> v_state s' = Closed)
  end.
Proof.
  unfold state_table, restart_remote_inactivity_timer.
  destruct (ch_type h); destruct (v_state s);
    repeat match goal with |- context [if ?c then _ else _] => destruct c end;
    try reflexivity; (split; [reflexivity|]); try reflexivity; intros; try discriminate; reflexivity.
Qed.

Lemma add_err_not_reset r e : add_err r = Some e -> e <> ErrStResetReceived.
Proof. destruct r; cbn [add_err]; intro H; try discriminate; injection H as <-; discriminate. Qed.

(* process_incoming_message emits state packets only; it reports the reset error only from the table,
   with the state set to Closed *)
Definition sGNr {A} (s : vsock) (m : step A) : Prop :=
  match m with
  | SOk s' _ => GN s s'
  | SErr s' e => GN s s' /\ (e = ErrStResetReceived -> v_state s' = Closed)
  | SPanic => True
  end.

Lemma sGN_sGNr {A} s (m : step A) : sGN s m -> sGNr s m.
Proof. destruct m; cbn [sGN sGNr]; auto. intros [H He]. split; [exact H|]. intro; contradiction. Qed.

Lemma process_incoming_message_GN (s : vsock) m : sGNr s (process_incoming_message cci s m).
Proof.
  unfold process_incoming_message. cbv zeta.
  pose proof (state_table_keeps s (m_hdr m)) as Ht.
  destruct (state_table s (m_hdr m)) as [s1|s1 e|s1]; cbn [sGNr].
  - apply GN_eq. exact Ht.
  - destruct Ht as [Ht He]. split; [apply GN_eq; exact Ht|exact He].
  - destruct (remove_up_to_ack _ _ _ _) as [segs1 res].
    match goal with |- sGNr _ (match ?o with Some _ => _ | None => _ end) => destruct o as [rtte1|] end; [|exact I].
    destruct (cc_on_ack _ _ _ _ _) as [cc3|]; [|exact I].
    destruct (recovery_on_ack _ _ _ _ _ _ _ _) as [[[rec1 segs2] cc4]|]; [|exact I].
    match goal with |- sGNr _ (match ch_type _ with ST_DATA => _ | ST_FIN => _ | ST_STATE => SOk ?x _
                                  | ST_RESET => _ | ST_SYN => _ end) =>
      assert (F2 : GN s x) by (apply GN_eq; exact Ht); abs_as x F2 s2 end.
    destruct (ch_type (m_hdr m)); try exact F2.
    + (* ST_DATA *)
      destruct (_ <? 0); [exact F2|].
      destruct (rx_add_remove _ _ _ _) as [[rx1 ar] w].
      destruct ar as [r|]; [|exact I].
      match goal with |- sGNr _ (match add_err r with Some e => SErr ?x e | None => _ end) =>
        assert (F4 : GN s x) by exact F2; abs_as x F4 s4 end.
      destruct (add_err r) as [e|] eqn:Ea.
      { split; [exact F4|]. intro He. exfalso. exact (add_err_not_reset _ _ Ea He). }
      match goal with |- sGNr _ (if _ then _ else SOk ?x _) =>
        assert (F5 : GN s x) by (destruct r; exact F4); abs_as x F5 s5 end.
      destruct (_ || _); [|exact F5].
      apply sGN_sGNr. eapply sGN_weaken with (s := force_immediate_ack s5); [exact F5|].
      apply sGN_bind; [apply send_ack_GN|]. intros; apply GN_refl.
    + (* ST_FIN *)
      destruct (_ && _); [|exact F2].
      destruct (rx_add_remove _ _ _ _) as [[rx1 ar] w].
      destruct ar as [r|]; [|exact I].
      destruct (add_err r) as [e|] eqn:Ea.
      { split; [exact F2|]. intro He. exfalso. exact (add_err_not_reset _ _ Ea He). }
      destruct (mark_vsock_closed _) as [tx1 w2]. exact F2.
Qed.

(* the receive loop: the reset error means: a message was processed, the state is Closed, and only
   non-FIN datagrams were emitted on the way; a normal return means: only non-FIN datagrams were
   emitted, or the inbox is empty (the channel-closed arm may have sent our FIN) *)
Definition rlN {A} (s : vsock) (m : step A) : Prop :=
  match m with
  | SOk s' _ => GN s s' \/ v_inbox s' = []
  | SErr s' e => e = ErrStResetReceived -> v_state s' = Closed /\ v_inbox s <> [] /\ GN s s'
  | SPanic => True
  end.

Lemma recv_empty_N (s : vsock) (acc : on_ack_result) :
  v_inbox s = [] ->
  rlN s (if v_inbox_closed s
         then sbind (maybe_send_fin (transition_to_fin_wait_1 s))
                    (fun s2 _ => SOk (set_state s2 Closed) (acc, true))
         else SOk (set_inbox_waker s true) (acc, false)).
Proof.
  intro Hi. pose proof (recv_empty_G s acc Hi) as HG.
  destruct (v_inbox_closed s); [|left; apply GN_eq; reflexivity].
  destruct (sbind _ _) as [s' x|s' e|]; cbn [sG rlN] in *; auto.
  - right. destruct HG as ((_ & _ & H3 & _) & _). auto.
  - destruct HG as [_ He]. intro; contradiction.
Qed.

Lemma recv_loop_N : forall fuel s acc, rlN s (recv_loop cci fuel s acc).
Proof.
  induction fuel as [|m0 fuel IH]; intros s acc; cbn [recv_loop]; destruct (v_inbox s) as [|m rest] eqn:Ei.
  - apply recv_empty_N. exact Ei.
  - exact I.
  - apply recv_empty_N. exact Ei.
  - pose proof (process_incoming_message_GN (set_inbox s rest) m) as Hp.
    destruct (process_incoming_message cci (set_inbox s rest) m) as [s1 r|s1 e|]; cbn [sbind sGNr] in *; auto.
    + destruct (_ || _); [left; exact Hp|].
      specialize (IH s1 (result_update acc r)).
      destruct (recv_loop cci fuel s1 (result_update acc r)) as [s2 x|s2 e|]; cbn [rlN] in *; auto.
      * destruct IH as [IH|IH]; [left; eapply GN_trans; [exact Hp|exact IH]|right; exact IH].
      * intro He. destruct (IH He) as (A1 & _ & A3). split; [exact A1|]. split; [rewrite Ei; discriminate|].
        eapply GN_trans; [exact Hp|exact A3].
    + destruct Hp as [Hp He]. intro H. split; [apply He; exact H|]. split; [rewrite Ei; discriminate|exact Hp].
Qed.

Lemma process_all_N (s : vsock) : rlN s (process_all_incoming_messages cci s).
Proof.
  unfold process_all_incoming_messages.
  pose proof (recv_loop_N (v_inbox s ++ [{| m_hdr := outgoing_header s; m_payload := [] |}]) s
                on_ack_result_default) as Hl.
  destruct (recv_loop _ _ _ _) as [s1 [r early]|s1 e|]; cbn [sbind rlN] in *; auto.
  match goal with |- context [acked_counts_as_sent ?x] =>
    assert (F2 : v_out x = v_out s1 /\ v_inbox x = v_inbox s1); [|abs_as x F2 s2] end.
  { destruct (_ || _); [|auto].
    destruct (ss_segs _); [destruct (our_fin_if_unacked _)|];
      unfold restart_remote_inactivity_timer; vsimpl; auto. }
  destruct F2 as [F2 F2'].
  assert (K : forall s3 : vsock, v_out s3 = v_out s1 -> v_inbox s3 = v_inbox s1 ->
     rlN s (match rv_phase (v_recovery s3) with
            | Recovering rc =>
                match calc_pipe (v_segs s3) (rc_high_rxt rc) (v_last_sent_seq_nr s3)
                                (roundtrip_time (v_rtte s3)) (v_now s3) with
                | None => SPanic
                | Some (segs', pipe, recalc) =>
                    SOk (set_recovering (set_segs s3 segs')
                           {| rc_recovery_point := rc_recovery_point rc; rc_high_rxt := rc_high_rxt rc;
                              rc_total_retx := rc_total_retx rc; rc_pipe := pipe; rc_recalc := recalc;
                              rc_cwnd := rc_cwnd rc |}) tt
                end
            | _ => SOk s3 tt
            end)).
  { intros s3 E1 E2.
    assert (K0 : forall s4 : vsock, v_out s4 = v_out s3 -> v_inbox s4 = v_inbox s3 ->
                   rlN s (SOk (A:=unit) s4 tt)).
    { intros s4 D1 D2. cbn [rlN]. destruct Hl as [(l & Hl1 & Hl2)|Hl]; [left|right; congruence].
      exists l. split; [congruence|exact Hl2]. }
    destruct (rv_phase _); try (apply K0; reflexivity).
    destruct (calc_pipe _ _ _ _ _) as [[[segs' pipe] recalc]|]; [|exact I].
    apply K0; reflexivity. }
  destruct (0 <? ar_acked_segments r).
  - assert (Ha : v_out (acked_counts_as_sent s2) = v_out s1 /\ v_inbox (acked_counts_as_sent s2) = v_inbox s1)
      by (unfold acked_counts_as_sent; destruct (seq_gt _ _ && seq_lt _ _); auto).
    revert Ha. generalize (acked_counts_as_sent s2). intros s2' [Ha Ha']. cbv zeta.
    destruct (truncate_front _ _) as [tx1 tr]. destruct tr; cbn [sbind].
    + destruct (wake_writer tx1) as [tx2 w]. apply K; assumption.
    + cbn [rlN]. discriminate.
  - cbn [sbind]. apply K; assumption.
Qed.

(* ------------------------------------------------------------------ segmentation emits nothing and never
   asks for a restart *)
Definition keeps_out (s s' : vsock) : Prop := v_out s' = v_out s /\ v_restart s' = v_restart s.

Lemma split_keeps (s : vsock) :
  match split_tx_queue_into_segments cci s with
  | SOk s' _ | SErr s' _ => keeps_out s s'
  | SPanic => True
  end.
Proof.
  unfold split_tx_queue_into_segments, keeps_out. cbv zeta. destruct (_ =? 0); [split; reflexivity|].
  match goal with |- match (if is_remote_fin_or_later (v_state ?x) then _ else _) with _ => _ end =>
    assert (F : v_out x = v_out s /\ v_restart x = v_restart s); [|abs_as x F sx] end.
  { destruct (_ && _); [|auto]. destruct (grow _ _) as [tx1 g]. destruct g; [|auto].
    destruct (wake_writer tx1) as [tx2 w]. unfold add_wakes. vsimpl. auto. }
  destruct (is_remote_fin_or_later _); [exact F|].
  destruct (pop_expired_mtu_probe _ _ _) as [segs1 pe].
  assert (Hcont : forall (s2 : vsock) tl, v_out s2 = v_out s /\ v_restart s2 = v_restart s ->
    match (if tl <? ss_len_bytes (v_segs s2) then SErr s2 (ErrBug BugInBufferComputations)
           else match segment_loop (ring (v_tx s2)) (o_nagle (v_opts s2)) (v_ss s2) (v_segs s2)
                        (tl - ss_len_bytes (v_segs s2)) (v_last_remote_window s2) with
                | Some (ss', segs', remaining) =>
                    SOk (set_unsegmented (set_segs (set_ss s2 ss') segs') remaining) tt
                | None => SPanic
                end) with
    | SOk s' _ | SErr s' _ => v_out s' = v_out s /\ v_restart s' = v_restart s
    | SPanic => True
    end).
  { intros s2 tl F2. destruct (_ <? _); [exact F2|].
    destruct (segment_loop _ _ _ _ _ _) as [[[ss' segs'] rem]|]; [exact F2|exact I]. }
  destruct pe.
  - apply Hcont. destruct (seq_gt _ _); exact F.
  - exact F.
  - apply Hcont. exact F.
Qed.

(* ------------------------------------------------------------------ send_tx_queue asks for a restart only
   when the datagrams it emitted are all ST_DATA (the FIN of the RTO branch goes out only when no
   segment is undelivered, and then nothing is left that could be too long for the path) *)
Lemma data_pkts_nofin (s : vsock) h sent : Forall nofin (rev (map (data_pkt s h) sent)).
Proof.
  apply Forall_forall. intros p Hp. apply in_rev in Hp. apply in_map_iff in Hp. destruct Hp as (f & <- & _).
  unfold nofin, data_pkt, data_hdr. cbn [p_hdr ch_type]. discriminate.
Qed.

Lemma sd_frame_restart (s s' : vsock) : sd_frame s s' -> v_restart s' = v_restart s.
Proof. unfold sd_frame. tauto. Qed.

Lemma on_rto_reactions_restart (s s' : vsock) : on_rto_reactions cci s = Some s' -> v_restart s' = v_restart s.
Proof. unfold on_rto_reactions. destruct (on_rto_timeout _); [|discriminate]. intro H; injection H as <-. reflexivity. Qed.

Lemma rto_branch_restart (s : vsock) h s1 :
  step_st (rto_branch cci s h) = Some s1 -> v_restart s1 = v_restart s.
Proof.
  unfold rto_branch. destruct (timer_expired _ _); [|cbn [step_st]; intro H; injection H as <-; reflexivity].
  destruct (iter_for_sending _ _) as [|f rest].
  - destruct (our_fin_if_unacked _); [|cbn [step_st]; intro H; injection H as <-; reflexivity].
    destruct (_ =? _); [|cbn [step_st]; intro H; injection H as <-; reflexivity].
    set (sx := set_last_sent_seq_nr s (wsub16 (v_last_sent_seq_nr s) 1)).
    pose proof (VSock_LemmasTx.maybe_send_fin_spec sx) as Hm.
    destruct (maybe_send_fin sx) as [s2 [|]|s2 e|]; cbn [sbind step_st]; try discriminate.
    + destruct Hm as (seq & _ & _ & Hf & _). apply sd_frame_restart in Hf.
      destruct (on_rto_reactions cci s2) as [s3|] eqn:Er; [|discriminate].
      apply on_rto_reactions_restart in Er. cbn [step_st]. intro H; injection H as <-.
      change (v_restart s3 = v_restart s). rewrite Er, Hf. reflexivity.
    + intro H; injection H as <-. destruct Hm as (Hf & _). apply sd_frame_restart in Hf. exact Hf.
    + intro H; injection H as <-. destruct Hm as (Hf & _). apply sd_frame_restart in Hf. exact Hf.
  - pose proof (send_data_spec s h f) as Hd.
    destruct (send_data s h f) as [s2 [| |]|s2 e|]; cbn [step_st]; try discriminate.
    + destruct Hd as (Hf & _). apply sd_frame_restart in Hf.
      destruct (negb _).
      * destruct (on_rto_reactions cci s2) as [s3|] eqn:Er; [|discriminate].
        apply on_rto_reactions_restart in Er. cbn [step_st]. intro H; injection H as <-.
        change (v_restart s3 = v_restart s). congruence.
      * cbn [step_st]. intro H; injection H as <-. exact Hf.
    + intro H; injection H as <-. destruct Hd as ((Hf & _) & _). apply sd_frame_restart in Hf. exact Hf.
    + intro H; injection H as <-. destruct Hd as ((Hf & _) & _). apply sd_frame_restart in Hf. exact Hf.
    + intro H; injection H as <-. destruct Hd as ((Hf & _) & _). apply sd_frame_restart in Hf. exact Hf.
Qed.

Lemma rec_items_empty (s : vsock) rc : iter_for_sending (v_segs s) None = [] -> rec_items s rc = [].
Proof. unfold rec_items. intros ->. destruct (Z.to_nat _); reflexivity. Qed.

Lemma new_branch_empty (s : vsock) h :
  iter_for_sending (v_segs s) None = [] -> new_branch cci s h = SOk s tt.
Proof.
  intro Hi. unfold new_branch, new_items. rewrite (iter_none_nil _ _ Hi). reflexivity.
Qed.

Lemma after_rto_k_norestart h (s1 : vsock) ret s' u :
  iter_for_sending (v_segs s1) None = [] -> after_rto_k cci h s1 ret = SOk s' u ->
  v_restart s' = v_restart s1.
Proof.
  intros Hi. unfold after_rto_k.
  destruct ret; [intro H; injection H as <-; reflexivity|].
  destruct (0 <? _); [intro H; injection H as <-; reflexivity|].
  destruct (ss_segs _); [intro H; injection H as <-; reflexivity|].
  unfold rec_branch. destruct (rv_phase (v_recovery s1)) as [| |rc] eqn:Eph; cbn [sbind].
  - rewrite (new_branch_empty _ _ Hi). intro H; injection H as <-; reflexivity.
  - rewrite (new_branch_empty _ _ Hi). intro H; injection H as <-; reflexivity.
  - rewrite (rec_items_empty _ _ Hi). cbn [recovery_loop sbind]. unfold rec_after. cbv zeta.
    match goal with |- context [our_fin_if_unacked (v_state ?x)] =>
      assert (F : v_restart x = v_restart s1 /\ v_segs x = v_segs s1); [|abs_as x F s3] end.
    { unfold set_recovering. destruct (_ <? _); [|auto]. destruct (rc_recalc rc); [auto|].
      destruct (0 <? _); auto. }
    destruct F as [F1 F2].
    destruct (our_fin_if_unacked _); [destruct (_ =? _)|]; cbn [sbind].
    + intro H; injection H as <-. exact F1.
    + rewrite new_branch_empty by (rewrite F2; exact Hi). intro H; injection H as <-. exact F1.
    + rewrite new_branch_empty by (rewrite F2; exact Hi). intro H; injection H as <-. exact F1.
Qed.

Lemma after_rto_k_GN h (s1 : vsock) ret s' u : after_rto_k cci h s1 ret = SOk s' u -> GN s1 s'.
Proof.
  unfold after_rto_k.
  destruct ret; [intro H; injection H as <-; apply GN_refl|].
  destruct (0 <? _); [intro H; injection H as <-; apply GN_refl|].
  destruct (ss_segs _); [intro H; injection H as <-; apply GN_refl|].
  intro H.
  assert (Hs : step_st (sbind (rec_branch s1 h) (fun s ret => if ret then SOk s tt else new_branch cci s h))
               = Some s') by (rewrite H; reflexivity).
  destruct (rec_new_emits cci _ _ _ Hs) as (sent & Ho & _).
  exists (rev (map (data_pkt s1 h) sent)). split; [exact Ho|apply data_pkts_nofin].
Qed.

Theorem stq_restart_data (s s' : vsock) u :
  send_tx_queue cci s = SOk s' u -> v_restart s = false -> v_restart s' = true -> GN s s'.
Proof.
  rewrite send_tx_queue_eq. destruct (v_transport_pending s); [intro H; injection H as <-; congruence|].
  set (h := outgoing_header s).
  destruct (rto_branch cci s h) as [s1 ret|s1 e|] eqn:Er; cbn [sbind]; try discriminate.
  intros H R0 R1.
  assert (Hs : step_st (rto_branch cci s h) = Some s1) by (rewrite Er; reflexivity).
  pose proof (rto_branch_restart _ _ _ Hs) as Rr.
  pose proof (rto_branch_spec cci _ _ _ Hs) as Ho. rewrite Er in Ho.
  pose proof (after_rto_k_GN _ _ _ _ _ H) as Hl.
  destruct Ho as [Ho _ _ _ _ _
                 | f rest _ _ _ Ho _ _ _ _ _ _ _ _ _ _ _ _
                 | fin _ Hit _ _ _ _ Hsg _ _ _ _ _ _ _ _].
  - eapply GN_trans; [apply GN_eq; exact Ho|exact Hl].
  - eapply GN_trans; [|exact Hl]. exists [data_pkt s h f]. split; [exact Ho|].
    constructor; [|constructor]. unfold nofin, data_pkt, data_hdr. cbn [p_hdr ch_type]. discriminate.
  - exfalso. rewrite <- Hsg in Hit. pose proof (after_rto_k_norestart _ _ _ _ _ Hit H) as K. congruence.
Qed.

(* ================================================================== the segmented bytes lie within the
   send buffer: 0 <= ss_len_bytes <= length ring, an invariant of every trace (p = bytes acknowledged by
   messages already processed in this poll and not yet truncated from the ring) *)
Notation ss_ok := VSock_Inv.ss_ok.

Definition LB (p : Z) (s : vsock) : Prop :=
  seg_inv (v_segs s) /\ ss_ok (v_ss s) /\ 0 <= p /\
  ss_len_bytes (v_segs s) + p <= Z.of_nat (length (ring (v_tx s))).

Lemma LB_zero p s : LB p s -> LB 0 s.
Proof. unfold LB. intros (A & B & C & D). split; [exact A|]. split; [exact B|]. split; lia. Qed.

Lemma seg_len_eq t : seg_inv t -> ss_len_bytes t = ss_offset t - ss_removed t.
Proof. intros (_ & H & _). lia. Qed.

Lemma seg_len_nonneg t : seg_inv t -> 0 <= ss_len_bytes t.
Proof. intros (H1 & _ & H3 & _). rewrite H1. eapply tiled_sizes_nonneg; eauto. Qed.

(* steps that touch neither the segments, nor the segment sizes, nor the ring *)
Definition kp (s s' : vsock) : Prop :=
  v_segs s' = v_segs s /\ v_ss s' = v_ss s /\ ring (v_tx s') = ring (v_tx s).

Lemma kp_refl s : kp s s.
Proof. unfold kp. auto. Qed.
Lemma kp_trans a b c : kp a b -> kp b c -> kp a c.
Proof. unfold kp. intros (A1 & A2 & A3) (B1 & B2 & B3). repeat split; congruence. Qed.

Lemma LB_kp p s s' : LB p s -> kp s s' -> LB p s'.
Proof. unfold LB. intros H (K1 & K2 & K3). rewrite K1, K2, K3. exact H. Qed.

Lemma sd_kp (s s' : vsock) : sd_frame s s' -> v_segs s' = v_segs s -> kp s s'.
Proof.
  unfold sd_frame, kp. intros H Hs. repeat match goal with H : _ /\ _ |- _ => destruct H end.
  repeat split; congruence.
Qed.

Definition skp {A} (s : vsock) (m : step A) : Prop :=
  match m with SOk s' _ | SErr s' _ => kp s s' | SPanic => True end.

Lemma skp_bind {A B} s (m : step A) (f : vsock -> A -> step B) :
  skp s m -> (forall s1 a, skp s1 (f s1 a)) -> skp s (sbind m f).
Proof.
  intros Hm Hf. destruct m as [s1 a|s1 e|]; cbn [sbind skp] in *; auto.
  specialize (Hf s1 a). destruct (f s1 a); cbn [skp] in *; auto; eapply kp_trans; eauto.
Qed.

Lemma send_control_packet_kp (s : vsock) h : skp s (send_control_packet s h).
Proof.
  pose proof (VSock_LemmasTx.send_control_packet_spec s h) as H.
  destruct (send_control_packet s h) as [s' [|]|s' e|]; try exact I.
  - destruct H as (Hf & _ & Hs & _). apply sd_kp; assumption.
  - destruct H as (Hf & _ & Hs & _). apply sd_kp; assumption.
  - destruct H as (Hf & _ & Hs & _). apply sd_kp; assumption.
Qed.

Lemma send_ack_kp (s : vsock) : skp s (send_ack s).
Proof. unfold send_ack. apply send_control_packet_kp. Qed.

Lemma maybe_send_fin_kp (s : vsock) : skp s (maybe_send_fin s).
Proof.
  pose proof (VSock_LemmasTx.maybe_send_fin_spec s) as H.
  destruct (maybe_send_fin s) as [s' [|]|s' e|]; try exact I.
  - destruct H as (seq & _ & _ & Hf & _ & Hs & _). apply sd_kp; assumption.
  - destruct H as (Hf & _ & Hs & _). apply sd_kp; assumption.
  - destruct H as (Hf & _ & Hs & _). apply sd_kp; assumption.
Qed.

Ltac kp_triv := cbn [skp]; unfold kp; vsimpl; auto.

Lemma maybe_send_ack_kp (s : vsock) : skp s (maybe_send_ack s).
Proof.
  unfold maybe_send_ack.
  destruct (immediate_ack_to_transmit s); [apply send_ack_kp|].
  destruct (should_send_window_update s); [apply send_ack_kp|].
  destruct (timer_expired _ _).
  - destruct (ack_to_transmit s); [apply send_ack_kp|kp_triv].
  - destruct (0 <? _); kp_triv.
Qed.

Lemma maybe_send_syn_ack_kp (s : vsock) : skp s (maybe_send_syn_ack s).
Proof.
  unfold maybe_send_syn_ack.
  assert (Gg : forall c,
    skp s (if c =? o_max_retx (v_opts s) then SErr s ErrMaxSynAckRetransmissionsReached
     else sbind (send_ack s) (fun s1 sent => if sent then
        SOk (set_t_syn_ack_resend (set_state s1 (SynAckSent (c + 1)))
              (timer_arm (v_t_syn_ack_resend s1) (v_now s1) SYNACK_RESEND_INTERNAL true)) tt
        else SOk s1 tt))).
  { intros c. destruct (_ =? _); [kp_triv|].
    apply skp_bind; [apply send_ack_kp|]. intros s1 a. destruct a; kp_triv. }
  destruct (v_state s); try kp_triv; try apply Gg.
  destruct (timer_expired _ _); [apply Gg|kp_triv].
Qed.

Lemma transition_kp (s : vsock) : kp s (transition_to_fin_wait_1 s).
Proof. unfold transition_to_fin_wait_1. destruct (v_state s); kp_triv. Qed.

Lemma mark_both_closed_kp (s : vsock) : kp s (mark_both_closed s).
Proof.
  unfold mark_both_closed. destruct (rx_mark_vsock_closed (v_rx s)) as [rx1 w1].
  unfold mark_vsock_closed, add_wakes, kp. vsimpl. cbn [ring upd]. auto.
Qed.

Lemma jbd_kp (s : vsock) e : kp s (just_before_death s e).
Proof.
  unfold just_before_death. cbv zeta.
  match goal with |- context [mark_both_closed ?x] => assert (H1 : kp s x); [|revert H1; generalize x; intros s1 H1] end.
  { destruct e; [|kp_triv]. unfold rx_enqueue_error, add_wakes, kp. vsimpl. auto. }
  assert (H2 : kp s (mark_both_closed s1)) by (eapply kp_trans; [exact H1|apply mark_both_closed_kp]).
  revert H2. generalize (mark_both_closed s1). intros s2 H2.
  destruct e; [|exact H2]. destruct (negb _); [|exact H2].
  pose proof (send_control_packet_kp (set_seq_nr s2 (wadd16 (v_seq_nr s2) 1))
                (hdr_with (outgoing_header s2) ST_FIN (v_seq_nr s2) None)) as K.
  destruct (send_control_packet _ _); cbn [skp] in K; try exact H2;
    (eapply kp_trans; [exact H2|exact K]).
Qed.

(* ---- Hoare-style results ---- *)
Definition sLB {A} (p : Z) (m : step A) : Prop :=
  match m with SOk s' _ => LB p s' | SErr s' _ => LB 0 s' | SPanic => True end.

Lemma sLB_bind {A B} p (m : step A) (f : vsock -> A -> step B) :
  sLB p m -> (forall s1 a, LB p s1 -> sLB p (f s1 a)) -> sLB p (sbind m f).
Proof. intros Hm Hf. destruct m as [s1 a|s1 e|]; cbn [sbind sLB] in *; auto. Qed.

Lemma skp_sLB {A} p s (m : step A) : LB p s -> skp s m -> sLB p m.
Proof.
  intros H K. destruct m; cbn [skp sLB] in *; auto; [eapply LB_kp; eauto|].
  apply LB_zero with (p := p). eapply LB_kp; eauto.
Qed.

Lemma on_sent_len t i now : ss_len_bytes (on_sent t i now) = ss_len_bytes t.
Proof. reflexivity. Qed.

Lemma send_data_LB p (s : vsock) h f : LB p s -> sLB p (send_data s h f).
Proof.
  intros H. pose proof (send_data_spec s h f) as Hd.
  destruct (send_data s h f) as [s' [| |]|s' e|]; cbn [sLB]; try exact I.
  - destruct Hd as (Hf & _ & Hs & _). destruct H as (A & B & C & D).
    assert (Htx : v_tx s' = v_tx s /\ v_ss s' = v_ss s) by (unfold sd_frame in Hf; tauto).
    destruct Htx as [Htx Hss]. unfold LB. rewrite Hs, Hss, Htx, on_sent_len.
    split; [apply on_sent_inv; exact A|]. auto.
  - destruct Hd as ((Hf & _ & Hs & _) & _). eapply LB_kp; [exact H|apply sd_kp; assumption].
  - destruct Hd as ((Hf & _ & Hs & _) & _). eapply LB_kp; [exact H|apply sd_kp; assumption].
  - destruct Hd as ((Hf & _ & Hs & _) & _). apply LB_zero with (p := p).
    eapply LB_kp; [exact H|apply sd_kp; assumption].
Qed.

Lemma recovery_loop_LB p : forall items (s : vsock) h mss0 st, LB p s -> sLB p (recovery_loop items s h mss0 st).
Proof.
  induction items as [|f rest IH]; intros s h mss0 st H; cbn [recovery_loop]; [exact H|].
  destruct (negb _); [exact H|].
  destruct (_ && _); [apply IH; exact H|]. destruct (_ && _); [exact H|].
  pose proof (send_data_LB p s h f H) as Hd.
  destruct (send_data s h f) as [s1 r|s1 e|]; cbn [sLB] in *; auto.
  destruct r; cbn [sLB]; [apply IH; exact Hd|exact Hd|apply LB_zero with (p := p); exact Hd].
Qed.

Lemma new_data_loop_LB p : forall items (s : vsock) h rem, LB p s -> sLB p (new_data_loop items s h rem).
Proof.
  induction items as [|f rest IH]; intros s h rem H; cbn [new_data_loop]; [exact H|].
  destruct (_ <? _); [exact H|].
  pose proof (send_data_LB p s h f H) as Hd.
  destruct (send_data s h f) as [s1 r|s1 e|]; cbn [sLB] in *; auto.
  destruct r; cbn [sLB]; [apply IH; exact Hd|exact Hd|exact Hd].
Qed.

Lemma on_rto_reactions_kp (s s' : vsock) : on_rto_reactions cci s = Some s' -> kp s s'.
Proof. unfold on_rto_reactions. destruct (on_rto_timeout _); [|discriminate].
  intro H; injection H as <-. kp_triv. Qed.

Lemma send_tx_queue_LB p (s : vsock) : LB p s -> sLB p (send_tx_queue cci s).
Proof.
  intro H. unfold send_tx_queue. destruct (v_transport_pending s); [exact H|].
  apply sLB_bind.
  { destruct (timer_expired _ _); [|exact H].
    destruct (iter_for_sending _ _) as [|f l].
    - destruct (our_fin_if_unacked _); [|exact H].
      destruct (_ =? _); [|exact H].
      apply sLB_bind.
      { apply (skp_sLB p (set_last_sent_seq_nr s (wsub16 (v_last_sent_seq_nr s) 1))); [exact H|].
        apply maybe_send_fin_kp. }
      intros s1 a H1. destruct a; [|exact H1].
      destruct (on_rto_reactions cci s1) eqn:E; [|exact I]. apply on_rto_reactions_kp in E.
      cbn [sLB]. eapply LB_kp; [exact H1|]. eapply kp_trans; [exact E|kp_triv].
    - pose proof (send_data_LB p s (outgoing_header s) f H) as Hd.
      destruct (send_data _ _ f) as [s1 r|s1 e|]; cbn [sLB] in *; auto.
      destruct r; cbn [sLB]; auto; [|apply LB_zero with (p := p); exact Hd].
      cbv zeta.
      match goal with |- sLB _ (match ?o with _ => _ end) => destruct o as [s2|] eqn:E end; [|exact I].
      assert (F2 : kp s1 s2).
      { destruct (negb _); [apply on_rto_reactions_kp; exact E|injection E as <-; kp_triv]. }
      cbn [sLB]. eapply LB_kp; [exact Hd|]. eapply kp_trans; [exact F2|kp_triv]. }
  intros s1 ret H1. destruct ret; [exact H1|].
  destruct (0 <? _); [exact H1|]. destruct (ss_segs _); [exact H1|].
  apply sLB_bind.
  { destruct (rv_phase _); try exact H1.
    apply sLB_bind; [apply recovery_loop_LB; exact H1|].
    intros s2 [st early] H2. cbv beta iota zeta.
    destruct early; [exact H2|].
    match goal with |- sLB _ (match our_fin_if_unacked (v_state ?y) with _ => _ end) =>
      assert (F3 : LB p y); [|revert F3; generalize y; intros sy F3] end.
    { unfold set_recovering. destruct (_ <? _); [|exact H2]. destruct (rc_recalc _); [exact H2|].
      destruct (0 <? _); exact H2. }
    destruct (our_fin_if_unacked _); [destruct (_ =? _)|]; cbn [sLB]; exact F3. }
  intros s2 ret H2. destruct ret; [exact H2|].
  apply sLB_bind; [apply new_data_loop_LB; exact H2|].
  intros s3 tl H3. destruct tl as [[sq sz]|]; [|exact H3].
  destruct (pop_mtu_probe _ _) as [segs' popped] eqn:Ep. destruct popped; cbn [sLB];
    [|apply LB_zero with (p := p); exact H3].
  destruct H3 as (A & B & C & D).
  destruct (VSock_Inv.pop_mtu_probe_fields _ _ _ _ A Ep) as (A' & Hr & Ho).
  unfold LB. vsimpl. split; [exact A'|].
  split; [apply VSock_Inv.disarm_ss_ok; apply VSock_Inv.failed_ss_ok; exact B|].
  split; [exact C|]. rewrite (seg_len_eq _ A'). rewrite (seg_len_eq _ A) in D. lia.
Qed.

(* ---- segmentation ---- *)
Lemma split_LB (s : vsock) : LB 0 s -> sLB 0 (split_tx_queue_into_segments cci s).
Proof.
  intro H. unfold split_tx_queue_into_segments. cbv zeta.
  destruct (_ =? 0).
  { cbn [sLB]. eapply LB_kp; [exact H|]. unfold kp. vsimpl. unfold register_dispatcher_if_empty.
    destruct (ring (v_tx s)) eqn:Er; cbn [ring upd]; auto. }
  match goal with |- sLB _ (if is_remote_fin_or_later (v_state ?x) then _ else _) =>
    assert (F : LB 0 x /\ ring (v_tx x) = ring (v_tx s)); [|revert F; generalize x; intros s1 [F Fr]] end.
  { destruct (_ && _); [|auto]. unfold grow.
    destruct (_ <=? _); cbn [fst snd]; [split; [exact H|reflexivity]|].
    unfold wake_writer, add_wakes. split; [|vsimpl; reflexivity].
    eapply LB_kp; [exact H|]. unfold kp. vsimpl. cbn [ring upd]. auto. }
  destruct (is_remote_fin_or_later _); [exact F|].
  destruct (pop_expired_mtu_probe _ _ _) as [segs1 pe] eqn:Ep.
  destruct F as (A & B & C & D).
  destruct (VSock_Inv.pop_expired_fields _ _ _ _ _ A Ep) as (A1 & Hr1 & Ho1).
  assert (Hl1 : ss_len_bytes segs1 <= ss_len_bytes (v_segs s1)).
  { rewrite (seg_len_eq _ A1), (seg_len_eq _ A). lia. }
  assert (Hcont : forall s2 : vsock, seg_inv (v_segs s2) -> ss_ok (v_ss s2) -> ring (v_tx s2) = ring (v_tx s) ->
     ss_len_bytes (v_segs s2) <= Z.of_nat (length (ring (v_tx s))) ->
     sLB 0 (if Z.of_nat (length (ring (v_tx s))) <? ss_len_bytes (v_segs s2)
            then SErr s2 (ErrBug BugInBufferComputations)
            else match segment_loop (ring (v_tx s2)) (o_nagle (v_opts s2)) (v_ss s2) (v_segs s2)
                         (Z.of_nat (length (ring (v_tx s))) - ss_len_bytes (v_segs s2))
                         (v_last_remote_window s2) with
                 | Some (ss', segs', remaining) =>
                     SOk (set_unsegmented (set_segs (set_ss s2 ss') segs') remaining) tt
                 | None => SPanic
                 end)).
  { intros s2 A2 B2 R2 L2.
    destruct (Z.ltb_spec (Z.of_nat (length (ring (v_tx s)))) (ss_len_bytes (v_segs s2))) as [Hbad|Hok].
    - exfalso. lia.
    - destruct (VSock_Inv.segment_loop_spec (ring (v_tx s2)) (o_nagle (v_opts s2)) (v_ss s2) (v_segs s2)
                  (Z.of_nat (length (ring (v_tx s))) - ss_len_bytes (v_segs s2)) (v_last_remote_window s2) B2 A2)
        as (ss' & segs' & rem' & -> & A1' & A2' & A3' & A4' & A5'); [lia|].
      cbn [sLB]. unfold LB. vsimpl. split; [exact A2'|]. split; [exact A1'|]. split; [lia|].
      rewrite R2. rewrite (seg_len_eq _ A2'). rewrite (seg_len_eq _ A2) in A4', Hok. lia. }
  destruct pe as [rewind_to payload_size| |].
  - apply Hcont.
    + destruct (seq_gt _ _); vsimpl; exact A1.
    + destruct (seq_gt _ _); vsimpl; apply VSock_Inv.failed_ss_ok; exact B.
    + destruct (seq_gt _ _); vsimpl; exact Fr.
    + rewrite <- Fr. destruct (seq_gt _ _); vsimpl; lia.
  - cbn [sLB]. unfold LB. vsimpl. auto.
  - apply Hcont; try assumption. rewrite <- Fr. lia.
Qed.

(* ---- incoming messages ---- *)
Lemma remove_up_to_ack_zero t now ack sk t' r :
  remove_up_to_ack t now ack sk = (t', r) -> ar_acked_segments r = 0 -> ar_acked_bytes r = 0.
Proof.
  unfold remove_up_to_ack.
  set (dc := if 0 <=? seq_sub ack (ss_snd_una t)
             then Z.to_nat (Z.min (seq_sub ack (ss_snd_una t) + 1) (len_z (ss_segs t))) else 0%nat).
  set (a1 := drain_acc (firstn dc (ss_segs t)) now {| ac_rtt := None; ac_maxp := 0; ac_cnt := 0; ac_bytes := 0 |}).
  destruct (drain_acc_spec (firstn dc (ss_segs t)) now {| ac_rtt := None; ac_maxp := 0; ac_cnt := 0; ac_bytes := 0 |})
    as [Hc1 Hb1]. fold a1 in Hc1, Hb1. cbn [ac_cnt ac_bytes] in Hc1, Hb1.
  destruct (sack_phase t _ a1 _ now ack sk) as [[[rest2 a2] depth] lse].
  destruct (strip_delivered rest2 0 0) as [[rest3 cnt3] bytes3] eqn:E3.
  destruct (strip_delivered_spec _ _ _ _ _ _ E3) as (dropped & Hd & Hc3 & Hb3 & _).
  intro H; injection H as <- <-. cbn [ar_acked_segments ar_acked_bytes]. intro Hz.
  assert (L : length (firstn dc (ss_segs t)) = 0%nat /\ length dropped = 0%nat) by lia.
  destruct L as [L1 L2]. apply length_zero_iff_nil in L1, L2. rewrite L1 in Hb1. rewrite L2 in Hb3.
  cbn [sum_sizes] in *. lia.
Qed.

Lemma calc_pipe_len t hr hd rtt now t' p rc :
  calc_pipe t hr hd rtt now = Some (t', p, rc) -> ss_len_bytes t' = ss_len_bytes t.
Proof.
  unfold calc_pipe. destruct (_ <? _); [discriminate|].
  destruct (pipe_loop _ t hr _ now _) as [upd a]. intro H; injection H as <- _ _. reflexivity.
Qed.

Lemma recovery_on_ack_segs r h segs ls cc now rtt r' segs' cc' :
  recovery_on_ack cci r h segs ls cc now rtt = Some (r', segs', cc') -> seg_inv segs ->
  seg_inv segs' /\ ss_len_bytes segs' = ss_len_bytes segs.
Proof.
  unfold recovery_on_ack. cbv zeta. cbn [rv_phase rv_supports_sack rv_last_ack]. intros H Hinv.
  destruct (rv_phase r).
  - destruct (seq_ge _ _); injection H as _ <- _; auto.
  - destruct (ss_segs segs); [injection H as _ <- _; auto|].
    match type of H with (match ?c with _ => _ end) = _ => destruct c as [[dup' la']|] end; [|discriminate].
    destruct (dup' <? SACK_DUP_THRESH); [injection H as _ <- _; auto|].
    destruct (calc_pipe _ _ _ _ _) as [[[sg pipe] recalc]|] eqn:Ec; [|discriminate].
    injection H as _ <- _. split; [eapply calc_pipe_inv; eauto|eapply calc_pipe_len; eauto].
  - destruct (seq_ge _ _); injection H as _ <- _; auto.
Qed.

Definition res_ok (res : on_ack_result) : Prop :=
  0 <= ar_acked_bytes res /\ 0 <= ar_acked_segments res /\
  (ar_acked_segments res = 0 -> ar_acked_bytes res = 0).

Lemma pim_ack_LB p (s1 : vsock) h s2 res :
  LB p s1 -> pim_ack cci s1 h = Some (s2, res) -> LB (p + ar_acked_bytes res) s2 /\ res_ok res.
Proof.
  intros (A & B & C & D). unfold pim_ack.
  destruct (remove_up_to_ack _ _ _ _) as [segs1 res0] eqn:Er.
  match goal with |- (match ?o with Some _ => _ | None => _ end) = _ -> _ => destruct o as [rtte1|] end; [|discriminate].
  destruct (cc_on_ack cci _ _ _ _) as [cc3|]; [|discriminate].
  destruct (recovery_on_ack cci _ _ _ _ _ _ _) as [[[rec1 segs2] cc4]|] eqn:Ero; [|discriminate].
  intro H; injection H as <- <-.
  destruct (remove_up_to_ack_inv _ _ _ _ _ _ A Er) as (A1 & Hb & Hb0 & Hoff & _ & Hs0).
  pose proof (remove_up_to_ack_zero _ _ _ _ _ _ Er) as Hz.
  destruct (recovery_on_ack_segs _ _ _ _ _ _ _ _ _ _ Ero A1) as (A2 & Hl2).
  split; [|repeat split; assumption].
  unfold LB. vsimpl. split; [exact A2|]. split; [apply VSock_Inv.delivered_ss_ok; exact B|].
  split; [lia|]. rewrite Hl2. rewrite (seg_len_eq _ A1). rewrite (seg_len_eq _ A) in D. lia.
Qed.

Lemma pim_data_LB p (s2 : vsock) m res offset :
  LB p s2 ->
  match pim_data cci s2 m res offset with
  | SOk s' r' => LB p s' /\ r' = res
  | SErr s' _ => LB 0 s'
  | SPanic => True
  end.
Proof.
  intro H. unfold pim_data. destruct (offset <? 0); [split; [exact H|reflexivity]|]. cbv zeta.
  destruct (rx_add_remove _ KData (m_payload m) offset) as [[rx1 ar] w].
  match goal with |- match (match ar with UarPanic => _ | UarOk r => match add_err r with Some e => SErr ?x e | None => _ end end) with _ => _ end =>
    assert (H4 : LB p x); [|revert H4; generalize x; intros s4 H4] end.
  { destruct H as (A & B & C & D). unfold LB, add_wakes. vsimpl.
    split; [exact A|]. split; [apply VSock_Inv.delivered_ss_ok; exact B|]. split; assumption. }
  destruct ar as [r|]; [|exact I].
  destruct (add_err r); [apply LB_zero with (p := p); exact H4|].
  match goal with |- match (if _ then _ else SOk ?x _) with _ => _ end =>
    assert (H5 : LB p x); [|revert H5; generalize x; intros s5 H5] end.
  { destruct r; exact H4. }
  destruct (_ || _); [|split; [exact H5|reflexivity]].
  pose proof (send_ack_kp (force_immediate_ack s5)) as K.
  destruct (send_ack (force_immediate_ack s5)) as [s6 b|s6 e|]; cbn [sbind skp] in *; [| |exact I].
  - split; [|reflexivity]. eapply LB_kp; [exact H5|exact K].
  - apply LB_zero with (p := p). eapply LB_kp; [exact H5|exact K].
Qed.

Lemma pim_fin_LB p (s2 : vsock) m res offset seen :
  LB p s2 ->
  match pim_fin s2 m res offset seen with
  | SOk s' r' => LB p s' /\ r' = res
  | SErr s' _ => LB 0 s'
  | SPanic => True
  end.
Proof.
  intro H. unfold pim_fin. cbv zeta. destruct (_ && _); [|split; [exact H|reflexivity]].
  destruct (rx_add_remove _ KFin _ _) as [[rx1 ar] w].
  destruct ar as [r|]; [|exact I].
  destruct (add_err r); [apply LB_zero with (p := p); exact H|].
  unfold mark_vsock_closed. split; [|reflexivity].
  eapply LB_kp; [exact H|]. unfold kp, add_wakes, force_immediate_ack. vsimpl. cbn [ring upd]. auto.
Qed.

Lemma state_table_kp (s : vsock) h : kp s (tbl_state (state_table s h)).
Proof.
  unfold state_table, restart_remote_inactivity_timer, kp.
  destruct (ch_type h); destruct (v_state s); cbn [tbl_state negb];
    repeat (match goal with |- context [if ?c then _ else _] => destruct c end);
    cbn [tbl_state]; vsimpl; repeat split.
Qed.

Lemma pim_LB p (s : vsock) m :
  LB p s ->
  match process_incoming_message cci s m with
  | SOk s' res => LB (p + ar_acked_bytes res) s' /\ res_ok res
  | SErr s' _ => LB 0 s'
  | SPanic => True
  end.
Proof.
  intro H. rewrite process_incoming_message_eq.
  pose proof (state_table_kp s (m_hdr m)) as Ht.
  destruct (state_table s (m_hdr m)) as [s1|s1 e|s1]; cbn [tbl_state] in Ht.
  - split; [|unfold res_ok; cbn; lia]. replace (p + ar_acked_bytes on_ack_result_default) with p by (cbn; lia).
    eapply LB_kp; eauto.
  - apply LB_zero with (p := p). eapply LB_kp; eauto.
  - assert (H1 : LB p s1) by (eapply LB_kp; eauto).
    unfold pim_cont. destruct (pim_ack cci s1 (m_hdr m)) as [[s2 res]|] eqn:Ea; [|exact I].
    destruct (pim_ack_LB _ _ _ _ _ H1 Ea) as [H2 Hr]. cbv zeta.
    destruct (ch_type (m_hdr m)).
    + pose proof (pim_data_LB _ s2 m res (seq_sub (ch_seq (m_hdr m)) (wadd16 (v_last_consumed s2) 1)) H2) as K.
      destruct (pim_data _ _ _ _ _) as [s' r'|s' e|]; auto. destruct K as [K ->]. auto.
    + pose proof (pim_fin_LB _ s2 m res (seq_sub (ch_seq (m_hdr m)) (wadd16 (v_last_consumed s2) 1))
                    (is_remote_fin_or_later (v_state s)) H2) as K.
      destruct (pim_fin _ _ _ _ _) as [s' r'|s' e|]; auto. destruct K as [K ->]. auto.
    + auto.
    + auto.
    + auto.
Qed.

(* the accumulated result of the receive loop against the pending byte count *)
Definition acc_ok (acc : on_ack_result) (p : Z) : Prop :=
  ar_acked_bytes acc = p /\ 0 <= ar_acked_segments acc /\ (ar_acked_segments acc = 0 -> p = 0).

Lemma acc_ok_update acc p r : acc_ok acc p -> res_ok r -> 0 <= p -> acc_ok (result_update acc r) (p + ar_acked_bytes r).
Proof.
  unfold acc_ok, res_ok, result_update. cbn [ar_acked_bytes ar_acked_segments].
  intros (A1 & A2 & A3) (B1 & B2 & B3) Hp. repeat split; lia.
Qed.

Lemma recv_loop_LB : forall fuel (s : vsock) acc p,
  LB p s -> acc_ok acc p ->
  match recv_loop cci fuel s acc with
  | SOk s' (acc', _) => exists p', LB p' s' /\ acc_ok acc' p'
  | SErr s' _ => LB 0 s'
  | SPanic => True
  end.
Proof.
  assert (Hbase : forall (s : vsock) (acc : on_ack_result) p,
    LB p s -> acc_ok acc p ->
    match (if v_inbox_closed s
           then sbind (maybe_send_fin (transition_to_fin_wait_1 s))
                      (fun s2 _ => SOk (set_state s2 Closed) (acc, true))
           else SOk (set_inbox_waker s true) (acc, false)) with
    | SOk s' (acc', _) => exists p', LB p' s' /\ acc_ok acc' p'
    | SErr s' _ => LB 0 s'
    | SPanic => True
    end).
  { intros s acc p H Ha. destruct (v_inbox_closed s); [|exists p; split; [exact H|exact Ha]].
    pose proof (maybe_send_fin_kp (transition_to_fin_wait_1 s)) as K.
    assert (H1 : LB p (transition_to_fin_wait_1 s)) by (eapply LB_kp; [exact H|apply transition_kp]).
    destruct (maybe_send_fin _) as [s2 b|s2 e|]; cbn [sbind skp] in *; [| |exact I].
    - exists p. split; [|exact Ha]. eapply LB_kp; [exact H1|]. eapply kp_trans; [exact K|]. unfold kp. vsimpl. auto.
    - apply LB_zero with (p := p). eapply LB_kp; eauto. }
  induction fuel as [|m0 fuel IH]; intros s acc p H Ha; cbn [recv_loop];
    destruct (v_inbox s) as [|m rest] eqn:Ei; try (apply (Hbase s acc p); assumption); try exact I.
  pose proof (pim_LB p (set_inbox s rest) m H) as K.
  destruct (process_incoming_message cci (set_inbox s rest) m) as [s1 r|s1 e|]; cbn [sbind]; [| exact K | exact I].
  destruct K as [K Hr].
  assert (Ha1 : acc_ok (result_update acc r) (p + ar_acked_bytes r)).
  { apply acc_ok_update; try assumption. destruct H as (_ & _ & Hp & _). exact Hp. }
  destruct (_ || _); [exists (p + ar_acked_bytes r); split; assumption|].
  apply (IH s1 (result_update acc r) (p + ar_acked_bytes r)); assumption.
Qed.

Lemma pa_tail_LB p (s1 : vsock) r early : LB p s1 -> acc_ok r p -> sLB 0 (pa_tail s1 (r, early)).
Proof.
  intros H (Ha1 & Ha2 & Ha3). unfold pa_tail. cbv beta iota zeta.
  match goal with |- context [acked_counts_as_sent ?x] =>
    assert (F2 : LB p x); [|revert F2; generalize x; intros s2 F2] end.
  { destruct (_ || _); [|exact H].
    destruct (ss_segs _); [destruct (our_fin_if_unacked _)|];
      unfold restart_remote_inactivity_timer; exact H. }
  assert (K : forall s3 : vsock, LB 0 s3 ->
     sLB 0 (match rv_phase (v_recovery s3) with
            | Recovering rc =>
                match calc_pipe (v_segs s3) (rc_high_rxt rc) (v_last_sent_seq_nr s3)
                                (roundtrip_time (v_rtte s3)) (v_now s3) with
                | None => SPanic
                | Some (segs', pipe, recalc) =>
                    SOk (set_recovering (set_segs s3 segs')
                           {| rc_recovery_point := rc_recovery_point rc; rc_high_rxt := rc_high_rxt rc;
                              rc_total_retx := rc_total_retx rc; rc_pipe := pipe; rc_recalc := recalc;
                              rc_cwnd := rc_cwnd rc |}) tt
                end
            | _ => SOk s3 tt
            end)).
  { intros s3 H3. destruct (rv_phase _); try exact H3.
    destruct (calc_pipe _ _ _ _ _) as [[[segs' pipe] recalc]|] eqn:Ec; [|exact I].
    cbn [sLB]. destruct H3 as (A & B & C & D). unfold LB, set_recovering. vsimpl.
    split; [eapply calc_pipe_inv; eauto|]. split; [exact B|]. split; [exact C|].
    rewrite (calc_pipe_len _ _ _ _ _ _ _ _ Ec). exact D. }
  destruct (Z.ltb_spec 0 (ar_acked_segments r)) as [Hpos|Hz].
  - assert (Hx : LB p (acked_counts_as_sent s2))
      by (unfold acked_counts_as_sent; destruct (seq_gt _ _ && seq_lt _ _); exact F2).
    revert Hx. generalize (acked_counts_as_sent s2). intros s2' (A & B & C & D).
    pose proof (seg_len_nonneg _ A) as Hn.
    unfold truncate_front. cbv zeta. rewrite Ha1.
    replace (Z.min p (Z.of_nat (length (ring (v_tx s2'))))) with p by lia.
    rewrite Z.eqb_refl. unfold wake_writer. cbn [sbind]. apply K.
    unfold LB, add_wakes. vsimpl. cbn [ring upd]. split; [exact A|]. split; [exact B|]. split; [lia|].
    rewrite skipn_length. lia.
  - cbn [sbind]. apply K. apply LB_zero with (p := p). exact F2.
Qed.

Lemma process_all_LB (s : vsock) : LB 0 s -> sLB 0 (process_all_incoming_messages cci s).
Proof.
  intro H. rewrite process_all_eq.
  pose proof (recv_loop_LB (v_inbox s ++ [{| m_hdr := outgoing_header s; m_payload := [] |}]) s
                on_ack_result_default 0 H) as K.
  assert (Ha : acc_ok on_ack_result_default 0) by (unfold acc_ok; cbn; repeat split; lia).
  specialize (K Ha).
  destruct (recv_loop cci _ s on_ack_result_default) as [s1 [r early]|s1 e|]; cbn [sbind]; [|exact K|exact I].
  destruct K as (p' & K1 & K2). eapply pa_tail_LB; eauto.
Qed.

(* ---- poll_body, poll ---- *)
Definition bLB (r : body_res) : Prop :=
  match r with BrReturn s' _ | BrRestart s' => LB 0 s' | BrPanic => True end.

Lemma bail_LB {A} (m : step A) k :
  sLB 0 m -> (forall s1 a, LB 0 s1 -> bLB (k s1 a)) -> bLB (bail m k).
Proof.
  intros Hm Hk. unfold bail, die. destruct m as [s1 a|s1 e|]; cbn [sLB] in Hm; [| |exact I].
  - destruct (v_restart s1); [exact Hm|apply Hk; exact Hm].
  - cbn [bLB]. eapply LB_kp; [exact Hm|apply jbd_kp].
Qed.

Lemma pend_LB {A} (m : step A) k :
  sLB 0 m -> (forall s1 a, LB 0 s1 -> bLB (k s1 a)) -> bLB (pend m k).
Proof.
  intros Hm Hk. unfold pend. apply bail_LB; [exact Hm|].
  intros s1 a H1. destruct (v_transport_pending s1); [exact H1|].
  destruct (v_restart s1); [exact H1|apply Hk; exact H1].
Qed.

Theorem poll_body_LB (s0 : vsock) : LB 0 s0 -> bLB (poll_body cci s0).
Proof.
  intro H0. rewrite poll_body_parts. unfold body_front, body_head.
  assert (Hs : LB 0 (body_start s0)) by exact H0.
  apply pend_LB; [apply (skp_sLB 0 (body_start s0)); [exact Hs|apply maybe_send_syn_ack_kp]|]. intros s1 _ H1.
  apply pend_LB.
  { destruct (immediate_ack_to_transmit s1); [apply (skp_sLB 0 s1); [exact H1|apply send_ack_kp]|exact H1]. }
  intros s2 _ H2.
  apply pend_LB; [apply process_all_LB; exact H2|]. intros s3 _ H3.
  unfold body_mid. destruct (rx_flush (v_rx s3)) as [[rx1 fr] w]. destruct fr; cbv beta iota zeta; [|exact I].
  assert (H4 : LB 0 (add_wakes (set_rx s3 rx1) (rx_wakes w))) by exact H3.
  revert H4. generalize (add_wakes (set_rx s3 rx1) (rx_wakes w)). intros s4 H4.
  destruct (timer_expired _ _).
  { unfold die. cbn [bLB]. eapply LB_kp; [exact H4|apply jbd_kp]. }
  apply bail_LB; [apply split_LB; exact H4|]. intros s5 _ H5.
  apply pend_LB; [apply send_tx_queue_LB; exact H5|]. intros s6 _ H6.
  unfold body_back.
  assert (H7 : LB 0 (if should_close_on_own_initiative s6 then transition_to_fin_wait_1 s6 else s6)).
  { destruct (should_close_on_own_initiative s6); [eapply LB_kp; [exact H6|apply transition_kp]|exact H6]. }
  revert H7. generalize (if should_close_on_own_initiative s6 then transition_to_fin_wait_1 s6 else s6).
  intros s7 H7.
  apply pend_LB; [apply (skp_sLB 0 s7); [exact H7|apply maybe_send_fin_kp]|]. intros s8 _ H8.
  apply pend_LB; [apply (skp_sLB 0 s8); [exact H8|apply maybe_send_ack_kp]|]. intros s9 _ H9.
  unfold body_finish. destruct (state_is_closed _ _).
  { cbn [bLB]. eapply LB_kp; [exact H9|apply jbd_kp]. }
  match goal with |- context [next_timer_to_poll ?x] => assert (H10 : LB 0 x); [|revert H10; generalize x; intros s10 H10] end.
  { destruct (is_local_fin_or_later (v_state s9)); exact H9. }
  unfold next_timer_to_poll, arm_in, add_wakes. destruct (v_transport_pending s10).
  - destruct (v_t_inactivity s10); cbn [bLB]; [|exact H10]. destruct (_ <=? _); exact H10.
  - match goal with |- bLB (BrReturn match ?t with _ => _ end _) => destruct t end; cbn [bLB];
      [destruct (_ <=? _)|]; exact H10.
Qed.

Theorem poll_LB (s : vsock) : LB 0 s -> LB 0 (fst (poll cci s)).
Proof.
  intro H. unfold poll.
  apply (poll_loop_ind (LB 0) (fun s' _ => LB 0 s')).
  - auto.
  - intros t Ht. pose proof (poll_body_LB t Ht) as B. destruct (poll_body cci t); exact B.
  - exact H.
Qed.

(* ---- application events, construction ---- *)
Lemma poll_write_ring t buf t' r w : poll_write t buf = (t', r, w) -> exists l, ring t' = ring t ++ l.
Proof.
  unfold poll_write.
  destruct (_ <? _); [intro H; injection H as <- _ _; exists []; cbn [ring upd]; rewrite app_nil_r; reflexivity|].
  destruct (t_vsock_closed t); [intro H; injection H as <- _ _; exists []; rewrite app_nil_r; reflexivity|].
  destruct (writer_shutdown t); [intro H; injection H as <- _ _; exists []; rewrite app_nil_r; reflexivity|].
  destruct (writer_dropped t); [intro H; injection H as <- _ _; exists []; rewrite app_nil_r; reflexivity|].
  cbv zeta. destruct (_ =? 0); intro H; injection H as <- _ _; cbn [ring upd];
    [exists []; rewrite app_nil_r; reflexivity|eexists; reflexivity].
Qed.

Lemma vstep_LB (s : vsock) o : LB 0 s -> LB 0 (fst (fst (fst (vstep cci s o)))).
Proof.
  intro H. destruct o; cbn [vstep].
  - exact H.
  - exact H.
  - pose proof (poll_LB (VSockRec.set_sends s script) H) as K.
    destruct (poll cci (VSockRec.set_sends s script)) as [s' r]. exact K.
  - destruct (v_inbox_closed s); exact H.
  - exact H.
  - destruct (writer_dropped (v_tx s)); [exact H|].
    destruct (poll_write (v_tx s) buf) as [[tx1 r] w] eqn:E. cbn [fst].
    destruct (poll_write_ring _ _ _ _ _ E) as (l & Hl).
    destruct H as (A & B & C & D). unfold LB. vsimpl. rewrite Hl, app_length.
    split; [exact A|]. split; [exact B|]. split; lia.
  - destruct (writer_dropped (v_tx s)); [exact H|].
    destruct (poll_flush (v_tx s)) as [[tx1 r] w] eqn:E. cbn [fst].
    destruct (proj1 (VSock_Inv.tx_flag_ops (v_tx s)) _ _ _ E) as [F1 _].
    eapply LB_kp; [exact H|]. unfold kp. vsimpl. auto.
  - destruct (writer_dropped (v_tx s)); [exact H|].
    destruct (poll_shutdown (v_tx s)) as [[tx1 r] w] eqn:E. cbn [fst].
    destruct (proj1 (proj2 (VSock_Inv.tx_flag_ops (v_tx s))) _ _ _ E) as [F1 _].
    eapply LB_kp; [exact H|]. unfold kp. vsimpl. auto.
  - destruct (reader_dropped (v_rx s)); [exact H|].
    destruct (rx_read (v_rx s) n) as [[rx1 r] w]. exact H.
  - destruct (reader_dropped (v_rx s)); [exact H|].
    destruct (rx_drop_reader (v_rx s)) as [rx1 w]. exact H.
  - destruct (drop_writer (v_tx s)) as [tx1 w] eqn:E. cbn [fst].
    destruct (proj2 (proj2 (VSock_Inv.tx_flag_ops (v_tx s))) _ _ E) as [F1 _].
    eapply LB_kp; [exact H|]. unfold kp. vsimpl. auto.
Qed.

Lemma vsock_new_LB mk c (s0 : vsock) :
  C10_Pred.vconfig_ok c = true -> vsock_new cci mk c = Some s0 -> LB 0 s0.
Proof.
  intros Hc Hn. destruct (VSock_Inv.vsock_new_inv cci mk c Hc) as (s0' & E & Hinv).
  rewrite Hn in E. injection E as <-.
  destruct (VSock_Inv.inv_parts _ _ _ _ Hinv) as (_ & A & _ & _ & _ & B & _).
  destruct (VSock_Inv.bounded_buffering _ _ _ _ Hinv) as (_ & _ & _ & _ & _ & D).
  unfold LB. split; [exact A|]. split; [exact B|]. split; lia.
Qed.

End WithCC.

(* Reusable Hoare-style lemmas about the functions of Conn/VSock.v, written for C17 / C03:
   - `pframe`: the fields no function of a poll modifies (options, ids, clock, EMSGSIZE limit)
     and the append-only outputs (datagrams, wake-ups), proved for every function up to `poll`;
   - `bail` / `pend` inversion, what a Ready result of `poll_body` / `poll_loop` looks like;
   - `send_control_packet` / `send_ack` / `maybe_send_fin` / `just_before_death` exact shapes. *)
From Utp Require Import Base.Prelude Wire.SeqNr Wire.Header Rtt.Rtte Mtu.SegSizes Rx.Rx Tx.Ring
  Tx.Segments Conn.Recovery Conn.Msg Conn.VSockRec Conn.VSock Conn.VSockRun.

Arguments SOk {CC A}. Arguments SErr {CC A}. Arguments SPanic {CC A}.

Section WithCC.
Context {CC : Type} (cci : cc_iface CC).
Notation vsock := (vsock CC).

(* ------------------------------------------------------------------ the poll frame *)
(* once a SYN-ACK has been sent, nothing but maybe_send_syn_ack touches its counter and timer *)
Definition syn_rel (s s' : vsock) : Prop :=
  match v_state s' with
  | SynAckSent k => v_state s = SynAckSent k /\ v_t_syn_ack_resend s' = v_t_syn_ack_resend s
  | SynReceived => v_state s = SynReceived
  | _ => True
  end.

Definition pframe0 (s s' : vsock) : Prop :=
  v_opts s' = v_opts s /\ v_conn_id_send s' = v_conn_id_send s /\
  v_socket_created s' = v_socket_created s /\ v_env_now s' = v_env_now s /\
  v_emsg_limit s' = v_emsg_limit s /\ v_inbox_closed s' = v_inbox_closed s /\
  (exists l, v_out s' = l ++ v_out s) /\ (exists w, v_wakes s' = w ++ v_wakes s).

Definition pframe (s s' : vsock) : Prop := pframe0 s s' /\ syn_rel s s'.

Lemma pframe0_refl s : pframe0 s s.
Proof. unfold pframe0. repeat split; try reflexivity; exists []; reflexivity. Qed.

Lemma pframe0_trans a b c : pframe0 a b -> pframe0 b c -> pframe0 a c.
Proof.
  unfold pframe0. intros (A1 & A2 & A3 & A4 & A5 & A6 & (l1 & A7) & (w1 & A8))
                        (B1 & B2 & B3 & B4 & B5 & B6 & (l2 & B7) & (w2 & B8)).
  repeat split; try congruence.
  - exists (l2 ++ l1). rewrite B7, A7, app_assoc. reflexivity.
  - exists (w2 ++ w1). rewrite B8, A8, app_assoc. reflexivity.
Qed.

Lemma syn_rel_refl s : syn_rel s s.
Proof. unfold syn_rel. destruct (v_state s); auto. Qed.

Lemma syn_rel_trans a b c : syn_rel a b -> syn_rel b c -> syn_rel a c.
Proof.
  unfold syn_rel. intros H1 H2. destruct (v_state c); auto.
  - rewrite H2 in H1. exact H1.
  - destruct H2 as (H2 & H3). rewrite H2 in H1. destruct H1 as (H1 & H4). split; congruence.
Qed.

Lemma pframe_refl s : pframe s s.
Proof. split; [apply pframe0_refl|apply syn_rel_refl]. Qed.

Lemma pframe_trans a b c : pframe a b -> pframe b c -> pframe a c.
Proof. intros (A & B) (C & D). split; [eapply pframe0_trans|eapply syn_rel_trans]; eauto. Qed.

Definition sframe {A} (s : vsock) (m : step A) : Prop :=
  match m with SOk s' _ => pframe s s' | SErr s' _ => pframe s s' | SPanic => True end.

Lemma sframe_bind {A B} s (m : step A) (f : vsock -> A -> step B) :
  sframe s m -> (forall s1 a, pframe s s1 -> sframe s1 (f s1 a)) -> sframe s (sbind m f).
Proof.
  intros Hm Hf. destruct m as [s1 a|s1 e|]; cbn [sbind sframe] in *; auto.
  specialize (Hf s1 a Hm). destruct (f s1 a); cbn [sframe] in *; auto; eapply pframe_trans; eauto.
Qed.

Lemma sframe_weaken {A} s0 s (m : step A) : pframe s0 s -> sframe s m -> sframe s0 m.
Proof. intros H Hm. destruct m; cbn [sframe] in *; auto; eapply pframe_trans; eauto. Qed.

(* solves `pframe s (setters ... s)` where only non-framed fields are set *)
Ltac pf_triv :=
  unfold pframe, pframe0, syn_rel; vsimpl; repeat split; try reflexivity;
  try (exists []; reflexivity); try (eexists; reflexivity);
  try (match goal with |- match v_state ?s with _ => _ end => destruct (v_state s); auto end).

Ltac abs_as t F z := revert F; generalize t; intros z F.

Ltac destruct_matches :=
  repeat match goal with
  | |- context [match ?x with _ => _ end] => destruct x eqn:?
  end.

Lemma pframe_emit s p : pframe s (emit s p).
Proof. unfold emit. split; [|exact (syn_rel_refl s)]. unfold pframe0; vsimpl. repeat split; try reflexivity.
  - exists [p]; reflexivity. - exists []; reflexivity. Qed.

Lemma pframe_add_wakes s w : pframe s (add_wakes s w).
Proof. unfold add_wakes. split; [|exact (syn_rel_refl s)]. unfold pframe0; vsimpl. repeat split; try reflexivity.
  - exists []; reflexivity. - exists (rev w); reflexivity. Qed.

Lemma next_send_frame s size s1 o :
  next_send s size = (s1, o) ->
  v_opts s1 = v_opts s /\ v_out s1 = v_out s /\ v_wakes s1 = v_wakes s /\ pframe s s1.
Proof.
  unfold next_send. intro H.
  assert (G : forall s1', (s1' = s \/ exists r, s1' = set_sends s r) ->
     v_opts s1' = v_opts s /\ v_out s1' = v_out s /\ v_wakes s1' = v_wakes s /\ pframe s s1').
  { intros s1' [->|[r ->]]; vsimpl; repeat split; try reflexivity; try apply pframe_refl; pf_triv. }
  destruct (v_sends s) as [|o0 r] eqn:Es.
  - destruct (v_emsg_limit s) as [m|]; [destruct (m <? size)|]; injection H as <- <-; apply G; auto.
  - destruct o0; [destruct (v_emsg_limit s) as [m|]; [destruct (m <? size)|]|..];
      injection H as <- <-; apply G; right; eexists; reflexivity.
Qed.

Lemma on_packet_sent_frame s h : pframe s (on_packet_sent s h).
Proof. unfold on_packet_sent. pf_triv. Qed.

Lemma send_control_packet_frame s h : sframe s (send_control_packet s h).
Proof.
  unfold send_control_packet. destruct (v_transport_pending s); [apply pframe_refl|].
  destruct (next_send s _) as [s1 o] eqn:E. apply next_send_frame in E as (_ & _ & _ & F).
  destruct o; cbn [sframe]; auto.
  eapply pframe_trans; [exact F|]. eapply pframe_trans; [apply pframe_emit|apply on_packet_sent_frame].
Qed.

Lemma send_ack_frame s : sframe s (send_ack s).
Proof. unfold send_ack. apply send_control_packet_frame. Qed.

Lemma maybe_send_fin_frame s : sframe s (maybe_send_fin s).
Proof.
  unfold maybe_send_fin. destruct (v_transport_pending s); [apply pframe_refl|].
  destruct (our_fin_if_unacked (v_state s)); [|apply pframe_refl].
  destruct (negb _); [apply pframe_refl|].
  apply sframe_bind; [apply send_control_packet_frame|].
  intros s1 a _. destruct a; cbn [sframe]; [pf_triv|apply pframe_refl].
Qed.

Lemma pframe_set_last_sent s x : pframe s (set_last_sent_seq_nr s x).
Proof. pf_triv. Qed.
Lemma pframe_set_seq_nr s x : pframe s (set_seq_nr s x).
Proof. pf_triv. Qed.
Lemma pframe_set_t_retransmit s x : pframe s (set_t_retransmit s x).
Proof. pf_triv. Qed.
Lemma pframe_set_t_inactivity s x : pframe s (set_t_inactivity s x).
Proof. pf_triv. Qed.
Lemma pframe_set_segs s x : pframe s (set_segs s x).
Proof. pf_triv. Qed.

Lemma send_data_frame s h f : sframe s (send_data s h f).
Proof.
  unfold send_data. destruct (_ =? _); [apply pframe_refl|].
  destruct (_ <? 0); [exact I|]. destruct (_ <? _); [apply pframe_refl|].
  destruct (_ <? _); [apply pframe_refl|].
  destruct (next_send s _) as [s1 o] eqn:E. apply next_send_frame in E as (_ & _ & _ & F).
  destruct o; cbn [sframe]; auto.
  - eapply pframe_trans; [exact F|].
    eapply pframe_trans; [apply pframe_emit|].
    eapply pframe_trans; [|apply pframe_set_t_inactivity].
    eapply pframe_trans; [|apply pframe_set_t_retransmit].
    eapply pframe_trans; [apply pframe_set_segs|].
    eapply pframe_trans; [apply on_packet_sent_frame|].
    destruct (seq_gt _ _); [|apply pframe_refl].
    eapply pframe_trans; [apply pframe_set_last_sent|].
    destruct (seq_gt _ _); [apply pframe_set_seq_nr|apply pframe_refl].
Qed.

Lemma on_rto_reactions_frame s s' : on_rto_reactions cci s = Some s' -> pframe s s'.
Proof. unfold on_rto_reactions. destruct (on_rto_timeout _); [|discriminate].
  intro H; injection H as <-. pf_triv. Qed.

Lemma recovery_loop_frame : forall items s h mss0 st, sframe s (recovery_loop items s h mss0 st).
Proof.
  induction items as [|f rest IH]; intros; cbn [recovery_loop]; [apply pframe_refl|].
  destruct (negb _); [apply pframe_refl|].
  destruct (_ && _); [apply IH|]. destruct (_ && _); [apply pframe_refl|].
  pose proof (send_data_frame s h f) as Hd. destruct (send_data s h f) as [s1 r|s1 e|]; cbn [sframe] in *; auto.
  destruct r; cbn [sframe]; auto. eapply sframe_weaken; [exact Hd|apply IH].
Qed.

Lemma new_data_loop_frame : forall items s h rem, sframe s (new_data_loop items s h rem).
Proof.
  induction items as [|f rest IH]; intros; cbn [new_data_loop]; [apply pframe_refl|].
  destruct (_ <? _); [apply pframe_refl|].
  pose proof (send_data_frame s h f) as Hd. destruct (send_data s h f) as [s1 r|s1 e|]; cbn [sframe] in *; auto.
  destruct r; cbn [sframe]; auto. eapply sframe_weaken; [exact Hd|apply IH].
Qed.

Lemma set_recovering_frame s rc : pframe s (set_recovering s rc).
Proof. unfold set_recovering. pf_triv. Qed.

Lemma send_tx_queue_frame s : sframe s (send_tx_queue cci s).
Proof.
  unfold send_tx_queue. destruct (v_transport_pending s); [apply pframe_refl|].
  apply sframe_bind.
  { destruct (timer_expired _ _); [|apply pframe_refl].
    destruct (iter_for_sending _ _) as [|f l].
    - destruct (our_fin_if_unacked _); [|cbn [sframe]; pf_triv].
      destruct (_ =? _); [|cbn [sframe]; pf_triv].
      apply sframe_weaken with (s := set_last_sent_seq_nr s (wsub16 (v_last_sent_seq_nr s) 1)); [pf_triv|].
      apply sframe_bind; [apply maybe_send_fin_frame|].
      intros s1 a _. destruct a; [|apply pframe_refl].
      destruct (on_rto_reactions cci s1) eqn:E; [|exact I]. apply on_rto_reactions_frame in E.
      cbn [sframe]. eapply pframe_trans; [exact E|]. pf_triv.
    - pose proof (send_data_frame s (outgoing_header s) f) as Hd.
      destruct (send_data _ _ f) as [s1 r|s1 e|]; cbn [sframe] in *; auto.
      destruct r; cbn [sframe]; auto.
      cbv zeta.
      match goal with |- sframe _ (match ?o with _ => _ end) => destruct o as [s2|] eqn:E end; [|exact I].
      assert (F2 : pframe s1 s2).
      { destruct (negb _); [apply on_rto_reactions_frame; exact E|injection E as <-; apply pframe_refl]. }
      cbn [sframe]. eapply pframe_trans; [exact Hd|]. eapply pframe_trans; [exact F2|]. pf_triv. }
  intros s1 ret _. destruct ret; [apply pframe_refl|].
  destruct (0 <? _); [apply pframe_refl|]. destruct (ss_segs _); [apply pframe_refl|].
  apply sframe_bind.
  { destruct (rv_phase _); try apply pframe_refl.
    apply sframe_bind; [apply recovery_loop_frame|].
    intros s2 [st early] _. cbv beta iota zeta.
    destruct early; [apply set_recovering_frame|].
    match goal with |- sframe _ (match our_fin_if_unacked (v_state ?y) with _ => _ end) =>
      assert (F3 : pframe s2 y); [|abs_as y F3 sy] end.
    { eapply pframe_trans; [apply set_recovering_frame|].
      destruct (_ <? _); [|apply pframe_refl]. destruct (rc_recalc _); [pf_triv|].
      destruct (0 <? _); [pf_triv|apply pframe_refl]. }
    destruct (our_fin_if_unacked _); [destruct (_ =? _)|]; cbn [sframe]; auto. }
  intros s2 ret _. destruct ret; [apply pframe_refl|].
  apply sframe_bind; [apply new_data_loop_frame|].
  intros s3 tl _. destruct tl as [[sq sz]|]; [|apply pframe_refl].
  destruct (pop_mtu_probe _ _) as [segs' popped]. destruct popped; cbn [sframe]; [pf_triv|apply pframe_refl].
Qed.

Lemma maybe_send_ack_frame s : sframe s (maybe_send_ack s).
Proof.
  unfold maybe_send_ack. destruct (immediate_ack_to_transmit s); [apply send_ack_frame|].
  destruct (should_send_window_update s); [apply send_ack_frame|].
  destruct (timer_expired _ _).
  - destruct (ack_to_transmit s); [apply send_ack_frame|cbn [sframe]; pf_triv].
  - destruct (0 <? _); cbn [sframe]; [pf_triv|apply pframe_refl].
Qed.

Lemma split_cont_frame s0 s2 tl :
  pframe s0 s2 ->
  sframe s0 (if tl <? ss_len_bytes (v_segs s2) then SErr s2 (ErrBug BugInBufferComputations)
       else match segment_loop (ring (v_tx s2)) (o_nagle (v_opts s2)) (v_ss s2) (v_segs s2)
                    (tl - ss_len_bytes (v_segs s2)) (v_last_remote_window s2) with
            | Some (ss', segs', remaining) =>
                SOk (set_unsegmented (set_segs (set_ss s2 ss') segs') remaining) tt
            | None => SPanic
            end).
Proof.
  intros F2. destruct (_ <? _); [exact F2|].
  destruct (segment_loop _ _ _ _ _ _) as [[[ss' segs'] rem]|]; [|exact I].
  cbn [sframe]. exact F2.
Qed.

Lemma split_frame s : sframe s (split_tx_queue_into_segments cci s).
Proof.
  unfold split_tx_queue_into_segments. cbv zeta. destruct (_ =? 0); [cbn [sframe]; pf_triv|].
  match goal with |- sframe _ (if is_remote_fin_or_later (v_state ?x) then _ else _) =>
    assert (F : pframe s x); [|abs_as x F sx] end.
  { destruct (_ && _); [|apply pframe_refl]. destruct (grow _ _) as [tx1 g]. destruct g.
    - destruct (wake_writer tx1) as [tx2 w]. eapply pframe_trans; [|apply pframe_add_wakes]. pf_triv.
    - pf_triv. }
  destruct (is_remote_fin_or_later _); [exact F|].
  destruct (pop_expired_mtu_probe _ _ _) as [segs1 pe].
  destruct pe.
  - apply split_cont_frame. eapply pframe_trans; [exact F|].
    match goal with |- pframe ?x (set_ss ?y _) => assert (F3 : pframe x y) end.
    { destruct (seq_gt _ _); pf_triv. }
    exact F3.
  - cbn [sframe]. eapply pframe_trans; [exact F|pf_triv].
  - apply split_cont_frame. exact F.
Qed.

Lemma mark_both_closed_frame s : pframe s (mark_both_closed s).
Proof.
  unfold mark_both_closed. destruct (rx_mark_vsock_closed _) as [rx1 w1].
  destruct (mark_vsock_closed _) as [tx1 w2].
  eapply pframe_trans; [|apply pframe_add_wakes]. pf_triv.
Qed.

Lemma just_before_death_frame s e : pframe s (just_before_death s e).
Proof.
  unfold just_before_death. cbv zeta.
  match goal with |- pframe s (match e with Some _ => if _ then _ else ?y | None => _ end) =>
    assert (F2 : pframe s y); [|abs_as y F2 sy] end.
  { eapply pframe_trans; [|apply mark_both_closed_frame].
    destruct e; [|apply pframe_refl]. destruct (rx_enqueue_error _) as [rx1 w].
    eapply pframe_trans; [|apply pframe_add_wakes]. pf_triv. }
  destruct e; [|exact F2]. destruct (negb _); [|exact F2].
  pose proof (send_control_packet_frame (set_seq_nr sy (wadd16 (v_seq_nr sy) 1))
                (hdr_with (outgoing_header sy) ST_FIN (v_seq_nr sy) None)) as H.
  destruct (send_control_packet _ _); cbn [sframe] in H.
  - eapply pframe_trans; [exact F2|]. eapply pframe_trans; [|exact H]. pf_triv.
  - eapply pframe_trans; [exact F2|]. eapply pframe_trans; [|exact H]. pf_triv.
  - eapply pframe_trans; [exact F2|]. pf_triv.
Qed.

Lemma transition_frame s : pframe s (transition_to_fin_wait_1 s).
Proof. unfold transition_to_fin_wait_1. destruct (v_state s); try apply pframe_refl; pf_triv. Qed.

Lemma restart_inact_frame s : pframe s (restart_remote_inactivity_timer s).
Proof. unfold restart_remote_inactivity_timer. pf_triv. Qed.

Definition tframe (s : vsock) (r : table_res) : Prop :=
  match r with TblDrop s' | TblContinue s' => pframe s s' | TblErr s' _ => pframe s s' end.

Lemma state_table_frame s h : tframe s (state_table s h).
Proof.
  unfold state_table, restart_remote_inactivity_timer.
  destruct (ch_type h); destruct (v_state s); cbn [tframe];
    repeat match goal with |- context [if ?c then _ else _] => destruct c end;
    cbn [tframe]; try apply pframe_refl; pf_triv.
Qed.

Lemma force_ack_frame s : pframe s (force_immediate_ack s).
Proof. unfold force_immediate_ack. pf_triv. Qed.

Lemma process_incoming_message_frame s m : sframe s (process_incoming_message cci s m).
Proof.
  unfold process_incoming_message. cbv zeta.
  pose proof (state_table_frame s (m_hdr m)) as Ht.
  destruct (state_table s (m_hdr m)) as [s1|s1 e|s1]; cbn [tframe sframe] in *; auto.
  destruct (remove_up_to_ack _ _ _ _) as [segs1 res].
  match goal with |- sframe _ (match ?o with Some _ => _ | None => _ end) => destruct o as [rtte1|] end; [|exact I].
  destruct (cc_on_ack _ _ _ _ _) as [cc3|]; [|exact I].
  destruct (recovery_on_ack _ _ _ _ _ _ _ _) as [[[rec1 segs2] cc4]|]; [|exact I].
  match goal with |- sframe _ (match ch_type _ with ST_DATA => _ | ST_FIN => _ | ST_STATE => SOk ?x _
                                | ST_RESET => _ | ST_SYN => _ end) =>
    assert (F2 : pframe s x) by (eapply pframe_trans; [exact Ht|pf_triv]); abs_as x F2 s2 end.
  destruct (ch_type (m_hdr m)); try exact F2.
  - (* ST_DATA *)
    destruct (_ <? 0); [cbn [sframe]; eapply pframe_trans; [exact F2|apply force_ack_frame]|].
    destruct (rx_add_remove _ _ _ _) as [[rx1 ar] w].
    destruct ar as [r|]; [|exact I].
    match goal with |- sframe _ (match add_err r with Some e => SErr ?x e | None => _ end) =>
      assert (F4 : pframe s x); [|abs_as x F4 s4] end.
    { eapply pframe_trans; [exact F2|]. eapply pframe_trans; [|apply pframe_add_wakes]. pf_triv. }
    destruct (add_err r); [exact F4|].
    match goal with |- sframe _ (if _ then _ else SOk ?x _) =>
      assert (F5 : pframe s x); [|abs_as x F5 s5] end.
    { destruct r; exact F4. }
    destruct (_ || _); [|exact F5].
    eapply sframe_weaken; [eapply pframe_trans; [exact F5|apply force_ack_frame]|].
    apply sframe_bind; [apply send_ack_frame|]. intros; apply pframe_refl.
  - (* ST_FIN *)
    destruct (_ && _); [|cbn [sframe]; eapply pframe_trans; [exact F2|apply force_ack_frame]].
    destruct (rx_add_remove _ _ _ _) as [[rx1 ar] w].
    destruct ar as [r|]; [|exact I].
    match goal with |- sframe _ (match add_err r with Some e => SErr ?x e | None => _ end) =>
      assert (F5 : pframe s x); [|abs_as x F5 s5] end.
    { eapply pframe_trans; [exact F2|]. eapply pframe_trans; [|apply pframe_add_wakes].
      unfold force_immediate_ack. pf_triv. }
    destruct (add_err r); [exact F5|].
    destruct (mark_vsock_closed _) as [tx1 w2]. cbn [sframe].
    eapply pframe_trans; [exact F5|]. eapply pframe_trans; [|apply pframe_add_wakes]. pf_triv.
Qed.

Lemma recv_loop_frame : forall fuel s acc, sframe s (recv_loop cci fuel s acc).
Proof.
  induction fuel as [|m0 fuel IH]; intros s acc.
  - destruct (v_inbox s) eqn:Ei.
    + cbn [recv_loop]. rewrite Ei. destruct (v_inbox_closed s).
      * eapply sframe_weaken; [apply transition_frame|].
        apply sframe_bind; [apply maybe_send_fin_frame|]. intros; cbn [sframe]; pf_triv.
      * cbn [sframe]; pf_triv.
    + cbn [recv_loop]. rewrite Ei. exact I.
  - cbn [recv_loop]. destruct (v_inbox s) as [|m rest] eqn:Ei.
    + destruct (v_inbox_closed s).
      * eapply sframe_weaken; [apply transition_frame|].
        apply sframe_bind; [apply maybe_send_fin_frame|]. intros; cbn [sframe]; pf_triv.
      * cbn [sframe]; pf_triv.
    + eapply sframe_weaken with (s := set_inbox s rest); [pf_triv|].
      apply sframe_bind; [apply process_incoming_message_frame|].
      intros s1 r _. destruct (_ || _); [apply pframe_refl|apply IH].
Qed.

Lemma acked_counts_as_sent_frame s : pframe s (acked_counts_as_sent s).
Proof. unfold acked_counts_as_sent. destruct (seq_gt _ _ && seq_lt _ _); [pf_triv|apply pframe_refl]. Qed.

Lemma process_all_frame s : sframe s (process_all_incoming_messages cci s).
Proof.
  unfold process_all_incoming_messages.
  apply sframe_bind; [apply recv_loop_frame|].
  intros s1 [r early] _. cbv beta iota zeta.
  match goal with |- context [acked_counts_as_sent ?x] =>
    assert (F2 : pframe s1 x); [|abs_as x F2 s2] end.
  { destruct (_ || _); [|apply pframe_refl].
    destruct (ss_segs _); [destruct (our_fin_if_unacked _)|];
      unfold restart_remote_inactivity_timer; pf_triv. }
  eapply sframe_weaken; [exact F2|].
  apply sframe_bind.
  { destruct (0 <? _); [|apply pframe_refl].
    eapply sframe_weaken; [apply acked_counts_as_sent_frame|].
    generalize (acked_counts_as_sent s2). intro s2'.
    destruct (truncate_front _ _) as [tx1 tr]. destruct tr; cbn [sframe]; [|pf_triv].
    destruct (wake_writer tx1) as [tx2 w]. eapply pframe_trans; [|apply pframe_add_wakes]. pf_triv. }
  intros s3 _ _. destruct (rv_phase _); try apply pframe_refl.
  destruct (calc_pipe _ _ _ _ _) as [[[segs' pipe] recalc]|]; [|exact I].
  cbn [sframe]. eapply pframe_trans; [|apply set_recovering_frame]. pf_triv.
Qed.

(* ------------------------------------------------------------------ poll_body *)
Definition bframe (s : vsock) (r : body_res) : Prop :=
  match r with BrReturn s' _ | BrRestart s' => pframe s s' | BrPanic => True end.

Lemma die_frame s0 s e : pframe s0 s -> bframe s0 (die s e).
Proof. intro F. unfold die. cbn [bframe]. eapply pframe_trans; [exact F|apply just_before_death_frame]. Qed.

Lemma bail_frame {A} s0 s (m : step A) k :
  pframe s0 s -> sframe s m -> (forall s1 a, pframe s0 s1 -> bframe s0 (k s1 a)) -> bframe s0 (bail m k).
Proof.
  intros F Hm Hk. unfold bail. destruct m as [s1 a|s1 e|]; cbn [sframe] in Hm; [| |exact I].
  - assert (F1 : pframe s0 s1) by (eapply pframe_trans; eauto).
    destruct (v_restart s1); [exact F1|apply Hk; exact F1].
  - apply die_frame. eapply pframe_trans; eauto.
Qed.

Lemma pend_frame {A} s0 s (m : step A) k :
  pframe s0 s -> sframe s m -> (forall s1 a, pframe s0 s1 -> bframe s0 (k s1 a)) -> bframe s0 (pend m k).
Proof.
  intros F Hm Hk. unfold pend. eapply bail_frame; eauto.
  intros s1 a F1. destruct (v_transport_pending s1); [exact F1|].
  destruct (v_restart s1); [exact F1|apply Hk; exact F1].
Qed.

Lemma arm_in_frame s d : pframe s (arm_in s d).
Proof. unfold arm_in. destruct (_ <=? _); [|pf_triv].
  eapply pframe_trans; [|apply pframe_add_wakes]. pf_triv. Qed.

(* the state with which one iteration of the restart loop starts *)
Definition body_start (s0 : vsock) : vsock :=
  set_restart (set_now (set_transport_pending s0 false) (v_env_now s0)) false.

Lemma body_start_frame s0 : pframe s0 (body_start s0).
Proof. unfold body_start. pf_triv. Qed.

(* everything of poll_body after maybe_send_syn_ack *)
Definition body_rest (s : vsock) (_ : unit) : body_res :=
  pend (if immediate_ack_to_transmit s then send_ack s else SOk s false) (fun s _ =>
  pend (process_all_incoming_messages cci s) (fun s _ =>
  let '(rx1, fr, w) := rx_flush (v_rx s) in
  match fr with
  | FlPanic => BrPanic
  | FlOk _ =>
    let s := add_wakes (set_rx s rx1) (rx_wakes w) in
    if timer_expired (v_t_inactivity s) (v_now s) then die s ErrRemoteInactiveForTooLong
    else
    bail (split_tx_queue_into_segments cci s) (fun s _ =>
    pend (send_tx_queue cci s) (fun s _ =>
    let s := if should_close_on_own_initiative s then transition_to_fin_wait_1 s else s in
    pend (maybe_send_fin s) (fun s _ =>
    pend (maybe_send_ack s) (fun s _ =>
    if state_is_closed (v_state s) (o_wait_for_last_ack (v_opts s)) then
      BrReturn (just_before_death s None) PollReadyOk
    else
      let s := if is_local_fin_or_later (v_state s)
               then set_t_inactivity s (timer_arm (v_t_inactivity s) (v_now s)
                                          SHUTDOWN_FINAL_CHANCE_DELAY false)
               else s in
      let '(s, t) := next_timer_to_poll s in
      let s := match t with
               | Some instant => arm_in s (sat_sub instant (v_now s))
               | None => s
               end in
      BrReturn s PollPending))))
  end)).

Lemma poll_body_decomp s0 :
  poll_body cci s0 = pend (maybe_send_syn_ack (body_start s0)) body_rest.
Proof. reflexivity. Qed.

Lemma body_rest_frame s0 s1 : pframe s0 s1 -> bframe s0 (body_rest s1 tt).
Proof.
  intro F1. unfold body_rest.
  eapply pend_frame; [exact F1| |].
  { destruct (immediate_ack_to_transmit s1); [apply send_ack_frame|apply pframe_refl]. }
  intros s2 _ F2.
  eapply pend_frame; [exact F2|apply process_all_frame|]. intros s3 _ F3.
  destruct (rx_flush (v_rx s3)) as [[rx1 fr] w]. destruct fr; cbv beta iota zeta; [|exact I].
  assert (F4 : pframe s0 (add_wakes (set_rx s3 rx1) (rx_wakes w))).
  { eapply pframe_trans; [exact F3|]. eapply pframe_trans; [|apply pframe_add_wakes]. pf_triv. }
  abs_as (add_wakes (set_rx s3 rx1) (rx_wakes w)) F4 s4.
  destruct (timer_expired _ _); [apply die_frame; exact F4|].
  eapply bail_frame; [exact F4|apply split_frame|]. intros s5 _ F5.
  eapply pend_frame; [exact F5|apply send_tx_queue_frame|]. intros s6 _ F6.
  assert (F7 : pframe s0 (if should_close_on_own_initiative s6 then transition_to_fin_wait_1 s6 else s6)).
  { destruct (should_close_on_own_initiative s6); [eapply pframe_trans; [exact F6|apply transition_frame]|exact F6]. }
  eapply pend_frame; [exact F7|apply maybe_send_fin_frame|]. intros s8 _ F8.
  eapply pend_frame; [exact F8|apply maybe_send_ack_frame|]. intros s9 _ F9.
  destruct (state_is_closed _ _).
  { cbn [bframe]. eapply pframe_trans; [exact F9|apply just_before_death_frame]. }
  match goal with |- context [next_timer_to_poll ?x] => assert (F10 : pframe s0 x); [|abs_as x F10 s10] end.
  { destruct (is_local_fin_or_later (v_state s9)); exact F9. }
  unfold next_timer_to_poll. destruct (v_transport_pending s10).
  - destruct (v_t_inactivity s10); cbn [bframe]; [|exact F10].
    eapply pframe_trans; [exact F10|apply arm_in_frame].
  - match goal with |- bframe _ (BrReturn match ?t with _ => _ end _) => destruct t end; cbn [bframe].
    + eapply pframe_trans; [|apply arm_in_frame]. exact F10.
    + exact F10.
Qed.

(* ---- the weak frame (no claim on the SYN-ACK counter) holds for the whole poll ---- *)
Definition sframe0 {A} (s : vsock) (m : step A) : Prop :=
  match m with SOk s' _ => pframe0 s s' | SErr s' _ => pframe0 s s' | SPanic => True end.
Definition bframe0 (s : vsock) (r : body_res) : Prop :=
  match r with BrReturn s' _ | BrRestart s' => pframe0 s s' | BrPanic => True end.

Lemma bframe_weak s0 s1 r : pframe0 s0 s1 -> bframe s1 r -> bframe0 s0 r.
Proof. intros F H. destruct r; cbn [bframe bframe0] in *; auto; destruct H as [H _]; eapply pframe0_trans; eauto. Qed.

Lemma maybe_send_syn_ack_frame0 s : sframe0 s (maybe_send_syn_ack s).
Proof.
  unfold maybe_send_syn_ack.
  assert (G : forall c, sframe0 s (if c =? o_max_retx (v_opts s) then SErr s ErrMaxSynAckRetransmissionsReached
     else sbind (send_ack s) (fun s1 sent => if sent then
        SOk (set_t_syn_ack_resend (set_state s1 (SynAckSent (c + 1)))
              (timer_arm (v_t_syn_ack_resend s1) (v_now s1) SYNACK_RESEND_INTERNAL true)) tt
        else SOk s1 tt))).
  { intro c. destruct (_ =? _); [apply pframe0_refl|].
    pose proof (send_ack_frame s) as H. destruct (send_ack s) as [s1 a|s1 e|]; cbn [sbind sframe sframe0] in *; auto.
    - destruct a; cbn [sframe0]; apply H.
    - apply H. }
  destruct (v_state s); try (cbn [sframe0]; exact (pframe0_refl s)); try apply G.
  destruct (timer_expired _ _); [apply G|apply pframe0_refl].
Qed.

Lemma poll_body_frame0 s0 : bframe0 s0 (poll_body cci s0).
Proof.
  rewrite poll_body_decomp. unfold pend at 1, bail.
  pose proof (maybe_send_syn_ack_frame0 (body_start s0)) as H.
  pose proof (body_start_frame s0) as [F0 _].
  destruct (maybe_send_syn_ack _) as [s1 a|s1 e|]; cbn [sframe0] in H; [| |exact I].
  - assert (F1 : pframe0 s0 s1) by (eapply pframe0_trans; eauto).
    destruct (v_restart s1); [exact F1|]. destruct (v_transport_pending s1); [exact F1|].
    cbv beta iota. destruct a.
    eapply bframe_weak; [exact F1|]. apply body_rest_frame. apply pframe_refl.
  - unfold die. cbn [bframe0]. eapply pframe0_trans; [exact F0|]. eapply pframe0_trans; [exact H|].
    apply just_before_death_frame.
Qed.

Lemma poll_loop_frame0 : forall fuel s, pframe0 s (fst (poll_loop cci fuel s)).
Proof.
  induction fuel as [|fuel IH]; intro s; cbn [poll_loop fst]; [apply pframe0_refl|].
  pose proof (poll_body_frame0 s) as H. destruct (poll_body cci s); cbn [bframe0 fst] in *; auto.
  - eapply pframe0_trans; [exact H|apply IH].
  - apply pframe0_refl.
Qed.

End WithCC.

(* ------------------------------------------------------------------ death *)
Section Death.
Context {CC : Type}.
Notation vsock := (vsock CC).

Definition same_but_sends (s s1 : vsock) : Prop := s1 = s \/ exists r, s1 = set_sends s r.

Lemma next_send_same (s : vsock) size s1 o : next_send s size = (s1, o) -> same_but_sends s s1.
Proof.
  unfold next_send, same_but_sends. intro H.
  destruct (v_sends s) as [|o0 r].
  - destruct (v_emsg_limit s) as [m|]; [destruct (m <? size)|]; injection H as <- <-; auto.
  - destruct o0; [destruct (v_emsg_limit s) as [m|]; [destruct (m <? size)|]|..];
      injection H as <- <-; right; eexists; reflexivity.
Qed.

Lemma send_control_packet_fields (s : vsock) h :
  match send_control_packet s h with
  | SOk s' _ | SErr s' _ =>
      v_rx s' = v_rx s /\ v_tx s' = v_tx s /\ v_state s' = v_state s /\ v_wakes s' = v_wakes s /\
      v_seq_nr s' = v_seq_nr s /\ v_segs s' = v_segs s
  | SPanic => True
  end.
Proof.
  unfold send_control_packet. destruct (v_transport_pending s); [repeat split|].
  destruct (next_send s _) as [s1 o] eqn:E. apply next_send_same in E.
  destruct o; destruct E as [->|[r ->]]; unfold on_packet_sent, emit; vsimpl; repeat split.
Qed.

Lemma send_control_packet_out_noemit (s : vsock) h s' :
  (send_control_packet s h = SOk s' false \/ exists e, send_control_packet s h = SErr s' e) ->
  v_out s' = v_out s.
Proof.
  unfold send_control_packet. destruct (v_transport_pending s).
  { intros [H|[e H]]; [injection H as <-; reflexivity|discriminate]. }
  destruct (next_send s _) as [s1 o] eqn:E. apply next_send_same in E.
  destruct o; destruct E as [->|[r ->]]; intros [H|[e H]]; try discriminate;
    injection H; intros; subst; vsimpl; reflexivity.
Qed.

Definition both_closed (s : vsock) : Prop :=
  vsock_closed (v_rx s) = true /\ t_vsock_closed (v_tx s) = true /\
  writer_waker (v_tx s) = false.

Lemma mark_both_closed_spec (s : vsock) :
  let s' := mark_both_closed s in
  both_closed s' /\ v_state s' = v_state s /\ v_out s' = v_out s /\ v_seq_nr s' = v_seq_nr s /\
  q (v_rx s') = q (v_rx s) /\ ring (v_tx s') = ring (v_tx s) /\
  current (v_rx s') = current (v_rx s) /\ is_eof (v_rx s') = is_eof (v_rx s) /\
  (vsock_closed (v_rx s) = false \/ reader_waker (v_rx s) = false -> reader_waker (v_rx s') = false) /\
  (vsock_closed (v_rx s) = false -> reader_waker (v_rx s) = true -> In VwReader (v_wakes s')) /\
  (writer_waker (v_tx s) = true -> In VwWriter (v_wakes s')).
Proof.
  unfold mark_both_closed, rx_mark_vsock_closed, mark_vsock_closed, both_closed, add_wakes.
  destruct (vsock_closed (v_rx s)) eqn:Evc; vsimpl; cbn [vsock_closed t_vsock_closed writer_waker upd
    set_flags q ring current is_eof reader_waker rx_wakes tx_wakes flat_map app];
    (repeat split; auto).
  - intros [H|H]; [discriminate|exact H].
  - intro H; discriminate.
  - intro H. rewrite H. cbn. auto.
  - intros _ H. rewrite H. destruct (writer_waker (v_tx s)); cbn; auto.
  - intro H. rewrite H. destruct (reader_waker (v_rx s)); cbn; auto.
Qed.

(* just_before_death: both halves closed, every registered application waker fired, the error
   queued for the reader; a FIN is attempted only for an error in a state before our own FIN *)
Lemma just_before_death_spec (s : vsock) (e : option verror) :
  vsock_closed (v_rx s) = false ->
  let s' := just_before_death s e in
  both_closed s' /\ reader_waker (v_rx s') = false /\ v_state s' = v_state s /\
  ring (v_tx s') = ring (v_tx s) /\
  current (v_rx s') = current (v_rx s) /\ is_eof (v_rx s') = is_eof (v_rx s) /\
  q (v_rx s') = (match e with Some _ => q (v_rx s) ++ [QError] | None => q (v_rx s) end) /\
  (reader_waker (v_rx s) = true -> In VwReader (v_wakes s')) /\
  (writer_waker (v_tx s) = true -> In VwWriter (v_wakes s')) /\
  (e = None \/ is_local_fin_or_later (v_state s) = true -> v_out s' = v_out s).
Proof.
  intro Hlive. unfold just_before_death. cbv zeta.
  (* s1 *)
  set (s1 := match e with
             | Some _ => let '(rx1, w) := rx_enqueue_error (v_rx s) in add_wakes (set_rx s rx1) (rx_wakes w)
             | None => s end).
  assert (H1 : vsock_closed (v_rx s1) = false /\ v_state s1 = v_state s /\ v_out s1 = v_out s /\
               v_tx s1 = v_tx s /\ current (v_rx s1) = current (v_rx s) /\ is_eof (v_rx s1) = is_eof (v_rx s) /\
               q (v_rx s1) = (match e with Some _ => q (v_rx s) ++ [QError] | None => q (v_rx s) end) /\
               (match e with Some _ => reader_waker (v_rx s1) = false | None => reader_waker (v_rx s1) = reader_waker (v_rx s) end) /\
               (reader_waker (v_rx s) = true -> match e with Some _ => In VwReader (v_wakes s1) | None => True end) /\
               (forall x, In x (v_wakes s) -> In x (v_wakes s1))).
  { subst s1. destruct e; [|repeat split; auto].
    unfold rx_enqueue_error, add_wakes. vsimpl. cbn [vsock_closed set_flags current is_eof q reader_waker].
    repeat split; auto.
    - intro H. rewrite H. cbn. auto.
    - intros x Hx. rewrite in_app_iff. right. exact Hx. }
  destruct H1 as (A1 & A2 & A3 & A4 & A5 & A6 & A7 & A8 & A9 & A10).
  pose proof (mark_both_closed_spec s1) as H2. cbv zeta in H2.
  destruct H2 as (B1 & B2 & B3 & B4 & B5 & B6 & B7 & B8 & B9 & B10 & B11).
  set (s2 := mark_both_closed s1) in *.
  assert (Hrw : reader_waker (v_rx s2) = false) by (apply B9; left; exact A1).
  assert (HwR : reader_waker (v_rx s) = true -> In VwReader (v_wakes s2)).
  { intro H. destruct e.
    - subst s2. unfold mark_both_closed. destruct (rx_mark_vsock_closed _), (mark_vsock_closed _).
      unfold add_wakes. vsimpl. rewrite in_app_iff. right. apply A9. exact H.
    - apply B10; [exact A1|]. rewrite A8. exact H. }
  assert (HwW : writer_waker (v_tx s) = true -> In VwWriter (v_wakes s2)).
  { intro H. apply B11. rewrite A4. exact H. }
  assert (Hbase : both_closed s2 /\ reader_waker (v_rx s2) = false /\ v_state s2 = v_state s /\
                  ring (v_tx s2) = ring (v_tx s) /\ current (v_rx s2) = current (v_rx s) /\
                  is_eof (v_rx s2) = is_eof (v_rx s) /\
                  q (v_rx s2) = (match e with Some _ => q (v_rx s) ++ [QError] | None => q (v_rx s) end) /\
                  (reader_waker (v_rx s) = true -> In VwReader (v_wakes s2)) /\
                  (writer_waker (v_tx s) = true -> In VwWriter (v_wakes s2)) /\ v_out s2 = v_out s).
  { repeat split; try apply B1; auto; try congruence; rewrite B6, A4; reflexivity. }
  destruct e as [err|].
  2:{ destruct Hbase as (C1 & C2 & C3 & C4 & C5 & C6 & C7 & C8 & C9 & C10). repeat split; try apply C1; auto. }
  destruct (negb (is_local_fin_or_later (v_state s2))) eqn:El.
  2:{ destruct Hbase as (C1 & C2 & C3 & C4 & C5 & C6 & C7 & C8 & C9 & C10). repeat split; try apply C1; auto. }
  destruct Hbase as (C1 & C2 & C3 & C4 & C5 & C6 & C7 & C8 & C9 & C10).
  pose proof (send_control_packet_fields (set_seq_nr s2 (wadd16 (v_seq_nr s2) 1))
                (hdr_with (outgoing_header s2) ST_FIN (v_seq_nr s2) None)) as Hf.
  assert (Hno : is_local_fin_or_later (v_state s) = false) by (rewrite <- C3; apply negb_true_iff; exact El).
  destruct (send_control_packet _ _) as [s4 b|s4 e4|]; vsimpl.
  - destruct Hf as (F1 & F2 & F3 & F4 & F5 & F6). unfold both_closed. rewrite F1, F2, F3, F4.
    repeat split; try apply C1; auto; intros [H|H]; congruence.
  - destruct Hf as (F1 & F2 & F3 & F4 & F5 & F6). unfold both_closed. rewrite F1, F2, F3, F4.
    repeat split; try apply C1; auto; intros [H|H]; congruence.
  - unfold both_closed. vsimpl. repeat split; try apply C1; auto; intros [H|H]; congruence.
Qed.

End Death.

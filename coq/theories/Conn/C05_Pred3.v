(* C05 — further boolean predicates over observed steps (Conn/VObs), added with the step-level proofs of
   Conn/C05_Step.v.  Model-only file: no proofs.
   - c05_rto_exit_ok2: the exit clause of single-segment mode with the boundary B6 (an expired MTU probe is
     popped) stated on the PRE state instead of "max_ss was lowered" (which is not what happens when the
     peer's payloads have raised min_ss to max_ss meanwhile: see c05_rto_exit_ok_b6_refuted), and with the
     cumulative progress read off the byte counter of the table instead of snd_una (no wrap);
   - guards for the clauses that hold only of polls that end with the connection still open. *)
From Utp Require Import Base.Prelude Wire.SeqNr Wire.Header Rtt.Rtte Tx.Segments Tx.Ring Conn.Recovery Conn.Msg
  Conn.VSockRun Conn.VObs Conn.C05_Pred Conn.C06_Pred Conn.C0506_Pred2.

Definition last_fseg (l : list fseg) : option fseg :=
  match rev l with g :: _ => Some g | [] => None end.

(* boundary B6 as the PRE state shows it: the retransmission timer has expired and the last segment of
   the table is an unacknowledged MTU probe that was retransmitted the configured number of times;
   split_tx_queue_into_segments pops it and leaves single-segment mode *)
Definition probe_expiry_due (cfg : vconfig) (pre : vfp) (now : Z) : bool :=
  timer_expired (f_t_retransmit pre) now &&
  match last_fseg (f_segs pre) with
  | Some g => fg_probe g && negb (fg_delivered g) && (vc_mtu_probe_max_retx cfg <=? fg_retx g)
  | None => false
  end.

Definition c05_rto_exit_ok2 (cfg : vconfig) (st : fstep) : bool :=
  match fs_event st, fs_result st with
  | FePoll _, FrPoll PollPending _ _ _ =>
      let pre := fs_pre st in let post := fs_post st in
      if (0 <? f_rto_retx pre) && (f_rto_retx post =? 0) then
        (f_seg_removed pre <? f_seg_removed post) ||
        (count_delivered (f_segs pre) <? count_delivered (firstn (length (f_segs pre)) (f_segs post))) ||
        probe_expiry_due cfg pre (fs_now st)
      else true
  | _, _ => true
  end.

(* the known class of c05_rto_exit_ok: boundary B6 *)
Definition c05_rto_exit_b6_class (cfg : vconfig) (st : fstep) : bool :=
  match fs_event st, fs_result st with
  | FePoll _, FrPoll PollPending _ _ _ => probe_expiry_due cfg (fs_pre st) (fs_now st)
  | _, _ => false
  end.

(* the poll ended with the connection still open (every queued message was processed before anything
   was sent: the receive loop stops early only on a closed connection or a blocked transport) *)
Definition post_open (cfg : vconfig) (st : fstep) : bool :=
  negb (state_is_closed (f_state (fs_post st)) (vc_wait_last_ack cfg)).

(* the zero-window clause (c05_zero_window_ok) for the polls that end with the connection still open *)
Definition c05_zero_window_ok_open (cfg : vconfig) (st : fstep) : bool :=
  if post_open cfg st then c05_zero_window_ok cfg st else true.

(* the known class D16 as the step theorem has it: as c05_d16_class, but the FIN may follow the segment
   the RTO branch transmitted in the same poll (then last_sent_seq_nr is the FIN's number) - the same
   allowance c05_rto_single_ok makes *)
Definition c05_d16_class2 (cfg : vconfig) (st : fstep) : bool :=
  match fs_event st, fs_result st with
  | FePoll _, FrPoll PollPending pkts _ _ =>
      let pre := fs_pre st in let post := fs_post st in
      (f_last_remote_window post =? 0) && timer_expired (f_t_retransmit pre) (fs_now st) &&
      (f_rto_retx post =? f_rto_retx pre + 1) &&
      match filter (fun p => negb (was_sent_before pre p)) (filter fq_is_data pkts) with
      | [p] => (ch_seq (fq_hdr p) =? f_last_sent_seq_nr post) ||
               (ch_seq (fq_hdr p) =? wsub16 (f_last_sent_seq_nr post) 1)
      | _ => false
      end
  | _, _ => false
  end.

(* "no NEW payload into a zero window" outside the known class D16, for the polls that end open *)
Definition c05_zero_window_strict_or_d16_open (cfg : vconfig) (st : fstep) : bool :=
  if post_open cfg st then c05_zero_window_strict cfg st || c05_d16_class2 cfg st else true.

(* ---- the window clause as intended.  In c05_window_ok the pattern `p1 :: _ as data` binds `data` to the
   TAIL of the list (`as` binds tighter than `::`), so that predicate leaves the first datagram of the poll
   out of the sum; here `data` is the whole list.  Guards (assumed-and-monitored, all on the step):
   the poll ends open, the retransmission timer had not expired at its start (no RTO part, no expired
   probe), counter 0 and not recovering afterwards, at most 960 segments afterwards (64 restarts of the
   poll loop may each pop one: all indices stay within the wrap tolerance of 1024), and
   last_sent_seq_nr before the poll is at most 1024 ahead of the left edge the poll leaves. *)
Definition c05_win_guard (cfg : vconfig) (st : fstep) : bool :=
  let pre := fs_pre st in let post := fs_post st in
  post_open cfg st && negb (timer_expired (f_t_retransmit pre) (fs_now st)) &&
  (f_rto_retx post =? 0) && negb (phase_recovering (f_recovery post)) &&
  (Z.of_nat (length (f_segs post)) <=? 960) &&
  (0 <=? f_last_sent_seq_nr pre) && (f_last_sent_seq_nr pre <? M16) &&
  (let d := seq_sub (wadd16 (f_last_sent_seq_nr pre) 1) (f_snd_una post) in (0 <=? d) && (d <=? 1024)).

Definition c05_window_ok2 (cfg : vconfig) (st : fstep) : bool :=
  match fs_event st, fs_result st with
  | FePoll _, FrPoll PollPending pkts _ _ =>
      if c05_win_guard cfg st then
        match filter fq_is_data pkts with
        | [] => true
        | (p1 :: _) as data =>
            let post := fs_post st in
            let k := seq_sub (ch_seq (fq_hdr p1)) (f_snd_una post) in
            let flight := fflight (firstn (Z.to_nat k) (f_segs post)) in
            c05_window_core (f_cc_window post) (f_last_remote_window post) flight (plen_sum data)
        end
      else true
  | _, _ => true
  end.

(* the predicate of Conn/C05_Pred.v under the same guards *)
Definition c05_window_ok_g (cfg : vconfig) (st : fstep) : bool :=
  match fs_event st, fs_result st with
  | FePoll _, FrPoll PollPending _ _ _ => if c05_win_guard cfg st then c05_window_ok cfg st else true
  | _, _ => true
  end.

(* ---- the part of c05_fp_ok that is an invariant of the model without further hypotheses: segment sizes,
   the sign of the RTO counter, the segment size in use.  (The never-sent-suffix clause of c05_fp_ok needs
   last_sent_seq_nr to lie within the table, which a peer that acknowledges unsent data can break; it
   stays assumed-and-monitored.) *)
Definition c05_fp_core (f : vfp) : bool :=
  forallb (fun g => 1 <=? fg_size g) (f_segs f) && (0 <=? f_rto_retx f) && (1 <=? f_mss f).

Definition c05_monitor_core_ok (cfg : vconfig) (st : fstep) : bool :=
  c05_fp_core (fs_pre st) &&
  match fs_result st with
  | FrPoll PollPending _ _ _ => c05_fp_core (fs_post st)
  | FrPoll _ _ _ _ => true
  | _ => c05_fp_core (fs_post st)
  end.

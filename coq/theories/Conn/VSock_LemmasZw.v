(* Behind c02_zero_window_waker: every flush leaves the RX dispatcher waker registered unless at
   least one creation-time MSS of window remains ([zw]); the configured constants of the receive
   half never change ([rxk]).  D9 is the gap between the creation-time MSS and the current one. *)
From Utp Require Import Base.Prelude Wire.SeqNr Wire.Header Rtt.Rtte Mtu.SegSizes Rx.Rx Rx.Rx_Proofs
  Tx.Ring Tx.Segments Conn.Recovery Conn.Msg Conn.VSockRec Conn.VSock Conn.VSockRun Conn.VObs
  Conn.VSock_LemmasTx Conn.VSock_Lemmas Conn.VSock_LemmasStep Conn.VSock_LemmasReach Conn.VSock_LemmasPark
  Conn.VSock_LemmasTimers Conn.VSock_LemmasPipe Conn.VSock_LemmasEof Conn.C07_Pred Conn.C07_Proofs.

Ltac rxs := cbn [ooq_data filled_front ooq_len ooq_len_bytes ooq_capacity q q_len_bytes q_capacity
  reader_dropped vsock_closed disp_waker reader_waker max_incoming_payload last_remaining_rx_window
  current is_eof g_base g_read set_ooq set_wakers set_flags pop_front_state] in *.

(* ------------------------------------------------------------------ Rx: the flush and the waker *)
Definition zw (r : rx) : Prop :=
  disp_waker r = true \/ max_incoming_payload r <= last_remaining_rx_window r.

Lemma sum_firstn_app_default : forall n l,
  sum_slot_bytes (firstn n (l ++ [slot_default])) = sum_slot_bytes (firstn n l).
Proof.
  induction n as [|n IH]; intros l; [reflexivity|].
  destruct l as [|x xs]; cbn [app firstn sum_slot_bytes].
  - rewrite firstn_nil. reflexivity.
  - rewrite IH. reflexivity.
Qed.

Lemma flush_loop_window : forall fuel s w fb fp s1 w1 fb1 fp1,
  0 <= filled_front s -> 0 <= w ->
  flush_loop fuel s w fb fp = Some (s1, w1, fb1, fp1) ->
  0 <= w1 /\ w - w1 = filled_front_bytes s - filled_front_bytes s1 /\
  max_incoming_payload s1 = max_incoming_payload s /\ disp_waker s1 = disp_waker s.
Proof.
  induction fuel as [|fuel IH]; intros s w fb fp s1 w1 fb1 fp1 Hff Hw; cbn [flush_loop].
  - intro H; injection H as <- <- _ _. repeat split; lia.
  - destruct (Z.eqb_spec (filled_front s) 0) as [Hz|Hnz]; [intro H; injection H as <- <- _ _; repeat split; lia|].
    destruct (ooq_data s) as [|m rest] eqn:Ed; [discriminate|].
    destruct (Z.ltb_spec w (slot_len_bytes m)) as [Hlt|Hge]; [intro H; injection H as <- <- _ _; repeat split; lia|].
    destruct (reader_dropped s); [intro H; injection H as <- <- _ _; repeat split; lia|].
    destruct (_ <? _); [discriminate|].
    intro H. apply IH in H; [|rxs; lia|lia].
    destruct H as (H1 & H2 & H3 & H4). rxs.
    assert (Hb : filled_front_bytes (pop_front_state s m rest) = filled_front_bytes s - slot_len_bytes m).
    { unfold filled_front_bytes. rxs. rewrite Ed, sum_firstn_app_default.
      replace (Z.to_nat (filled_front s)) with (S (Z.to_nat (filled_front s - 1))) by lia.
      cbn [firstn sum_slot_bytes]. lia. }
    rewrite Hb in H2. repeat split; try assumption; lia.
Qed.

Lemma filled_front_bytes_nonneg r : 0 <= filled_front_bytes r.
Proof. unfold filled_front_bytes. apply sum_slot_bytes_nonneg. Qed.

Lemma rx_flush_zw r r' fb w : 0 <= filled_front r -> rx_flush r = (r', FlOk fb, w) -> zw r'.
Proof.
  unfold rx_flush. intros Hff H.
  set (dw := if sat_sub (q_window r) (filled_front_bytes r) <? max_incoming_payload r
             then true else disp_waker r) in *.
  set (s0 := set_wakers r dw (reader_waker r) (last_remaining_rx_window r)) in *.
  destruct (flush_loop _ s0 (q_window r) 0 0) as [[[[s1 w1] fb'] fp]|] eqn:E; [|discriminate].
  apply flush_loop_window in E; [|exact Hff|unfold q_window, sat_sub; lia].
  destruct E as (E1 & E2 & E3 & E4).
  assert (Hr' : disp_waker r' = dw /\ max_incoming_payload r' = max_incoming_payload r /\
                last_remaining_rx_window r' = w1).
  { destruct (0 <? fp); injection H as <- _ _; rxs; rewrite E3, E4; subst s0; rxs; auto. }
  destruct Hr' as (D1 & D2 & D3). unfold zw. rewrite D1, D2, D3. subst dw.
  destruct (Z.ltb_spec (sat_sub (q_window r) (filled_front_bytes r)) (max_incoming_payload r)) as [Hlt|Hge];
    [left; reflexivity|right].
  pose proof (filled_front_bytes_nonneg s1).
  change (filled_front_bytes s0) with (filled_front_bytes r) in E2.
  unfold sat_sub in Hge. lia.
Qed.

(* ------------------------------------------------------------------ Rx: configured constants *)
Definition rxk (r r' : rx) : Prop :=
  q_capacity r' = q_capacity r /\ max_incoming_payload r' = max_incoming_payload r.

Lemma rxk_refl r : rxk r r. Proof. split; reflexivity. Qed.
Lemma rxk_trans a b c : rxk a b -> rxk b c -> rxk a c.
Proof. intros [A1 A2] [B1 B2]. split; congruence. Qed.

Lemma flush_loop_rxk : forall fuel s w fb fp s1 w1 fb1 fp1,
  flush_loop fuel s w fb fp = Some (s1, w1, fb1, fp1) -> rxk s s1.
Proof.
  induction fuel as [|fuel IH]; intros s w fb fp s1 w1 fb1 fp1; cbn [flush_loop].
  - intro H; injection H as <- _ _ _. apply rxk_refl.
  - destruct (filled_front s =? 0); [intro H; injection H as <- _ _ _; apply rxk_refl|].
    destruct (ooq_data s) as [|m rest]; [discriminate|].
    destruct (w <? _); [intro H; injection H as <- _ _ _; apply rxk_refl|].
    destruct (reader_dropped s); [intro H; injection H as <- _ _ _; apply rxk_refl|].
    destruct (_ <? _); [discriminate|].
    intro H. apply IH in H. eapply rxk_trans; [|exact H]. split; reflexivity.
Qed.

Lemma rx_flush_rxk r r' fr w : rx_flush r = (r', fr, w) -> rxk r r'.
Proof.
  unfold rx_flush. intro H.
  set (s0 := set_wakers r _ (reader_waker r) (last_remaining_rx_window r)) in *.
  destruct (flush_loop _ s0 _ 0 0) as [[[[s1 w1] fb] fp]|] eqn:E.
  - apply flush_loop_rxk in E. destruct E as [E1 E2].
    destruct (0 <? fp); injection H as <- _ _; split; rxs; assumption.
  - injection H as <- _ _. split; reflexivity.
Qed.

Lemma rx_add_remove_rxk r k p off r' ar w : rx_add_remove r k p off = (r', ar, w) -> rxk r r'.
Proof.
  unfold rx_add_remove. destruct (ooq_add_remove r k p off) as [s1 a] eqn:E.
  assert (K : rxk r s1).
  { destruct (ooq_add_remove_cases _ _ _ _ _ _ E) as [[-> _]|(m & old & _ & _ & _ & _ & _ & Hs')];
      [apply rxk_refl|]. cbv zeta in Hs'. destruct Hs' as [-> _]. split; reflexivity. }
  intro H. destruct a; try (injection H as <- _ _; exact K).
  destruct (_ && _); [|injection H as <- _ _; exact K].
  destruct (rx_flush s1) as [[s2 fr] w2] eqn:Ef. apply rx_flush_rxk in Ef.
  destruct fr; injection H as <- _ _; eapply rxk_trans; eassumption.
Qed.

Lemma rx_dop_rxk d r r' w : rx_dop d r r' w -> rxk r r'.
Proof.
  intros H. destruct H.
  - eapply rx_flush_rxk; eassumption.
  - eapply rx_add_remove_rxk; eassumption.
  - unfold rx_mark_vsock_closed in H0. destruct (vsock_closed r); injection H0 as <- _; split; reflexivity.
  - unfold rx_enqueue_error in H0. injection H0 as <- _. split; reflexivity.
Qed.

Lemma read_loop_rxk : forall fuel r room out r' out' d e,
  read_loop fuel r room out = (r', out', d, e) -> rxk r r'.
Proof.
  induction fuel as [|fuel IH]; intros r0 room out0 r' out' d e; cbn [read_loop].
  - intro H; injection H as <- _ _ _; apply rxk_refl.
  - destruct (room <=? 0); [intro H; injection H as <- _ _ _; apply rxk_refl|].
    destruct (current r0).
    + destruct (is_eof r0); [intro H; injection H as <- _ _ _; apply rxk_refl|].
      destruct (q r0) as [|item qr].
      * destruct (vsock_closed r0); intro H; injection H as <- _ _ _; split; reflexivity.
      * destruct item; [intro H; apply IH in H; eapply rxk_trans; [|exact H]; split; reflexivity|..];
          intro H; injection H as <- _ _ _; split; reflexivity.
    + intro H; apply IH in H. eapply rxk_trans; [|exact H]. split; reflexivity.
Qed.

Lemma rx_read_rxk r n r' res w : rx_read r n = (r', res, w) -> rxk r r'.
Proof.
  unfold rx_read. destruct (read_loop _ r n []) as [[[s1 out] dead] err] eqn:E.
  apply read_loop_rxk in E. intro H.
  destruct err; [injection H as <- _ _; exact E|].
  destruct out; [destruct (is_eof s1); [|destruct dead]|]; injection H as <- _ _;
    first [exact E | eapply rxk_trans; [exact E | split; reflexivity]].
Qed.

Lemma count0_sum0 : forall l, count_nondefault l = 0 -> sum_slot_bytes l = 0.
Proof.
  induction l as [|x xs IH]; [reflexivity|]. cbn [count_nondefault sum_slot_bytes].
  pose proof (count_nondefault_bounds xs) as Hb. destruct (slot_is_default x) eqn:E.
  - intro K. rewrite (default_len_zero _ E). rewrite IH; lia.
  - intro K. lia.
Qed.

Section WithCC.
Context {CC : Type} (cci : cc_iface CC).
Notation vsock := (vsock CC).

(* the configured constants of the receive half: an invariant of every state *)
Definition rxconst (qc mi : Z) (s : vsock) : Prop :=
  q_capacity (v_rx s) = qc /\ max_incoming_payload (v_rx s) = mi.

Lemma rxconst_reach : forall qc mi d t (s s' : vsock), reach d t s s' -> rxconst qc mi s -> rxconst qc mi s'.
Proof.
  intros qc mi d t s s' H. induction H; unfold rxconst in *; intro K.
  - exact K.
  - auto.
  - rewrite H. exact K.
  - destruct (rx_dop_rxk _ _ _ _ H) as [E1 E2]. rewrite E1, E2. exact K.
  - rewrite H0. exact K.
  - rewrite H0. exact K.
Qed.

Theorem rxconst_vstep : forall qc mi (s : vsock) o, rxconst qc mi s -> rxconst qc mi (vstep_state cci s o).
Proof.
  intros qc mi s o Hp. unfold vstep_state. destruct o; cbn [vstep];
    try (repeat match goal with |- context [if ?c then _ else _] => destruct c end;
         repeat match goal with |- context [let '(_, _) := ?t in _] => destruct t end;
         cbn [fst]; exact Hp).
  - destruct (poll cci (VSockRec.set_sends s script)) as [s' r] eqn:E. cbn [fst].
    apply poll_reach in E. eapply rxconst_reach; [exact E|]. exact Hp.
  - destruct (reader_dropped (v_rx s)); [exact Hp|].
    destruct (rx_read (v_rx s) n) as [[rx1 r] w] eqn:E. cbn [fst].
    destruct (rx_read_rxk _ _ _ _ _ E) as [E1 E2]. unfold rxconst in *. cbn [v_rx set_rx].
    rewrite E1, E2. exact Hp.
  - destruct (reader_dropped (v_rx s)); [exact Hp|]. unfold rx_drop_reader. cbn [fst]. exact Hp.
Qed.

Lemma rxconst_vsock_new : forall mk c s, vsock_new cci mk c = Some s ->
  rxconst (vc_rx_buf c)
    (mss (ss_new {| cfg_ipv4 := vc_ipv4 c; cfg_link_mtu := vc_link_mtu c; cfg_cooldown := 3 |})) s.
Proof.
  intros mk c s H. unfold vsock_new in H.
  destruct (match (if vc_incoming c then None else _) with Some r => _ | None => _ end); [|discriminate].
  inversion H; subst. split; reflexivity.
Qed.

(* ------------------------------------------------------------------ the stages of a poll *)
Definition zI (s : vsock) : Prop := rxi s /\ mss_pos s.
Definition zB (s : vsock) : Prop := zI s /\ zw (v_rx s).
Definition zD (s : vsock) : Prop := zB s /\ should_send_window_update s = false.

(* a step within reach that never lowers mss keeps zI *)
Lemma stage_zI : forall X (s : vsock) (m : step X),
  stR (reach false false) s m -> step_frame s m -> zI s -> stU zI m.
Proof.
  intros X s m R F [H1 H2]. destruct m as [s' a|s' e|]; cbn [stR stU step_frame] in *; auto.
  split; [eapply rxi_reach; eassumption|].
  destruct F as (_ & _ & _ & _ & F5 & _). unfold mss_pos in *. lia.
Qed.

(* ... and zB when it does not touch the receive half *)
Lemma stage_zB : forall X (s : vsock) (m : step X),
  stR (reach false false) s m -> step_frame s m ->
  stU (fun s' => v_rx s' = v_rx s) m -> zB s -> stU zB m.
Proof.
  intros X s m R F E [H1 H2]. pose proof (stage_zI X s m R F H1) as K.
  destruct m as [s' a|s' e|]; cbn [stU] in *; auto. split; [exact K|]. rewrite E. exact H2.
Qed.

Lemma txf_rx_same : forall X (s : vsock) (m : step X), stR txf s m -> stU (fun s' => v_rx s' = v_rx s) m.
Proof. intros X s m H. destruct m; cbn [stR stU] in *; auto. apply H. Qed.

Theorem poll_zw_tail : forall (s s' : vsock),
  zI s -> poll cci s = (s', PollPending) -> v_transport_pending s' = false ->
  exists sb, zD sb /\ v_transport_pending sb = false /\ s' = poll_tail sb.
Proof.
  intros s s' Hz H Hnp.
  assert (HS : tail_shape zD s').
  { apply (poll_S cci zI zI zI zB zB zD) with (s := s); try exact H.
    - intros a K. exact K.
    - intros a K. apply stU_stC.
      apply (stage_zI _ a); [apply maybe_send_syn_ack_reach | apply maybe_send_syn_ack_frame | exact K].
    - intros a K. apply stU_stC.
      apply (stage_zI _ a); [apply stf_strch, send_ack_txf | apply send_ack_frame | exact K].
    - intros a K. apply stU_stC.
      apply (stage_zI _ a); [apply process_all_incoming_messages_reach
                            | apply process_all_incoming_messages_frame | exact K].
    - intros a rx1 fb w [K1 K2] E. split; [split|].
      + exact (proj1 (rx_flush_spec _ _ _ _ K1 E)).
      + exact K2.
      + eapply rx_flush_zw; [|exact E]. pose proof (inv_ff_bounds _ K1). lia.
    - intros a K.
      apply (stage_zB _ a); [apply split_tx_queue_into_segments_reach
                            | apply split_tx_queue_into_segments_frame | | exact K].
      pose proof (split_srx cci a) as P.
      destruct (split_tx_queue_into_segments cci a); cbn [stR stU] in *; auto. apply P.
    - intros a K Ra.
      pose proof (stage_zB _ a (send_tx_queue cci a)
                    (stf_strch _ _ _ _ _ (send_tx_queue_txf cci a)) (send_tx_queue_frame cci a)
                    (txf_rx_same _ _ _ (send_tx_queue_txf cci a)) K) as P.
      destruct (send_tx_queue cci a); cbn [stU] in *; auto. split; [intros _; apply P | intros _ _; exact P].
    - intros a [[K1 K2] K3].
      assert (Erx : v_rx (transition_to_fin_wait_1 a) = v_rx a).
      { unfold transition_to_fin_wait_1. destruct (v_state a); reflexivity. }
      split; [split|].
      + unfold rxi. rewrite Erx. exact K1.
      + pose proof (transition_to_fin_wait_1_frame a) as (_ & _ & _ & _ & F5 & _). unfold mss_pos in *. lia.
      + rewrite Erx. exact K3.
    - intros a K. apply stU_stC.
      apply (stage_zB _ a); [apply stf_strch, maybe_send_fin_txf | apply maybe_send_fin_frame
                            | apply txf_rx_same, maybe_send_fin_txf | exact K].
    - intros a K.
      pose proof (maybe_send_ack_txf a) as X. pose proof (maybe_send_ack_frame0 a) as F0.
      destruct (maybe_send_ack a) as [b u| |] eqn:E; cbn [stC stU stR] in *; auto.
      intro Tp. destruct K as [[K1 K2] K3].
      destruct (maybe_send_ack_no_immediate a b u K2 E Tp) as [_ W].
      destruct X as (X1 & _). destruct F0 as (_ & _ & _ & _ & F5 & _).
      split; [split; [split|]|]; [unfold rxi; rewrite X1; exact K1
                                 | unfold mss_pos in *; lia | rewrite X1; exact K3 | exact W].
    - intro a. apply no_restart_qb, maybe_send_syn_ack_qb.
    - intro a. apply no_restart_qb, send_ack_qb.
    - intros a Ra. pose proof (process_all_incoming_messages_pimr cci a) as P'.
      destruct (process_all_incoming_messages cci a); cbn [stU stR] in *; auto.
      destruct P' as (_ & _ & _ & _ & _ & P6 & _). congruence.
    - intro a. apply no_restart_qb, split_tx_queue_into_segments_qb.
    - apply transition_to_fin_wait_1_restart.
    - intro a. apply no_restart_qb, maybe_send_fin_qb.
    - intro a. apply no_restart_qb, maybe_send_ack_qb.
    - exact Hz. }
  destruct HS as [HS|(sb & K & Tp & _ & _ & ->)]; [congruence|].
  exists sb. auto.
Qed.

(* the observable consequence: zero window advertised, nothing held for reassembly, current MSS not
   above the creation-time one, receive buffer below 2^32: the RX dispatcher waker is registered *)
Theorem zero_window_registered : forall qc mi (s s' : vsock),
  zI s -> rxconst qc mi s -> qc < M32 ->
  poll cci s = (s', PollPending) -> v_transport_pending s' = false ->
  v_last_sent_window s' = 0 -> is_remote_fin_or_later (v_state s') = false ->
  ooq_len (v_rx s') = 0 -> reader_dropped (v_rx s') = false ->
  mss (v_ss s') <= mi ->
  disp_waker (v_rx s') = true.
Proof.
  intros qc mi s s' Hz Hc Hq H Tp Hw Hf Hl Hd Hm.
  pose proof (poll_reach cci _ _ _ H) as R.
  assert (Hc' : rxconst qc mi s') by (eapply rxconst_reach; [exact R | exact Hc]).
  destruct (poll_zw_tail s s' Hz H Tp) as (sb & [[[K1 K2] K3] K4] & _ & ->).
  destruct (poll_tail_fields sb) as (_ & F2 & F3 & F4 & F5 & _).
  destruct Hc' as [C1 C2].
  rewrite F3 in *. rewrite F2 in Hm. rewrite F4 in Hf. rewrite F5 in Hw.
  destruct K3 as [K3|K3]; [exact K3|exfalso].
  (* maybe_send_ack left no window update owed: the window it would advertise is zero *)
  unfold should_send_window_update in K4. rewrite Hf, Hw in K4. cbn [Z.eqb] in K4.
  assert (Hrw : rx_window sb = 0).
  { destruct (Z.eqb_spec (rx_window sb) 0) as [E|E]; [exact E|discriminate]. }
  unfold rx_window, remaining_rx_window in Hrw. rewrite Hd in Hrw.
  assert (Hob : ooq_len_bytes (v_rx sb) = 0).
  { destruct K1 as (_ & _ & _ & I4 & I5 & _). rewrite I5. apply count0_sum0. rewrite <- I4. exact Hl. }
  rewrite Hob in Hrw.
  destruct K1 as (_ & _ & _ & _ & _ & I6 & I7 & I8 & _).
  pose proof (sum_q_bytes_nonneg (q (v_rx sb))) as Hqn.
  assert (Hlr : sat_sub (last_remaining_rx_window (v_rx sb)) 0 = last_remaining_rx_window (v_rx sb))
    by (unfold sat_sub; lia).
  rewrite Hlr in Hrw.
  assert (Hmod : last_remaining_rx_window (v_rx sb) mod M32 = last_remaining_rx_window (v_rx sb)).
  { apply Z.mod_small. lia. }
  rewrite Hmod in Hrw. unfold mss_pos in K2.
  destruct (Z.ltb_spec (last_remaining_rx_window (v_rx sb)) (mss (v_ss sb))) as [Hlt|Hge]; [lia|].
  (* wnd >= mss: the advertised window would be at least one mss *)
  assert (0 < mss (v_ss sb)) by lia.
  pose proof (Z.mod_pos_bound (last_remaining_rx_window (v_rx sb)) (mss (v_ss sb)) H0). lia.
Qed.

End WithCC.

(* The retransmission-timer invariant of a connection, kept by every function of a poll and by
   every event:
     ti s := the RTO is within [RTTE_MIN_RTO, RTTE_MAX_RTO]
          /\ 0 <= rto_retransmissions
          /\ (a sent, undelivered segment exists -> the retransmission timer is armed).
   The timer is turned off in three places only (process_all_incoming_messages when the table is
   empty, the RTO branch of send_tx_queue when nothing is left to resend, the expired-probe arm of
   split_tx_queue_into_segments when no segment remains); a segment becomes "sent" only in
   send_data, which arms the timer. *)
From Utp Require Import Base.Prelude Wire.SeqNr Wire.Header Rtt.Rtte Rtt.Rtte_Proofs Mtu.SegSizes
  Rx.Rx Tx.Ring Tx.Segments Tx.Segments_Proofs Tx.Segments_ProofsOut
  Conn.Recovery Conn.Msg Conn.VSockRec Conn.VSock Conn.VSockRun Conn.VObs
  Conn.VSock_Lemmas Conn.VSock_LemmasStep.

Lemma timer_arm_some : forall t now d r, timer_arm t now d r <> None.
Proof. intros t now d r. unfold timer_arm. destruct t; [destruct r|]; discriminate. Qed.

Section WithCC.
Context {CC : Type} (cci : cc_iface CC).
Notation vsock := (vsock CC).

Definition rd (s : vsock) : Prop :=
  segs_out (ss_segs (v_segs s)) = true -> v_t_retransmit s <> None.

Definition ti (s : vsock) : Prop :=
  rto_in_bounds (v_rtte s) /\ 0 <= v_rto_retransmissions s /\ rd s.

Definition tiR (s s' : vsock) : Prop := ti s -> ti s'.

Lemma tiR_refl : forall s, tiR s s.
Proof. intros s H; exact H. Qed.

Lemma tiR_trans : forall a b c, tiR a b -> tiR b c -> tiR a c.
Proof. intros a b c H1 H2 H. auto. Qed.

Notation stt := (stR tiR).

Lemma ti_gen : forall (s s' : vsock),
  (rto_in_bounds (v_rtte s) -> rto_in_bounds (v_rtte s')) ->
  (0 <= v_rto_retransmissions s -> 0 <= v_rto_retransmissions s') ->
  (v_t_retransmit s' <> None \/ segs_out (ss_segs (v_segs s')) = false \/
   (out_sub (ss_segs (v_segs s')) (ss_segs (v_segs s)) /\ v_t_retransmit s' = v_t_retransmit s)) ->
  tiR s s'.
Proof.
  intros s s' H1 H2 H3 (A & B & C). unfold ti, rd. split; [auto|]. split; [auto|].
  destruct H3 as [H3|[H3|[H3 H4]]].
  - intros _. exact H3.
  - intro K. congruence.
  - intro K. rewrite H4. apply C. apply H3. exact K.
Qed.

Lemma ti_same : forall (s s' : vsock),
  v_rtte s' = v_rtte s -> v_rto_retransmissions s' = v_rto_retransmissions s ->
  v_segs s' = v_segs s -> v_t_retransmit s' = v_t_retransmit s -> tiR s s'.
Proof.
  intros s s' E1 E2 E3 E4. apply ti_gen.
  - rewrite E1; auto.
  - rewrite E2; auto.
  - right; right. rewrite E3. split; [intro K; exact K | exact E4].
Qed.

(* rtte / counter untouched, the timer is armed afterwards *)
Lemma ti_armed : forall (s s' : vsock),
  v_rtte s' = v_rtte s -> v_rto_retransmissions s' = v_rto_retransmissions s ->
  v_t_retransmit s' <> None -> tiR s s'.
Proof.
  intros s s' E1 E2 E3. apply ti_gen.
  - rewrite E1; auto.
  - rewrite E2; auto.
  - left; exact E3.
Qed.

Ltac ti_same_tac := apply ti_same; exact eq_refl.

(* goal [tiR s b] from [H : tiR s a], b = a with untouched (rtte, counter, segs, timer) *)
Ltac ti_via H := eapply tiR_trans; [exact H | ti_same_tac].

Lemma next_send_ti : forall (s : vsock) n s1 o, next_send s n = (s1, o) -> tiR s s1.
Proof.
  intros s n s1 o H. unfold next_send in H.
  repeat break_match_hyp H; inversion H; subst; try inversion Heqp; subst; ti_same_tac.
Qed.

Lemma send_control_packet_ti : forall (s : vsock) h, stt s (send_control_packet s h).
Proof.
  intros s h. unfold send_control_packet.
  destruct (v_transport_pending s); [apply tiR_refl|].
  destruct (next_send s _) as [s1 o] eqn:E. apply next_send_ti in E.
  destruct o; cbn [stR]; auto; unfold on_packet_sent, emit; ti_via E.
Qed.

Lemma send_ack_ti : forall (s : vsock), stt s (send_ack s).
Proof. intros s. unfold send_ack. apply send_control_packet_ti. Qed.

Lemma maybe_send_fin_ti : forall (s : vsock), stt s (maybe_send_fin s).
Proof.
  intros s. unfold maybe_send_fin.
  destruct (v_transport_pending s); [apply tiR_refl|].
  destruct (our_fin_if_unacked (v_state s)); [|apply tiR_refl].
  destruct (negb _); [apply tiR_refl|].
  apply (stR_sbind tiR tiR_trans); [apply send_control_packet_ti|].
  intros s1 [|]; cbn [stR]; [|apply tiR_refl].
  apply ti_armed; try exact eq_refl. vsimpl_goal. apply timer_arm_some.
Qed.

Lemma send_data_ti : forall (s : vsock) h f, stt s (send_data s h f).
Proof.
  intros s h f. unfold send_data.
  destruct (_ =? o_max_retx _); [apply tiR_refl|].
  destruct (_ <? 0); [exact I|].
  destruct (_ <? fs_payload_offset f); [apply tiR_refl|].
  destruct (_ <? _ + _); [apply tiR_refl|].
  destruct (next_send s _) as [s1 o] eqn:E. apply next_send_ti in E.
  destruct o; cbn [stR]; auto; try (ti_via E).
  eapply tiR_trans; [exact E|]. unfold on_packet_sent, emit.
  destruct (seq_gt _ _); try destruct (seq_gt _ _);
    (apply ti_armed; [exact eq_refl | exact eq_refl | vsimpl_goal; apply timer_arm_some]).
Qed.

Lemma on_rto_reactions_ti : forall (s s1 : vsock), on_rto_reactions cci s = Some s1 -> tiR s s1.
Proof.
  intros s s1 H. unfold on_rto_reactions in H.
  destruct (Rtte.on_rto_timeout (v_rtte s)) as [rt|] eqn:E; inversion H; subst.
  apply ti_gen; vsimpl_goal.
  - intros _. eapply timeout_in_bounds; exact E.
  - auto.
  - right; right. split; [intro K; exact K | reflexivity].
Qed.

Lemma recovery_loop_ti : forall items (s : vsock) h mss0 st,
  stt s (recovery_loop items s h mss0 st).
Proof.
  induction items as [|f rest IH]; intros s h mss0 st; cbn [recovery_loop].
  - apply tiR_refl.
  - destruct (negb _); [apply tiR_refl|].
    destruct (_ && negb (sg_lost _)); [apply IH|].
    destruct (_ && negb (sg_sacks_after _)); [apply tiR_refl|].
    pose proof (send_data_ti s h f) as F.
    destruct (send_data s h f) as [s1 r|s1 e|]; cbn [stR] in *; auto.
    destruct r; cbn [stR]; auto.
    eapply (stR_weaken tiR tiR_trans); [exact F | apply IH].
Qed.

Lemma new_data_loop_ti : forall items (s : vsock) h remaining,
  stt s (new_data_loop items s h remaining).
Proof.
  induction items as [|f rest IH]; intros s h remaining; cbn [new_data_loop].
  - apply tiR_refl.
  - destruct (_ <? _); [apply tiR_refl|].
    pose proof (send_data_ti s h f) as F.
    destruct (send_data s h f) as [s1 r|s1 e|]; cbn [stR] in *; auto.
    destruct r; cbn [stR]; auto.
    eapply (stR_weaken tiR tiR_trans); [exact F | apply IH].
Qed.

Lemma set_recovering_ti : forall (s : vsock) rc, tiR s (set_recovering s rc).
Proof. intros. unfold set_recovering. ti_same_tac. Qed.

Lemma send_tx_queue_ti : forall (s : vsock), stt s (send_tx_queue cci s).
Proof.
  intros s. unfold send_tx_queue.
  destruct (v_transport_pending s); [apply tiR_refl|].
  apply (stR_sbind tiR tiR_trans).
  - destruct (timer_expired _ _); [|apply tiR_refl].
    destruct (iter_for_sending _ _) as [|f l] eqn:Eit.
    + assert (Hoff : tiR s (set_t_retransmit s None)).
      { apply ti_gen; vsimpl_goal; auto. right; left. apply iter_nil_no_out. exact Eit. }
      destruct (our_fin_if_unacked _); [|exact Hoff].
      destruct (_ =? _); [|exact Hoff].
      apply (stR_weaken tiR tiR_trans) with (s := set_last_sent_seq_nr s (wsub16 (v_last_sent_seq_nr s) 1));
        [ti_same_tac|].
      apply (stR_sbind tiR tiR_trans); [apply maybe_send_fin_ti|].
      intros s1 a. destruct a; [|apply tiR_refl].
      destruct (on_rto_reactions cci s1) eqn:E; [|exact I]. apply on_rto_reactions_ti in E.
      cbn [stR]. eapply tiR_trans; [exact E|].
      apply ti_armed; [exact eq_refl | exact eq_refl | vsimpl_goal; apply timer_arm_some].
    + pose proof (send_data_ti s (outgoing_header s) f) as Hd.
      destruct (send_data _ _ f) as [s1 r|s1 e|]; cbn [stR] in *; auto.
      destruct r; cbn [stR]; auto.
      cbv zeta.
      match goal with |- stR _ _ (match ?o with _ => _ end) => destruct o as [s2|] eqn:E end; [|exact I].
      assert (F2 : tiR s1 s2).
      { destruct (negb _); [apply on_rto_reactions_ti; exact E|injection E as <-; apply tiR_refl]. }
      cbn [stR]. eapply tiR_trans; [exact Hd|]. eapply tiR_trans; [exact F2|].
      apply ti_gen; vsimpl_goal.
      * auto.
      * lia.
      * left. apply timer_arm_some.
  - intros s1 ret. destruct ret; [apply tiR_refl|].
    destruct (0 <? _); [apply tiR_refl|]. destruct (ss_segs _); [apply tiR_refl|].
    apply (stR_sbind tiR tiR_trans).
    + destruct (rv_phase _); try apply tiR_refl.
      apply (stR_sbind tiR tiR_trans); [apply recovery_loop_ti|].
      intros s2 [st early]. cbv beta iota zeta.
      destruct early; [apply set_recovering_ti|].
      match goal with |- stR _ _ (match our_fin_if_unacked (v_state ?y) with _ => _ end) =>
        assert (F3 : tiR s2 y); [|revert F3; generalize y; intros sy F3] end.
      { eapply tiR_trans; [apply set_recovering_ti|].
        destruct (_ <? _); [|apply tiR_refl]. destruct (rc_recalc _); [ti_same_tac|].
        destruct (0 <? _); [ti_same_tac|apply tiR_refl]. }
      destruct (our_fin_if_unacked _); [destruct (_ =? _)|]; cbn [stR]; auto.
    + intros s2 ret. destruct ret; [apply tiR_refl|].
      apply (stR_sbind tiR tiR_trans); [apply new_data_loop_ti|].
      intros s3 tl. destruct tl as [[sq sz]|]; [|apply tiR_refl].
      destruct (pop_mtu_probe _ _) as [segs' popped] eqn:Ep. destruct popped; cbn [stR]; [|apply tiR_refl].
      apply ti_gen; vsimpl_goal; auto.
      right; right. split; [|reflexivity]. eapply pop_mtu_probe_out; exact Ep.
Qed.

Lemma maybe_send_ack_ti : forall (s : vsock), stt s (maybe_send_ack s).
Proof.
  intros s. unfold maybe_send_ack.
  pose proof (send_ack_ti s) as G.
  destruct (immediate_ack_to_transmit s); [exact G|].
  destruct (should_send_window_update s); [exact G|].
  destruct (timer_expired _ _).
  - destruct (ack_to_transmit s); [exact G|]. cbn [stR]. ti_same_tac.
  - destruct (0 <? v_cbu s); cbn [stR]; ti_same_tac.
Qed.

(* ---- segmentation ---- *)
Lemma segment_loop_out : forall fuel nagle ss segs rem rwr ss' segs' rem',
  segment_loop fuel nagle ss segs rem rwr = Some (ss', segs', rem') ->
  segs_out (ss_segs segs') = segs_out (ss_segs segs).
Proof.
  induction fuel as [|x fuel IH]; intros nagle ss segs rem rwr ss' segs' rem' H; cbn [segment_loop] in H.
  - inversion H; reflexivity.
  - destruct (_ && _); [|inversion H; reflexivity].
    destruct (next_segment_size ss) as [[ss1 sz]|]; [|discriminate].
    destruct (_ && _ && _); [inversion H; subst; reflexivity|].
    destruct (mss ss1 <? _).
    + inversion H; subst. apply enqueue_out.
    + apply IH in H. rewrite H. apply enqueue_out.
Qed.

Lemma split_tx_queue_into_segments_ti : forall (s : vsock),
  stt s (split_tx_queue_into_segments cci s).
Proof.
  intros s. unfold split_tx_queue_into_segments.
  destruct (_ =? 0); [cbn [stR]; ti_same_tac|].
  match goal with |- context [is_remote_fin_or_later (v_state ?x)] => set (s1 := x) end.
  assert (F1 : tiR s s1).
  { subst s1. destruct (_ && _); [|apply tiR_refl].
    destruct (grow _ _) as [tx1 g]. destruct g; [destruct (wake_writer tx1)|]; ti_same_tac. }
  clearbody s1.
  destruct (is_remote_fin_or_later _); [exact F1|].
  destruct (pop_expired_mtu_probe _ _ _) as [segs1 pe] eqn:Ep.
  assert (Hcont : forall s2 : vsock, tiR s s2 ->
    stt s
      (if Z.of_nat (length (ring (v_tx s))) <? ss_len_bytes (v_segs s2)
       then SErr s2 (ErrBug BugInBufferComputations)
       else match segment_loop (ring (v_tx s2)) (o_nagle (v_opts s2)) (v_ss s2) (v_segs s2)
                    (Z.of_nat (length (ring (v_tx s))) - ss_len_bytes (v_segs s2))
                    (v_last_remote_window s2) with
            | Some (ss', segs', remaining) =>
                SOk (set_unsegmented (VSockRec.set_segs (set_ss s2 ss') segs') remaining) tt
            | None => SPanic
            end)).
  { intros s2 F2. destruct (_ <? _); [exact F2|].
    destruct (segment_loop _ _ _ _ _ _) as [[[ss' segs'] rem']|] eqn:E; [|exact I].
    apply segment_loop_out in E. cbn [stR]. eapply tiR_trans; [exact F2|].
    apply ti_gen; vsimpl_goal; auto.
    right; right. split; [|reflexivity]. unfold out_sub. rewrite E. auto. }
  destruct pe.
  - apply Hcont. eapply tiR_trans; [exact F1|].
    match goal with |- tiR s1 (set_ss ?s3 _) => assert (F3 : tiR s1 s3); [|ti_via F3] end.
    match goal with |- tiR s1 (if _ then set_last_sent_seq_nr ?s2 _ else _) =>
      assert (F2 : tiR s1 s2); [|destruct (seq_gt _ _); [ti_via F2 | exact F2]] end.
    apply ti_gen; vsimpl_goal; auto; [lia|].
    destruct (ss_segs segs1) eqn:El; [right; left; reflexivity|left; apply timer_arm_some].
  - cbn [stR]. ti_via F1.
  - apply Hcont. exact F1.
Qed.

(* ---- death, transitions ---- *)
Lemma mark_both_closed_ti : forall (s : vsock), tiR s (mark_both_closed s).
Proof.
  intros s. unfold mark_both_closed.
  destruct (rx_mark_vsock_closed _); destruct (mark_vsock_closed _). ti_same_tac.
Qed.

Lemma just_before_death_ti : forall (s : vsock) e, tiR s (just_before_death s e).
Proof.
  intros s e. unfold just_before_death.
  match goal with |- context [mark_both_closed ?x] => set (s1 := x) end.
  assert (F1 : tiR s s1).
  { subst s1. destruct e; [destruct (rx_enqueue_error _)|]; [ti_same_tac | apply tiR_refl]. }
  clearbody s1.
  pose proof (tiR_trans _ _ _ F1 (mark_both_closed_ti s1)) as F2.
  set (s2 := mark_both_closed s1) in *. clearbody s2.
  destruct e; [|exact F2].
  destruct (negb _); [|exact F2].
  match goal with |- context [send_control_packet ?x ?h] =>
    pose proof (send_control_packet_ti x h) as F4; destruct (send_control_packet x h) end;
    cbn [stR] in F4.
  - eapply tiR_trans; [exact F2|]. eapply tiR_trans; [|exact F4]. ti_same_tac.
  - eapply tiR_trans; [exact F2|]. eapply tiR_trans; [|exact F4]. ti_same_tac.
  - ti_via F2.
Qed.

Lemma transition_to_fin_wait_1_ti : forall (s : vsock), tiR s (transition_to_fin_wait_1 s).
Proof. intros s. unfold transition_to_fin_wait_1. destruct (v_state s); first [apply tiR_refl | ti_same_tac]. Qed.

(* ---- incoming messages ---- *)
Lemma state_table_ti : forall (s : vsock) h,
  match state_table s h with TblDrop s1 | TblErr s1 _ | TblContinue s1 => tiR s s1 end.
Proof.
  intros s h. unfold state_table, restart_remote_inactivity_timer.
  repeat break_match; first [apply tiR_refl | ti_same_tac].
Qed.

Lemma recovery_on_ack_out : forall r h segs ls cc now rtt r' segs' cc',
  recovery_on_ack cci r h segs ls cc now rtt = Some (r', segs', cc') ->
  segs_out (ss_segs segs') = segs_out (ss_segs segs).
Proof.
  intros r h segs ls cc now rtt r' segs' cc' H. unfold recovery_on_ack in H.
  cbn [rv_phase] in H. destruct (rv_phase r).
  - destruct (seq_ge _ _); inversion H; reflexivity.
  - destruct (ss_segs segs) eqn:Es; [inversion H; subst; rewrite Es; reflexivity|].
    rewrite <- Es.
    match type of H with match ?c with _ => _ end = _ => destruct c as [[dup' la']|] end; [|discriminate].
    destruct (_ <? _); [inversion H; reflexivity|].
    destruct (calc_pipe _ _ _ _ _) as [[[sg pipe] recalc]|] eqn:Ec; [|discriminate].
    inversion H; subst. eapply calc_pipe_out; exact Ec.
  - destruct (seq_ge _ _); inversion H; reflexivity.
Qed.

Lemma process_incoming_message_ti : forall (s : vsock) m,
  stt s (process_incoming_message cci s m).
Proof.
  intros s m. unfold process_incoming_message.
  pose proof (state_table_ti s (m_hdr m)) as T.
  destruct (state_table s (m_hdr m)) as [s1|s1 e|s1]; cbn [stR] in *; auto.
  destruct (remove_up_to_ack _ _ _ _) as [segs1 res] eqn:Er.
  destruct (match is_recovering _, _ with | false, Some rtt => _ | _, _ => _ end) as [rtte1|] eqn:Ert; [|exact I].
  destruct (cc_on_ack _ _ _ _ _) as [cc3|]; [|exact I].
  destruct (recovery_on_ack _ _ _ _ _ _ _ _) as [[[rec1 segs2] cc4]|] eqn:Ero; [|exact I].
  match goal with |- context [seq_sub _ (wadd16 (v_last_consumed ?x) 1)] => set (s2 := x) end.
  assert (F2 : tiR s s2).
  { eapply tiR_trans; [exact T|]. subst s2. apply ti_gen; vsimpl_goal.
    - intro Hb. destruct (is_recovering _); [injection Ert as <-; exact Hb|].
      destruct (ar_new_rtt res); [eapply sample_in_bounds; exact Ert | injection Ert as <-; exact Hb].
    - auto.
    - right; right. split; [|reflexivity].
      intro K. rewrite (recovery_on_ack_out _ _ _ _ _ _ _ _ _ _ Ero) in K.
      exact (remove_up_to_ack_out _ _ _ _ _ _ Er K). }
  clearbody s2.
  destruct (ch_type (m_hdr m)); try exact F2.
  - (* ST_DATA *)
    destruct (_ <? 0); [cbn [stR]; unfold force_immediate_ack; ti_via F2|].
    match goal with |- context [rx_add_remove (v_rx ?x)] => set (s3 := x) end.
    assert (F3 : tiR s s3) by (subst s3; ti_via F2).
    clearbody s3.
    destruct (rx_add_remove _ _ _ _) as [[rx1 ar] w].
    assert (F4 : tiR s (add_wakes (set_rx s3 rx1) (rx_wakes w))) by (unfold add_wakes; ti_via F3).
    set (s4 := add_wakes (set_rx s3 rx1) (rx_wakes w)) in *. clearbody s4.
    destruct ar as [r|]; [|exact I].
    destruct (add_err r); [exact F4|].
    match goal with |- context [send_ack (force_immediate_ack ?x)] => set (s5 := x) end.
    assert (F5 : tiR s s5).
    { subst s5. unfold restart_remote_inactivity_timer. destruct r; first [exact F4 | ti_via F4]. }
    clearbody s5.
    destruct (_ || _); [|exact F5].
    assert (F6 : tiR s (force_immediate_ack s5)) by (unfold force_immediate_ack; ti_via F5).
    set (s6 := force_immediate_ack s5) in *. clearbody s6.
    apply (stR_weaken tiR tiR_trans) with (s := s6); [exact F6|].
    apply (stR_sbind tiR tiR_trans); [apply send_ack_ti|].
    intros s7 _. apply tiR_refl.
  - (* ST_FIN *)
    destruct (_ && _); [|cbn [stR]; unfold force_immediate_ack; ti_via F2].
    match goal with |- context [rx_add_remove (v_rx ?x)] => set (s4 := x) end.
    assert (F3 : tiR s s4) by (subst s4; unfold force_immediate_ack; ti_via F2).
    clearbody s4.
    destruct (rx_add_remove _ _ _ _) as [[rx1 ar] w].
    assert (F4 : tiR s (add_wakes (set_rx s4 rx1) (rx_wakes w))) by (unfold add_wakes; ti_via F3).
    set (s5 := add_wakes (set_rx s4 rx1) (rx_wakes w)) in *. clearbody s5.
    destruct ar as [r|]; [|exact I].
    destruct (add_err r); [exact F4|].
    destruct (mark_vsock_closed _) as [tx1 w2]. cbn [stR]. unfold add_wakes. ti_via F4.
Qed.

Lemma recv_loop_ti : forall fuel (s : vsock) acc, stt s (recv_loop cci fuel s acc).
Proof.
  assert (Hclosed : forall (s : vsock) (acc : on_ack_result),
    stt s (sbind (maybe_send_fin (transition_to_fin_wait_1 s))
                 (fun s2 _ => SOk (set_state s2 Closed) (acc, true)))).
  { intros s acc.
    apply (stR_weaken tiR tiR_trans) with (s := transition_to_fin_wait_1 s);
      [apply transition_to_fin_wait_1_ti|].
    apply (stR_sbind tiR tiR_trans); [apply maybe_send_fin_ti|].
    intros s2 _. cbn [stR]. ti_same_tac. }
  induction fuel as [|x fuel IH]; intros s acc.
  - cbn [recv_loop]. destruct (v_inbox s).
    + destruct (v_inbox_closed s); [apply Hclosed|cbn [stR]; ti_same_tac].
    + exact I.
  - cbn [recv_loop]. destruct (v_inbox s) as [|m rest].
    + destruct (v_inbox_closed s); [apply Hclosed|cbn [stR]; ti_same_tac].
    + apply (stR_weaken tiR tiR_trans) with (s := set_inbox s rest); [ti_same_tac|].
      apply (stR_sbind tiR tiR_trans).
      * apply process_incoming_message_ti.
      * intros s1 r. destruct (_ || _); [apply tiR_refl|]. apply IH.
Qed.

Lemma process_all_incoming_messages_ti : forall (s : vsock),
  stt s (process_all_incoming_messages cci s).
Proof.
  intros s. unfold process_all_incoming_messages.
  apply (stR_sbind tiR tiR_trans); [apply recv_loop_ti|].
  intros s1 [r early].
  match goal with |- context [acked_counts_as_sent ?x] => set (s2 := x) end.
  assert (F2 : tiR s1 s2).
  { subst s2. destruct (_ || _); [|apply tiR_refl].
    destruct (ss_segs (v_segs (set_rto_retransmissions s1 0))) eqn:Es.
    - destruct (our_fin_if_unacked _).
      + unfold restart_remote_inactivity_timer.
        apply ti_gen; vsimpl_goal; auto; [lia|]. left. apply timer_arm_some.
      + apply ti_gen; vsimpl_goal; auto; [lia|]. right; left.
        cbn [v_segs set_rto_retransmissions] in Es. rewrite Es. reflexivity.
    - unfold restart_remote_inactivity_timer.
      apply ti_gen; vsimpl_goal; auto; [lia|]. left. apply timer_arm_some. }
  clearbody s2.
  apply (stR_weaken tiR tiR_trans) with (s := s2); [exact F2|].
  apply (stR_sbind tiR tiR_trans).
  - destruct (0 <? _); [|apply tiR_refl].
    assert (F2' : tiR s2 (acked_counts_as_sent s2)).
    { unfold acked_counts_as_sent. destruct (seq_gt _ _ && seq_lt _ _); [ti_same_tac | apply tiR_refl]. }
    apply (stR_weaken tiR tiR_trans) with (s := acked_counts_as_sent s2); [exact F2'|].
    generalize (acked_counts_as_sent s2). intro s2'.
    destruct (truncate_front _ _) as [tx1 tr].
    destruct tr; [|cbn [stR]; ti_same_tac].
    destruct (wake_writer tx1) as [tx2 w]. cbn [stR]. unfold add_wakes. ti_same_tac.
  - intros s3 _. destruct (rv_phase _); try apply tiR_refl.
    destruct (calc_pipe _ _ _ _ _) as [[[segs' pipe] recalc]|] eqn:Ec; [|exact I].
    cbn [stR]. unfold set_recovering. apply ti_gen; vsimpl_goal; auto.
    right; right. split; [|reflexivity]. unfold out_sub. rewrite (calc_pipe_out _ _ _ _ _ _ _ _ Ec). auto.
Qed.

Lemma maybe_send_syn_ack_ti : forall (s : vsock), stt s (maybe_send_syn_ack s).
Proof.
  intros s. unfold maybe_send_syn_ack.
  assert (G : forall c, stt s
     (if c =? o_max_retx (v_opts s) then SErr s ErrMaxSynAckRetransmissionsReached
      else sbind (send_ack s) (fun s1 sent =>
        if sent then SOk (set_t_syn_ack_resend (set_state s1 (SynAckSent (c + 1)))
               (timer_arm (v_t_syn_ack_resend s1) (v_now s1) SYNACK_RESEND_INTERNAL true)) tt
        else SOk s1 tt))).
  { intros c. destruct (_ =? _); [apply tiR_refl|].
    apply (stR_sbind tiR tiR_trans); [apply send_ack_ti|].
    intros s1 [|]; cbn [stR]; [ti_same_tac | apply tiR_refl]. }
  destruct (v_state s); try (cbn [stR]; ti_same_tac).
  - apply G.
  - destruct (timer_expired _ _); [apply G | apply tiR_refl].
Qed.

Lemma poll_tail_ti : forall (s : vsock), tiR s (poll_tail s).
Proof.
  intros s. unfold poll_tail, next_timer_to_poll, arm_in, add_wakes.
  repeat break_match; try (inversion Heqp; subst); ti_same_tac.
Qed.

Lemma rx_flush_ti : forall (s : vsock) rx1 w, tiR s (add_wakes (set_rx s rx1) w).
Proof. intros. unfold add_wakes. ti_same_tac. Qed.

Lemma poll_start_ti : forall (s : vsock), tiR s (poll_start s).
Proof. intros s. unfold poll_start. ti_same_tac. Qed.

(* ------------------------------------------------------------------ a whole poll, every event *)
Theorem poll_ti : forall (s s' : vsock) r, poll cci s = (s', r) -> ti s -> ti s'.
Proof.
  intros s s' r H Hti.
  assert (Hi : ti (poll_init s)) by exact Hti.
  revert Hi. change (tiR (poll_init s) s').
  apply (poll_R cci tiR tiR_refl tiR_trans) with (r := r); try exact H.
  - apply poll_start_ti.
  - apply maybe_send_syn_ack_ti.
  - apply send_ack_ti.
  - apply process_all_incoming_messages_ti.
  - intros s0 rx1 fb w _. apply rx_flush_ti.
  - apply split_tx_queue_into_segments_ti.
  - apply send_tx_queue_ti.
  - apply transition_to_fin_wait_1_ti.
  - apply maybe_send_fin_ti.
  - apply maybe_send_ack_ti.
  - apply just_before_death_ti.
  - apply poll_tail_ti.
Qed.

Theorem ti_vstep : forall (s : vsock) o, ti s -> ti (vstep_state cci s o).
Proof.
  intros s o Hp. unfold vstep_state. destruct o; cbn [vstep].
  - exact Hp.
  - exact Hp.
  - destruct (poll cci (VSockRec.set_sends s script)) as [s' r] eqn:E. cbn [fst].
    eapply poll_ti; [exact E | exact Hp].
  - destruct (v_inbox_closed s); exact Hp.
  - exact Hp.
  - destruct (writer_dropped (v_tx s)); [exact Hp|].
    destruct (poll_write (v_tx s) buf) as [[tx1 r] w]. exact Hp.
  - destruct (writer_dropped (v_tx s)); [exact Hp|].
    destruct (poll_flush (v_tx s)) as [[tx1 r] w]. exact Hp.
  - destruct (writer_dropped (v_tx s)); [exact Hp|].
    destruct (poll_shutdown (v_tx s)) as [[tx1 r] w]. exact Hp.
  - destruct (reader_dropped (v_rx s)); [exact Hp|].
    destruct (rx_read (v_rx s) n) as [[rx1 r] w]. exact Hp.
  - destruct (reader_dropped (v_rx s)); [exact Hp|].
    destruct (rx_drop_reader (v_rx s)) as [rx1 w]. exact Hp.
  - destruct (drop_writer (v_tx s)) as [tx1 w]. exact Hp.
Qed.

Lemma ti_vsock_new : forall mk c s, vsock_new cci mk c = Some s -> ti s.
Proof.
  intros mk c s H. unfold vsock_new in H.
  destruct (match (if vc_incoming c then None else _) with Some r => _ | None => _ end) as [rt0|] eqn:Ert;
    [|discriminate].
  inversion H; subst. unfold ti, rd. cbn [v_rtte v_rto_retransmissions v_segs v_t_retransmit].
  split; [|split; [lia|]].
  - destruct (vc_incoming c); [injection Ert as <-; apply default_in_bounds|].
    eapply sample_in_bounds; exact Ert.
  - unfold segments_new. cbn [ss_segs segs_out existsb]. discriminate.
Qed.

End WithCC.

(* C06, step level: lemmas for the back-off and fast-retransmit predicates.
   - an RTT sample is taken only from a message that acknowledged something (cumulatively or
     selectively): a poll whose messages made no progress leaves the estimator alone;
   - [pim_mode], [split_mode], [stq_mode]: what a poll does to the RTO counter, the estimator and the
     retransmission timer, function by function. *)
From Utp Require Conn.VSock_Inv.
From Utp Require Import Base.Prelude Wire.SeqNr Wire.SeqNr_Proofs Wire.Header Rtt.Rtte Rtt.Rtte_Proofs
  Mtu.SegSizes Rx.Rx Tx.Ring Tx.Ring_Proofs Tx.Segments Tx.Segments_Proofs Tx.Segments_ProofsOut
  Conn.Recovery Conn.Msg Conn.VSockRec Conn.VSock Conn.VSockRun Conn.VObs
  Conn.VSock_Lemmas Conn.VSock_LemmasStep Conn.VSock_LemmasReach Conn.VSock_LemmasTx
  Conn.VSock_LemmasIn Conn.VSock_LemmasFin Conn.VSock_LemmasTimers Conn.VSock_LemmasPipe
  Conn.C17_StepLemmas Conn.C06_RecProofs Conn.C06_StepLemmas.

(* ================================================================== a sample needs an acknowledgement *)
Lemma update_rtt_none : forall g now r, update_rtt g now r = None -> r = None.
Proof.
  intros g now r. unfold update_rtt. destruct (sg_sent g); auto.
  destruct r; cbn [rtt_min]; [discriminate | discriminate].
Qed.

Lemma drain_acc_rtt : forall l now a,
  ac_rtt (drain_acc l now a) = ac_rtt a \/ (0 < length l)%nat.
Proof.
  induction l as [|g r IH]; intros now a; cbn [drain_acc length]; [left; reflexivity | right; lia].
Qed.

Lemma apply_sack_rtt : forall l bits now a l' a',
  apply_sack l bits now a = (l', a') ->
  ac_cnt a <= ac_cnt a' /\ (ac_rtt a' = ac_rtt a \/ ac_cnt a < ac_cnt a').
Proof.
  induction l as [|x r IH]; intros bits now a l' a'; cbn [apply_sack].
  - intro H; injection H as _ <-. split; [lia | left; reflexivity].
  - destruct bits as [|b bs]; [intro H; injection H as _ <-; split; [lia | left; reflexivity]|].
    destruct (negb (sg_delivered x) && b).
    + destruct (apply_sack r bs now _) as [r' a''] eqn:E. intro H; injection H as _ <-.
      destruct (IH _ _ _ _ _ E) as [K1 K2]. cbn [ac_cnt ac_rtt] in *. split; [lia | right; lia].
    + destruct (apply_sack r bs now a) as [r' a''] eqn:E. intro H; injection H as _ <-.
      exact (IH _ _ _ _ _ E).
Qed.

Lemma sack_phase_rtt : forall t rest a1 su now ack sk l' a' dp lse,
  sack_phase t rest a1 su now ack sk = (l', a', dp, lse) ->
  0 <= ac_cnt a' /\ (ac_rtt a' = ac_rtt a1 \/ 0 < ac_cnt a').
Proof.
  intros t rest a1 su now ack sk l' a' dp lse. unfold sack_phase.
  set (a0 := {| ac_rtt := ac_rtt a1; ac_maxp := ac_maxp a1; ac_cnt := 0; ac_bytes := 0 |}).
  assert (Hid : forall (x : list seg * ack_acc * Z * bool), x = (rest, a0, ss_sack_depth t, ss_last_sack_empty t) ->
                  x = (l', a', dp, lse) -> 0 <= ac_cnt a' /\ (ac_rtt a' = ac_rtt a1 \/ 0 < ac_cnt a')).
  { intros x -> H. injection H as _ <- _ _. cbn [ac_cnt ac_rtt a0]. split; [lia | left; reflexivity]. }
  destruct rest as [|x xs]; [apply Hid; reflexivity|].
  destruct sk as [k|]; [|apply Hid; reflexivity].
  destruct (seq_gt su ack); [|apply Hid; reflexivity].
  set (rest := x :: xs). set (so := seq_sub (wadd16 ack 2) su).
  destruct (0 <=? so).
  - destruct (apply_sack (skipn (Z.to_nat so) rest) _ now _) as [tl' a''] eqn:E.
    intro H; injection H as _ <- _ _. destruct (apply_sack_rtt _ _ _ _ _ _ E) as [K1 K2].
    cbn [ac_cnt ac_rtt a0] in *. split; [lia|]. destruct K2; [left; assumption | right; lia].
  - destruct (apply_sack rest _ now _) as [l2 a''] eqn:E.
    intro H; injection H as _ <- _ _. destruct (apply_sack_rtt _ _ _ _ _ _ E) as [K1 K2].
    cbn [ac_cnt ac_rtt a0] in *. split; [lia|]. destruct K2; [left; assumption | right; lia].
Qed.

(* progress = the message acknowledged a segment, cumulatively or selectively *)
Definition prog (r : on_ack_result) : Prop := 0 < ar_acked_segments r \/ 0 < ar_newly_sacked_segments r.
Definition cnt_ok (r : on_ack_result) : Prop := 0 <= ar_acked_segments r /\ 0 <= ar_newly_sacked_segments r.

Lemma remove_up_to_ack_rtt : forall t now ack sk t' r,
  remove_up_to_ack t now ack sk = (t', r) -> cnt_ok r /\ (ar_new_rtt r = None \/ prog r).
Proof.
  intros t now ack sk t' r. unfold remove_up_to_ack.
  set (dc := if 0 <=? seq_sub ack (ss_snd_una t) then _ else 0%nat).
  set (a1 := drain_acc (firstn dc (ss_segs t)) now {| ac_rtt := None; ac_maxp := 0; ac_cnt := 0; ac_bytes := 0 |}).
  destruct (drain_acc_spec (firstn dc (ss_segs t)) now {| ac_rtt := None; ac_maxp := 0; ac_cnt := 0; ac_bytes := 0 |})
    as [Hc1 _]. fold a1 in Hc1. cbn [ac_cnt] in Hc1.
  pose proof (drain_acc_rtt (firstn dc (ss_segs t)) now {| ac_rtt := None; ac_maxp := 0; ac_cnt := 0; ac_bytes := 0 |}) as Hr1.
  fold a1 in Hr1. cbn [ac_rtt] in Hr1.
  destruct (sack_phase t _ a1 _ now ack sk) as [[[rest2 a2] depth] lse] eqn:E2.
  destruct (sack_phase_rtt _ _ _ _ _ _ _ _ _ _ _ E2) as [Hc2 Hr2].
  destruct (strip_delivered rest2 0 0) as [[rest3 cnt3] bytes3] eqn:E3.
  destruct (strip_delivered_spec _ _ _ _ _ _ E3) as (dropped & Hd & Hc3 & _).
  intro H; injection H as _ <-. unfold cnt_ok, prog. cbn [ar_acked_segments ar_newly_sacked_segments ar_new_rtt].
  split; [lia|].
  destruct Hr2 as [Hr2|Hr2]; [|right; right; exact Hr2].
  destruct Hr1 as [Hr1|Hr1]; [left; congruence | right; left; lia].
Qed.

(* ================================================================== delivered stays delivered:
   how the table a poll ends with relates to the table it started from.  DMl d l0 l: the segment at
   index d + i of l0, if delivered, is at index i of l, delivered. *)
Definition dlv (g g' : seg) : Prop := sg_delivered g = true -> sg_delivered g' = true.
Definition DMl (d : nat) (l0 l : list seg) : Prop :=
  forall i g, nth_error l0 (d + i) = Some g -> sg_delivered g = true ->
              exists g', nth_error l i = Some g' /\ sg_delivered g' = true.

Lemma DMl_refl : forall l, DMl 0 l l.
Proof. intros l i g H Hd. exists g. auto. Qed.

Lemma Forall2_nth : forall A B (R : A -> B -> Prop) l l' i x,
  Forall2 R l l' -> nth_error l i = Some x -> exists y, nth_error l' i = Some y /\ R x y.
Proof.
  intros A B R l l' i x H. revert i. induction H as [|a b l l' Hab H IH]; intros [|i] Hn; cbn [nth_error] in *;
    try discriminate.
  - injection Hn as <-. exists b. auto.
  - apply IH. exact Hn.
Qed.

Lemma DMl_mono : forall d l0 l l', DMl d l0 l -> Forall2 dlv l l' -> DMl d l0 l'.
Proof.
  intros d l0 l l' H F i g Hn Hd. destruct (H i g Hn Hd) as (g1 & H1 & H2).
  destruct (Forall2_nth _ _ _ _ _ _ _ F H1) as (g2 & H3 & H4). exists g2. split; [exact H3 | apply H4; exact H2].
Qed.

Lemma DMl_drop : forall d l0 dropped l, DMl d l0 (dropped ++ l) -> DMl (d + length dropped) l0 l.
Proof.
  intros d l0 dropped l H i g Hn Hd.
  replace (d + length dropped + i)%nat with (d + (length dropped + i))%nat in Hn by lia.
  destruct (H _ g Hn Hd) as (g' & H1 & H2). exists g'. split; [|exact H2].
  rewrite nth_error_app2 in H1 by lia. replace (length dropped + i - length dropped)%nat with i in H1 by lia.
  exact H1.
Qed.

Lemma DMl_app : forall d l0 l x, DMl d l0 l -> DMl d l0 (l ++ x).
Proof.
  intros d l0 l x H i g Hn Hd. destruct (H i g Hn Hd) as (g' & H1 & H2). exists g'. split; [|exact H2].
  rewrite nth_error_app1; [exact H1|]. apply nth_error_Some. congruence.
Qed.

(* dropping an undelivered last element *)
Lemma DMl_pop : forall d l0 init x, sg_delivered x = false -> DMl d l0 (init ++ [x]) -> DMl d l0 init.
Proof.
  intros d l0 init x Hx H i g Hn Hd. destruct (H i g Hn Hd) as (g' & H1 & H2). exists g'. split; [|exact H2].
  destruct (Nat.lt_ge_cases i (length init)) as [Hlt|Hge]; [rewrite nth_error_app1 in H1 by exact Hlt; exact H1|].
  exfalso. rewrite nth_error_app2 in H1 by exact Hge.
  destruct (i - length init)%nat as [|k]; cbn [nth_error] in H1; [injection H1 as <-; congruence|].
  destruct k; discriminate.
Qed.

Lemma Forall2_len : forall A B (R : A -> B -> Prop) l l', Forall2 R l l' -> length l = length l'.
Proof. intros A B R l l' H. induction H; cbn [length]; congruence. Qed.

Lemma Forall2_dlv_refl : forall l, Forall2 dlv l l.
Proof. induction l; constructor; [intro H; exact H | assumption]. Qed.

Lemma apply_sack_dlv : forall l bits now a l' a', apply_sack l bits now a = (l', a') -> Forall2 dlv l l'.
Proof.
  induction l as [|x r IH]; intros bits now a l' a'; cbn [apply_sack].
  - intro H; injection H as <- _. constructor.
  - destruct bits as [|b bs]; [intro H; injection H as <- _; apply Forall2_dlv_refl|].
    destruct (negb (sg_delivered x) && b).
    + destruct (apply_sack r bs now _) as [r' a''] eqn:E. intro H; injection H as <- _.
      constructor; [intros _; reflexivity | eapply IH; exact E].
    + destruct (apply_sack r bs now a) as [r' a''] eqn:E. intro H; injection H as <- _.
      constructor; [intro K; exact K | eapply IH; exact E].
Qed.

Lemma Forall2_app_inv_parts : forall A B (R : A -> B -> Prop) a b a' b',
  Forall2 R a a' -> Forall2 R b b' -> Forall2 R (a ++ b) (a' ++ b').
Proof. intros. apply Forall2_app; assumption. Qed.

Lemma sack_phase_dlv : forall t rest a1 su now ack sk l' a' dp lse,
  sack_phase t rest a1 su now ack sk = (l', a', dp, lse) -> Forall2 dlv rest l'.
Proof.
  intros t rest a1 su now ack sk l' a' dp lse. unfold sack_phase.
  destruct rest as [|x xs]; [intro H; injection H as <- _ _ _; constructor|].
  destruct sk as [k|]; [|intro H; injection H as <- _ _ _; apply Forall2_dlv_refl].
  destruct (seq_gt su ack); [|intro H; injection H as <- _ _ _; apply Forall2_dlv_refl].
  set (rest := x :: xs). set (so := seq_sub (wadd16 ack 2) su).
  destruct (0 <=? so).
  - destruct (apply_sack (skipn (Z.to_nat so) rest) _ now _) as [tl' a''] eqn:E.
    intro H; injection H as <- _ _ _. rewrite <- (firstn_skipn (Z.to_nat so) rest) at 1.
    apply Forall2_app; [apply Forall2_dlv_refl | eapply apply_sack_dlv; exact E].
  - destruct (apply_sack rest _ now _) as [l2 a''] eqn:E.
    intro H; injection H as <- _ _ _. eapply apply_sack_dlv; exact E.
Qed.

Lemma pipe_loop_dlv : forall l t hr th now a l' a',
  pipe_loop l t hr th now a = (l', a') -> Forall2 dlv (map snd l) l'.
Proof.
  induction l as [|[off x] r IH]; intros t hr th now a l' a'; cbn [pipe_loop].
  - intro H; injection H as <- _. constructor.
  - cbn [map snd]. destruct (seg_last_sent x).
    + destruct (sg_delivered x) eqn:Ed.
      * destruct (pipe_loop r t hr th now _) as [r' a''] eqn:E. intro H; injection H as <- _.
        constructor; [intro K; exact K | eapply IH; exact E].
      * destruct (pipe_loop r t hr th now _) as [r' a''] eqn:E. intro H; injection H as <- _.
        constructor; [intro K; congruence | eapply IH; exact E].
    + destruct (pipe_loop r t hr th now a) as [r' a''] eqn:E. intro H; injection H as <- _.
      constructor; [intro K; exact K | eapply IH; exact E].
Qed.

Lemma Forall2_rev : forall A B (R : A -> B -> Prop) l l', Forall2 R l l' -> Forall2 R (rev l) (rev l').
Proof.
  intros A B R l l' H. induction H; cbn [rev]; [constructor|].
  apply Forall2_app; [assumption | constructor; [assumption | constructor]].
Qed.

Lemma calc_pipe_dlv : forall t hr hd rtt now t' p rc,
  calc_pipe t hr hd rtt now = Some (t', p, rc) ->
  Forall2 dlv (ss_segs t) (ss_segs t') /\ ss_snd_una t' = ss_snd_una t.
Proof.
  intros t hr hd rtt now t' p rc. unfold calc_pipe. destruct (_ <? _); [discriminate|].
  set (n := Z.to_nat _).
  destruct (pipe_loop _ t hr _ now _) as [upd a] eqn:E. intro H; injection H as <- _ _.
  cbn [Segments.set_segs ss_segs ss_snd_una]. split; [|reflexivity].
  apply pipe_loop_dlv in E. rewrite map_rev, enum_from_snd in E. apply Forall2_rev in E.
  rewrite rev_involutive in E. rewrite <- (firstn_skipn n (ss_segs t)) at 1.
  apply Forall2_app; [exact E | apply Forall2_dlv_refl].
Qed.

Lemma update_nth_dlv : forall (f : seg -> seg) l i, (forall x, dlv x (f x)) -> Forall2 dlv l (update_nth l i f).
Proof.
  intros f. induction l as [|y ys IH]; intros [|i] H; cbn [update_nth]; try constructor;
    try apply H; try apply Forall2_dlv_refl; try (intro K; exact K). apply IH. exact H.
Qed.

Lemma wadd16_wadd16 : forall u a b, 0 <= a -> 0 <= b ->
  wadd16 (wadd16 u (a mod M16)) (b mod M16) = wadd16 u ((a + b) mod M16).
Proof. intros u a b Ha Hb. unfold wadd16, M16. lia. Qed.

(* the relation between two tables *)
Definition DM (t0 t : segments) : Prop :=
  exists d, (d <= length (ss_segs t0))%nat /\
    ss_snd_una t = wadd16 (ss_snd_una t0) (Z.of_nat d mod M16) /\ DMl d (ss_segs t0) (ss_segs t).
(* ... while nothing has been appended yet *)
Definition DM1 (t0 t : segments) : Prop :=
  exists d, (d + length (ss_segs t) <= length (ss_segs t0))%nat /\
    ss_snd_una t = wadd16 (ss_snd_una t0) (Z.of_nat d mod M16) /\ DMl d (ss_segs t0) (ss_segs t).

Lemma DM1_refl : forall t, 0 <= ss_snd_una t < M16 -> DM1 t t.
Proof.
  intros t Hu. exists 0%nat. split; [cbn; lia|]. split; [|apply DMl_refl].
  unfold wadd16. cbn. rewrite Z.mod_small; unfold M16 in *; lia.
Qed.

Lemma DM1_DM : forall t0 t, DM1 t0 t -> DM t0 t.
Proof. intros t0 t (d & H1 & H2 & H3). exists d. split; [lia | auto]. Qed.

Lemma DM_eq : forall t0 t t', ss_snd_una t' = ss_snd_una t -> Forall2 dlv (ss_segs t) (ss_segs t') -> DM t0 t -> DM t0 t'.
Proof.
  intros t0 t t' E F (d & H1 & H2 & H3). exists d. split; [exact H1|]. split; [congruence|].
  eapply DMl_mono; eauto.
Qed.

Lemma DM1_eq : forall t0 t t', ss_snd_una t' = ss_snd_una t -> Forall2 dlv (ss_segs t) (ss_segs t') -> DM1 t0 t -> DM1 t0 t'.
Proof.
  intros t0 t t' E F (d & H1 & H2 & H3). exists d.
  rewrite <- (Forall2_len _ _ _ _ _ F). split; [exact H1|]. split; [congruence|].
  eapply DMl_mono; eauto.
Qed.

Lemma remove_up_to_ack_DM1 : forall t0 t now ack sk t' r,
  remove_up_to_ack t now ack sk = (t', r) -> DM1 t0 t -> DM1 t0 t'.
Proof.
  intros t0 t now ack sk t' r. unfold remove_up_to_ack.
  set (dc := if 0 <=? seq_sub ack (ss_snd_una t) then _ else 0%nat).
  destruct (sack_phase t (skipn dc (ss_segs t)) _ _ now ack sk) as [[[rest2 a2] dp] lse] eqn:E2.
  destruct (strip_delivered rest2 0 0) as [[rest3 cnt3] bytes3] eqn:E3.
  intro H; injection H as <- _. intros (d & H1 & H2 & H3).
  apply sack_phase_dlv in E2.
  destruct (strip_delivered_spec _ _ _ _ _ _ E3) as (dropped & Hd & Hc3 & _).
  assert (Hdc : (dc <= length (ss_segs t))%nat).
  { subst dc. destruct (0 <=? _); [|lia]. unfold len_z. lia. }
  assert (Hl2 : length rest2 = (length (ss_segs t) - dc)%nat).
  { rewrite <- (Forall2_len _ _ _ _ _ E2), skipn_length. reflexivity. }
  assert (Hl3 : (length dropped + length rest3 = length rest2)%nat) by (rewrite Hd, app_length; reflexivity).
  exists (d + dc + length dropped)%nat. cbn [ss_segs ss_snd_una].
  split; [lia|]. split.
  - rewrite H2, Hc3. rewrite !wadd16_wadd16 by lia. f_equal. f_equal. lia.
  - apply DMl_drop. rewrite <- Hd. eapply DMl_mono; [|exact E2].
    (* skipn dc *)
    intros i g Hn Hg. replace (d + dc + i)%nat with (d + (dc + i))%nat in Hn by lia.
    destruct (H3 _ g Hn Hg) as (g' & K1 & K2). exists g'. split; [|exact K2].
    rewrite nth_error_skipn. exact K1.
Qed.

Ltac skr_leaf := unfold skr; repeat split; reflexivity.
Ltac fpr_leaf := apply fpr_same; reflexivity.

Section WithCC.
Context {CC : Type} (cci : cc_iface CC).
Notation vsock := (vsock CC).

(* the ACK part of one message: the estimator moves only on progress *)
Lemma pim_ack_rtte : forall (s1 s2 : vsock) h res,
  pim_ack cci s1 h = Some (s2, res) ->
  cnt_ok res /\ (v_rtte s2 = v_rtte s1 \/ prog res) /\ (RB s1 -> RB s2).
Proof.
  intros s1 s2 h res. unfold pim_ack.
  destruct (remove_up_to_ack _ _ _ _) as [segs1 res0] eqn:Er.
  destruct (remove_up_to_ack_rtt _ _ _ _ _ _ Er) as [Hc Hp].
  destruct (is_recovering (v_recovery s1)).
  - destruct (cc_on_ack cci _ _ _ _) as [cc3|]; [|discriminate].
    destruct (recovery_on_ack cci _ _ _ _ _ _ _) as [[[rec1 segs2] cc4]|]; [|discriminate].
    intro H; injection H as <- <-. split; [exact Hc|]. split; [left; reflexivity | intro K; exact K].
  - destruct (ar_new_rtt res0) as [rtt|] eqn:En.
    + destruct (sample (v_rtte s1) rtt) as [rtte1|] eqn:Es; [|discriminate].
      destruct (cc_on_ack cci _ _ _ _) as [cc3|]; [|discriminate].
      destruct (recovery_on_ack cci _ _ _ _ _ _ _) as [[[rec1 segs2] cc4]|]; [|discriminate].
      intro H; injection H as <- <-. split; [exact Hc|]. split.
      * right. destruct Hp as [Hp|Hp]; [congruence | exact Hp].
      * intros _. unfold RB. vsimpl_goal. eapply sample_in_bounds; exact Es.
    + destruct (cc_on_ack cci _ _ _ _) as [cc3|]; [|discriminate].
      destruct (recovery_on_ack cci _ _ _ _ _ _ _) as [[[rec1 segs2] cc4]|]; [|discriminate].
      intro H; injection H as <- <-. split; [exact Hc|]. split; [left; reflexivity | intro K; exact K].
Qed.

Lemma cnt_ok_default : cnt_ok on_ack_result_default.
Proof. unfold cnt_ok, on_ack_result_default. cbn. lia. Qed.

Lemma cnt_ok_update : forall a b, cnt_ok a -> cnt_ok b -> cnt_ok (result_update a b).
Proof. unfold cnt_ok, result_update. cbn [ar_acked_segments ar_newly_sacked_segments]. lia. Qed.

Lemma prog_update : forall a b, cnt_ok a -> cnt_ok b -> prog a \/ prog b -> prog (result_update a b).
Proof. unfold cnt_ok, prog, result_update. cbn [ar_acked_segments ar_newly_sacked_segments]. lia. Qed.

(* one message *)
Lemma pim_msg_rtte : forall (s s' : vsock) m r,
  process_incoming_message cci s m = SOk s' r ->
  cnt_ok r /\ (v_rtte s' = v_rtte s \/ prog r) /\ (RB s -> RB s').
Proof.
  intros s s' m r. rewrite process_incoming_message_eq.
  destruct (state_table_fpr s (m_hdr m)) as [Ht _].
  destruct (state_table s (m_hdr m)) as [s1|s1 e|s1]; cbn [tbl_state] in Ht; [|discriminate|].
  - intro H; injection H as <- <-. destruct Ht as (_ & _ & _ & _ & _ & _ & _ & _ & T9 & _).
    split; [apply cnt_ok_default|]. split; [left; exact T9 | unfold RB; rewrite T9; auto].
  - destruct Ht as (_ & _ & _ & _ & _ & _ & _ & _ & T9 & _).
    unfold pim_cont. destruct (pim_ack cci s1 (m_hdr m)) as [[s2 res]|] eqn:Ea; [|discriminate].
    destruct (pim_ack_rtte _ _ _ _ Ea) as (Hc & Hp & Hb). cbv zeta.
    assert (Hfin : forall s3 : vsock, v_rtte s3 = v_rtte s2 ->
              cnt_ok res /\ (v_rtte s3 = v_rtte s \/ prog res) /\ (RB s -> RB s3)).
    { intros s3 E3. split; [exact Hc|]. split.
      - destruct Hp as [Hp|Hp]; [left; congruence | right; exact Hp].
      - unfold RB in *. rewrite E3, T9 in *. exact Hb. }
    destruct (ch_type (m_hdr m)).
    + intro H. pose proof (pim_data_fpr cci s2 m res (seq_sub (ch_seq (m_hdr m)) (wadd16 (v_last_consumed s2) 1))) as F.
      rewrite H in F. cbn [sfp] in F. destruct F as (_ & _ & _ & _ & _ & _ & _ & _ & F9 & _).
      pose proof (pim_data_jt cci _ _ _ _ _ _ H) as [_ ->]. apply Hfin. exact F9.
    + intro H. pose proof (pim_fin_fpr s2 m res (seq_sub (ch_seq (m_hdr m)) (wadd16 (v_last_consumed s2) 1))
                             (is_remote_fin_or_later (v_state s))) as F.
      rewrite H in F. cbn [sfp] in F. destruct F as (_ & _ & _ & _ & _ & _ & _ & _ & F9 & _).
      pose proof (pim_fin_jt _ _ _ _ _ _ _ H) as [_ ->]. apply Hfin. exact F9.
    + intro H; injection H as <- <-. apply Hfin. reflexivity.
    + intro H; injection H as <- <-. apply Hfin. reflexivity.
    + intro H; injection H as <- <-. apply Hfin. reflexivity.
Qed.

(* the receive loop *)
Lemma recv_loop_mode : forall fuel (s : vsock) acc s' r early,
  recv_loop cci fuel s acc = SOk s' (r, early) -> cnt_ok acc -> RB s ->
  cnt_ok r /\ RB s' /\ (NE s -> NE s') /\ (v_rtte s' = v_rtte s \/ prog r) /\ (prog acc -> prog r).
Proof.
  assert (Hbase : forall (s : vsock) (acc : on_ack_result) s' r early,
    (if v_inbox_closed s
     then sbind (maybe_send_fin (transition_to_fin_wait_1 s))
                (fun s2 _ => SOk (set_state s2 Closed) (acc, true))
     else SOk (set_inbox_waker s true) (acc, false)) = SOk s' (r, early) ->
    cnt_ok acc -> RB s ->
    cnt_ok r /\ RB s' /\ (NE s -> NE s') /\ (v_rtte s' = v_rtte s \/ prog r) /\ (prog acc -> prog r)).
  { intros s acc s' r early H Hc Hb. destruct (v_inbox_closed s).
    - pose proof (maybe_send_fin_qb (transition_to_fin_wait_1 s)) as Q.
      destruct (maybe_send_fin (transition_to_fin_wait_1 s)) as [s2 b|s2 e|]; cbn [sbind stR] in *; try discriminate.
      injection H as <- <- _.
      destruct Q as (_ & _ & _ & Q4 & _ & _ & _ & Q8 & _ & _ & _ & Q12).
      assert (E1 : v_rtte (transition_to_fin_wait_1 s) = v_rtte s)
        by (unfold transition_to_fin_wait_1; destruct (v_state s); reflexivity).
      assert (E2 : NE s -> NE (transition_to_fin_wait_1 s))
        by (unfold NE, transition_to_fin_wait_1; destruct (v_state s); auto).
      split; [exact Hc|]. split; [unfold RB in *; vsimpl_goal; rewrite Q8, E1; exact Hb|].
      split; [intro K; unfold NE; vsimpl_goal; apply Q12; [rewrite E1; exact Hb | apply E2; exact K]|].
      split; [left; vsimpl_goal; congruence | auto].
    - injection H as <- <- _. split; [exact Hc|]. split; [exact Hb|]. split; [auto|]. split; [left; reflexivity | auto]. }
  induction fuel as [|m0 fuel IH]; intros s acc s' r early; cbn [recv_loop];
    destruct (v_inbox s) as [|m rest] eqn:Ei; try (apply Hbase); try discriminate.
  destruct (process_incoming_message cci (set_inbox s rest) m) as [s1 r0|s1 e|] eqn:Ep; cbn [sbind]; try discriminate.
  intros H Hc Hb.
  destruct (pim_msg_rtte _ _ _ _ Ep) as (Hc0 & Hp0 & Hb0).
  pose proof (process_incoming_message_in_frame cci (set_inbox s rest) m s1 ltac:(rewrite Ep; reflexivity)) as Hf.
  destruct Hf as (_ & _ & F3 & _ & F5 & _).
  assert (Hne1 : NE s -> NE s1) by (unfold NE; rewrite F5, F3; auto).
  assert (Hc1 : cnt_ok (result_update acc r0)) by (apply cnt_ok_update; assumption).
  assert (Hb1 : RB s1) by (apply Hb0; exact Hb).
  assert (Hfin : forall (s2 : vsock) r2, cnt_ok r2 /\ RB s2 /\ (NE s1 -> NE s2) /\ (v_rtte s2 = v_rtte s1 \/ prog r2) /\
                               (prog (result_update acc r0) -> prog r2) ->
            cnt_ok r2 /\ RB s2 /\ (NE s -> NE s2) /\ (v_rtte s2 = v_rtte s \/ prog r2) /\ (prog acc -> prog r2)).
  { intros s2 r2 (K1 & K2 & K3 & K4 & K5). split; [exact K1|]. split; [exact K2|]. split; [auto|].
    split.
    - destruct K4 as [K4|K4]; [|right; exact K4].
      destruct Hp0 as [Hp0|Hp0]; [left; change (v_rtte (set_inbox s rest)) with (v_rtte s) in Hp0; congruence|].
      right. apply K5. apply prog_update; auto.
    - intro Ka. apply K5. apply prog_update; auto. }
  destruct (_ || _).
  - injection H as <- <- _. apply Hfin. split; [exact Hc1|]. split; [exact Hb1|]. split; [auto|].
    split; [left; reflexivity | auto].
  - apply Hfin. eapply IH; eauto.
Qed.

Lemma progb_prog : forall r, cnt_ok r ->
  ((0 <? ar_acked_segments r) || (0 <? ar_newly_sacked_segments r) = true <-> prog r).
Proof.
  intros r _. unfold prog. rewrite orb_true_iff, !Z.ltb_lt. tauto.
Qed.

(* the bookkeeping after the loop *)
Lemma paim_rest_mode : forall (s1 : vsock) r s' u,
  paim_rest s1 r = SOk s' u -> RB s1 ->
  v_rtte s' = v_rtte s1 /\ v_now s' = v_now s1 /\
  (if (0 <? ar_acked_segments r) || (0 <? ar_newly_sacked_segments r)
   then v_rto_retransmissions s' = 0 /\ NE s'
   else v_rto_retransmissions s' = v_rto_retransmissions s1 /\ v_t_retransmit s' = v_t_retransmit s1).
Proof.
  intros s1 r s' u H Hb. unfold paim_rest in H.
  match type of H with sbind ?m _ = _ =>
    match m with context [acked_counts_as_sent ?x] => set (s2 := x) in * end end.
  assert (F2 : v_rtte s2 = v_rtte s1 /\ v_now s2 = v_now s1 /\
    (if (0 <? ar_acked_segments r) || (0 <? ar_newly_sacked_segments r)
     then v_rto_retransmissions s2 = 0 /\ NE s2
     else v_rto_retransmissions s2 = v_rto_retransmissions s1 /\ v_t_retransmit s2 = v_t_retransmit s1)).
  { subst s2. destruct (_ || _); [|auto].
    pose proof (rto_pos _ Hb) as Hp.
    unfold restart_remote_inactivity_timer, NE.
    destruct (ss_segs _); [destruct (our_fin_if_unacked _)|]; vsimpl_goal;
      (split; [reflexivity|]; split; [reflexivity|]; split; [reflexivity|]);
      unfold timer_arm, timer_expired; try reflexivity;
      destruct (v_t_retransmit s1); lia. }
  clearbody s2.
  assert (Hfin : forall s3 : vsock,
    v_rtte s3 = v_rtte s2 -> v_now s3 = v_now s2 -> v_rto_retransmissions s3 = v_rto_retransmissions s2 ->
    v_t_retransmit s3 = v_t_retransmit s2 ->
    (match rv_phase (v_recovery s3) with
     | Recovering rc =>
         match calc_pipe (v_segs s3) (rc_high_rxt rc) (v_last_sent_seq_nr s3)
                         (roundtrip_time (v_rtte s3)) (v_now s3) with
         | None => SPanic
         | Some (segs', pipe, recalc) =>
             SOk (set_recovering (VSockRec.set_segs s3 segs')
                    {| rc_recovery_point := rc_recovery_point rc; rc_high_rxt := rc_high_rxt rc;
                       rc_total_retx := rc_total_retx rc; rc_pipe := pipe; rc_recalc := recalc;
                       rc_cwnd := rc_cwnd rc |}) tt
         end
     | _ => SOk s3 tt
     end) = SOk s' u ->
    v_rtte s' = v_rtte s1 /\ v_now s' = v_now s1 /\
    (if (0 <? ar_acked_segments r) || (0 <? ar_newly_sacked_segments r)
     then v_rto_retransmissions s' = 0 /\ NE s'
     else v_rto_retransmissions s' = v_rto_retransmissions s1 /\ v_t_retransmit s' = v_t_retransmit s1)).
  { intros s3 E1 E2 E3 E4 K. destruct F2 as (G1 & G2 & G3).
    assert (Hs3 : v_rtte s3 = v_rtte s1 /\ v_now s3 = v_now s1 /\
      (if (0 <? ar_acked_segments r) || (0 <? ar_newly_sacked_segments r)
       then v_rto_retransmissions s3 = 0 /\ NE s3
       else v_rto_retransmissions s3 = v_rto_retransmissions s1 /\ v_t_retransmit s3 = v_t_retransmit s1)).
    { split; [congruence|]. split; [congruence|]. destruct (_ || _).
      - destruct G3 as [G3 G4]. split; [congruence|]. unfold NE in *. rewrite E4, E2. exact G4.
      - destruct G3 as [G3 G4]. split; congruence. }
    destruct (rv_phase (v_recovery s3)); try (inversion K; subst; exact Hs3).
    destruct (calc_pipe _ _ _ _ _) as [[[sg pp] rcl]|]; [|discriminate].
    inversion K; subst. exact Hs3. }
  destruct (0 <? ar_acked_segments r).
  - assert (F2' : forall x : vsock, x = acked_counts_as_sent s2 ->
        v_rtte x = v_rtte s2 /\ v_now x = v_now s2 /\ v_rto_retransmissions x = v_rto_retransmissions s2 /\
        v_t_retransmit x = v_t_retransmit s2).
    { intros x ->. unfold acked_counts_as_sent. destruct (seq_gt _ _ && seq_lt _ _); repeat split; reflexivity. }
    specialize (F2' _ eq_refl). revert F2' H. generalize (acked_counts_as_sent s2). intros s2' (A1 & A2 & A3 & A4) H.
    destruct (truncate_front _ _) as [tx1 tr]. destruct tr; [|discriminate].
    destruct (wake_writer tx1) as [tx2 w]. cbn [sbind] in H. eapply Hfin; [| | | |exact H]; assumption.
  - cbn [sbind] in H. eapply Hfin; [| | | |exact H]; reflexivity.
Qed.

(* the whole incoming path: either nothing was acknowledged -- counter, estimator, timer untouched -- or
   the counter is back to zero and the retransmission timer is not expired *)
Theorem pim_mode : forall (s s' : vsock) u,
  process_all_incoming_messages cci s = SOk s' u -> RB s ->
  RB s' /\ v_now s' = v_now s /\
  ((v_rto_retransmissions s' = v_rto_retransmissions s /\ v_rtte s' = v_rtte s /\ (NE s -> NE s')) \/
   (v_rto_retransmissions s' = 0 /\ NE s')).
Proof.
  intros s s' u H Hb. rewrite paim_eq in H.
  destruct (recv_loop cci _ s on_ack_result_default) as [s1 [r early]|s1 e|] eqn:El; cbn [sbind fst] in H; try discriminate.
  destruct (recv_loop_mode _ _ _ _ _ _ El cnt_ok_default Hb) as (Hc & Hb1 & Hne & Hrt & _).
  assert (Hl : step_st (recv_loop cci (v_inbox s ++ [ {| m_hdr := outgoing_header s; m_payload := [] |} ]) s
              on_ack_result_default) = Some s1) by (rewrite El; reflexivity).
  apply VSock_LemmasIn.recv_loop_frame in Hl. destruct Hl as (L1 & _ & L3 & _).
  destruct (paim_rest_mode _ _ _ _ H Hb1) as (P1 & P2 & P3).
  split; [unfold RB in *; rewrite P1; exact Hb1|]. split; [congruence|].
  destruct ((0 <? ar_acked_segments r) || (0 <? ar_newly_sacked_segments r)) eqn:Eb.
  - right. exact P3.
  - left. destruct P3 as [P3 P4]. split; [congruence|]. split.
    + destruct Hrt as [Hrt|Hrt]; [congruence|]. apply (progb_prog r Hc) in Hrt. congruence.
    + intro K. unfold NE in *. rewrite P4, P2. apply Hne. exact K.
Qed.

(* ================================================================== segmentation *)
Lemma split_mode : forall (s s' : vsock) u,
  split_tx_queue_into_segments cci s = SOk s' u -> RB s ->
  v_rtte s' = v_rtte s /\ v_now s' = v_now s /\
  ((v_rto_retransmissions s' = v_rto_retransmissions s /\ v_t_retransmit s' = v_t_retransmit s) \/
   (v_rto_retransmissions s' = 0 /\ NE s')).
Proof.
  intros s s' u H Hb. unfold split_tx_queue_into_segments in H.
  destruct (_ =? 0); [inversion H; subst; repeat split; left; split; reflexivity|].
  match type of H with context [is_remote_fin_or_later (v_state ?x)] => set (s1 := x) in * end.
  assert (F1 : v_rtte s1 = v_rtte s /\ v_now s1 = v_now s /\
               v_rto_retransmissions s1 = v_rto_retransmissions s /\ v_t_retransmit s1 = v_t_retransmit s).
  { subst s1. destruct (_ && _); [|repeat split].
    destruct (grow _ _) as [tx1 g]. destruct g; [destruct (wake_writer tx1)|]; repeat split. }
  clearbody s1. destruct F1 as (A1 & A2 & A3 & A4).
  destruct (is_remote_fin_or_later _); [inversion H; subst; split; [exact A1|]; split; [exact A2|]; left; auto|].
  destruct (pop_expired_mtu_probe _ _ _) as [segs1 pe].
  assert (Hcont : forall s2 : vsock,
    (if Z.of_nat (length (ring (v_tx s))) <? ss_len_bytes (v_segs s2)
     then SErr s2 (ErrBug BugInBufferComputations)
     else match segment_loop (ring (v_tx s2)) (o_nagle (v_opts s2)) (v_ss s2) (v_segs s2)
                  (Z.of_nat (length (ring (v_tx s))) - ss_len_bytes (v_segs s2))
                  (v_last_remote_window s2) with
          | Some (ss', segs', remaining) =>
              SOk (set_unsegmented (VSockRec.set_segs (set_ss s2 ss') segs') remaining) tt
          | None => SPanic
          end) = SOk s' u ->
    v_rtte s' = v_rtte s2 /\ v_now s' = v_now s2 /\ v_rto_retransmissions s' = v_rto_retransmissions s2 /\
    v_t_retransmit s' = v_t_retransmit s2).
  { intros s2. destruct (Z.of_nat (length (ring (v_tx s))) <? ss_len_bytes (v_segs s2)); [intro K; inversion K|].
    match goal with |- context [segment_loop ?a ?b ?c ?d ?e ?f] =>
      destruct (segment_loop a b c d e f) as [[[ss' segs'] rem']|] end; [|intro K; inversion K].
    intro K. injection K as <- _. repeat split; reflexivity. }
  destruct pe.
  - apply Hcont in H. destruct H as (B1 & B2 & B3 & B4).
    pose proof (rto_pos _ Hb) as Hp.
    assert (K : v_rtte s' = v_rtte s /\ v_now s' = v_now s /\ v_rto_retransmissions s' = 0 /\ NE s').
    { unfold NE. rewrite B4, B2, B3, B1.
      destruct (seq_gt _ _); vsimpl_goal; (split; [exact A1|]; split; [exact A2|]; split; [reflexivity|]);
        destruct (ss_segs segs1); try reflexivity; unfold timer_arm, timer_expired;
        rewrite A1, A2; destruct (v_t_retransmit s1); lia. }
    destruct K as (K1 & K2 & K3 & K4). split; [exact K1|]. split; [exact K2|]. right. auto.
  - inversion H; subst. split; [exact A1|]. split; [exact A2|]. left. auto.
  - apply Hcont in H. destruct H as (B1 & B2 & B3 & B4).
    split; [congruence|]. split; [congruence|]. left. split; congruence.
Qed.

(* ================================================================== send_tx_queue *)
Definition W (s : vsock) : Prop := NE s \/ ITN s.

Lemma rec_branch_w : forall (s : vsock) h,
  RB s -> W s ->
  match rec_branch s h with
  | SOk s1 ret => RB s1 /\ v_restart s1 = v_restart s /\ W s1
  | _ => True
  end.
Proof.
  intros s h Hrb Hni. unfold rec_branch.
  destruct (rv_phase (v_recovery s)) as [rp|dup|rc] eqn:Ep.
  1,2: (split; [exact Hrb|]; split; [reflexivity | exact Hni]).
  assert (Hafter : forall (s1 : vsock) res,
     RB s1 -> v_restart s1 = v_restart s -> W s1 ->
     match rec_after rc h (mss (v_ss s)) s1 res with
     | SOk s2 ret => RB s2 /\ v_restart s2 = v_restart s /\ W s2
     | _ => True
     end).
  { intros s1 [st early] B1 R1 N1. unfold rec_after.
    destruct early.
    { split; [exact B1|]. split; [exact R1 | exact N1]. }
    match goal with |- match (match our_fin_if_unacked (v_state ?y) with _ => _ end) with _ => _ end =>
      assert (F3 : RB y /\ v_restart y = v_restart s /\ W y);
      [|revert F3; generalize y; intros sy F3] end.
    { destruct (_ <? _); [|split; [exact B1|]; split; [exact R1 | exact N1]].
      destruct (rc_recalc rc); [split; [exact B1|]; split; [exact R1 | exact N1]|].
      destruct (0 <? _); (split; [exact B1|]; split; [exact R1 | exact N1]). }
    destruct F3 as (G1 & G2 & G4).
    destruct (our_fin_if_unacked _); [destruct (_ =? _)|];
      (split; [exact G1|]; split; [exact G2 | exact G4]). }
  destruct Hni as [Hne|Hit].
  - pose proof (recovery_loop_qb (rec_items s rc) s h (mss (v_ss s)) (rec_st0 rc)) as Q.
    destruct (recovery_loop _ s h _ _) as [s1 res| |]; cbn [sbind stR] in *; auto.
    destruct Q as (Q1 & Q2 & Q3 & Q4 & Q5 & Q6 & Q7 & Q8 & Q9 & Q10 & Q11 & Q12).
    apply Hafter; [unfold RB; rewrite Q8; exact Hrb | exact Q9 | left; apply Q12; assumption].
  - assert (Ei : rec_items s rc = []).
    { unfold rec_items. unfold ITN in Hit. rewrite Hit. rewrite firstn_nil. reflexivity. }
    rewrite Ei. cbn [recovery_loop sbind]. apply Hafter; auto. right. exact Hit.
Qed.

Lemma new_branch_w : forall (s : vsock) h,
  RB s -> W s ->
  match new_branch cci s h with
  | SOk s1 _ => RB s1 /\ (v_restart s1 = v_restart s \/ (v_restart s1 = true /\ NE s1))
  | _ => True
  end.
Proof.
  intros s h Hrb Hni. unfold new_branch.
  destruct Hni as [Hne|Hit].
  - pose proof (new_data_loop_qb (new_items s) s h (new_remaining cci s)) as Q.
    destruct (new_data_loop _ s h _) as [s1 tl| |]; cbn [sbind stR] in *; auto.
    destruct Q as (Q1 & Q2 & Q3 & Q4 & Q5 & Q6 & Q7 & Q8 & Q9 & Q10 & Q11 & Q12).
    assert (Hne1 : NE s1) by (apply Q12; assumption).
    assert (Hb1 : RB s1) by (unfold RB; rewrite Q8; exact Hrb).
    unfold new_after. destruct tl as [[sq sz]|]; [|split; [exact Hb1 | left; exact Q9]].
    destruct (pop_mtu_probe _ _) as [segs' popped]. destruct popped; [|exact I].
    split; [exact Hb1|]. right. split; [reflexivity | exact Hne1].
  - unfold new_items, ITN in *. rewrite (iter_some_nil _ _ Hit). cbn [new_data_loop sbind new_after].
    split; [exact Hrb | left; reflexivity].
Qed.

(* what a send_tx_queue call does to the RTO counter: the RTO branch retransmitted the first undelivered
   segment (and the call stopped there), or the counter is where it was and a restart comes with an
   unexpired retransmission timer *)
Inductive stq_out (s s' : vsock) : Prop :=
| StqFired (f : for_sending) (rest : list for_sending) :
    timer_expired (v_t_retransmit s) (v_now s) = true ->
    iter_for_sending (v_segs s) None = f :: rest ->
    v_out s' = data_pkt s (outgoing_header s) f :: v_out s ->
    v_segs s' = on_sent (v_segs s) (fs_idx f) (v_now s) ->
    v_rto_retransmissions s' = v_rto_retransmissions s + 1 ->
    (if sg_probe (fs_seg f) then v_rtte s' = v_rtte s
     else on_rto_timeout (v_rtte s) = Some (v_rtte s')) ->
    v_t_retransmit s' = Some (v_now s + retransmission_timeout (v_rtte s')) ->
    v_restart s' = v_restart s ->
    stq_out s s'
| StqQuiet :
    v_rto_retransmissions s' = v_rto_retransmissions s ->
    (v_restart s' = v_restart s \/ (v_restart s' = true /\ NE s')) ->
    (NE s -> v_restart s' = v_restart s -> NE s') ->
    stq_out s s'.

Theorem stq_mode : forall (s s' : vsock) u,
  send_tx_queue cci s = SOk s' u -> ti s -> stq_out s s'.
Proof.
  intros s s' u H Hti. rewrite send_tx_queue_eq in H.
  destruct (v_transport_pending s).
  { inversion H; subst. apply StqQuiet; auto. }
  set (h := outgoing_header s) in *.
  destruct (rto_branch cci s h) as [s1 ret|s1 e|] eqn:Er; cbn [sbind] in H; try discriminate.
  assert (Hs : step_st (rto_branch cci s h) = Some s1) by (rewrite Er; reflexivity).
  pose proof (rto_branch_spec cci _ _ _ Hs) as Ho. rewrite Er in Ho.
  assert (Hb : RB s) by apply Hti.
  (* the parts after the RTO branch, from a state with the same counter *)
  assert (Hlater : v_rto_retransmissions s1 = v_rto_retransmissions s -> RB s1 ->
            v_restart s1 = v_restart s -> (ret = false -> W s1) -> (NE s -> NE s1) ->
            stq_out s s').
  { intros Hc Hb1 Hr1 Hw Hne1. unfold after_rto_k in H.
    assert (Hstop : SOk (A:=unit) s1 tt = SOk s' u -> stq_out s s').
    { intro K; inversion K; subst. apply StqQuiet; auto. }
    destruct ret; [exact (Hstop H)|].
    destruct (0 <? v_rto_retransmissions s1); [exact (Hstop H)|].
    destruct (ss_segs (v_segs s1)); [exact (Hstop H)|].
    specialize (Hw eq_refl).
    pose proof (rec_branch_w s1 h Hb1 Hw) as R2.
    destruct (rec_branch s1 h) as [s2 ret2|s2 e2|] eqn:E2; cbn [sbind] in H; try discriminate.
    destruct R2 as (B2 & R2 & W2).
    assert (Hs2 : step_st (rec_branch s1 h) = Some s2) by (rewrite E2; reflexivity).
    assert (C2 : v_rto_retransmissions s2 = v_rto_retransmissions s1).
    { destruct (rec_branch_spec _ _ _ Hs2) as [(_ & _ & ->)|(rc & sent & s1' & _ & _ & (Hf & _) & _ & _ & _ & _ & _ & A5 & _)];
        [reflexivity|]. destruct Hf as (_ & _ & _ & _ & F5 & _). congruence. }
    assert (N2 : NE s1 -> NE s2).
    { intro K. pose proof (rec_branch_w s1 h Hb1 (or_introl K)) as R2'. rewrite E2 in R2'.
      (* W s2 from NE: re-run with the stronger fact *)
      clear R2'. unfold rec_branch in E2.
      destruct (rv_phase (v_recovery s1)) as [rp|dup|rc]; try (inversion E2; subst; exact K).
      pose proof (recovery_loop_qb (rec_items s1 rc) s1 h (mss (v_ss s1)) (rec_st0 rc)) as Q.
      destruct (recovery_loop _ s1 h _ _) as [s1' res| |]; cbn [sbind stR] in *; try discriminate.
      destruct Q as (_ & _ & _ & Q4 & _ & _ & _ & _ & _ & _ & _ & Q12).
      assert (Hs1' : step_st (rec_after rc h (mss (v_ss s1)) s1' res) = Some s2) by (rewrite E2; reflexivity).
      destruct (rec_after_spec _ _ _ _ _ _ Hs1') as ((_ & P2 & _) & _ & _ & _ & _ & _ & _ & _ & A8 & _).
      unfold NE in *. rewrite A8, P2. apply Q12; assumption. }
    destruct ret2.
    { inversion H; subst. apply StqQuiet; [congruence | left; congruence | intros K _; apply N2, Hne1, K]. }
    pose proof (new_branch_w s2 h B2 W2) as R3.
    destruct (new_branch cci s2 h) as [s3 u3|s3 e3|] eqn:E3; try discriminate.
    inversion H; subst s3. destruct R3 as (B3 & R3).
    assert (Hs3 : step_st (new_branch cci s2 h) = Some s') by (rewrite E3; reflexivity).
    destruct (new_branch_spec _ _ _ _ Hs3) as (sent & rest & s2' & _ & (Hf & _) & _ & _ & _ & _ & _ & A4 & _ & A6 & _).
    destruct Hf as (_ & _ & _ & _ & F5 & _ & F7 & _).
    apply StqQuiet.
    - congruence.
    - destruct R3 as [R3|R3]; [left; congruence | right; exact R3].
    - intros K Hrs.
      (* no restart: the timer was only armed by transmissions *)
      pose proof (new_branch_w s2 h B2 (or_introl (N2 (Hne1 K)))) as R3'. rewrite E3 in R3'.
      unfold new_branch in E3.
      pose proof (new_data_loop_qb (new_items s2) s2 h (new_remaining cci s2)) as Q.
      destruct (new_data_loop _ s2 h _) as [sx tl| |]; cbn [sbind stR] in *; try discriminate.
      destruct Q as (_ & _ & _ & Q4 & _ & _ & _ & _ & _ & _ & _ & Q12).
      assert (Hx : NE sx) by (apply Q12; [exact B2 | apply N2, Hne1, K]).
      unfold new_after in E3. destruct tl as [[sq sz]|]; [|inversion E3; subst; exact Hx].
      destruct (pop_mtu_probe _ _) as [segs' popped]. destruct popped; [|discriminate].
      inversion E3; subst. exact Hx. }
  destruct Ho as [Ho Hf Hsg Hls Hne Hnq
                 | f rest Hexp Hit Hr Ho Hok Hsg Hrto Hls Htx Hop Hnow Hrw Hst Hpr Htr P
                 | fin Hexp Hit Hfin Hls Hr Ho Hsg Hrto Hls' Htx Hop Hnow Hrt Htr P].
  - (* quiet *)
    assert (Hf' := Hf). destruct Hf' as (_ & _ & _ & _ & F5 & _ & F7 & F8 & _ & _ & F11 & _).
    apply Hlater; try assumption.
    + unfold RB. rewrite F8. exact Hb.
    + intros ->. destruct (timer_expired (v_t_retransmit s) (v_now s)) eqn:Ex.
      * right. unfold ITN. rewrite Hsg.
        destruct (iter_for_sending (v_segs s) None) as [|f0 r0] eqn:Ei; [reflexivity|].
        exfalso. exact (Hnq f0 r0 eq_refl eq_refl eq_refl).
      * specialize (Hne eq_refl). inversion Hne; subst. left. exact Ex.
    + intro K. specialize (Hne K). inversion Hne; subst. exact K.
  - (* fired *)
    injection Hr as ->. unfold after_rto_k in H.
    assert (Hpos : 0 <? v_rto_retransmissions s1 = true).
    { apply Z.ltb_lt. destruct Hti as (_ & Hc & _). lia. }
    rewrite Hpos in H. inversion H; subst.
    eapply (StqFired s s' f rest); eauto.
    + destruct (sg_probe (fs_seg f)); [apply Hpr | apply Hpr].
    + exact (rto_branch_restart cci s h _ Hs).
  - (* the FIN was retransmitted *)
    injection Hr as ->. apply Hlater; try assumption.
    + eapply timeout_in_bounds; exact Hrt.
    + exact (rto_branch_restart cci s h _ Hs).
    + intros _. right. unfold ITN. rewrite Hsg. exact Hit.
    + intro K. unfold NE in K. congruence.
Qed.

(* ================================================================== delivered stays delivered, through a poll *)
Lemma recovery_on_ack_dlv : forall r h segs ls cc now rtt r' segs' cc',
  recovery_on_ack cci r h segs ls cc now rtt = Some (r', segs', cc') ->
  Forall2 dlv (ss_segs segs) (ss_segs segs') /\ ss_snd_una segs' = ss_snd_una segs.
Proof.
  intros r h segs ls cc now rtt r' segs' cc'. unfold recovery_on_ack. cbv zeta.
  cbn [rv_phase rv_supports_sack rv_last_ack]. intros H.
  assert (Hid : Forall2 dlv (ss_segs segs) (ss_segs segs) /\ ss_snd_una segs = ss_snd_una segs)
    by (split; [apply Forall2_dlv_refl | reflexivity]).
  destruct (rv_phase r).
  - destruct (seq_ge _ _); injection H as _ <- _; exact Hid.
  - destruct (ss_segs segs) eqn:Es; [injection H as _ <- _; rewrite Es; split; [constructor | reflexivity]|].
    rewrite <- Es in *.
    match type of H with (match ?c with _ => _ end) = _ => destruct c as [[dup' la']|] end; [|discriminate].
    destruct (dup' <? SACK_DUP_THRESH); [injection H as _ <- _; exact Hid|].
    destruct (calc_pipe _ _ _ _ _) as [[[sg pipe] recalc]|] eqn:Ec; [|discriminate].
    injection H as _ <- _. eapply calc_pipe_dlv; eauto.
  - destruct (seq_ge _ _); injection H as _ <- _; exact Hid.
Qed.

Lemma pim_ack_DM1 : forall t0 (s1 s2 : vsock) h res,
  pim_ack cci s1 h = Some (s2, res) -> DM1 t0 (v_segs s1) -> DM1 t0 (v_segs s2).
Proof.
  intros t0 s1 s2 h res. unfold pim_ack.
  destruct (remove_up_to_ack _ _ _ _) as [segs1 res0] eqn:Er.
  match goal with |- (match ?o with Some _ => _ | None => _ end) = _ -> _ => destruct o as [rtte1|] end; [|discriminate].
  destruct (cc_on_ack cci _ _ _ _) as [cc3|]; [|discriminate].
  destruct (recovery_on_ack cci _ _ _ _ _ _ _) as [[[rec1 segs2] cc4]|] eqn:Ero; [|discriminate].
  intro H; injection H as <- _. intro K. vsimpl_goal.
  destruct (recovery_on_ack_dlv _ _ _ _ _ _ _ _ _ _ Ero) as [F E].
  eapply DM1_eq; [exact E | exact F|]. eapply remove_up_to_ack_DM1; eauto.
Qed.

Lemma enqueue_DM : forall t0 t len p, DM t0 t -> DM t0 (enqueue t len p).
Proof.
  intros t0 t len p (d & H1 & H2 & H3). exists d. unfold enqueue. cbn [Segments.set_segs ss_segs ss_snd_una].
  split; [exact H1|]. split; [exact H2 | apply DMl_app; exact H3].
Qed.

Lemma segment_loop_DM : forall t0 fuel nagle ss segs rem rwr ss' segs' rem',
  segment_loop fuel nagle ss segs rem rwr = Some (ss', segs', rem') -> DM t0 segs -> DM t0 segs'.
Proof.
  intro t0. induction fuel as [|x fuel IH]; intros nagle ss segs rem rwr ss' segs' rem' H K; cbn [segment_loop] in H.
  - inversion H; subst; exact K.
  - destruct (_ && _); [|inversion H; subst; exact K].
    destruct (next_segment_size ss) as [[ss1 sz]|] eqn:E; [|discriminate].
    destruct (_ && _ && _); [inversion H; subst; exact K|].
    destruct (mss ss1 <? _); [inversion H; subst; apply enqueue_DM; exact K|].
    eapply IH; [exact H|]. apply enqueue_DM. exact K.
Qed.

Lemma pop_expired_DM : forall t0 t to mr t' pe,
  pop_expired_mtu_probe t to mr = (t', pe) -> DM t0 t -> DM t0 t'.
Proof.
  intros t0 t to mr t' pe. unfold pop_expired_mtu_probe.
  destruct (last_and_init (ss_segs t)) as [[init x]|] eqn:E; [|intro H; injection H as <- _; auto].
  destruct (sg_delivered x) eqn:Ed; [intro H; injection H as <- _; auto|].
  destruct (_ && _ && _); [|destruct (sg_probe x); intro H; injection H as <- _; auto].
  intro H; injection H as <- _. intros (d & H1 & H2 & H3). exists d.
  cbn [Segments.set_segs ss_segs ss_snd_una]. split; [exact H1|]. split; [exact H2|].
  apply last_and_init_app in E. rewrite E in H3. eapply DMl_pop; eauto.
Qed.

Lemma split_DM : forall t0 (s : vsock),
  DM t0 (v_segs s) ->
  match split_tx_queue_into_segments cci s with
  | SOk s' _ | SErr s' _ => DM t0 (v_segs s')
  | _ => True
  end.
Proof.
  intros t0 s K. unfold split_tx_queue_into_segments.
  destruct (_ =? 0); [exact K|].
  match goal with |- context [is_remote_fin_or_later (v_state ?x)] => set (s1 := x) end.
  assert (F1 : v_segs s1 = v_segs s).
  { subst s1. destruct (_ && _); [|reflexivity].
    destruct (grow _ _) as [tx1 g]. destruct g; [destruct (wake_writer tx1)|]; reflexivity. }
  clearbody s1.
  destruct (is_remote_fin_or_later _); [rewrite F1; exact K|].
  destruct (pop_expired_mtu_probe _ _ _) as [segs1 pe] eqn:Ep.
  assert (K1 : DM t0 segs1) by (eapply pop_expired_DM; [exact Ep | rewrite F1; exact K]).
  assert (Hcont : forall s2 : vsock, DM t0 (v_segs s2) ->
    match (if Z.of_nat (length (ring (v_tx s))) <? ss_len_bytes (v_segs s2)
       then SErr s2 (ErrBug BugInBufferComputations)
       else match segment_loop (ring (v_tx s2)) (o_nagle (v_opts s2)) (v_ss s2) (v_segs s2)
                    (Z.of_nat (length (ring (v_tx s))) - ss_len_bytes (v_segs s2))
                    (v_last_remote_window s2) with
            | Some (ss', segs', remaining) =>
                SOk (set_unsegmented (VSockRec.set_segs (set_ss s2 ss') segs') remaining) tt
            | None => SPanic
            end) with SOk s' _ | SErr s' _ => DM t0 (v_segs s') | _ => True end).
  { intros s2 F2. destruct (_ <? _); [exact F2|].
    match goal with |- context [segment_loop ?a ?b ?c ?d ?e ?f] =>
      destruct (segment_loop a b c d e f) as [[[ss' segs'] rem']|] eqn:E end; [|exact I].
    vsimpl_goal. eapply segment_loop_DM; eauto. }
  destruct pe.
  - apply Hcont. destruct (seq_gt _ _); exact K1.
  - vsimpl_goal. rewrite F1. exact K.
  - apply Hcont. rewrite F1. exact K.
Qed.

Lemma on_sent_DM : forall t0 t i now, DM t0 t -> DM t0 (on_sent t i now).
Proof.
  intros t0 t i now K. eapply DM_eq; [| |exact K]; [reflexivity|].
  unfold on_sent, Segments.set_segs. cbn [ss_segs]. apply update_nth_dlv. intros x H. exact H.
Qed.

(* the strict regime again, with the relation to the table the poll started from *)
Definition IAD (t0 : segments) (s : vsock) : Prop := IA s /\ DM1 t0 (v_segs s).
Definition IOD (t0 : segments) (s : vsock) : Prop := IO s /\ DM t0 (v_segs s).

Lemma pim_IAD : forall t0 (s : vsock), IAD t0 s -> spI (IAD t0) (process_all_incoming_messages cci s).
Proof.
  intros t0 s Hi. apply pim_rule; try exact Hi.
  - intros a b F [K1 K2]. split; [eapply IA_fpr; eauto|]. destruct F as (E1 & _). rewrite E1. exact K2.
  - intros a l [K1 K2]. split; [eapply IA_skr; [|exact K1]; skr_leaf | exact K2].
  - intros a c tr ti [K1 K2]. split; [eapply IA_skr; [|exact K1]; skr_leaf | exact K2].
  - intros s1 s2 h res [K1 K2] E. split; [eapply IA_skr; [eapply pim_ack_skr; exact E | exact K1]|].
    eapply pim_ack_DM1; eauto.
  - intros s3 rc hd rtt now segs' p recalc [K1 K2] _ E.
    split; [eapply IA_skr; [|exact K1]; unfold set_recovering; skr_leaf|].
    unfold set_recovering. vsimpl_goal. destruct (calc_pipe_dlv _ _ _ _ _ _ _ _ E) as [F Eu].
    eapply DM1_eq; eauto.
Qed.

Lemma stq_IOD : forall t0 (s : vsock), IOD t0 s -> stI (IOD t0) (fun a _ => IOD t0 a) (send_tx_queue cci s).
Proof.
  intros t0 s Hi. apply (send_tx_queue_rule cci (IOD t0) (fun _ => False) (fun a _ => IOD t0 a)); try exact Hi; auto.
  - intros a b F [K1 K2]. split; [eapply IO_fpr; eauto|]. destruct F as (E1 & _). rewrite E1. exact K2.
  - intros a h f a1 ((K & _) & _) E. pose proof (send_data_script a h f) as Hs. rewrite E in Hs.
    destruct Hs as (_ & _ & _ & Hs). apply (Hs K). reflexivity.
  - intros a e [].
  - intros a h f a1 n rest [K1 K2] Hs E. split; [eapply IO_sent; eauto|].
    pose proof (send_data_spec a h f) as Hd. rewrite E in Hd. destruct Hd as (_ & _ & Hsg & _).
    rewrite Hsg. apply on_sent_DM. exact K2.
  - intros a segs' q ss' [].
Qed.

Lemma jbd_Cc : forall t0 (s : vsock) e,
  NW s /\ OUT s /\ DM t0 (v_segs s) ->
  NW (just_before_death s e) /\ OUT (just_before_death s e) /\ DM t0 (v_segs (just_before_death s e)).
Proof.
  intros t0 s e (K1 & K2 & K3). pose proof (jbd_spec s e) as J. cbv zeta in J.
  destruct J as (_ & J2 & _ & _ & _ & _ & J7).
  destruct (VSock_Lemmas.just_before_death_frame s e) as (_ & F2 & F3 & _).
  split; [unfold NW in *; congruence|]. split; [|rewrite J2; exact K3].
  unfold OUT in *. destruct J7 as [J7|(_ & _ & p & J7 & Jp & _)]; rewrite J7.
  - eapply Forall_impl; [|exact K2]. intros q Hq. unfold live_pkt. rewrite J2, F3. exact Hq.
  - constructor; [apply nodata_live; unfold nodata; rewrite Jp; discriminate|].
    eapply Forall_impl; [|exact K2]. intros q Hq. unfold live_pkt. rewrite J2, F3. exact Hq.
Qed.

Theorem poll_OUT_DM_strict_all : forall (s s' : vsock) r,
  LB 0 s -> EF s -> poll cci s = (s', r) ->
  match r with
  | PollPanic => v_out s' = []
  | _ => NW s' /\ OUT s' /\ DM (v_segs s) (v_segs s')
  end.
Proof.
  intros s s' r HL HE H. set (t0 := v_segs s).
  set (A0 := fun a : vsock => LB 0 a /\ EF a /\ v_out a = [] /\ v_segs a = t0).
  set (A := fun a : vsock => LB 0 a /\ IAD t0 a).
  set (Cc := fun a : vsock => NW a /\ OUT a /\ DM t0 (v_segs a)).
  set (B2 := fun a : vsock => LB 0 a /\ IA a /\ DM t0 (v_segs a)).
  set (QE := fun (a : vsock) (_ : verror) => Cc a).
  assert (HA_Cc : forall a, IAD t0 a -> Cc a).
  { intros a ((_ & _ & K3 & K4) & K5). split; [exact K3|]. split; [apply nodata_OUT; exact K4 | apply DM1_DM; exact K5]. }
  assert (HB_Cc : forall a, B2 a -> Cc a).
  { intros a (_ & (_ & _ & K3 & K4) & K5). split; [exact K3|]. split; [apply nodata_OUT; exact K4 | exact K5]. }
  assert (Hsfp : forall X (a : vsock) (m : step X), A a -> sfp a m -> skp a m -> stH Cc QE A m).
  { intros X a m [L [K K5]] F S.
    assert (Hk : forall a' : vsock, fpr a a' -> IAD t0 a').
    { intros a' F'. split; [eapply IA_fpr; eauto|]. destruct F' as (E1 & _). rewrite E1. exact K5. }
    destruct m as [a' x|a' e|]; cbn [sfp skp stH] in *;
      [split; intros _; [apply HA_Cc, Hk, F | split; [eapply LB_kp; eauto | apply Hk, F]]
      | apply HA_Cc, Hk; apply F | exact I]. }
  assert (Hcfp : forall X (a : vsock) (m : step X), Cc a -> sfp a m -> stH Cc QE Cc m).
  { intros X a m (K1 & K2 & K3) F.
    assert (Hk : forall a' : vsock, fpr a a' -> Cc a').
    { intros a' F'. pose proof F' as (E1 & _ & E3 & E4 & _). split; [unfold NW in *; congruence|].
      split; [eapply OUT_fpr; [apply fpr_fpw; exact F' | exact K2] | rewrite E1; exact K3]. }
    destruct m as [a' x|a' e|]; cbn [sfp stH] in *;
      [split; intros _; apply Hk; exact F | apply Hk; apply F | exact I]. }
  assert (HR : resH A0 Cc Cc QE s' r).
  { apply (poll_H cci A0 A A B2 Cc Cc Cc QE) with (s := s); try exact H.
    - intros a (L & E & O & Sg). split; [eapply LB_kp; [exact L|]; unfold kp; auto|].
      split.
      + split; [exact E|]. split; [reflexivity|]. split; [reflexivity|].
        change (v_out (poll_start a)) with (v_out a). rewrite O. constructor.
      + change (v_segs (poll_start a)) with (v_segs a). rewrite Sg. apply DM1_refl. subst t0. apply HL.
    - intros a K _. apply (Hsfp _ a); [exact K | apply maybe_send_syn_ack_fpr | apply maybe_send_syn_ack_kp].
    - intros a K _. apply (Hsfp _ a); [exact K | apply send_ack_fpr | apply send_ack_kp].
    - intros a [L K] _. pose proof (process_all_LB cci a L) as PL. pose proof (pim_IAD t0 a K) as PI.
      destruct (process_all_incoming_messages cci a) as [a' x|a' e|]; cbn [sLB spI stH] in *; auto.
      + split; intros _; [apply HA_Cc; exact PI | split; assumption].
      + apply HA_Cc. apply PI.
    - intros a rx1 fb w [L [K K5]] _ _. split; [eapply LB_kp; [exact L|]; unfold kp, add_wakes; auto|].
      split; [eapply IA_fpr; [|exact K]; unfold add_wakes; fpr_leaf | apply DM1_DM; exact K5].
    - intros a K. apply HB_Cc. exact K.
    - intros a (L & K & K5) _. pose proof (split_LB cci a L) as PL. pose proof (split_skr cci a) as PS.
      pose proof (split_DM t0 a K5) as PD.
      destruct (split_tx_queue_into_segments cci a) as [a' x|a' e|]; cbn [sLB stR stB] in *; auto.
      + exact (conj PL (conj (IA_skr _ _ PS K) PD)).
      + apply HB_Cc. exact (conj PL (conj (IA_skr _ _ PS K) PD)).
    - intros a (L & (K1 & K2 & K3 & K4) & K5) _ _.
      assert (Hio : IOD t0 a).
      { split; [|exact K5]. split; [exact K1|]. split; [exact K2|]. split; [exact K3|].
        split; [apply nodata_OUT; exact K4 | apply seg_inv_SZ; apply L]. }
      pose proof (stq_IOD t0 a Hio) as S.
      destruct (send_tx_queue cci a) as [a' x|a' e|]; cbn [stI stQ] in *; auto.
      + destruct S as ((S1 & S2 & S3 & S4 & S5) & S6).
        split; [intro R; congruence|]. split; intros _ _; (split; [assumption|]; split; assumption).
      + destruct S as ((S1 & S2 & S3 & S4 & S5) & S6). split; [assumption|]. split; assumption.
    - intros a (K1 & K2 & K3) _. pose proof (transition_fpr a) as F. pose proof F as (E1 & _ & E3 & E4 & _).
      split; [unfold NW in *; congruence|].
      split; [eapply OUT_fpr; [apply fpr_fpw; exact F | exact K2] | rewrite E1; exact K3].
    - intros a K _. apply (Hcfp _ a); [exact K | apply maybe_send_fin_fpr].
    - intros a K _. apply (Hcfp _ a); [exact K | apply maybe_send_ack_fpr].
    - split; [eapply LB_kp; [exact HL|]; unfold kp; auto|]. split; [exact HE|]. split; reflexivity. }
  destruct r; cbn [resH] in HR.
  - destruct HR as [[_ K]|(sb & (K1 & K2 & K3) & _ & _ & _ & ->)]; [exact K|].
    pose proof (poll_tail_fpr sb) as F. pose proof F as (E1 & _ & E3 & E4 & _).
    split; [unfold NW in *; congruence|].
    split; [eapply OUT_fpr; [apply fpr_fpw; exact F | exact K2] | rewrite E1; exact K3].
  - destruct HR as (sb & K & _ & ->). apply jbd_Cc. exact K.
  - destruct HR as (sb & K & ->). apply jbd_Cc. exact K.
  - apply HR.
Qed.

Theorem poll_OUT_DM_strict : forall (s s' : vsock),
  LB 0 s -> EF s -> poll cci s = (s', PollPending) ->
  NW s' /\ OUT s' /\ DM (v_segs s) (v_segs s').
Proof. intros s s' HL HE H. exact (poll_OUT_DM_strict_all s s' PollPending HL HE H). Qed.

(* ================================================================== the back-off, over a whole poll *)
Lemma pim_nodata : forall s : vsock,
  Forall nodata (v_out s) -> spI (fun a : vsock => Forall nodata (v_out a)) (process_all_incoming_messages cci s).
Proof.
  intros s Hi. apply pim_rule; try exact Hi.
  - intros a b (_ & _ & _ & _ & _ & _ & _ & (l & E & Hl) & _) K. rewrite E. apply Forall_app. split; assumption.
  - intros a l K. exact K.
  - intros a c tr ti K. exact K.
  - intros s1 s2 h res K E. destruct (pim_ack_skr cci _ _ _ _ E) as (E1 & _). rewrite E1. exact K.
  - intros s3 rc hd rtt now segs' p recalc K _ _. exact K.
Qed.

Lemma maybe_send_ack_tr : forall (s s' : vsock) b,
  maybe_send_ack s = SOk s' b -> v_t_retransmit s' = v_t_retransmit s.
Proof.
  intros s s' b. unfold maybe_send_ack, send_ack.
  assert (G : forall h, send_control_packet s h = SOk s' b -> v_t_retransmit s' = v_t_retransmit s).
  { intros h E. pose proof (send_control_packet_spec s h) as Hc. rewrite E in Hc.
    destruct b; [apply Hc | destruct Hc as (_ & _ & _ & _ & Ht & _); exact Ht]. }
  destruct (immediate_ack_to_transmit s); [apply G|].
  destruct (should_send_window_update s); [apply G|].
  destruct (timer_expired _ _).
  - destruct (ack_to_transmit s); [apply G | intro H; inversion H; reflexivity].
  - destruct (0 <? _); intro H; inversion H; reflexivity.
Qed.

Lemma poll_tail_tr : forall s : vsock, v_t_retransmit (poll_tail s) = v_t_retransmit s.
Proof.
  intro s. unfold poll_tail, next_timer_to_poll, arm_in, add_wakes.
  repeat break_match; try (inversion Heqp; subst); reflexivity.
Qed.

Section Backoff.
Variable r0 : Z.
Variable rt0 : rtt_state.

Definition MU (s : vsock) : Prop :=
  v_rto_retransmissions s = r0 /\ v_rtte s = rt0 /\ Forall nodata (v_out s).
Definition MQ (s : vsock) : Prop := v_rto_retransmissions s <= r0 /\ NE s.
(* the RTO branch fired in this poll: one ST_DATA, the estimator backed off (unless the segment is an MTU
   probe), the timer restarted for one RTO *)
Definition MF (s : vsock) : Prop :=
  exists p l1 l2 j g,
    v_out s = l2 ++ p :: l1 /\ Forall nodata l1 /\ Forall nodata l2 /\ ch_type (p_hdr p) = ST_DATA /\
    nth_error (ss_segs (v_segs s)) j = Some g /\
    ch_seq (p_hdr p) = wadd16 (ss_snd_una (v_segs s)) (Z.of_nat j mod M16) /\
    (if sg_probe g then v_rtte s = rt0 else on_rto_timeout rt0 = Some (v_rtte s)) /\
    v_t_retransmit s = Some (v_now s + retransmission_timeout (v_rtte s)) /\
    v_rto_retransmissions s = r0 + 1.

Definition BA0 (s : vsock) : Prop :=
  ti s /\ ((NW s /\ MQ s) \/ (v_rto_retransmissions s = r0 /\ v_rtte s = rt0 /\ v_out s = [])).
Definition BA (s : vsock) : Prop := ti s /\ NW s /\ (MU s \/ MQ s).
Definition BC (s : vsock) : Prop := ti s /\ NW s /\ (MF s \/ v_rto_retransmissions s <= r0).

Lemma NW_fpr : forall s s' : vsock, fpr s s' -> NW s -> NW s'.
Proof. intros s s' (_ & _ & E3 & E4 & _) H. unfold NW in *. congruence. Qed.

(* a control stage before send_tx_queue *)
Lemma BA_ctl : forall X (s : vsock) (m : step X),
  BA s -> sfp s m -> stR qb s m -> stR tiR s m -> stH BC (fun _ _ => True) BA m.
Proof.
  intros X s m (T & N & M) F Q Tt. destruct m as [s' a|s' e|]; cbn [sfp stR stH] in *; auto.
  assert (K : BA s').
  { split; [exact (Tt T)|]. split; [eapply NW_fpr; eauto|].
    pose proof F as (_ & _ & _ & _ & _ & _ & _ & (l & E8 & E9) & E10 & E11 & _).
    destruct M as [(M1 & M2 & M3)|(M1 & M2)].
    - left. split; [congruence|]. split; [congruence|]. rewrite E8. apply Forall_app. split; assumption.
    - right. split; [lia|]. destruct Q as (_ & _ & _ & _ & _ & _ & _ & _ & _ & _ & _ & Q12).
      apply Q12; [apply T | exact M2]. }
  split; intros _; [|exact K].
  destruct K as (K1 & K2 & K3). split; [exact K1|]. split; [exact K2|]. right.
  destruct K3 as [(K3 & _)|(K3 & _)]; lia.
Qed.

(* a control stage after it *)
Lemma MF_fpr : forall s s' : vsock, fpr s s' -> v_t_retransmit s' = v_t_retransmit s -> MF s -> MF s'.
Proof.
  intros s s' (E1 & _ & E3 & _ & _ & _ & _ & (l & E8 & E9) & E10 & E11 & _) Et
    (p & l1 & l2 & j & g & A1 & A2 & A3 & A4 & A5 & A6 & A7 & A8 & A9).
  exists p, l1, (l ++ l2), j, g. rewrite E1, E3, E10, E11, Et.
  split; [rewrite E8, A1, app_assoc; reflexivity|]. split; [exact A2|].
  split; [apply Forall_app; split; assumption|]. auto 10.
Qed.

Lemma BC_ctl : forall X (s : vsock) (m : step X),
  BC s -> sfp s m -> stR tiR s m ->
  (forall s' a, m = SOk s' a -> MF s -> v_t_retransmit s' = v_t_retransmit s) ->
  stH BC (fun _ _ => True) BC m.
Proof.
  intros X s m (T & N & M) F Tt Htr. destruct m as [s' a|s' e|]; cbn [sfp stR stH] in *; auto.
  assert (K : BC s').
  { split; [exact (Tt T)|]. split; [eapply NW_fpr; eauto|].
    destruct M as [M|M].
    - left. eapply MF_fpr; eauto.
    - right. destruct F as (_ & _ & _ & _ & _ & _ & _ & _ & _ & E11 & _). lia. }
  split; intros _; exact K.
Qed.

Lemma timer_arm_same : forall now d, timer_arm (Some (now + d)) now d false = Some (now + d).
Proof. intros now d. unfold timer_arm. rewrite Z.min_id. reflexivity. Qed.

Theorem poll_backoff : forall (s s' : vsock),
  ti s -> v_rto_retransmissions s = r0 -> v_rtte s = rt0 ->
  poll cci s = (s', PollPending) -> BC s'.
Proof.
  intros s s' Hti Hr Hrt H.
  assert (HR : resH BA0 BC BC (fun _ _ => True) s' PollPending).
  { apply (poll_H cci BA0 BA BA BA BC BC BC (fun _ _ => True)) with (s := s); try exact H.
    - (* poll_start *)
      intros a (T & M). split; [apply (poll_start_ti a T)|]. split; [reflexivity|].
      destruct M as [(N & M1 & M2)|(M1 & M2 & M3)].
      + right. split; [exact M1|]. unfold NE, NW in *. unfold poll_start. vsimpl_goal. rewrite <- N. exact M2.
      + left. split; [exact M1|]. split; [exact M2|]. change (v_out (poll_start a)) with (v_out a).
        rewrite M3. constructor.
    - intros a K _. apply (BA_ctl _ a); [exact K | apply maybe_send_syn_ack_fpr | apply maybe_send_syn_ack_qb
                                         | apply maybe_send_syn_ack_ti].
    - intros a K _. apply (BA_ctl _ a); [exact K | apply send_ack_fpr | apply send_ack_qb | apply send_ack_ti].
    - (* the incoming messages *)
      intros a (T & N & M) _.
      pose proof (process_all_incoming_messages_ti cci a) as T'.
      pose proof (process_all_incoming_messages_frame cci a) as Fr.
      pose proof (pim_mode a) as PM.
      pose proof (pim_nodata a) as PN0.
      destruct (process_all_incoming_messages cci a) as [b u|b e|]; cbn [stR stH step_frame spI] in *; auto.
      specialize (T' T). destruct (PM b u eq_refl (proj1 T)) as (Hb & Hnow & Hm).
      destruct Fr as (_ & Fe & _).
      assert (Nb : NW b) by (unfold NW in *; congruence).
      assert (K : BA b).
      { split; [exact T'|]. split; [exact Nb|].
        destruct M as [(M1 & M2 & M3)|(M1 & M2)].
        - destruct Hm as [(C1 & C2 & C3)|(C1 & C2)].
          + left. split; [congruence|]. split; [congruence | apply PN0; exact M3].
          + right. split; [|exact C2]. destruct T as (_ & T2 & _). lia.
        - right. destruct Hm as [(C1 & C2 & C3)|(C1 & C2)].
          + split; [lia | apply C3; exact M2].
          + split; [|exact C2]. destruct T as (_ & T2 & _). lia. }
      split; intros _; [|exact K].
      destruct K as (K1 & K2 & K3). split; [exact K1|]. split; [exact K2|]. right.
      destruct K3 as [(K3 & _)|(K3 & _)]; lia.
    - (* flush *)
      intros a rx1 fb w (T & N & M) _ _. split; [apply (rx_flush_ti a rx1 (rx_wakes w) T)|].
      split; [exact N|]. exact M.
    - auto.
    - (* segmentation *)
      intros a (T & N & M) _.
      pose proof (split_tx_queue_into_segments_ti cci a) as T'.
      pose proof (split_mode a) as SM. pose proof (split_skr cci a) as SK.
      destruct (split_tx_queue_into_segments cci a) as [b u|b e|]; cbn [stR stB] in *; auto.
      specialize (T' T). destruct (SM b u eq_refl (proj1 T)) as (S1 & S2 & S3).
      destruct SK as (K1 & _ & _ & K4 & _).
      split; [exact T'|]. split; [unfold NW in *; congruence|].
      destruct M as [(M1 & M2 & M3)|(M1 & M2)].
      + destruct S3 as [(C1 & C2)|(C1 & C2)].
        * left. split; [congruence|]. split; [congruence|]. rewrite K1. exact M3.
        * right. split; [|exact C2]. destruct T as (_ & T2 & _). lia.
      + right. destruct S3 as [(C1 & C2)|(C1 & C2)].
        * split; [lia|]. unfold NE in *. rewrite C2, S2. exact M2.
        * split; [|exact C2]. destruct T as (_ & T2 & _). lia.
    - (* send_tx_queue *)
      intros a (T & N & M) _ Ra.
      pose proof (send_tx_queue_ti cci a) as T'.
      pose proof (VSock_Lemmas.send_tx_queue_frame cci a) as Fr.
      pose proof (stq_mode a) as SM.
      destruct (send_tx_queue cci a) as [b u|b e|]; cbn [stR stQ step_frame] in *; auto.
      specialize (T' T). specialize (SM b u eq_refl T).
      destruct Fr as (_ & Fe & Fn & _).
      assert (Nb : NW b) by (unfold NW in *; congruence).
      assert (Hr0 : 0 <= r0).
      { destruct T as (_ & T2 & _). destruct M as [(M1 & _)|(M1 & _)]; lia. }
      destruct SM as [f rest Hexp Hit Ho Hsg Hc Hrtte Htr Hrs | Hc Hrs Hne].
      + (* fired: only from the untouched mode *)
        destruct M as [(M1 & M2 & M3)|(M1 & M2)]; [|unfold NE in M2; congruence].
        assert (KF : BC b).
        { split; [exact T'|]. split; [exact Nb|]. left.
          pose proof (synced_iter (v_segs a) None) as Hsy. rewrite Hit in Hsy.
          destruct Hsy as (_ & Hn & [_ Hsq] & _).
          exists (data_pkt a (outgoing_header a) f), (v_out a), [], (fs_idx f), (seg_on_sent (fs_seg f) (v_now a)).
          rewrite Hsg. unfold on_sent, Segments.set_segs. cbn [ss_segs ss_snd_una].
          split; [exact Ho|]. split; [exact M3|]. split; [constructor|]. split; [reflexivity|].
          split; [rewrite nth_error_update_nth, Nat.eqb_refl, Hn; reflexivity|].
          split; [exact Hsq|].
          split; [unfold seg_on_sent; cbn [sg_probe]; rewrite <- M2; exact Hrtte|].
          split; [rewrite Fn; exact Htr | lia]. }
        split; [intro Rb; congruence|]. split; intros _ _; exact KF.
      + assert (KQ : BC b).
        { split; [exact T'|]. split; [exact Nb|]. right. destruct M as [(M1 & _)|(M1 & _)]; lia. }
        split.
        * intro Rb. split; [exact T'|]. left. split; [exact Nb|].
          destruct Hrs as [Hrs|[_ Hrs]]; [congruence|]. split; [|exact Hrs].
          destruct M as [(M1 & _)|(M1 & _)]; lia.
        * split; intros _ _; exact KQ.
    - (* transition_to_fin_wait_1 *)
      intros a (T & N & M) _. pose proof (transition_fpr a) as F.
      split; [apply (transition_to_fin_wait_1_ti a T)|]. split; [eapply NW_fpr; eauto|].
      destruct M as [M|M].
      + left. eapply MF_fpr; [exact F | | exact M]. unfold transition_to_fin_wait_1. destruct (v_state a); reflexivity.
      + right. destruct F as (_ & _ & _ & _ & _ & _ & _ & _ & _ & E11 & _). lia.
    - (* maybe_send_fin *)
      intros a K _. apply (BC_ctl _ a); [exact K | apply maybe_send_fin_fpr | apply maybe_send_fin_ti|].
      intros b x E (p & l1 & l2 & j & g & _ & _ & _ & _ & _ & _ & _ & A8 & _).
      pose proof (maybe_send_fin_spec a) as Hm. rewrite E in Hm. destruct x.
      * destruct Hm as (seq & _ & _ & _ & _ & _ & _ & Ht & _). rewrite Ht, A8. apply timer_arm_same.
      * destruct Hm as (_ & _ & _ & _ & Ht & _). exact Ht.
    - (* maybe_send_ack *)
      intros a K _. apply (BC_ctl _ a); [exact K | apply maybe_send_ack_fpr | apply maybe_send_ack_ti|].
      intros b x E _. eapply maybe_send_ack_tr; exact E.
    - split; [exact (poll_start_ti _ (poll_start_ti _ Hti)) || exact Hti|].
      right. split; [exact Hr|]. split; [exact Hrt | reflexivity]. }
  cbn [resH] in HR. destruct HR as [[_ K]|(sb & (T & N & M) & _ & _ & _ & ->)]; [exact K|].
  pose proof (poll_tail_fpr sb) as F.
  split; [apply (poll_tail_ti sb T)|]. split; [eapply NW_fpr; eauto|].
  destruct M as [M|M].
  - left. eapply MF_fpr; [exact F | apply poll_tail_tr | exact M].
  - right. destruct F as (_ & _ & _ & _ & _ & _ & _ & _ & _ & E11 & _). lia.
Qed.

End Backoff.

End WithCC.

(* The joint invariant of one connection and its preservation, function by function.
   Used by Conn/C10_Proofs.v and Conn/C02_Proofs.v. *)
From Utp Require Import Base.Prelude Wire.SeqNr Wire.SeqNr_Proofs Wire.Header Rtt.Rtte Rtt.Rtte_Proofs
  Mtu.SegSizes Rx.Rx Rx.Rx_Proofs Tx.Ring Tx.Ring_Proofs Tx.Segments
  Tx.Segments_Proofs Conn.Recovery Conn.Msg Conn.VSockRec Conn.VSock Conn.VSockRun Conn.VObs
  Conn.C10_Pred.

Arguments SOk {CC A}. Arguments SErr {CC A}. Arguments SPanic {CC A}.
Arguments BrReturn {CC}. Arguments BrRestart {CC}. Arguments BrPanic {CC}.
Arguments TblDrop {CC}. Arguments TblErr {CC}. Arguments TblContinue {CC}.

(* a congestion controller for witnesses: a constant window *)
Definition fixed_cc (w : Z) : cc_iface unit :=
  {| cc_window := fun _ => w; cc_sshthresh := fun _ => w; cc_set_mss := fun c _ => c;
     cc_smss := fun _ => 528; cc_on_recovered := fun c _ _ => c;
     cc_on_ack := fun c _ _ _ => Some c; cc_on_rto := fun c _ => c;
     cc_on_enter_recovery := fun c _ => c; cc_set_remote_window := fun c _ => c |}.

(* ---- segment sizes (Mtu/SegSizes_Proofs.v is being updated for the D3 fix; the few facts
   needed here are proved locally) ---- *)
Definition ss_ok (s : segsizes) : Prop := 1 <= min_ss s <= max_ss s /\ max_ss s < U16_MAX.

Lemma delivered_ss_ok s n : ss_ok s -> ss_ok (on_payload_delivered s n) /\
  max_ss (on_payload_delivered s n) = max_ss s /\ min_ss s <= min_ss (on_payload_delivered s n).
Proof. unfold ss_ok, on_payload_delivered; cbn [min_ss max_ss]. unfold U16_MAX, M16. lia. Qed.

Lemma failed_ss_ok s n : ss_ok s -> ss_ok (on_probe_failed s n) /\
  max_ss (on_probe_failed s n) <= max_ss s /\ min_ss (on_probe_failed s n) = min_ss s.
Proof. unfold ss_ok, on_probe_failed, sat_sub; cbn [min_ss max_ss]. unfold U16_MAX, M16. lia. Qed.

Lemma disarm_ss_ok s : ss_ok s -> ss_ok (disarm_cooldown s).
Proof. unfold ss_ok, disarm_cooldown; cbn [min_ss max_ss]. tauto. Qed.

Lemma next_size_ok s : ss_ok s ->
  exists s' r, next_segment_size s = Some (s', r) /\ min_ss s' = min_ss s /\ max_ss s' = max_ss s /\
               min_ss s <= r <= max_ss s.
Proof.
  intros [H1 H2]. unfold next_segment_size. destruct (cd_rem s =? 0).
  - unfold next_probe, np_sum2, np_sum1, np_half, np_diff; cbn [min_ss max_ss].
    replace ((0 <=? max_ss s - min_ss s) && (min_ss s + (max_ss s - min_ss s) / 2 <=? U16_MAX) &&
             (min_ss s + (max_ss s - min_ss s) / 2 + 1 <=? U16_MAX)) with true
      by (unfold U16_MAX in *; symmetry; lia).
    cbn [bind]. eexists _, _. split; [reflexivity|]. cbn [min_ss max_ss]. lia.
  - eexists _, _. split; [reflexivity|]. cbn [min_ss max_ss]. lia.
Qed.

(* what the wire parser guarantees about a delivered message (C11) *)
Definition msg_ok (m : msg) : Prop :=
  match ch_type (m_hdr m) with ST_DATA => m_payload m <> [] | _ => m_payload m = [] end.

Section Inv.
Context {CC : Type} (cci : cc_iface CC).
Notation vsock := (vsock CC).
Notation step := (@step CC).

(* the congestion controller's on_ack never panics *)
Definition cc_total : Prop := forall c now len rtt, cc_on_ack cci c now len rtt <> None.

(* ------------------------------------------------------------------ the invariant *)
Definition dup_ok (r : recovery) : Prop :=
  match rv_phase r with CountingDuplicates d => 0 <= d < SACK_DUP_THRESH | _ => True end.

(* the ring and the segment table describe the same byte stream; p = bytes acknowledged by
   messages already processed in this poll but not yet truncated from the ring *)
Definition ring_rel (p : Z) (s : vsock) : Prop :=
  0 <= p /\
  g_removed (v_tx s) + p <= ss_removed (v_segs s) /\
  (v_state s <> Closed -> g_removed (v_tx s) + p = ss_removed (v_segs s)) /\
  ss_offset (v_segs s) <= g_removed (v_tx s) + Z.of_nat (length (ring (v_tx s))).

Definition vs_inv_p (ti tm p : Z) (s : vsock) : Prop :=
  rx_inv (v_rx s) /\
  seg_inv (v_segs s) /\
  tx_inv ti tm (v_tx s) /\ o_tx_max (v_opts s) = tm /\
  ring_rel p s /\
  ss_ok (v_ss s) /\
  no_ovf_inv (v_rtte s) /\
  dup_ok (v_recovery s).

Definition vs_inv (ti tm : Z) (s : vsock) : Prop := vs_inv_p ti tm 0 s.

(* ------------------------------------------------------------------ Hoare triples for `step` *)
Definition not_bug (e : verror) : Prop := match e with ErrBug _ => False | _ => True end.

(* The development is done once for two readings, selected by `strict`:
   strict = true : the transport never answers EMSGSIZE in this poll (emsg_free is threaded
                   through) and NO Bug error is allowed;
   strict = false: any transport; the one Bug error allowed is BugEmsgSizeNoProbe. *)
Variable strict : bool.

Definition allowed (e : verror) : Prop :=
  match e with
  | ErrBug BugEmsgSizeNoProbe => strict = false
  | ErrBug _ => False
  | _ => True
  end.

(* SOk states satisfy Q; an error is an allowed one; no panic *)
Definition sp {A} (m : step A) (Q : vsock -> A -> Prop) : Prop :=
  match m with SOk s a => Q s a | SErr _ e => allowed e | SPanic => False end.

Lemma sp_bind {A B} (m : step A) (f : vsock -> A -> step B) (Q1 : vsock -> A -> Prop)
  (Q2 : vsock -> B -> Prop) :
  sp m Q1 -> (forall s a, Q1 s a -> sp (f s a) Q2) -> sp (sbind m f) Q2.
Proof. destruct m as [s a|s e|]; cbn [sp sbind]; auto. Qed.

Lemma sp_weaken {A} (m : step A) (Q1 Q2 : vsock -> A -> Prop) :
  sp m Q1 -> (forall s a, Q1 s a -> Q2 s a) -> sp m Q2.
Proof. destruct m as [s a|s e|]; cbn [sp]; auto. Qed.

(* ------------------------------------------------------------------ frames
   same_core s s': the fields the invariant reads are unchanged, except v_last_sent_seq_nr
   (range only) *)
Definition same_core (s s' : vsock) : Prop :=
  v_rx s' = v_rx s /\ v_tx s' = v_tx s /\ v_segs s' = v_segs s /\ v_ss s' = v_ss s /\
  v_rtte s' = v_rtte s /\ v_recovery s' = v_recovery s /\ v_opts s' = v_opts s /\
  v_state s' = v_state s /\ v_inbox s' = v_inbox s /\ v_inbox_closed s' = v_inbox_closed s /\
  v_emsg_limit s' = v_emsg_limit s /\ v_now s' = v_now s /\ v_cc s' = v_cc s /\
  v_last_remote_window s' = v_last_remote_window s.

Lemma same_core_refl s : same_core s s.
Proof. unfold same_core; repeat split. Qed.

Lemma same_core_trans a b c : same_core a b -> same_core b c -> same_core a c.
Proof.
  unfold same_core.
  intros (A1&A2&A3&A4&A5&A6&A7&A8&A9&A10&A11&A12&A13&A14) (B1&B2&B3&B4&B5&B6&B7&B8&B9&B10&B11&B12&B13&B14).
  repeat split; congruence.
Qed.

Lemma inv_same_core ti tm p s s' :
  vs_inv_p ti tm p s -> same_core s s' -> vs_inv_p ti tm p s'.
Proof.
  unfold vs_inv_p, ring_rel, same_core.
  intros (I1 & I2 & I3 & I4 & (R0 & R1 & R2 & R3) & I6 & I7 & I8)
         (E1 & E2 & E3 & E4 & E5 & E6 & E7 & E8 & _).
  rewrite E1, E2, E3, E4, E5, E6, E7, E8. tauto.
Qed.

Lemma inv_p_le ti tm p q s : vs_inv_p ti tm p s -> v_state s = Closed -> 0 <= q <= p -> vs_inv_p ti tm q s.
Proof.
  unfold vs_inv_p, ring_rel.
  intros (I1 & I2 & I3 & I4 & (R0 & R1 & R2 & R3) & I6) Hc Hq.
  assert (0 <= q) by lia. assert (g_removed (v_tx s) + q <= ss_removed (v_segs s)) by lia.
  tauto.
Qed.

(* ------------------------------------------------------------------ sending: transport script *)
Definition emsg_free (s : vsock) : Prop :=
  script_legit (v_sends s) = true /\ v_emsg_limit s = None.

Lemma next_send_shape s size s1 o :
  next_send s size = (s1, o) ->
  (s1 = s /\ v_sends s = [] \/ exists o0 r, v_sends s = o0 :: r /\ s1 = set_sends s r) /\
  (emsg_free s -> o <> TEmsgsize).
Proof.
  unfold next_send, emsg_free. destruct (v_sends s) as [|o0 r] eqn:Es.
  - destruct (v_emsg_limit s) as [m|] eqn:El.
    + destruct (m <? size); intro H; injection H as <- <-; (split; [left; auto|]);
        intros [_ Hn]; discriminate.
    + intro H; injection H as <- <-. split; [left; auto|]. discriminate.
  - cbn [script_legit forallb].
    destruct o0; destruct (v_emsg_limit s) as [m|] eqn:El; try destruct (m <? size);
      intro H; injection H as <- <-; (split; [right; eauto|]); intros [H1 H2];
      try discriminate; cbn in H1; discriminate.
Qed.

Lemma next_send_core s size s1 o :
  next_send s size = (s1, o) ->
  same_core s s1 /\ v_last_sent_seq_nr s1 = v_last_sent_seq_nr s /\
  v_transport_pending s1 = v_transport_pending s /\ v_restart s1 = v_restart s /\
  (emsg_free s -> emsg_free s1 /\ o <> TEmsgsize).
Proof.
  intro H. destruct (next_send_shape _ _ _ _ H) as [[[-> Hs]|(o0 & r & Hs & ->)] Hf].
  - split; [apply same_core_refl|]. split; [reflexivity|]. split; [reflexivity|]. split; [reflexivity|].
    intro He. split; [exact He|apply Hf; exact He].
  - split; [unfold same_core; vsimpl; repeat split|]. vsimpl.
    split; [reflexivity|]. split; [reflexivity|]. split; [reflexivity|].
    intro He. split; [|apply Hf; exact He]. unfold emsg_free in *; vsimpl.
    destruct He as [H1 H2]. rewrite Hs in H1. cbn [script_legit forallb] in H1.
    apply andb_true_iff in H1. tauto.
Qed.

(* a predicate on states that every `send` helper preserves *)
Definition ef (s : vsock) : Prop := strict = true -> emsg_free s.

Definition send_frame (s s' : vsock) : Prop :=
  same_core s s' /\ (emsg_free s -> emsg_free s') /\ v_restart s' = v_restart s.

Lemma send_frame_ef s s' : send_frame s s' -> ef s -> ef s'.
Proof. unfold send_frame, ef. tauto. Qed.

Lemma send_frame_refl s : send_frame s s.
Proof. unfold send_frame. split; [apply same_core_refl|]. split; auto. Qed.

Lemma send_frame_trans a b c : send_frame a b -> send_frame b c -> send_frame a c.
Proof.
  unfold send_frame. intros (H1 & H2 & H3) (K1 & K2 & K3).
  split; [eapply same_core_trans; eauto|]. split; [auto|congruence].
Qed.

Ltac core_tac := unfold same_core, emsg_free in *; vsimpl; repeat split; tauto.

Lemma send_control_packet_spec s h :
  sp (send_control_packet s h)
     (fun s' _ => send_frame s s' /\ v_last_sent_seq_nr s' = v_last_sent_seq_nr s).
Proof.
  unfold send_control_packet. destruct (v_transport_pending s); [cbn [sp]; split; [apply send_frame_refl|reflexivity]|].
  destruct (next_send s _) as [s1 o] eqn:E.
  destruct (next_send_core _ _ _ _ E) as (Hc & Hl & Htp & Hr & Hf).
  destruct o; cbn [sp]; try exact I.
  - unfold send_frame, on_packet_sent, emit. split; [|vsimpl; exact Hl].
    split; [core_tac|]. split; [|vsimpl; exact Hr]. intro H. destruct (Hf H) as [H1 _]. core_tac.
  - unfold send_frame. split; [|vsimpl; exact Hl].
    split; [core_tac|]. split; [|vsimpl; exact Hr]. intro H. destruct (Hf H) as [H1 _]. core_tac.
Qed.

Lemma send_ack_spec s :
  sp (send_ack s) (fun s' _ => send_frame s s' /\ v_last_sent_seq_nr s' = v_last_sent_seq_nr s).
Proof. unfold send_ack. apply send_control_packet_spec. Qed.

Lemma wsub16_range a b : 0 <= wsub16 a b < M16.
Proof. unfold wsub16, M16. lia. Qed.

Lemma maybe_send_fin_spec s :
  sp (maybe_send_fin s) (fun s' _ => send_frame s s').
Proof.
  unfold maybe_send_fin.
  destruct (v_transport_pending s); [cbn [sp]; apply send_frame_refl|].
  destruct (our_fin_if_unacked (v_state s)) as [seq|] eqn:Ef; [|cbn [sp]; apply send_frame_refl].
  destruct (negb _); [cbn [sp]; apply send_frame_refl|].
  eapply sp_bind; [apply send_control_packet_spec|].
  intros s1 sent [Hfr Hl1]. destruct sent; cbn [sp]; [|exact Hfr].
  eapply send_frame_trans; [exact Hfr|]. unfold send_frame. split; [core_tac|]. split; [core_tac|reflexivity].
Qed.

(* ------------------------------------------------------------------ updating the state *)
Lemma inv_update ti tm p s s' :
  vs_inv_p ti tm p s ->
  v_rx s' = v_rx s -> v_tx s' = v_tx s -> v_opts s' = v_opts s ->
  (v_state s' <> Closed -> v_state s <> Closed) ->
  seg_inv (v_segs s') -> ss_removed (v_segs s') = ss_removed (v_segs s) ->
  ss_offset (v_segs s') <= ss_offset (v_segs s) ->
  ss_ok (v_ss s') -> no_ovf_inv (v_rtte s') -> dup_ok (v_recovery s') ->
  vs_inv_p ti tm p s'.
Proof.
  unfold vs_inv_p, ring_rel.
  intros (I1 & I2 & I3 & I4 & (R0 & R1 & R2 & R3) & I6 & I7 & I8) E1 E2 E3 Hst Hs Hr Ho H1 H2 H3.
  rewrite E1, E2, E3, Hr.
  assert (ss_offset (v_segs s') <= g_removed (v_tx s) + Z.of_nat (length (ring (v_tx s)))) by lia.
  tauto.
Qed.

(* what the rest of a poll keeps fixed once the incoming messages are processed *)
Definition txq_rel (s s' : vsock) : Prop :=
  v_rx s' = v_rx s /\ v_tx s' = v_tx s /\ v_state s' = v_state s /\ v_opts s' = v_opts s /\
  v_inbox s' = v_inbox s /\ v_inbox_closed s' = v_inbox_closed s /\ v_emsg_limit s' = v_emsg_limit s.

Lemma txq_rel_refl s : txq_rel s s.
Proof. unfold txq_rel; repeat split. Qed.
Lemma txq_rel_trans a b c : txq_rel a b -> txq_rel b c -> txq_rel a c.
Proof.
  unfold txq_rel. intros (A1&A2&A3&A4&A5&A6&A7) (B1&B2&B3&B4&B5&B6&B7). repeat split; congruence.
Qed.
Lemma same_core_txq s s' : same_core s s' -> txq_rel s s'.
Proof. unfold same_core, txq_rel. tauto. Qed.

(* ------------------------------------------------------------------ segments inside the ring *)
Lemma tiled_in base l g :
  tiled base l -> In g l -> base <= sg_abs g /\ sg_abs g + sg_size g <= base + sum_sizes l /\ 0 <= sg_size g.
Proof.
  revert base; induction l as [|x xs IH]; intros base Ht Hin; [contradiction|].
  cbn [tiled sum_sizes] in *. destruct Ht as (Ha & H0 & Ht).
  pose proof (tiled_sizes_nonneg _ _ Ht) as Hnn.
  destruct Hin as [->|Hin]; [lia|].
  specialize (IH _ Ht Hin). lia.
Qed.

Definition fs_ok (s : vsock) (f : for_sending) : Prop :=
  0 <= fs_payload_offset f /\ 0 <= sg_size (fs_seg f) /\
  fs_payload_offset f + sg_size (fs_seg f) <= Z.of_nat (length (ring (v_tx s))) /\
  0 <= fs_seq f < M16.

Lemma in_skipn {A} (x : A) n l : In x (skipn n l) -> In x l.
Proof.
  revert l; induction n as [|n IH]; intros [|y ys] H; cbn [skipn] in H; auto.
  right. apply IH. exact H.
Qed.

Lemma iter_fs_ok ti tm p s st :
  vs_inv_p ti tm p s -> Forall (fs_ok s) (iter_for_sending (v_segs s) st).
Proof.
  intros (_ & (Hlb & Hoff & Ht & Hr & Hu) & _ & _ & (R0 & R1 & _ & R3) & _).
  unfold iter_for_sending. apply Forall_forall. intros f Hf.
  apply filter_In in Hf. destruct Hf as [Hin _].
  apply in_map_iff in Hin. destruct Hin as ([i g] & <- & Hin).
  apply enum_from_In in Hin. apply in_skipn in Hin.
  destruct (tiled_in _ _ _ Ht Hin) as (A1 & A2 & A3).
  unfold fs_ok; cbn [fs_payload_offset fs_seg fs_seq].
  split; [lia|]. split; [lia|]. split; [lia|]. apply wadd16_range.
Qed.

Lemma fs_ok_tx s s' f : v_tx s' = v_tx s -> fs_ok s f -> fs_ok s' f.
Proof. unfold fs_ok. intros ->. tauto. Qed.

(* ------------------------------------------------------------------ send_data *)
Lemma on_sent_fields t i now :
  ss_removed (on_sent t i now) = ss_removed t /\ ss_offset (on_sent t i now) = ss_offset t /\
  ss_snd_una (on_sent t i now) = ss_snd_una t.
Proof. unfold on_sent, Segments.set_segs; cbn. auto. Qed.

Lemma inv_parts ti tm p s : vs_inv_p ti tm p s ->
  rx_inv (v_rx s) /\ seg_inv (v_segs s) /\ tx_inv ti tm (v_tx s) /\ o_tx_max (v_opts s) = tm /\
  ring_rel p s /\ ss_ok (v_ss s) /\ no_ovf_inv (v_rtte s) /\ dup_ok (v_recovery s).
Proof. unfold vs_inv_p. tauto. Qed.

Lemma send_data_spec ti tm p s h f :
  vs_inv_p ti tm p s -> ef s -> fs_ok s f ->
  sp (send_data s h f)
     (fun s' r => vs_inv_p ti tm p s' /\ ef s' /\ txq_rel s s' /\ v_restart s' = v_restart s /\
                  v_ss s' = v_ss s /\ v_recovery s' = v_recovery s /\ v_rtte s' = v_rtte s /\
                  (strict = true -> r <> SdEmsgsize)).
Proof.
  intros Hinv Hef (F1 & F0 & F2 & F3). unfold send_data.
  destruct (_ =? o_max_retx _); [cbn [sp allowed]; exact I|].
  destruct (Z.ltb_spec (fs_payload_offset f) 0) as [|_]; [lia|].
  destruct (Z.ltb_spec (Z.of_nat (length (ring (v_tx s)))) (fs_payload_offset f)) as [|_]; [lia|].
  destruct (Z.ltb_spec (Z.of_nat (length (ring (v_tx s)))) (fs_payload_offset f + sg_size (fs_seg f))) as [|_]; [lia|].
  destruct (next_send s _) as [s1 o] eqn:E.
  destruct (next_send_core _ _ _ _ E) as (Hc & Hl & Htp & Hr & Hf).
  assert (Hinv1 : vs_inv_p ti tm p s1).
  { eapply inv_same_core; [exact Hinv|exact Hc]. }
  pose proof (same_core_txq _ _ Hc) as Htx.
  assert (Hef1 : ef s1) by (intro Hs; apply Hf; apply Hef; exact Hs).
  destruct Hc as (C1 & C2 & C3 & C4 & C5 & C6 & C7 & C8 & C9 & C10 & C11 & C12 & C13 & C14).
  destruct (inv_parts _ _ _ _ Hinv1) as (I1 & I2 & I3 & I4 & I5 & I6 & I7 & I8).
  destruct o; cbn [sp allowed]; try exact I.
  - (* sent *)
    match goal with |- vs_inv_p _ _ _ ?S /\ _ => set (s7 := S) end.
    assert (K1 : v_rx s7 = v_rx s1) by (unfold s7, on_packet_sent, emit; destruct (seq_gt _ _); [destruct (seq_gt _ _)|]; vsimpl; reflexivity).
    assert (K2 : v_tx s7 = v_tx s1) by (unfold s7, on_packet_sent, emit; destruct (seq_gt _ _); [destruct (seq_gt _ _)|]; vsimpl; reflexivity).
    assert (K3 : v_opts s7 = v_opts s1) by (unfold s7, on_packet_sent, emit; destruct (seq_gt _ _); [destruct (seq_gt _ _)|]; vsimpl; reflexivity).
    assert (K4 : v_state s7 = v_state s1) by (unfold s7, on_packet_sent, emit; destruct (seq_gt _ _); [destruct (seq_gt _ _)|]; vsimpl; reflexivity).
    assert (K5 : v_segs s7 = on_sent (v_segs s1) (fs_idx f) (v_now s1))
      by (unfold s7, on_packet_sent, emit; destruct (seq_gt _ _); [destruct (seq_gt _ _)|]; vsimpl; reflexivity).
    assert (K6 : v_ss s7 = v_ss s1) by (unfold s7, on_packet_sent, emit; destruct (seq_gt _ _); [destruct (seq_gt _ _)|]; vsimpl; reflexivity).
    assert (K7 : v_rtte s7 = v_rtte s1) by (unfold s7, on_packet_sent, emit; destruct (seq_gt _ _); [destruct (seq_gt _ _)|]; vsimpl; reflexivity).
    assert (K8 : v_recovery s7 = v_recovery s1) by (unfold s7, on_packet_sent, emit; destruct (seq_gt _ _); [destruct (seq_gt _ _)|]; vsimpl; reflexivity).
    assert (K10 : v_sends s7 = v_sends s1 /\ v_emsg_limit s7 = v_emsg_limit s1 /\ v_restart s7 = v_restart s1 /\
                  v_inbox s7 = v_inbox s1 /\ v_inbox_closed s7 = v_inbox_closed s1 /\
                  v_rto_retransmissions s7 = v_rto_retransmissions s1)
      by (unfold s7, on_packet_sent, emit; destruct (seq_gt _ _); [destruct (seq_gt _ _)|]; vsimpl; repeat split).
    destruct K10 as (K10 & K11 & K12 & K13 & K14 & K15).
    destruct (on_sent_fields (v_segs s1) (fs_idx f) (v_now s1)) as (O1 & O2 & O3).
    split.
    { eapply inv_update; [exact Hinv1|exact K1|exact K2|exact K3|rewrite K4; auto|..];
        rewrite ?K5, ?K6, ?K7, ?K8; try assumption.
      - apply on_sent_inv. exact I2.
      - lia. }
    split; [unfold ef, emsg_free in *; rewrite K10, K11; exact Hef1|].
    split.
    { eapply txq_rel_trans; [exact Htx|]. unfold txq_rel. rewrite K1, K2, K4, K3, K13, K14, K11. repeat split. }
    split; [congruence|]. split; [congruence|]. split; [congruence|]. split; [congruence|].
    discriminate.
  - (* transport pending *)
    split.
    { eapply inv_same_core; [exact Hinv1|]. unfold same_core; vsimpl; repeat split. }
    split; [unfold ef, emsg_free in *; vsimpl; exact Hef1|].
    split; [eapply txq_rel_trans; [exact Htx|]; unfold txq_rel; vsimpl; repeat split|].
    vsimpl. repeat split; try congruence; try discriminate.
  - (* EMSGSIZE *)
    split; [exact Hinv1|]. split; [exact Hef1|]. split; [exact Htx|].
    repeat split; try congruence. intros Hs _. destruct (Hf (Hef Hs)) as [_ Hn]. apply Hn; reflexivity.
Qed.

(* ------------------------------------------------------------------ send_tx_queue *)
Definition TQ ti tm p (s s' : vsock) : Prop := vs_inv_p ti tm p s' /\ ef s' /\ txq_rel s s'.

Lemma TQ_refl ti tm p s : vs_inv_p ti tm p s -> ef s -> TQ ti tm p s s.
Proof. intros. split; [assumption|]. split; [assumption|apply txq_rel_refl]. Qed.

Lemma TQ_trans ti tm p a b c : TQ ti tm p a b -> TQ ti tm p b c -> TQ ti tm p a c.
Proof. intros (_ & _ & H1) (K1 & K2 & K3). split; [exact K1|]. split; [exact K2|eapply txq_rel_trans; eauto]. Qed.

Lemma Forall_fs_ok_tx s s' l : txq_rel s s' -> Forall (fs_ok s) l -> Forall (fs_ok s') l.
Proof.
  intros (_ & Ht & _) H. eapply Forall_impl; [|exact H]. intros f Hf. eapply fs_ok_tx; eauto.
Qed.

Lemma recovery_loop_spec ti tm p h mss0 : forall items s st,
  vs_inv_p ti tm p s -> ef s -> Forall (fs_ok s) items ->
  sp (recovery_loop items s h mss0 st) (fun s' _ => TQ ti tm p s s').
Proof.
  induction items as [|f rest IH]; intros s st Hinv Hef Hok; cbn [recovery_loop].
  { cbn [sp]. apply TQ_refl; assumption. }
  inversion Hok as [|? ? Hf Hrest]; subst.
  destruct (negb _); [cbn [sp]; apply TQ_refl; assumption|].
  destruct (_ && negb (sg_lost _)); [apply IH; assumption|].
  destruct (_ && negb (sg_sacks_after _)); [cbn [sp]; apply TQ_refl; assumption|].
  pose proof (send_data_spec ti tm p s h f Hinv Hef Hf) as Hsd.
  destruct (send_data s h f) as [s1 r|s1 e|]; cbn [sp] in Hsd |- *; [|exact Hsd|exact Hsd].
  destruct Hsd as (Hinv1 & Hef1 & Htx & _).
  assert (HTQ : TQ ti tm p s s1) by (split; [assumption|split; assumption]).
  destruct r; cbn [sp allowed]; [|exact HTQ|exact I].
  eapply sp_weaken; [apply IH; [assumption|assumption|eapply Forall_fs_ok_tx; eauto]|].
  intros s2 a H2. eapply TQ_trans; eauto.
Qed.

Lemma new_data_loop_spec ti tm p h : forall items s remaining,
  vs_inv_p ti tm p s -> ef s -> Forall (fs_ok s) items ->
  sp (new_data_loop items s h remaining)
     (fun s' tl => TQ ti tm p s s' /\ (strict = true -> tl = None)).
Proof.
  induction items as [|f rest IH]; intros s remaining Hinv Hef Hok; cbn [new_data_loop].
  { cbn [sp]. split; [apply TQ_refl; assumption|reflexivity]. }
  inversion Hok as [|? ? Hf Hrest]; subst.
  destruct (_ <? _); [cbn [sp]; split; [apply TQ_refl; assumption|reflexivity]|].
  pose proof (send_data_spec ti tm p s h f Hinv Hef Hf) as Hsd.
  destruct (send_data s h f) as [s1 r|s1 e|]; cbn [sp] in Hsd |- *; [|exact Hsd|exact Hsd].
  destruct Hsd as (Hinv1 & Hef1 & Htx & _ & _ & _ & _ & Hne).
  assert (HTQ : TQ ti tm p s s1) by (split; [assumption|split; assumption]).
  destruct r; cbn [sp].
  - eapply sp_weaken; [apply IH; [assumption|assumption|eapply Forall_fs_ok_tx; eauto]|].
    intros s2 a [H2 H3]. split; [eapply TQ_trans; eauto|exact H3].
  - split; [exact HTQ|reflexivity].
  - split; [exact HTQ|]. intro Hs. exfalso. apply (Hne Hs). reflexivity.
Qed.

Lemma dup_ok_rto r l : dup_ok r -> dup_ok (recovery_on_rto_timeout r l).
Proof. unfold dup_ok, recovery_on_rto_timeout. destruct (rv_phase r) eqn:E; cbn [rv_phase]; rewrite ?E; auto. Qed.

Lemma on_rto_reactions_spec ti tm p s :
  vs_inv_p ti tm p s -> ef s -> exists s2, on_rto_reactions cci s = Some s2 /\ TQ ti tm p s s2.
Proof.
  intros Hinv Hef. destruct (inv_parts _ _ _ _ Hinv) as (I1 & I2 & I3 & I4 & I5 & I6 & I7 & I8).
  unfold on_rto_reactions. destruct (timeout_no_overflow _ I7) as (rt & -> & Hrt).
  eexists. split; [reflexivity|]. split.
  - eapply inv_update; [exact Hinv|..]; vsimpl; try reflexivity; try assumption; try lia; auto.
    apply dup_ok_rto. exact I8.
  - split; [unfold ef, emsg_free in *; vsimpl; exact Hef|unfold txq_rel; vsimpl; repeat split].
Qed.

Lemma pop_mtu_probe_fields t q t' b :
  seg_inv t -> pop_mtu_probe t q = (t', b) ->
  seg_inv t' /\ ss_removed t' = ss_removed t /\ ss_offset t' <= ss_offset t.
Proof.
  intros Hinv H. split; [eapply pop_mtu_probe_inv; eauto|]. revert H. unfold pop_mtu_probe.
  destruct (last_and_init (ss_segs t)) as [[init g]|] eqn:E.
  - destruct (_ && _); intro H; injection H as <- _; [|split; [reflexivity|lia]].
    apply last_and_init_spec in E. destruct Hinv as (_ & _ & Ht & _). rewrite E in Ht.
    apply tiled_app in Ht. destruct Ht as [_ Ht]. cbn [tiled] in Ht.
    unfold Segments.set_segs; cbn [ss_removed ss_offset]. split; [reflexivity|lia].
  - intro H; injection H as <- _. split; [reflexivity|lia].
Qed.

Lemma pop_expired_fields t to mr t' pe :
  seg_inv t -> pop_expired_mtu_probe t to mr = (t', pe) ->
  seg_inv t' /\ ss_removed t' = ss_removed t /\ ss_offset t' <= ss_offset t.
Proof.
  intros Hinv H. split; [eapply pop_expired_inv; eauto|]. revert H. unfold pop_expired_mtu_probe.
  destruct (last_and_init (ss_segs t)) as [[init g]|] eqn:E.
  - destruct (sg_delivered g); [intro H; injection H as <- _; split; [reflexivity|lia]|].
    destruct (to && sg_probe g && (mr <=? seg_retransmit_count g));
      [|destruct (sg_probe g); intro H; injection H as <- _; (split; [reflexivity|lia])].
    intro H; injection H as <- _.
    apply last_and_init_spec in E. destruct Hinv as (_ & _ & Ht & _). rewrite E in Ht.
    apply tiled_app in Ht. destruct Ht as [_ Ht]. cbn [tiled] in Ht.
    unfold Segments.set_segs; cbn [ss_removed ss_offset]. split; [reflexivity|lia].
  - intro H; injection H as <- _. split; [reflexivity|lia].
Qed.

(* a state that differs from an invariant state only in fields the invariant does not read *)
Ltac frame_tac Hinv :=
  (eapply inv_same_core; [exact Hinv|]; unfold same_core; vsimpl; repeat split).

Lemma TQ_frame ti tm p s s1 s2 :
  TQ ti tm p s s1 -> same_core s1 s2 -> v_sends s2 = v_sends s1 -> TQ ti tm p s s2.
Proof.
  intros (H1 & H2 & H3) Hc Hs. split; [eapply inv_same_core; eauto|]. split.
  - unfold ef, emsg_free in *. destruct Hc as (_&_&_&_&_&_&_&_&_&_&He&_). rewrite Hs, He. exact H2.
  - eapply txq_rel_trans; [exact H3|apply same_core_txq; exact Hc].
Qed.

Lemma TQ_set_recovering ti tm p s s1 rc :
  TQ ti tm p s s1 -> TQ ti tm p s (set_recovering s1 rc).
Proof.
  intros (H1 & H2 & H3). destruct (inv_parts _ _ _ _ H1) as (I1 & I2 & I3 & I4 & I5 & I6 & I7 & I8).
  unfold set_recovering. split.
  - eapply inv_update; [exact H1|..]; vsimpl; try reflexivity; try assumption; try lia; auto;
      try (unfold dup_ok; cbn [rv_phase]; exact I).
  - split; [unfold ef, emsg_free in *; vsimpl; exact H2|].
    eapply txq_rel_trans; [exact H3|unfold txq_rel; vsimpl; repeat split].
Qed.

Lemma send_tx_queue_spec ti tm p s :
  vs_inv_p ti tm p s -> ef s -> sp (send_tx_queue cci s) (fun s' _ => TQ ti tm p s s').
Proof.
  intros Hinv Hef. unfold send_tx_queue.
  destruct (v_transport_pending s); [cbn [sp]; apply TQ_refl; assumption|].
  eapply sp_bind with (Q1 := fun s1 (_ : bool) => TQ ti tm p s s1).
  { (* RTO branch *)
    destruct (timer_expired _ _); [|cbn [sp]; apply TQ_refl; assumption].
    pose proof (iter_fs_ok ti tm p s None Hinv) as Hit.
    destruct (iter_for_sending (v_segs s) None) as [|f rest].
    - destruct (our_fin_if_unacked (v_state s)) as [fin|].
      + destruct (_ =? fin).
        * set (s1 := set_last_sent_seq_nr s _).
          assert (H1 : TQ ti tm p s s1).
          { eapply TQ_frame; [apply TQ_refl; assumption| |reflexivity]. unfold s1, same_core; vsimpl; repeat split. }
          eapply sp_bind; [apply maybe_send_fin_spec|].
          intros s2 sent (Hc2 & Hf2 & _).
          assert (H2 : TQ ti tm p s s2).
          { destruct H1 as (A1 & A2 & A3). split; [eapply inv_same_core; eauto|].
            split; [unfold ef in *; auto|]. eapply txq_rel_trans; [exact A3|apply same_core_txq; exact Hc2]. }
          destruct sent; cbn [sp]; [|exact H2].
          destruct H2 as (A1 & A2 & A3).
          destruct (on_rto_reactions_spec ti tm p s2 A1 A2) as (s3 & -> & H3). cbn [sp].
          eapply TQ_frame; [eapply TQ_trans; [split; [exact A1|split; [exact A2|exact A3]]|exact H3]| |reflexivity].
          unfold same_core; vsimpl; repeat split.
        * cbn [sp]. eapply TQ_frame; [apply TQ_refl; assumption| |reflexivity]. unfold same_core; vsimpl; repeat split.
      + cbn [sp]. eapply TQ_frame; [apply TQ_refl; assumption| |reflexivity]. unfold same_core; vsimpl; repeat split.
    - inversion Hit as [|? ? Hf _]; subst.
      pose proof (send_data_spec ti tm p s (outgoing_header s) f Hinv Hef Hf) as Hsd.
      destruct (send_data s (outgoing_header s) f) as [s1 r|s1 e|]; cbn [sp] in Hsd |- *; [|exact Hsd|exact Hsd].
      destruct Hsd as (Hinv1 & Hef1 & Htx & _).
      assert (HTQ : TQ ti tm p s s1) by (split; [assumption|split; assumption]).
      destruct r; cbn [sp allowed]; [|exact HTQ|exact I].
      assert (Hs2 : exists s2, (if negb (sg_probe (fs_seg f)) then on_rto_reactions cci s1 else Some s1) = Some s2 /\
                               TQ ti tm p s s2).
      { destruct (negb _).
        - destruct (on_rto_reactions_spec ti tm p s1 Hinv1 Hef1) as (s2 & E2 & H2).
          exists s2. split; [exact E2|eapply TQ_trans; eauto].
        - exists s1. split; [reflexivity|exact HTQ]. }
      destruct Hs2 as (s2 & -> & H2). cbn [sp].
      eapply TQ_frame; [exact H2| |reflexivity]. unfold same_core; vsimpl; repeat split. }
  intros s1 ret H1. destruct ret; [cbn [sp]; exact H1|].
  destruct (0 <? _); [cbn [sp]; exact H1|].
  destruct (ss_segs (v_segs s1)) as [|g0 gs] eqn:Egs; [cbn [sp]; exact H1|].
  destruct H1 as (Hinv1 & Hef1 & Htx1).
  eapply sp_bind with (Q1 := fun s2 (_ : bool) => TQ ti tm p s s2).
  { (* recovery branch *)
    destruct (rv_phase (v_recovery s1)) as [rp|d|rc] eqn:Eph;
      try (cbn [sp]; split; [assumption|split; assumption]).
    eapply sp_bind.
    { apply (recovery_loop_spec ti tm p); [exact Hinv1|exact Hef1|].
      pose proof (iter_fs_ok ti tm p s1 None Hinv1) as Hit.
      assert (Hsub : forall (P : for_sending -> Prop) l (q1 q2 : for_sending -> bool) n,
                 Forall P l -> Forall P (take_while q1 (skip_while q2 (firstn n l)))).
      { intros P l q1 q2 n Hl. apply Forall_forall. intros x Hx. rewrite Forall_forall in Hl. apply Hl.
        assert (Htw : forall l0, In x (take_while q1 l0) -> In x l0).
        { induction l0 as [|y ys IHl]; cbn [take_while]; [tauto|]. destruct (q1 y); [|intros []].
          intros [->|Hi]; [left; reflexivity|right; auto]. }
        assert (Hsw : forall l0, In x (skip_while q2 l0) -> In x l0).
        { induction l0 as [|y ys IHl]; cbn [skip_while]; [tauto|]. destruct (q2 y); [right; auto|auto]. }
        apply Htw in Hx. apply Hsw in Hx.
        rewrite <- (firstn_skipn n l). apply in_or_app. left. exact Hx. }
      apply Hsub. exact Hit. }
    intros s2 [st early] H2.
    assert (H2' : TQ ti tm p s s2) by (eapply TQ_trans; [split; [exact Hinv1|split; [exact Hef1|exact Htx1]]|exact H2]).
    match goal with |- sp (if early then SOk ?S true else _) _ => set (s3 := S) end.
    assert (H3 : TQ ti tm p s s3) by (apply TQ_set_recovering; exact H2').
    destruct early; [cbn [sp]; exact H3|].
    match goal with |- sp (match our_fin_if_unacked (v_state ?S) with _ => _ end) _ => set (s4 := S) end.
    assert (H4 : TQ ti tm p s s4).
    { unfold s4. destruct (rl_cwnd st <? _); [|exact H3]. destruct (rc_recalc rc).
      - eapply TQ_frame; [exact H3| |reflexivity]. unfold same_core; vsimpl; repeat split.
      - destruct (0 <? _); [|exact H3].
        eapply TQ_frame; [exact H3| |reflexivity]. unfold same_core; vsimpl; repeat split. }
    destruct (our_fin_if_unacked (v_state s4)) as [our_fin|]; [|cbn [sp]; exact H4].
    destruct (_ =? wsub16 our_fin 1); [|cbn [sp]; exact H4].
    cbn [sp]. apply TQ_set_recovering.
    eapply TQ_frame; [exact H4| |reflexivity]. unfold same_core; vsimpl; repeat split. }
  intros s2 ret H2. destruct ret; [cbn [sp]; exact H2|].
  destruct H2 as (Hinv2 & Hef2 & Htx2).
  eapply sp_bind.
  { apply (new_data_loop_spec ti tm p); [exact Hinv2|exact Hef2|]. eapply iter_fs_ok; exact Hinv2. }
  intros s3 tl [H3 Htl].
  assert (H3' : TQ ti tm p s s3) by (eapply TQ_trans; [split; [exact Hinv2|split; [exact Hef2|exact Htx2]]|exact H3]).
  destruct tl as [[seq size]|]; [|cbn [sp]; exact H3'].
  destruct (pop_mtu_probe (v_segs s3) seq) as [segs' popped] eqn:Epop.
  destruct popped; cbn [sp allowed].
  - destruct H3' as (A1 & A2 & A3).
    destruct (inv_parts _ _ _ _ A1) as (I1 & I2 & I3 & I4 & I5 & I6 & I7 & I8).
    destruct (pop_mtu_probe_fields _ _ _ _ I2 Epop) as (P1 & P2 & P3).
    split.
    + eapply inv_update; [exact A1|..]; vsimpl; try reflexivity; try assumption; auto.
      apply disarm_ss_ok. apply failed_ss_ok. exact I6.
    + split; [unfold ef, emsg_free in *; vsimpl; exact A2|].
      eapply txq_rel_trans; [exact A3|unfold txq_rel; vsimpl; repeat split].
  - destruct strict eqn:Es; [|reflexivity]. discriminate (Htl eq_refl).
Qed.

(* ------------------------------------------------------------------ split_tx_queue_into_segments *)
Lemma inv_update_gen ti tm p s s' :
  vs_inv_p ti tm p s ->
  v_rx s' = v_rx s -> v_opts s' = v_opts s ->
  (v_state s' <> Closed -> v_state s <> Closed) ->
  tx_inv ti tm (v_tx s') -> g_removed (v_tx s') = g_removed (v_tx s) ->
  length (ring (v_tx s')) = length (ring (v_tx s)) ->
  seg_inv (v_segs s') -> ss_removed (v_segs s') = ss_removed (v_segs s) ->
  ss_offset (v_segs s') <= g_removed (v_tx s) + Z.of_nat (length (ring (v_tx s))) ->
  ss_ok (v_ss s') -> no_ovf_inv (v_rtte s') -> dup_ok (v_recovery s') ->
  vs_inv_p ti tm p s'.
Proof.
  unfold vs_inv_p, ring_rel.
  intros (I1 & I2 & I3 & I4 & (R0 & R1 & R2 & R3) & I6 & I7 & I8) E1 E3 Hst Ht Hg Hl Hs Hr Ho H1 H2 H3.
  rewrite E1, E3, Hr, Hg, Hl. tauto.
Qed.

Lemma segment_loop_spec : forall fuel nagle ss segs remaining rwr,
  ss_ok ss -> seg_inv segs -> 0 <= remaining ->
  exists ss' segs' rem',
    segment_loop fuel nagle ss segs remaining rwr = Some (ss', segs', rem') /\
    ss_ok ss' /\ seg_inv segs' /\ ss_removed segs' = ss_removed segs /\
    ss_offset segs' + rem' = ss_offset segs + remaining /\ 0 <= rem'.
Proof.
  induction fuel as [|x fuel IH]; intros nagle ss segs remaining rwr Hss Hsg Hrem; cbn [segment_loop].
  { eexists _, _, _. split; [reflexivity|]. split; [exact Hss|]. split; [exact Hsg|]. split; [reflexivity|]. split; lia. }
  destruct (Z.ltb_spec 0 remaining) as [Hr0|Hr0]; cbn [andb];
    [|eexists _, _, _; split; [reflexivity|]; split; [exact Hss|]; split; [exact Hsg|]; split; [reflexivity|]; split; lia].
  destruct (Z.ltb_spec 0 rwr) as [Hw0|Hw0];
    [|eexists _, _, _; split; [reflexivity|]; split; [exact Hss|]; split; [exact Hsg|]; split; [reflexivity|]; split; lia].
  destruct (next_size_ok ss Hss) as (ss1 & sz & -> & Hm & Hx & Hsz).
  assert (Hss1 : ss_ok ss1) by (unfold ss_ok in *; rewrite Hm, Hx; exact Hss).
  set (payload := Z.min (Z.min sz rwr) remaining).
  assert (Hp : 0 < payload <= remaining) by (unfold payload, ss_ok in *; lia).
  destruct (nagle && _ && _).
  { eexists _, _, _. split; [reflexivity|]. split; [exact Hss1|]. split; [exact Hsg|]. split; [reflexivity|]. split; lia. }
  assert (Hsg1 : forall b, seg_inv (enqueue segs payload b)) by (intro b; apply enqueue_inv; [exact Hsg|lia]).
  assert (Hf : forall b, ss_removed (enqueue segs payload b) = ss_removed segs /\
               ss_offset (enqueue segs payload b) = ss_offset segs + payload)
    by (intro b; unfold enqueue, Segments.set_segs; cbn; auto).
  destruct (mss ss1 <? payload).
  { destruct (Hf true) as [Hf1 Hf2].
    eexists _, _, _. split; [reflexivity|]. split; [exact Hss1|]. split; [apply Hsg1|]. split; [exact Hf1|]. split; lia. }
  destruct (Hf false) as [Hf1 Hf2].
  destruct (IH nagle ss1 (enqueue segs payload false) (remaining - payload) (rwr - payload) Hss1 (Hsg1 false))
    as (ss' & segs' & rem' & E & A1 & A2 & A3 & A4 & A5); [lia|].
  eexists _, _, _. split; [exact E|]. split; [exact A1|]. split; [exact A2|]. split; [congruence|]. split; lia.
Qed.

Lemma register_disp_fields t :
  ring (register_dispatcher_if_empty t) = ring t /\ g_removed (register_dispatcher_if_empty t) = g_removed t /\
  forall ti tm, tx_inv ti tm t -> tx_inv ti tm (register_dispatcher_if_empty t).
Proof.
  unfold register_dispatcher_if_empty. destruct (ring t) eqn:E; [|auto].
  cbn [upd ring g_removed]. split; [reflexivity|]. split; [reflexivity|]. intros ti tm H.
  pose proof (flags_only_inv ti tm t (t_vsock_closed t) (writer_dropped t) (writer_shutdown t) true
                (writer_waker t) (written_without_yield t) H) as K. rewrite E in K. exact K.
Qed.

Lemma wake_writer_fields t t' w :
  wake_writer t = (t', w) ->
  ring t' = ring t /\ g_removed t' = g_removed t /\ cap t' = cap t /\
  forall ti tm, tx_inv ti tm t -> tx_inv ti tm t'.
Proof.
  unfold wake_writer. intro H; injection H as <- _. cbn [upd ring g_removed cap].
  split; [reflexivity|]. split; [reflexivity|]. split; [reflexivity|].
  intros ti tm K. apply flags_only_inv. exact K.
Qed.

Lemma mark_closed_fields t t' w :
  mark_vsock_closed t = (t', w) ->
  ring t' = ring t /\ g_removed t' = g_removed t /\
  forall ti tm, tx_inv ti tm t -> tx_inv ti tm t'.
Proof.
  unfold mark_vsock_closed. intro H; injection H as <- _. cbn [upd ring g_removed].
  split; [reflexivity|]. split; [reflexivity|].
  intros ti tm K. apply flags_only_inv. exact K.
Qed.

(* what split keeps fixed *)
Definition split_rel (s s' : vsock) : Prop :=
  v_rx s' = v_rx s /\ v_state s' = v_state s /\ v_opts s' = v_opts s /\
  v_inbox s' = v_inbox s /\ v_inbox_closed s' = v_inbox_closed s /\
  v_emsg_limit s' = v_emsg_limit s /\ v_sends s' = v_sends s /\
  v_transport_pending s' = v_transport_pending s /\ v_restart s' = v_restart s.

Lemma split_spec ti tm s :
  vs_inv ti tm s -> ef s ->
  sp (split_tx_queue_into_segments cci s)
     (fun s' _ => vs_inv ti tm s' /\ ef s' /\ split_rel s s').
Proof.
  intros Hinv Hef. destruct (inv_parts _ _ _ _ Hinv) as (I1 & I2 & I3 & I4 & I5 & I6 & I7 & I8).
  destruct I5 as (R0 & R1 & R2 & R3).
  unfold split_tx_queue_into_segments.
  destruct (Z.eqb_spec (Z.of_nat (length (ring (v_tx s)))) 0) as [Hz|Hnz].
  { cbn [sp]. destruct (register_disp_fields (v_tx s)) as (F1 & F2 & F3).
    split; [|split; [unfold ef, emsg_free in *; vsimpl; exact Hef|unfold split_rel; vsimpl; repeat split]].
    eapply inv_update_gen; [exact Hinv|..]; vsimpl; rewrite ?F1, ?F2; try reflexivity; try assumption; auto;
      try (apply F3; exact I3). }
  (* grow *)
  match goal with |- sp (if is_remote_fin_or_later (v_state ?S) then _ else _) _ => set (s1 := S) end.
  assert (H1 : vs_inv ti tm s1 /\ ef s1 /\ split_rel s s1 /\ v_segs s1 = v_segs s /\ v_ss s1 = v_ss s /\
               length (ring (v_tx s1)) = length (ring (v_tx s)) /\ g_removed (v_tx s1) = g_removed (v_tx s) /\
               v_rtte s1 = v_rtte s /\ v_recovery s1 = v_recovery s).
  { unfold s1. destruct (_ && _).
    - destruct (grow (v_tx s) (o_tx_max (v_opts s))) as [tx1 g] eqn:Eg. rewrite I4 in Eg.
      destruct (grow_spec _ _ _ _ _ I3 Eg) as (G1 & G2 & G3 & G4 & G5).
      destruct g as [c|].
      + destruct (wake_writer tx1) as [tx2 w] eqn:Ew.
        destruct (wake_writer_fields _ _ _ Ew) as (W1 & W2 & W3 & W4).
        unfold add_wakes. vsimpl.
        split; [|split; [unfold ef, emsg_free in *; vsimpl; exact Hef|split; [unfold split_rel; vsimpl; repeat split|]]].
        * eapply inv_update_gen; [exact Hinv|..]; vsimpl; rewrite ?W1, ?W2, ?G2, ?G4;
            try reflexivity; try assumption; auto; try congruence.
        * vsimpl. rewrite W1, W2, G2, G4. repeat split.
      + split; [|split; [unfold ef, emsg_free in *; vsimpl; exact Hef|split; [unfold split_rel; vsimpl; repeat split|]]].
        * eapply inv_update_gen; [exact Hinv|..]; vsimpl; rewrite ?G2, ?G4;
            try reflexivity; try assumption; auto; try congruence.
        * vsimpl. rewrite G2, G4. repeat split.
    - split; [exact Hinv|]. split; [exact Hef|]. split; [unfold split_rel; repeat split|]. repeat split. }
  destruct H1 as (Hinv1 & Hef1 & Hrel1 & Hsg1 & Hss1 & Hlen1 & Hgr1 & Hrt1 & Hrc1).
  destruct (is_remote_fin_or_later (v_state s1)) eqn:Efin; [cbn [sp]; auto|].
  assert (Hnc : v_state s1 <> Closed) by (intro Hc; rewrite Hc in Efin; discriminate).
  destruct (pop_expired_mtu_probe (v_segs s1) _ _) as [segs1 pe] eqn:Epe.
  rewrite Hsg1 in Epe.
  destruct (pop_expired_fields _ _ _ _ _ I2 Epe) as (P1 & P2 & P3).
  assert (Hst1 : v_state s1 = v_state s) by apply Hrel1.
  assert (Heq : g_removed (v_tx s) = ss_removed (v_segs s)) by (rewrite Hst1 in Hnc; specialize (R2 Hnc); lia).
  (* the common continuation *)
  assert (Hcont : forall s2,
     vs_inv ti tm s2 -> ef s2 -> split_rel s s2 -> v_tx s2 = v_tx s1 ->
     sp (if Z.of_nat (length (ring (v_tx s))) <? ss_len_bytes (v_segs s2)
         then SErr s2 (ErrBug BugInBufferComputations)
         else match segment_loop (ring (v_tx s2)) (o_nagle (v_opts s2)) (v_ss s2) (v_segs s2)
                      (Z.of_nat (length (ring (v_tx s))) - ss_len_bytes (v_segs s2))
                      (v_last_remote_window s2) with
              | None => SPanic
              | Some (ss', segs', remaining) =>
                  SOk (set_unsegmented (VSockRec.set_segs (set_ss s2 ss') segs') remaining) tt
              end)
        (fun s' _ => vs_inv ti tm s' /\ ef s' /\ split_rel s s')).
  { intros s2 Hinv2 Hef2 Hrel2 Htx2.
    destruct (inv_parts _ _ _ _ Hinv2) as (J1 & J2 & J3 & J4 & J5 & J6 & J7 & J8).
    destruct J5 as (S0 & S1 & S2 & S3).
    assert (Hst2 : v_state s2 = v_state s) by apply Hrel2.
    assert (Hnc2 : v_state s2 <> Closed) by (rewrite Hst2, <- Hst1; exact Hnc).
    specialize (S2 Hnc2). rewrite Htx2, Hgr1 in S2. rewrite Htx2, Hgr1, Hlen1 in S3.
    destruct J2 as (Hlb & Hoff & Htl & Hrm & Hun).
    destruct (Z.ltb_spec (Z.of_nat (length (ring (v_tx s)))) (ss_len_bytes (v_segs s2))) as [Hbad|Hok]; [lia|].
    destruct (segment_loop_spec (ring (v_tx s2)) (o_nagle (v_opts s2)) (v_ss s2) (v_segs s2)
                (Z.of_nat (length (ring (v_tx s))) - ss_len_bytes (v_segs s2)) (v_last_remote_window s2) J6
                (conj Hlb (conj Hoff (conj Htl (conj Hrm Hun)))))
      as (ss' & segs' & rem' & -> & A1 & A2 & A3 & A4 & A5); [lia|].
    cbn [sp]. split; [|split; [unfold ef, emsg_free in *; vsimpl; exact Hef2|]].
    - eapply inv_update_gen; [exact Hinv2|..]; vsimpl; try reflexivity; try assumption; auto.
      rewrite Htx2, Hgr1, Hlen1. lia.
    - destruct Hrel2 as (Q1&Q2&Q3&Q4&Q5&Q6&Q7&Q8&Q9). unfold split_rel; vsimpl. repeat split; assumption. }
  destruct pe as [rewind_to payload_size| |].
  - (* expired probe: the retransmission timer (re-armed when segments remain) is not read by the
       invariant *)
    apply Hcont.
    + destruct (seq_gt _ _);
        (eapply inv_update_gen; [exact Hinv1|..]; vsimpl; rewrite ?Hsg1, ?Hgr1, ?Hlen1, ?Hss1, ?Hrt1, ?Hrc1;
         try reflexivity; try assumption; auto; try lia; try (apply failed_ss_ok; exact I6);
         try (apply (inv_parts _ _ _ _ Hinv1))).
    + destruct (seq_gt _ _); unfold ef, emsg_free in *; vsimpl; exact Hef1.
    + destruct Hrel1 as (Q1&Q2&Q3&Q4&Q5&Q6&Q7&Q8&Q9).
      destruct (seq_gt _ _); unfold split_rel; vsimpl; repeat split; assumption.
    + destruct (seq_gt _ _); vsimpl; reflexivity.
  - (* probe outstanding: only v_unsegmented is updated *)
    cbn [sp]. split; [unfold vs_inv; frame_tac Hinv1|].
    split; [unfold ef, emsg_free in *; vsimpl; exact Hef1|].
    destruct Hrel1 as (Q1&Q2&Q3&Q4&Q5&Q6&Q7&Q8&Q9). unfold split_rel; vsimpl. repeat split; assumption.
  - apply Hcont; auto.
Qed.

(* ------------------------------------------------------------------ application events *)
Lemma inv_update_tx ti tm p s tx' :
  vs_inv_p ti tm p s -> tx_inv ti tm tx' -> g_removed tx' = g_removed (v_tx s) ->
  (length (ring (v_tx s)) <= length (ring tx'))%nat ->
  vs_inv_p ti tm p (set_tx s tx').
Proof.
  unfold vs_inv_p, ring_rel. vsimpl.
  intros (I1 & I2 & I3 & I4 & (R0 & R1 & R2 & R3) & I6 & I7 & I8) Ht Hg Hl.
  rewrite Hg. assert (ss_offset (v_segs s) <= g_removed (v_tx s) + Z.of_nat (length (ring tx'))) by lia.
  tauto.
Qed.

Lemma inv_update_rx ti tm p s rx' :
  vs_inv_p ti tm p s -> rx_inv rx' -> vs_inv_p ti tm p (set_rx s rx').
Proof. unfold vs_inv_p, ring_rel. vsimpl. tauto. Qed.

Lemma tx_flag_ops t :
  (forall t' r w, poll_flush t = (t', r, w) -> ring t' = ring t /\ g_removed t' = g_removed t) /\
  (forall t' r w, poll_shutdown t = (t', r, w) -> ring t' = ring t /\ g_removed t' = g_removed t) /\
  (forall t' w, drop_writer t = (t', w) -> ring t' = ring t /\ g_removed t' = g_removed t).
Proof.
  split; [|split].
  - intros t' r w. unfold poll_flush. destruct (ring t) eqn:E.
    + intro H; injection H as <- _ _. rewrite E. auto.
    + destruct (t_vsock_closed t); intro H; injection H as <- _ _; cbn [upd ring g_removed]; rewrite ?E; auto.
  - intros t' r w. unfold poll_shutdown. destruct (ring t) eqn:E;
      destruct (t_vsock_closed t); try destruct (writer_shutdown t);
      intro H; injection H as <- _ _; cbn [upd ring g_removed]; rewrite ?E; auto.
  - intros t' w. unfold drop_writer. destruct (writer_dropped t); intro H; injection H as <- _;
      cbn [upd ring g_removed]; auto.
Qed.

Lemma vstep_app_inv ti tm s o :
  vs_inv ti tm s -> (forall sc, o <> VoPoll sc) ->
  let '(s', _, _, _) := vstep cci s o in vs_inv ti tm s'.
Proof.
  intros Hinv Hnp. destruct (inv_parts _ _ _ _ Hinv) as (I1 & I2 & I3 & I4 & I5 & I6 & I7 & I8).
  assert (Hfr : forall s', v_rx s' = v_rx s -> v_tx s' = v_tx s -> v_segs s' = v_segs s -> v_ss s' = v_ss s ->
                 v_rtte s' = v_rtte s -> v_recovery s' = v_recovery s -> v_opts s' = v_opts s ->
                 v_state s' = v_state s -> vs_inv ti tm s').
  { intros s' E1 E2 E3 E4 E5 E6 E7 E8. unfold vs_inv. eapply inv_update; [exact Hinv|..];
      rewrite ?E3, ?E4, ?E5, ?E6, ?E8; try assumption; auto; lia. }
  destruct o; cbn [vstep].
  - apply Hfr; vsimpl; reflexivity.
  - apply Hfr; vsimpl; reflexivity.
  - exfalso. eapply Hnp; reflexivity.
  - destruct (v_inbox_closed s); [exact Hinv|]. apply Hfr; vsimpl; reflexivity.
  - apply Hfr; vsimpl; reflexivity.
  - destruct (writer_dropped (v_tx s)); [exact Hinv|].
    destruct (poll_write (v_tx s) buf) as [[tx1 r] w] eqn:E.
    destruct (poll_write_spec _ _ _ _ _ _ _ I3 E) as (W1 & W2 & W3 & W4 & _).
    apply inv_update_tx; [exact Hinv|exact W1|exact W3|].
    destruct r; try (destruct W4 as [-> _]; lia).
    destruct W4 as (_ & -> & _). rewrite app_length. lia.
  - destruct (writer_dropped (v_tx s)) eqn:Ed; [exact Hinv|].
    destruct (poll_flush (v_tx s)) as [[tx1 r] w] eqn:E.
    destruct (proj1 (tx_flag_ops (v_tx s)) _ _ _ E) as [F1 F2].
    apply inv_update_tx; [exact Hinv| |exact F2|rewrite F1; lia].
    apply (tx_step_inv ti tm (v_tx s) ToFlush tx1 (TxUnit r) w I3 I).
    cbn [tx_step]. rewrite Ed, E. reflexivity.
  - destruct (writer_dropped (v_tx s)) eqn:Ed; [exact Hinv|].
    destruct (poll_shutdown (v_tx s)) as [[tx1 r] w] eqn:E.
    destruct (proj1 (proj2 (tx_flag_ops (v_tx s))) _ _ _ E) as [F1 F2].
    apply inv_update_tx; [exact Hinv| |exact F2|rewrite F1; lia].
    apply (tx_step_inv ti tm (v_tx s) ToShutdown tx1 (TxUnit r) w I3 I).
    cbn [tx_step]. rewrite Ed, E. reflexivity.
  - destruct (reader_dropped (v_rx s)); [exact Hinv|].
    destruct (rx_read (v_rx s) n) as [[rx1 r] w] eqn:E.
    apply inv_update_rx; [exact Hinv|]. exact (proj1 (rx_read_spec _ _ _ _ _ I1 E)).
  - destruct (reader_dropped (v_rx s)) eqn:Ed; [exact Hinv|].
    destruct (rx_drop_reader (v_rx s)) as [rx1 w] eqn:E.
    apply inv_update_rx; [exact Hinv|].
    assert (Hst : rx_step (v_rx s) ODropReader = (rx1, OutUnit, w)) by (cbn [rx_step]; rewrite Ed, E; reflexivity).
    exact (proj1 (rx_step_spec (v_rx s) ODropReader rx1 OutUnit w I1 I Hst)).
  - destruct (drop_writer (v_tx s)) as [tx1 w] eqn:E.
    destruct (proj2 (proj2 (tx_flag_ops (v_tx s))) _ _ E) as [F1 F2].
    apply inv_update_tx; [exact Hinv| |exact F2|rewrite F1; lia].
    apply (tx_step_inv ti tm (v_tx s) ToDropWriter tx1 TxNone w I3 I).
    cbn [tx_step]. rewrite E. reflexivity.
Qed.

(* ------------------------------------------------------------------ construction *)
Lemma ss_new_ok c : 1 <= vc_link_mtu c <= U16_MAX -> ss_ok (ss_new (ss_config_of c)).
Proof.
  intro H. unfold ss_ok, ss_new, ss_config_of, clamped_link_mtu, ss_calc, default_min_mtu, ip_header;
    cbn [min_ss max_ss cfg_ipv4 cfg_link_mtu].
  unfold IPV4_HEADER, IPV6_HEADER, UDP_HEADER, UTP_HEADER, U16_MAX in *. destruct (vc_ipv4 c); lia.
Qed.

Lemma vsock_new_inv (mk_cc : Z -> Z -> CC) c :
  vconfig_ok c = true ->
  exists s0, vsock_new cci mk_cc c = Some s0 /\ vs_inv (vc_tx_init c) (vc_tx_max c) s0.
Proof.
  unfold vconfig_ok. intro H. repeat (apply andb_true_iff in H; destruct H as [H ?]).
  assert (Hss : ss_ok (ss_new (ss_config_of c))) by (apply ss_new_ok; lia).
  unfold vsock_new. fold (ss_config_of c).
  assert (Hrt : exists r0, (match (if vc_incoming c then None else Some (sat_sub (vc_now0 c) (vc_syn_sent c))) with
                            | Some r => sample rtte_default r | None => Some rtte_default end) = Some r0 /\
                           no_ovf_inv r0).
  { destruct (vc_incoming c).
    - exists rtte_default. split; [reflexivity|]. split; [exact default_in_bounds|exact I].
    - apply sample_no_overflow; [split; [exact default_in_bounds|exact I]|]. unfold sat_sub. lia. }
  destruct Hrt as (r0 & -> & Hr0).
  eexists. split; [reflexivity|].
  unfold vs_inv, vs_inv_p, ring_rel; cbn [v_rx v_segs v_tx v_opts v_state v_ss v_rtte v_recovery o_tx_max].
  split; [apply build_inv; [destruct Hss; unfold mss; lia|lia]|].
  split; [apply Segments_Proofs.new_inv; destruct (vc_incoming c); [lia|apply wadd16_range]|].
  split; [apply Ring_Proofs.new_inv; lia|].
  split; [reflexivity|].
  split; [cbn; repeat split; try lia; intros _; lia|].
  split; [exact Hss|]. split; [exact Hr0|].
  unfold dup_ok, recovery_new; cbn [rv_phase]. unfold SACK_DUP_THRESH. lia.
Qed.

(* ------------------------------------------------------------------ incoming side: the Bug sites *)
(* BugUnexpectedPacketInSynReceived: only from SynReceived; there is no other Bug site in the table
   (BugRecvInClosed is gone: a closed connection ignores what is still queued, repair of D15) *)
Lemma state_table_no_bug (s : vsock) h :
  v_state s <> SynReceived ->
  match state_table s h with
  | TblErr _ e => e = ErrStResetReceived
  | TblDrop s' | TblContinue s' => v_state s' <> SynReceived
  end.
Proof.
  intros Hs. unfold state_table.
  destruct (ch_type h); destruct (v_state s) eqn:Est; try congruence;
    repeat match goal with
    | |- context [if ?c then _ else _] => destruct c
    end; vsimpl; try congruence; try discriminate; auto.
Qed.

(* a closed connection ignores every packet: nothing but ST_RESET is even looked at, the state is
   untouched, and ST_RESET reports the (non-Bug) reset error *)
Lemma state_table_closed (s : vsock) h :
  v_state s = Closed ->
  state_table s h =
    match ch_type h with
    | ST_RESET => TblErr (set_state s Closed) ErrStResetReceived
    | _ => TblDrop s
    end.
Proof.
  intros Hc. unfold state_table. cbv zeta. rewrite Hc. destruct (ch_type h); reflexivity.
Qed.

Lemma process_incoming_closed (s : vsock) m :
  v_state s = Closed ->
  process_incoming_message cci s m =
    match ch_type (m_hdr m) with
    | ST_RESET => SErr (set_state s Closed) ErrStResetReceived
    | _ => SOk s on_ack_result_default
    end.
Proof.
  intros Hc. unfold process_incoming_message. cbv zeta. rewrite (state_table_closed s (m_hdr m) Hc).
  destruct (ch_type (m_hdr m)); reflexivity.
Qed.

(* the SYN-ACK is sent (state SynAckSent) before anything else unless the transport is pending *)
Lemma send_control_packet_sent (s : vsock) h :
  sp (send_control_packet s h) (fun s' sent => sent = false -> v_transport_pending s' = true).
Proof.
  unfold send_control_packet. destruct (v_transport_pending s) eqn:E; [cbn [sp]; auto|].
  destruct (next_send s _) as [s1 o]. destruct o; cbn [sp allowed]; auto; try discriminate.
Qed.

Lemma maybe_send_syn_ack_state (s : vsock) :
  sp (maybe_send_syn_ack s)
     (fun s' _ => v_transport_pending s' = false -> v_state s' <> SynReceived).
Proof.
  unfold maybe_send_syn_ack. destruct (v_state s) eqn:Est; cbn [sp]; vsimpl; try congruence.
  - destruct (_ =? _); [cbn [sp allowed]; exact I|].
    eapply sp_bind; [apply send_control_packet_sent|].
    intros s1 sent Hs. destruct sent; cbn [sp]; vsimpl; [discriminate|].
    intro Hp. rewrite (Hs eq_refl) in Hp. discriminate.
  - destruct (timer_expired _ _); [|cbn [sp]; congruence].
    destruct (_ =? _); [cbn [sp allowed]; exact I|].
    eapply sp_bind; [apply send_control_packet_sent|].
    intros s1 sent Hs. destruct sent; cbn [sp]; vsimpl; [discriminate|].
    intro Hp. rewrite (Hs eq_refl) in Hp. discriminate.
Qed.

(* BugInvalidMessageExpectedStDataOrFin / BugAssemblerMissingSlot / UarPanic *)
Lemma rx_add_remove_no_bug r k pl off r' ar w :
  rx_inv r -> 0 <= off -> k <> KOther -> rx_add_remove r k pl off = (r', ar, w) ->
  rx_inv r' /\ exists a, ar = UarOk a /\ a <> ArErrBugInvalidMessage /\ a <> ArErrBugMissingSlot.
Proof.
  intros Hinv Hoff Hk H.
  destruct (rx_add_remove_spec _ _ _ _ _ _ _ Hinv Hoff H) as (Hinv' & (a & -> & _) & _).
  split; [exact Hinv'|]. exists a. split; [reflexivity|].
  revert H. unfold rx_add_remove.
  destruct (ooq_add_remove r k pl off) as [s1 a0] eqn:E.
  assert (Ha0 : a0 <> ArErrBugInvalidMessage /\ a0 <> ArErrBugMissingSlot).
  { revert E. unfold ooq_add_remove. destruct (ooq_is_full r); [intro K; injection K as _ <-; split; discriminate|].
    destruct (Z.leb_spec (Z.of_nat (length (ooq_data r))) (off + filled_front r)) as [|Hlt];
      [intro K; injection K as _ <-; split; discriminate|].
    pose proof (inv_ff_bounds r Hinv) as Hb.
    destruct (nth_error (ooq_data r) (Z.to_nat (off + filled_front r))) as [old|] eqn:En;
      [|apply nth_error_None in En; lia].
    destruct k; [destruct pl| |congruence];
      repeat match goal with
      | |- context [if ?c then _ else _] => destruct c
      | |- context [let '(_, _) := ?t in _] => destruct t
      end; intro K; injection K as _ <-; split; discriminate. }
  destruct a0; try (intro K; inversion K; subst; exact Ha0).
  destruct (_ && _); [|intro K; inversion K; subst; split; discriminate].
  destruct (rx_flush s1) as [[s2 fr] w2]. destruct fr; intro K; inversion K; subst; split; discriminate.
Qed.

(* BugTruncateFront: the bytes acknowledged by the messages of one poll are in the ring *)
Lemma truncate_ok ti tm p s :
  vs_inv_p ti tm p s ->
  exists tx1, truncate_front (v_tx s) p = (tx1, TrOk) /\ vs_inv_p ti tm 0 (set_tx s tx1).
Proof.
  intros Hinv. destruct (inv_parts _ _ _ _ Hinv) as (I1 & I2 & I3 & I4 & I5 & I6 & I7 & I8).
  destruct I5 as (R0 & R1 & R2 & R3). destruct I2 as (Hlb & Hoff & Htl & Hrm & Hun).
  pose proof (tiled_sizes_nonneg _ _ Htl) as Hnn.
  destruct (truncate_front (v_tx s) p) as [tx1 tr] eqn:E.
  destruct (truncate_spec _ _ _ _ _ _ I3 R0 E) as (T1 & T2 & T3 & T4 & T5 & T6).
  assert (Hle : p <= Z.of_nat (length (ring (v_tx s)))) by lia.
  assert (tr = TrOk) by (apply T6; exact Hle). subst tr.
  exists tx1. split; [reflexivity|].
  unfold vs_inv_p, ring_rel; vsimpl.
  assert (Hlen : Z.of_nat (length (ring tx1)) = Z.of_nat (length (ring (v_tx s))) - p).
  { rewrite T4, skipn_length. lia. }
  rewrite T5, Hlen.
  assert (A1 : g_removed (v_tx s) + Z.min p (Z.of_nat (length (ring (v_tx s)))) + 0 <= ss_removed (v_segs s)) by lia.
  assert (A2 : v_state s <> Closed ->
               g_removed (v_tx s) + Z.min p (Z.of_nat (length (ring (v_tx s)))) + 0 = ss_removed (v_segs s))
    by (intro Hc; specialize (R2 Hc); lia).
  assert (A3 : ss_offset (v_segs s) <=
               g_removed (v_tx s) + Z.min p (Z.of_nat (length (ring (v_tx s)))) +
               (Z.of_nat (length (ring (v_tx s))) - p)) by lia.
  assert (A0 : 0 <= 0) by lia.
  unfold seg_inv. tauto.
Qed.

(* ------------------------------------------------------------------ bounded buffering *)
Lemma bounded_buffering ti tm p s :
  vs_inv_p ti tm p s ->
  Z.of_nat (length (ring (v_tx s))) <= cap (v_tx s) <= Z.max ti tm /\
  0 <= q_len_bytes (v_rx s) <= q_capacity (v_rx s) /\
  0 <= filled_front (v_rx s) <= ooq_len (v_rx s) /\ ooq_len (v_rx s) <= ooq_capacity (v_rx s) /\
  0 <= ss_len_bytes (v_segs s) <= Z.of_nat (length (ring (v_tx s))).
Proof.
  intros Hinv. destruct (inv_parts _ _ _ _ Hinv) as (I1 & I2 & I3 & I4 & I5 & I6 & I7 & I8).
  destruct I5 as (R0 & R1 & R2 & R3). destruct I2 as (Hlb & Hoff & Htl & Hrm & Hun).
  pose proof (tiled_sizes_nonneg _ _ Htl) as Hnn.
  destruct I3 as (T1 & T2 & _). destruct (accounting _ I1) as (A1 & A2 & _ & _ & _ & A6).
  repeat split; lia.
Qed.

End Inv.

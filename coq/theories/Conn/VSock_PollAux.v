(* Auxiliary facts for the whole-poll invariant (Conn/VSock_PollIn.v, VSock_PollTx.v, VSock_Poll.v):
   - per-segment facts the byte-accounting invariant seg_inv does not record (send times are
     non-negative; at most the LAST segment of the table is an undelivered MTU probe) and their
     preservation by every operation of Tx/Segments.v;
   - how remove_up_to_ack moves snd_una, and the exact condition under which calc_pipe panics;
   - the Hoare triple `spx` (like VSock_Inv.sp, but the state of an error exit is described too). *)
From Utp Require Import Base.Prelude Wire.SeqNr Wire.SeqNr_Proofs Wire.Header Rtt.Rtte Rtt.Rtte_Proofs
  Mtu.SegSizes Rx.Rx Rx.Rx_Proofs Tx.Ring Tx.Ring_Proofs Tx.Segments
  Tx.Segments_Proofs Conn.Recovery Conn.Msg Conn.VSockRec Conn.VSock Conn.VSockRun Conn.VObs
  Conn.C10_Pred Conn.VSock_Inv.

(* ------------------------------------------------------------------ per-segment facts *)
Definition seg_time_ok (g : seg) : Prop :=
  match seg_last_sent g with Some t => 0 <= t | None => True end.

(* an MTU probe that is still unacknowledged *)
Definition live_probe (g : seg) : bool := sg_probe g && negb (sg_delivered g).

(* every live probe of the list has a size in q *)
Definition lp_all (q : Z -> Prop) (l : list seg) : Prop :=
  Forall (fun g => live_probe g = true -> q (sg_size g)) l.

Definition no_live (l : list seg) : Prop := lp_all (fun _ => False) l.

(* how one segment may change while it stays in the table: flags only; delivered is monotone *)
Definition seg_ev (g g' : seg) : Prop :=
  sg_probe g' = sg_probe g /\ sg_size g' = sg_size g /\
  (sg_delivered g = true -> sg_delivered g' = true) /\
  (seg_time_ok g -> seg_time_ok g').

Lemma seg_ev_refl g : seg_ev g g.
Proof. unfold seg_ev. auto. Qed.

Lemma seg_ev_trans a b c : seg_ev a b -> seg_ev b c -> seg_ev a c.
Proof.
  unfold seg_ev. intros (A1 & A2 & A3 & A4) (B1 & B2 & B3 & B4).
  repeat split; try congruence; auto.
Qed.

Lemma ev_refl l : Forall2 seg_ev l l.
Proof. induction l; constructor; auto using seg_ev_refl. Qed.

Lemma ev_trans : forall a b c, Forall2 seg_ev a b -> Forall2 seg_ev b c -> Forall2 seg_ev a c.
Proof.
  induction a as [|x xs IH]; intros b c H1 H2.
  - inversion H1; subst. inversion H2; subst. constructor.
  - inversion H1 as [|? y ? ys Hxy Hr]; subst. inversion H2 as [|? z ? zs Hyz Hr2]; subst.
    constructor; [eapply seg_ev_trans; eauto|eapply IH; eauto].
Qed.

Lemma ev_time l l' : Forall2 seg_ev l l' -> Forall seg_time_ok l -> Forall seg_time_ok l'.
Proof.
  induction 1 as [|x y xs ys (_ & _ & _ & Ht) _ IH]; intro H; [constructor|].
  inversion H; subst. constructor; auto.
Qed.

Lemma ev_lp q l l' : Forall2 seg_ev l l' -> lp_all q l -> lp_all q l'.
Proof.
  unfold lp_all. induction 1 as [|x y xs ys (Hp & Hs & Hd & _) _ IH]; intro H; [constructor|].
  inversion H as [|? ? Hx Hr]; subst. constructor; [|auto].
  unfold live_probe in *. rewrite Hp, Hs. intro Hl. apply Hx.
  apply andb_true_iff in Hl. destruct Hl as [Hl1 Hl2]. rewrite Hl1. cbn [andb].
  destruct (sg_delivered x); [|reflexivity]. rewrite (Hd eq_refl) in Hl2. discriminate.
Qed.

Lemma ev_length l l' : Forall2 seg_ev l l' -> length l' = length l.
Proof. induction 1; cbn [length]; congruence. Qed.

Lemma removelast_app_ne {A} (a b : list A) : b <> [] -> removelast (a ++ b) = a ++ removelast b.
Proof. intro H. apply removelast_app. exact H. Qed.

Lemma ev_removelast : forall l l', Forall2 seg_ev l l' -> Forall2 seg_ev (removelast l) (removelast l').
Proof.
  induction 1 as [|x y xs ys Hxy Hr IH]; [constructor|].
  cbn [removelast]. destruct Hr as [|x2 y2 xs2 ys2 H2 Hr2]; [constructor|].
  constructor; [exact Hxy|exact IH].
Qed.

Lemma ev_app a b a' b' : Forall2 seg_ev a a' -> Forall2 seg_ev b b' -> Forall2 seg_ev (a ++ b) (a' ++ b').
Proof. apply Forall2_app. Qed.

Lemma lp_app q a b : lp_all q (a ++ b) <-> lp_all q a /\ lp_all q b.
Proof. unfold lp_all. apply Forall_app. Qed.

Lemma lp_weaken (q q' : Z -> Prop) l : (forall z, q z -> q' z) -> lp_all q l -> lp_all q' l.
Proof.
  intros Hq H. unfold lp_all in *. eapply Forall_impl; [|exact H]. cbn. intros g Hg Hl. auto.
Qed.

Lemma no_live_lp q l : no_live l -> lp_all q l.
Proof. apply lp_weaken. intros z []. Qed.

Lemma removelast_suffix_lp q (a b : list seg) : lp_all q (removelast (a ++ b)) -> lp_all q (removelast b).
Proof.
  destruct b as [|x xs]; [intros _; constructor|].
  rewrite removelast_app_ne by discriminate. intro H. apply lp_app in H. tauto.
Qed.

Lemma lp_removelast q (l : list seg) : lp_all q l -> lp_all q (removelast l).
Proof.
  unfold lp_all. induction l as [|y ys IH]; intro H; [constructor|].
  cbn [removelast]. destruct ys as [|y2 ys2]; [constructor|].
  inversion H; subst. constructor; [assumption|]. apply IH. assumption.
Qed.

Lemma removelast_prefix_lp q (a b : list seg) : lp_all q (removelast (a ++ b)) -> lp_all q (removelast a).
Proof.
  destruct b as [|x xs].
  - rewrite app_nil_r. auto.
  - rewrite removelast_app_ne by discriminate. intro H. apply lp_app in H. destruct H as [H _].
    apply lp_removelast. exact H.
Qed.

(* non-probe segments are never larger than the proven segment size (m = min_ss) *)
Definition np_le (m : Z) (l : list seg) : Prop :=
  Forall (fun g => sg_probe g = false -> sg_size g <= m) l.

Lemma ev_np m l l' : Forall2 seg_ev l l' -> np_le m l -> np_le m l'.
Proof.
  unfold np_le. induction 1 as [|x y xs ys (Hp & Hs & _ & _) _ IH]; intro H; [constructor|].
  inversion H as [|? ? Hx Hr]; subst. constructor; [|auto]. rewrite Hp, Hs. exact Hx.
Qed.

Lemma np_mono m m' l : m <= m' -> np_le m l -> np_le m' l.
Proof.
  intros Hm H. unfold np_le in *. eapply Forall_impl; [|exact H]. cbn. intros g Hg Hp.
  specialize (Hg Hp). lia.
Qed.

(* the facts about the table of one connection that are not byte accounting *)
Definition segs_aux (q : Z -> Prop) (m : Z) (l : list seg) : Prop :=
  Forall seg_time_ok l /\ no_live (removelast l) /\ lp_all q l /\ np_le m l.

Lemma aux_ev q m l l' : Forall2 seg_ev l l' -> segs_aux q m l -> segs_aux q m l'.
Proof.
  intros H (A & B & C & D). split; [eapply ev_time; eauto|].
  split; [eapply ev_lp; [apply ev_removelast; exact H|exact B]|].
  split; [eapply ev_lp; eauto|eapply ev_np; eauto].
Qed.

Lemma aux_suffix q m a b : segs_aux q m (a ++ b) -> segs_aux q m b.
Proof.
  intros (A & B & C & D). apply Forall_app in A. apply lp_app in C. apply Forall_app in D.
  split; [tauto|]. split; [eapply removelast_suffix_lp; exact B|]. split; tauto.
Qed.

Lemma aux_prefix q m a b : segs_aux q m (a ++ b) -> segs_aux q m a.
Proof.
  intros (A & B & C & D). apply Forall_app in A. apply lp_app in C. apply Forall_app in D.
  split; [tauto|]. split; [eapply removelast_prefix_lp; exact B|]. split; tauto.
Qed.

(* popping the last segment leaves no live probe at all *)
Lemma aux_pop q m a g : segs_aux q m (a ++ [g]) -> no_live a.
Proof.
  intros (_ & B & _). rewrite removelast_app_ne in B by discriminate.
  cbn [removelast] in B. rewrite app_nil_r in B. exact B.
Qed.

Lemma aux_weaken (q q' : Z -> Prop) m l : (forall z, q z -> q' z) -> segs_aux q m l -> segs_aux q' m l.
Proof. intros Hq (A & B & C & D). split; [exact A|]. split; [exact B|]. split; [eapply lp_weaken; eauto|exact D]. Qed.

Lemma aux_mono q m m' l : m <= m' -> segs_aux q m l -> segs_aux q m' l.
Proof. intros Hm (A & B & C & D). split; [exact A|]. split; [exact B|]. split; [exact C|eapply np_mono; eauto]. Qed.

Lemma aux_no_live q m l : Forall seg_time_ok l -> no_live l -> np_le m l -> segs_aux q m l.
Proof.
  intros A B D. split; [exact A|]. split; [apply lp_removelast; exact B|]. split; [apply no_live_lp; exact B|exact D].
Qed.

(* appending a never-sent segment behind a table without live probe *)
Lemma aux_enqueue (q : Z -> Prop) m l g :
  Forall seg_time_ok l -> no_live l -> np_le m l -> sg_sent g = NotSent ->
  (live_probe g = true -> q (sg_size g)) -> (sg_probe g = false -> sg_size g <= m) ->
  segs_aux q m (l ++ [g]).
Proof.
  intros A B D Hs Hq Hm. split.
  - apply Forall_app. split; [exact A|]. constructor; [|constructor].
    unfold seg_time_ok, seg_last_sent. rewrite Hs. exact I.
  - split.
    + rewrite removelast_app_ne by discriminate. cbn [removelast]. rewrite app_nil_r. exact B.
    + split.
      * apply lp_app. split; [apply no_live_lp; exact B|]. constructor; [exact Hq|constructor].
      * apply Forall_app. split; [exact D|]. constructor; [exact Hm|constructor].
Qed.

(* ------------------------------------------------------------------ remove_up_to_ack *)
Lemma apply_sack_ev : forall l bits now a l' a',
  apply_sack l bits now a = (l', a') -> Forall2 seg_ev l l'.
Proof.
  induction l as [|s r IH]; intros bits now a l' a'; cbn [apply_sack].
  - intro H; injection H as <- _. constructor.
  - destruct bits as [|b bs]; [intro H; injection H as <- _; apply ev_refl|].
    destruct (negb (sg_delivered s) && b).
    + destruct (apply_sack r bs now _) as [r' a''] eqn:E. intro H; injection H as <- _.
      constructor; [|exact (IH _ _ _ _ _ E)].
      unfold seg_ev, mark_delivered, seg_time_ok, seg_last_sent; cbn. repeat split; auto.
    + destruct (apply_sack r bs now a) as [r' a''] eqn:E. intro H; injection H as <- _.
      constructor; [apply seg_ev_refl|exact (IH _ _ _ _ _ E)].
Qed.

Lemma sack_phase_ev t rest a1 u now ack sk rest2 a2 depth lse :
  sack_phase t rest a1 u now ack sk = (rest2, a2, depth, lse) -> Forall2 seg_ev rest rest2.
Proof.
  unfold sack_phase. destruct rest as [|s0 r0]; [intro H; injection H as <- _ _ _; constructor|].
  destruct sk as [k|]; [|intro H; injection H as <- _ _ _; apply ev_refl].
  destruct (seq_gt u ack); [|intro H; injection H as <- _ _ _; apply ev_refl].
  destruct (0 <=? seq_sub (wadd16 ack 2) u).
  - destruct (apply_sack (skipn _ (s0 :: r0)) (sk_bits k) now _) as [tl' a'] eqn:Ea.
    intro H; injection H as <- _ _ _.
    rewrite <- (firstn_skipn (Z.to_nat (seq_sub (wadd16 ack 2) u)) (s0 :: r0)) at 1.
    apply ev_app; [apply ev_refl|exact (apply_sack_ev _ _ _ _ _ _ Ea)].
  - destruct (apply_sack (s0 :: r0) _ now _) as [l' a'] eqn:Ea.
    intro H; injection H as <- _ _ _. exact (apply_sack_ev _ _ _ _ _ _ Ea).
Qed.

Lemma wadd16_wadd16 u a b : wadd16 (wadd16 u (a mod M16)) (b mod M16) = wadd16 u ((a + b) mod M16).
Proof. unfold wadd16, M16. lia. Qed.

(* the structure of the table after an ACK: a prefix is gone (k segments), what stays evolved
   flag-wise, and snd_una moved by exactly k *)
Lemma remove_up_to_ack_struct t now ack sk t' r :
  remove_up_to_ack t now ack sk = (t', r) ->
  exists a b d,
    ss_segs t = a ++ b /\ Forall2 seg_ev b (d ++ ss_segs t') /\
    ar_acked_segments r = Z.of_nat (length a) + Z.of_nat (length d) /\
    ss_snd_una t' = wadd16 (ss_snd_una t) (ar_acked_segments r mod M16).
Proof.
  unfold remove_up_to_ack.
  set (dc := if 0 <=? seq_sub ack (ss_snd_una t)
             then Z.to_nat (Z.min (seq_sub ack (ss_snd_una t) + 1) (len_z (ss_segs t))) else 0%nat).
  set (a1 := drain_acc (firstn dc (ss_segs t)) now {| ac_rtt := None; ac_maxp := 0; ac_cnt := 0; ac_bytes := 0 |}).
  destruct (drain_acc_spec (firstn dc (ss_segs t)) now {| ac_rtt := None; ac_maxp := 0; ac_cnt := 0; ac_bytes := 0 |})
    as [Hc1 _]. fold a1 in Hc1. cbn [ac_cnt] in Hc1.
  destruct (sack_phase t (skipn dc (ss_segs t)) a1 _ now ack sk) as [[[rest2 a2] depth] lse] eqn:E2.
  pose proof (sack_phase_ev _ _ _ _ _ _ _ _ _ _ _ E2) as Hev.
  destruct (strip_delivered rest2 0 0) as [[rest3 cnt3] bytes3] eqn:E3.
  destruct (strip_delivered_spec _ _ _ _ _ _ E3) as (dropped & Hd & Hc3 & _ & _).
  intro H; injection H as <- <-. cbn [ss_segs ss_snd_una ar_acked_segments].
  exists (firstn dc (ss_segs t)), (skipn dc (ss_segs t)), dropped.
  split; [symmetry; apply firstn_skipn|]. split; [rewrite <- Hd; exact Hev|].
  split; [lia|].
  assert (Hdc : Z.of_nat (length (firstn dc (ss_segs t))) = Z.of_nat dc).
  { rewrite firstn_length. unfold dc, len_z. destruct (0 <=? seq_sub ack (ss_snd_una t)); lia. }
  rewrite wadd16_wadd16. f_equal. f_equal. lia.
Qed.

Lemma remove_up_to_ack_aux q m t now ack sk t' r :
  remove_up_to_ack t now ack sk = (t', r) ->
  segs_aux q m (ss_segs t) -> segs_aux q m (ss_segs t').
Proof.
  intros H Ha. destruct (remove_up_to_ack_struct _ _ _ _ _ _ H) as (a & b & d & E & Hev & _).
  rewrite E in Ha. apply aux_suffix in Ha. apply (aux_ev _ _ _ _ Hev) in Ha.
  eapply aux_suffix; exact Ha.
Qed.

(* ------------------------------------------------------------------ calc_pipe / on_sent *)
Lemma pipe_loop_ev : forall l t hr th now a l' a',
  pipe_loop l t hr th now a = (l', a') -> Forall2 seg_ev (map snd l) l'.
Proof.
  induction l as [|[off s] r IH]; intros t hr th now a l' a'; cbn [pipe_loop].
  - intro H; injection H as <- _. constructor.
  - destruct (seg_last_sent s) eqn:Els.
    + destruct (sg_delivered s) eqn:Ed.
      * destruct (pipe_loop r t hr th now _) as [r' a''] eqn:E. intro H; injection H as <- _.
        cbn [map snd]. constructor; [apply seg_ev_refl|exact (IH _ _ _ _ _ _ _ E)].
      * destruct (pipe_loop r t hr th now _) as [r' a''] eqn:E. intro H; injection H as <- _.
        cbn [map snd]. constructor; [|exact (IH _ _ _ _ _ _ _ E)].
        unfold seg_ev, seg_time_ok, seg_last_sent; cbn. repeat split; auto; congruence.
    + destruct (pipe_loop r t hr th now a) as [r' a''] eqn:E. intro H; injection H as <- _.
      cbn [map snd]. constructor; [apply seg_ev_refl|exact (IH _ _ _ _ _ _ _ E)].
Qed.

Lemma Forall2_rev {A B} (R : A -> B -> Prop) : forall l l', Forall2 R l l' -> Forall2 R (rev l) (rev l').
Proof.
  induction 1 as [|x y xs ys Hxy _ IH]; [constructor|].
  cbn [rev]. apply Forall2_app; [exact IH|]. constructor; [exact Hxy|constructor].
Qed.

Lemma calc_pipe_ev t hr hd rtt now t' p rc :
  calc_pipe t hr hd rtt now = Some (t', p, rc) ->
  Forall2 seg_ev (ss_segs t) (ss_segs t') /\ ss_snd_una t' = ss_snd_una t /\
  ss_removed t' = ss_removed t /\ ss_offset t' = ss_offset t.
Proof.
  unfold calc_pipe. destruct (_ <? _); [discriminate|].
  destruct (pipe_loop _ t hr _ now _) as [upd a] eqn:E. intro H; injection H as <- _ _.
  unfold Segments.set_segs; cbn [ss_segs ss_snd_una ss_removed ss_offset].
  split; [|auto].
  apply pipe_loop_ev in E. rewrite map_rev, enum_from_snd in E.
  apply Forall2_rev in E. rewrite rev_involutive in E.
  rewrite <- (firstn_skipn (Z.to_nat (Z.min (Z.max (seq_sub hd (ss_snd_una t)) 0) (len_z (ss_segs t)))) (ss_segs t)) at 1.
  apply ev_app; [exact E|apply ev_refl].
Qed.

(* calc_pipe never panics (repair of D21: `take` is clamped to the table length) *)
Lemma calc_pipe_some t hr hd rtt now : exists t' p rc, calc_pipe t hr hd rtt now = Some (t', p, rc).
Proof.
  pose proof (calc_pipe_total t hr hd rtt now) as H.
  destruct (calc_pipe t hr hd rtt now) as [[[t' p] rc]|]; [eauto|congruence].
Qed.

Lemma update_nth_ev (f : seg -> seg) : (forall g, seg_ev g (f g)) ->
  forall l n, Forall2 seg_ev l (update_nth l n f).
Proof.
  intros Hf. induction l as [|x xs IH]; intros [|n]; cbn [update_nth]; try constructor;
    auto using seg_ev_refl, ev_refl.
Qed.

Lemma on_sent_ev t idx now : 0 <= now -> Forall2 seg_ev (ss_segs t) (ss_segs (on_sent t idx now)).
Proof.
  intro Hn. unfold on_sent, Segments.set_segs; cbn [ss_segs]. apply update_nth_ev.
  intro g. unfold seg_ev, seg_on_sent, seg_time_ok, seg_last_sent; cbn.
  repeat split; auto. intros _. destruct (sg_sent g); exact Hn.
Qed.

(* ------------------------------------------------------------------ connection level *)
Section PollAux.
Context {CC : Type} (cci : cc_iface CC).
Notation vsock := (vsock CC).
Notation step := (@step CC).
Variable strict : bool.

(* like VSock_Inv.sp, but the state of an error exit satisfies E *)
Definition spx {A} (m : step A) (Q : vsock -> A -> Prop) (E : vsock -> Prop) : Prop :=
  match m with SOk s a => Q s a | SErr s e => allowed strict e /\ E s | SPanic => False end.

Lemma spx_bind {A B} (m : step A) (f : vsock -> A -> step B) (Q1 : vsock -> A -> Prop)
  (Q2 : vsock -> B -> Prop) (E : vsock -> Prop) :
  spx m Q1 E -> (forall s a, Q1 s a -> spx (f s a) Q2 E) -> spx (sbind m f) Q2 E.
Proof. destruct m as [s a|s e|]; cbn [spx sbind]; auto. Qed.

Lemma spx_weaken {A} (m : step A) (Q1 Q2 : vsock -> A -> Prop) (E1 E2 : vsock -> Prop) :
  spx m Q1 E1 -> (forall s a, Q1 s a -> Q2 s a) -> (forall s, E1 s -> E2 s) -> spx m Q2 E2.
Proof. destruct m as [s a|s e|]; cbn [spx]; intuition. Qed.

Lemma spx_sp {A} (m : step A) Q E : spx m Q E -> sp strict m Q.
Proof. destruct m as [s a|s e|]; cbn [spx sp]; tauto. Qed.

(* ---- the extended invariant: byte accounting (vs_inv_p) + the per-segment facts + the clock ---- *)
Definition sx (q : Z -> Prop) (s : vsock) : Prop :=
  segs_aux q (min_ss (v_ss s)) (ss_segs (v_segs s)) /\ 0 <= v_now s <= SAMPLE_BOUND.

Definition vs_x (ti tm p : Z) (q : Z -> Prop) (s : vsock) : Prop :=
  vs_inv_p ti tm p s /\ sx q s.

(* the state of an error exit: acknowledged bytes may still be in the ring *)
Definition vs_xe (ti tm : Z) (q : Z -> Prop) (s : vsock) : Prop := exists p, vs_x ti tm p q s.

Lemma x_xe ti tm p q s : vs_x ti tm p q s -> vs_xe ti tm q s.
Proof. intro H. exists p. exact H. Qed.

Lemma x_same_core ti tm p q s s' : vs_x ti tm p q s -> same_core s s' -> vs_x ti tm p q s'.
Proof.
  intros [H1 [H2 H3]] Hc. split; [eapply inv_same_core; eauto|].
  destruct Hc as (_ & _ & E3 & E4 & _ & _ & _ & _ & _ & _ & _ & E12 & _).
  unfold sx. rewrite E3, E4, E12. auto.
Qed.

Lemma x_weaken ti tm p (q q' : Z -> Prop) s : (forall z, q z -> q' z) -> vs_x ti tm p q s -> vs_x ti tm p q' s.
Proof. intros Hq [H1 [H2 H3]]. split; [exact H1|]. split; [eapply aux_weaken; eauto|exact H3]. Qed.

(* segment-size monotonicity: min_ss only grows, max_ss only shrinks *)
Definition ss_mono (a b : segsizes) : Prop := max_ss b <= max_ss a /\ min_ss a <= min_ss b.
Lemma ss_mono_refl a : ss_mono a a.
Proof. unfold ss_mono; lia. Qed.
Lemma ss_mono_trans a b c : ss_mono a b -> ss_mono b c -> ss_mono a c.
Proof. unfold ss_mono; lia. Qed.

(* ---- control packets, with the error state ---- *)
Definition ctl_rel (s s' : vsock) : Prop :=
  send_frame s s' /\ v_seq_nr s' = v_seq_nr s /\ v_env_now s' = v_env_now s.

Lemma ctl_refl s : ctl_rel s s.
Proof. split; [apply send_frame_refl|]. split; reflexivity. Qed.

Lemma ctl_trans a b c : ctl_rel a b -> ctl_rel b c -> ctl_rel a c.
Proof.
  intros (A1 & A2 & A3) (B1 & B2 & B3). split; [eapply send_frame_trans; eauto|]. split; congruence.
Qed.

Lemma next_send_ctl (s : vsock) size s1 o :
  next_send s size = (s1, o) ->
  ctl_rel s s1 /\ v_last_sent_seq_nr s1 = v_last_sent_seq_nr s /\ (emsg_free s -> o <> TEmsgsize).
Proof.
  intro H. destruct (next_send_core _ _ _ _ H) as (Hc & Hl & _ & Hr & Hf).
  destruct (next_send_shape _ _ _ _ H) as [[[-> _]|(o0 & r & _ & ->)] _].
  - split; [apply ctl_refl|]. split; [reflexivity|]. intro He. apply Hf. exact He.
  - split; [|split; [exact Hl|intro He; apply Hf; exact He]].
    split; [split; [exact Hc|split; [intro He; apply Hf; exact He|exact Hr]]|]. vsimpl. split; reflexivity.
Qed.

Lemma send_control_packet_x (s : vsock) h :
  spx (send_control_packet s h)
      (fun s' _ => ctl_rel s s' /\ v_last_sent_seq_nr s' = v_last_sent_seq_nr s)
      (fun s' => ctl_rel s s' /\ v_last_sent_seq_nr s' = v_last_sent_seq_nr s).
Proof.
  unfold send_control_packet.
  destruct (v_transport_pending s); [cbn [spx]; split; [apply ctl_refl|reflexivity]|].
  destruct (next_send s _) as [s1 o] eqn:E.
  destruct (next_send_ctl _ _ _ _ E) as (Hc & Hl & Hf).
  assert (Hfr : forall s2, same_core s1 s2 -> v_sends s2 = v_sends s1 -> v_restart s2 = v_restart s1 ->
                  v_seq_nr s2 = v_seq_nr s1 -> v_env_now s2 = v_env_now s1 ->
                  v_last_sent_seq_nr s2 = v_last_sent_seq_nr s1 ->
                  ctl_rel s s2 /\ v_last_sent_seq_nr s2 = v_last_sent_seq_nr s).
  { intros s2 K1 K2 K3 K4 K5 K6. split; [|congruence].
    eapply ctl_trans; [exact Hc|]. split; [|split; assumption].
    split; [exact K1|]. split; [|exact K3].
    unfold emsg_free. destruct K1 as (_&_&_&_&_&_&_&_&_&_&Ke&_). rewrite K2, Ke. auto. }
  destruct o; cbn [spx allowed].
  - apply Hfr; unfold on_packet_sent, emit, same_core; vsimpl; repeat split.
  - apply Hfr; unfold same_core; vsimpl; repeat split.
  - split; [exact I|]. split; [exact Hc|exact Hl].
  - split; [exact I|]. split; [exact Hc|exact Hl].
Qed.

Lemma send_ack_x (s : vsock) :
  spx (send_ack s)
      (fun s' _ => ctl_rel s s' /\ v_last_sent_seq_nr s' = v_last_sent_seq_nr s)
      (fun s' => ctl_rel s s' /\ v_last_sent_seq_nr s' = v_last_sent_seq_nr s).
Proof. unfold send_ack. apply send_control_packet_x. Qed.

(* maybe_send_fin: last_sent_seq_nr either stays or becomes our (unacknowledged) FIN, and then
   only from the value just before it *)
Lemma maybe_send_fin_x (s : vsock) :
  spx (maybe_send_fin s)
      (fun s' _ => ctl_rel s s' /\
         (v_last_sent_seq_nr s' = v_last_sent_seq_nr s \/
          exists f, our_fin_if_unacked (v_state s) = Some f /\ seq_sub f (v_last_sent_seq_nr s) = 1 /\
                    v_last_sent_seq_nr s' = f))
      (fun s' => ctl_rel s s' /\ v_last_sent_seq_nr s' = v_last_sent_seq_nr s).
Proof.
  unfold maybe_send_fin.
  destruct (v_transport_pending s); [cbn [spx]; split; [apply ctl_refl|left; reflexivity]|].
  destruct (our_fin_if_unacked (v_state s)) as [f|] eqn:Ef; [|cbn [spx]; split; [apply ctl_refl|left; reflexivity]].
  destruct (Z.eqb_spec (seq_sub f (v_last_sent_seq_nr s)) 1) as [E1|E1]; cbn [negb];
    [|cbn [spx]; split; [apply ctl_refl|left; reflexivity]].
  eapply spx_bind; [apply send_control_packet_x|].
  intros s1 sent [Hc Hl]. destruct sent; cbn [spx]; [|split; [exact Hc|left; exact Hl]].
  split.
  - eapply ctl_trans; [exact Hc|]. split; [|vsimpl; split; reflexivity].
    unfold send_frame, same_core, emsg_free. vsimpl. repeat split; tauto.
  - right. exists f. vsimpl. auto.
Qed.

(* ---- the state table ---- *)
Definition tbl_st (r : table_res (CC:=CC)) : vsock :=
  match r with TblDrop s1 | TblErr s1 _ | TblContinue s1 => s1 end.

(* the sequence number our FIN has, or would get if the connection were closed now *)
Definition fin_cand (s : vsock) : option Z :=
  match v_state s with
  | FinWait1 f | LastAck f _ => Some f
  | FinWait2 | Closed => None
  | _ => Some (v_seq_nr s)
  end.

Definition tbl_rel (s s1 : vsock) : Prop :=
  v_rx s1 = v_rx s /\ v_tx s1 = v_tx s /\ v_segs s1 = v_segs s /\ v_ss s1 = v_ss s /\
  v_rtte s1 = v_rtte s /\ v_recovery s1 = v_recovery s /\ v_opts s1 = v_opts s /\
  v_inbox s1 = v_inbox s /\ v_inbox_closed s1 = v_inbox_closed s /\
  v_emsg_limit s1 = v_emsg_limit s /\ v_now s1 = v_now s /\ v_cc s1 = v_cc s /\
  v_last_remote_window s1 = v_last_remote_window s /\ v_sends s1 = v_sends s /\
  v_restart s1 = v_restart s /\ v_last_sent_seq_nr s1 = v_last_sent_seq_nr s /\
  v_env_now s1 = v_env_now s /\ v_transport_pending s1 = v_transport_pending s /\
  (v_state s1 <> Closed -> v_state s <> Closed) /\
  (fin_cand s1 = None \/ fin_cand s1 = fin_cand s).

Lemma state_table_rel (s : vsock) h : tbl_rel s (tbl_st (state_table s h)).
Proof.
  unfold state_table, restart_remote_inactivity_timer, tbl_rel, fin_cand.
  destruct (ch_type h); destruct (v_state s) eqn:Est; cbn [tbl_st negb];
    repeat (match goal with |- context [if ?c then _ else _] => destruct c end);
    cbn [tbl_st]; vsimpl; rewrite ?Est; repeat split; auto; try congruence.
Qed.

Lemma state_table_err (s : vsock) h s1 e :
  v_state s <> SynReceived -> state_table s h = TblErr s1 e -> e = ErrStResetReceived /\ v_state s1 = Closed.
Proof.
  intros Hs. unfold state_table.
  destruct (ch_type h); destruct (v_state s) eqn:Est; try congruence;
    repeat match goal with
    | |- context [if ?c then _ else _] => destruct c
    end; intro H; inversion H; subst; vsimpl; auto.
Qed.

Lemma x_tbl ti tm p q (s s1 : vsock) : vs_x ti tm p q s -> tbl_rel s s1 -> vs_x ti tm p q s1.
Proof.
  intros [H1 [H2 H3]] (E1&E2&E3&E4&E5&E6&E7&_&_&_&E11&_&_&_&_&_&_&_&Hst&_).
  split.
  - eapply inv_update; [exact H1|..]; rewrite ?E3, ?E4, ?E5, ?E6; try assumption; try reflexivity; try lia;
      apply (inv_parts _ _ _ _ H1).
  - unfold sx. rewrite E3, E4, E11. auto.
Qed.

End PollAux.

(* Reusable Hoare-style lemmas about the connection model (Conn/VSock.v).
   - tactics: [break_match], [break_let]
   - [frame]: what NO function called by poll_body changes / how the monotone parts move
     (options, clocks, mss never decreases, v_out only grows, the delayed-ACK timer is touched
     only together with an emission — except by maybe_send_ack, which is not covered by [frame])
   - inversion lemmas for the [pend]/[bail] combinators of poll_body. *)
From Utp Require Import Base.Prelude Wire.SeqNr Wire.Header Rtt.Rtte Mtu.SegSizes Rx.Rx Tx.Ring
  Tx.Segments Conn.Recovery Conn.Msg Conn.VSockRec Conn.VSock Conn.VSockRun Conn.VObs.

Arguments SOk {CC A}. Arguments SErr {CC A}. Arguments SPanic {CC A}.

(* [vsimpl] on the goal only (vsimpl rewrites every hypothesis, which makes Qed slow) *)
Ltac vsimpl_goal := cbn [v_state v_t_retransmit v_t_inactivity v_t_ack_delay v_t_recovery_pipe v_t_syn_ack_resend v_last_remote_timestamp v_last_remote_window v_seq_nr v_rto_retransmissions v_last_sent_seq_nr v_last_consumed v_last_sent_ack_nr v_last_sent_window v_cbu v_inbox v_inbox_closed v_inbox_waker v_rx v_tx v_segs v_ss v_rtte v_cc v_recovery v_now v_transport_pending v_restart v_unsegmented v_env_now v_sends v_emsg_limit v_out v_wakes v_arm_in v_opts v_conn_id_send v_socket_created set_state set_t_retransmit set_t_inactivity set_t_ack_delay set_t_recovery_pipe set_t_syn_ack_resend set_last_remote_timestamp set_last_remote_window set_seq_nr set_rto_retransmissions set_last_sent_seq_nr set_last_consumed set_last_sent_ack_nr set_last_sent_window set_cbu set_inbox set_inbox_closed set_inbox_waker set_rx set_tx set_segs set_ss set_rtte set_cc set_recovery set_now set_transport_pending set_restart set_unsegmented set_env_now set_sends set_emsg_limit set_out set_wakes set_arm_in set_opts set_conn_id_send set_socket_created].

Ltac break_match :=
  match goal with
  | |- context [match ?x with _ => _ end] =>
      lazymatch x with
      | context [match _ with _ => _ end] => fail
      | _ => destruct x eqn:?
      end
  end.

Ltac break_match_hyp H :=
  match type of H with
  | context [match ?x with _ => _ end] =>
      lazymatch x with
      | context [match _ with _ => _ end] => fail
      | _ => destruct x eqn:?
      end
  end.

(* ------------------------------------------------------------------ SegSizes: mss is monotone *)
Lemma mss_on_payload_delivered : forall ss n, mss ss <= mss (on_payload_delivered ss n).
Proof. intros. unfold mss, on_payload_delivered; cbn [min_ss]. lia. Qed.

Lemma mss_on_probe_failed : forall ss n, mss (on_probe_failed ss n) = mss ss.
Proof. reflexivity. Qed.

Lemma mss_disarm_cooldown : forall ss, mss (disarm_cooldown ss) = mss ss.
Proof. reflexivity. Qed.

Lemma mss_next_segment_size : forall ss ss1 sz,
  next_segment_size ss = Some (ss1, sz) -> mss ss1 = mss ss.
Proof.
  intros ss ss1 sz H. unfold next_segment_size in H.
  destruct (cd_rem ss =? 0).
  - unfold bind in H. destruct (next_probe _); inversion H; reflexivity.
  - inversion H; reflexivity.
Qed.

Lemma mss_ss_new_pos : forall c, 1 <= mss (ss_new c).
Proof.
  intros c. unfold mss, ss_new, ss_calc, clamped_link_mtu, default_min_mtu, ip_header,
    IPV4_HEADER, IPV6_HEADER, UDP_HEADER, UTP_HEADER; cbn [min_ss].
  destruct (cfg_ipv4 c); lia.
Qed.

Section WithCC.
Context {CC : Type} (cci : cc_iface CC).
Notation vsock := (vsock CC).

(* ------------------------------------------------------------------ frame *)
Definition frame (s s' : vsock) : Prop :=
  v_opts s' = v_opts s /\
  v_env_now s' = v_env_now s /\
  v_now s' = v_now s /\
  v_socket_created s' = v_socket_created s /\
  mss (v_ss s) <= mss (v_ss s') /\
  exists l, v_out s' = l ++ v_out s /\ (l = [] -> v_t_ack_delay s' = v_t_ack_delay s).

Lemma frame_refl : forall s, frame s s.
Proof. intros s. unfold frame. repeat split; try lia. exists []. split; auto. Qed.

Lemma frame_trans : forall a b c, frame a b -> frame b c -> frame a c.
Proof.
  intros a b c (A1 & A2 & A3 & A4 & A5 & l1 & A6 & A7) (B1 & B2 & B3 & B4 & B5 & l2 & B6 & B7).
  unfold frame. repeat split; try congruence; try lia.
  exists (l2 ++ l1). split.
  - rewrite B6, A6. apply app_assoc.
  - intros E. apply app_eq_nil in E. destruct E as [E2 E1]. rewrite B7, A7; auto.
Qed.

Lemma frame_ext : forall s a b : vsock, frame s a ->
  v_opts b = v_opts a -> v_env_now b = v_env_now a -> v_now b = v_now a ->
  v_socket_created b = v_socket_created a -> mss (v_ss a) <= mss (v_ss b) ->
  v_out b = v_out a -> v_t_ack_delay b = v_t_ack_delay a -> frame s b.
Proof.
  intros s a b (A1 & A2 & A3 & A4 & A5 & l & A6 & A7) B1 B2 B3 B4 B5 B6 B7.
  unfold frame. repeat split; try congruence; try lia.
  exists l. split; [congruence|]. intros E. rewrite B7. auto.
Qed.

Lemma frame_ext_eq : forall s a b : vsock, frame s a ->
  v_opts b = v_opts a -> v_env_now b = v_env_now a -> v_now b = v_now a ->
  v_socket_created b = v_socket_created a -> v_ss b = v_ss a ->
  v_out b = v_out a -> v_t_ack_delay b = v_t_ack_delay a -> frame s b.
Proof.
  intros s a b F B1 B2 B3 B4 B5 B6 B7. apply (frame_ext s a b); auto. rewrite B5. apply Z.le_refl.
Qed.

Definition step_frame {A} (s : vsock) (m : step A) : Prop :=
  match m with
  | SOk s' _ => frame s s'
  | SErr s' _ => frame s s'
  | SPanic => True
  end.

Lemma step_frame_sbind : forall A B (m : step A) (f : vsock -> A -> step B) s,
  step_frame s m -> (forall s1 a, step_frame s1 (f s1 a)) -> step_frame s (sbind m f).
Proof.
  intros A B m f s Hm Hf. destruct m as [s1 a| |]; cbn [sbind]; auto.
  specialize (Hf s1 a). cbn [step_frame] in Hm.
  destruct (f s1 a); cbn [step_frame] in *; auto; eapply frame_trans; eauto.
Qed.

(* solve [frame s (setters s)] when v_out / v_t_ack_delay / v_ss / clocks are untouched *)
Ltac frame_same :=
  unfold frame; vsimpl;
  repeat split; try reflexivity; try lia; try (exists []; split; [reflexivity | reflexivity]).


(* ------------------------------------------------------------------ sending *)
Lemma next_send_frame : forall (s : vsock) n s1 o, next_send s n = (s1, o) -> frame s s1.
Proof.
  intros s n s1 o H. unfold next_send in H.
  repeat break_match_hyp H; inversion H; subst; try inversion Heqp; subst; frame_same.
Qed.

Lemma frame_emit_sent : forall (s s1 : vsock) p h,
  frame s s1 -> frame s (on_packet_sent (emit s1 p) h).
Proof.
  intros s s1 p h (A1 & A2 & A3 & A4 & A5 & l & A6 & A7).
  unfold frame, on_packet_sent, emit; vsimpl. repeat split; auto.
  exists (p :: l). split.
  - rewrite A6. reflexivity.
  - intros E; discriminate E.
Qed.

Lemma send_control_packet_frame : forall (s : vsock) h, step_frame s (send_control_packet s h).
Proof.
  intros s h. unfold send_control_packet.
  destruct (v_transport_pending s); [apply frame_refl|].
  destruct (next_send s _) as [s1 o] eqn:E. apply next_send_frame in E.
  destruct o; cbn [step_frame]; auto.
  apply frame_emit_sent; auto.
Qed.

Lemma send_ack_frame : forall (s : vsock), step_frame s (send_ack s).
Proof. intros s. unfold send_ack. apply send_control_packet_frame. Qed.

Lemma maybe_send_fin_frame : forall (s : vsock), step_frame s (maybe_send_fin s).
Proof.
  intros s. unfold maybe_send_fin.
  destruct (v_transport_pending s); [apply frame_refl|].
  destruct (our_fin_if_unacked (v_state s)); [|apply frame_refl].
  destruct (negb _); [apply frame_refl|].
  apply step_frame_sbind; [apply send_control_packet_frame|].
  intros s1 [|]; cbn [step_frame]; [frame_same | apply frame_refl].
Qed.

Lemma send_data_frame : forall (s : vsock) h f, step_frame s (send_data s h f).
Proof.
  intros s h f. unfold send_data.
  destruct (_ =? o_max_retx _); [apply frame_refl|].
  destruct (_ <? 0); [exact I|].
  destruct (_ <? fs_payload_offset f); [apply frame_refl|].
  destruct (_ <? _ + _); [apply frame_refl|].
  destruct (next_send s _) as [s1 o] eqn:E. apply next_send_frame in E.
  destruct o; cbn [step_frame]; auto.
  match goal with |- context [emit s1 ?p] =>
    match goal with |- context [on_packet_sent _ ?hd] =>
      pose proof (frame_emit_sent s s1 p hd E) as F end end.
  destruct (seq_gt _ _); try destruct (seq_gt _ _); exact F.
Qed.

Lemma on_rto_reactions_frame : forall (s s1 : vsock), on_rto_reactions cci s = Some s1 -> frame s s1.
Proof.
  intros s s1 H. unfold on_rto_reactions in H.
  destruct (Rtte.on_rto_timeout _); inversion H; subst. exact (frame_refl s).
Qed.

Lemma recovery_loop_frame : forall items (s : vsock) h mss0 st,
  step_frame s (recovery_loop items s h mss0 st).
Proof.
  induction items as [|f rest IH]; intros s h mss0 st; cbn [recovery_loop].
  - apply frame_refl.
  - destruct (negb _); [apply frame_refl|].
    destruct (_ && negb (sg_lost _)); [apply IH|].
    destruct (_ && negb (sg_sacks_after _)); [apply frame_refl|].
    pose proof (send_data_frame s h f) as F.
    destruct (send_data s h f) as [s1 r|s1 e|]; cbn [step_frame] in *; auto.
    destruct r; cbn [step_frame]; auto.
    match goal with |- context [recovery_loop rest s1 h mss0 ?st'] =>
      specialize (IH s1 h mss0 st'); destruct (recovery_loop rest s1 h mss0 st') end;
      cbn [step_frame] in *; auto; eapply frame_trans; eauto.
Qed.

Lemma new_data_loop_frame : forall items (s : vsock) h remaining,
  step_frame s (new_data_loop items s h remaining).
Proof.
  induction items as [|f rest IH]; intros s h remaining; cbn [new_data_loop].
  - apply frame_refl.
  - destruct (_ <? _); [apply frame_refl|].
    pose proof (send_data_frame s h f) as F.
    destruct (send_data s h f) as [s1 r|s1 e|]; cbn [step_frame] in *; auto.
    destruct r; cbn [step_frame]; auto.
    match goal with |- context [new_data_loop rest s1 h ?r'] =>
      specialize (IH s1 h r'); destruct (new_data_loop rest s1 h r') end;
      cbn [step_frame] in *; auto; eapply frame_trans; eauto.
Qed.

(* goal [frame s b] from [H : frame s a] where b differs from a in untouched fields only *)
Ltac fr_via H :=
  first [ eapply frame_ext_eq; [exact H | exact eq_refl ..]
        | eapply frame_ext; [exact H | first [exact eq_refl | vsimpl_goal; first [lia | assumption]] ..] ].

Ltac fr_leaf :=
  cbn [step_frame];
  first [ exact I
        | match goal with |- frame ?a _ => exact (frame_refl a) end
        | assumption
        | match goal with H : frame _ ?b |- frame ?a _ =>
            apply (frame_trans a b); [exact H | fr_leaf] end ].

(* pose the frame fact of a sub-call, then destruct the call *)
Ltac fr_call :=
  match goal with
  | |- context [send_data ?s ?h ?f] =>
      let F := fresh "F" in pose proof (send_data_frame s h f) as F;
      destruct (send_data s h f); cbn [step_frame] in F
  | |- context [maybe_send_fin ?s] =>
      let F := fresh "F" in pose proof (maybe_send_fin_frame s) as F;
      destruct (maybe_send_fin s); cbn [step_frame] in F
  | |- context [send_ack ?s] =>
      let F := fresh "F" in pose proof (send_ack_frame s) as F;
      destruct (send_ack s); cbn [step_frame] in F
  | |- context [send_control_packet ?s ?h] =>
      let F := fresh "F" in pose proof (send_control_packet_frame s h) as F;
      destruct (send_control_packet s h); cbn [step_frame] in F
  | |- context [recovery_loop ?i ?s ?h ?m ?st] =>
      let F := fresh "F" in pose proof (recovery_loop_frame i s h m st) as F;
      destruct (recovery_loop i s h m st); cbn [step_frame] in F
  | |- context [new_data_loop ?i ?s ?h ?r] =>
      let F := fresh "F" in pose proof (new_data_loop_frame i s h r) as F;
      destruct (new_data_loop i s h r); cbn [step_frame] in F
  | |- context [on_rto_reactions cci ?s] =>
      let F := fresh "F" in
      destruct (on_rto_reactions cci s) eqn:F; [apply on_rto_reactions_frame in F|]
  end.

Ltac fr_auto :=
  repeat first [ fr_call | progress cbn [sbind] | break_match ]; fr_leaf.

Lemma send_tx_queue_frame : forall (s : vsock), step_frame s (send_tx_queue cci s).
Proof.
  intros s. unfold send_tx_queue.
  destruct (v_transport_pending s); [exact (frame_refl s)|].
  apply step_frame_sbind.
  - fr_auto.
  - intros t ret.
    destruct ret; [exact (frame_refl t)|].
    destruct (0 <? _); [exact (frame_refl t)|].
    destruct (ss_segs (v_segs t)) eqn:Esegs; [exact (frame_refl t)|].
    apply step_frame_sbind.
    + destruct (rv_phase (v_recovery t)); try exact (frame_refl t).
      apply step_frame_sbind.
      * apply recovery_loop_frame.
      * intros s1 [st early]. unfold set_recovering. fr_auto.
    + intros t2 ret. destruct ret; [exact (frame_refl t2)|].
      apply step_frame_sbind.
      * apply new_data_loop_frame.
      * intros s1 too_long. fr_auto.
Qed.

(* ------------------------------------------------------------------ segmentation *)
Lemma segment_loop_mss : forall fuel nagle ss segs rem rwr ss' segs' rem',
  segment_loop fuel nagle ss segs rem rwr = Some (ss', segs', rem') -> mss ss' = mss ss.
Proof.
  induction fuel as [|x fuel IH]; intros nagle ss segs rem rwr ss' segs' rem' H; cbn [segment_loop] in H.
  - inversion H; reflexivity.
  - destruct (_ && _); [|inversion H; reflexivity].
    destruct (next_segment_size ss) as [[ss1 sz]|] eqn:E; [|discriminate].
    apply mss_next_segment_size in E.
    destruct (_ && _ && _); [inversion H; subst; exact E|].
    destruct (mss ss1 <? _); [inversion H; subst; exact E|].
    apply IH in H. congruence.
Qed.

Lemma frame_set_ss : forall (s : vsock) ss, mss (v_ss s) <= mss ss -> frame s (set_ss s ss).
Proof. intros s ss H. unfold frame; vsimpl. repeat split; auto. exists []; split; auto. Qed.

Lemma split_tx_queue_into_segments_frame : forall (s : vsock),
  step_frame s (split_tx_queue_into_segments cci s).
Proof.
  intros s. unfold split_tx_queue_into_segments.
  destruct (_ =? 0); [exact (frame_refl s)|].
  match goal with |- context [is_remote_fin_or_later (v_state ?x)] => set (s1 := x) end.
  assert (F1 : frame s s1).
  { subst s1. destruct (_ && _); [|exact (frame_refl s)].
    destruct (grow _ _) as [tx1 g]. destruct g; [destruct (wake_writer tx1)|]; exact (frame_refl s). }
  clearbody s1.
  destruct (is_remote_fin_or_later _); [exact F1|].
  destruct (pop_expired_mtu_probe _ _ _) as [segs1 pe].
  assert (Hcont : forall s2 : vsock, frame s s2 ->
    step_frame s
      (if Z.of_nat (length (ring (v_tx s))) <? ss_len_bytes (v_segs s2)
       then SErr s2 (ErrBug BugInBufferComputations)
       else match segment_loop (ring (v_tx s2)) (o_nagle (v_opts s2)) (v_ss s2) (v_segs s2)
                    (Z.of_nat (length (ring (v_tx s))) - ss_len_bytes (v_segs s2))
                    (v_last_remote_window s2) with
            | Some (ss', segs', remaining) =>
                SOk (set_unsegmented (VSockRec.set_segs (set_ss s2 ss') segs') remaining) tt
            | None => SPanic
            end)).
  { intros s2 F2. destruct (_ <? _); [exact F2|].
    destruct (segment_loop _ _ _ _ _ _) as [[[ss' segs'] rem']|] eqn:E; [|exact I].
    apply segment_loop_mss in E. cbn [step_frame].
    apply (frame_trans s s2); [exact F2|].
    apply (frame_set_ss s2 ss'). lia. }
  destruct pe.
  - apply Hcont. destruct (seq_gt _ _); exact F1.
  - exact F1.
  - apply Hcont. exact F1.
Qed.

(* ------------------------------------------------------------------ death, transitions *)
Lemma mark_both_closed_frame : forall (s : vsock), frame s (mark_both_closed s).
Proof.
  intros s. unfold mark_both_closed.
  destruct (rx_mark_vsock_closed _); destruct (mark_vsock_closed _). exact (frame_refl s).
Qed.

Lemma just_before_death_frame : forall (s : vsock) e, frame s (just_before_death s e).
Proof.
  intros s e. unfold just_before_death.
  match goal with |- context [mark_both_closed ?x] => set (s1 := x) end.
  assert (F1 : frame s s1).
  { subst s1. destruct e; [destruct (rx_enqueue_error _)|]; exact (frame_refl s). }
  clearbody s1.
  pose proof (mark_both_closed_frame s1) as F2.
  destruct e; [|fr_leaf].
  destruct (negb _); [|fr_leaf].
  fr_auto.
Qed.

Lemma transition_to_fin_wait_1_frame : forall (s : vsock), frame s (transition_to_fin_wait_1 s).
Proof. intros s. unfold transition_to_fin_wait_1. destruct (v_state s); exact (frame_refl s). Qed.

(* ------------------------------------------------------------------ incoming messages *)
Definition table_frame (s : vsock) (r : table_res) : Prop :=
  match r with TblDrop s1 | TblErr s1 _ | TblContinue s1 => frame s s1 end.

Lemma state_table_frame : forall (s : vsock) h, table_frame s (state_table s h).
Proof.
  intros s h. unfold state_table, restart_remote_inactivity_timer.
  repeat break_match; cbn [table_frame]; exact (frame_refl s).
Qed.

Lemma process_incoming_message_frame : forall (s : vsock) m,
  step_frame s (process_incoming_message cci s m).
Proof.
  intros s m. unfold process_incoming_message.
  pose proof (state_table_frame s (m_hdr m)) as T.
  destruct (state_table s (m_hdr m)) as [s1|s1 e|s1]; cbn [table_frame step_frame] in *; auto.
  destruct (remove_up_to_ack _ _ _ _) as [segs1 res].
  match goal with |- context [on_payload_delivered (v_ss s1) ?n] =>
    pose proof (mss_on_payload_delivered (v_ss s1) n) as M1; set (ss1 := on_payload_delivered (v_ss s1) n) in * end.
  destruct (match is_recovering _, _ with | false, Some rtt => _ | _, _ => _ end) as [rtte1|]; [|exact I].
  destruct (cc_on_ack _ _ _ _ _) as [cc3|]; [|exact I].
  destruct (recovery_on_ack _ _ _ _ _ _ _ _) as [[[rec1 segs2] cc4]|]; [|exact I].
  match goal with |- context [seq_sub _ (wadd16 (v_last_consumed ?x) 1)] => set (s2 := x) end.
  assert (F2 : frame s s2) by (subst s2; fr_via T).
  clearbody s2.
  destruct (ch_type (m_hdr m)); try exact F2.
  - (* ST_DATA *)
    destruct (_ <? 0); [unfold force_immediate_ack; cbn [step_frame]; fr_via F2|].
    match goal with |- context [on_payload_delivered (v_ss s2) ?n] =>
      pose proof (mss_on_payload_delivered (v_ss s2) n) as M2; set (ss2 := on_payload_delivered (v_ss s2) n) in * end.
    match goal with |- context [rx_add_remove (v_rx ?x)] => set (s3 := x) end.
    assert (F3 : frame s s3) by (subst s3; fr_via F2).
    clearbody s3.
    destruct (rx_add_remove _ _ _ _) as [[rx1 ar] w].
    destruct ar as [r|]; [|exact I].
    destruct (add_err r); [cbn [step_frame]; unfold add_wakes; fr_via F3|].
    match goal with |- context [send_ack (force_immediate_ack ?x)] => set (s5 := x) end.
    assert (F5 : frame s s5).
    { subst s5. unfold restart_remote_inactivity_timer, add_wakes. destruct r; fr_via F3. }
    clearbody s5.
    destruct (_ || _); [|exact F5].
    assert (F6 : frame s (force_immediate_ack s5)) by (unfold force_immediate_ack; fr_via F5).
    set (s6 := force_immediate_ack s5) in *. clearbody s6.
    cbn [sbind]. fr_call; cbn [step_frame]; auto; eapply frame_trans; eauto.
  - (* ST_FIN *)
    unfold force_immediate_ack.
    destruct (_ && _); [|cbn [step_frame]; fr_via F2].
    destruct (rx_add_remove _ _ _ _) as [[rx1 ar] w].
    destruct ar as [r|]; [|exact I].
    destruct (add_err r); [cbn [step_frame]; unfold add_wakes; fr_via F2|].
    destruct (mark_vsock_closed _). cbn [step_frame]; unfold add_wakes; fr_via F2.
Qed.

Lemma recv_loop_frame : forall fuel (s : vsock) acc, step_frame s (recv_loop cci fuel s acc).
Proof.
  induction fuel as [|x fuel IH]; intros s acc.
  - cbn [recv_loop]. destruct (v_inbox s).
    + destruct (v_inbox_closed s); [|exact (frame_refl s)].
      pose proof (transition_to_fin_wait_1_frame s) as F. fr_auto.
    + exact I.
  - cbn [recv_loop]. destruct (v_inbox s) as [|m rest].
    + destruct (v_inbox_closed s); [|exact (frame_refl s)].
      pose proof (transition_to_fin_wait_1_frame s) as F. fr_auto.
    + apply step_frame_sbind.
      * exact (process_incoming_message_frame (set_inbox s rest) m).
      * intros s1 r. destruct (_ || _); [exact (frame_refl s1)|]. apply IH.
Qed.

Lemma process_all_incoming_messages_frame : forall (s : vsock),
  step_frame s (process_all_incoming_messages cci s).
Proof.
  intros s. unfold process_all_incoming_messages.
  apply step_frame_sbind; [apply recv_loop_frame|].
  intros s1 [r early].
  apply step_frame_sbind.
  - unfold restart_remote_inactivity_timer, acked_counts_as_sent.
    repeat break_match; cbn [step_frame]; exact (frame_refl s1).
  - intros s3 _. unfold set_recovering. repeat break_match; cbn [step_frame]; first [exact I | exact (frame_refl s3)].
Qed.

Lemma maybe_send_syn_ack_frame : forall (s : vsock), step_frame s (maybe_send_syn_ack s).
Proof.
  intros s. unfold maybe_send_syn_ack.
  assert (G : forall c, step_frame s
     (if c =? o_max_retx (v_opts s) then SErr s ErrMaxSynAckRetransmissionsReached
      else sbind (send_ack s) (fun s1 sent =>
        if sent then SOk (set_t_syn_ack_resend (set_state s1 (SynAckSent (c + 1)))
               (timer_arm (v_t_syn_ack_resend s1) (v_now s1) SYNACK_RESEND_INTERNAL true)) tt
        else SOk s1 tt))).
  { intros c. destruct (_ =? _); [exact (frame_refl s)|]. fr_auto. }
  destruct (v_state s); try exact (frame_refl s).
  - apply G.
  - destruct (timer_expired _ _); [apply G | exact (frame_refl s)].
Qed.

(* ------------------------------------------------------------------ frame0: frame without the
   delayed-ACK clause (what maybe_send_ack and therefore a whole poll_body satisfies) *)
Definition frame0 (s s' : vsock) : Prop :=
  v_opts s' = v_opts s /\
  v_env_now s' = v_env_now s /\
  v_now s' = v_now s /\
  v_socket_created s' = v_socket_created s /\
  mss (v_ss s) <= mss (v_ss s') /\
  exists l, v_out s' = l ++ v_out s.

Lemma frame_frame0 : forall s s', frame s s' -> frame0 s s'.
Proof.
  intros s s' (A1 & A2 & A3 & A4 & A5 & l & A6 & A7). unfold frame0. repeat split; auto. exists l; auto.
Qed.

Lemma frame0_refl : forall s, frame0 s s.
Proof. intros s. apply frame_frame0, frame_refl. Qed.

Lemma frame0_trans : forall a b c, frame0 a b -> frame0 b c -> frame0 a c.
Proof.
  intros a b c (A1 & A2 & A3 & A4 & A5 & l1 & A6) (B1 & B2 & B3 & B4 & B5 & l2 & B6).
  unfold frame0. repeat split; try congruence; try lia.
  exists (l2 ++ l1). rewrite B6, A6. apply app_assoc.
Qed.

Lemma maybe_send_ack_frame0 : forall (s : vsock),
  match maybe_send_ack s with SOk s1 _ | SErr s1 _ => frame0 s s1 | SPanic => True end.
Proof.
  intros s. unfold maybe_send_ack.
  pose proof (send_ack_frame s) as F.
  assert (G : match send_ack s with SOk s1 _ | SErr s1 _ => frame0 s s1 | SPanic => True end).
  { destruct (send_ack s); cbn [step_frame] in F; auto using frame_frame0. }
  destruct (immediate_ack_to_transmit s); [exact G|].
  destruct (should_send_window_update s); [exact G|].
  destruct (timer_expired _ _).
  - destruct (ack_to_transmit s); [exact G|]. exact (frame0_refl s).
  - destruct (0 <? v_cbu s); exact (frame0_refl s).
Qed.

(* ------------------------------------------------------------------ v_restart is set only by
   send_tx_queue *)
Lemma send_control_packet_restart : forall (s : vsock) h s1 b,
  send_control_packet s h = SOk s1 b -> v_restart s1 = v_restart s.
Proof.
  intros s h s1 b H. unfold send_control_packet in H.
  destruct (v_transport_pending s); [inversion H; reflexivity|].
  unfold next_send in H.
  repeat break_match_hyp H; inversion H; subst; try inversion Heqp; subst; reflexivity.
Qed.

Lemma maybe_send_fin_restart : forall (s : vsock) s1 b,
  maybe_send_fin s = SOk s1 b -> v_restart s1 = v_restart s.
Proof.
  intros s s1 b H. unfold maybe_send_fin in H.
  destruct (v_transport_pending s); [inversion H; reflexivity|].
  destruct (our_fin_if_unacked _); [|inversion H; reflexivity].
  destruct (negb _); [inversion H; reflexivity|].
  destruct (send_control_packet s _) as [s2 sent| |] eqn:E; cbn [sbind] in H; try discriminate.
  apply send_control_packet_restart in E.
  destruct sent; inversion H; subst; exact E.
Qed.

Lemma maybe_send_ack_restart : forall (s : vsock) s1 b,
  maybe_send_ack s = SOk s1 b -> v_restart s1 = v_restart s.
Proof.
  intros s s1 b H. unfold maybe_send_ack, send_ack in H.
  repeat break_match_hyp H; try (eapply send_control_packet_restart; eassumption);
    inversion H; reflexivity.
Qed.

(* ------------------------------------------------------------------ pend / bail *)
Lemma die_not_pending : forall (s s' : vsock) e, die s e <> BrReturn s' PollPending.
Proof. intros s s' e H. unfold die in H. inversion H. Qed.

Lemma bail_pending_inv : forall A (m : step A) k (s' : vsock),
  bail m k = BrReturn s' PollPending ->
  exists s1 a, m = SOk s1 a /\ v_restart s1 = false /\ k s1 a = BrReturn s' PollPending.
Proof.
  intros A m k s' H. unfold bail in H. destruct m as [s1 a|s1 e|]; try discriminate.
  destruct (v_restart s1) eqn:R; [discriminate|]. exists s1, a. auto.
Qed.

Lemma pend_pending_inv : forall A (m : step A) k (s' : vsock),
  pend m k = BrReturn s' PollPending -> v_transport_pending s' = false ->
  exists s1 a, m = SOk s1 a /\ v_restart s1 = false /\ v_transport_pending s1 = false /\
               k s1 a = BrReturn s' PollPending.
Proof.
  intros A m k s' H T. unfold pend in H. apply bail_pending_inv in H.
  destruct H as (s1 & a & E & R & H). exists s1, a.
  destruct (v_transport_pending s1) eqn:P.
  - inversion H; subst. congruence.
  - rewrite R in H. auto.
Qed.

Lemma bail_restart_inv : forall A (m : step A) k (s' : vsock),
  bail m k = BrRestart s' ->
  exists s1 a, m = SOk s1 a /\ ((v_restart s1 = true /\ s' = s1) \/
                                (v_restart s1 = false /\ k s1 a = BrRestart s')).
Proof.
  intros A m k s' H. unfold bail in H. destruct m as [s1 a|s1 e|]; try discriminate.
  exists s1, a. split; auto. destruct (v_restart s1); [left; inversion H; auto | right; auto].
Qed.

Lemma pend_restart_inv : forall A (m : step A) k (s' : vsock),
  pend m k = BrRestart s' ->
  exists s1 a, m = SOk s1 a /\ ((v_restart s1 = true /\ s' = s1) \/
                                (v_restart s1 = false /\ k s1 a = BrRestart s')).
Proof.
  intros A m k s' H. unfold pend in H. apply bail_restart_inv in H.
  destruct H as (s1 & a & E & [H|[R H]]); exists s1, a; split; auto.
  destruct (v_transport_pending s1); [discriminate|]. rewrite R in H. auto.
Qed.


(* ------------------------------------------------------------------ poll_body *)
Definition poll_start (s0 : vsock) : vsock :=
  set_restart (set_now (set_transport_pending s0 false) (v_env_now s0)) false.

(* what poll_body does after maybe_send_ack when the connection is not closed *)
Definition poll_tail (s : vsock) : vsock :=
  let s := if is_local_fin_or_later (v_state s)
           then set_t_inactivity s (timer_arm (v_t_inactivity s) (v_now s)
                                      SHUTDOWN_FINAL_CHANCE_DELAY false)
           else s in
  let '(s, t) := next_timer_to_poll s in
  match t with
  | Some instant => arm_in s (sat_sub instant (v_now s))
  | None => s
  end.

Lemma step_frame_ok : forall A (s s1 : vsock) (m : step A) a,
  step_frame s m -> m = SOk s1 a -> frame s s1.
Proof. intros A s s1 m a F E. rewrite E in F. exact F. Qed.

Lemma rx_flush_frame : forall (s : vsock) rx1 w,
  frame s (add_wakes (set_rx s rx1) w).
Proof. intros. unfold add_wakes. fr_via (frame_refl s). Qed.

Lemma close_on_own_frame : forall (s : vsock),
  frame s (if should_close_on_own_initiative s then transition_to_fin_wait_1 s else s).
Proof.
  intros s. destruct (should_close_on_own_initiative s);
    [apply transition_to_fin_wait_1_frame | apply frame_refl].
Qed.

Lemma imm_send_ack_frame : forall (s : vsock),
  step_frame s (if immediate_ack_to_transmit s then send_ack s else SOk s false).
Proof.
  intros s. destruct (immediate_ack_to_transmit s); [apply send_ack_frame | exact (frame_refl s)].
Qed.

Lemma poll_body_pending_inv : forall s0 s',
  poll_body cci s0 = BrReturn s' PollPending -> v_transport_pending s' = false ->
  exists sa sb b,
    frame (poll_start s0) sa /\ maybe_send_ack sa = SOk sb b /\
    v_transport_pending sb = false /\ v_restart sb = false /\ s' = poll_tail sb.
Proof.
  intros s0 s' H T. unfold poll_body in H. fold (poll_start s0) in H.
  apply pend_pending_inv in H; [|exact T]. destruct H as (s1 & a1 & E1 & R1 & T1 & H).
  pose proof (step_frame_ok _ _ _ _ _ (maybe_send_syn_ack_frame (poll_start s0)) E1) as F1.
  apply pend_pending_inv in H; [|exact T]. destruct H as (s2 & a2 & E2 & R2 & T2 & H).
  pose proof (step_frame_ok _ _ _ _ _ (imm_send_ack_frame s1) E2) as F2.
  apply pend_pending_inv in H; [|exact T]. destruct H as (s3 & a3 & E3 & R3 & T3 & H).
  pose proof (step_frame_ok _ _ _ _ _ (process_all_incoming_messages_frame s2) E3) as F3.
  destruct (rx_flush (v_rx s3)) as [[rx1 fr] w]. destruct fr; [|discriminate].
  pose proof (rx_flush_frame s3 rx1 (rx_wakes w)) as F4.
  set (s4 := add_wakes (set_rx s3 rx1) (rx_wakes w)) in *. clearbody s4.
  destruct (timer_expired _ _); [exfalso; eapply die_not_pending; eauto|].
  apply bail_pending_inv in H. destruct H as (s5 & a5 & E5 & R5 & H).
  pose proof (step_frame_ok _ _ _ _ _ (split_tx_queue_into_segments_frame s4) E5) as F5.
  apply pend_pending_inv in H; [|exact T]. destruct H as (s6 & a6 & E6 & R6 & T6 & H).
  pose proof (step_frame_ok _ _ _ _ _ (send_tx_queue_frame s5) E6) as F6.
  pose proof (close_on_own_frame s6) as F7.
  set (s7 := if should_close_on_own_initiative s6 then transition_to_fin_wait_1 s6 else s6) in *.
  clearbody s7.
  apply pend_pending_inv in H; [|exact T]. destruct H as (s8 & a8 & E8 & R8 & T8 & H).
  pose proof (step_frame_ok _ _ _ _ _ (maybe_send_fin_frame s7) E8) as F8.
  apply pend_pending_inv in H; [|exact T]. destruct H as (s9 & a9 & E9 & R9 & T9 & H).
  exists s8, s9, a9. split.
  { repeat (eapply frame_trans; [eassumption|]). apply frame_refl. }
  split; [exact E9|]. split; [exact T9|]. split; [exact R9|].
  destruct (state_is_closed _ _); [discriminate|].
  unfold poll_tail.
  destruct (next_timer_to_poll _) as [sx t]. destruct t; inversion H; reflexivity.
Qed.


(* every outcome of poll_body is a frame0-successor of its start *)
Definition step_frame0 {A} (s : vsock) (m : step A) : Prop :=
  match m with SOk s' _ | SErr s' _ => frame0 s s' | SPanic => True end.

Lemma step_frame_frame0 : forall A (s : vsock) (m : step A), step_frame s m -> step_frame0 s m.
Proof. intros A s m F. destruct m; cbn [step_frame step_frame0] in *; auto using frame_frame0. Qed.

Definition br_frame0 (s : vsock) (r : body_res) : Prop :=
  match r with BrReturn s' _ | BrRestart s' => frame0 s s' | BrPanic => True end.

Lemma br_frame0_trans : forall a b r, frame0 a b -> br_frame0 b r -> br_frame0 a r.
Proof. intros a b r F G. destruct r; cbn [br_frame0] in *; auto; eapply frame0_trans; eauto. Qed.

Lemma die_frame0 : forall (s : vsock) e, br_frame0 s (die s e).
Proof. intros s e. unfold die. cbn [br_frame0]. apply frame_frame0, just_before_death_frame. Qed.

Lemma bail_frame0 : forall A (m : step A) k (s : vsock),
  step_frame0 s m -> (forall s1 a, br_frame0 s1 (k s1 a)) -> br_frame0 s (bail m k).
Proof.
  intros A m k s Fm Fk. unfold bail. destruct m as [s1 a|s1 e|]; cbn [step_frame0] in Fm.
  - destruct (v_restart s1); [exact Fm|]. eapply br_frame0_trans; [exact Fm | apply Fk].
  - eapply br_frame0_trans; [exact Fm | apply die_frame0].
  - exact I.
Qed.

Lemma pend_frame0 : forall A (m : step A) k (s : vsock),
  step_frame0 s m -> (forall s1 a, br_frame0 s1 (k s1 a)) -> br_frame0 s (pend m k).
Proof.
  intros A m k s Fm Fk. unfold pend. apply bail_frame0; [exact Fm|].
  intros s1 a. destruct (v_transport_pending s1); [exact (frame0_refl s1)|].
  destruct (v_restart s1); [exact (frame0_refl s1) | apply Fk].
Qed.

Lemma poll_tail_frame : forall (s : vsock), frame s (poll_tail s).
Proof.
  intros s. unfold poll_tail, next_timer_to_poll, arm_in, add_wakes.
  repeat break_match; try (inversion Heqp; subst); fr_via (frame_refl s).
Qed.

Lemma poll_body_frame0 : forall s0, br_frame0 (poll_start s0) (poll_body cci s0).
Proof.
  intros s0. unfold poll_body. fold (poll_start s0).
  apply pend_frame0; [apply step_frame_frame0, maybe_send_syn_ack_frame|]. intros s1 _.
  apply pend_frame0; [apply step_frame_frame0, imm_send_ack_frame|]. intros s2 _.
  apply pend_frame0; [apply step_frame_frame0, process_all_incoming_messages_frame|]. intros s3 _.
  destruct (rx_flush (v_rx s3)) as [[rx1 fr] w]. destruct fr; [|exact I].
  pose proof (frame_frame0 _ _ (rx_flush_frame s3 rx1 (rx_wakes w))) as F4.
  set (s4 := add_wakes (set_rx s3 rx1) (rx_wakes w)) in *. clearbody s4.
  eapply br_frame0_trans; [exact F4|].
  destruct (timer_expired _ _); [apply die_frame0|].
  apply bail_frame0; [apply step_frame_frame0, split_tx_queue_into_segments_frame|]. intros s5 _.
  apply pend_frame0; [apply step_frame_frame0, send_tx_queue_frame|]. intros s6 _.
  pose proof (frame_frame0 _ _ (close_on_own_frame s6)) as F7.
  set (s7 := if should_close_on_own_initiative s6 then transition_to_fin_wait_1 s6 else s6) in *.
  clearbody s7. eapply br_frame0_trans; [exact F7|].
  apply pend_frame0; [apply step_frame_frame0, maybe_send_fin_frame|]. intros s8 _.
  apply pend_frame0; [exact (maybe_send_ack_frame0 s8)|]. intros s9 _.
  destruct (state_is_closed _ _).
  - cbn [br_frame0]. apply frame_frame0, just_before_death_frame.
  - pose proof (frame_frame0 _ _ (poll_tail_frame s9)) as F. unfold poll_tail in F.
    destruct (next_timer_to_poll _) as [sx t]. destruct t; exact F.
Qed.

(* a restart leaves poll_body before maybe_send_ack: the full frame holds *)
Definition br_restart_frame (s : vsock) (r : body_res) : Prop :=
  match r with BrRestart s' => frame s s' | _ => True end.

Lemma br_restart_frame_trans : forall a b r, frame a b -> br_restart_frame b r -> br_restart_frame a r.
Proof. intros a b r F G. destruct r; cbn [br_restart_frame] in *; auto; eapply frame_trans; eauto. Qed.

Lemma bail_restart_frame : forall A (m : step A) k (s : vsock),
  step_frame s m -> (forall s1 a, v_restart s1 = false -> br_restart_frame s1 (k s1 a)) ->
  br_restart_frame s (bail m k).
Proof.
  intros A m k s Fm Fk. unfold bail. destruct m as [s1 a|s1 e|]; cbn [step_frame] in Fm.
  - destruct (v_restart s1) eqn:R; [exact Fm|]. eapply br_restart_frame_trans; [exact Fm | apply Fk; exact R].
  - exact I.
  - exact I.
Qed.

Lemma pend_restart_frame : forall A (m : step A) k (s : vsock),
  step_frame s m -> (forall s1 a, v_restart s1 = false -> br_restart_frame s1 (k s1 a)) ->
  br_restart_frame s (pend m k).
Proof.
  intros A m k s Fm Fk. unfold pend. apply bail_restart_frame; [exact Fm|].
  intros s1 a R. destruct (v_transport_pending s1); [exact I|]. rewrite R. apply Fk; exact R.
Qed.

Lemma transition_to_fin_wait_1_restart : forall (s : vsock),
  v_restart (transition_to_fin_wait_1 s) = v_restart s.
Proof. intros s. unfold transition_to_fin_wait_1. destruct (v_state s); reflexivity. Qed.

Lemma poll_body_restart_frame : forall s0, br_restart_frame (poll_start s0) (poll_body cci s0).
Proof.
  intros s0. unfold poll_body. fold (poll_start s0).
  apply pend_restart_frame; [apply maybe_send_syn_ack_frame|]. intros s1 _ _.
  apply pend_restart_frame; [apply imm_send_ack_frame|]. intros s2 _ _.
  apply pend_restart_frame; [apply process_all_incoming_messages_frame|]. intros s3 _ _.
  destruct (rx_flush (v_rx s3)) as [[rx1 fr] w]. destruct fr; [|exact I].
  pose proof (rx_flush_frame s3 rx1 (rx_wakes w)) as F4.
  set (s4 := add_wakes (set_rx s3 rx1) (rx_wakes w)) in *. clearbody s4.
  eapply br_restart_frame_trans; [exact F4|].
  destruct (timer_expired _ _); [exact I|].
  apply bail_restart_frame; [apply split_tx_queue_into_segments_frame|]. intros s5 _ _.
  apply pend_restart_frame; [apply send_tx_queue_frame|]. intros s6 _ R6.
  pose proof (close_on_own_frame s6) as F7.
  assert (R7 : v_restart (if should_close_on_own_initiative s6 then transition_to_fin_wait_1 s6 else s6) = false).
  { destruct (should_close_on_own_initiative s6); [rewrite transition_to_fin_wait_1_restart|]; exact R6. }
  set (s7 := if should_close_on_own_initiative s6 then transition_to_fin_wait_1 s6 else s6) in *.
  clearbody s7. eapply br_restart_frame_trans; [exact F7|].
  (* from here on v_restart stays false: no BrRestart *)
  unfold pend, bail.
  destruct (maybe_send_fin s7) as [s8 b8|s8 e8|] eqn:E8; try exact I.
  apply maybe_send_fin_restart in E8. rewrite R7 in E8. rewrite E8.
  destruct (v_transport_pending s8); [exact I|]. try rewrite E8.
  destruct (maybe_send_ack s8) as [s9 b9|s9 e9|] eqn:E9; try exact I.
  apply maybe_send_ack_restart in E9. rewrite E8 in E9. rewrite E9.
  destruct (v_transport_pending s9); [exact I|]. try rewrite E9.
  destruct (state_is_closed _ _); [exact I|].
  destruct (next_timer_to_poll _) as [sx t]. destruct t; exact I.
Qed.


(* ------------------------------------------------------------------ poll_loop / poll *)
(* across iterations of the restart loop the clock field v_now is re-read; everything else of
   [frame] is kept *)
Definition pframe (s s' : vsock) : Prop :=
  v_opts s' = v_opts s /\
  v_env_now s' = v_env_now s /\
  v_socket_created s' = v_socket_created s /\
  mss (v_ss s) <= mss (v_ss s') /\
  exists l, v_out s' = l ++ v_out s /\ (l = [] -> v_t_ack_delay s' = v_t_ack_delay s).

Lemma pframe_refl : forall s, pframe s s.
Proof. intros s. unfold pframe. repeat split; try lia. exists []. split; auto. Qed.

Lemma pframe_trans : forall a b c, pframe a b -> pframe b c -> pframe a c.
Proof.
  intros a b c (A1 & A2 & A4 & A5 & l1 & A6 & A7) (B1 & B2 & B4 & B5 & l2 & B6 & B7).
  unfold pframe. repeat split; try congruence; try lia.
  exists (l2 ++ l1). split.
  - rewrite B6, A6. apply app_assoc.
  - intros E. apply app_eq_nil in E. destruct E as [E2 E1]. rewrite B7, A7; auto.
Qed.

Lemma frame_pframe : forall s s', frame s s' -> pframe s s'.
Proof.
  intros s s' (A1 & A2 & A3 & A4 & A5 & l & A6 & A7). unfold pframe. repeat split; auto.
  exists l; auto.
Qed.

Lemma pframe_start : forall s, pframe s (poll_start s).
Proof. intros s. unfold pframe, poll_start. vsimpl_goal. repeat split; try lia. exists []. split; auto. Qed.

Lemma poll_loop_pending_inv : forall fuel s s',
  poll_loop cci fuel s = (s', PollPending) -> v_transport_pending s' = false ->
  exists s0 sa sb b,
    pframe s s0 /\ frame (poll_start s0) sa /\ maybe_send_ack sa = SOk sb b /\
    v_transport_pending sb = false /\ v_restart sb = false /\ s' = poll_tail sb.
Proof.
  induction fuel as [|fuel IH]; intros s s' H T; cbn [poll_loop] in H; [discriminate|].
  destruct (poll_body cci s) as [s1 r|s1|] eqn:E.
  - inversion H; subst. apply poll_body_pending_inv in E; [|exact T].
    destruct E as (sa & sb & b & E). exists s, sa, sb, b. split; [apply pframe_refl | exact E].
  - pose proof (poll_body_restart_frame s) as F. rewrite E in F. cbn [br_restart_frame] in F.
    apply IH in H; [|exact T]. destruct H as (s0 & sa & sb & b & P & H).
    exists s0, sa, sb, b. split; [|exact H].
    eapply pframe_trans; [|exact P].
    eapply pframe_trans; [apply pframe_start | apply frame_pframe; exact F].
  - discriminate.
Qed.

(* what every poll (whatever its result) keeps *)
Definition pframe0 (s s' : vsock) : Prop :=
  v_opts s' = v_opts s /\ v_env_now s' = v_env_now s /\
  v_socket_created s' = v_socket_created s /\ mss (v_ss s) <= mss (v_ss s').

Lemma pframe0_trans : forall a b c, pframe0 a b -> pframe0 b c -> pframe0 a c.
Proof.
  intros a b c (A1 & A2 & A3 & A4) (B1 & B2 & B3 & B4). unfold pframe0.
  repeat split; try congruence; lia.
Qed.

Lemma frame0_start_pframe0 : forall s s', frame0 (poll_start s) s' -> pframe0 s s'.
Proof.
  intros s s' (A1 & A2 & A3 & A4 & A5 & _). unfold poll_start in *.
  unfold pframe0. repeat split; auto.
Qed.

Lemma poll_loop_pframe0 : forall fuel s s' r, poll_loop cci fuel s = (s', r) -> pframe0 s s'.
Proof.
  induction fuel as [|fuel IH]; intros s s' r H; cbn [poll_loop] in H.
  - inversion H; subst. unfold pframe0. repeat split; lia.
  - pose proof (poll_body_frame0 s) as F.
    destruct (poll_body cci s) as [s1 r1|s1|]; cbn [br_frame0] in *.
    + inversion H; subst. apply frame0_start_pframe0; exact F.
    + eapply pframe0_trans; [apply frame0_start_pframe0; exact F | eapply IH; exact H].
    + inversion H; subst. unfold pframe0. repeat split; lia.
Qed.

Definition poll_init (s : vsock) : vsock := set_arm_in (set_wakes (set_out s []) []) None.

(* conversion must unfold [poll], never the fixpoint [poll_loop] on its literal fuel *)
Strategy opaque [poll_loop].
Lemma poll_unfold : forall s, poll cci s = poll_loop cci 64 (poll_init s).
Proof. intros s. unfold poll, poll_init. reflexivity. Qed.
Strategy transparent [poll_loop].

Lemma poll_init_fields : forall (s : vsock),
  v_opts (poll_init s) = v_opts s /\ v_env_now (poll_init s) = v_env_now s /\
  v_ss (poll_init s) = v_ss s /\ v_out (poll_init s) = [] /\
  v_t_ack_delay (poll_init s) = v_t_ack_delay s.
Proof. intros s. repeat split; exact eq_refl. Qed.

Lemma poll_pframe0 : forall s s' r, poll cci s = (s', r) -> pframe0 s s'.
Proof.
  intros s s' r H. rewrite poll_unfold in H. apply poll_loop_pframe0 in H.
  destruct H as (P1 & P2 & P3 & P4).
  destruct (poll_init_fields s) as (I1 & I2 & I3 & I4 & I5).
  assert (I6 : v_socket_created (poll_init s) = v_socket_created s) by exact eq_refl.
  rewrite I1 in P1. rewrite I2 in P2. rewrite I6 in P3. rewrite I3 in P4.
  unfold pframe0. auto.
Qed.

Lemma poll_tail_fields : forall (s : vsock),
  v_cbu (poll_tail s) = v_cbu s /\ v_ss (poll_tail s) = v_ss s /\ v_rx (poll_tail s) = v_rx s /\
  v_state (poll_tail s) = v_state s /\ v_last_sent_window (poll_tail s) = v_last_sent_window s /\
  v_t_ack_delay (poll_tail s) = v_t_ack_delay s /\ v_now (poll_tail s) = v_now s /\
  v_last_consumed (poll_tail s) = v_last_consumed s /\
  v_last_sent_ack_nr (poll_tail s) = v_last_sent_ack_nr s /\
  v_out (poll_tail s) = v_out s /\ v_transport_pending (poll_tail s) = v_transport_pending s /\
  v_env_now (poll_tail s) = v_env_now s /\ v_segs (poll_tail s) = v_segs s /\
  v_unsegmented (poll_tail s) = v_unsegmented s /\ v_opts (poll_tail s) = v_opts s /\
  v_tx (poll_tail s) = v_tx s /\ v_last_remote_window (poll_tail s) = v_last_remote_window s.
Proof.
  intros s. unfold poll_tail, next_timer_to_poll, arm_in, add_wakes.
  repeat break_match; try (inversion Heqp; subst); vsimpl_goal; repeat split; first [exact eq_refl | assumption | symmetry; assumption].
Qed.

Lemma poll_start_fields : forall (s : vsock),
  v_opts (poll_start s) = v_opts s /\ v_env_now (poll_start s) = v_env_now s /\
  v_now (poll_start s) = v_env_now s /\
  v_ss (poll_start s) = v_ss s /\ v_out (poll_start s) = v_out s /\
  v_t_ack_delay (poll_start s) = v_t_ack_delay s.
Proof. intros s. repeat split; exact eq_refl. Qed.

(* the shape of every poll that returns Pending with a writable transport *)
Lemma poll_pending_inv : forall s s',
  poll cci s = (s', PollPending) -> v_transport_pending s' = false ->
  exists sa sb b,
    v_opts sa = v_opts s /\ v_env_now sa = v_env_now s /\ v_now sa = v_env_now s /\
    mss (v_ss s) <= mss (v_ss sa) /\
    (v_out sa = [] -> v_t_ack_delay sa = v_t_ack_delay s) /\
    maybe_send_ack sa = SOk sb b /\ v_transport_pending sb = false /\ s' = poll_tail sb.
Proof.
  intros s s' H T. rewrite poll_unfold in H.
  apply poll_loop_pending_inv in H; [|exact T].
  destruct H as (s0 & sa & sb & b & P & F & E & Tb & Rb & S).
  exists sa, sb, b.
  destruct P as (P1 & P2 & P3 & P4 & l1 & P5 & P6).
  destruct F as (F1 & F2 & F3 & F4 & F5 & l2 & F6 & F7).
  destruct (poll_init_fields s) as (I1 & I2 & I3 & I4 & I5).
  destruct (poll_start_fields s0) as (S1 & S2 & S3 & S4 & S5 & S6).
  rewrite I1 in P1. rewrite I2 in P2. rewrite I3 in P4. rewrite I4 in P5. rewrite I5 in P6.
  rewrite S1 in F1. rewrite S2 in F2. rewrite S3 in F3. rewrite S4 in F5. rewrite S5 in F6.
  rewrite S6 in F7.
  repeat split; try congruence; try lia.
  intros O. rewrite F6, P5 in O. rewrite app_nil_r in O.
  apply app_eq_nil in O. destruct O as [O2 O1]. rewrite F7, P6; auto.
Qed.


(* ------------------------------------------------------------------ events and traces *)
Definition vstep_state (s : vsock) (o : vop) : vsock := fst (fst (fst (vstep cci s o))).

(* the step record a predicate sees for event o in state s (= the head of ftrace) *)
Definition fstep_of (s : vsock) (o : vop) : fstep :=
  let '(s', out, dw, sw) := vstep cci s o in
  {| fs_now := v_env_now s'; fs_pre := fp_of_vsock cci s; fs_event := fevent_of o;
     fs_result := fresult_of out; fs_disp_woken := dw; fs_self_woken := sw;
     fs_post := fp_of_vsock cci s' |}.

Lemma fstep_of_event : forall s o, fs_event (fstep_of s o) = fevent_of o.
Proof. intros s o. unfold fstep_of. destruct (vstep cci s o) as [[[s' out] dw] sw]. reflexivity. Qed.

Lemma fstep_of_poll : forall s sc s' r,
  poll cci (VSockRec.set_sends s sc) = (s', r) ->
  fstep_of s (VoPoll sc) =
  {| fs_now := v_env_now s'; fs_pre := fp_of_vsock cci s; fs_event := FePoll sc;
     fs_result := FrPoll r (map fpacket_of (rev (v_out s'))) (rev (v_wakes s')) (v_arm_in s');
     fs_disp_woken := false; fs_self_woken := false; fs_post := fp_of_vsock cci s' |}.
Proof. intros s sc s' r E. unfold fstep_of. cbn [vstep]. rewrite E. reflexivity. Qed.

Lemma ftrace_cons : forall s o rest,
  ftrace cci s (o :: rest) =
  fstep_of s o :: (if poll_finished (snd (fst (fst (vstep cci s o)))) then []
                   else ftrace cci (vstep_state s o) rest).
Proof.
  intros s o rest. cbn [ftrace]. unfold fstep_of, vstep_state.
  destruct (vstep cci s o) as [[[s' out] dw] sw]. reflexivity.
Qed.

Lemma set_sends_fields : forall (s : vsock) sc,
  v_opts (VSockRec.set_sends s sc) = v_opts s /\
  v_socket_created (VSockRec.set_sends s sc) = v_socket_created s /\
  v_ss (VSockRec.set_sends s sc) = v_ss s.
Proof. intros. repeat split; exact eq_refl. Qed.

Ltac keep_tac := split; [|split]; exact eq_refl.

Lemma vstep_nonpoll_keeps : forall s o,
  match o with VoPoll _ => True | _ =>
    v_opts (vstep_state s o) = v_opts s /\
    v_socket_created (vstep_state s o) = v_socket_created s /\
    v_ss (vstep_state s o) = v_ss s
  end.
Proof.
  intros s o. unfold vstep_state. destruct o.
  - cbn [vstep fst]; keep_tac.
  - cbn [vstep fst]; keep_tac.
  - exact I.
  - cbn [vstep]. destruct (v_inbox_closed s); cbn [fst]; keep_tac.
  - cbn [vstep fst]; keep_tac.
  - cbn [vstep]. destruct (writer_dropped _); [|destruct (poll_write _ _) as [[tx1 r] w]];
      cbn [fst]; keep_tac.
  - cbn [vstep]. destruct (writer_dropped _); [|destruct (poll_flush _) as [[tx1 r] w]];
      cbn [fst]; keep_tac.
  - cbn [vstep]. destruct (writer_dropped _); [|destruct (poll_shutdown _) as [[tx1 r] w]];
      cbn [fst]; keep_tac.
  - cbn [vstep]. destruct (reader_dropped _); [|destruct (rx_read _ _) as [[rx1 r] w]];
      cbn [fst]; keep_tac.
  - cbn [vstep]. destruct (reader_dropped _); [|destruct (rx_drop_reader _) as [rx1 w]];
      cbn [fst]; keep_tac.
  - cbn [vstep]. destruct (drop_writer _) as [tx1 w]; cbn [fst]; keep_tac.
Qed.

(* every event keeps the options and socket_created, and never lowers mss *)
Lemma vstep_keeps : forall s o,
  v_opts (vstep_state s o) = v_opts s /\
  v_socket_created (vstep_state s o) = v_socket_created s /\
  mss (v_ss s) <= mss (v_ss (vstep_state s o)).
Proof.
  intros s o. pose proof (vstep_nonpoll_keeps s o) as K.
  destruct o; try (destruct K as (K1 & K2 & K3); rewrite K3; repeat split; auto; apply Z.le_refl).
  unfold vstep_state. cbn [vstep].
  destruct (poll cci (VSockRec.set_sends s script)) as [s' r] eqn:E. cbn [fst].
  destruct (poll_pframe0 _ _ _ E) as (P1 & P2 & P3 & P4).
  destruct (set_sends_fields s script) as (Q1 & Q2 & Q3).
  rewrite Q1 in P1. rewrite Q2 in P3. rewrite Q3 in P4.
  repeat split; auto.
Qed.

(* a step-local predicate that holds of every step from a state satisfying an invariant kept by
   every event holds along every trace *)
Lemma ftrace_forallb : forall (Inv : vsock -> Prop) (P : fstep -> bool),
  (forall s o, Inv s -> P (fstep_of s o) = true) ->
  (forall s o, Inv s -> Inv (vstep_state s o)) ->
  forall ops s, Inv s -> forallb P (ftrace cci s ops) = true.
Proof.
  intros Inv P HP HI. induction ops as [|o rest IH]; intros s I; [reflexivity|].
  rewrite ftrace_cons. cbn [forallb]. rewrite (HP s o I). cbn [andb].
  destruct (poll_finished _); [reflexivity|]. apply IH. apply HI. exact I.
Qed.

End WithCC.

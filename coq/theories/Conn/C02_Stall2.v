(* c02_no_silent_stall at the level of the model state: what send_tx_queue leaves behind when it
   returns Ok with a writable transport and no restart - either the retransmission timer is armed,
   or nothing is undelivered, or the connection is in loss recovery, or the new-data part looked at
   the first never-sent segment and found it too large for the windows. *)
From Utp Require Import Base.Prelude Wire.SeqNr Wire.Header Rtt.Rtte Rtt.Rtte_Proofs Mtu.SegSizes
  Rx.Rx Tx.Ring Tx.Segments Tx.Segments_Proofs Tx.Segments_ProofsOut
  Conn.Recovery Conn.Msg Conn.VSockRec Conn.VSock Conn.VSockRun Conn.VObs Conn.C10_Pred Conn.C02_Pred
  Conn.C02_Pred2 Conn.VSock_LemmasTx Conn.VSock_Lemmas Conn.VSock_LemmasStep Conn.VSock_LemmasReach
  Conn.VSock_LemmasTimers Conn.VSock_LemmasPipe
  Conn.C02_SegLemmas2 Conn.C02_Lemmas2.

(* ------------------------------------------------------------------ lists *)
Lemma find_split : forall {A} (p : A -> bool) l g,
  find p l = Some g ->
  exists pre post, l = pre ++ g :: post /\ (forall x, In x pre -> p x = false) /\ p g = true.
Proof.
  intros A p. induction l as [|y ys IH]; intros g H; cbn [find] in H; [discriminate|].
  destruct (p y) eqn:E.
  - injection H as <-. exists [], ys. split; [reflexivity|]. split; [intros x []|exact E].
  - destruct (IH g H) as (pre & post & -> & H1 & H2). exists (y :: pre), post.
    split; [reflexivity|]. split; [|exact H2]. intros x [<-|Hx]; [exact E|apply H1; exact Hx].
Qed.

Lemma existsb_firstn_len : forall {A} (p : A -> bool) n pre g post,
  existsb p (firstn n (pre ++ g :: post)) = false -> p g = true -> (n <= length pre)%nat.
Proof.
  intros A p n pre g post H Hg. destruct (Nat.le_gt_cases n (length pre)) as [L|L]; [exact L|exfalso].
  rewrite firstn_app in H. rewrite existsb_app in H. apply orb_false_iff in H. destruct H as [_ H].
  destruct (n - length pre)%nat as [|k] eqn:Ek; [lia|].
  cbn [firstn existsb] in H. rewrite Hg in H. discriminate.
Qed.

Lemma skipn_app_le : forall {A} n (a b : list A), (n <= length a)%nat -> skipn n (a ++ b) = skipn n a ++ b.
Proof.
  intros A n a b L. rewrite skipn_app. replace (n - length a)%nat with 0%nat by lia. reflexivity.
Qed.

Lemma firstn_app_le : forall {A} n (a b : list A), (n <= length a)%nat -> firstn n (a ++ b) = firstn n a.
Proof.
  intros A n a b L. rewrite firstn_app. replace (n - length a)%nat with 0%nat by lia.
  cbn [firstn]. apply app_nil_r.
Qed.

Lemma flight_sum_delivered : forall l, (forall x, In x l -> sg_delivered x = true) -> flight_sum l = 0.
Proof.
  induction l as [|y ys IH]; intro H; cbn [flight_sum]; [reflexivity|].
  rewrite (H y (or_introl eq_refl)). rewrite IH; [reflexivity|]. intros x Hx. apply H. right; exact Hx.
Qed.

(* the iterator restricted to [start ..] begins with the first undelivered segment when
   everything before that segment is delivered and the start index is not beyond it *)
Lemma iter_head_seg : forall t st pre g post,
  ss_segs t = pre ++ g :: post -> (forall x, In x pre -> sg_delivered x = true) ->
  sg_delivered g = false ->
  (match st with Some s => Z.to_nat (Z.max (seq_sub s (ss_snd_una t)) 0) | None => 0%nat end <= length pre)%nat ->
  exists f rest, iter_for_sending t st = f :: rest /\ fs_seg f = g.
Proof.
  intros t st pre g post E Hpre Hg Hoff. unfold iter_for_sending.
  set (off := match st with Some s => _ | None => 0%nat end) in *.
  rewrite E, (skipn_app_le off pre (g :: post) Hoff), enum_from_app, map_app, filter_app.
  match goal with |- exists f rest, filter ?p (map ?mk ?a) ++ _ = _ /\ _ =>
    assert (Hn : filter p (map mk a) = []) end.
  { apply filter_all_false. intros x Hx. apply in_map_iff in Hx. destruct Hx as ([i y] & <- & Hin).
    cbn [fs_seg]. apply enum_from_In in Hin.
    assert (Hy : In y pre).
    { rewrite <- (firstn_skipn off pre). apply in_or_app. right; exact Hin. }
    rewrite (Hpre y Hy). reflexivity. }
  rewrite Hn. cbn [app enum_from map filter fs_seg]. rewrite Hg. cbn [negb].
  eexists _, _. split; [reflexivity|]. reflexivity.
Qed.

Section WithCC.
Context {CC : Type} (cci : cc_iface CC).
Notation vsock := (vsock CC).

(* ------------------------------------------------------------------ the clause on the model state *)
Definition seg_nsu (g : seg) : bool :=
  match sg_sent g with NotSent => negb (sg_delivered g) | _ => false end.

Definition strand_free_s (s : vsock) : bool :=
  negb (existsb seg_nsu (firstn (strand_bound (v_last_sent_seq_nr s) (ss_snd_una (v_segs s)))
                                (ss_segs (v_segs s)))).

Definition stall_ok (s : vsock) : Prop :=
  segs_out (ss_segs (v_segs s)) = false -> is_recovering (v_recovery s) = false ->
  forall g, find seg_nsu (ss_segs (v_segs s)) = Some g ->
  sg_size g <= v_last_remote_window s -> sg_size g <= cc_window cci (v_cc s) ->
  strand_free_s s = true -> v_t_retransmit s <> None.

(* the fields stall_ok reads are the same, or the timer is armed *)
Definition skr (s s' : vsock) : Prop :=
  v_t_retransmit s' <> None \/
  (v_segs s' = v_segs s /\ v_recovery s' = v_recovery s /\ v_last_remote_window s' = v_last_remote_window s /\
   v_cc s' = v_cc s /\ v_last_sent_seq_nr s' = v_last_sent_seq_nr s /\ v_t_retransmit s' = v_t_retransmit s).

Lemma skr_refl : forall s, skr s s.
Proof. intros s. right. auto 10. Qed.

Lemma skr_ok : forall s s', skr s s' -> stall_ok s -> stall_ok s'.
Proof.
  intros s s' [K|(E1 & E2 & E3 & E4 & E5 & E6)] H; [intros _ _ g _ _ _ _; exact K|].
  unfold stall_ok, strand_free_s in *. rewrite E1, E2, E3, E4, E5, E6. exact H.
Qed.

Lemma skr_same : forall (s s' : vsock),
  v_segs s' = v_segs s -> v_recovery s' = v_recovery s -> v_last_remote_window s' = v_last_remote_window s ->
  v_cc s' = v_cc s -> v_last_sent_seq_nr s' = v_last_sent_seq_nr s -> v_t_retransmit s' = v_t_retransmit s ->
  skr s s'.
Proof. intros. right. auto 10. Qed.

Ltac skr_same_tac := apply skr_same; exact eq_refl.

(* the three sufficient reasons *)
Lemma stall_ok_armed : forall s : vsock, v_t_retransmit s <> None -> stall_ok s.
Proof. intros s H _ _ g _ _ _ _. exact H. Qed.

Lemma seg_nsu_und : forall g, seg_nsu g = true -> sg_delivered g = false.
Proof. intros g H. unfold seg_nsu in H. destruct (sg_sent g); try discriminate. apply negb_true_iff; exact H. Qed.

Lemma stall_ok_no_und : forall s : vsock, und (ss_segs (v_segs s)) = false -> stall_ok s.
Proof.
  intros s H _ _ g Hf _ _ _. exfalso. apply find_some in Hf. destruct Hf as [Hin Hg].
  assert (K : und (ss_segs (v_segs s)) = true).
  { apply und_In. exists g. split; [exact Hin | apply seg_nsu_und; exact Hg]. }
  congruence.
Qed.

Lemma stall_ok_recovering : forall s : vsock, is_recovering (v_recovery s) = true -> stall_ok s.
Proof. intros s H _ K. congruence. Qed.

(* ------------------------------------------------------------------ the new-data part *)
Lemma new_data_loop_first : forall items (s : vsock) h rem s' tl,
  new_data_loop items s h rem = SOk s' tl ->
  v_t_retransmit s' <> None \/
  (sd_unchanged s s' /\
   (items = [] \/ exists f rest, items = f :: rest /\
      (rem < sg_size (fs_seg f) \/ v_transport_pending s' = true \/ tl <> None))).
Proof.
  intros items s h rem s' tl H. destruct items as [|f rest]; cbn [new_data_loop] in H.
  - injection H as <- <-. right. split; [|left; reflexivity].
    unfold sd_unchanged. split; [apply sd_frame_refl|]. repeat split.
  - destruct (Z.ltb_spec rem (sg_size (fs_seg f))) as [L|L].
    + injection H as <- <-. right. split; [|right; exists f, rest; split; [reflexivity|left; exact L]].
      unfold sd_unchanged. split; [apply sd_frame_refl|]. repeat split.
    + pose proof (send_data_spec s h f) as D.
      destruct (send_data s h f) as [s1 r|s1 e|]; try discriminate.
      destruct r.
      * left. destruct D as (_ & _ & _ & _ & Dt & _).
        pose proof (new_data_loop_sdr rest s1 h (rem - sg_size (fs_seg f))) as F.
        rewrite H in F. cbn [stR] in F. destruct F as (_ & F & _). apply F. rewrite Dt. apply timer_arm_some.
      * injection H as <- <-. destruct D as [D1 D2]. right. split; [exact D1|].
        right. exists f, rest. split; [reflexivity|]. right; left. exact D2.
      * injection H as <- <-. destruct D as [D1 D2]. right. split; [exact D1|].
        right. exists f, rest. split; [reflexivity|]. right; right. discriminate.
Qed.

(* nothing outstanding: everything before the first never-sent undelivered segment is delivered *)
Lemma nsu_prefix_delivered : forall l pre g post,
  l = pre ++ g :: post -> segs_out l = false -> (forall x, In x pre -> seg_nsu x = false) ->
  forall x, In x pre -> sg_delivered x = true.
Proof.
  intros l pre g post E Ho Hp x Hx.
  assert (Hin : In x l) by (rewrite E; apply in_or_app; left; exact Hx).
  destruct (sg_delivered x) eqn:Ed; [reflexivity|exfalso].
  specialize (Hp x Hx). unfold seg_nsu in Hp. rewrite Ed in Hp. cbn [negb] in Hp.
  assert (K : segs_out l = true).
  { apply segs_out_In. exists x. split; [exact Hin|]. unfold seg_out, seg_sent_b. rewrite Ed.
    destruct (sg_sent x); [discriminate|reflexivity|reflexivity]. }
  congruence.
Qed.

Lemma new_branch_stall : forall (s s' : vsock) h u,
  new_branch cci s h = SOk s' u -> v_restart s = false -> v_restart s' = false ->
  v_transport_pending s' = false -> stall_ok s'.
Proof.
  intros s s' h u H R0 R' T'. unfold new_branch in H.
  destruct (new_data_loop (new_items s) s h (new_remaining cci s)) as [s1 tl| |] eqn:El; cbn [sbind] in H;
    try discriminate.
  pose proof (new_data_loop_first _ _ _ _ _ _ El) as F.
  assert (Htl : tl = None /\ s' = s1).
  { unfold new_after in H. destruct tl as [[sq sz]|]; [|injection H as <-; auto].
    destruct (pop_mtu_probe _ _) as [segs' popped]. destruct popped; [|discriminate].
    injection H as <-. cbn [v_restart set_restart] in R'. discriminate. }
  destruct Htl as [-> ->]. clear H.
  destruct F as [F|[U F]]; [apply stall_ok_armed; exact F|].
  destruct U as (Uf & _ & Usegs & Uls & Utr & _).
  destruct Uf as (_ & Ucc & Ulrw & Urec & _).
  intros Hout Hrec g Hfind Hlrw Hcw Hsf. exfalso.
  rewrite Usegs in Hout, Hfind. rewrite Urec in Hrec. rewrite Ulrw in Hlrw. rewrite Ucc in Hcw.
  unfold strand_free_s in Hsf. rewrite Usegs, Uls in Hsf. apply negb_true_iff in Hsf.
  destruct (find_split _ _ _ Hfind) as (pre & post & E & Hpre & Hg).
  pose proof (nsu_prefix_delivered _ _ _ _ E Hout Hpre) as Hdel.
  rewrite E in Hsf. apply existsb_firstn_len in Hsf; [|exact Hg].
  unfold strand_bound in Hsf.
  assert (Hgd : sg_delivered g = false) by (apply seg_nsu_und; exact Hg).
  destruct (iter_head_seg (v_segs s) (Some (wadd16 (v_last_sent_seq_nr s) 1)) pre g post E Hdel Hgd)
    as (f & rest & Hit & Hf); [lia|].
  fold (new_items s) in Hit.
  destruct F as [F|(f0 & rest0 & F0 & F)]; [rewrite F in Hit; discriminate|].
  rewrite Hit in F0. injection F0 as <- <-.
  destruct F as [F|[F|F]]; [|congruence|congruence].
  (* the budget: nothing in flight *)
  assert (Hrem : new_remaining cci s = sat_sub (Z.min (cc_window cci (v_cc s)) (v_last_remote_window s)) 0).
  { unfold new_remaining, remaining_cwnd. unfold is_recovering in Hrec.
    destruct (rv_phase (v_recovery s)); try discriminate;
      (f_equal; unfold calc_flight_size; rewrite E, firstn_app_le by lia;
       apply flight_sum_delivered; intros x Hx; apply Hdel; eapply In_firstn; exact Hx). }
  rewrite Hrem, Hf in F. unfold sat_sub in F. lia.
Qed.

(* ------------------------------------------------------------------ the recovery part *)
Definition undr (s s' : vsock) : Prop :=
  und (ss_segs (v_segs s)) = false -> und (ss_segs (v_segs s')) = false.

Lemma sdr_undr : forall s s', sdr s s' -> undr s s'.
Proof. intros s s' (_ & _ & A) H. rewrite (und_dlv _ _ A). exact H. Qed.

Lemma rec_after_keeps : forall rc h mss0 (s1 s2 : vsock) res r,
  rec_after rc h mss0 s1 res = SOk s2 r ->
  is_recovering (v_recovery s2) = true /\ v_segs s2 = v_segs s1 /\ v_restart s2 = v_restart s1.
Proof.
  intros rc h mss0 s1 s2 [st early] r H. unfold rec_after in H.
  destruct early; [injection H as <- _; repeat split|].
  match type of H with (match our_fin_if_unacked (v_state ?y) with _ => _ end) = _ =>
    assert (F3 : is_recovering (v_recovery y) = true /\ v_segs y = v_segs s1 /\ v_restart y = v_restart s1);
    [|revert F3 H; generalize y; intros sy F3 H] end.
  { destruct (rl_cwnd st <? mss0); [|repeat split]. destruct (rc_recalc rc); [repeat split|].
    destruct (0 <? rl_sent st); repeat split. }
  destruct (our_fin_if_unacked _); [destruct (_ =? _)|]; injection H as <- _;
    first [exact F3 | destruct F3 as (_ & F2 & F3); repeat split; assumption].
Qed.

Lemma rec_branch_norec : forall (s : vsock) h,
  is_recovering (v_recovery s) = false -> rec_branch s h = SOk s false.
Proof.
  intros s h H. unfold rec_branch. unfold is_recovering in H.
  destruct (rv_phase (v_recovery s)); [reflexivity|reflexivity|discriminate].
Qed.

Lemma rec_branch_keeps : forall (s s2 : vsock) h r,
  rec_branch s h = SOk s2 r ->
  undr s s2 /\ v_restart s2 = v_restart s /\
  (is_recovering (v_recovery s) = true -> is_recovering (v_recovery s2) = true).
Proof.
  intros s s2 h r H. unfold rec_branch in H.
  destruct (rv_phase (v_recovery s)) as [rp|d|rc] eqn:Ep;
    try (injection H as <- _; split; [intro K; exact K|]; split; [reflexivity|];
         unfold is_recovering; rewrite Ep; discriminate).
  pose proof (recovery_loop_sdr (rec_items s rc) s h (mss (v_ss s)) (rec_st0 rc)) as F.
  pose proof (recovery_loop_qb (rec_items s rc) s h (mss (v_ss s)) (rec_st0 rc)) as Q.
  destruct (recovery_loop _ s h _ _) as [s1 res| |]; cbn [sbind stR] in *; try discriminate.
  destruct (rec_after_keeps _ _ _ _ _ _ _ H) as (A1 & A2 & A3).
  destruct Q as (_ & _ & _ & _ & _ & _ & _ & _ & Q9 & _).
  split; [intro K; rewrite A2; apply (sdr_undr _ _ F K)|]. split; [congruence|]. intros _. exact A1.
Qed.

Lemma new_after_keeps : forall (s1 s' : vsock) tl u,
  new_after s1 tl = SOk s' u ->
  v_recovery s' = v_recovery s1 /\ undr s1 s'.
Proof.
  intros s1 s' tl u H. unfold new_after in H. destruct tl as [[sq sz]|]; [|injection H as <-; split; [reflexivity|intro K; exact K]].
  destruct (pop_mtu_probe (v_segs s1) sq) as [segs' popped] eqn:Ep. destruct popped; [|discriminate].
  injection H as <-. split; [reflexivity|]. unfold undr. vsimpl_goal.
  unfold pop_mtu_probe in Ep. destruct (last_and_init _) as [[init x]|] eqn:El; [|inversion Ep].
  destruct (_ && _ && _); inversion Ep; subst. cbn [set_segs ss_segs].
  apply (pop_back_und_false _ _ _ El).
Qed.

Lemma new_branch_keeps : forall (s s' : vsock) h u,
  new_branch cci s h = SOk s' u ->
  undr s s' /\ (is_recovering (v_recovery s) = true -> is_recovering (v_recovery s') = true).
Proof.
  intros s s' h u H. unfold new_branch in H.
  pose proof (new_data_loop_sdr (new_items s) s h (new_remaining cci s)) as F.
  pose proof (new_data_loop_qb (new_items s) s h (new_remaining cci s)) as Q.
  destruct (new_data_loop _ s h _) as [s1 tl| |]; cbn [sbind stR] in *; try discriminate.
  destruct (new_after_keeps _ _ _ _ H) as (A1 & A2).
  destruct Q as (_ & _ & Q3 & _).
  split; [intro K; apply A2; apply (sdr_undr _ _ F K)|]. rewrite A1, Q3. intro K; exact K.
Qed.

(* ------------------------------------------------------------------ after the RTO part *)
Lemma after_rto_k_undr : forall h (s s' : vsock) ret u, after_rto_k cci h s ret = SOk s' u -> undr s s'.
Proof.
  intros h s s' ret u H. unfold after_rto_k in H.
  destruct ret; [injection H as <-; intro K; exact K|].
  destruct (0 <? v_rto_retransmissions s); [injection H as <-; intro K; exact K|].
  destruct (ss_segs (v_segs s)) eqn:Es; [injection H as <-; intro K; exact K|].
  destruct (rec_branch s h) as [s2 r2| |] eqn:Er; cbn [sbind] in H; try discriminate.
  destruct (rec_branch_keeps _ _ _ _ Er) as (A1 & _).
  destruct r2; [injection H as <-; exact A1|].
  destruct (new_branch_keeps _ _ _ _ H) as (B1 & _). intro K. apply B1, A1, K.
Qed.

Lemma after_rto_k_stall : forall h (s s' : vsock) ret u,
  after_rto_k cci h s ret = SOk s' u -> v_restart s = false -> v_restart s' = false ->
  v_transport_pending s' = false -> (ret = true -> v_transport_pending s = true) ->
  (0 < v_rto_retransmissions s -> v_t_retransmit s <> None) -> stall_ok s'.
Proof.
  intros h s s' ret u H R0 R' T' Hret Hrm. unfold after_rto_k in H.
  destruct ret; [injection H as <-; specialize (Hret eq_refl); congruence|].
  destruct (Z.ltb_spec 0 (v_rto_retransmissions s)) as [L|L];
    [injection H as <-; apply stall_ok_armed; auto|].
  destruct (ss_segs (v_segs s)) eqn:Es.
  { injection H as <-. apply stall_ok_no_und. rewrite Es. reflexivity. }
  destruct (is_recovering (v_recovery s)) eqn:Erec.
  - destruct (rec_branch s h) as [s2 r2| |] eqn:Er; cbn [sbind] in H; try discriminate.
    destruct (rec_branch_keeps _ _ _ _ Er) as (_ & _ & A3). specialize (A3 Erec).
    destruct r2; [injection H as <-; apply stall_ok_recovering; exact A3|].
    destruct (new_branch_keeps _ _ _ _ H) as (_ & B2). apply stall_ok_recovering. auto.
  - rewrite (rec_branch_norec s h Erec) in H. cbn [sbind] in H.
    eapply new_branch_stall; eassumption.
Qed.

(* ------------------------------------------------------------------ send_tx_queue *)
Theorem send_tx_queue_stall : forall (s s' : vsock) u,
  rm s -> v_restart s = false -> send_tx_queue cci s = SOk s' u ->
  v_restart s' = false -> v_transport_pending s' = false -> stall_ok s'.
Proof.
  intros s s' u Hrm R0 H R' T'. rewrite send_tx_queue_eq in H.
  destruct (v_transport_pending s) eqn:Tp; [injection H as <-; congruence|].
  set (h := outgoing_header s) in *. clearbody h.
  destruct (rto_branch cci s h) as [s1 ret| |] eqn:Eb; cbn [sbind] in H; try discriminate.
  unfold rto_branch in Eb.
  destruct (timer_expired (v_t_retransmit s) (v_now s)).
  2:{ injection Eb as <- <-. eapply after_rto_k_stall; try eassumption; [discriminate|].
      intro K. apply Hrm. exact K. }
  destruct (iter_for_sending (v_segs s) None) as [|f l] eqn:Eit.
  - (* nothing undelivered *)
    assert (Hu : und (ss_segs (v_segs s1)) = false).
    { pose proof (iter_nil_und _ Eit) as U.
      destruct (our_fin_if_unacked _); [|injection Eb as <- _; exact U].
      destruct (_ =? _); [|injection Eb as <- _; exact U].
      set (s0 := set_last_sent_seq_nr s (wsub16 (v_last_sent_seq_nr s) 1)) in *.
      assert (E0 : v_segs s0 = v_segs s) by reflexivity. clearbody s0.
      pose proof (maybe_send_fin_segs s0) as Sg.
      destruct (maybe_send_fin s0) as [s2 sent| |]; cbn [sbind] in Eb; try discriminate.
      specialize (Sg s2 sent eq_refl).
      destruct sent; [|injection Eb as <- _; rewrite Sg, E0; exact U].
      destruct (on_rto_reactions cci s2) as [s3|] eqn:Er; [|discriminate].
      apply on_rto_reactions_pp in Er. destruct Er as (_ & _ & _ & _ & _ & R6).
      injection Eb as <- _. vsimpl_goal. rewrite R6, Sg, E0. exact U. }
    apply stall_ok_no_und. exact (after_rto_k_undr _ _ _ _ _ H Hu).
  - pose proof (send_data_spec s h f) as D.
    destruct (send_data s h f) as [s2 r|s2 e|]; try discriminate.
    destruct r; try discriminate.
    + (* resent: the timer is armed *)
      destruct D as (Df & _).
      assert (R2 : v_restart s2 = false) by (unfold sd_frame in Df; destruct Df as (_&_&_&_&_&_&_&_&_&_&Df&_); congruence).
      cbv zeta in Eb.
      match type of Eb with (match ?o with _ => _ end) = _ => destruct o as [s3|] eqn:E3 end; [|discriminate].
      assert (R3 : v_restart s3 = false).
      { destruct (negb _); [|injection E3 as <-; exact R2].
        apply on_rto_reactions_pp in E3. destruct E3 as (_ & _ & E3 & _). congruence. }
      injection Eb as <- <-.
      eapply after_rto_k_stall; try exact H; try assumption; [discriminate|].
      intros _. vsimpl_goal. apply timer_arm_some.
    + (* the transport blocked *)
      destruct D as [(Df & _ & _ & _ & Dt & _) Dp]. injection Eb as <- <-.
      unfold sd_frame in Df. destruct Df as (_&_&_&_&Drto&_&_&_&_&_&Dr&_).
      eapply after_rto_k_stall; try exact H; try assumption; [congruence|intros _; exact Dp|].
      rewrite Drto, Dt. intro K. apply Hrm. exact K.
Qed.

End WithCC.

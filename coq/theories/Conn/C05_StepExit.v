(* C05, leaving single-segment mode (c05_rto_exit_ok2): the RTO counter goes from positive to zero in a
   Pending poll only if bytes were removed from the table (cumulative progress), or a segment of the table as
   it was before the poll became delivered (selective progress), or the expired MTU probe was popped
   (boundary B6, as the state before the poll shows it).
   - [TM]: the table only moves forward (removed bytes, delivered flags of the first n segments);
   - what one ACK does when it acknowledges nothing / something ([ack_facts]);
   - the staged walk through a Pending poll. *)
From Utp Require Import Base.Prelude Wire.SeqNr Wire.Header Rtt.Rtte Rtt.Rtte_Proofs Mtu.SegSizes Rx.Rx Tx.Ring
  Tx.Segments Tx.Segments_Proofs Conn.Recovery Conn.Msg Conn.VSockRec Conn.VSock Conn.VSockRun Conn.VObs
  Conn.VSock_Lemmas Conn.VSock_LemmasTx Conn.VSock_LemmasIn Conn.VSock_LemmasStep Conn.VSock_LemmasReach
  Conn.VSock_LemmasTimers Conn.VSock_LemmasPipe Conn.VSock_PollAux Conn.C17_StepLemmas Conn.C05_Pred
  Conn.C05_Proofs Conn.C05_Flight Conn.C05_StepLemmas Conn.C05_Segs Conn.C05_Walk Conn.C05_StepZw.

(* ------------------------------------------------------------------ delivered counts *)
Fixpoint cds (l : list seg) : Z :=
  match l with [] => 0 | g :: r => (if sg_delivered g then 1 else 0) + cds r end.

Definition cdn (n : nat) (l : list seg) : Z := cds (firstn n l).

Lemma cds_app a b : cds (a ++ b) = cds a + cds b.
Proof. induction a as [|x xs IH]; cbn [app cds]; lia. Qed.

Lemma cds_nn l : 0 <= cds l.
Proof. induction l as [|x xs IH]; cbn [cds]; [lia|]. destruct (sg_delivered x); lia. Qed.

(* a segment that stays in the table: everything but the loss flags kept, delivered monotone *)
Definition sev1 (g g' : seg) : Prop :=
  sg_size g' = sg_size g /\ sg_sent g' = sg_sent g /\ sg_probe g' = sg_probe g /\
  (sg_delivered g = true -> sg_delivered g' = true).

(* ... and the delivered flag kept too *)
Definition sev0 (g g' : seg) : Prop :=
  sg_size g' = sg_size g /\ sg_sent g' = sg_sent g /\ sg_probe g' = sg_probe g /\
  sg_delivered g' = sg_delivered g.

Lemma sev0_sev1 g g' : sev0 g g' -> sev1 g g'.
Proof. intros (A & B & C & D). repeat split; auto. intro H. congruence. Qed.

Lemma sev1_refl g : sev1 g g.
Proof. unfold sev1. auto. Qed.
Lemma sev0_refl g : sev0 g g.
Proof. unfold sev0. auto. Qed.

Lemma sev1_trans a b c : sev1 a b -> sev1 b c -> sev1 a c.
Proof. unfold sev1. intros (A1&A2&A3&A4) (B1&B2&B3&B4). repeat split; try congruence. auto. Qed.
Lemma sev0_trans a b c : sev0 a b -> sev0 b c -> sev0 a c.
Proof. unfold sev0. intros (A1&A2&A3&A4) (B1&B2&B3&B4). repeat split; congruence. Qed.

Lemma F2_refl {A} (R : A -> A -> Prop) (Rr : forall x, R x x) l : Forall2 R l l.
Proof. induction l; constructor; auto. Qed.

Lemma F2_trans {A} (R : A -> A -> Prop) (Rt : forall x y z, R x y -> R y z -> R x z) :
  forall a b c, Forall2 R a b -> Forall2 R b c -> Forall2 R a c.
Proof.
  induction a as [|x xs IH]; intros b c H1 H2.
  - inversion H1; subst. inversion H2; subst. constructor.
  - inversion H1 as [|? y ? ys Hxy Hr]; subst. inversion H2 as [|? z ? zs Hyz Hr2]; subst.
    constructor; [eapply Rt; eauto|eapply IH; eauto].
Qed.

Lemma F2_impl {A} (R S : A -> A -> Prop) (H : forall x y, R x y -> S x y) l l' : Forall2 R l l' -> Forall2 S l l'.
Proof. induction 1; constructor; auto. Qed.

Lemma F2_length {A} (R : A -> A -> Prop) l l' : Forall2 R l l' -> length l' = length l.
Proof. induction 1; cbn [length]; congruence. Qed.

Lemma F2_firstn {A} (R : A -> A -> Prop) n : forall l l', Forall2 R l l' -> Forall2 R (firstn n l) (firstn n l').
Proof.
  induction n as [|n IH]; intros l l' H; [constructor|]. destruct H; cbn [firstn]; constructor; auto.
Qed.

Lemma sev1_cds l l' : Forall2 sev1 l l' -> cds l <= cds l'.
Proof.
  induction 1 as [|x y xs ys (_&_&_&Hd) _ IH]; cbn [cds]; [lia|].
  destruct (sg_delivered x); [rewrite (Hd eq_refl); lia|]. destruct (sg_delivered y); lia.
Qed.

Lemma sev0_cds l l' : Forall2 sev0 l l' -> cds l' = cds l.
Proof. induction 1 as [|x y xs ys (_&_&_&Hd) _ IH]; cbn [cds]; [reflexivity|]. rewrite Hd, IH. reflexivity. Qed.

Lemma sev1_cdn n l l' : Forall2 sev1 l l' -> cdn n l <= cdn n l'.
Proof. intro H. unfold cdn. apply sev1_cds. apply F2_firstn. exact H. Qed.

Lemma cdn_app n l x : cdn n l <= cdn n (l ++ x).
Proof.
  unfold cdn. rewrite firstn_app, cds_app. pose proof (cds_nn (firstn (n - length l) x)). lia.
Qed.

Lemma cdn_init n l g : sg_delivered g = false -> cdn n (l ++ [g]) = cdn n l.
Proof.
  intro Hg. unfold cdn. rewrite firstn_app, cds_app.
  destruct (n - length l)%nat; cbn [firstn cds]; [lia|]. rewrite Hg. destruct n0; cbn [firstn cds]; lia.
Qed.

Lemma sev1_lpos l l' : Forall2 sev1 l l' -> lpos l -> lpos l'.
Proof.
  unfold lpos. induction 1 as [|x y xs ys (Hs&_) _ IH]; intro H; [constructor|].
  inversion H; subst. constructor; [lia|auto].
Qed.

(* ------------------------------------------------------------------ the table moves forward *)
Definition TM (t t' : segments) : Prop :=
  ss_removed t <= ss_removed t' /\
  (ss_removed t' = ss_removed t -> forall n, cdn n (ss_segs t) <= cdn n (ss_segs t')).

Lemma TM_refl t : TM t t.
Proof. split; [lia|]. intros _ n. lia. Qed.

Lemma TM_trans a b c : TM a b -> TM b c -> TM a c.
Proof.
  intros (A1 & A2) (B1 & B2). split; [lia|]. intros E n.
  assert (E1 : ss_removed b = ss_removed a) by lia. assert (E2 : ss_removed c = ss_removed b) by lia.
  specialize (A2 E1 n). specialize (B2 E2 n). lia.
Qed.

Lemma TM_ev t t' : ss_removed t' = ss_removed t -> Forall2 sev1 (ss_segs t) (ss_segs t') -> TM t t'.
Proof. intros E H. split; [lia|]. intros _ n. apply sev1_cdn. exact H. Qed.

(* ------------------------------------------------------------------ one ACK *)
Lemma apply_sack_facts : forall l bits now a l' a',
  apply_sack l bits now a = (l', a') ->
  ac_cnt a <= ac_cnt a' /\ Forall2 sev1 l l' /\ cds l' = cds l + (ac_cnt a' - ac_cnt a) /\
  (ac_cnt a' = ac_cnt a -> l' = l).
Proof.
  induction l as [|s r IH]; intros bits now a l' a'; cbn [apply_sack].
  - intro H; injection H as <- <-. repeat split; try lia; constructor.
  - destruct bits as [|b bs].
    { intro H; injection H as <- <-. repeat split; try lia. apply F2_refl, sev1_refl. }
    destruct (negb (sg_delivered s) && b) eqn:Ec.
    + destruct (apply_sack r bs now _) as [r' a''] eqn:E. intro H; injection H as <- <-.
      destruct (IH _ _ _ _ _ E) as (I1 & I2 & I3 & I4). cbn [ac_cnt] in *.
      apply andb_true_iff in Ec. destruct Ec as [Ec _]. apply negb_true_iff in Ec.
      split; [lia|]. split.
      { constructor; [|exact I2]. unfold sev1, mark_delivered; cbn. repeat split; auto. }
      split; [cbn [cds mark_delivered sg_delivered]; rewrite Ec; lia|]. intro X. lia.
    + destruct (apply_sack r bs now a) as [r' a''] eqn:E. intro H; injection H as <- <-.
      destruct (IH _ _ _ _ _ E) as (I1 & I2 & I3 & I4).
      split; [exact I1|]. split; [constructor; [apply sev1_refl|exact I2]|].
      split; [cbn [cds]; lia|]. intro X. rewrite (I4 X). reflexivity.
Qed.

Lemma sack_phase_facts t rest a1 su now ack sk l' a' dp lse :
  sack_phase t rest a1 su now ack sk = (l', a', dp, lse) ->
  0 <= ac_cnt a' /\ Forall2 sev1 rest l' /\ cds l' = cds rest + ac_cnt a' /\ (ac_cnt a' = 0 -> l' = rest).
Proof.
  unfold sack_phase.
  assert (Hid : forall a0 : ack_acc, ac_cnt a0 = 0 ->
            0 <= ac_cnt a0 /\ Forall2 sev1 rest rest /\ cds rest = cds rest + ac_cnt a0 /\ (ac_cnt a0 = 0 -> rest = rest)).
  { intros a0 E. rewrite E. repeat split; try lia. apply F2_refl, sev1_refl. }
  destruct rest as [|s0 r0]; [intro H; injection H as <- <- _ _; apply Hid; reflexivity|].
  destruct sk as [k|]; [|intro H; injection H as <- <- _ _; apply Hid; reflexivity].
  destruct (seq_gt su ack); [|intro H; injection H as <- <- _ _; apply Hid; reflexivity].
  destruct (0 <=? seq_sub (wadd16 ack 2) su).
  - destruct (apply_sack (skipn _ (s0 :: r0)) (sk_bits k) now _) as [tl' a''] eqn:Ea.
    intro H; injection H as <- <- _ _.
    destruct (apply_sack_facts _ _ _ _ _ _ Ea) as (I1 & I2 & I3 & I4). cbn [ac_cnt] in *.
    split; [lia|]. split.
    { rewrite <- (firstn_skipn (Z.to_nat (seq_sub (wadd16 ack 2) su)) (s0 :: r0)) at 1.
      apply Forall2_app; [apply F2_refl, sev1_refl|exact I2]. }
    split.
    { rewrite cds_app, I3. rewrite <- (firstn_skipn (Z.to_nat (seq_sub (wadd16 ack 2) su)) (s0 :: r0)) at 3.
      rewrite cds_app. lia. }
    intro X. rewrite (I4 ltac:(lia)). apply firstn_skipn.
  - destruct (apply_sack (s0 :: r0) _ now _) as [l'' a''] eqn:Ea.
    intro H; injection H as <- <- _ _.
    destruct (apply_sack_facts _ _ _ _ _ _ Ea) as (I1 & I2 & I3 & I4). cbn [ac_cnt] in *.
    split; [lia|]. split; [exact I2|]. split; [lia|]. intro X. apply I4. lia.
Qed.

Lemma sum_sizes_lpos l : lpos l -> Z.of_nat (length l) <= sum_sizes l.
Proof. unfold lpos. induction 1 as [|g r Hg _ IH]; cbn [length sum_sizes]; lia. Qed.

Lemma ack_facts t now ack sk t' r :
  remove_up_to_ack t now ack sk = (t', r) -> lpos (ss_segs t) ->
  0 <= ar_acked_segments r /\ 0 <= ar_newly_sacked_segments r /\
  ss_removed t <= ss_removed t' /\
  (0 < ar_acked_segments r -> ss_removed t < ss_removed t') /\
  (ar_acked_segments r = 0 ->
     ss_removed t' = ss_removed t /\ Forall2 sev1 (ss_segs t) (ss_segs t') /\
     cds (ss_segs t') = cds (ss_segs t) + ar_newly_sacked_segments r /\
     (ar_newly_sacked_segments r = 0 -> ss_segs t' = ss_segs t)).
Proof.
  unfold remove_up_to_ack. intros H Hp.
  set (dc := if 0 <=? seq_sub ack (ss_snd_una t)
             then Z.to_nat (Z.min (seq_sub ack (ss_snd_una t) + 1) (len_z (ss_segs t))) else 0%nat) in *.
  set (a1 := drain_acc (firstn dc (ss_segs t)) now {| ac_rtt := None; ac_maxp := 0; ac_cnt := 0; ac_bytes := 0 |}) in *.
  destruct (drain_acc_spec (firstn dc (ss_segs t)) now {| ac_rtt := None; ac_maxp := 0; ac_cnt := 0; ac_bytes := 0 |})
    as [Hc1 Hb1]. fold a1 in Hc1, Hb1. cbn [ac_cnt ac_bytes] in Hc1, Hb1.
  destruct (sack_phase t (skipn dc (ss_segs t)) a1 _ now ack sk) as [[[rest2 a2] depth] lse] eqn:E2.
  destruct (sack_phase_facts _ _ _ _ _ _ _ _ _ _ _ E2) as (S1 & S2 & S3 & S4).
  destruct (strip_delivered rest2 0 0) as [[rest3 cnt3] bytes3] eqn:E3.
  destruct (strip_delivered_spec _ _ _ _ _ _ E3) as (dropped & Hd & Hc3 & Hb3 & _).
  injection H as <- <-. cbn [ss_segs ss_removed ar_acked_segments ar_newly_sacked_segments].
  assert (Hp1 : lpos (firstn dc (ss_segs t)) /\ lpos (skipn dc (ss_segs t))).
  { rewrite <- (firstn_skipn dc (ss_segs t)) in Hp. apply lpos_app in Hp. exact Hp. }
  destruct Hp1 as [Hpd Hpr].
  assert (Hp2 : lpos rest2) by (eapply sev1_lpos; eauto).
  rewrite Hd in Hp2. apply lpos_app in Hp2. destruct Hp2 as [Hpdrop _].
  pose proof (sum_sizes_lpos _ Hpd). pose proof (sum_sizes_lpos _ Hpdrop).
  split; [lia|]. split; [exact S1|]. split; [lia|]. split; [lia|].
  intro Hz.
  assert (Hl1 : length (firstn dc (ss_segs t)) = 0%nat) by lia.
  assert (Hl2 : length dropped = 0%nat) by lia.
  apply length_zero_iff_nil in Hl1, Hl2. subst dropped. cbn [app] in Hd. subst rest3.
  rewrite Hl1 in Hb1. cbn [sum_sizes] in Hb1, Hb3.
  assert (Hsk : skipn dc (ss_segs t) = ss_segs t).
  { rewrite <- (firstn_skipn dc (ss_segs t)) at 2. rewrite Hl1. reflexivity. }
  rewrite Hsk in *.
  split; [lia|]. split; [exact S2|]. split; [exact S3|exact S4].
Qed.

(* ------------------------------------------------------------------ the other table operations *)
Lemma calc_pipe_sev0 t hr hd rtt now t' p rc :
  calc_pipe t hr hd rtt now = Some (t', p, rc) ->
  Forall2 sev0 (ss_segs t) (ss_segs t') /\ ss_removed t' = ss_removed t.
Proof.
  unfold calc_pipe. destruct (_ <? _); [discriminate|].
  destruct (pipe_loop _ t hr _ now _) as [upd a] eqn:E. intro H; injection H as <- _ _.
  unfold Segments.set_segs; cbn [ss_segs ss_removed]. split; [|reflexivity].
  assert (Hl : forall l a0 l' a', pipe_loop l t hr (calc_pipe_expiry rtt) now a0 = (l', a') -> Forall2 sev0 (map snd l) l').
  { clear. induction l as [|[off s] r IH]; intros a0 l' a'; cbn [pipe_loop].
    - intro H; injection H as <- _. constructor.
    - destruct (seg_last_sent s) eqn:Els.
      + destruct (sg_delivered s) eqn:Ed.
        * destruct (pipe_loop r t hr _ now _) as [r' a''] eqn:E. intro H; injection H as <- _.
          cbn [map snd]. constructor; [apply sev0_refl|exact (IH _ _ _ E)].
        * destruct (pipe_loop r t hr _ now _) as [r' a''] eqn:E. intro H; injection H as <- _.
          cbn [map snd]. constructor; [|exact (IH _ _ _ E)]. unfold sev0; cbn. auto.
      + destruct (pipe_loop r t hr _ now a0) as [r' a''] eqn:E. intro H; injection H as <- _.
        cbn [map snd]. constructor; [apply sev0_refl|exact (IH _ _ _ E)]. }
  apply Hl in E. rewrite map_rev, enum_from_snd in E.
  apply Forall2_rev in E. rewrite rev_involutive in E.
  rewrite <- (firstn_skipn (Z.to_nat (Z.min (Z.max (seq_sub hd (ss_snd_una t)) 0) (len_z (ss_segs t)))) (ss_segs t)) at 1.
  apply Forall2_app; [exact E|apply F2_refl, sev0_refl].
Qed.

Lemma TM_dl t t' :
  ss_removed t' = ss_removed t ->
  Forall2 (fun g g' => sg_delivered g = true -> sg_delivered g' = true) (ss_segs t) (ss_segs t') -> TM t t'.
Proof.
  intros E H. split; [lia|]. intros _ n. unfold cdn.
  assert (G : forall l l', Forall2 (fun g g' => sg_delivered g = true -> sg_delivered g' = true) l l' -> cds l <= cds l').
  { induction 1 as [|x y xs ys Hd _ IH]; cbn [cds]; [lia|].
    destruct (sg_delivered x); [rewrite (Hd eq_refl); lia|]. destruct (sg_delivered y); lia. }
  apply G. apply F2_firstn. exact H.
Qed.

Lemma TM_ack t now ack sk t' r : remove_up_to_ack t now ack sk = (t', r) -> lpos (ss_segs t) -> TM t t'.
Proof.
  intros H Hp. destruct (ack_facts _ _ _ _ _ _ H Hp) as (A1 & A2 & A3 & A4 & A5).
  split; [exact A3|]. intros E n.
  destruct (Z.eq_dec (ar_acked_segments r) 0) as [Hz|Hz]; [|specialize (A4 ltac:(lia)); lia].
  destruct (A5 Hz) as (_ & Hev & _). apply sev1_cdn. exact Hev.
Qed.

Lemma TM_pipe t hr hd rtt now t' p rc : calc_pipe t hr hd rtt now = Some (t', p, rc) -> TM t t'.
Proof.
  intro H. destruct (calc_pipe_sev0 _ _ _ _ _ _ _ _ H) as [Hev Hr].
  apply TM_ev; [exact Hr|]. eapply F2_impl; [|exact Hev]. apply sev0_sev1.
Qed.

Lemma TM_on_sent t i now : TM t (on_sent t i now).
Proof.
  apply TM_dl; [reflexivity|]. unfold on_sent, Segments.set_segs; cbn [ss_segs].
  generalize (ss_segs t) as l. intro l. revert i. induction l as [|x xs IH]; intros [|i]; cbn [update_nth]; constructor;
    auto; try (apply F2_refl; auto).
Qed.

Lemma TM_on_sent_all now : forall sent t, TM t (on_sent_all t now sent).
Proof.
  induction sent as [|f r IH]; intro t; cbn [on_sent_all fold_left]; [apply TM_refl|].
  fold (on_sent_all (on_sent t (fs_idx f) now) now r). eapply TM_trans; [apply TM_on_sent|apply IH].
Qed.

Lemma TM_app t t' new : ss_removed t' = ss_removed t -> ss_segs t' = ss_segs t ++ new -> TM t t'.
Proof. intros E H. split; [lia|]. intros _ n. rewrite H. apply cdn_app. Qed.

Lemma TM_init t t' init g :
  ss_removed t' = ss_removed t -> ss_segs t = init ++ [g] -> ss_segs t' = init -> sg_delivered g = false -> TM t t'.
Proof. intros E H1 H2 Hg. split; [lia|]. intros _ n. rewrite H1, H2, cdn_init by exact Hg. lia. Qed.

Lemma TM_pop_mtu t q t' b : pop_mtu_probe t q = (t', b) -> TM t t'.
Proof.
  unfold pop_mtu_probe. destruct (last_and_init (ss_segs t)) as [[init g]|] eqn:E.
  - destruct (_ && sg_probe g && negb (sg_delivered g)) eqn:Ec; intro H; injection H as <- _; [|apply TM_refl].
    apply andb_true_iff in Ec. destruct Ec as [_ Ec]. apply negb_true_iff in Ec.
    apply Segments_ProofsOut.last_and_init_app in E.
    eapply TM_init; [reflexivity|exact E|reflexivity|exact Ec].
  - intro H; injection H as <- _. apply TM_refl.
Qed.

Lemma TM_pop_expired t to mr t' pe : pop_expired_mtu_probe t to mr = (t', pe) -> TM t t'.
Proof.
  unfold pop_expired_mtu_probe. destruct (last_and_init (ss_segs t)) as [[init g]|] eqn:E.
  - destruct (sg_delivered g) eqn:Ed; [intro H; injection H as <- _; apply TM_refl|].
    destruct (to && sg_probe g && (mr <=? seg_retransmit_count g));
      [|destruct (sg_probe g); intro H; injection H as <- _; apply TM_refl].
    intro H; injection H as <- _. apply Segments_ProofsOut.last_and_init_app in E.
    eapply TM_init; [reflexivity|exact E|reflexivity|exact Ed].
  - intro H; injection H as <- _. apply TM_refl.
Qed.

Lemma segment_loop_removed : forall fuel nagle ss segs rm rwr ss' segs' rm',
  segment_loop fuel nagle ss segs rm rwr = Some (ss', segs', rm') ->
  exists new, ss_segs segs' = ss_segs segs ++ new /\ ss_removed segs' = ss_removed segs.
Proof.
  induction fuel as [|b fuel IH]; intros nagle ss segs rm rwr ss' segs' rm'; cbn [segment_loop].
  - intro H; injection H as _ <- _. exists []. rewrite app_nil_r. auto.
  - destruct (_ && _); [|intro H; injection H as _ <- _; exists []; rewrite app_nil_r; auto].
    destruct (next_segment_size ss) as [[ss1 sz]|]; [|discriminate].
    destruct (nagle && _ && _); [intro H; injection H as _ <- _; exists []; rewrite app_nil_r; auto|].
    destruct (mss ss1 <? _).
    + intro H; injection H as _ <- _. eexists. split; reflexivity.
    + intro H. destruct (IH _ _ _ _ _ _ _ _ H) as (new & E1 & E2). rewrite E1, E2.
      unfold enqueue, Segments.set_segs. cbn [ss_segs ss_removed]. rewrite <- app_assoc. eexists. split; reflexivity.
Qed.

Section WithCC.
Context {CC : Type} (cci : cc_iface CC).
Notation vsock := (vsock CC).

(* ------------------------------------------------------------------ TS: sp kept, the table moves forward *)
Definition TS (s s' : vsock) : Prop := sp s -> sp s' /\ TM (v_segs s) (v_segs s').

Lemma TS_refl s : TS s s.
Proof. intro H. split; [exact H|apply TM_refl]. Qed.

Lemma TS_trans a b c : TS a b -> TS b c -> TS a c.
Proof.
  intros F G H. destruct (F H) as [H1 T1]. destruct (G H1) as [H2 T2]. split; [exact H2|eapply TM_trans; eauto].
Qed.

Lemma TS_same (s s' : vsock) : spR s s' -> v_segs s' = v_segs s -> TS s s'.
Proof. intros HS E H. split; [apply HS; exact H|rewrite E; apply TM_refl]. Qed.

Lemma TS_of (s s' : vsock) : spR s s' -> TM (v_segs s) (v_segs s') -> TS s s'.
Proof. intros HS HT H. split; [apply HS; exact H|exact HT]. Qed.

Lemma SQ_TS (s s' : vsock) : SQ s s' -> TS s s'.
Proof. intro H. apply TS_same; [apply SQ_spR; exact H|]. destruct H as (_&_&_&_&_&A6&_). exact A6. Qed.

Lemma stk_SQ_TS {A} (s : vsock) (m : step A) : stk SQ s m -> stRk TS s m.
Proof. destruct m; cbn [stk stRk]; auto using SQ_TS. Qed.

Ltac ts_same := apply TS_same; [apply spR_same; exact eq_refl|exact eq_refl].

Lemma recovery_on_ack_TM r h segs ls cc now rtt r' segs' cc' :
  recovery_on_ack cci r h segs ls cc now rtt = Some (r', segs', cc') -> TM segs segs'.
Proof.
  intros H. unfold recovery_on_ack in H. cbn [rv_phase] in H. destruct (rv_phase r).
  - destruct (seq_ge _ _); inversion H; subst; apply TM_refl.
  - destruct (ss_segs segs) eqn:Es; [inversion H; subst; apply TM_refl|].
    match type of H with match ?c with _ => _ end = _ => destruct c as [[dup' la']|] end; [|discriminate].
    destruct (_ <? _); [inversion H; subst; apply TM_refl|].
    destruct (calc_pipe _ _ _ _ _) as [[[sg pipe] recalc]|] eqn:Ec; [|discriminate].
    inversion H; subst. eapply TM_pipe; eauto.
  - destruct (seq_ge _ _); inversion H; subst; apply TM_refl.
Qed.

Lemma pim_ack_TS s1 h s2 res : pim_ack cci s1 h = Some (s2, res) -> TS s1 s2.
Proof.
  intros H Hsp. split; [eapply pim_ack_spR; eauto|]. revert H.
  unfold pim_ack. destruct (remove_up_to_ack _ _ _ _) as [segs1 res0] eqn:Er.
  destruct (match is_recovering (v_recovery s1) with true => _ | false => _ end) as [rtte1|]; [|discriminate].
  destruct (cc_on_ack cci _ _ _ _) as [cc3|]; [|discriminate].
  destruct (recovery_on_ack cci _ _ _ _ _ _ _) as [[[rec1 segs2] cc4]|] eqn:Eo; [|discriminate].
  intro H; injection H as <- _. vsimpl_goal.
  eapply TM_trans; [eapply TM_ack; [exact Er|apply Hsp]|eapply recovery_on_ack_TM; exact Eo].
Qed.

Lemma process_incoming_message_TS s m : stRk TS s (process_incoming_message cci s m).
Proof.
  rewrite process_incoming_message_eq.
  assert (Ht : TS s (tbl_state (state_table s (m_hdr m)))).
  { apply TS_same; [apply state_table_spR|].
    unfold state_table, restart_remote_inactivity_timer.
    destruct (ch_type (m_hdr m)); destruct (v_state s); cbn [tbl_state negb];
      repeat (match goal with |- context [if ?c then _ else _] => destruct c end);
      cbn [tbl_state]; reflexivity. }
  destruct (state_table s (m_hdr m)) as [s1|s1 e|s1]; cbn [tbl_state] in Ht; [exact Ht|exact I|].
  eapply (stRk_weaken TS TS_trans); [exact Ht|].
  unfold pim_cont. destruct (pim_ack cci s1 (m_hdr m)) as [[s2 res]|] eqn:Ea; [|exact I].
  pose proof (pim_ack_TS _ _ _ _ Ea) as H2. cbv zeta.
  destruct (ch_type (m_hdr m)); try exact H2.
  - eapply (stRk_weaken TS TS_trans); [exact H2|].
    pose proof (pim_data_spR cci s2 m res (seq_sub (ch_seq (m_hdr m)) (wadd16 (v_last_consumed s2) 1))) as HS.
    pose proof (pim_data_MQ0 cci s2 m res (seq_sub (ch_seq (m_hdr m)) (wadd16 (v_last_consumed s2) 1))) as HM.
    assert (Hseg : stk (fun s s' => v_segs s' = v_segs s) s2
                     (pim_data cci s2 m res (seq_sub (ch_seq (m_hdr m)) (wadd16 (v_last_consumed s2) 1)))).
    { unfold pim_data. destruct (_ <? 0); [reflexivity|]. cbv zeta.
      destruct (rx_add_remove _ KData (m_payload m) _) as [[rx1 ar] w].
      destruct ar as [r0|]; [|exact I]. destruct (add_err r0); [exact I|].
      match goal with |- context [send_ack (force_immediate_ack ?x)] => set (s5 := x) end.
      assert (E5 : v_segs s5 = v_segs s2) by (subst s5; unfold restart_remote_inactivity_timer, add_wakes; destruct r0; reflexivity).
      clearbody s5. destruct (_ || _); [|exact E5].
      pose proof (send_ack_SQ (force_immediate_ack s5)) as Ha.
      destruct (send_ack (force_immediate_ack s5)) as [s6 b|s6 e|]; cbn [sbind stk] in *; auto.
      destruct Ha as (_&_&_&_&_&A6&_). rewrite A6. exact E5. }
    destruct (pim_data cci s2 m res _) as [s3 r3|s3 e3|]; cbn [stRk stk] in *; auto.
    apply TS_same; assumption.
  - eapply (stRk_weaken TS TS_trans); [exact H2|].
    pose proof (pim_fin_spR s2 m res (seq_sub (ch_seq (m_hdr m)) (wadd16 (v_last_consumed s2) 1))
                  (is_remote_fin_or_later (v_state s))) as HS.
    assert (Hseg : stk (fun s s' => v_segs s' = v_segs s) s2
                     (pim_fin s2 m res (seq_sub (ch_seq (m_hdr m)) (wadd16 (v_last_consumed s2) 1))
                        (is_remote_fin_or_later (v_state s)))).
    { unfold pim_fin. cbv zeta. destruct (_ && _).
      - destruct (rx_add_remove _ KFin _ _) as [[rx1 ar] w]. destruct ar as [r0|]; [|exact I].
        destruct (add_err r0); [exact I|]. destruct (mark_vsock_closed _) as [tx1 w2]. reflexivity.
      - reflexivity. }
    destruct (pim_fin s2 m res _ _) as [s3 r3|s3 e3|]; cbn [stRk stk] in *; auto.
    apply TS_same; assumption.
Qed.

Lemma maybe_send_fin_TS (s : vsock) : stRk TS s (maybe_send_fin s).
Proof.
  pose proof (maybe_send_fin_spR s) as HS. pose proof (maybe_send_fin_spec s) as H.
  destruct (maybe_send_fin s) as [s' [|]|s' e|]; cbn [stRk] in *; auto.
  - destruct H as (seq & _ & _ & _ & _ & Hsg & _). apply TS_same; assumption.
  - destruct H as (_ & _ & Hsg & _). apply TS_same; assumption.
Qed.

Lemma recv_loop_TS : forall fuel (s : vsock) acc, stRk TS s (recv_loop cci fuel s acc).
Proof.
  assert (Hbase : forall (s : vsock) (acc : on_ack_result),
    stRk TS s
      (if v_inbox_closed s
       then sbind (maybe_send_fin (transition_to_fin_wait_1 s))
                  (fun s2 _ => SOk (set_state s2 Closed) (acc, true))
       else SOk (set_inbox_waker s true) (acc, false))).
  { intros s acc. destruct (v_inbox_closed s); [|cbn [stRk]; ts_same].
    eapply (stRk_weaken TS TS_trans); [apply SQ_TS, transition_to_fin_wait_1_SQ|].
    apply (stRk_bind TS TS_trans); [apply maybe_send_fin_TS|]. intros s2 _. cbn [stRk]. ts_same. }
  induction fuel as [|m0 fuel IH]; intros s acc; cbn [recv_loop];
    destruct (v_inbox s) as [|m rest] eqn:Ei; try apply Hbase; try exact I.
  eapply (stRk_weaken TS TS_trans) with (s := set_inbox s rest); [ts_same|].
  apply (stRk_bind TS TS_trans); [apply process_incoming_message_TS|].
  intros s1 r. destruct (_ || _); [apply TS_refl|apply IH].
Qed.

Lemma pa_tail_TS (s1 : vsock) res : stRk TS s1 (pa_tail s1 res).
Proof.
  destruct res as [r early]. rewrite pa_tail_eq.
  apply (stRk_bind TS TS_trans).
  - unfold pa_trunc.
    assert (F2 : TS s1 (pa_reset r s1)).
    { unfold pa_reset. destruct (_ || _); [|apply TS_refl].
      destruct (ss_segs _); [destruct (our_fin_if_unacked _)|]; unfold restart_remote_inactivity_timer; ts_same. }
    eapply (stRk_weaken TS TS_trans); [exact F2|].
    destruct (0 <? _); [|apply TS_refl]. cbv zeta.
    assert (Ha : TS (pa_reset r s1) (acked_counts_as_sent (pa_reset r s1))).
    { unfold acked_counts_as_sent. destruct (seq_gt _ _ && seq_lt _ _); [ts_same|apply TS_refl]. }
    revert Ha. generalize (acked_counts_as_sent (pa_reset r s1)). intros s2' Ha.
    destruct (truncate_front _ _) as [tx1 tr]. destruct tr; [|exact I].
    destruct (wake_writer tx1) as [tx2 w]. cbn [stRk]. eapply TS_trans; [exact Ha|]. unfold add_wakes. ts_same.
  - intros s3 _. unfold pa_pipe. destruct (rv_phase _); try apply TS_refl.
    destruct (calc_pipe _ _ _ _ _) as [[[segs' pipe] recalc]|] eqn:Ec; [|exact I].
    cbn [stRk]. intros [H1 H2]. split.
    + unfold sp, set_recovering. vsimpl_goal. split; [exact H1|]. eapply calc_pipe_tpos; eauto.
    + unfold set_recovering. vsimpl_goal. eapply TM_pipe; eauto.
Qed.

Lemma process_all_TS (s : vsock) : stRk TS s (process_all_incoming_messages cci s).
Proof.
  rewrite process_all_eq. apply (stRk_bind TS TS_trans); [apply recv_loop_TS|]. intros s1 res. apply pa_tail_TS.
Qed.

Lemma split_TS (s : vsock) : stRk TS s (split_tx_queue_into_segments cci s).
Proof.
  pose proof (split_spR cci s) as HS.
  unfold split_tx_queue_into_segments in *. cbv zeta in *.
  destruct (_ =? 0); [cbn [stRk]; ts_same|].
  match goal with |- stRk _ _ (if is_remote_fin_or_later (v_state ?x) then _ else _) => set (sx := x) in * end.
  assert (F : v_segs sx = v_segs s).
  { subst sx. destruct (_ && _); [|reflexivity]. destruct (grow _ _) as [tx1 g]. destruct g; [|reflexivity].
    destruct (wake_writer tx1) as [tx2 w]. reflexivity. }
  clearbody sx.
  destruct (is_remote_fin_or_later _); [cbn [stRk] in *; apply TS_same; assumption|].
  destruct (pop_expired_mtu_probe _ _ _) as [segs1 pe] eqn:Ep.
  pose proof (TM_pop_expired _ _ _ _ _ Ep) as Tp. rewrite F in Tp.
  assert (Hcont : forall (tl : Z) (s2 : vsock), TM (v_segs s) (v_segs s2) ->
    forall m', m' = (if tl <? ss_len_bytes (v_segs s2) then SErr s2 (ErrBug BugInBufferComputations)
       else match segment_loop (ring (v_tx s2)) (o_nagle (v_opts s2)) (v_ss s2) (v_segs s2)
                    (tl - ss_len_bytes (v_segs s2)) (v_last_remote_window s2) with
            | Some (ss', segs', remaining) =>
                SOk (set_unsegmented (VSockRec.set_segs (set_ss s2 ss') segs') remaining) tt
            | None => SPanic
            end) -> stRk spR s m' -> stRk TS s m').
  { clear HS. intros tl s2 F2 m' ->. destruct (tl <? ss_len_bytes (v_segs s2)); [intros _; exact I|].
    destruct (segment_loop _ _ _ _ _ _) as [[[ss' segs'] rem]|] eqn:El; [|intros _; exact I].
    cbn [stRk]. intros HS' Hsp. split; [apply HS'; exact Hsp|]. vsimpl_goal.
    destruct (segment_loop_removed _ _ _ _ _ _ _ _ _ El) as (new & N1 & N2).
    eapply TM_trans; [exact F2|]. eapply TM_app; eauto. }
  destruct pe.
  - eapply Hcont; [|reflexivity|exact HS]. destruct (seq_gt _ _); vsimpl_goal; exact Tp.
  - cbn [stRk] in *. intro Hsp. split; [apply HS; exact Hsp|]. vsimpl_goal. rewrite F. apply TM_refl.
  - eapply Hcont; [|reflexivity|exact HS]. rewrite F. apply TM_refl.
Qed.

Lemma send_tx_queue_TS (s : vsock) : stRk TS s (send_tx_queue cci s).
Proof.
  pose proof (send_tx_queue_spR cci s) as HS.
  destruct (send_tx_queue cci s) as [s' u|s' e|] eqn:E; cbn [stRk] in *; auto.
  intro Hsp. split; [apply HS; exact Hsp|].
  assert (Hst : step_st (send_tx_queue cci s) = Some s') by (rewrite E; reflexivity).
  (* the table changes by on_sent and by the pop of the failing probe only *)
  revert E. rewrite send_tx_queue_eq. destruct (v_transport_pending s); [intro E; injection E as <-; apply TM_refl|].
  set (h := outgoing_header s).
  destruct (rto_branch cci s h) as [s1 ret|s1 e|] eqn:Er; cbn [sbind]; try discriminate.
  assert (Hs1 : step_st (rto_branch cci s h) = Some s1) by (rewrite Er; reflexivity).
  pose proof (rto_branch_spec cci _ _ _ Hs1) as Ho. rewrite Er in Ho.
  assert (T1 : TM (v_segs s) (v_segs s1)).
  { destruct Ho as [_ _ Hsg _ _ _| f rest _ _ _ _ _ Hsg _ _ _ _ _ _ _ _ _ _| fin _ _ _ _ _ _ Hsg _ _ _ _ _ _ _ _].
    - rewrite Hsg. apply TM_refl.
    - rewrite Hsg. apply TM_on_sent.
    - rewrite Hsg. apply TM_refl. }
  unfold after_rto_k. destruct ret; [intro E; injection E as <-; exact T1|].
  destruct (0 <? _); [intro E; injection E as <-; exact T1|].
  destruct (ss_segs (v_segs s1)) eqn:Esg; [intro E; injection E as <-; exact T1|].
  destruct (rec_branch s1 h) as [s2 ret2|s2 e2|] eqn:Erb; cbn [sbind]; try discriminate.
  assert (Hs2 : step_st (rec_branch s1 h) = Some s2) by (rewrite Erb; reflexivity).
  assert (T2 : TM (v_segs s1) (v_segs s2)).
  { destruct (rec_branch_spec _ _ _ Hs2) as [(_ & _ & ->)|(rc & sent & s1' & _ & _ & (_ & _ & Hsg & _) & _ & _ & A2 & _)];
      [apply TM_refl|]. rewrite A2, Hsg. apply TM_on_sent_all. }
  destruct ret2; [intro E; injection E as <-; eapply TM_trans; eauto|].
  unfold new_branch.
  destruct (new_data_loop (new_items s2) s2 h (new_remaining cci s2)) as [s3 tl|s3 e3|] eqn:El; cbn [sbind]; try discriminate.
  assert (Hl : step_st (new_data_loop (new_items s2) s2 h (new_remaining cci s2)) = Some s3) by (rewrite El; reflexivity).
  destruct (new_data_loop_spec _ _ _ _ _ (new_remaining_nonneg cci s2) Hl) as (sent & rest & _ & (_ & _ & Hsg3 & _) & _).
  assert (T3 : TM (v_segs s2) (v_segs s3)) by (rewrite Hsg3; apply TM_on_sent_all).
  unfold new_after. destruct tl as [[sq sz]|]; [|intro E; injection E as <-; eapply TM_trans; [exact T1|eapply TM_trans; eauto]].
  destruct (pop_mtu_probe (v_segs s3) sq) as [segs' popped] eqn:Ep. destruct popped; [|discriminate].
  intro E; injection E as <-. vsimpl_goal.
  eapply TM_trans; [exact T1|]. eapply TM_trans; [exact T2|]. eapply TM_trans; [exact T3|]. eapply TM_pop_mtu; eauto.
Qed.

(* ------------------------------------------------------------------ what one message acknowledges *)
Definition sgs (s : vsock) : list seg := ss_segs (v_segs s).
Definition rmv (s : vsock) : Z := ss_removed (v_segs s).

(* acc: what the messages processed so far acknowledged, base: the state before the first of them *)
Definition INVacc (base : vsock) (acc : on_ack_result) (s : vsock) : Prop :=
  0 <= ar_acked_segments acc /\ 0 <= ar_newly_sacked_segments acc /\
  (ar_acked_segments acc = 0 ->
     rmv s = rmv base /\ Forall2 sev1 (sgs base) (sgs s) /\
     cds (sgs s) = cds (sgs base) + ar_newly_sacked_segments acc /\
     (ar_newly_sacked_segments acc = 0 -> Forall2 sev0 (sgs base) (sgs s))) /\
  (0 < ar_acked_segments acc -> rmv base < rmv s).

Lemma INVacc_same base acc (s s' : vsock) : v_segs s' = v_segs s -> INVacc base acc s -> INVacc base acc s'.
Proof. unfold INVacc, sgs, rmv. intros ->. auto. Qed.

Lemma recovery_on_ack_sev0 r h segs ls cc now rtt r' segs' cc' :
  recovery_on_ack cci r h segs ls cc now rtt = Some (r', segs', cc') ->
  Forall2 sev0 (ss_segs segs) (ss_segs segs') /\ ss_removed segs' = ss_removed segs.
Proof.
  intros H. unfold recovery_on_ack in H. cbn [rv_phase] in H.
  assert (Hid : Forall2 sev0 (ss_segs segs) (ss_segs segs) /\ ss_removed segs = ss_removed segs)
    by (split; [apply F2_refl, sev0_refl|reflexivity]).
  destruct (rv_phase r).
  - destruct (seq_ge _ _); inversion H; subst; exact Hid.
  - destruct (ss_segs segs) eqn:Es; [inversion H; subst; rewrite Es; split; [constructor|reflexivity]|].
    rewrite <- Es in *.
    match type of H with match ?c with _ => _ end = _ => destruct c as [[dup' la']|] end; [|discriminate].
    destruct (_ <? _); [inversion H; subst; exact Hid|].
    destruct (calc_pipe _ _ _ _ _) as [[[sg pipe] recalc]|] eqn:Ec; [|discriminate].
    inversion H; subst. eapply calc_pipe_sev0; eauto.
  - destruct (seq_ge _ _); inversion H; subst; exact Hid.
Qed.

(* one message from a state s with sp: the step result r and the table *)
Lemma msg_track (s : vsock) m :
  sp s ->
  match process_incoming_message cci s m with
  | SOk s1 r =>
      0 <= ar_acked_segments r /\ 0 <= ar_newly_sacked_segments r /\ rmv s <= rmv s1 /\
      (ar_acked_segments r = 0 ->
         rmv s1 = rmv s /\ Forall2 sev1 (sgs s) (sgs s1) /\
         cds (sgs s1) = cds (sgs s) + ar_newly_sacked_segments r /\
         (ar_newly_sacked_segments r = 0 -> Forall2 sev0 (sgs s) (sgs s1))) /\
      (0 < ar_acked_segments r -> rmv s < rmv s1)
  | _ => True
  end.
Proof.
  intro Hsp. rewrite process_incoming_message_eq.
  assert (Hsame : forall s1 : vsock, v_segs s1 = v_segs s ->
            0 <= ar_acked_segments on_ack_result_default /\ 0 <= ar_newly_sacked_segments on_ack_result_default /\
            rmv s <= rmv s1 /\
            (ar_acked_segments on_ack_result_default = 0 ->
               rmv s1 = rmv s /\ Forall2 sev1 (sgs s) (sgs s1) /\
               cds (sgs s1) = cds (sgs s) + ar_newly_sacked_segments on_ack_result_default /\
               (ar_newly_sacked_segments on_ack_result_default = 0 -> Forall2 sev0 (sgs s) (sgs s1))) /\
            (0 < ar_acked_segments on_ack_result_default -> rmv s < rmv s1)).
  { intros s1 E. unfold rmv, sgs. rewrite E. cbn [on_ack_result_default ar_acked_segments ar_newly_sacked_segments].
    repeat split; try lia; auto using F2_refl, sev1_refl, sev0_refl. }
  assert (Ht : v_segs (tbl_state (state_table s (m_hdr m))) = v_segs s).
  { unfold state_table, restart_remote_inactivity_timer.
    destruct (ch_type (m_hdr m)); destruct (v_state s); cbn [tbl_state negb];
      repeat (match goal with |- context [if ?c then _ else _] => destruct c end);
      cbn [tbl_state]; reflexivity. }
  destruct (state_table s (m_hdr m)) as [s1|s1 e|s1]; cbn [tbl_state] in Ht; [apply Hsame; exact Ht|exact I|].
  unfold pim_cont. destruct (pim_ack cci s1 (m_hdr m)) as [[s2 res]|] eqn:Ea; [|exact I].
  (* the ACK part *)
  assert (H2 : 0 <= ar_acked_segments res /\ 0 <= ar_newly_sacked_segments res /\ rmv s <= rmv s2 /\
               (ar_acked_segments res = 0 ->
                  rmv s2 = rmv s /\ Forall2 sev1 (sgs s) (sgs s2) /\
                  cds (sgs s2) = cds (sgs s) + ar_newly_sacked_segments res /\
                  (ar_newly_sacked_segments res = 0 -> Forall2 sev0 (sgs s) (sgs s2))) /\
               (0 < ar_acked_segments res -> rmv s < rmv s2)).
  { revert Ea. unfold pim_ack. destruct (remove_up_to_ack _ _ _ _) as [segs1 res0] eqn:Er.
    destruct (match is_recovering (v_recovery s1) with true => _ | false => _ end) as [rtte1|]; [|discriminate].
    destruct (cc_on_ack cci _ _ _ _) as [cc3|]; [|discriminate].
    destruct (recovery_on_ack cci _ _ _ _ _ _ _) as [[[rec1 segs2] cc4]|] eqn:Eo; [|discriminate].
    intro H; injection H as <- <-. unfold rmv, sgs. vsimpl_goal.
    rewrite Ht in Er.
    assert (Hp : lpos (ss_segs (v_segs s))) by apply Hsp.
    destruct (ack_facts _ _ _ _ _ _ Er Hp) as (A1 & A2 & A3 & A4 & A5).
    destruct (recovery_on_ack_sev0 _ _ _ _ _ _ _ _ _ _ Eo) as (R1 & R2).
    rewrite R2. split; [exact A1|]. split; [exact A2|]. split; [exact A3|]. split; [|exact A4].
    intro Hz. destruct (A5 Hz) as (B1 & B2 & B3 & B4).
    split; [exact B1|]. split.
    { eapply (F2_trans sev1 sev1_trans); [exact B2|]. eapply F2_impl; [|exact R1]. apply sev0_sev1. }
    split; [rewrite (sev0_cds _ _ R1); exact B3|].
    intro Hs. rewrite (B4 Hs) in R1. exact R1. }
  cbv zeta.
  assert (Hfin : forall (m' : step on_ack_result),
            stk (fun s2 s3 => v_segs s3 = v_segs s2) s2 m' ->
            (forall s3 r3, m' = SOk s3 r3 -> r3 = res) ->
            match m' with
            | SOk s3 r =>
                0 <= ar_acked_segments r /\ 0 <= ar_newly_sacked_segments r /\ rmv s <= rmv s3 /\
                (ar_acked_segments r = 0 ->
                   rmv s3 = rmv s /\ Forall2 sev1 (sgs s) (sgs s3) /\
                   cds (sgs s3) = cds (sgs s) + ar_newly_sacked_segments r /\
                   (ar_newly_sacked_segments r = 0 -> Forall2 sev0 (sgs s) (sgs s3))) /\
                (0 < ar_acked_segments r -> rmv s < rmv s3)
            | _ => True
            end).
  { intros m' Hk Hr. destruct m' as [s3 r3|s3 e3|]; auto. cbn [stk] in Hk.
    rewrite (Hr s3 r3 eq_refl). unfold rmv, sgs in *. rewrite Hk. exact H2. }
  destruct (ch_type (m_hdr m)); try exact H2.
  - apply Hfin.
    + unfold pim_data. destruct (_ <? 0); [reflexivity|]. cbv zeta.
      destruct (rx_add_remove _ KData (m_payload m) _) as [[rx1 ar] w].
      destruct ar as [r0|]; [|exact I]. destruct (add_err r0); [exact I|].
      match goal with |- context [send_ack (force_immediate_ack ?x)] => set (s5 := x) end.
      assert (E5 : v_segs s5 = v_segs s2) by (subst s5; unfold restart_remote_inactivity_timer, add_wakes; destruct r0; reflexivity).
      clearbody s5. destruct (_ || _); [|exact E5].
      pose proof (send_ack_SQ (force_immediate_ack s5)) as Ha.
      destruct (send_ack (force_immediate_ack s5)) as [s6 b|s6 e|]; cbn [sbind stk] in *; auto.
      destruct Ha as (_&_&_&_&_&A6&_). rewrite A6. exact E5.
    + intros s3 r3. unfold pim_data. destruct (_ <? 0); [intro H; injection H as _ <-; reflexivity|]. cbv zeta.
      destruct (rx_add_remove _ KData (m_payload m) _) as [[rx1 ar] w].
      destruct ar as [r0|]; [|discriminate]. destruct (add_err r0); [discriminate|].
      destruct (_ || _); [|intro H; injection H as _ <-; reflexivity].
      destruct (send_ack _) as [s6 b|s6 e|]; cbn [sbind]; try discriminate. intro H; injection H as _ <-. reflexivity.
  - apply Hfin.
    + unfold pim_fin. cbv zeta. destruct (_ && _).
      * destruct (rx_add_remove _ KFin _ _) as [[rx1 ar] w]. destruct ar as [r0|]; [|exact I].
        destruct (add_err r0); [exact I|]. destruct (mark_vsock_closed _) as [tx1 w2]. reflexivity.
      * reflexivity.
    + intros s3 r3. unfold pim_fin. cbv zeta. destruct (_ && _).
      * destruct (rx_add_remove _ KFin _ _) as [[rx1 ar] w]. destruct ar as [r0|]; [|discriminate].
        destruct (add_err r0); [discriminate|]. destruct (mark_vsock_closed _) as [tx1 w2].
        intro H; injection H as _ <-. reflexivity.
      * intro H; injection H as _ <-. reflexivity.
Qed.

End WithCC.

Section WithCC2.
Context {CC : Type} (cci : cc_iface CC).
Notation vsock := (vsock CC).

Lemma INVacc_step (base s s1 : vsock) acc r :
  sp s -> TM (v_segs s) (v_segs s1) ->
  INVacc base acc s ->
  (0 <= ar_acked_segments r /\ 0 <= ar_newly_sacked_segments r /\ rmv s <= rmv s1 /\
   (ar_acked_segments r = 0 ->
      rmv s1 = rmv s /\ Forall2 sev1 (sgs s) (sgs s1) /\
      cds (sgs s1) = cds (sgs s) + ar_newly_sacked_segments r /\
      (ar_newly_sacked_segments r = 0 -> Forall2 sev0 (sgs s) (sgs s1))) /\
   (0 < ar_acked_segments r -> rmv s < rmv s1)) ->
  INVacc base (result_update acc r) s1.
Proof.
  intros _ _ (A1 & A2 & A3 & A4) (B1 & B2 & B3 & B4 & B5).
  unfold INVacc, result_update. cbn [ar_acked_segments ar_newly_sacked_segments].
  split; [lia|]. split; [lia|]. split.
  - intro Hz. assert (Ha : ar_acked_segments acc = 0) by lia. assert (Hr : ar_acked_segments r = 0) by lia.
    destruct (A3 Ha) as (C1 & C2 & C3 & C4). destruct (B4 Hr) as (D1 & D2 & D3 & D4).
    split; [lia|]. split; [eapply (F2_trans sev1 sev1_trans); eauto|]. split; [lia|].
    intro Hs. eapply (F2_trans sev0 sev0_trans); [apply C4; lia|apply D4; lia].
  - intro Hp. destruct (Z.eq_dec (ar_acked_segments acc) 0) as [Ha|Ha].
    + destruct (A3 Ha) as (C1 & _). specialize (B5 ltac:(lia)). lia.
    + specialize (A4 ltac:(lia)). lia.
Qed.

Lemma recv_loop_track (base : vsock) : forall fuel (s : vsock) acc,
  sp s -> INVacc base acc s ->
  match recv_loop cci fuel s acc with
  | SOk s1 (accf, _) => INVacc base accf s1 /\ v_rto_retransmissions s1 = v_rto_retransmissions s
  | _ => True
  end.
Proof.
  assert (Hbase : forall (s : vsock) (acc : on_ack_result), INVacc base acc s ->
    match (if v_inbox_closed s
           then sbind (maybe_send_fin (transition_to_fin_wait_1 s))
                      (fun s2 _ => SOk (set_state s2 Closed) (acc, true))
           else SOk (set_inbox_waker s true) (acc, false)) with
    | SOk s1 (accf, _) => INVacc base accf s1 /\ v_rto_retransmissions s1 = v_rto_retransmissions s
    | _ => True
    end).
  { intros s acc HI. destruct (v_inbox_closed s); [|split; [eapply INVacc_same; [|exact HI]|]; reflexivity].
    pose proof (maybe_send_fin_spec (transition_to_fin_wait_1 s)) as Hm.
    assert (E0 : v_segs (transition_to_fin_wait_1 s) = v_segs s /\
                 v_rto_retransmissions (transition_to_fin_wait_1 s) = v_rto_retransmissions s)
      by (unfold transition_to_fin_wait_1; destruct (v_state s); split; reflexivity).
    destruct E0 as [E0 E1].
    destruct (maybe_send_fin (transition_to_fin_wait_1 s)) as [s2 [|]|s2 e|]; cbn [sbind]; auto.
    - destruct Hm as (seq & _ & _ & Hf & _ & Hsg & _). unfold sd_frame in Hf. destruct Hf as (_&_&_&_&F5&_).
      split; [eapply INVacc_same; [|exact HI]; vsimpl_goal; congruence|vsimpl_goal; congruence].
    - destruct Hm as (Hf & _ & Hsg & _). unfold sd_frame in Hf. destruct Hf as (_&_&_&_&F5&_).
      split; [eapply INVacc_same; [|exact HI]; vsimpl_goal; congruence|vsimpl_goal; congruence]. }
  induction fuel as [|m0 fuel IH]; intros s acc Hsp HI; cbn [recv_loop];
    destruct (v_inbox s) as [|m rest] eqn:Ei; try (apply Hbase; exact HI); try exact I.
  assert (Hsp0 : sp (set_inbox s rest)) by exact Hsp.
  pose proof (msg_track cci (set_inbox s rest) m Hsp0) as Hm.
  pose proof (process_incoming_message_spR cci (set_inbox s rest) m) as HS.
  pose proof (process_incoming_message_TS cci (set_inbox s rest) m) as HT.
  pose proof (process_incoming_message_MQ cci (set_inbox s rest) m) as HQ.
  destruct (process_incoming_message cci (set_inbox s rest) m) as [s1 r|s1 e|]; cbn [sbind stRk stk] in *; auto.
  assert (Hsp1 : sp s1) by (apply HS; exact Hsp0).
  assert (HI1 : INVacc base (result_update acc r) s1).
  { eapply (INVacc_step base (set_inbox s rest) s1 acc r Hsp0); [apply (HT Hsp0)|exact HI|exact Hm]. }
  destruct HQ as (_ & _ & Q3 & _). cbn [v_rto_retransmissions set_inbox] in Q3.
  destruct (_ || _); [split; [exact HI1|exact Q3]|].
  specialize (IH s1 (result_update acc r) Hsp1 HI1).
  destruct (recv_loop cci fuel s1 (result_update acc r)) as [s2 [accf e2]|s2 e2|]; auto.
  destruct IH as [IH1 IH2]. split; [exact IH1|congruence].
Qed.

(* ------------------------------------------------------------------ the ghost state of the exit clause *)
Section GhostE.
Variables (l0 : list seg) (rem0 : Z) (e0 : bool) (maxr : Z).

Definition PEDm : Prop :=
  e0 = true /\ exists init g, l0 = init ++ [g] /\ sg_probe g = true /\ sg_delivered g = false /\
                              maxr <= seg_retransmit_count g.

Definition EVp (s : vsock) : Prop :=
  rem0 < rmv s \/ (rmv s = rem0 /\ cds l0 < cdn (length l0) (sgs s)) \/ PEDm.

Definition NR (s : vsock) : Prop :=
  0 < v_rto_retransmissions s /\ rmv s = rem0 /\ Forall2 sev0 l0 (sgs s).

Lemma EV_TM (s s' : vsock) : TM (v_segs s) (v_segs s') -> EVp s -> EVp s'.
Proof.
  unfold EVp. intros (T1 & T2) [H|[[H1 H2]|H]]; [left; unfold rmv in *; lia| |right; right; exact H].
  unfold rmv, sgs in *. destruct (Z.eq_dec (ss_removed (v_segs s')) (ss_removed (v_segs s))) as [E|E].
  - right; left. split; [lia|]. specialize (T2 E (length l0)). lia.
  - left. lia.
Qed.

Lemma EV_TS (s s' : vsock) : TS s s' -> sp s -> EVp s -> EVp s'.
Proof. intros H Hsp. apply EV_TM. apply (H Hsp). Qed.

Lemma NR_same (s s' : vsock) :
  v_segs s' = v_segs s -> v_rto_retransmissions s' = v_rto_retransmissions s -> NR s -> NR s'.
Proof. unfold NR, rmv, sgs. intros -> ->. auto. Qed.

(* ---- the incoming messages: no progress keeps NR, progress gives the evidence ---- *)
Lemma process_all_NR (s : vsock) :
  sp s -> NR s -> stk (fun _ s' => NR s' \/ EVp s') s (process_all_incoming_messages cci s).
Proof.
  intros Hsp (N1 & N2 & N3). rewrite process_all_eq.
  assert (HI0 : INVacc s on_ack_result_default s).
  { unfold INVacc. cbn [on_ack_result_default ar_acked_segments ar_newly_sacked_segments].
    repeat split; try lia; auto using F2_refl, sev1_refl, sev0_refl. }
  pose proof (recv_loop_track s (v_inbox s ++ [ {| m_hdr := outgoing_header s; m_payload := [] |} ]) s
                on_ack_result_default Hsp HI0) as Hl.
  pose proof (recv_loop_spR cci (v_inbox s ++ [ {| m_hdr := outgoing_header s; m_payload := [] |} ]) s on_ack_result_default) as HS.
  destruct (recv_loop cci _ s on_ack_result_default) as [s1 [r early]|s1 e|]; cbn [sbind stk stRk] in *; auto.
  destruct Hl as [(A1 & A2 & A3 & A4) Hr1].
  assert (Hsp1 : sp s1) by (apply HS; exact Hsp).
  pose proof (pa_tail_TS s1 (r, early)) as HT.
  rewrite pa_tail_eq in *.
  (* the evidence, if any, right after the receive loop *)
  assert (Hev : (0 < ar_acked_segments r \/ 0 < ar_newly_sacked_segments r) -> EVp s1).
  { intros [Hp|Hp].
    - left. specialize (A4 Hp). unfold rmv in *. lia.
    - destruct (Z.eq_dec (ar_acked_segments r) 0) as [Hz|Hz]; [|left; specialize (A4 ltac:(lia)); unfold rmv in *; lia].
      destruct (A3 Hz) as (B1 & B2 & B3 & _). right; left. split; [congruence|].
      unfold cdn. rewrite <- (F2_length _ _ _ N3) at 1.
      rewrite <- (F2_length _ _ _ B2). rewrite firstn_all.
      rewrite B3, (sev0_cds _ _ N3). lia. }
  destruct ((0 <? ar_acked_segments r) || (0 <? ar_newly_sacked_segments r)) eqn:Eprog.
  - (* progress *)
    assert (Hev1 : EVp s1) by (apply Hev; apply orb_true_iff in Eprog; destruct Eprog as [E|E]; apply Z.ltb_lt in E; auto).
    destruct (sbind (pa_trunc r (pa_reset r s1)) (fun s3 _ => pa_pipe s3)) as [s' u'|s' e'|]; cbn [stk stRk] in *; auto.
    right. eapply EV_TS; eauto.
  - (* no progress: the counter and the table stay *)
    apply orb_false_iff in Eprog. destruct Eprog as [Ea Es]. apply Z.ltb_ge in Ea, Es.
    destruct (A3 ltac:(lia)) as (B1 & B2 & B3 & B4). specialize (B4 ltac:(lia)).
    assert (HN1 : NR s1).
    { split; [congruence|]. split; [congruence|]. eapply (F2_trans sev0 sev0_trans); eauto. }
    unfold pa_reset, pa_trunc.
    replace ((0 <? ar_acked_segments r) || (0 <? ar_newly_sacked_segments r)) with false
      by (symmetry; apply orb_false_iff; split; apply Z.ltb_ge; lia).
    replace (0 <? ar_acked_segments r) with false by (symmetry; apply Z.ltb_ge; lia).
    cbn [sbind]. unfold pa_pipe. destruct (rv_phase (v_recovery s1)); cbn [stk]; auto.
    destruct (calc_pipe _ _ _ _ _) as [[[segs' pipe] recalc]|] eqn:Ec; [|exact I].
    cbn [stk]. left. destruct (calc_pipe_sev0 _ _ _ _ _ _ _ _ Ec) as (P1 & P2).
    destruct HN1 as (M1 & M2 & M3). unfold NR, rmv, sgs, set_recovering in *. vsimpl_goal.
    split; [exact M1|]. split; [congruence|]. eapply (F2_trans sev0 sev0_trans); eauto.
Qed.

(* ---- segmentation: the expired probe is the last segment of the table as it was ---- *)
Lemma split_NR now r0 (s : vsock) :
  B now s -> J r0 e0 now s -> o_mtu_probe_max_retx (v_opts s) = maxr -> NR s ->
  stk (fun _ s' => 0 < v_rto_retransmissions s' \/ PEDm) s (split_tx_queue_into_segments cci s).
Proof.
  intros HB HJ Hm (N1 & N2 & N3).
  unfold split_tx_queue_into_segments. cbv zeta.
  destruct (_ =? 0); [cbn [stk]; left; exact N1|].
  match goal with |- stk _ _ (if is_remote_fin_or_later (v_state ?x) then _ else _) => set (sx := x) end.
  assert (F : v_segs sx = v_segs s /\ v_rto_retransmissions sx = v_rto_retransmissions s /\
              v_t_retransmit sx = v_t_retransmit s /\ v_now sx = v_now s /\ v_opts sx = v_opts s).
  { subst sx. destruct (_ && _); [|repeat split]. destruct (grow _ _) as [tx1 g]. destruct g; [|repeat split].
    destruct (wake_writer tx1) as [tx2 w]. unfold add_wakes. repeat split. }
  clearbody sx. destruct F as (F1 & F2 & F3 & F4 & F5).
  destruct (is_remote_fin_or_later _); [cbn [stk]; left; lia|].
  destruct (pop_expired_mtu_probe _ _ _) as [segs1 pe] eqn:Ep.
  assert (Hcont : forall (tl : Z) (s2 : vsock), (0 < v_rto_retransmissions s2 \/ PEDm) ->
    stk (fun _ s' => 0 < v_rto_retransmissions s' \/ PEDm) s
      (if tl <? ss_len_bytes (v_segs s2) then SErr s2 (ErrBug BugInBufferComputations)
       else match segment_loop (ring (v_tx s2)) (o_nagle (v_opts s2)) (v_ss s2) (v_segs s2)
                    (tl - ss_len_bytes (v_segs s2)) (v_last_remote_window s2) with
            | Some (ss', segs', remaining) =>
                SOk (set_unsegmented (VSockRec.set_segs (set_ss s2 ss') segs') remaining) tt
            | None => SPanic
            end)).
  { intros tl s2 F2'. destruct (tl <? ss_len_bytes (v_segs s2)); [exact I|].
    destruct (segment_loop _ _ _ _ _ _) as [[[ss' segs'] rem]|]; [|exact I]. cbn [stk]. vsimpl_goal. exact F2'. }
  destruct pe.
  - (* the expired probe *)
    apply Hcont. right.
    unfold pop_expired_mtu_probe in Ep. rewrite F1, F3, F4, F5, Hm in Ep.
    destruct (last_and_init (ss_segs (v_segs s))) as [[init g]|] eqn:El; [|discriminate].
    destruct (sg_delivered g) eqn:Ed; [discriminate|].
    destruct (timer_expired (v_t_retransmit s) (v_now s) && negb (is_local_fin_or_later (v_state sx))
              && sg_probe g && (maxr <=? seg_retransmit_count g)) eqn:Ec;
      [|destruct (sg_probe g); discriminate].
    apply andb_true_iff in Ec. destruct Ec as [Ec Ec3]. apply andb_true_iff in Ec. destruct Ec as [Ec1 Ec2].
    apply andb_true_iff in Ec1. destruct Ec1 as [Ec1 _].   (* (repair of D6) the flag is `expired && not local-fin` *)
    apply Z.leb_le in Ec3.
    split.
    + destruct HB as (_ & Hn & _). rewrite Hn in Ec1. apply (J_A_of_expired _ _ _ _ HJ Ec1).
    + apply Segments_ProofsOut.last_and_init_app in El. unfold sgs in N3. rewrite El in N3.
      apply Forall2_app_inv_r in N3. destruct N3 as (init0 & l1 & N31 & N32 & ->).
      inversion N32 as [|g0 ? l1' ? Hg Hnil]; subst. inversion Hnil; subst.
      destruct Hg as (G1 & G2 & G3 & G4).
      exists init0, g0. split; [reflexivity|]. split; [congruence|]. split; [congruence|].
      unfold seg_retransmit_count in *. rewrite <- G2. exact Ec3.
  - cbn [stk]. vsimpl_goal. left. lia.
  - apply Hcont. left. lia.
Qed.

Lemma send_tx_queue_NR1 (s : vsock) :
  0 < v_rto_retransmissions s -> v_restart s = false ->
  stk (fun _ s' => 0 < v_rto_retransmissions s' /\ v_restart s' = false) s (send_tx_queue cci s).
Proof.
  intros Hr R0. rewrite send_tx_queue_eq.
  destruct (v_transport_pending s); [cbn [stk]; auto|].
  set (h := outgoing_header s).
  destruct (rto_branch cci s h) as [s1 ret|s1 e|] eqn:Er; cbn [sbind stk]; auto.
  assert (Hs1 : step_st (rto_branch cci s h) = Some s1) by (rewrite Er; reflexivity).
  pose proof (rto_branch_restart cci s h s1 Hs1) as Hrs.
  pose proof (rto_branch_spec cci _ _ _ Hs1) as Ho.
  assert (H1 : 0 < v_rto_retransmissions s1).
  { destruct Ho as [_ Hf _ _ _ _| f rest _ _ _ _ _ _ Hrto _ _ _ _ _ _ _ _ _| fin _ _ _ _ _ _ _ Hrto _ _ _ _ _ _ _].
    - unfold sd_frame in Hf. destruct Hf as (_&_&_&_&F5&_). lia.
    - lia.
    - lia. }
  unfold after_rto_k. destruct ret; [cbn [stk]; split; [exact H1|congruence]|].
  destruct (Z.ltb_spec 0 (v_rto_retransmissions s1)); [cbn [stk]; split; [exact H1|congruence]|lia].
Qed.

(* ------------------------------------------------------------------ the walk *)
Section WalkE.
Variables (now r0 : Z).
Hypothesis H0 : 0 <= r0.

Let G : vsock -> Prop := fun s => GG now r0 e0 s /\ o_mtu_probe_max_retx (v_opts s) = maxr.
Let PA (k : nat) (s : vsock) : Prop := G s /\ (NR s \/ EVp s).
Let PB (k : nat) (s : vsock) : Prop := G s /\ (0 < v_rto_retransmissions s \/ EVp s).

Lemma G_step (s s' : vsock) : KJ s s' -> spR s s' -> v_opts s' = v_opts s -> G s -> G s'.
Proof. intros HK HS Ho [HG Hm]. split; [eapply GG_step; eauto|congruence]. Qed.

Lemma stk_Ge {A} (s : vsock) (m : step A) :
  stRk KJ s m -> stRk spR s m -> step_frame0 s m -> G s -> stW G m.
Proof.
  intros HK HS HF HG. destruct m as [s' a|s' e|]; cbn [stRk stW step_frame0] in *; auto.
  eapply G_step; eauto. apply HF.
Qed.

Lemma PA_SQ_e (s s' : vsock) : SQ s s' -> (NR s \/ EVp s) -> (NR s' \/ EVp s').
Proof.
  intros HS [H|H]; [left|right].
  - destruct HS as (_&_&A3&_&_&A6&_). eapply NR_same; eauto.
  - destruct HS as (_&_&_&_&_&A6&_). eapply EV_TM; [|exact H]. rewrite A6. apply TM_refl.
Qed.

Lemma PB_SQ_e (s s' : vsock) : SQ s s' ->
  (0 < v_rto_retransmissions s \/ EVp s) -> (0 < v_rto_retransmissions s' \/ EVp s').
Proof.
  intros HS [H|H]; [left|right].
  - destruct HS as (_&_&A3&_). lia.
  - destruct HS as (_&_&_&_&_&A6&_). eapply EV_TM; [|exact H]. rewrite A6. apply TM_refl.
Qed.

Lemma stW_SQ_e (P : vsock -> Prop) {A} (s : vsock) (m : step A) :
  (forall s', SQ s s' -> P s') -> stk SQ s m -> stW P m.
Proof. intros HP H. destruct m; cbn [stk stW] in *; auto. Qed.

Theorem poll_loop_exit : forall fuel (s s' : vsock),
  PA 0 s -> poll_loop cci fuel s = (s', PollPending) -> exists k', (k' < 0 + fuel)%nat /\ PB k' s'.
Proof.
  intros fuel s s' HA H.
  apply (poll_loop_W cci PA PA PA PA PB PB PB PB) with (s := s); try assumption.
  - (* poll_start *)
    intros k a [HG HW]. split.
    + eapply G_step; [apply poll_start_KJ|apply SQ_spR, poll_start_SQ|reflexivity|exact HG].
    + eapply PA_SQ_e; [apply poll_start_SQ|exact HW].
  - intros k a [HG HW] _. apply stW_and.
    + apply (stk_Ge a); [apply maybe_send_syn_ack_KJ|apply stk_SQ_spR, maybe_send_syn_ack_SQ|
        apply step_frame_frame0, maybe_send_syn_ack_frame|exact HG].
    + apply (stW_SQ_e _ a); [intros s1 HS; eapply PA_SQ_e; eauto|apply maybe_send_syn_ack_SQ].
  - intros k a [HG HW] _. apply stW_and.
    + apply (stk_Ge a); [apply send_ack_KJ|apply stk_SQ_spR, send_ack_SQ|apply step_frame_frame0, send_ack_frame|exact HG].
    + apply (stW_SQ_e _ a); [intros s1 HS; eapply PA_SQ_e; eauto|apply send_ack_SQ].
  - (* process_all_incoming_messages *)
    intros k a [HG HW] _. apply stW_and.
    + apply (stk_Ge a); [apply process_all_KJ|apply process_all_spR|
        apply step_frame_frame0, process_all_incoming_messages_frame|exact HG].
    + destruct HG as ((HB & HJ & HP) & Hm).
      pose proof (process_all_NR a HP) as HN. pose proof (process_all_TS cci a) as HT.
      destruct (process_all_incoming_messages cci a) as [b x|b e|]; cbn [stW stk stRk] in *; auto.
      destruct HW as [HW|HW]; [apply HN; exact HW|right; eapply EV_TS; eauto].
  - (* flush *)
    intros k a rx1 fb w [HG HW] _ _. split.
    + eapply G_step; [apply rx_flush_KJ|apply SQ_spR, add_wakes_rx_SQ|reflexivity|exact HG].
    + eapply PA_SQ_e; [apply add_wakes_rx_SQ|exact HW].
  - (* split *)
    intros k a [HG HW] _. apply stW_and.
    + apply (stk_Ge a); [apply split_KJ|apply split_spR|apply step_frame_frame0, split_tx_queue_into_segments_frame|exact HG].
    + destruct HG as ((HB & HJ & HP) & Hm).
      pose proof (split_NR now r0 a HB HJ Hm) as HN. pose proof (split_TS cci a) as HT.
      destruct (split_tx_queue_into_segments cci a) as [b x|b e|]; cbn [stW stk stRk] in *; auto.
      destruct HW as [HW|HW]; [|right; eapply EV_TS; eauto].
      destruct (HN HW) as [X|X]; [left; exact X|right; right; right; exact X].
  - (* send_tx_queue *)
    intros k a [HG HW] [T0 R0].
    pose proof (stk_Ge a _ (send_tx_queue_KJ cci a) (send_tx_queue_spR cci a)
                  (step_frame_frame0 _ _ _ (send_tx_queue_frame cci a)) HG) as HG'.
    destruct HG as ((HB & HJ & HP) & Hm).
    pose proof (send_tx_queue_NR1 a) as HN. pose proof (send_tx_queue_TS cci a) as HT.
    destruct (send_tx_queue cci a) as [b x|b e|]; cbn [stW stk stRk] in *; auto.
    destruct HW as [HW|HW].
    + destruct (HN HW R0) as [N1 N2].
      split; [intro; congruence|]. split; intros; (split; [exact HG'|left; exact N1]).
    + assert (Hev : EVp b) by (eapply EV_TS; eauto).
      split; [|split]; intros; (split; [exact HG'|right; exact Hev]).
  - (* transition_to_fin_wait_1 *)
    intros k a [HG HW] _. split.
    + eapply G_step; [apply transition_to_fin_wait_1_KJ|apply SQ_spR, transition_to_fin_wait_1_SQ| |exact HG].
      unfold transition_to_fin_wait_1. destruct (v_state a); reflexivity.
    + eapply PB_SQ_e; [apply transition_to_fin_wait_1_SQ|exact HW].
  - (* maybe_send_fin *)
    intros k a [HG HW] _. apply stW_and.
    + apply (stk_Ge a); [apply maybe_send_fin_KJ|apply maybe_send_fin_spR|apply step_frame_frame0, maybe_send_fin_frame|exact HG].
    + destruct HG as ((HB & HJ & HP) & Hm).
      pose proof (maybe_send_fin_TS a) as HT. pose proof (maybe_send_fin_spec a) as Hs.
      destruct (maybe_send_fin a) as [b [|]|b e|]; cbn [stW stk stRk] in *; auto.
      * destruct HW as [HW|HW]; [left|right; eapply EV_TS; eauto].
        destruct Hs as (seq & _ & _ & Hf & _). unfold sd_frame in Hf. destruct Hf as (_&_&_&_&F5&_). lia.
      * destruct HW as [HW|HW]; [left|right; eapply EV_TS; eauto].
        destruct Hs as (Hf & _). unfold sd_frame in Hf. destruct Hf as (_&_&_&_&F5&_). lia.
  - (* maybe_send_ack *)
    intros k a [HG HW] _. apply stW_and.
    + apply (stk_Ge a); [apply maybe_send_ack_KJ|apply stk_SQ_spR, maybe_send_ack_SQ|exact (maybe_send_ack_frame0 a)|exact HG].
    + apply (stW_SQ_e _ a); [intros s1 HS; eapply PB_SQ_e; eauto|apply maybe_send_ack_SQ].
  - (* early returns *)
    intros k a [HG HW] _. split; [exact HG|]. destruct HW as [(N1 & _)|HW]; [left; exact N1|right; exact HW].
  - intros k a [HG HW] _. split; [exact HG|]. destruct HW as [(N1 & _)|HW]; [left; exact N1|right; exact HW].
  - intros k a [HG HW] _. split; [exact HG|exact HW].
  - intros k a [HG HW] _. split; [exact HG|exact HW].
  - (* the timer tail *)
    intros k a [HG HW] _ _. split.
    + destruct (poll_tail_fields a) as (_ & _ & _ & _ & _ & _ & _ & _ & _ & _ & _ & _ & _ & _ & Op & _).
      eapply G_step; [apply poll_tail_KJ|apply SQ_spR, poll_tail_SQ|exact Op|exact HG].
    + eapply PB_SQ_e; [apply poll_tail_SQ|exact HW].
Qed.

End WalkE.
End GhostE.
(* what a Pending poll leaves behind when it began in single-segment mode *)
Theorem poll_pending_exit (s : vsock) sc s' :
  ti s -> sp s -> 0 < v_rto_retransmissions s ->
  poll cci (VSockRec.set_sends s sc) = (s', PollPending) ->
  0 < v_rto_retransmissions s' \/
  EVp (sgs s) (rmv s) (timer_expired (v_t_retransmit s) (v_env_now s)) (o_mtu_probe_max_retx (v_opts s)) s'.
Proof.
  intros Hti Hsp Hr H. rewrite poll_unfold in H. apply poll_loop_start in H.
  assert (Hr0 : 0 <= v_rto_retransmissions s) by lia.
  apply (poll_loop_exit (sgs s) (rmv s) (timer_expired (v_t_retransmit s) (v_env_now s))
           (o_mtu_probe_max_retx (v_opts s)) (v_env_now s) (v_rto_retransmissions s) Hr0) in H.
  - destruct H as (k' & _ & _ & HW). exact HW.
  - split; [split; [split; [|split]|reflexivity]|].
    + split; [exact Hti|]. split; reflexivity.
    + apply JA; [reflexivity|reflexivity|]. unfold texp. cbn. auto.
    + exact Hsp.
    + left. split; [exact Hr|]. split; [reflexivity|]. apply F2_refl, sev0_refl.
Qed.

End WithCC2.

(* C02, second batch of boolean predicates over the observations of a connection-level trace
   (the forms that are theorems of every model trace, Conn/C02_Step2.v).  Model only. *)
From Utp Require Import Base.Prelude Wire.SeqNr Wire.Header Rtt.Rtte Mtu.SegSizes Rx.Rx Tx.Ring
  Tx.Segments Conn.Recovery Conn.Msg Conn.VSockRec Conn.VSock Conn.VSockRun Conn.VObs Conn.C10_Pred
  Conn.C02_Pred.

Definition poll_ready (r : fresult) : bool :=
  match r with
  | FrPoll PollPending _ _ _ => false
  | FrPoll _ _ _ _ => true
  | _ => false
  end.

(* ---- RTO mode is always left again (the class of C02-a): while the counter of consecutive RTO
   retransmissions is positive - send_tx_queue then returns right after its RTO part - the
   retransmission timer is armed and a segment is still undelivered.  After every event after which
   the connection goes on. *)
Definition c02_rto_mode_armed (c : vconfig) (st : fstep) : bool :=
  if poll_ready (fs_result st) then true
  else
    let f := fs_post st in
    if 0 <? f_rto_retx f
    then match f_t_retransmit f with Some _ => true | None => false end &&
         existsb (fun g => negb (fg_delivered g)) (f_segs f)
    else true.

(* ---- c02_no_silent_stall outside the "stranded segment" class ----
   a never-sent, undelivered segment is STRANDED when its sequence number is not above
   last_sent_seq_nr: the new-data part of send_tx_queue starts at last_sent_seq_nr + 1 and will
   never pick it up, only an RTO sends it.  [strand_free] evaluates the two index computations of
   the code (calc_flight_size: last_sent - snd_una + 1; iter_mut_for_sending: (last_sent + 1) -
   snd_una) on the fingerprint. *)
Definition never_sent_und (g : fseg) : bool := (fg_sent_kind g =? 0) && negb (fg_delivered g).

Definition strand_bound (last_sent snd_una : Z) : nat :=
  Nat.max (Z.to_nat (Z.max (seq_sub last_sent snd_una + 1) 0))
          (Z.to_nat (Z.max (seq_sub (wadd16 last_sent 1) snd_una) 0)).

Definition strand_free (f : vfp) : bool :=
  negb (existsb never_sent_und (firstn (strand_bound (f_last_sent_seq_nr f) (f_snd_una f)) (f_segs f))).

Definition c02_no_silent_stall_g (c : vconfig) (st : fstep) : bool :=
  if strand_free (fs_post st) then c02_no_silent_stall c st else true.

(* the stranded class, as a classifier of a failing step of c02_no_silent_stall *)
Definition c02_stranded_class (c : vconfig) (st : fstep) : bool :=
  negb (c02_no_silent_stall c st) && negb (strand_free (fs_post st)).

(* ---- the FIN half of c02_rto_armed, for the polls that start with our FIN number already allocated:
   local FIN state, the clause holds before the poll (our FIN outstanding => timer armed), and in
   FinWait1 the FIN is numbered right after the last segment of the table ---- *)
Definition fin_out (f : vfp) : bool :=
  match our_fin_if_unacked (f_state f) with
  | Some fin => f_last_sent_seq_nr f =? fin
  | None => false
  end.

Definition fo_fp (f : vfp) : bool :=
  if fin_out f then match f_t_retransmit f with Some _ => true | None => false end else true.

Definition fn_fp (f : vfp) : bool :=
  match f_state f with
  | FinWait1 fin => fin =? wadd16 (f_snd_una f) (Z.of_nat (length (f_segs f)) mod M16)
  | _ => true
  end.

Definition fin_alloc_guard (f : vfp) : bool :=
  is_local_fin_or_later (f_state f) && fo_fp f && fn_fp f.

Definition c02_rto_armed_fin_g (c : vconfig) (st : fstep) : bool :=
  if fin_alloc_guard (fs_pre st) then c02_rto_armed c st else true.

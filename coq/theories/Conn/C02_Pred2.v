(* C02, second batch of boolean predicates over the observations of a connection-level trace
   (the forms that are theorems of every model trace, Conn/C02_Step2.v).  Model only. *)
From Utp Require Import Base.Prelude Wire.SeqNr Wire.Header Rtt.Rtte Mtu.SegSizes Rx.Rx Tx.Ring
  Tx.Segments Conn.Recovery Conn.Msg Conn.VSockRec Conn.VSock Conn.VSockRun Conn.VObs Conn.C10_Pred
  Conn.C02_Pred.

Definition poll_ready (r : fresult) : bool :=
  match r with
  | FrPoll PollPending _ _ _ => false
  | FrPoll _ _ _ _ => true
  | _ => false
  end.

(* ---- RTO mode is always left again (the class of C02-a): while the counter of consecutive RTO
   retransmissions is positive - send_tx_queue then returns right after its RTO part - the
   retransmission timer is armed and a segment is still undelivered.  After every event after which
   the connection goes on. *)
Definition c02_rto_mode_armed (c : vconfig) (st : fstep) : bool :=
  if poll_ready (fs_result st) then true
  else
    let f := fs_post st in
    if 0 <? f_rto_retx f
    then match f_t_retransmit f with Some _ => true | None => false end &&
         existsb (fun g => negb (fg_delivered g)) (f_segs f)
    else true.

(* ---- c02_no_silent_stall outside the "stranded segment" class ----
   a never-sent, undelivered segment is STRANDED when its sequence number is not above
   last_sent_seq_nr: the new-data part of send_tx_queue starts at last_sent_seq_nr + 1 and will
   never pick it up, only an RTO sends it.  [strand_free] evaluates the two index computations of
   the code (calc_flight_size: last_sent - snd_una + 1; iter_mut_for_sending: (last_sent + 1) -
   snd_una) on the fingerprint. *)
Definition never_sent_und (g : fseg) : bool := (fg_sent_kind g =? 0) && negb (fg_delivered g).

Definition strand_bound (last_sent snd_una : Z) : nat :=
  Nat.max (Z.to_nat (Z.max (seq_sub last_sent snd_una + 1) 0))
          (Z.to_nat (Z.max (seq_sub (wadd16 last_sent 1) snd_una) 0)).

Definition strand_free (f : vfp) : bool :=
  negb (existsb never_sent_und (firstn (strand_bound (f_last_sent_seq_nr f) (f_snd_una f)) (f_segs f))).

Definition c02_no_silent_stall_g (c : vconfig) (st : fstep) : bool :=
  if strand_free (fs_post st) then c02_no_silent_stall c st else true.

(* the stranded class, as a classifier of a failing step of c02_no_silent_stall *)
Definition c02_stranded_class (c : vconfig) (st : fstep) : bool :=
  negb (c02_no_silent_stall c st) && negb (strand_free (fs_post st)).

(* ---- the FIN half of c02_rto_armed, for the polls that start with our FIN number already allocated:
   local FIN state, the clause holds before the poll (our FIN outstanding => timer armed), and in
   FinWait1 the FIN is numbered right after the last segment of the table ---- *)
Definition fin_out (f : vfp) : bool :=
  match our_fin_if_unacked (f_state f) with
  | Some fin => f_last_sent_seq_nr f =? fin
  | None => false
  end.

Definition fo_fp (f : vfp) : bool :=
  if fin_out f then match f_t_retransmit f with Some _ => true | None => false end else true.

Definition fn_fp (f : vfp) : bool :=
  match f_state f with
  | FinWait1 fin => fin =? wadd16 (f_snd_una f) (Z.of_nat (length (f_segs f)) mod M16)
  | _ => true
  end.

Definition fin_alloc_guard (f : vfp) : bool :=
  is_local_fin_or_later (f_state f) && fo_fp f && fn_fp f.

Definition c02_rto_armed_fin_g (c : vconfig) (st : fstep) : bool :=
  if fin_alloc_guard (fs_pre st) then c02_rto_armed c st else true.

(* ---- c02_prompt, the write half, with the guards the code needs on the idle state:
   the table is empty and last_sent_seq_nr does not stand ahead of snd_una (both index computations
   of send_tx_queue's new-data part - calc_flight_size and iter_mut_for_sending - start at the head
   of the table), and no immediate ACK is owed (consumed bytes below 2 MSS: otherwise the poll first
   sends an ACK, whose size the path limit of the guard does not cover) ---- *)
Definition idle_seq_ok (f : vfp) : bool :=
  (seq_sub (wadd16 (f_last_sent_seq_nr f) 1) (f_snd_una f) <=? 0) &&
  (seq_sub (f_last_sent_seq_nr f) (f_snd_una f) + 1 <=? 0).

Definition no_imm_ack (f : vfp) : bool := f_cbu f <? IMMEDIATE_ACK_EVERY_RMSS * f_mss f.

Definition prompt_window (c : vconfig) (a1 : c10_acc) (st0 st1 st2 : fstep) : bool :=
  parked_idle st0 && plain_poll st2 && (fs_now st2 =? fs_now st1) &&
  match ca_lim a1 with None => true | Some l => UTP_HEADER + f_max_ss (fs_pre st2) <=? l end.

Definition emits_data (st : fstep) : bool :=
  emits (fs_result st) (fun p => match ch_type (fq_hdr p) with ST_DATA => 1 <=? fq_plen p | _ => false end).

Fixpoint c02_prompt_write_from (c : vconfig) (a : c10_acc) (tr : list fstep) : bool :=
  match tr with
  | st0 :: ((st1 :: st2 :: _) as r) =>
      let a1 := c10_acc_next a st0 in
      (if prompt_window c a1 st0 st1 st2 && idle_seq_ok (fs_pre st1) && no_imm_ack (fs_pre st1)
       then
         match fs_event st1, fs_result st1 with
         | FeWrite _, FrWrite (WrOk n) =>
             if can_send_new (fs_now st1) n (fs_pre st1) then emits_data st2 else true
         | _, _ => true
         end
       else true)
      && c02_prompt_write_from c a1 r
  | _ => true
  end.

Definition c02_prompt_write_g (c : vconfig) (tr : list fstep) : bool := c02_prompt_write_from c c10_acc0 tr.

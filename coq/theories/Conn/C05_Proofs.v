(* C05 — the sender obeys the peer's window; slow start; single segment after an RTO.
   Theorems about the model's send path (send_tx_queue and its parts).  See Props/C05.v. *)
From Utp Require Import Base.Prelude Wire.SeqNr Wire.SeqNr_Proofs Wire.Header Rtt.Rtte Rtt.Rtte_Proofs
  Mtu.SegSizes Rx.Rx Tx.Ring Tx.Ring_Proofs Tx.Segments Tx.Segments_Proofs
  Conn.Recovery Conn.Msg Conn.VSockRec Conn.VSock Conn.VSock_LemmasTx Conn.VSock_LemmasIn.

(* payload bytes of the ST_DATA datagrams in a list *)
Fixpoint data_bytes (l : list packet) : Z :=
  match l with
  | [] => 0
  | p :: r => (match ch_type (p_hdr p) with ST_DATA => Z.of_nat (length (p_payload p)) | _ => 0 end)
              + data_bytes r
  end.

Lemma data_bytes_app a b : data_bytes (a ++ b) = data_bytes a + data_bytes b.
Proof. induction a as [|x xs IH]; cbn [app data_bytes]; lia. Qed.

(* every segment of the table carries at least one byte (invariant: segment_loop_pos below) *)
Definition segs_pos (t : segments) : Prop := Forall (fun g => 1 <= sg_size g) (ss_segs t).

(* ---- counted flight vs. the true amount of sent-and-not-delivered payload ---- *)
Definition seg_is_sent (g : seg) : bool := match sg_sent g with NotSent => false | _ => true end.

Fixpoint true_flight (l : list seg) : Z :=
  match l with
  | [] => 0
  | g :: r => (if seg_is_sent g && negb (sg_delivered g) then sg_size g else 0) + true_flight r
  end.

(* the first k segments of the table have been transmitted, the others never (segments already
   delivered count in neither flight and are exempt) *)
Definition sent_prefix (l : list seg) (k : nat) : Prop :=
  Forall (fun g => seg_is_sent g || sg_delivered g = true) (firstn k l) /\
  Forall (fun g => negb (seg_is_sent g) || sg_delivered g = true) (skipn k l).

Lemma true_flight_app a b : true_flight (a ++ b) = true_flight a + true_flight b.
Proof. induction a as [|x xs IH]; cbn [app true_flight]; lia. Qed.

Lemma true_flight_all_sent l :
  Forall (fun g => seg_is_sent g || sg_delivered g = true) l -> true_flight l = flight_sum l.
Proof.
  induction 1 as [|g r Hg _ IH]; cbn [true_flight flight_sum]; [reflexivity|].
  rewrite IH. destruct (seg_is_sent g), (sg_delivered g); cbn [andb negb orb] in *; try reflexivity; discriminate.
Qed.

Lemma true_flight_none_sent l :
  Forall (fun g => negb (seg_is_sent g) || sg_delivered g = true) l -> true_flight l = 0.
Proof.
  induction 1 as [|g r Hg _ IH]; cbn [true_flight]; [reflexivity|]. rewrite IH.
  destruct (seg_is_sent g), (sg_delivered g); cbn [andb negb orb] in *; try reflexivity; discriminate.
Qed.

(* tolerance hypothesis: at most 1024 transmitted segments outstanding (D4 in DESIGN.md: beyond
   that seq_nr_offset has the wrong sign).  k = number of transmitted segments in the table,
   last_sent_seq_nr = snd_una + k - 1 *)
Lemma flight_size_exact t ls k :
  0 <= ss_snd_una t < M16 -> 0 <= k <= 1024 ->
  ls = wsub16 (wadd16 (ss_snd_una t) k) 1 ->
  sent_prefix (ss_segs t) (Z.to_nat k) ->
  calc_flight_size t ls = true_flight (ss_segs t).
Proof.
  intros Hu Hk Hls (Hs & Hn). unfold calc_flight_size.
  assert (Hd : seq_sub ls (ss_snd_una t) = k - 1).
  { unfold seq_sub. replace ls with ((ss_snd_una t + (k - 1)) mod M16).
    - apply offset_true_distance; unfold WRAP_TOLERANCE; lia.
    - rewrite Hls. unfold wsub16, wadd16, M16 in *. lia. }
  rewrite Hd. replace (Z.max (k - 1 + 1) 0) with k by lia.
  rewrite <- (firstn_skipn (Z.to_nat k) (ss_segs t)) at 2.
  rewrite true_flight_app, (true_flight_all_sent _ Hs), (true_flight_none_sent _ Hn). lia.
Qed.

(* without the tolerance hypothesis the counted flight is wrong: 1500 one-byte segments (D4) *)


Section WithCC.
Context {CC : Type} (cci : cc_iface CC).
Notation vsock := (vsock CC).

Lemma data_payload_length (s : vsock) f :
  sent_ok s f -> 0 <= sg_size (fs_seg f) ->
  Z.of_nat (length (data_payload s f)) = sg_size (fs_seg f).
Proof.
  unfold sent_ok, data_payload. intros (_ & Hoff & Hb) Hsz.
  rewrite firstn_length, skipn_length. lia.
Qed.

Lemma data_bytes_sent (s : vsock) h : forall sent,
  Forall (sent_ok s) sent -> Forall (fun f => 0 <= sg_size (fs_seg f)) sent ->
  data_bytes (rev (map (data_pkt s h) sent)) = fs_bytes sent.
Proof.
  induction sent as [|f r IH]; intros Hok Hsz; cbn [map rev fs_bytes]; [reflexivity|].
  inversion Hok; subst. inversion Hsz; subst.
  rewrite data_bytes_app, IH by assumption. cbn [data_bytes data_pkt p_hdr p_payload data_hdr ch_type].
  rewrite data_payload_length by assumption. lia.
Qed.

Lemma iter_sizes_pos t st : segs_pos t -> Forall (fun f => 1 <= sg_size (fs_seg f)) (iter_for_sending t st).
Proof.
  unfold segs_pos. intro Hp. apply Forall_forall. intros f Hf.
  destruct (iter_item_ok _ _ _ Hf) as (Hn & _). rewrite nth_error_map in Hn.
  destruct (nth_error (ss_segs t) (fs_idx f)) as [g|] eqn:Eg; [|discriminate].
  cbn [option_map] in Hn. unfold dview in Hn. injection Hn as H1 _ _.
  rewrite Forall_forall in Hp. specialize (Hp g (nth_error_In _ _ Eg)). lia.
Qed.

Lemma Forall_app_l {A} (P : A -> Prop) a b : Forall P (a ++ b) -> Forall P a.
Proof. intro H. apply Forall_app in H. tauto. Qed.

Lemma flight_sum_nonneg l : Forall (fun g => 1 <= sg_size g) l -> 0 <= flight_sum l.
Proof.
  induction 1 as [|g r Hg _ IH]; cbn [flight_sum]; [lia|]. destruct (sg_delivered g); lia.
Qed.

Lemma calc_flight_nonneg t ls : segs_pos t -> 0 <= calc_flight_size t ls.
Proof.
  unfold segs_pos, calc_flight_size. intro H. apply flight_sum_nonneg.
  rewrite <- (firstn_skipn (Z.to_nat (Z.max (seq_sub ls (ss_snd_una t) + 1) 0)) (ss_segs t)) in H.
  exact (Forall_app_l _ _ _ H).
Qed.

(* the budget of the new-data loop outside loss recovery *)
Definition window_budget (s : vsock) : Z :=
  sat_sub (Z.min (cc_window cci (v_cc s)) (v_last_remote_window s))
          (calc_flight_size (v_segs s) (v_last_sent_seq_nr s)).

Lemma new_remaining_not_recovering s :
  is_recovering (v_recovery s) = false -> new_remaining cci s = window_budget s.
Proof.
  unfold is_recovering, new_remaining, remaining_cwnd, window_budget.
  destruct (rv_phase (v_recovery s)); [reflexivity|reflexivity|discriminate].
Qed.

(* ---- (a) loop level ---- *)
Lemma new_data_loop_le_budget : forall items (s : vsock) h rem s',
  0 <= rem -> step_st (new_data_loop items s h rem) = Some s' ->
  exists sent rest, items = sent ++ rest /\
    v_out s' = rev (map (data_pkt s h) sent) ++ v_out s /\ fs_bytes sent <= rem.
Proof.
  intros items s h rem s' Hrem H.
  destruct (new_data_loop_spec _ _ _ _ _ Hrem H) as (sent & rest & E & (Hf & Ho & _) & Hb).
  exists sent, rest. auto.
Qed.

(* ---- (a) send_tx_queue level ---- *)
(* outside recovery one call of send_tx_queue emits either at most one datagram from the RTO part
   (timer expired: the head retransmission or the FIN), or only datagrams of the new-data loop, whose
   payload is bounded by min(cwnd, rwnd) - flight *)
Inductive stq_nonrec_outcome (s s' : vsock) : Prop :=
| SnQuiet : v_out s' = v_out s -> stq_nonrec_outcome s s'
| SnRto (f : for_sending) (rest : list for_sending) :
    timer_expired (v_t_retransmit s) (v_now s) = true ->
    iter_for_sending (v_segs s) None = f :: rest ->
    v_out s' = data_pkt s (outgoing_header s) f :: v_out s ->
    v_rto_retransmissions s' = v_rto_retransmissions s + 1 ->
    stq_nonrec_outcome s s'
| SnFin (fin : Z) :
    timer_expired (v_t_retransmit s) (v_now s) = true ->
    iter_for_sending (v_segs s) None = [] ->
    v_out s' = fin_pkt (set_last_sent_seq_nr s (wsub16 fin 1)) fin :: v_out s ->
    stq_nonrec_outcome s s'
| SnNew (sent rest : list for_sending) :
    v_rto_retransmissions s <= 0 ->
    new_items s = sent ++ rest ->
    v_out s' = rev (map (data_pkt s (outgoing_header s)) sent) ++ v_out s ->
    Forall (sent_ok s) sent ->
    fs_bytes sent <= window_budget s ->
    stq_nonrec_outcome s s'.

Lemma rec_items_nil (s : vsock) rc : iter_for_sending (v_segs s) None = [] -> rec_items s rc = [].
Proof. unfold rec_items. intros ->. destruct (Z.to_nat _); reflexivity. Qed.

Lemma send_tx_queue_nonrec s s' :
  is_recovering (v_recovery s) = false -> 0 <= v_rto_retransmissions s ->
  step_st (send_tx_queue cci s) = Some s' -> stq_nonrec_outcome s s'.
Proof.
  intros Hnr Hcnt. rewrite send_tx_queue_eq.
  destruct (v_transport_pending s) eqn:Ep.
  { cbn [step_st]. intro H; injection H as <-. apply SnQuiet; reflexivity. }
  set (h := outgoing_header s).
  destruct (rto_branch cci s h) as [s1 ret|s1 e|] eqn:Er; cbn [sbind].
  3: discriminate.
  2:{ cbn [step_st]. intro H; injection H as <-.
      assert (Hs : step_st (rto_branch cci s h) = Some s1) by (rewrite Er; reflexivity).
      pose proof (rto_branch_spec cci _ _ _ Hs) as Ho. rewrite Er in Ho.
      destruct Ho as [Ho _ _ _ _ _
                     | f rest _ _ Hr _ _ _ _ _ _ _ _ _ _ _ _ _
                     | fin _ _ _ _ Hr _ _ _ _ _ _ _ _ _ _]; try discriminate.
      apply SnQuiet; exact Ho. }
  assert (Hs : step_st (rto_branch cci s h) = Some s1) by (rewrite Er; reflexivity).
  pose proof (rto_branch_spec cci _ _ _ Hs) as Ho. rewrite Er in Ho.
  destruct Ho as [Ho Hf Hsg Hls Hne Hnq
                 | f rest Hexp Hit Hr Ho Hok Hsg Hrto Hls Htx Hop Hnow Hrw Hst Hpr Htr _
                 | fin Hexp Hit Hfin Hls Hr Ho Hsg Hrto Hls' Htx Hop Hnow Hrt Htr _].
  - (* the RTO part emitted nothing *)
    unfold after_rto_k. destruct ret.
    { cbn [step_st]. intro H; injection H as <-. apply SnQuiet; exact Ho. }
    assert (Hf' := Hf). unfold sd_frame in Hf'.
    destruct Hf' as (F1 & F2 & F3 & F4 & F5 & F6 & F7 & F8 & F9 & F10 & F11 & F12 & F13 & F14 & F15 & F16).
    destruct (Z.ltb_spec 0 (v_rto_retransmissions s1)) as [Hpos|Hz].
    { cbn [step_st]. intro H; injection H as <-. apply SnQuiet; exact Ho. }
    destruct (ss_segs (v_segs s1)) as [|g0 gs] eqn:Esg.
    { cbn [step_st]. intro H; injection H as <-. apply SnQuiet; exact Ho. }
    assert (Hrb : rec_branch s1 h = SOk s1 false).
    { unfold rec_branch. rewrite F4. unfold is_recovering in Hnr.
      destruct (rv_phase (v_recovery s)); [reflexivity|reflexivity|discriminate]. }
    rewrite Hrb. cbn [sbind]. intro H.
    destruct (new_branch_spec cci _ _ _ H) as (sent & rest & s2 & E & (Hf2 & Ho2 & Hsg2 & Hok2 & _) & Hb & P & A1 & _).
    destruct Hls as [Hls|Hnil].
    + apply (SnNew _ _ sent rest).
      * rewrite <- F5. lia.
      * unfold new_items in *. rewrite <- Hsg, <- Hls. exact E.
      * rewrite A1, Ho2, Ho. f_equal. f_equal. apply map_ext. intro g. apply data_pkt_frame. exact Hf.
      * eapply Forall_impl; [|exact Hok2]. intro g. apply sent_ok_frame. exact Hf.
      * rewrite new_remaining_not_recovering in Hb by (rewrite F4; exact Hnr).
        unfold window_budget in *. rewrite F2, F3, Hsg, Hls in Hb. exact Hb.
    + (* nothing undelivered in the table: the new-data iterator is empty *)
      unfold new_items in E. rewrite Hsg, (iter_none_nil _ _ Hnil) in E.
      destruct sent; [|discriminate]. cbn [map rev app] in Ho2.
      apply SnQuiet. rewrite A1, Ho2, Ho. reflexivity.
  - (* the head was retransmitted: single-segment mode, nothing else goes out *)
    injection Hr as ->. unfold after_rto_k.
    destruct (Z.ltb_spec 0 (v_rto_retransmissions s1)) as [Hpos|Hz]; [|exfalso; lia].
    cbn [step_st]. intro H; injection H as <-. eapply SnRto; eauto.
  - injection Hr as ->. unfold after_rto_k.
    destruct (Z.ltb_spec 0 (v_rto_retransmissions s1)) as [Hpos|Hz].
    { cbn [step_st]. intro H; injection H as <-. apply (SnFin _ _ fin); [exact Hexp|exact Hit|congruence]. }
    destruct (ss_segs (v_segs s1)) as [|g0 gs] eqn:Esg.
    { cbn [step_st]. intro H; injection H as <-. apply (SnFin _ _ fin); [exact Hexp|exact Hit|congruence]. }
    (* the table holds nothing undelivered: neither later part sends *)
    assert (Hit' : iter_for_sending (v_segs s1) None = []) by (rewrite Hsg; exact Hit).
    destruct (rec_branch s1 h) as [s2 ret2|s2 e2|] eqn:Erb; cbn [sbind]; [| |discriminate].
    + assert (Hs2 : step_st (rec_branch s1 h) = Some s2) by (rewrite Erb; reflexivity).
      assert (Ho2 : v_out s2 = v_out s1 /\ v_segs s2 = v_segs s1).
      { destruct (rec_branch_spec _ _ _ Hs2) as [(_ & _ & ->)|(rc & sent & s1' & Eph & Hincl & Hem & P & A1 & A2 & _)];
          [auto|].
        rewrite (rec_items_nil _ _ Hit') in Hincl. apply incl_l_nil in Hincl. subst sent.
        destruct Hem as (_ & Ho3 & Hsg3 & _). cbn [map rev app on_sent_all fold_left] in *.
        split; congruence. }
      destruct Ho2 as (Ho2 & Hsg2).
      destruct ret2.
      { cbn [step_st]. intro H; injection H as <-. apply (SnFin _ _ fin); [exact Hexp|exact Hit|congruence]. }
      intro H. destruct (new_branch_spec cci _ _ _ H) as (sent & rest' & s3 & E & (Hf3 & Ho3 & _) & Hb & P & A1 & _).
      unfold new_items in E. rewrite Hsg2, (iter_none_nil _ _ Hit') in E.
      destruct sent; [|discriminate]. cbn [map rev app] in Ho3.
      apply (SnFin _ _ fin); [exact Hexp|exact Hit|congruence].
    + cbn [step_st]. intro H; injection H as <-.
      assert (Hs2 : step_st (rec_branch s1 h) = Some s2) by (rewrite Erb; reflexivity).
      destruct (rec_branch_spec _ _ _ Hs2) as [(_ & Hx & _)|(rc & sent & s1' & Eph & Hincl & Hem & P & A1 & A2 & _)];
        [rewrite Erb in Hx; discriminate|].
      rewrite (rec_items_nil _ _ Hit') in Hincl. apply incl_l_nil in Hincl. subst sent.
      destruct Hem as (_ & Ho3 & _). cbn [map rev app] in Ho3.
      apply (SnFin _ _ fin); [exact Hexp|exact Hit|congruence].
Qed.

Lemma new_items_sizes_pos (s : vsock) sent rest :
  segs_pos (v_segs s) -> new_items s = sent ++ rest -> Forall (fun f => 1 <= sg_size (fs_seg f)) sent.
Proof.
  intros Hp E. pose proof (iter_sizes_pos (v_segs s) (Some (wadd16 (v_last_sent_seq_nr s) 1)) Hp) as H.
  unfold new_items in E. rewrite E in H. exact (Forall_app_l _ _ _ H).
Qed.

Lemma fs_bytes_pos sent : Forall (fun f => 1 <= sg_size (fs_seg f)) sent -> sent <> [] -> 1 <= fs_bytes sent.
Proof.
  destruct sent as [|f r]; [congruence|]. intros H _. inversion H as [|? ? H1 H2]; subst.
  cbn [fs_bytes]. assert (0 <= fs_bytes r).
  { clear - H2. induction H2; cbn [fs_bytes]; lia. }
  lia.
Qed.

(* (a) the window clause, about one call of send_tx_queue outside loss recovery *)
Theorem new_data_le_window s s' :
  is_recovering (v_recovery s) = false -> 0 <= v_rto_retransmissions s -> segs_pos (v_segs s) ->
  step_st (send_tx_queue cci s) = Some s' ->
  exists new, v_out s' = new ++ v_out s /\
    ((timer_expired (v_t_retransmit s) (v_now s) = true /\ (length new <= 1)%nat /\
      (new <> [] -> iter_for_sending (v_segs s) None = [] \/
                    v_rto_retransmissions s' = v_rto_retransmissions s + 1)) \/
     (data_bytes new <= window_budget s /\
      (new = [] \/
       calc_flight_size (v_segs s) (v_last_sent_seq_nr s) + data_bytes new
         <= Z.min (cc_window cci (v_cc s)) (v_last_remote_window s)))).
Proof.
  intros Hnr Hcnt Hpos H.
  destruct (send_tx_queue_nonrec s s' Hnr Hcnt H) as [Ho|f rest Hexp Hit Ho Hr|fin Hexp Hit Ho|sent rest Hz E Ho Hok Hb].
  - exists []. split; [exact Ho|]. right. split; [cbn; unfold window_budget, sat_sub; lia|left; reflexivity].
  - exists [data_pkt s (outgoing_header s) f]. split; [exact Ho|]. left.
    split; [exact Hexp|]. split; [cbn; lia|]. intros _. right. exact Hr.
  - exists [fin_pkt (set_last_sent_seq_nr s (wsub16 fin 1)) fin]. split; [exact Ho|]. left.
    split; [exact Hexp|]. split; [cbn; lia|]. intros _. left. exact Hit.
  - exists (rev (map (data_pkt s (outgoing_header s)) sent)). split; [exact Ho|]. right.
    pose proof (new_items_sizes_pos s sent rest Hpos E) as Hsz.
    assert (Hsz0 : Forall (fun f => 0 <= sg_size (fs_seg f)) sent)
      by (eapply Forall_impl; [|exact Hsz]; cbn; intros; lia).
    rewrite (data_bytes_sent s _ sent Hok Hsz0).
    split; [exact Hb|].
    destruct sent as [|f0 r0]; [left; reflexivity|right].
    assert (1 <= fs_bytes (f0 :: r0)) by (apply fs_bytes_pos; [exact Hsz|discriminate]).
    unfold window_budget, sat_sub in Hb. lia.
Qed.

(* (b) a zero peer window: the new-data loop does not start *)
Theorem zero_window_silent s s' :
  v_last_remote_window s = 0 ->
  is_recovering (v_recovery s) = false -> 0 <= v_rto_retransmissions s -> segs_pos (v_segs s) ->
  step_st (send_tx_queue cci s) = Some s' ->
  v_out s' = v_out s \/
  (timer_expired (v_t_retransmit s) (v_now s) = true /\ exists p, v_out s' = p :: v_out s).
Proof.
  intros Hw Hnr Hcnt Hpos H.
  destruct (send_tx_queue_nonrec s s' Hnr Hcnt H) as [Ho|f rest Hexp Hit Ho Hr|fin Hexp Hit Ho|sent rest Hz E Ho Hok Hb].
  - left; exact Ho.
  - right. eauto.
  - right. eauto.
  - left. pose proof (new_items_sizes_pos s sent rest Hpos E) as Hsz.
    destruct sent as [|f0 r0]; [exact Ho|exfalso].
    assert (1 <= fs_bytes (f0 :: r0)) by (apply fs_bytes_pos; [exact Hsz|discriminate]).
    pose proof (calc_flight_nonneg (v_segs s) (v_last_sent_seq_nr s) Hpos).
    unfold window_budget, sat_sub in Hb. rewrite Hw in Hb. lia.
Qed.

Theorem zero_window_loop (s : vsock) h :
  segs_pos (v_segs s) -> new_data_loop (new_items s) s h 0 = SOk s None.
Proof. intro Hp. apply new_data_loop_zero. apply iter_sizes_pos. exact Hp. Qed.

Theorem zero_window_budget (s : vsock) :
  v_last_remote_window s = 0 -> is_recovering (v_recovery s) = false -> segs_pos (v_segs s) ->
  new_remaining cci s = 0.
Proof.
  intros Hw Hnr Hp. rewrite new_remaining_not_recovering by exact Hnr.
  pose proof (calc_flight_nonneg (v_segs s) (v_last_sent_seq_nr s) Hp).
  unfold window_budget, sat_sub. rewrite Hw. lia.
Qed.

(* (d) PARTIAL: whenever new data goes out outside recovery the counted flight stays within the
   congestion window; the Cubic-specific growth of that window is C15's subject *)
Theorem slow_start_bound_partial s s' :
  is_recovering (v_recovery s) = false -> 0 <= v_rto_retransmissions s -> segs_pos (v_segs s) ->
  timer_expired (v_t_retransmit s) (v_now s) = false ->
  step_st (send_tx_queue cci s) = Some s' ->
  exists new, v_out s' = new ++ v_out s /\
    (new = [] \/ calc_flight_size (v_segs s) (v_last_sent_seq_nr s) + data_bytes new
                   <= cc_window cci (v_cc s)).
Proof.
  intros Hnr Hcnt Hpos Hexp H.
  destruct (new_data_le_window s s' Hnr Hcnt Hpos H) as (new & Ho & [(Hx & _)|(_ & Hb)]); [congruence|].
  exists new. split; [exact Ho|]. destruct Hb as [Hb|Hb]; [left; exact Hb|right; lia].
Qed.

(* (a) the other way: in terms of what is truly outstanding *)
Theorem true_flight_le_window s s' k :
  is_recovering (v_recovery s) = false -> 0 <= v_rto_retransmissions s -> segs_pos (v_segs s) ->
  0 <= ss_snd_una (v_segs s) < M16 -> 0 <= k <= 1024 ->
  v_last_sent_seq_nr s = wsub16 (wadd16 (ss_snd_una (v_segs s)) k) 1 ->
  sent_prefix (ss_segs (v_segs s)) (Z.to_nat k) ->
  timer_expired (v_t_retransmit s) (v_now s) = false ->
  step_st (send_tx_queue cci s) = Some s' ->
  exists new, v_out s' = new ++ v_out s /\
    (new = [] \/
     true_flight (ss_segs (v_segs s)) + data_bytes new
       <= Z.min (cc_window cci (v_cc s)) (v_last_remote_window s)).
Proof.
  intros Hnr Hcnt Hpos Hu Hk Hls Hsp Hexp H.
  destruct (new_data_le_window s s' Hnr Hcnt Hpos H) as (new & Ho & [(Hx & _)|(_ & Hb)]); [congruence|].
  exists new. split; [exact Ho|]. destruct Hb as [Hb|Hb]; [left; exact Hb|right].
  rewrite <- (flight_size_exact (v_segs s) (v_last_sent_seq_nr s) k Hu Hk Hls Hsp). exact Hb.
Qed.

(* ---- the positive-size invariant of the table: what the segmentation loop enqueues ---- *)
Lemma enqueue_pos t len p : segs_pos t -> 1 <= len -> segs_pos (enqueue t len p).
Proof.
  unfold segs_pos, enqueue, Segments.set_segs; cbn [ss_segs]. intros H Hl.
  apply Forall_app. split; [exact H|]. constructor; [cbn [sg_size]; exact Hl|constructor].
Qed.

Lemma next_segment_size_ge ss ss1 sz :
  next_segment_size ss = Some (ss1, sz) -> min_ss ss1 = min_ss ss /\ (1 <= min_ss ss -> 1 <= sz).
Proof.
  unfold next_segment_size. destruct (cd_rem ss =? 0).
  - unfold bind, next_probe. cbn [min_ss max_ss np_diff np_half np_sum1 np_sum2].
    destruct (_ && _ && _) eqn:E; [|discriminate]. intro H; injection H as <- <-. cbn [min_ss].
    split; [reflexivity|]. intro H1.
    apply andb_prop in E. destruct E as [E _]. apply andb_prop in E. destruct E as [E _].
    unfold np_sum2, np_sum1, np_half, np_diff in *. cbn [min_ss max_ss] in *. lia.
  - intro H; injection H as <- <-. cbn [min_ss]. split; [reflexivity|auto].
Qed.

Lemma segment_loop_pos : forall fuel nagle ss segs rm rwr ss' segs' rm',
  1 <= min_ss ss -> segs_pos segs ->
  segment_loop fuel nagle ss segs rm rwr = Some (ss', segs', rm') ->
  segs_pos segs' /\ min_ss ss' = min_ss ss.
Proof.
  induction fuel as [|b fuel IH]; intros nagle ss segs rm rwr ss' segs' rm' Hm Hp; cbn [segment_loop].
  - intro H; injection H as <- <- <-. auto.
  - destruct ((0 <? rm) && (0 <? rwr)) eqn:Ec; [|intro H; injection H as <- <- <-; auto].
    apply andb_prop in Ec. destruct Ec as [Hr Hw]. apply Z.ltb_lt in Hr. apply Z.ltb_lt in Hw.
    destruct (next_segment_size ss) as [[ss1 sz]|] eqn:En; [|discriminate].
    destruct (next_segment_size_ge _ _ _ En) as [Hm1 Hsz]. specialize (Hsz Hm).
    assert (Hpay : 1 <= Z.min (Z.min sz rwr) rm) by (clear - Hr Hw Hsz; lia).
    destruct (nagle && _ && _).
    { intro H; injection H as <- <- <-. auto. }
    destruct (mss ss1 <? Z.min (Z.min sz rwr) rm).
    + intro H; injection H as <- <- <-. split; [apply enqueue_pos; assumption|exact Hm1].
    + intro H. assert (Hm1' : 1 <= min_ss ss1) by lia.
      destruct (IH _ _ _ _ _ _ _ _ Hm1' (enqueue_pos _ _ false Hp Hpay) H) as [A B].
      split; [exact A|lia].
Qed.

(* ---- (c) single-segment mode after a retransmission timeout ---- *)
(* the RTO part retransmitted the head: the counter becomes positive and that datagram is the only
   one of this call *)
Theorem after_rto_single s s' f rest :
  v_transport_pending s = false ->
  timer_expired (v_t_retransmit s) (v_now s) = true ->
  iter_for_sending (v_segs s) None = f :: rest ->
  0 <= v_rto_retransmissions s ->
  step_st (send_tx_queue cci s) = Some s' ->
  v_out s' = v_out s \/
  (v_out s' = data_pkt s (outgoing_header s) f :: v_out s /\
   v_rto_retransmissions s' = v_rto_retransmissions s + 1 /\ 0 < v_rto_retransmissions s' /\
   v_last_sent_seq_nr s' = fs_seq f).
Proof.
  intros Hp Hexp Hit Hcnt. rewrite send_tx_queue_eq, Hp.
  set (h := outgoing_header s).
  destruct (rto_branch cci s h) as [s1 ret|s1 e|] eqn:Er; cbn [sbind]; [| |discriminate].
  - assert (Hs : step_st (rto_branch cci s h) = Some s1) by (rewrite Er; reflexivity).
    pose proof (rto_branch_spec cci _ _ _ Hs) as Ho. rewrite Er in Ho.
    destruct Ho as [Ho Hf Hsg Hls Hne Hnq
                   | f' rest' _ Hit' Hr Ho Hok Hsg Hrto Hls Htx Hop Hnow Hrw Hst Hpr Htr _
                   | fin _ Hit' _ _ _ _ _ _ _ _ _ _ _ _ _].
    + (* send_data did not send (transport pending): the call returns *)
      destruct ret; [|exfalso; exact (Hnq _ _ Hexp Hit eq_refl)].
      cbn [after_rto_k step_st]. intro H; injection H as <-. left; exact Ho.
    + rewrite Hit in Hit'. injection Hit' as <- <-. injection Hr as ->. unfold after_rto_k.
      destruct (Z.ltb_spec 0 (v_rto_retransmissions s1)) as [Hpos|Hz]; [|exfalso; lia].
      cbn [step_st]. intro H; injection H as <-. right. repeat split; auto; lia.
    + rewrite Hit in Hit'. discriminate.
  - cbn [step_st]. intro H; injection H as <-.
    assert (Hs : step_st (rto_branch cci s h) = Some s1) by (rewrite Er; reflexivity).
    pose proof (rto_branch_spec cci _ _ _ Hs) as Ho. rewrite Er in Ho.
    destruct Ho as [Ho _ _ _ _ _
                   | f' rest' _ _ Hr _ _ _ _ _ _ _ _ _ _ _ _ _
                   | fin _ _ _ _ Hr _ _ _ _ _ _ _ _ _ _]; try discriminate.
    left; exact Ho.
Qed.

(* while the counter is positive a call emits at most the one datagram of the RTO part, only when
   the timer has expired again, and never lowers the counter *)
Theorem rto_mode_single s s' :
  0 < v_rto_retransmissions s ->
  step_st (send_tx_queue cci s) = Some s' ->
  v_rto_retransmissions s <= v_rto_retransmissions s' /\
  (v_out s' = v_out s \/
   (timer_expired (v_t_retransmit s) (v_now s) = true /\ exists p, v_out s' = p :: v_out s)).
Proof.
  intros Hcnt. rewrite send_tx_queue_eq.
  destruct (v_transport_pending s).
  { cbn [step_st]. intro H; injection H as <-. split; [lia|left; reflexivity]. }
  set (h := outgoing_header s).
  destruct (rto_branch cci s h) as [s1 ret|s1 e|] eqn:Er; cbn [sbind]; [| |discriminate].
  - assert (Hs : step_st (rto_branch cci s h) = Some s1) by (rewrite Er; reflexivity).
    pose proof (rto_branch_spec cci _ _ _ Hs) as Ho. rewrite Er in Ho.
    assert (Hret : forall sx, 0 < v_rto_retransmissions sx ->
              step_st (after_rto_k cci h sx ret) = Some s' -> s' = sx).
    { intros sx Hx. unfold after_rto_k. destruct ret; [cbn [step_st]; congruence|].
      destruct (Z.ltb_spec 0 (v_rto_retransmissions sx)); [cbn [step_st]; congruence|lia]. }
    destruct Ho as [Ho Hf Hsg Hls Hne Hnq
                   | f' rest' Hexp Hit' Hr Ho Hok Hsg Hrto Hls Htx Hop Hnow Hrw Hst Hpr Htr _
                   | fin Hexp Hit' _ _ _ Ho _ Hrto _ _ _ _ _ _ _].
    + assert (Hc : v_rto_retransmissions s1 = v_rto_retransmissions s) by (unfold sd_frame in Hf; tauto).
      intro H. rewrite (Hret s1 ltac:(lia) H). split; [lia|left; exact Ho].
    + intro H. rewrite (Hret s1 ltac:(lia) H). split; [lia|right; eauto].
    + intro H. rewrite (Hret s1 ltac:(lia) H). split; [lia|right; eauto].
  - cbn [step_st]. intro H; injection H as <-.
    assert (Hs : step_st (rto_branch cci s h) = Some s1) by (rewrite Er; reflexivity).
    pose proof (rto_branch_spec cci _ _ _ Hs) as Ho. rewrite Er in Ho.
    destruct Ho as [Ho Hf _ _ _ _
                   | f' rest' _ _ Hr _ _ _ _ _ _ _ _ _ _ _ _ _
                   | fin _ _ _ _ Hr _ _ _ _ _ _ _ _ _ _]; try discriminate.
    assert (Hc : v_rto_retransmissions s1 = v_rto_retransmissions s) by (unfold sd_frame in Hf; tauto).
    split; [lia|left; exact Ho].
Qed.

(* ---- (c) continued: what resets the counter ---- *)
Lemma recv_loop_rto fuel s acc s' :
  step_st (recv_loop cci fuel s acc) = Some s' ->
  v_rto_retransmissions s' = v_rto_retransmissions s.
Proof. intro H. destruct (recv_loop_frame cci _ _ _ _ H) as (A & _). exact A. Qed.

(* the counter leaves process_all_incoming_messages unchanged, or is reset to zero, which happens
   only when the messages of this poll acknowledged (cumulatively or selectively) something new.
   Since the repair of D17 the bookkeeping also runs when the receive loop ended on the closed
   channel (`early` = true), so the reset is no longer confined to early = false. *)
Theorem rto_mode_exit_ack s s' :
  step_st (process_all_incoming_messages cci s) = Some s' ->
  v_rto_retransmissions s' = v_rto_retransmissions s \/
  (v_rto_retransmissions s' = 0 /\
   exists s1 r early,
     recv_loop cci (v_inbox s ++ [ {| m_hdr := outgoing_header s; m_payload := [] |} ]) s
               on_ack_result_default = SOk s1 (r, early) /\
     (0 < ar_acked_segments r \/ 0 < ar_newly_sacked_segments r)).
Proof.
  unfold process_all_incoming_messages.
  destruct (recv_loop cci _ s on_ack_result_default) as [s1 [r early]|s1 e|] eqn:El; cbn [sbind]; [| |discriminate].
  2:{ cbn [step_st]. intro H; injection H as <-. left. apply (recv_loop_rto _ _ _ _ ltac:(rewrite El; reflexivity)). }
  assert (H1 : v_rto_retransmissions s1 = v_rto_retransmissions s)
    by (apply (recv_loop_rto _ _ _ _ ltac:(rewrite El; reflexivity))).
  set (s2 := if (0 <? ar_acked_segments r) || (0 <? ar_newly_sacked_segments r) then _ else s1).
  assert (H2 : (v_rto_retransmissions s2 = v_rto_retransmissions s) \/
               (v_rto_retransmissions s2 = 0 /\ (0 < ar_acked_segments r \/ 0 < ar_newly_sacked_segments r))).
  { unfold s2. destruct ((0 <? ar_acked_segments r) || (0 <? ar_newly_sacked_segments r)) eqn:Ec; [|left; exact H1].
    right. split; [|lia].
    unfold restart_remote_inactivity_timer.
    destruct (ss_segs (v_segs (set_rto_retransmissions s1 0))); [destruct (our_fin_if_unacked _)|]; vsimpl; reflexivity. }
  clearbody s2.
  assert (Hfin : forall s3, v_rto_retransmissions s3 = v_rto_retransmissions s2 ->
            step_st (match rv_phase (v_recovery s3) with
                     | Recovering rc =>
                         match calc_pipe (v_segs s3) (rc_high_rxt rc) (v_last_sent_seq_nr s3)
                                         (roundtrip_time (v_rtte s3)) (v_now s3) with
                         | None => SPanic
                         | Some (segs', pipe, recalc) =>
                             SOk (set_recovering (set_segs s3 segs')
                                    {| rc_recovery_point := rc_recovery_point rc; rc_high_rxt := rc_high_rxt rc;
                                       rc_total_retx := rc_total_retx rc; rc_pipe := pipe; rc_recalc := recalc;
                                       rc_cwnd := rc_cwnd rc |}) tt
                         end
                     | _ => SOk s3 tt
                     end) = Some s' -> v_rto_retransmissions s' = v_rto_retransmissions s2).
  { intros s3 H3. destruct (rv_phase (v_recovery s3)); try (cbn [step_st]; intro H; injection H as <-; exact H3).
    destruct (calc_pipe _ _ _ _ _) as [[[segs' pipe] recalc]|]; [|discriminate].
    cbn [step_st]. intro H; injection H as <-. unfold set_recovering. vsimpl. exact H3. }
  assert (Hgoal : forall x : vsock, v_rto_retransmissions x = v_rto_retransmissions s2 ->
            v_rto_retransmissions x = v_rto_retransmissions s \/
            (v_rto_retransmissions x = 0 /\
             exists s1' r' early', SOk s1 (r, early) = SOk s1' (r', early') /\
               (0 < ar_acked_segments r' \/ 0 < ar_newly_sacked_segments r'))).
  { intros x Hx. destruct H2 as [H2|[H2 H2']]; [left; congruence|right]. split; [congruence|]. eauto. }
  destruct (0 <? ar_acked_segments r).
  - assert (Hb : v_rto_retransmissions (acked_counts_as_sent s2) = v_rto_retransmissions s2).
    { unfold acked_counts_as_sent. destruct (seq_gt _ _ && seq_lt _ _); vsimpl; reflexivity. }
    revert Hb. generalize (acked_counts_as_sent s2). intros s2b Hb.
    destruct (truncate_front (v_tx s2b) (ar_acked_bytes r)) as [tx1 tr]. destruct tr.
    + destruct (wake_writer tx1) as [tx2 w]. cbn [sbind]. cbv beta. intro H. apply Hgoal.
      eapply Hfin; [|exact H]. unfold add_wakes. vsimpl. exact Hb.
    + cbn [sbind step_st]. intro H; injection H as <-. apply Hgoal. vsimpl. exact Hb.
  - cbn [sbind]. cbv beta. intro H. apply Hgoal. eapply Hfin; [|exact H]. reflexivity.
Qed.

(* boundary B6: popping an expired MTU probe resets the counter too (the code treats that expiry as
   probe-failure detection, not as a retransmission timeout) *)
Theorem rto_mode_exit_probe s s' :
  step_st (split_tx_queue_into_segments cci s) = Some s' ->
  v_rto_retransmissions s' = v_rto_retransmissions s \/
  (v_rto_retransmissions s' = 0 /\
   exists (s1 : vsock) segs1 rw ps,
     pop_expired_mtu_probe (v_segs s1) (timer_expired (v_t_retransmit s1) (v_now s1))
                           (o_mtu_probe_max_retx (v_opts s1)) = (segs1, PeExpired rw ps)).
Proof.
  unfold split_tx_queue_into_segments.
  destruct (_ =? 0). { cbn [step_st]. intro H; injection H as <-. left. vsimpl. reflexivity. }
  set (s1 := if (_ <? _) && (_ <? _) then _ else s).
  assert (H1 : v_rto_retransmissions s1 = v_rto_retransmissions s).
  { unfold s1. destruct (_ && _); [|reflexivity]. destruct (grow _ _) as [tx1 g]. destruct g.
    - destruct (wake_writer tx1). unfold add_wakes. vsimpl. reflexivity.
    - vsimpl. reflexivity. }
  clearbody s1.
  destruct (is_remote_fin_or_later (v_state s1)). { cbn [step_st]. intro H; injection H as <-. left; exact H1. }
  destruct (pop_expired_mtu_probe _ _ _) as [segs1 pe] eqn:Epop.
  assert (Hcont : forall s2 : vsock, step_st (
      let segmented_len := ss_len_bytes (v_segs s2) in
      if Z.of_nat (length (ring (v_tx s))) <? segmented_len then SErr s2 (ErrBug BugInBufferComputations)
      else match segment_loop (ring (v_tx s2)) (o_nagle (v_opts s2)) (v_ss s2) (v_segs s2)
                   (Z.of_nat (length (ring (v_tx s))) - segmented_len) (v_last_remote_window s2) with
           | None => SPanic
           | Some (ss', segs', remaining) =>
               SOk (set_unsegmented (set_segs (set_ss s2 ss') segs') remaining) tt
           end) = Some s' -> v_rto_retransmissions s' = v_rto_retransmissions s2).
  { intro s2. cbv zeta. destruct (_ <? _). { cbn [step_st]. intro H; injection H as <-. reflexivity. }
    destruct (segment_loop _ _ _ _ _ _) as [[[ss' segs'] rm]|]; [|discriminate].
    cbn [step_st]. intro H; injection H as <-. vsimpl. reflexivity. }
  destruct pe.
  - intro H. right. split.
    + rewrite (Hcont _ H). destruct (seq_gt _ _); vsimpl; reflexivity.
    + (* (repair of D6) the flag handed to the pop is `expired && not local-fin`; a pop that gave the probe up had it true *)
      destruct (timer_expired (v_t_retransmit s1) (v_now s1)) eqn:Ete.
      * destruct (is_local_fin_or_later (v_state s1)); cbn [andb negb] in Epop.
        -- exfalso. unfold pop_expired_mtu_probe in Epop.
           destruct (last_and_init _) as [[init x]|]; [|inversion Epop].
           destruct (sg_delivered x); [inversion Epop|]. cbn [andb] in Epop.
           destruct (sg_probe x); inversion Epop.
        -- rewrite <- Ete in Epop. eauto.
      * exfalso. cbn [andb] in Epop. unfold pop_expired_mtu_probe in Epop.
        destruct (last_and_init _) as [[init x]|]; [|inversion Epop].
        destruct (sg_delivered x); [inversion Epop|]. cbn [andb] in Epop.
        destruct (sg_probe x); inversion Epop.
  - cbn [step_st]. intro H; injection H as <-. left; exact H1.
  - intro H. left. rewrite (Hcont _ H). exact H1.
Qed.

End WithCC.

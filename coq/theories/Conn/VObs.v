(* What one step of the connection-level correspondence shows: the fingerprint of the state
   (exactly the fields the implementation's hook snapshot exposes), the datagrams emitted, the
   wake-ups.  The boolean property predicates of C02/C03/C05/C06/C07/C10/C14/C17/C18 are functions
   of (fingerprint before, event, observation after); the same functions are evaluated on the
   implementation's observations (parsed by driver/c_vsock.ml) and proved about the model.
   Model only. *)
From Utp Require Import Base.Prelude Wire.SeqNr Wire.Header Rtt.Rtte Mtu.SegSizes Rx.Rx Tx.Ring
  Tx.Segments Conn.Recovery Conn.Msg Conn.VSockRec Conn.VSock Conn.VSockRun.

(* one segment as the snapshot shows it *)
Record fseg := {
  fg_size : Z; fg_abs : Z; fg_delivered : bool;
  fg_sent_kind : Z;            (* 0 NotSent, 1 SentTime, 2 Retransmitted *)
  fg_retx : Z;                 (* retransmit_count *)
  fg_last_sent : option Z;
  fg_probe : bool; fg_lost : bool; fg_expired : bool; fg_sacks_after : bool;
}.

Definition fseg_of (g : seg) : fseg :=
  {| fg_size := sg_size g; fg_abs := sg_abs g; fg_delivered := sg_delivered g;
     fg_sent_kind := match sg_sent g with NotSent => 0 | SentTime _ => 1 | Retransmitted _ _ => 2 end;
     fg_retx := seg_retransmit_count g; fg_last_sent := seg_last_sent g;
     fg_probe := sg_probe g; fg_lost := sg_lost g; fg_expired := sg_expired g;
     fg_sacks_after := sg_sacks_after g |}.

Record vfp := {
  f_state : vstate;
  f_seq_nr : Z; f_last_sent_seq_nr : Z; f_last_consumed : Z; f_last_sent_ack_nr : Z;
  f_last_sent_window : Z; f_last_remote_window : Z; f_cbu : Z; f_rto_retx : Z;
  f_t_retransmit : option Z; f_t_inactivity : option Z; f_t_ack_delay : option Z;
  f_t_recovery_pipe : option Z; f_t_syn_ack_resend : option Z;
  f_mss : Z; f_max_ss : Z; f_unsegmented : Z;
  f_rto : Z; f_rtt : Z;
  f_cc_window : Z; f_cc_sshthresh : Z;
  f_recovery : rphase; f_supports_sack : bool;
  f_transport_pending : bool;   (* this_poll.transport_pending as the last poll left it *)
  (* Segments *)
  f_snd_una : Z; f_seg_len_bytes : Z; f_seg_offset : Z; f_seg_removed : Z;
  f_sack_depth : Z; f_last_sack_empty : bool; f_segs : list fseg;
  (* UserRx *)
  f_rx_ff : Z; f_rx_len : Z; f_rx_len_bytes : Z; f_rx_qbytes : Z;
  f_rx_disp_waker : bool; f_rx_reader_waker : bool; f_rx_reader_dropped : bool; f_rx_closed : bool;
  f_rx_last_remaining : Z;      (* UserRx::last_remaining_rx_window *)
  (* UserTx *)
  f_tx_len : Z; f_tx_cap : Z;
  f_tx_closed : bool; f_tx_writer_dropped : bool; f_tx_writer_shutdown : bool;
  f_tx_disp_waker : bool; f_tx_writer_waker : bool;
}.

Section WithCC.
Context {CC : Type} (cci : cc_iface CC).

(* note: in the Recovering phase only the five fields the hook exposes are meaningful;
   rc_recalc is not observable and is set to None in parsed observations *)
Definition fp_of_vsock (s : vsock CC) : vfp :=
  {| f_state := v_state s;
     f_seq_nr := v_seq_nr s; f_last_sent_seq_nr := v_last_sent_seq_nr s;
     f_last_consumed := v_last_consumed s; f_last_sent_ack_nr := v_last_sent_ack_nr s;
     f_last_sent_window := v_last_sent_window s; f_last_remote_window := v_last_remote_window s;
     f_cbu := v_cbu s; f_rto_retx := v_rto_retransmissions s;
     f_t_retransmit := v_t_retransmit s; f_t_inactivity := v_t_inactivity s;
     f_t_ack_delay := v_t_ack_delay s; f_t_recovery_pipe := v_t_recovery_pipe s;
     f_t_syn_ack_resend := v_t_syn_ack_resend s;
     f_mss := SegSizes.mss (v_ss s); f_max_ss := max_ss (v_ss s); f_unsegmented := v_unsegmented s;
     f_rto := retransmission_timeout (v_rtte s); f_rtt := roundtrip_time (v_rtte s);
     f_cc_window := cc_window cci (v_cc s); f_cc_sshthresh := cc_sshthresh cci (v_cc s);
     f_recovery := match rv_phase (v_recovery s) with
                   | Recovering r => Recovering {| rc_recovery_point := rc_recovery_point r;
                                                  rc_high_rxt := rc_high_rxt r;
                                                  rc_total_retx := rc_total_retx r;
                                                  rc_pipe := rc_pipe r; rc_recalc := None;
                                                  rc_cwnd := rc_cwnd r |}
                   | p => p
                   end;
     f_supports_sack := rv_supports_sack (v_recovery s);
     f_transport_pending := v_transport_pending s;
     f_snd_una := ss_snd_una (v_segs s); f_seg_len_bytes := ss_len_bytes (v_segs s);
     f_seg_offset := ss_offset (v_segs s); f_seg_removed := ss_removed (v_segs s);
     f_sack_depth := ss_sack_depth (v_segs s); f_last_sack_empty := ss_last_sack_empty (v_segs s);
     f_segs := map fseg_of (ss_segs (v_segs s));
     f_rx_ff := filled_front (v_rx s); f_rx_len := ooq_len (v_rx s);
     f_rx_len_bytes := ooq_len_bytes (v_rx s); f_rx_qbytes := q_len_bytes (v_rx s);
     f_rx_disp_waker := disp_waker (v_rx s); f_rx_reader_waker := reader_waker (v_rx s);
     f_rx_reader_dropped := reader_dropped (v_rx s); f_rx_closed := vsock_closed (v_rx s);
     f_rx_last_remaining := last_remaining_rx_window (v_rx s);
     f_tx_len := Z.of_nat (length (ring (v_tx s))); f_tx_cap := cap (v_tx s);
     f_tx_closed := t_vsock_closed (v_tx s); f_tx_writer_dropped := writer_dropped (v_tx s);
     f_tx_writer_shutdown := writer_shutdown (v_tx s);
     f_tx_disp_waker := t_disp_waker (v_tx s); f_tx_writer_waker := writer_waker (v_tx s) |}.

End WithCC.

(* a datagram as the observation shows it: header + payload length (+ the position-coded start
   byte is not observable: only a hash of the payload is compared by the correspondence) *)
Record fpacket := { fq_hdr : chdr; fq_plen : Z }.
Definition fpacket_of (p : packet) : fpacket :=
  {| fq_hdr := p_hdr p; fq_plen := Z.of_nat (length (p_payload p)) |}.

(* the event, reduced to what a predicate may depend on *)
Inductive fevent :=
| FeSetNow (t : Z)
| FeSetLimit (m : option Z)
| FePoll (script : list send_outcome)
| FeDeliver (h : chdr) (plen : Z)
| FeCloseInbox
| FeWrite (len : Z)
| FeFlush | FeShutdown | FeRead (n : Z) | FeDropReader | FeDropWriter.

Definition fevent_of (o : vop) : fevent :=
  match o with
  | VoSetNow t => FeSetNow t
  | VoSetLimit m => FeSetLimit m
  | VoPoll sc => FePoll sc
  | VoDeliver m => FeDeliver (m_hdr m) (Z.of_nat (length (m_payload m)))
  | VoCloseInbox => FeCloseInbox
  | VoWrite b => FeWrite (Z.of_nat (length b))
  | VoFlush => FeFlush | VoShutdown => FeShutdown | VoRead n => FeRead n
  | VoDropReader => FeDropReader | VoDropWriter => FeDropWriter
  end.

(* the result of an event, reduced likewise *)
Inductive fresult :=
| FrNone
| FrPoll (r : poll_result) (pkts : list fpacket) (wakes : list vwake) (arm : option Z)
| FrWrite (r : write_result)
| FrUnit (r : unit_result)
| FrReadBytes (n : Z) | FrReadEof | FrReadErrMsg | FrReadErrDead | FrReadPending.

Definition fresult_of (o : vout) : fresult :=
  match o with
  | VrNone => FrNone
  | VrPoll r pk w a => FrPoll r (map fpacket_of pk) w a
  | VrWrite r => FrWrite r
  | VrUnit r => FrUnit r
  | VrRead (RdOk bs) => FrReadBytes (Z.of_nat (length bs))
  | VrRead RdEof => FrReadEof
  | VrRead RdErrMsg => FrReadErrMsg
  | VrRead RdErrDead => FrReadErrDead
  | VrRead RdPending => FrReadPending
  end.

(* one step of a trace as a predicate sees it; `now` is the clock (env.now()) at the event *)
Record fstep := {
  fs_now : Z;
  fs_pre : vfp;
  fs_event : fevent;
  fs_result : fresult;
  fs_disp_woken : bool;      (* the event fired a waker the dispatcher had registered *)
  fs_self_woken : bool;
  fs_post : vfp;
}.

Section Trace.
Context {CC : Type} (cci : cc_iface CC).

Fixpoint ftrace (s : vsock CC) (ops : list vop) : list fstep :=
  match ops with
  | [] => []
  | o :: rest =>
      let '(s', out, dw, sw) := vstep cci s o in
      {| fs_now := v_env_now s'; fs_pre := fp_of_vsock cci s; fs_event := fevent_of o;
         fs_result := fresult_of out; fs_disp_woken := dw; fs_self_woken := sw;
         fs_post := fp_of_vsock cci s' |}
        :: (if poll_finished out then [] else ftrace s' rest)
  end.
End Trace.

(* C11, connection-level clause — "every datagram the library emits carries version 1 and the
   connection id owed to that direction, and is well-formed" — as boolean predicates over the
   packets one observed step records as emitted (Conn/VObs: fpacket = header + payload length).
   Model only (no proofs).

   The version nibble is not a field of the header value: UtpHeader::serialize writes it
   (Wire/Header.v: fixed_bytes, `type * 16 + 1`), so "version 1" is the statement that the emitted
   header is one `serialize` accepts and that what it writes parses back to the same header
   (Props/C11: c11_roundtrip, c11_ser_ok_full); here: hdr_okb (hdr_of_chdr h). *)
From Utp Require Import Base.Prelude Wire.SeqNr Wire.Header Tx.Segments Conn.Recovery Conn.Msg
  Conn.VSockRec Conn.VSock Conn.VSockRun Conn.VObs.

(* ---- the connection's view of a header (chdr) as the wire-level UtpHeader value ----
   the 64 SACK bits (bit i of the array: byte i/8, mask 1 << (i%8)) packed into the 8 data bytes *)
Definition sack_of_bits (k : sackbits) : sack :=
  {| sack_bytes := map (sack_byte (fun i => nth (Z.to_nat i) (sk_bits k) false)) [0; 1; 2; 3; 4; 5; 6; 7];
     sack_len := sk_len k |}.

Definition hdr_of_chdr (h : chdr) : header :=
  {| h_type := ch_type h; h_conn := ch_conn_id h; h_ts := ch_ts h; h_tsdiff := ch_ts_diff h;
     h_wnd := ch_wnd h; h_seq := ch_seq h; h_ack := ch_ack h;
     h_ext := {| e_sack := match ch_sack h with Some k => Some (sack_of_bits k) | None => None end;
                 e_close := ch_close_reason h |} |}.

(* ---- the connection ids of one connection (StreamArgs::new_incoming / new_outgoing):
   incoming (we accepted the remote SYN with id c): send c, receive c + 1
   outgoing (our SYN announced c, the SYN-ACK carries c): receive c, send c + 1 *)
Definition conn_id_send_of (c : vconfig) : Z :=
  if vc_incoming c then vc_remote_conn_id c else wadd16 (vc_remote_conn_id c) 1.
Definition conn_id_recv_of (c : vconfig) : Z :=
  if vc_incoming c then wadd16 (vc_remote_conn_id c) 1 else vc_remote_conn_id c.

(* BEP 29: every packet carries the sender's send id, except ST_SYN, which announces the id the
   initiator will RECEIVE on *)
Definition expected_conn_id (c : vconfig) (t : ptype) : Z :=
  match t with ST_SYN => conn_id_recv_of c | _ => conn_id_send_of c end.

(* the five BEP-29 packet types (every value of `ptype`; written out so that the clause is visible) *)
Definition type_in_bep29 (t : ptype) : bool :=
  (0 <=? type_to_number t) && (type_to_number t <=? 4).

(* a SelectiveAck built by SelectiveAck::new: the 64-bit array, len = 64 *)
Definition sack_len64 (sk : option sackbits) : bool :=
  match sk with
  | Some k => (sk_len k =? 64) && (Z.of_nat (length (sk_bits k)) =? 64)
  | None => true
  end.

(* one emitted datagram *)
Definition c11_packet_ok (cfg : vconfig) (q : fpacket) : bool :=
  let h := fq_hdr q in
  (ch_conn_id h =? expected_conn_id cfg (ch_type h)) &&
  type_in_bep29 (ch_type h) &&
  (0 <=? fq_plen q) && Bool.eqb (0 <? fq_plen q) (ptype_eqb (ch_type h) ST_DATA) &&
  hdr_okb (hdr_of_chdr h) &&
  sack_len64 (ch_sack h).

Definition emitted_of (r : fresult) : list fpacket :=
  match r with FrPoll _ pk _ _ => pk | _ => [] end.

(* ---- the step predicate: every datagram this step records as emitted ---- *)
Definition c11_emitted_ok (cfg : vconfig) (st : fstep) : bool :=
  forallb (c11_packet_ok cfg) (emitted_of (fs_result st)).

(* what a connection (VirtualSocket) itself puts on the wire: data, FIN, ACK — never ST_SYN (the socket
   dispatcher sends it before the connection exists) nor ST_RESET (the dispatcher's answer to a refused
   SYN).  Stronger than the property text asks for; proved of the model as well. *)
Definition conn_type (t : ptype) : bool :=
  match t with ST_DATA | ST_FIN | ST_STATE => true | _ => false end.
Definition c11_conn_types_ok (cfg : vconfig) (st : fstep) : bool :=
  forallb (fun q => conn_type (ch_type (fq_hdr q))) (emitted_of (fs_result st)).

(* the configuration fields that become header fields are u16 values (they are read from a parsed
   header / drawn as u16 in the Rust code) *)
Definition c11_config_ok (c : vconfig) : bool :=
  (0 <=? vc_isn c) && (vc_isn c <? M16) && (0 <=? vc_remote_seq c) && (vc_remote_seq c <? M16) &&
  (0 <=? vc_remote_conn_id c) && (vc_remote_conn_id c <? M16).

(* C04 at connection level, second predicate — the number the endpoint WOULD acknowledge is honest at every
   moment, not only when a datagram happens to carry it.  Model-only file.
   `last_consumed_remote_seq_nr` is what every future acknowledgement carries (outgoing_header); after every
   event it must lie k >= 0 above the number the connection started with, with all k sequence numbers in
   between delivered to the endpoint as ST_DATA with payload or ST_FIN (same notion as c04_vsock_ack_ok,
   Conn/C04_Pred.v), and it never moves backwards.  A state in which the counter has jumped over data that
   never arrived is reported even if the connection ends before it emits the acknowledgement (seeded C04-b:
   the poll that honours an out-of-sequence FIN can end in Closed without a datagram).
   Judged while the distances stay within the wrap tolerance (D4), like c04_vsock_ack_ok. *)
From Utp Require Import Base.Prelude Wire.SeqNr Wire.Header Conn.Recovery Conn.Msg Conn.VSockRun Conn.VObs
  Conn.C04_Pred.

Fixpoint c04_consumed_trace (tr : list fstep) (recv : list Z) (base last : Z) : bool :=
  match tr with
  | [] => true
  | st :: r =>
      let recv' := match fs_event st with
                   | FeDeliver h plen => if carries_seq h plen then ch_seq h :: recv else recv
                   | _ => recv
                   end in
      let c := f_last_consumed (fs_post st) in
      if ack_honest recv' base c && (0 <=? seq_sub c last) then c04_consumed_trace r recv' base c else false
  end.

Definition c04_consumed_honest_ok (cfg : vconfig) (tr : list fstep) : bool :=
  match tr with
  | [] => true
  | st :: _ => let b := f_last_consumed (fs_pre st) in c04_consumed_trace tr [] b b
  end.

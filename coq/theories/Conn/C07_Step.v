(* C07 — silence when idle, for every trace of the model.
   1. [poll_idle]: the forward run of poll_body from an idle state (established, inbox drained and its
      channel open, nothing outstanding, nothing to acknowledge, no timer due): every stage leaves the state
      idle and emits nothing; the only packet a completed poll can emit is the window update, which flips
      the zero/non-zero status of the advertised window.
   2. [poll_done_ibe] / [poll_keeps_ibe]: a completed poll leaves the inbox drained and its channel open;
      a Pending poll never fills a drained inbox.
   3. [c07_idle_walk_trace]: the trace predicate c07_idle_silent_partial on every trace. *)
From Utp Require Import Base.Prelude Wire.SeqNr Wire.SeqNr_Proofs Wire.Header Rtt.Rtte Mtu.SegSizes
  Rx.Rx Tx.Ring Tx.Segments Conn.Recovery Conn.Msg Conn.VSockRec Conn.VSock Conn.VSockRun Conn.VObs
  Conn.VSock_LemmasTx Conn.VSock_Lemmas Conn.VSock_LemmasStep Conn.VSock_LemmasReach
  Conn.VSock_LemmasTimers Conn.VSock_LemmasPipe Conn.C07_Pred Conn.C07_Proofs.

(* ------------------------------------------------------------------ Rx / Segments facts *)
Lemma flush_loop_rd : forall fuel s w fb fp s1 w1 fb1 fp1,
  flush_loop fuel s w fb fp = Some (s1, w1, fb1, fp1) -> reader_dropped s1 = reader_dropped s.
Proof.
  induction fuel as [|fuel IH]; intros s w fb fp s1 w1 fb1 fp1; cbn [flush_loop].
  - intro H; injection H as <- _ _ _. reflexivity.
  - destruct (filled_front s =? 0); [intro H; injection H as <- _ _ _; reflexivity|].
    destruct (ooq_data s) as [|m rest]; [discriminate|].
    destruct (w <? _); [intro H; injection H as <- _ _ _; reflexivity|].
    destruct (reader_dropped s) eqn:Rd; [intro H; injection H as <- _ _ _; exact Rd|].
    destruct (_ <? _); [discriminate|].
    intro H. apply IH in H. rewrite H. cbn [pop_front_state reader_dropped]. exact Rd.
Qed.

Lemma rx_flush_rd r r' fr w : rx_flush r = (r', fr, w) -> reader_dropped r' = reader_dropped r.
Proof.
  unfold rx_flush. intro H.
  set (s0 := set_wakers r _ (reader_waker r) (last_remaining_rx_window r)) in *.
  destruct (flush_loop _ s0 _ 0 0) as [[[[s1 w1] fb] fp]|] eqn:E.
  - apply flush_loop_rd in E.
    destruct (0 <? fp); injection H as <- _ _; cbn [set_wakers reader_dropped]; exact E.
  - injection H as <- _ _. reflexivity.
Qed.

Lemma calc_pipe_nil t a b c d t' p r :
  ss_segs t = [] -> calc_pipe t a b c d = Some (t', p, r) -> ss_segs t' = [].
Proof.
  intros H. unfold calc_pipe. rewrite H. unfold len_z. cbn [length Z.of_nat].
  replace (Z.min (Z.max (seq_sub b (ss_snd_una t)) 0) 0) with 0 by lia.
  cbn [Z.ltb Z.compare Z.to_nat firstn enum_from rev pipe_loop app skipn].
  intro E. injection E as <- _ _. reflexivity.
Qed.

Lemma timer_quiet_spec t now : timer_quiet t now = negb (timer_expired t now).
Proof.
  destruct t as [e|]; cbn [timer_quiet timer_expired]; [|reflexivity].
  destruct (Z.ltb_spec now e), (Z.leb_spec e now); try reflexivity; lia.
Qed.

Section WithCC.
Context {CC : Type} (cci : cc_iface CC).
Notation vsock := (vsock CC).

(* ------------------------------------------------------------------ 1. the idle run *)
(* T: the clock of the poll; W: whether the window last advertised is zero *)
Definition idle (T : Z) (W : bool) (s : vsock) : Prop :=
  v_inbox s = [] /\ v_inbox_closed s = false /\ v_state s = Established /\
  ss_segs (v_segs s) = [] /\ ring (v_tx s) = [] /\ v_cbu s = 0 /\ 0 < mss (v_ss s) /\
  timer_expired (v_t_retransmit s) T = false /\ timer_expired (v_t_inactivity s) T = false /\
  timer_expired (v_t_ack_delay s) T = false /\
  writer_shutdown (v_tx s) = false /\ (reader_dropped (v_rx s) && writer_dropped (v_tx s)) = false /\
  v_out s = [] /\ (v_last_sent_window s =? 0) = W /\ v_env_now s = T.

(* inside an iteration of poll_body *)
Definition idleA (T : Z) (W : bool) (s : vsock) : Prop :=
  idle T W s /\ v_now s = T /\ v_restart s = false /\ v_transport_pending s = false.

(* after maybe_send_ack: nothing was emitted, or the window status flipped *)
Definition idleD (W : bool) (s : vsock) : Prop :=
  v_out s = [] \/ (v_last_sent_window s =? 0) <> W.

Ltac idle_dest H :=
  destruct H as ((Hi & Hc & Hst & Hsg & Hrg & Hcb & Hms & Hrt & Hin & Had & Hsh & Hdr & Hout & Hw & Hen)
                 & Hnow & Hrs & Htp).
Ltac idle_done := unfold idleA, idle; vsimpl_goal; repeat split; assumption.

Lemma idle_syn_ack T W s : idleA T W s -> stU (idleA T W) (maybe_send_syn_ack s).
Proof. intro H. idle_dest H. unfold maybe_send_syn_ack. rewrite Hst. cbn [stU]. idle_done. Qed.

Lemma idle_imm T W s : idleA T W s -> immediate_ack_to_transmit s = false.
Proof.
  intro H. idle_dest H. unfold immediate_ack_to_transmit, IMMEDIATE_ACK_EVERY_RMSS. rewrite Hcb.
  apply Z.leb_gt. lia.
Qed.

Lemma idle_pim T W s : idleA T W s -> stU (idleA T W) (process_all_incoming_messages cci s).
Proof.
  intro H. idle_dest H. rewrite paim_eq. rewrite Hi. cbn [app recv_loop]. rewrite Hi, Hc.
  cbn [sbind fst]. unfold paim_rest.
  cbn [on_ack_result_default ar_acked_segments ar_newly_sacked_segments Z.ltb Z.compare orb sbind].
  destruct (rv_phase (v_recovery (set_inbox_waker s true))) eqn:Ep.
  - cbn [stU]. idle_done.
  - cbn [stU]. idle_done.
  - destruct (calc_pipe _ _ _ _ _) as [[[sg pp] rcl]|] eqn:Ecp; [|exact I].
    apply calc_pipe_nil in Ecp; [|exact Hsg]. cbn [stU]. unfold set_recovering. idle_done.
Qed.

Lemma idle_flush T W s rx1 fb w :
  idleA T W s -> rx_flush (v_rx s) = (rx1, FlOk fb, w) ->
  idleA T W (add_wakes (set_rx s rx1) (rx_wakes w)).
Proof.
  intros H E. idle_dest H. apply rx_flush_rd in E. unfold add_wakes, idleA, idle. vsimpl_goal.
  rewrite E. repeat split; assumption.
Qed.

Lemma idle_split T W s : idleA T W s -> stU (idleA T W) (split_tx_queue_into_segments cci s).
Proof.
  intro H. idle_dest H.
  assert (E0 : (Z.of_nat (length (ring (v_tx s))) =? 0) = true) by (rewrite Hrg; reflexivity).
  unfold split_tx_queue_into_segments. rewrite E0. cbn [stU].
  unfold register_dispatcher_if_empty. rewrite Hrg. unfold idleA, idle. vsimpl_goal.
  cbn [upd ring writer_shutdown writer_dropped]. repeat split; assumption.
Qed.

Lemma idle_stq T W s : idleA T W s -> send_tx_queue cci s = SOk s tt.
Proof.
  intro H. idle_dest H. rewrite send_tx_queue_eq. rewrite Htp. unfold rto_branch. rewrite Hnow, Hrt.
  cbn [sbind]. unfold after_rto_k. destruct (0 <? _); [reflexivity|]. rewrite Hsg. reflexivity.
Qed.

Lemma idle_close T W s : idleA T W s -> should_close_on_own_initiative s = false.
Proof. intro H. idle_dest H. unfold should_close_on_own_initiative. rewrite Hdr, Hsh. reflexivity. Qed.

Lemma idle_fin T W s : idleA T W s -> maybe_send_fin s = SOk s false.
Proof. intro H. idle_dest H. unfold maybe_send_fin. rewrite Htp, Hst. reflexivity. Qed.

Lemma idle_msa T W s : idleA T W s ->
  match maybe_send_ack s with
  | SOk s1 _ => v_restart s1 = false /\ v_state s1 = Established /\
                (v_transport_pending s1 = false -> idleD W s1)
  | _ => True
  end.
Proof.
  intro H. pose proof (idle_imm _ _ _ H) as Im. idle_dest H. unfold maybe_send_ack. rewrite Im.
  destruct (should_send_window_update s) eqn:Wu.
  - pose proof (send_ack_qb s) as Q. pose proof (send_ack_txf s) as X.
    destruct (send_ack s) as [s1 b| |] eqn:E; auto. cbn [stR] in Q, X.
    destruct Q as (_ & _ & _ & _ & _ & _ & _ & _ & Q9 & _).
    destruct X as (_ & _ & _ & _ & _ & _ & X7 & _).
    split; [congruence|]. split; [congruence|]. intro Tp1.
    apply send_ack_sent in E; [|exact Tp1]. destruct E as (_ & _ & Lw & _).
    right. rewrite Lw. unfold should_send_window_update in Wu. rewrite Hst in Wu.
    cbn [is_remote_fin_or_later] in Wu. rewrite Hw in Wu.
    destruct (rx_window s =? 0), W; cbn in Wu; congruence.
  - rewrite Hnow, Had, Hcb. cbn [Z.ltb Z.compare].
    split; [exact Hrs|]. split; [exact Hst|]. intros _. left. exact Hout.
Qed.

Definition idleQ (W : bool) (r : body_res) : Prop :=
  match r with
  | BrReturn s' PollPending => v_transport_pending s' = false -> idleD W s'
  | BrRestart _ => False
  | _ => True
  end.

Lemma bail_idle T W X (m : step X) k :
  stU (idleA T W) m -> (forall s1 a, idleA T W s1 -> idleQ W (k s1 a)) -> idleQ W (bail m k).
Proof.
  intros Hm Hk. unfold bail. destruct m as [s1 a|s1 e|]; cbn [stU] in Hm.
  - pose proof Hm as (_ & _ & Rs & _). rewrite Rs. apply Hk; exact Hm.
  - exact I.
  - exact I.
Qed.

Lemma pend_idle T W X (m : step X) k :
  stU (idleA T W) m -> (forall s1 a, idleA T W s1 -> idleQ W (k s1 a)) -> idleQ W (pend m k).
Proof.
  intros Hm Hk. unfold pend. apply (bail_idle T W); [exact Hm|].
  intros s1 a H1. pose proof H1 as (_ & _ & Rs & Tp). rewrite Tp, Rs. apply Hk; exact H1.
Qed.

Theorem poll_body_idle T W s0 : idle T W s0 -> idleQ W (poll_body cci s0).
Proof.
  intro H0.
  assert (HA : idleA T W (poll_start s0)).
  { destruct H0 as (Hi & Hc & Hst & Hsg & Hrg & Hcb & Hms & Hrt & Hin & Had & Hsh & Hdr & Hout & Hw & Hen).
    unfold poll_start, idleA, idle. vsimpl_goal. repeat split; assumption. }
  unfold poll_body. fold (poll_start s0). generalize dependent (poll_start s0). clear H0 s0.
  intros s HA.
  apply (pend_idle T W); [apply idle_syn_ack; exact HA|]. intros s1 _ H1.
  apply (pend_idle T W); [rewrite (idle_imm _ _ _ H1); exact H1|]. intros s2 _ H2.
  apply (pend_idle T W); [apply idle_pim; exact H2|]. intros s3 _ H3.
  destruct (rx_flush (v_rx s3)) as [[rx1 fr] w] eqn:Efl. destruct fr as [fb|]; [|exact I].
  pose proof (idle_flush _ _ _ _ _ _ H3 Efl) as H4.
  set (s4 := add_wakes (set_rx s3 rx1) (rx_wakes w)) in *. clearbody s4.
  assert (Ei : timer_expired (v_t_inactivity s4) (v_now s4) = false).
  { destruct H4 as ((_ & _ & _ & _ & _ & _ & _ & _ & Hin & _) & Hnow & _). rewrite Hnow. exact Hin. }
  rewrite Ei.
  apply (bail_idle T W); [apply idle_split; exact H4|]. intros s5 _ H5.
  rewrite (idle_stq _ _ _ H5). apply (pend_idle T W); [exact H5|]. intros s6 _ H6.
  rewrite (idle_close _ _ _ H6). cbv beta iota zeta. rewrite (idle_fin _ _ _ H6).
  apply (pend_idle T W); [exact H6|]. intros s8 _ H8.
  pose proof (idle_msa _ _ _ H8) as M.
  unfold pend, bail. destruct (maybe_send_ack s8) as [s9 b9| |]; [|exact I|exact I].
  destruct M as (R9 & St9 & D9). rewrite R9.
  destruct (v_transport_pending s9) eqn:T9; [cbn [idleQ]; congruence|].
  assert (C9 : state_is_closed (v_state s9) (o_wait_for_last_ack (v_opts s9)) = false)
    by (rewrite St9; reflexivity).
  rewrite C9.
  assert (Hs : forall sx, sx = poll_tail s9 -> idleQ W (BrReturn sx PollPending)).
  { intros sx ->. cbn [idleQ]. intros _.
    destruct (poll_tail_fields s9) as (_ & _ & _ & _ & F5 & _ & _ & _ & _ & F10 & _).
    unfold idleD. rewrite F5, F10. apply D9. reflexivity. }
  unfold poll_tail in Hs.
  destruct (next_timer_to_poll _) as [sx t]. destruct t; apply Hs; reflexivity.
Qed.

Lemma poll_loop_idle fuel T W s s' :
  idle T W s -> poll_loop cci fuel s = (s', PollPending) -> v_transport_pending s' = false ->
  idleD W s'.
Proof.
  intros H0 E Tp. destruct fuel as [|fuel]; cbn [poll_loop] in E; [discriminate|].
  pose proof (poll_body_idle T W s H0) as Q.
  destruct (poll_body cci s) as [s1 r1|s1|]; cbn [idleQ] in Q.
  - inversion E; subst. apply Q. exact Tp.
  - contradiction.
  - discriminate.
Qed.

Theorem poll_idle T W s s' :
  idle T W (poll_init s) -> poll cci s = (s', PollPending) -> v_transport_pending s' = false ->
  idleD W s'.
Proof. intros H0 E Tp. rewrite poll_unfold in E. eapply poll_loop_idle; eassumption. Qed.

(* the guard of the predicate, read off the fingerprint *)
Lemma idle_pre_idle (s : vsock) sc :
  v_inbox s = [] -> v_inbox_closed s = false ->
  c07_idle_pre (v_env_now s) (fp_of_vsock cci s) = true ->
  idle (v_env_now s) (v_last_sent_window s =? 0) (poll_init (VSockRec.set_sends s sc)).
Proof.
  intros Hi Hc H. unfold c07_idle_pre in H.
  cbn [fp_of_vsock f_state f_segs f_tx_len f_cbu f_mss f_last_consumed f_last_sent_ack_nr f_t_retransmit
       f_t_inactivity f_t_ack_delay f_tx_writer_shutdown f_rx_reader_dropped f_tx_writer_dropped
       f_transport_pending] in H.
  rewrite !andb_true_iff in H.
  destruct H as (((((((((((H1 & H2) & H3) & H4) & H5) & _) & H7) & H8) & H9) & H10) & H11) & _).
  rewrite timer_quiet_spec, negb_true_iff in H7, H8, H9. rewrite negb_true_iff in H10, H11.
  unfold poll_init, idle. vsimpl_goal.
  split; [exact Hi|]. split; [exact Hc|].
  split; [destruct (v_state s); try discriminate; reflexivity|].
  split; [destruct (ss_segs (v_segs s)); [reflexivity | discriminate]|].
  split.
  { destruct (ring (v_tx s)); [reflexivity|]. apply Z.eqb_eq in H3. cbn [length] in H3. lia. }
  split; [apply Z.eqb_eq; exact H4|]. split; [apply Z.ltb_lt; exact H5|].
  repeat split; assumption.
Qed.

Theorem c07_idle_poll_silent : forall (s : vsock) sc s',
  v_inbox s = [] -> v_inbox_closed s = false ->
  c07_idle_pre (v_env_now s) (fp_of_vsock cci s) = true ->
  poll cci (VSockRec.set_sends s sc) = (s', PollPending) -> v_transport_pending s' = false ->
  Bool.eqb (v_last_sent_window s =? 0) (v_last_sent_window s' =? 0) = true ->
  v_out s' = [].
Proof.
  intros s sc s' Hi Hc Hp E Tp Hw.
  pose proof (idle_pre_idle s sc Hi Hc Hp) as H0.
  destruct (poll_idle _ _ _ _ H0 E Tp) as [D|D]; [exact D|].
  exfalso. apply D. symmetry. apply eqb_prop. exact Hw.
Qed.

(* ------------------------------------------------------------------ 2. the inbox across a poll *)
Lemma poll_tail_inbox (s : vsock) :
  v_inbox (poll_tail s) = v_inbox s /\ v_inbox_closed (poll_tail s) = v_inbox_closed s.
Proof.
  unfold poll_tail, next_timer_to_poll, arm_in, add_wakes.
  repeat break_match; try (inversion Heqp; subst); vsimpl_goal; repeat split;
    first [exact eq_refl | assumption | symmetry; assumption].
Qed.

(* closed, or the inbox drained and its channel open *)
Definition SI (s : vsock) : Prop := SC s \/ IBE s.

Lemma qb_SI (a b : vsock) : qb a b -> SI a -> SI b.
Proof.
  intros (Q1 & Q2 & Q3 & Q4 & Q5 & Q6 & Q7 & Q8 & Q9 & Q10 & Q11 & Q12) [H|[H1 H2]].
  - left. auto.
  - right. split; congruence.
Qed.

Lemma stq_SI X (s : vsock) (m : step X) : stR qb s m -> SI s -> stU SI m.
Proof. intros Q H. destruct m; cbn [stR stU] in *; auto. eapply qb_SI; eassumption. Qed.

(* a poll that ran to its end left the inbox drained, its channel open *)
Theorem poll_done_ibe (s s' : vsock) :
  poll cci s = (s', PollPending) -> v_transport_pending s' = false -> IBE s'.
Proof.
  intros H Tp.
  assert (HS : tail_shape SI s').
  { apply (poll_S cci (fun _ => True) (fun _ => True) SI SI SI SI) with (s := s); try exact H.
    - intros a _. exact I.
    - intros a _. destruct (maybe_send_syn_ack a); cbn [stC]; auto.
    - intros a _. destruct (send_ack a); cbn [stC]; auto.
    - intros a _. pose proof (process_all_incoming_messages_post cci a) as P.
      destruct (process_all_incoming_messages cci a) as [b u| |]; cbn [stC]; auto.
      intro Tpb. destruct (P b u eq_refl) as [P1|[P1|P1]]; [left; exact P1 | congruence | right; exact P1].
    - intros a rx1 fb w K _. eapply qb_SI; [apply rx_flush_qb | exact K].
    - intros a K. apply (stq_SI _ a); [apply split_tx_queue_into_segments_qb | exact K].
    - intros a K Ra.
      pose proof (send_tx_queue_txf cci a) as X'. pose proof (send_tx_queue_frame cci a) as F'.
      destruct (send_tx_queue cci a) as [b u| |]; cbn [stU stR step_frame] in *; auto.
      destruct X' as (X1 & X2 & X3 & X4 & X5 & X6 & X7 & X8). destruct F' as (F1 & _).
      assert (Kb : SI b).
      { destruct K as [K|[K1 K2]]; [left; unfold SC in *; rewrite X7, F1; exact K|].
        right. split; congruence. }
      split; intros; [exact I | exact Kb].
    - intros a K. eapply qb_SI; [apply transition_to_fin_wait_1_qb | exact K].
    - intros a K. apply stU_stC. apply (stq_SI _ a); [apply maybe_send_fin_qb | exact K].
    - intros a K. apply stU_stC. apply (stq_SI _ a); [apply maybe_send_ack_qb | exact K].
    - intro a. apply no_restart_qb, maybe_send_syn_ack_qb.
    - intro a. apply no_restart_qb, send_ack_qb.
    - intros a Ra. pose proof (process_all_incoming_messages_pimr cci a) as P'.
      destruct (process_all_incoming_messages cci a); cbn [stU stR] in *; auto.
      destruct P' as (_ & _ & _ & _ & _ & P6 & _). congruence.
    - intro a. apply no_restart_qb, split_tx_queue_into_segments_qb.
    - apply transition_to_fin_wait_1_restart.
    - intro a. apply no_restart_qb, maybe_send_fin_qb.
    - intro a. apply no_restart_qb, maybe_send_ack_qb.
    - exact I. }
  destruct HS as [HS|(sb & K & Tpb & _ & Cl & ->)]; [congruence|].
  destruct K as [K|[K1 K2]]; [unfold SC in K; congruence|].
  destruct (poll_tail_inbox sb) as [E1 E2]. split; congruence.
Qed.

(* a Pending poll never fills a drained inbox nor closes its channel *)
Definition RI (a b : vsock) : Prop := IBE a -> IBE b.

Lemma qb_RI (a b : vsock) : qb a b -> RI a b.
Proof.
  intros (Q1 & Q2 & Q3 & Q4 & Q5 & Q6 & Q7 & _) [H1 H2]. split; congruence.
Qed.

Lemma stq_RIk X (s : vsock) (m : step X) : stR qb s m -> stRk RI s m.
Proof. intros Q. destruct m; cbn [stR stRk] in *; auto. apply qb_RI; exact Q. Qed.

Theorem poll_keeps_ibe (s s' : vsock) :
  IBE s -> poll cci s = (s', PollPending) -> IBE s'.
Proof.
  intros Hs H.
  assert (P : pend_shape RI (poll_init s) s').
  { apply (poll_Rp cci RI); try exact H.
    - intros a K. exact K.
    - intros a b c F G K. auto.
    - intros a K. exact K.
    - intro a. apply stq_RIk, maybe_send_syn_ack_qb.
    - intro a. apply stq_RIk, send_ack_qb.
    - intro a. pose proof (process_all_incoming_messages_idle cci a) as P.
      destruct (process_all_incoming_messages cci a) as [b u| |]; cbn [stRk]; auto.
      intro K. destruct (P b u K eq_refl) as (_ & _ & I1 & I2). split; assumption.
    - intros a rx1 fb w _. apply qb_RI, rx_flush_qb.
    - intro a. apply stq_RIk, split_tx_queue_into_segments_qb.
    - intro a. pose proof (send_tx_queue_txf cci a) as X'.
      destruct (send_tx_queue cci a) as [b u| |]; cbn [stRk stR] in *; auto.
      destruct X' as (X1 & X2 & X3 & X4 & X5 & X6 & X7 & X8). intros [K1 K2]. split; congruence.
    - intro a. apply qb_RI, transition_to_fin_wait_1_qb.
    - intro a. apply stq_RIk, maybe_send_fin_qb.
    - intro a. apply stq_RIk, maybe_send_ack_qb. }
  destruct P as [[_ P]|(sa & sb & b & P1 & _ & P2 & _ & _ & _ & ->)].
  - apply P. exact Hs.
  - destruct (poll_tail_inbox sb) as [E1 E2].
    destruct (P2 (P1 Hs)) as [K1 K2]. split; congruence.
Qed.

(* ------------------------------------------------------------------ 3. the trace predicate *)
Lemma nonpoll_not_finished (s : vsock) o :
  (forall sc, o <> VoPoll sc) -> poll_finished (vstep_out cci s o) = false.
Proof.
  intros N. unfold vstep_out. destruct o; cbn [vstep];
    try (repeat match goal with |- context [if ?c then _ else _] => destruct c end;
         repeat match goal with |- context [let '(_, _) := ?t in _] => destruct t end;
         reflexivity).
  exfalso. eapply N. reflexivity.
Qed.

Lemma nonpoll_ibe (s : vsock) o :
  match o with VoPoll _ | VoDeliver _ | VoCloseInbox => False | _ => True end ->
  IBE s -> IBE (vstep_state cci s o).
Proof.
  intros N K. unfold vstep_state. destruct o; try contradiction; cbn [vstep];
    repeat match goal with |- context [if ?c then _ else _] => destruct c end;
    repeat match goal with |- context [let '(_, _) := ?t in _] => destruct t end;
    cbn [fst]; exact K.
Qed.

Section PollStep.
Variables (s : vsock) (sc : list send_outcome).
Let st := fstep_of cci s (VoPoll sc).

Lemma c07_idle_step_ok :
  IBE s ->
  c07_idle_pre (fs_now st) (fs_pre st) && c07_poll_done st && c07_wnd_status_same st = true ->
  c07_pkts st = [].
Proof.
  intros [Hi Hc] G. subst st.
  destruct (poll cci (VSockRec.set_sends s sc)) as [s' r] eqn:E.
  rewrite !andb_true_iff in G. destruct G as ((G1 & G2) & G3).
  destruct (poll_done_inv cci s sc s' r E G2) as (R & T). subst r.
  rewrite (fstep_of_poll cci s sc s' _ E) in *.
  unfold c07_wnd_status_same in G3. unfold c07_pkts.
  cbn [fs_now fs_pre fs_post fs_result fp_of_vsock f_last_sent_window] in *.
  assert (N : v_env_now s' = v_env_now s).
  { destruct (poll_pframe0 cci _ _ _ E) as (_ & N & _). exact N. }
  rewrite N in G1.
  rewrite (c07_idle_poll_silent s sc s' Hi Hc G1 E T G3). reflexivity.
Qed.

Lemma c07_poll_done_ibe : c07_poll_done st = true -> IBE (vstep_state cci s (VoPoll sc)).
Proof.
  intros D. subst st. destruct (poll cci (VSockRec.set_sends s sc)) as [s' r] eqn:E.
  destruct (poll_done_inv cci s sc s' r E D) as (R & T). subst r.
  destruct (vstep_poll cci s sc s' _ E) as [Es _]. rewrite Es.
  eapply poll_done_ibe; eassumption.
Qed.

Lemma c07_poll_live_ibe :
  poll_finished (vstep_out cci s (VoPoll sc)) = false -> IBE s -> IBE (vstep_state cci s (VoPoll sc)).
Proof.
  intros F K. destruct (poll cci (VSockRec.set_sends s sc)) as [s' r] eqn:E.
  destruct (vstep_poll cci s sc s' _ E) as [Es Eo]. rewrite Es. rewrite Eo in F.
  destruct r; try discriminate. eapply poll_keeps_ibe; [|exact E]. exact K.
Qed.
End PollStep.

Theorem c07_idle_walk_trace : forall ops b (s : vsock),
  (b = false -> IBE s) -> c07_idle_walk b (ftrace cci s ops) = true.
Proof.
  induction ops as [|o rest IH]; intros b s Hb; [reflexivity|].
  rewrite ftrace_cons'. cbn [c07_idle_walk]. rewrite fstep_of_event.
  destruct o; cbn [fevent_of];
    try (rewrite nonpoll_not_finished by (intros sc0; discriminate);
         apply IH; intro Hb'; apply nonpoll_ibe; [exact I | apply Hb; exact Hb']);
    try (rewrite nonpoll_not_finished by (intros sc0; discriminate); apply IH; discriminate).
  (* poll *)
  apply andb_true_intro. split.
  - destruct b; [reflexivity|]. cbn [negb andb].
    match goal with |- (if ?g then _ else _) = true => destruct g eqn:G end; [|reflexivity].
    rewrite (c07_idle_step_ok s script (Hb eq_refl) G). reflexivity.
  - destruct (poll_finished (vstep_out cci s (VoPoll script))) eqn:F; [reflexivity|].
    apply IH. intro Hb'.
    destruct (c07_poll_done (fstep_of cci s (VoPoll script))) eqn:D.
    + apply c07_poll_done_ibe. exact D.
    + apply c07_poll_live_ibe; [exact F | apply Hb; exact Hb'].
Qed.

Lemma ibe_vsock_new : forall mk c (s : vsock), vsock_new cci mk c = Some s -> IBE s.
Proof.
  intros mk c s H. unfold vsock_new in H.
  destruct (match (if vc_incoming c then None else _) with Some r => _ | None => _ end); [|discriminate].
  inversion H; subst. split; reflexivity.
Qed.

(* from every state whose inbox is drained and open *)
Theorem c07_idle_silent_from : forall cfg ops (s : vsock),
  v_inbox s = [] -> v_inbox_closed s = false ->
  c07_idle_silent_partial cfg (ftrace cci s ops) = true.
Proof.
  intros cfg ops s Hi Hc. unfold c07_idle_silent_partial. apply c07_idle_walk_trace.
  intros _. split; assumption.
Qed.

Theorem c07_idle_silent_trace : forall (cfg : vconfig) mk c (s0 : vsock) ops,
  vsock_new cci mk c = Some s0 -> c07_idle_silent_partial cfg (ftrace cci s0 ops) = true.
Proof.
  intros cfg mk c s0 ops H. destruct (ibe_vsock_new mk c s0 H) as [Hi Hc].
  apply c07_idle_silent_from; assumption.
Qed.

End WithCC.

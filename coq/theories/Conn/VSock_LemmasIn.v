(* The incoming path of the connection model, by parts: process_incoming_message is shown (by
   computation) to be the composition of the named pieces below, so that frame lemmas can be
   proved piecewise (the kernel re-checks small terms instead of one huge one). *)
From Utp Require Import Base.Prelude Wire.SeqNr Wire.Header Rtt.Rtte Mtu.SegSizes Rx.Rx Tx.Ring
  Tx.Segments Conn.Recovery Conn.Msg Conn.VSockRec Conn.VSock Conn.VSock_LemmasTx.

Section WithCC.
Context {CC : Type} (cci : cc_iface CC).
Notation vsock := (vsock CC).

Definition pim_data (s2 : vsock) (m : msg) (res : on_ack_result) (offset : Z) : step on_ack_result :=
  if offset <? 0 then SOk (force_immediate_ack s2) res
  else
    let was_empty := ooq_is_empty (v_rx s2) in
    let ss2 := on_payload_delivered (v_ss s2) (Z.of_nat (length (m_payload m))) in
    let s3 := set_cc (set_ss s2 ss2) (cc_set_mss cci (v_cc s2) (mss ss2)) in
    let '(rx1, ar, w) := rx_add_remove (v_rx s3) KData (m_payload m) offset in
    let s4 := add_wakes (set_rx s3 rx1) (rx_wakes w) in
    match ar with
    | UarPanic => SPanic
    | UarOk r =>
        match add_err r with
        | Some e => SErr s4 e
        | None =>
            let s5 :=
              match r with
              | ArConsumed n bytes =>
                  set_cbu
                    (set_last_consumed (restart_remote_inactivity_timer s4)
                       (wadd16 (v_last_consumed s4) (n mod M16)))
                    (sat_add_usize (v_cbu s4) bytes)
              | _ => s4
              end in
            if negb (ooq_is_empty (v_rx s5)) || negb was_empty then
              sbind (send_ack (force_immediate_ack s5)) (fun s6 _ => SOk s6 res)
            else SOk s5 res
        end
    end.

Definition pim_fin (s2 : vsock) (m : msg) (res : on_ack_result) (offset : Z) (seen : bool) : step on_ack_result :=
  let h := m_hdr m in
  let s3 := force_immediate_ack s2 in
  if negb seen && (0 <=? offset) then
    let s4 := set_last_consumed s3 (ch_seq h) in
    let '(rx1, ar, w) := rx_add_remove (v_rx s4) KFin (m_payload m) offset in
    let s5 := add_wakes (set_rx s4 rx1) (rx_wakes w) in
    match ar with
    | UarPanic => SPanic
    | UarOk r =>
        match add_err r with
        | Some e => SErr s5 e
        | None =>
            let '(tx1, w2) := mark_vsock_closed (v_tx s5) in
            SOk (add_wakes (set_tx s5 tx1) (tx_wakes w2)) res
        end
    end
  else SOk s3 res.

(* the part between the state table and the per-type handling: ACK processing *)
Definition pim_ack (s1 : vsock) (h : chdr) : option (vsock * on_ack_result) :=
  let '(segs1, res) := remove_up_to_ack (v_segs s1) (v_now s1) (ch_ack h) (ch_sack h) in
  let ss1 := on_payload_delivered (v_ss s1) (ar_max_acked_payload res) in
  let cc1 := cc_set_mss cci (v_cc s1) (mss ss1) in
  let rtte1o :=
    match is_recovering (v_recovery s1), ar_new_rtt res with
    | false, Some rtt => sample (v_rtte s1) rtt
    | _, _ => Some (v_rtte s1)
    end in
  match rtte1o with
  | None => None
  | Some rtte1 =>
      let cc2 := cc_set_remote_window cci cc1 (ch_wnd h) in
      match cc_on_ack cci cc2 (v_now s1) (ar_acked_bytes res) (roundtrip_time rtte1) with
      | None => None
      | Some cc3 =>
          match recovery_on_ack cci (v_recovery s1) h segs1 (v_last_sent_seq_nr s1) cc3
                                (v_now s1) (roundtrip_time rtte1) with
          | None => None
          | Some (rec1, segs2, cc4) =>
              Some (set_recovery
                      (set_last_remote_window
                         (set_last_remote_timestamp
                            (set_cc (set_rtte (set_ss (set_segs s1 segs2) ss1) rtte1) cc4)
                            (ch_ts h))
                         (ch_wnd h))
                      rec1, res)
          end
      end
  end.

Definition pim_cont (s1 : vsock) (m : msg) (seen : bool) : step on_ack_result :=
  match pim_ack s1 (m_hdr m) with
  | None => SPanic
  | Some (s2, res) =>
      let offset := seq_sub (ch_seq (m_hdr m)) (wadd16 (v_last_consumed s2) 1) in
      match ch_type (m_hdr m) with
      | ST_DATA => pim_data s2 m res offset
      | ST_FIN => pim_fin s2 m res offset seen
      | _ => SOk s2 res
      end
  end.

Lemma process_incoming_message_eq s m :
  process_incoming_message cci s m =
  match state_table s (m_hdr m) with
  | TblDrop s1 => SOk s1 on_ack_result_default
  | TblErr s1 e => SErr s1 e
  | TblContinue s1 => pim_cont s1 m (is_remote_fin_or_later (v_state s))
  end.
Proof.
  unfold process_incoming_message, pim_cont, pim_ack.
  destruct (state_table s (m_hdr m)) as [s1|s1 e|s1]; try reflexivity.
  destruct (remove_up_to_ack _ _ _ _) as [segs1 res].
  destruct (match is_recovering (v_recovery s1) with true => _ | false => _ end) as [rtte1|]; [|reflexivity].
  destruct (cc_on_ack cci _ _ _ _) as [cc3|]; [|reflexivity].
  destruct (recovery_on_ack cci _ _ _ _ _ _ _) as [[[rec1 segs2] cc4]|]; reflexivity.
Qed.

(* ------------------------------------------------------------------ what the incoming path leaves alone *)
Definition in_frame (s s' : vsock) : Prop :=
  v_rto_retransmissions s' = v_rto_retransmissions s /\ v_opts s' = v_opts s /\ v_now s' = v_now s /\
  v_last_sent_seq_nr s' = v_last_sent_seq_nr s /\ v_t_retransmit s' = v_t_retransmit s /\
  ring (v_tx s') = ring (v_tx s) /\ g_written (v_tx s') = g_written (v_tx s) /\
  g_removed (v_tx s') = g_removed (v_tx s).

Lemma in_frame_refl s : in_frame s s.
Proof. unfold in_frame. repeat split. Qed.

Lemma in_frame_trans a b c : in_frame a b -> in_frame b c -> in_frame a c.
Proof.
  unfold in_frame. intros (A1&A2&A3&A4&A5&A6&A7&A8) (B1&B2&B3&B4&B5&B6&B7&B8). repeat split; congruence.
Qed.

Lemma sd_in_frame s s' :
  sd_frame s s' -> v_last_sent_seq_nr s' = v_last_sent_seq_nr s -> v_t_retransmit s' = v_t_retransmit s ->
  in_frame s s'.
Proof.
  unfold sd_frame, in_frame. intros H A B.
  repeat match goal with H : _ /\ _ |- _ => destruct H end. repeat split; congruence.
Qed.

Lemma send_ack_in_frame (s : vsock) :
  match send_ack s with
  | SOk s1 _ | SErr s1 _ => in_frame s s1
  | SPanic => True
  end.
Proof.
  unfold send_ack. pose proof (send_control_packet_spec s
    (hdr_with (outgoing_header s) ST_STATE (ch_seq (outgoing_header s)) (sack_of_rx (v_rx s)))) as H.
  destruct (send_control_packet s _) as [s1 [|]|s1 e|]; try exact I.
  - destruct H as (Hf & _ & _ & A & B & _). apply sd_in_frame; assumption.
  - destruct H as (Hf & _ & _ & A & B & _). apply sd_in_frame; assumption.
  - destruct H as (Hf & _ & _ & A & B & _). apply sd_in_frame; assumption.
Qed.

Definition tbl_state (r : table_res (CC:=CC)) : vsock :=
  match r with TblDrop s1 | TblErr s1 _ | TblContinue s1 => s1 end.

Lemma state_table_in_frame (s : vsock) h : in_frame s (tbl_state (state_table s h)).
Proof.
  unfold state_table, restart_remote_inactivity_timer, in_frame.
  destruct (ch_type h); destruct (v_state s); cbn [tbl_state negb];
    repeat (match goal with |- context [if ?c then _ else _] => destruct c end);
    cbn [tbl_state]; vsimpl; repeat split.
Qed.

Lemma pim_data_in_frame s2 m res offset s' :
  step_st (pim_data s2 m res offset) = Some s' -> in_frame s2 s'.
Proof.
  unfold pim_data. destruct (offset <? 0).
  { cbn [step_st]. intro H; injection H as <-. unfold in_frame, force_immediate_ack. vsimpl. repeat split. }
  cbv zeta.
  destruct (rx_add_remove _ KData (m_payload m) offset) as [[rx1 ar] w].
  set (s4 := add_wakes _ _).
  assert (H4 : in_frame s2 s4) by (unfold s4, add_wakes, in_frame; vsimpl; repeat split).
  clearbody s4.
  destruct ar as [r|]; [|discriminate].
  destruct (add_err r); [cbn [step_st]; intro H; injection H as <-; exact H4|].
  set (s5 := match r with ArConsumed _ _ => _ | _ => s4 end).
  assert (H5 : in_frame s2 s5).
  { eapply in_frame_trans; [exact H4|]. unfold s5, restart_remote_inactivity_timer, in_frame.
    destruct r; vsimpl; repeat split. }
  clearbody s5.
  destruct (_ || _).
  - pose proof (send_ack_in_frame (force_immediate_ack s5)) as Ha.
    destruct (send_ack (force_immediate_ack s5)) as [s6 b|s6 e|]; cbn [sbind step_st]; [| |discriminate];
      intro H; injection H as <-; (eapply in_frame_trans; [exact H5|]); (eapply in_frame_trans; [|exact Ha]);
      unfold in_frame, force_immediate_ack; vsimpl; repeat split.
  - cbn [step_st]. intro H; injection H as <-. exact H5.
Qed.

Lemma pim_fin_in_frame s2 m res offset seen s' :
  step_st (pim_fin s2 m res offset seen) = Some s' -> in_frame s2 s'.
Proof.
  unfold pim_fin. cbv zeta. destruct (_ && _).
  - destruct (rx_add_remove _ KFin _ _) as [[rx1 ar] w].
    destruct ar as [r|]; [|discriminate].
    destruct (add_err r).
    + cbn [step_st]; intro H; injection H as <-. unfold in_frame, add_wakes, force_immediate_ack. vsimpl. repeat split.
    + unfold mark_vsock_closed. cbn [step_st]. intro H; injection H as <-.
      unfold in_frame, add_wakes, force_immediate_ack. vsimpl. cbn [ring g_written g_removed upd]. repeat split.
  - cbn [step_st]. intro H; injection H as <-. unfold in_frame, force_immediate_ack. vsimpl. repeat split.
Qed.

Lemma pim_ack_in_frame s1 h s2 res : pim_ack s1 h = Some (s2, res) -> in_frame s1 s2.
Proof.
  unfold pim_ack. destruct (remove_up_to_ack _ _ _ _) as [segs1 res0].
  destruct (match is_recovering (v_recovery s1) with true => _ | false => _ end) as [rtte1|]; [|discriminate].
  destruct (cc_on_ack cci _ _ _ _) as [cc3|]; [|discriminate].
  destruct (recovery_on_ack cci _ _ _ _ _ _ _) as [[[rec1 segs2] cc4]|]; [|discriminate].
  intro H; injection H as <- _. unfold in_frame. vsimpl. repeat split.
Qed.

Lemma pim_cont_in_frame s1 m seen s' : step_st (pim_cont s1 m seen) = Some s' -> in_frame s1 s'.
Proof.
  unfold pim_cont. destruct (pim_ack s1 (m_hdr m)) as [[s2 res]|] eqn:Ea; [|discriminate].
  pose proof (pim_ack_in_frame _ _ _ _ Ea) as H2. cbv zeta.
  destruct (ch_type (m_hdr m)).
  - intro H. eapply in_frame_trans; [exact H2|]. eapply pim_data_in_frame; exact H.
  - intro H. eapply in_frame_trans; [exact H2|]. eapply pim_fin_in_frame; exact H.
  - cbn [step_st]. intro H; injection H as <-. exact H2.
  - cbn [step_st]. intro H; injection H as <-. exact H2.
  - cbn [step_st]. intro H; injection H as <-. exact H2.
Qed.

Lemma process_incoming_message_in_frame s m s' :
  step_st (process_incoming_message cci s m) = Some s' -> in_frame s s'.
Proof.
  rewrite process_incoming_message_eq.
  pose proof (state_table_in_frame s (m_hdr m)) as Ht.
  destruct (state_table s (m_hdr m)) as [s1|s1 e|s1]; cbn [tbl_state] in Ht.
  - cbn [step_st]. intro H; injection H as <-. exact Ht.
  - cbn [step_st]. intro H; injection H as <-. exact Ht.
  - intro H. eapply in_frame_trans; [exact Ht|]. eapply pim_cont_in_frame; exact H.
Qed.

Lemma maybe_send_fin_in_frame_weak (s : vsock) :
  match maybe_send_fin s with
  | SOk s1 _ | SErr s1 _ =>
      v_rto_retransmissions s1 = v_rto_retransmissions s /\ v_opts s1 = v_opts s /\ v_now s1 = v_now s /\
      ring (v_tx s1) = ring (v_tx s) /\ g_written (v_tx s1) = g_written (v_tx s) /\
      g_removed (v_tx s1) = g_removed (v_tx s)
  | SPanic => True
  end.
Proof.
  pose proof (maybe_send_fin_spec s) as H.
  destruct (maybe_send_fin s) as [s1 [|]|s1 e|]; try exact I.
  - destruct H as (seq & _ & _ & Hf & _). unfold sd_frame in Hf.
    repeat match goal with H : _ /\ _ |- _ => destruct H end. repeat split; congruence.
  - destruct H as (Hf & _). unfold sd_frame in Hf.
    repeat match goal with H : _ /\ _ |- _ => destruct H end. repeat split; congruence.
  - destruct H as (Hf & _). unfold sd_frame in Hf.
    repeat match goal with H : _ /\ _ |- _ => destruct H end. repeat split; congruence.
Qed.

(* the receive loop leaves the RTO counter, the options and the transmit ring alone *)
Definition loop_frame (s s' : vsock) : Prop :=
  v_rto_retransmissions s' = v_rto_retransmissions s /\ v_opts s' = v_opts s /\ v_now s' = v_now s /\
  ring (v_tx s') = ring (v_tx s) /\ g_written (v_tx s') = g_written (v_tx s) /\
  g_removed (v_tx s') = g_removed (v_tx s).

Lemma in_loop_frame s s' : in_frame s s' -> loop_frame s s'.
Proof. unfold in_frame, loop_frame. tauto. Qed.

Lemma loop_frame_trans a b c : loop_frame a b -> loop_frame b c -> loop_frame a c.
Proof.
  unfold loop_frame. intros (A1&A2&A3&A4&A5&A6) (B1&B2&B3&B4&B5&B6). repeat split; congruence.
Qed.

Lemma recv_loop_frame : forall fuel s acc s',
  step_st (recv_loop cci fuel s acc) = Some s' -> loop_frame s s'.
Proof.
  assert (Hbase : forall (s : vsock) (acc : on_ack_result) s',
    v_inbox s = [] ->
    step_st (if v_inbox_closed s
             then sbind (maybe_send_fin (transition_to_fin_wait_1 s))
                        (fun s2 _ => SOk (set_state s2 Closed) (acc, true))
             else SOk (set_inbox_waker s true) (acc, false)) = Some s' -> loop_frame s s').
  { intros s acc s' _. destruct (v_inbox_closed s).
    - pose proof (maybe_send_fin_in_frame_weak (transition_to_fin_wait_1 s)) as Hm.
      assert (Ht : loop_frame s (transition_to_fin_wait_1 s))
        by (unfold transition_to_fin_wait_1, loop_frame; destruct (v_state s); vsimpl; repeat split).
      destruct (maybe_send_fin (transition_to_fin_wait_1 s)) as [s2 b|s2 e|]; cbn [sbind step_st]; [| |discriminate];
        intro H; injection H as <-; (eapply loop_frame_trans; [exact Ht|]); unfold loop_frame; vsimpl; exact Hm.
    - cbn [step_st]. intro H; injection H as <-. unfold loop_frame. vsimpl. repeat split. }
  induction fuel as [|m0 fuel IH]; intros s acc s'; cbn [recv_loop];
    destruct (v_inbox s) as [|m rest] eqn:Ei; try (apply Hbase; exact Ei); try discriminate.
  destruct (process_incoming_message cci (set_inbox s rest) m) as [s1 r|s1 e|] eqn:Ep; cbn [sbind]; [| |discriminate].
  - assert (H1 : loop_frame s s1).
    { apply in_loop_frame.
      pose proof (process_incoming_message_in_frame (set_inbox s rest) m s1 ltac:(rewrite Ep; reflexivity)) as Hf.
      unfold in_frame in *. vsimpl. exact Hf. }
    destruct (_ || _).
    + cbn [step_st]. intro H; injection H as <-. exact H1.
    + intro H. eapply loop_frame_trans; [exact H1|]. eapply IH; exact H.
  - cbn [step_st]. intro H; injection H as <-. apply in_loop_frame.
    pose proof (process_incoming_message_in_frame (set_inbox s rest) m s1 ltac:(rewrite Ep; reflexivity)) as Hf.
    unfold in_frame in *. vsimpl. exact Hf.
Qed.

End WithCC.

(* C17 — proofs about the model of VirtualSocket::poll (Conn/VSock.v). *)
From Utp Require Import Base.Prelude Wire.SeqNr Wire.Header Rtt.Rtte Mtu.SegSizes Rx.Rx Tx.Ring
  Tx.Segments Conn.Recovery Conn.Msg Conn.VSockRec Conn.VSock Conn.VSockRun Conn.VObs
  Conn.VSock_LemmasFin Conn.C17_Pred.

Ltac eqb_rw := repeat match goal with
  | H : ?a = ?b |- context [?a =? ?b] => rewrite (proj2 (Z.eqb_eq a b) H)
  | H : ?a <> ?b |- context [?a =? ?b] => rewrite (proj2 (Z.eqb_neq a b) H)
  end.

Section WithCC.
Context {CC : Type} (cci : cc_iface CC).
Notation vsock := (vsock CC).

Definition data_or_state (t : ptype) : Prop := t = ST_DATA \/ t = ST_STATE.
Definition in_seq (s : vsock) (h : chdr) : Prop := ch_seq h = wadd16 (v_last_consumed s) 1.

(* ================================================================== (b) the transition table *)
(* one conjunct per arm of the Rust `match (self.state, hdr.get_type())`, in source order *)
Theorem transition_table : forall (s : vsock) (h : chdr),
  (* 1  (LastAck{our_fin}, ST_RESET) if ack_nr == our_fin *)
  (forall f r, ch_type h = ST_RESET -> v_state s = LastAck f r -> ch_ack h = f ->
     state_table s h = TblDrop (set_state s Closed)) /\
  (* 2  (_, ST_RESET) *)
  (ch_type h = ST_RESET -> (forall f r, v_state s = LastAck f r -> ch_ack h <> f) ->
     state_table s h = TblErr (set_state s Closed) ErrStResetReceived) /\
  (* 3  (_, ST_SYN) *)
  (ch_type h = ST_SYN -> state_table s h = TblDrop s) /\
  (* 4  (Closed, _) : ignored (repair of D15) *)
  (ch_type h <> ST_RESET -> ch_type h <> ST_SYN -> v_state s = Closed ->
     state_table s h = TblDrop s) /\
  (* 5  (SynReceived, _) *)
  (ch_type h <> ST_RESET -> ch_type h <> ST_SYN -> v_state s = SynReceived ->
     state_table s h = TblErr s (ErrBug BugUnexpectedPacketInSynReceived)) /\
  (* 6  (SynAckSent, ST_DATA | ST_STATE), ack_nr != seq_nr - 1 : dropped *)
  (forall k, data_or_state (ch_type h) -> v_state s = SynAckSent k ->
     ch_ack h <> wsub16 (v_seq_nr s) 1 -> state_table s h = TblDrop s) /\
  (* 7  (SynAckSent, ST_DATA | ST_STATE), ack_nr == seq_nr - 1 : established *)
  (forall k, data_or_state (ch_type h) -> v_state s = SynAckSent k ->
     ch_ack h = wsub16 (v_seq_nr s) 1 ->
     state_table s h = TblContinue (set_state (restart_remote_inactivity_timer s) Established)) /\
  (* 7a (SynAckSent, ST_FIN) if seq_nr != last_consumed + 1 : dropped (repair of D19) *)
  (forall k, ch_type h = ST_FIN -> v_state s = SynAckSent k -> ~ in_seq s h ->
     state_table s h = TblDrop s) /\
  (* 8  (SynAckSent, ST_FIN) *)
  (forall k, ch_type h = ST_FIN -> v_state s = SynAckSent k -> in_seq s h ->
     state_table s h = TblContinue (set_state s Closed)) /\
  (* 9  (Established, ST_DATA | ST_STATE) *)
  (data_or_state (ch_type h) -> v_state s = Established -> state_table s h = TblContinue s) /\
  (* 10 (Established | FinWait1 | FinWait2, ST_FIN) if seq_nr != last_consumed + 1 : dropped *)
  (ch_type h = ST_FIN ->
     (v_state s = Established \/ (exists f, v_state s = FinWait1 f) \/ v_state s = FinWait2) ->
     ~ in_seq s h -> state_table s h = TblDrop s) /\
  (* 11 (Established, ST_FIN) *)
  (ch_type h = ST_FIN -> v_state s = Established -> in_seq s h ->
     state_table s h = TblContinue (set_seq_nr (set_state s (LastAck (v_seq_nr s) (ch_seq h)))
                                               (wadd16 (v_seq_nr s) 1))) /\
  (* 12 (FinWait1{our_fin}, ST_FIN) if ack_nr == our_fin *)
  (forall f, ch_type h = ST_FIN -> v_state s = FinWait1 f -> in_seq s h -> ch_ack h = f ->
     state_table s h = TblContinue (set_state s Closed)) /\
  (* 13 (FinWait1{our_fin}, ST_FIN) *)
  (forall f, ch_type h = ST_FIN -> v_state s = FinWait1 f -> in_seq s h -> ch_ack h <> f ->
     state_table s h = TblContinue (set_state s (LastAck f (ch_seq h)))) /\
  (* 14 (FinWait1{our_fin}, ST_DATA | ST_STATE) if ack_nr == our_fin *)
  (forall f, data_or_state (ch_type h) -> v_state s = FinWait1 f -> ch_ack h = f ->
     state_table s h =
     TblContinue (if ptype_eqb (ch_type h) ST_STATE && (seq_sub (ch_seq h) (v_last_consumed s) =? 1)
                  then set_state (set_state (restart_remote_inactivity_timer s) FinWait2) Closed
                  else set_state (restart_remote_inactivity_timer s) FinWait2)) /\
  (* 15 (FinWait1, ST_DATA | ST_STATE) *)
  (forall f, data_or_state (ch_type h) -> v_state s = FinWait1 f -> ch_ack h <> f ->
     state_table s h = TblContinue s) /\
  (* 16 (FinWait2, ST_FIN) *)
  (ch_type h = ST_FIN -> v_state s = FinWait2 -> in_seq s h ->
     state_table s h = TblContinue (set_state (restart_remote_inactivity_timer s) Closed)) /\
  (* 17 (FinWait2, ST_DATA | ST_STATE) *)
  (data_or_state (ch_type h) -> v_state s = FinWait2 -> state_table s h = TblContinue s) /\
  (* 18 (LastAck{our_fin}, _) if ack_nr == our_fin *)
  (forall f r, ch_type h <> ST_RESET -> ch_type h <> ST_SYN -> v_state s = LastAck f r -> ch_ack h = f ->
     state_table s h = TblContinue (set_state (restart_remote_inactivity_timer s) Closed)) /\
  (* 19 (LastAck{remote_fin}, _) if seq_nr > remote_fin : ST_DATA dropped, others continue *)
  (forall f r, ch_type h <> ST_RESET -> ch_type h <> ST_SYN -> v_state s = LastAck f r -> ch_ack h <> f ->
     seq_gt (ch_seq h) r = true ->
     state_table s h = if ptype_eqb (ch_type h) ST_DATA then TblDrop s else TblContinue s) /\
  (* 20 (LastAck, _) *)
  (forall f r, ch_type h <> ST_RESET -> ch_type h <> ST_SYN -> v_state s = LastAck f r -> ch_ack h <> f ->
     seq_gt (ch_seq h) r = false -> state_table s h = TblContinue s).
Proof.
  intros s h. unfold data_or_state, in_seq.
  repeat match goal with |- _ /\ _ => split end.
  - intros f r Ht Hs Ha. unfold state_table. rewrite Ht, Hs. eqb_rw. reflexivity.
  - intros Ht Hn. unfold state_table. rewrite Ht. destruct (v_state s) eqn:Es; try reflexivity.
    specialize (Hn _ _ eq_refl). eqb_rw. reflexivity.
  - intros Ht. unfold state_table. rewrite Ht. reflexivity.
  - intros H1 H2 Hs. unfold state_table. rewrite Hs. destruct (ch_type h); try reflexivity; congruence.
  - intros H1 H2 Hs. unfold state_table. rewrite Hs. destruct (ch_type h); try reflexivity; congruence.
  - intros k [Ht|Ht] Hs Ha; unfold state_table; rewrite Ht, Hs; eqb_rw; reflexivity.
  - intros k [Ht|Ht] Hs Ha; unfold state_table; rewrite Ht, Hs; eqb_rw; reflexivity.
  - intros k Ht Hs Hn. unfold state_table. rewrite Ht, Hs. eqb_rw. reflexivity.
  - intros k Ht Hs Hi. unfold state_table. rewrite Ht, Hs. eqb_rw. reflexivity.
  - intros [Ht|Ht] Hs; unfold state_table; rewrite Ht, Hs; reflexivity.
  - intros Ht [Hs|[[f Hs]|Hs]] Hn; unfold state_table; rewrite Ht, Hs; eqb_rw; reflexivity.
  - intros Ht Hs Hi. unfold state_table. rewrite Ht, Hs. eqb_rw. reflexivity.
  - intros f Ht Hs Hi Ha. unfold state_table. rewrite Ht, Hs. eqb_rw. reflexivity.
  - intros f Ht Hs Hi Ha. unfold state_table. rewrite Ht, Hs. eqb_rw. reflexivity.
  - intros f [Ht|Ht] Hs Ha; unfold state_table; rewrite Ht, Hs; eqb_rw; cbn [ptype_eqb type_to_number Z.eqb andb].
    + reflexivity.
    + destruct (seq_sub _ _ =? 1); reflexivity.
  - intros f [Ht|Ht] Hs Ha; unfold state_table; rewrite Ht, Hs; eqb_rw; reflexivity.
  - intros Ht Hs Hi. unfold state_table. rewrite Ht, Hs. eqb_rw. reflexivity.
  - intros [Ht|Ht] Hs; unfold state_table; rewrite Ht, Hs; reflexivity.
  - intros f r H1 H2 Hs Ha. unfold state_table. rewrite Hs. eqb_rw.
    destruct (ch_type h); try reflexivity; congruence.
  - intros f r H1 H2 Hs Ha Hg. unfold state_table. rewrite Hs, Hg. eqb_rw.
    destruct (ch_type h); try reflexivity; congruence.
  - intros f r H1 H2 Hs Ha Hg. unfold state_table. rewrite Hs, Hg. eqb_rw.
    destruct (ch_type h); try reflexivity; congruence.
Qed.

(* the table is total over the rows above: a dropped packet changes NOTHING (the state returned is
   the state given, so not even its ack_nr is processed), except in row 1 *)
Theorem table_drop_unchanged : forall (s s' : vsock) h,
  state_table s h = TblDrop s' -> ch_type h <> ST_RESET -> s' = s.
Proof.
  intros s s' h H Hr. unfold state_table in H.
  destruct (ch_type h); try congruence; destruct (v_state s);
    repeat match type of H with context [if ?c then _ else _] => destruct c end;
    try discriminate; injection H as <-; reflexivity.
Qed.

(* our FIN number, once recorded in the state, is never changed by the table *)
Theorem table_keeps_our_fin : forall (s s' : vsock) h f,
  our_fin_if_unacked (v_state s) = Some f ->
  (state_table s h = TblDrop s' \/ state_table s h = TblContinue s' \/
   exists e, state_table s h = TblErr s' e) ->
  our_fin_if_unacked (v_state s') = Some f \/ our_fin_if_unacked (v_state s') = None.
Proof.
  intros s s' h f Hf H. unfold state_table, restart_remote_inactivity_timer in H.
  destruct (v_state s) eqn:Es; cbn [our_fin_if_unacked] in Hf; try discriminate; injection Hf as ->;
    destruct (ch_type h);
    repeat match type of H with context [if ?c then _ else _] => destruct c end;
    destruct H as [H|[H|[e H]]]; try discriminate; injection H as <-; vsimpl;
    try rewrite Es; cbn [our_fin_if_unacked]; auto.
Qed.

(* ================================================================== control packets *)
(* the three outcomes of one control packet *)
Lemma send_control_packet_cases (s : vsock) h :
  v_transport_pending s = false ->
  (exists s1, same_but_sends s s1 /\
     send_control_packet s h =
       SOk (on_packet_sent (emit s1 {| p_hdr := hdr_with h (ch_type h) (ch_seq h) (fit_sack s (ch_sack h));
                                       p_payload := [] |}) h) true) \/
  (exists s1, same_but_sends s s1 /\ send_control_packet s h = SOk (set_transport_pending s1 true) false) \/
  (exists s1, same_but_sends s s1 /\ send_control_packet s h = SErr s1 ErrSend).
Proof.
  intro Hp. unfold send_control_packet. rewrite Hp.
  destruct (next_send s _) as [s1 o] eqn:E. apply next_send_same in E.
  destruct o; [left|right; left|right; right|right; right]; exists s1; split; auto.
Qed.

(* ================================================================== (c) our own FIN *)
(* maybe_send_fin emits at most one datagram; if it does, it is a FIN numbered with the number
   recorded in the state, and that number directly follows the last number sent *)
Theorem maybe_send_fin_spec : forall (s s' : vsock) b,
  maybe_send_fin s = SOk s' b ->
  v_state s' = v_state s /\ v_seq_nr s' = v_seq_nr s /\
  ((b = false /\ v_out s' = v_out s /\ v_last_sent_seq_nr s' = v_last_sent_seq_nr s) \/
   (b = true /\ exists f p,
      our_fin_if_unacked (v_state s) = Some f /\ seq_sub f (v_last_sent_seq_nr s) = 1 /\
      v_out s' = p :: v_out s /\ ch_type (p_hdr p) = ST_FIN /\ ch_seq (p_hdr p) = f /\
      ch_ack (p_hdr p) = v_last_consumed s /\ p_payload p = [] /\ v_last_sent_seq_nr s' = f)).
Proof.
  intros s s' b. unfold maybe_send_fin.
  destruct (v_transport_pending s) eqn:Ep.
  { intro H; injection H as <- <-. repeat split; auto. }
  destruct (our_fin_if_unacked (v_state s)) as [f|] eqn:Ef.
  2:{ intro H; injection H as <- <-. repeat split; auto. }
  destruct (Z.eqb_spec (seq_sub f (v_last_sent_seq_nr s)) 1) as [H1|H1]; cbn [negb].
  2:{ intro H; injection H as <- <-. repeat split; auto. }
  destruct (send_control_packet_cases s (hdr_with (outgoing_header s) ST_FIN f None) Ep)
    as [(s1 & Hs & ->)|[(s1 & Hs & ->)|(s1 & Hs & ->)]]; cbn [sbind].
  - intro H; injection H as <- <-.
    destruct Hs as [->|[r ->]]; unfold on_packet_sent, emit; vsimpl;
      (split; [reflexivity|]; split; [reflexivity|]; right; split; [reflexivity|];
       eexists; eexists; repeat split; try eassumption; try reflexivity).
  - intro H; injection H as <- <-.
    destruct Hs as [->|[r ->]]; vsimpl; repeat split; auto.
  - discriminate.
Qed.

Theorem maybe_send_fin_err_silent : forall (s s' : vsock) e,
  maybe_send_fin s = SErr s' e -> v_out s' = v_out s /\ v_state s' = v_state s.
Proof.
  intros s s' e. unfold maybe_send_fin.
  destruct (v_transport_pending s) eqn:Ep; [discriminate|].
  destruct (our_fin_if_unacked (v_state s)) as [f|]; [|discriminate].
  destruct (negb _); [discriminate|].
  destruct (send_control_packet_cases s (hdr_with (outgoing_header s) ST_FIN f None) Ep)
    as [(s1 & Hs & ->)|[(s1 & Hs & ->)|(s1 & Hs & ->)]]; cbn [sbind]; try discriminate.
  intro H; injection H as <- <-. destruct Hs as [->|[r ->]]; vsimpl; auto.
Qed.

(* the FIN goes out as soon as it directly follows the last number sent and the transport takes it *)
Theorem maybe_send_fin_sends : forall (s : vsock) f s1,
  v_transport_pending s = false -> our_fin_if_unacked (v_state s) = Some f ->
  seq_sub f (v_last_sent_seq_nr s) = 1 -> next_send s 20 = (s1, TSent) ->
  exists s', maybe_send_fin s = SOk s' true.
Proof.
  intros s f s1 Hp Hf H1 Hn. unfold maybe_send_fin, send_control_packet. rewrite Hp, Hf, H1.
  cbn [Z.eqb negb hdr_with ch_sack fit_sack]. unfold fit_sack. cbn [ch_sack].
  replace (if 30 <=? o_tmp_buf_len (v_opts s) then None else None) with (@None sackbits)
    by (destruct (30 <=? _); reflexivity).
  rewrite Hn. cbn [sbind]. eexists; reflexivity.
Qed.

(* transition_to_fin_wait_1 numbers the FIN with seq_nr and takes that number *)
Theorem transition_spec : forall s : vsock,
  is_local_fin_or_later (v_state s) = false ->
  v_state (transition_to_fin_wait_1 s) = FinWait1 (v_seq_nr s) /\
  v_seq_nr (transition_to_fin_wait_1 s) = wadd16 (v_seq_nr s) 1 /\
  v_out (transition_to_fin_wait_1 s) = v_out s /\
  v_last_sent_seq_nr (transition_to_fin_wait_1 s) = v_last_sent_seq_nr s.
Proof.
  intros s H. unfold transition_to_fin_wait_1.
  destruct (v_state s); cbn [is_local_fin_or_later] in H; try discriminate; vsimpl; auto.
Qed.

Theorem transition_noop : forall s : vsock,
  is_local_fin_or_later (v_state s) = true -> transition_to_fin_wait_1 s = s.
Proof.
  intros s H. unfold transition_to_fin_wait_1.
  destruct (v_state s); cbn [is_local_fin_or_later] in H; try discriminate; reflexivity.
Qed.

(* poll_body closes on its own initiative only under this guard (it is the `if` of body_rest) *)
Theorem should_close_guard : forall s : vsock,
  should_close_on_own_initiative s = true ->
  ((reader_dropped (v_rx s) = true /\ writer_dropped (v_tx s) = true) \/ writer_shutdown (v_tx s) = true) /\
  unsent_data_exists s = false /\ is_local_fin_or_later (v_state s) = false.
Proof.
  intros s H. unfold should_close_on_own_initiative in H.
  apply andb_prop in H as (H & H3). apply andb_prop in H as (H1 & H2).
  apply negb_true_iff in H2, H3. apply orb_prop in H1. split; [|auto].
  destruct H1 as [H1|H1]; [left; apply andb_prop in H1; exact H1|right; exact H1].
Qed.

(* ---- FIN only after all accepted data ---- *)
(* `unsegmented_data` of this poll is what split_tx_queue_into_segments computes whenever it looks at
   a non-empty send buffer before the peer's FIN (since the repair of D10 also when it returns early
   on an outstanding MTU probe, see split_fresh_after): ring length minus segmented length, saturating *)
Definition split_fresh (s : vsock) : Prop :=
  v_unsegmented s = sat_sub (Z.of_nat (length (ring (v_tx s)))) (ss_len_bytes (v_segs s)).

Lemma in_iter_for_sending : forall (t : segments) g,
  In g (ss_segs t) -> sg_delivered g = false ->
  exists f, In f (iter_for_sending t None) /\ fs_seg f = g.
Proof.
  intros t g Hin Hd. unfold iter_for_sending. cbn [skipn].
  set (mk := fun '(i, s0) => {| fs_idx := i; fs_seq := wadd16 (ss_snd_una t) (Z.of_nat i mod M16);
                               fs_payload_offset := sg_abs s0 - ss_removed t; fs_seg := s0 |}).
  assert (G : forall l i, In g l -> exists f, In f (map mk (enum_from i l)) /\ fs_seg f = g).
  { induction l as [|x l IH]; intros i Hi; [destruct Hi|].
    cbn [enum_from map]. destruct Hi as [->|Hi].
    - eexists; split; [left; reflexivity|reflexivity].
    - destruct (IH (S i) Hi) as (f & Hf & Hg). exists f; split; [right; exact Hf|exact Hg]. }
  destruct (G (ss_segs t) O Hin) as (f & Hf & Hg). exists f. split; [|exact Hg].
  apply filter_In. split; [exact Hf|]. rewrite Hg, Hd. reflexivity.
Qed.

Theorem fin_after_all_data : forall s : vsock,
  should_close_on_own_initiative s = true -> split_fresh s ->
  Z.of_nat (length (ring (v_tx s))) <= ss_len_bytes (v_segs s) /\
  (forall g, In g (ss_segs (v_segs s)) -> sg_delivered g = true \/ seg_send_count g <> 0).
Proof.
  intros s H Hf. apply should_close_guard in H as (_ & Hu & _).
  unfold unsent_data_exists in Hu. apply orb_false_iff in Hu as (Hu1 & Hu2).
  split; [unfold split_fresh, sat_sub in Hf; lia|].
  intros g Hin. destruct (sg_delivered g) eqn:Hd; [left; reflexivity|right].
  destruct (in_iter_for_sending _ _ Hin Hd) as (f & Hfin & Hg).
  assert (Hx : (seg_send_count (fs_seg f) =? 0) = false).
  { destruct (seg_send_count (fs_seg f) =? 0) eqn:E; [|reflexivity].
    rewrite <- Hu2. symmetry. apply existsb_exists. exists f; split; [assumption|].
    rewrite E. reflexivity. }
  rewrite Hg in Hx. apply Z.eqb_neq in Hx. exact Hx.
Qed.

(* segmentation that runs to its end leaves `unsegmented` fresh *)
Lemma segment_loop_len : forall fuel nagle ss segs rem rwr ss' segs' rem',
  segment_loop fuel nagle ss segs rem rwr = Some (ss', segs', rem') ->
  rem' = rem - (ss_len_bytes segs' - ss_len_bytes segs).
Proof.
  induction fuel as [|x fuel IH]; intros nagle ss segs rem rwr ss' segs' rem'; cbn [segment_loop].
  { intro H; injection H as <- <- <-. lia. }
  destruct (_ && _); [|intro H; injection H as <- <- <-; lia].
  destruct (next_segment_size ss) as [[ss1 sz]|]; [|discriminate].
  cbv zeta. destruct (_ && _ && _); [intro H; injection H as <- <- <-; lia|].
  destruct (_ <? _).
  - intro H; injection H as <- <- <-. unfold enqueue, Segments.set_segs. cbn [ss_len_bytes]. lia.
  - intro H. apply IH in H. unfold enqueue, Segments.set_segs in H. cbn [ss_len_bytes] in H. lia.
Qed.

Lemma segment_loop_rem_nonneg : forall fuel nagle ss segs rem rwr ss' segs' rem',
  segment_loop fuel nagle ss segs rem rwr = Some (ss', segs', rem') -> 0 <= rem -> 0 <= rem'.
Proof.
  induction fuel as [|x fuel IH]; intros nagle ss segs rem rwr ss' segs' rem'; cbn [segment_loop].
  { intro H; injection H as <- <- <-. auto. }
  destruct (_ && _); [|intro H; injection H as <- <- <-; auto].
  destruct (next_segment_size ss) as [[ss1 sz]|]; [|discriminate].
  cbv zeta. destruct (_ && _ && _); [intro H; injection H as <- <- <-; auto|].
  destruct (_ <? _).
  - intros H Hr; injection H as <- <- <-. lia.
  - intros H Hr. apply IH in H; [exact H|lia].
Qed.

(* the part of split_tx_queue_into_segments after the MTU-probe decision *)
Lemma split_cont_fresh (s2 s' : vsock) tl :
  tl = Z.of_nat (length (ring (v_tx s2))) ->
  (if tl <? ss_len_bytes (v_segs s2) then SErr s2 (ErrBug BugInBufferComputations)
   else match segment_loop (ring (v_tx s2)) (o_nagle (v_opts s2)) (v_ss s2) (v_segs s2)
                (tl - ss_len_bytes (v_segs s2)) (v_last_remote_window s2) with
        | Some (ss', segs', remaining) =>
            SOk (set_unsegmented (set_segs (set_ss s2 ss') segs') remaining) tt
        | None => SPanic
        end) = SOk s' tt ->
  split_fresh s'.
Proof.
  intros Htl. destruct (Z.ltb_spec tl (ss_len_bytes (v_segs s2))) as [Hlt|Hge]; [discriminate|].
  destruct (segment_loop _ _ _ _ _ _) as [[[ss' segs'] rem]|] eqn:E; [|discriminate].
  intro H; injection H as <-. unfold split_fresh. vsimpl.
  pose proof (segment_loop_len _ _ _ _ _ _ _ _ _ E) as Hl.
  pose proof (segment_loop_rem_nonneg _ _ _ _ _ _ _ _ _ E) as Hn.
  unfold sat_sub. lia.
Qed.

(* every segmentation that looks at a non-empty send buffer before the peer's FIN leaves
   `unsegmented` fresh - also the early return on an outstanding MTU probe (repair of D10).
   (With an empty buffer, or after the peer's FIN, the function returns before it touches the field;
   in the second case the state is LastAck / Closed and no FIN is decided any more.) *)
Theorem split_fresh_after : forall (s s' : vsock),
  split_tx_queue_into_segments cci s = SOk s' tt ->
  is_remote_fin_or_later (v_state s) = false -> ring (v_tx s) <> [] -> split_fresh s'.
Proof.
  intros s s' H Hst Hne. unfold split_tx_queue_into_segments in H. cbv zeta in H.
  destruct (Z.eqb_spec (Z.of_nat (length (ring (v_tx s)))) 0) as [E0|E0].
  { destruct (ring (v_tx s)); [congruence|cbn [length] in E0; lia]. }
  revert H.
  match goal with |- (if is_remote_fin_or_later (v_state ?x) then _ else _) = _ -> _ =>
    assert (F : v_state x = v_state s /\ ring (v_tx x) = ring (v_tx s)); [|revert F; generalize x; intros s1 (F1 & F2)] end.
  { destruct (_ && _); [|split; reflexivity]. unfold grow.
    destruct (_ <=? _); cbn [fst snd]; [vsimpl; split; reflexivity|].
    unfold wake_writer, add_wakes. vsimpl. cbn [ring upd]. split; reflexivity. }
  rewrite F1, Hst.
  destruct (pop_expired_mtu_probe _ _ _) as [segs1 pe]. destruct pe.
  - apply split_cont_fresh. destruct (seq_gt _ _); vsimpl; rewrite F2; reflexivity.
  - intro H; injection H as <-. unfold split_fresh. vsimpl. rewrite F2. reflexivity.
  - apply split_cont_fresh. rewrite F2; reflexivity.
Qed.

(* with an empty send buffer the function only registers the dispatcher waker *)
Theorem split_empty_ring : forall s : vsock,
  ring (v_tx s) = [] ->
  split_tx_queue_into_segments cci s = SOk (set_tx s (register_dispatcher_if_empty (v_tx s))) tt.
Proof. intros s H. unfold split_tx_queue_into_segments. rewrite H. reflexivity. Qed.

(* ---- between the segmentation and the decision to close: send_tx_queue ---- *)
(* what send_tx_queue leaves alone, unless it pops a failed MTU probe and asks for a restart of the poll *)
Definition uframe (s s' : vsock) : Prop :=
  v_unsegmented s' = v_unsegmented s /\ ring (v_tx s') = ring (v_tx s) /\
  ss_len_bytes (v_segs s') = ss_len_bytes (v_segs s).

Lemma uframe_refl s : uframe s s.
Proof. unfold uframe. auto. Qed.

Lemma uframe_trans a b c : uframe a b -> uframe b c -> uframe a c.
Proof. unfold uframe. intros (A1 & A2 & A3) (B1 & B2 & B3). repeat split; congruence. Qed.

Definition sufr {A} (s : vsock) (m : step A) : Prop :=
  match m with SOk s' _ => uframe s s' | _ => True end.
Definition sufr_r {A} (s : vsock) (m : step A) : Prop :=
  match m with SOk s' _ => uframe s s' \/ v_restart s' = true | _ => True end.

Lemma sufr_bind {A B} s (m : step A) (f : vsock -> A -> step B) :
  sufr s m -> (forall s1 a, sufr s1 (f s1 a)) -> sufr s (sbind m f).
Proof.
  intros Hm Hf. destruct m as [s1 a|s1 e|]; cbn [sbind sufr] in *; auto.
  specialize (Hf s1 a). destruct (f s1 a); cbn [sufr] in *; auto. eapply uframe_trans; eauto.
Qed.

Lemma sufr_r_bind {A B} s (m : step A) (f : vsock -> A -> step B) :
  sufr s m -> (forall s1 a, sufr_r s1 (f s1 a)) -> sufr_r s (sbind m f).
Proof.
  intros Hm Hf. destruct m as [s1 a|s1 e|]; cbn [sbind sufr] in *; auto; try exact I.
  specialize (Hf s1 a). destruct (f s1 a); cbn [sufr_r] in *; auto.
  destruct Hf as [Hf|Hf]; [left; eapply uframe_trans; eauto|right; exact Hf].
Qed.

Lemma sufr_weaken {A} s0 s (m : step A) : uframe s0 s -> sufr s m -> sufr s0 m.
Proof. intros H Hm. destruct m; cbn [sufr] in *; auto. eapply uframe_trans; eauto. Qed.

Ltac uf_triv := unfold uframe; vsimpl; repeat split; reflexivity.
Ltac abs_as t F z := revert F; generalize t; intros z F.

Lemma uframe_emit s p : uframe s (emit s p).
Proof. unfold emit. uf_triv. Qed.
Lemma uframe_on_packet_sent s h : uframe s (on_packet_sent s h).
Proof. unfold on_packet_sent. uf_triv. Qed.
Lemma uframe_set_last_sent s x : uframe s (set_last_sent_seq_nr s x).
Proof. uf_triv. Qed.
Lemma uframe_set_seq_nr s x : uframe s (set_seq_nr s x).
Proof. uf_triv. Qed.
Lemma uframe_set_t_retransmit s x : uframe s (set_t_retransmit s x).
Proof. uf_triv. Qed.
Lemma uframe_set_t_inactivity s x : uframe s (set_t_inactivity s x).
Proof. uf_triv. Qed.
Lemma uframe_set_transport_pending s x : uframe s (set_transport_pending s x).
Proof. uf_triv. Qed.
Lemma uframe_on_sent s i now : uframe s (set_segs s (on_sent (v_segs s) i now)).
Proof. unfold uframe; vsimpl. repeat split; reflexivity. Qed.
Lemma uframe_set_recovering s rc : uframe s (set_recovering s rc).
Proof. unfold set_recovering. uf_triv. Qed.

Lemma next_send_uframe (s : vsock) n s1 o : next_send s n = (s1, o) -> uframe s s1.
Proof. intro E. apply next_send_same in E. destruct E as [->|[r ->]]; [apply uframe_refl|uf_triv]. Qed.

Lemma send_control_packet_uframe s h : sufr s (send_control_packet s h).
Proof.
  unfold send_control_packet. destruct (v_transport_pending s); [apply uframe_refl|].
  destruct (next_send s _) as [s1 o] eqn:E. apply next_send_uframe in E.
  destruct o; cbn [sufr]; auto.   (* the fields of uframe are untouched: by conversion *)
Qed.

Lemma maybe_send_fin_uframe s : sufr s (maybe_send_fin s).
Proof.
  unfold maybe_send_fin. destruct (v_transport_pending s); [apply uframe_refl|].
  destruct (our_fin_if_unacked (v_state s)); [|apply uframe_refl].
  destruct (negb _); [apply uframe_refl|].
  apply sufr_bind; [apply send_control_packet_uframe|].
  intros s1 a. destruct a; cbn [sufr]; [|apply uframe_refl].
  eapply uframe_trans; [apply uframe_set_t_retransmit|apply uframe_set_last_sent].
Qed.

Lemma send_data_uframe s h f : sufr s (send_data s h f).
Proof.
  unfold send_data. destruct (_ =? _); [exact I|].
  destruct (_ <? 0); [exact I|]. destruct (_ <? _); [exact I|].
  destruct (_ <? _); [exact I|].
  destruct (next_send s _) as [s1 o] eqn:E. apply next_send_uframe in E.
  destruct o; cbn [sufr]; auto.
  eapply uframe_trans; [exact E|].
    eapply uframe_trans; [apply uframe_emit|].
    eapply uframe_trans; [|apply uframe_set_t_inactivity].
    eapply uframe_trans; [|apply uframe_set_t_retransmit].
    eapply uframe_trans; [apply uframe_on_sent|].
    eapply uframe_trans; [apply uframe_on_packet_sent|].
    destruct (seq_gt _ _); [|apply uframe_refl].
    eapply uframe_trans; [apply uframe_set_last_sent|].
    destruct (seq_gt _ _); [apply uframe_set_seq_nr|apply uframe_refl].
Qed.

Lemma on_rto_reactions_uframe s s' : on_rto_reactions cci s = Some s' -> uframe s s'.
Proof. unfold on_rto_reactions. destruct (on_rto_timeout _); [|discriminate].
  intro H; injection H as <-. uf_triv. Qed.

Lemma recovery_loop_uframe : forall items s h mss0 st, sufr s (recovery_loop items s h mss0 st).
Proof.
  induction items as [|f rest IH]; intros; cbn [recovery_loop]; [apply uframe_refl|].
  destruct (negb _); [apply uframe_refl|].
  destruct (_ && _); [apply IH|]. destruct (_ && _); [apply uframe_refl|].
  pose proof (send_data_uframe s h f) as Hd. destruct (send_data s h f) as [s1 r|s1 e|]; cbn [sufr] in *; auto.
  destruct r; cbn [sufr]; auto. eapply sufr_weaken; [exact Hd|apply IH].
Qed.

Lemma new_data_loop_uframe : forall items s h rem, sufr s (new_data_loop items s h rem).
Proof.
  induction items as [|f rest IH]; intros; cbn [new_data_loop]; [apply uframe_refl|].
  destruct (_ <? _); [apply uframe_refl|].
  pose proof (send_data_uframe s h f) as Hd. destruct (send_data s h f) as [s1 r|s1 e|]; cbn [sufr] in *; auto.
  destruct r; cbn [sufr]; auto. eapply sufr_weaken; [exact Hd|apply IH].
Qed.

Theorem send_tx_queue_uframe s : sufr_r s (send_tx_queue cci s).
Proof.
  unfold send_tx_queue. destruct (v_transport_pending s); [left; apply uframe_refl|].
  apply sufr_r_bind.
  { destruct (timer_expired _ _); [|apply uframe_refl].
    destruct (iter_for_sending _ _) as [|f l].
    - destruct (our_fin_if_unacked _); [|cbn [sufr]; apply uframe_set_t_retransmit].
      destruct (_ =? _); [|cbn [sufr]; apply uframe_set_t_retransmit].
      apply sufr_weaken with (s := set_last_sent_seq_nr s (wsub16 (v_last_sent_seq_nr s) 1));
        [apply uframe_set_last_sent|].
      apply sufr_bind; [apply maybe_send_fin_uframe|].
      intros s1 a. destruct a; [|apply uframe_refl].
      destruct (on_rto_reactions cci s1) eqn:E; [|exact I]. apply on_rto_reactions_uframe in E.
      cbn [sufr]. eapply uframe_trans; [exact E|apply uframe_set_t_retransmit].
    - pose proof (send_data_uframe s (outgoing_header s) f) as Hd.
      destruct (send_data _ _ f) as [s1 r|s1 e|]; cbn [sufr] in *; auto.
      destruct r; cbn [sufr]; auto.
      cbv zeta.
      match goal with |- sufr _ (match ?o with _ => _ end) => destruct o as [s2|] eqn:E end; [|exact I].
      assert (F2 : uframe s1 s2).
      { destruct (negb _); [apply on_rto_reactions_uframe; exact E|injection E as <-; apply uframe_refl]. }
      cbn [sufr]. eapply uframe_trans; [exact Hd|]. eapply uframe_trans; [exact F2|]. uf_triv. }
  intros s1 ret. destruct ret; [left; apply uframe_refl|].
  destruct (0 <? _); [left; apply uframe_refl|]. destruct (ss_segs _); [left; apply uframe_refl|].
  apply sufr_r_bind.
  { destruct (rv_phase _); try apply uframe_refl.
    apply sufr_bind; [apply recovery_loop_uframe|].
    intros s2 [st early]. cbv beta iota zeta.
    destruct early; [apply uframe_set_recovering|].
    match goal with |- sufr _ (match our_fin_if_unacked (v_state ?y) with _ => _ end) =>
      assert (F3 : uframe s2 y); [|abs_as y F3 sy] end.
    { eapply uframe_trans; [apply uframe_set_recovering|].
      destruct (_ <? _); [|apply uframe_refl]. destruct (rc_recalc _); [uf_triv|].
      destruct (0 <? _); [uf_triv|apply uframe_refl]. }
    destruct (our_fin_if_unacked _); [destruct (_ =? _)|]; cbn [sufr]; auto. }
  intros s2 ret. destruct ret; [left; apply uframe_refl|].
  apply sufr_r_bind; [apply new_data_loop_uframe|].
  intros s3 tl. destruct tl as [[sq sz]|]; [|left; apply uframe_refl].
  destruct (pop_mtu_probe _ _) as [segs' popped]. destruct popped; cbn [sufr_r]; [|exact I].
  right. reflexivity.
Qed.

(* the composition as it appears in poll_body:
     bail (split_tx_queue_into_segments s4) (fun s5 _ => pend (send_tx_queue s5) (fun s6 _ =>
       let s := if should_close_on_own_initiative s6 then transition_to_fin_wait_1 s6 else s6 in ...
   (pend hands s6 on only when no restart was requested).  FIN only after all accepted data, with NO
   hypothesis on `unsegmented`: whenever a poll that looked at a non-empty send buffer before the peer's
   FIN decides to close, every byte of the buffer is segmented and every segment was sent at least once *)
Theorem fin_after_all_data_in_poll : forall (s4 s5 s6 : vsock),
  split_tx_queue_into_segments cci s4 = SOk s5 tt ->
  is_remote_fin_or_later (v_state s4) = false -> ring (v_tx s4) <> [] ->
  send_tx_queue cci s5 = SOk s6 tt -> v_restart s6 = false ->
  should_close_on_own_initiative s6 = true ->
  Z.of_nat (length (ring (v_tx s6))) <= ss_len_bytes (v_segs s6) /\
  (forall g, In g (ss_segs (v_segs s6)) -> sg_delivered g = true \/ seg_send_count g <> 0).
Proof.
  intros s4 s5 s6 Hsp Hst Hne Htx Hr Hc.
  pose proof (split_fresh_after s4 s5 Hsp Hst Hne) as Hf.
  pose proof (send_tx_queue_uframe s5) as Hu. rewrite Htx in Hu. cbn [sufr_r] in Hu.
  destruct Hu as [(U1 & U2 & U3)|Hu]; [|congruence].
  apply fin_after_all_data; [exact Hc|].
  unfold split_fresh in *. rewrite U1, U2, U3. exact Hf.
Qed.

(* ---- the number of the next NEW packet never moves backwards (repair of D13) ---- *)
(* send_data either leaves seq_nr alone or raises it (in the circular order) to one past the
   segment just sent; an error leaves it alone *)
Theorem send_data_seq_nr_mono : forall (s s' : vsock) h f r,
  send_data s h f = SOk s' r ->
  v_seq_nr s' = v_seq_nr s \/
  (v_seq_nr s' = wadd16 (fs_seq f) 1 /\ seq_gt (wadd16 (fs_seq f) 1) (v_seq_nr s) = true /\
   v_last_sent_seq_nr s' = fs_seq f).
Proof.
  intros s s' h f r. unfold send_data.
  destruct (_ =? _); [discriminate|].
  destruct (_ <? 0); [discriminate|]. destruct (_ <? _); [discriminate|].
  destruct (_ <? _); [discriminate|].
  destruct (next_send s _) as [s1 o] eqn:E. apply next_send_same in E.
  destruct o; try discriminate.
  - cbv zeta. unfold on_packet_sent, emit.
    destruct E as [->|[q ->]]; vsimpl;
      (destruct (seq_gt (fs_seq f) (v_last_sent_seq_nr s));
       [destruct (seq_gt (wadd16 (fs_seq f) 1) (v_seq_nr s)) eqn:Eg|]);
      intro H; injection H as <- _; vsimpl; auto.
  - intro H; injection H as <- _. destruct E as [->|[q ->]]; vsimpl; auto.
  - intro H; injection H as <- _. destruct E as [->|[q ->]]; vsimpl; auto.
Qed.

Theorem send_data_err_seq_nr : forall (s s' : vsock) h f e,
  send_data s h f = SErr s' e -> v_seq_nr s' = v_seq_nr s.
Proof.
  intros s s' h f e. unfold send_data.
  destruct (_ =? _); [intro H; injection H as <- _; reflexivity|].
  destruct (_ <? 0); [discriminate|].
  destruct (_ <? _); [intro H; injection H as <- _; reflexivity|].
  destruct (_ <? _); [intro H; injection H as <- _; reflexivity|].
  destruct (next_send s _) as [s1 o] eqn:E. apply next_send_same in E.
  destruct o; try discriminate.
  intro H; injection H as <- _. destruct E as [->|[q ->]]; vsimpl; auto.
Qed.


(* ================================================================== (d) the peer's FIN *)
Lemma seq_sub_refl x : seq_sub x x = 0.
Proof. unfold seq_sub, seq_nr_offset. rewrite Z.ltb_irrefl, Z.eqb_refl. reflexivity. Qed.

(* out of sequence: the message is consumed and NOTHING else happens (same state returned);
   since the repair of D19 also while our SYN-ACK is unanswered *)
Theorem peer_fin_out_of_sequence : forall (s : vsock) m,
  ch_type (m_hdr m) = ST_FIN ->
  ((exists k, v_state s = SynAckSent k) \/
   v_state s = Established \/ (exists f, v_state s = FinWait1 f) \/ v_state s = FinWait2) ->
  ~ in_seq s (m_hdr m) ->
  process_incoming_message cci s m = SOk s on_ack_result_default.
Proof.
  intros s m Ht Hs Hn. unfold process_incoming_message. cbv zeta.
  destruct (transition_table s (m_hdr m)) as (_&_&_&_&_&_&_&R7a&_&_&R10&_).
  destruct Hs as [[k Hs]|Hs].
  - rewrite (R7a k Ht Hs Hn). reflexivity.
  - rewrite (R10 Ht Hs Hn). reflexivity.
Qed.

(* in sequence, from Established: consumed, immediate ACK forced, our FIN numbered seq_nr, the
   writer is told the stream is closed; nothing is put on the wire by this function *)
Theorem peer_fin_in_sequence_established : forall (s : vsock) m s' r,
  v_state s = Established -> ch_type (m_hdr m) = ST_FIN -> in_seq s (m_hdr m) ->
  process_incoming_message cci s m = SOk s' r ->
  v_state s' = LastAck (v_seq_nr s) (ch_seq (m_hdr m)) /\ v_seq_nr s' = wadd16 (v_seq_nr s) 1 /\
  v_last_consumed s' = ch_seq (m_hdr m) /\ v_cbu s' = USIZE_MAX /\
  t_vsock_closed (v_tx s') = true /\ v_out s' = v_out s /\
  v_last_sent_seq_nr s' = v_last_sent_seq_nr s.
Proof.
  intros s m s' r Hs Ht Hi. unfold process_incoming_message. cbv zeta.
  destruct (transition_table s (m_hdr m)) as (_&_&_&_&_&_&_&_&_&_&_&R11&_).
  rewrite (R11 Ht Hs Hi). rewrite Hs. cbn [is_remote_fin_or_later negb].
  destruct (remove_up_to_ack _ _ _ _) as [segs1 res].
  match goal with |- context [match ?o with Some rtte1 => _ | None => SPanic end] => destruct o as [rtte1|] end;
    [|discriminate].
  destruct (cc_on_ack _ _ _ _ _) as [cc3|]; [|discriminate].
  destruct (recovery_on_ack _ _ _ _ _ _ _ _) as [[[rec1 segs2] cc4]|]; [|discriminate].
  rewrite Ht.
  match goal with |- context [set_last_consumed (force_immediate_ack ?x) _] =>
    assert (F : v_state x = LastAck (v_seq_nr s) (ch_seq (m_hdr m)) /\ v_seq_nr x = wadd16 (v_seq_nr s) 1 /\
                v_last_consumed x = v_last_consumed s /\ v_out x = v_out s /\
                v_last_sent_seq_nr x = v_last_sent_seq_nr s) by (vsimpl; repeat split);
    revert F; generalize x; intros s2 (F1 & F2 & F3 & F4 & F5) end.
  unfold in_seq in Hi. rewrite F3, <- Hi, seq_sub_refl. cbn [Z.leb Z.compare andb].
  destruct (rx_add_remove _ _ _ _) as [[rx1 ar] w]. destruct ar as [ra|]; [|discriminate].
  destruct (add_err ra); [discriminate|].
  unfold mark_vsock_closed, add_wakes, force_immediate_ack. intro H; injection H as <- <-.
  vsimpl. cbn [t_vsock_closed upd]. repeat split; assumption.
Qed.

(* ================================================================== (e) RESET *)
Definition past_handshake (st : vstate) : bool :=
  match st with SynReceived | SynAckSent _ => false | _ => true end.

Lemma reset_message_err : forall (s : vsock) m,
  ch_type (m_hdr m) = ST_RESET ->
  (forall f r, v_state s = LastAck f r -> ch_ack (m_hdr m) <> f) ->
  process_incoming_message cci s m = SErr (set_state s Closed) ErrStResetReceived.
Proof.
  intros s m Ht Hn. unfold process_incoming_message. cbv zeta.
  destruct (transition_table s (m_hdr m)) as (_&R2&_). rewrite (R2 Ht Hn). reflexivity.
Qed.

Lemma reset_message_acks_fin : forall (s : vsock) m f r,
  ch_type (m_hdr m) = ST_RESET -> v_state s = LastAck f r -> ch_ack (m_hdr m) = f ->
  process_incoming_message cci s m = SOk (set_state s Closed) on_ack_result_default.
Proof.
  intros s m f r Ht Hs Ha. unfold process_incoming_message. cbv zeta.
  destruct (transition_table s (m_hdr m)) as (R1&_). rewrite (R1 f r Ht Hs Ha). reflexivity.
Qed.

(* a reset at the head of the inbox, past the handshake, not acknowledging our FIN in LastAck:
   the poll reports it at once; NOTHING is put on the wire in that poll (no FIN, no reply: the state
   is Closed when just_before_death looks at it); both halves closed, the error queued for the reader *)
Theorem reset_err_poll : forall (s : vsock) script m rest,
  past_handshake (v_state s) = true -> vsock_closed (v_rx s) = false ->
  immediate_ack_to_transmit s = false ->
  v_inbox s = m :: rest -> ch_type (m_hdr m) = ST_RESET ->
  (forall f r, v_state s = LastAck f r -> ch_ack (m_hdr m) <> f) ->
  exists s', poll cci (set_sends s script) = (s', PollReadyErr ErrStResetReceived) /\
    v_out s' = [] /\ v_state s' = Closed /\ both_closed s' /\ reader_waker (v_rx s') = false /\
    q (v_rx s') = q (v_rx s) ++ [QError] /\ v_inbox s' = rest.
Proof.
  intros s script m rest Hp Hlive Himm Hin Ht Hn.
  unfold poll. set (s0 := set_arm_in (set_wakes (set_out (set_sends s script) []) []) None).
  change (poll_loop cci 64 s0) with
    (match poll_body cci s0 with
     | BrReturn s' r => (s', r) | BrRestart s' => poll_loop cci 63 s' | BrPanic => (s0, PollPanic) end).
  rewrite poll_body_decomp.
  assert (Hsyn : maybe_send_syn_ack (body_start s0) = SOk (set_t_syn_ack_resend (body_start s0) None) tt).
  { unfold maybe_send_syn_ack. change (v_state (body_start s0)) with (v_state s).
    destruct (v_state s); try discriminate; reflexivity. }
  rewrite Hsyn. set (s1 := set_t_syn_ack_resend (body_start s0) None).
  unfold pend at 1, bail at 1.
  change (v_restart s1) with false. change (v_transport_pending s1) with false. cbv beta iota.
  unfold body_rest.
  change (immediate_ack_to_transmit s1) with (immediate_ack_to_transmit s). rewrite Himm.
  unfold pend at 1, bail at 1.
  change (v_restart s1) with false. change (v_transport_pending s1) with false. cbv beta iota.
  unfold process_all_incoming_messages.
  change (v_inbox s1) with (v_inbox s). rewrite Hin. cbn [app recv_loop].
  change (v_inbox s1) with (v_inbox s). rewrite Hin.
  rewrite (reset_message_err (set_inbox s1 rest) m Ht Hn). cbn [sbind].
  unfold pend at 1, bail at 1, die.
  eexists. split; [reflexivity|].
  pose proof (just_before_death_spec (set_state (set_inbox s1 rest) Closed) (Some ErrStResetReceived) Hlive) as H.
  cbv zeta in H. destruct H as (B & Hrw & Hst & _ & _ & _ & Hq & _ & _ & Hout).
  split; [rewrite Hout; [reflexivity|right; reflexivity]|].
  split; [rewrite Hst; reflexivity|]. split; [exact B|]. split; [exact Hrw|].
  split; [rewrite Hq; reflexivity|].
  unfold just_before_death. cbv zeta. cbn [is_local_fin_or_later negb v_state set_state].
  unfold mark_both_closed, rx_enqueue_error, rx_mark_vsock_closed, mark_vsock_closed, add_wakes. vsimpl.
  cbn [vsock_closed set_flags]. change (vsock_closed (v_rx s1)) with (vsock_closed (v_rx s)). rewrite Hlive.
  vsimpl. reflexivity.
Qed.

(* the reset that acknowledges our FIN in LastAck closes cleanly; the rest of the inbox is left
   unread in that poll (the loop stops on Closed) and the poll goes on (flush, inactivity check,
   segmentation, send_tx_queue, maybe_send_ack may still emit) before just_before_death(None) *)
Theorem reset_ok_recv_loop : forall (s : vsock) m rest f r fuel acc x,
  v_inbox s = m :: rest -> ch_type (m_hdr m) = ST_RESET -> v_state s = LastAck f r ->
  ch_ack (m_hdr m) = f ->
  recv_loop cci (x :: fuel) s acc =
  SOk (set_state (set_inbox s rest) Closed) (result_update acc on_ack_result_default, false).
Proof.
  intros s m rest f r fuel acc x Hin Ht Hs Ha. cbn [recv_loop]. rewrite Hin.
  rewrite (reset_message_acks_fin (set_inbox s rest) m f r Ht Hs Ha). cbn [sbind].
  vsimpl. cbn [state_is_closed orb]. reflexivity.
Qed.

(* ================================================================== (a) SYN-ACK *)
Lemma timer_arm_restart t now d : timer_arm t now d true = Some (now + d).
Proof. destruct t; reflexivity. Qed.

Theorem maybe_send_syn_ack_spec : forall s : vsock,
  v_transport_pending s = false ->
  let due := match v_state s with
             | SynReceived => true
             | SynAckSent _ => timer_expired (v_t_syn_ack_resend s) (v_now s)
             | _ => false end in
  let k0 := match v_state s with SynAckSent k => k | _ => 0 end in
  let handshaking := match v_state s with SynReceived | SynAckSent _ => true | _ => false end in
  (handshaking = false -> maybe_send_syn_ack s = SOk (set_t_syn_ack_resend s None) tt) /\
  (handshaking = true -> due = false -> maybe_send_syn_ack s = SOk s tt) /\
  (handshaking = true -> due = true -> k0 = o_max_retx (v_opts s) ->
     maybe_send_syn_ack s = SErr s ErrMaxSynAckRetransmissionsReached) /\
  (handshaking = true -> due = true -> k0 <> o_max_retx (v_opts s) ->
     (exists s1 p h, same_but_sends s s1 /\
        maybe_send_syn_ack s =
          SOk (set_t_syn_ack_resend (set_state (on_packet_sent (emit s1 p) h) (SynAckSent (k0 + 1)))
                 (Some (v_now s + SYNACK_RESEND_INTERNAL))) tt /\
        ch_type (p_hdr p) = ST_STATE /\ ch_seq (p_hdr p) = v_seq_nr s /\
        ch_ack (p_hdr p) = v_last_consumed s /\ p_payload p = []) \/
     (exists s1, same_but_sends s s1 /\ maybe_send_syn_ack s = SOk (set_transport_pending s1 true) tt) \/
     (exists s1, same_but_sends s s1 /\ maybe_send_syn_ack s = SErr s1 ErrSend)).
Proof.
  intros s Hp. cbv zeta.
  assert (G : forall c, c <> o_max_retx (v_opts s) ->
    let go := if c =? o_max_retx (v_opts s) then SErr s ErrMaxSynAckRetransmissionsReached
              else sbind (send_ack s) (fun s1 sent => if sent then
                SOk (set_t_syn_ack_resend (set_state s1 (SynAckSent (c + 1)))
                      (timer_arm (v_t_syn_ack_resend s1) (v_now s1) SYNACK_RESEND_INTERNAL true)) tt
                else SOk s1 tt) in
    (exists s1 p h, same_but_sends s s1 /\
        go = SOk (set_t_syn_ack_resend (set_state (on_packet_sent (emit s1 p) h) (SynAckSent (c + 1)))
                 (Some (v_now s + SYNACK_RESEND_INTERNAL))) tt /\
        ch_type (p_hdr p) = ST_STATE /\ ch_seq (p_hdr p) = v_seq_nr s /\
        ch_ack (p_hdr p) = v_last_consumed s /\ p_payload p = []) \/
     (exists s1, same_but_sends s s1 /\ go = SOk (set_transport_pending s1 true) tt) \/
     (exists s1, same_but_sends s s1 /\ go = SErr s1 ErrSend)).
  { intros c Hc. cbv zeta. eqb_rw. unfold send_ack.
    set (H := hdr_with (outgoing_header s) ST_STATE (ch_seq (outgoing_header s)) (sack_of_rx (v_rx s))).
    destruct (send_control_packet_cases s H Hp)
      as [(s1 & Hs & ->)|[(s1 & Hs & ->)|(s1 & Hs & ->)]]; cbn [sbind].
    - left. exists s1. eexists. exists H. split; [exact Hs|]. rewrite timer_arm_restart.
      assert (Hnow : v_now (on_packet_sent (emit s1 {| p_hdr := hdr_with H (ch_type H) (ch_seq H) (fit_sack s (ch_sack H));
                                                       p_payload := [] |}) H) = v_now s)
        by (destruct Hs as [->|[r ->]]; reflexivity).
      rewrite Hnow. split; [reflexivity|]. repeat split.
    - right; left. exists s1; auto.
    - right; right. exists s1; auto. }
  unfold maybe_send_syn_ack. destruct (v_state s) eqn:Es.
  - repeat split; intros; try discriminate.
    + eqb_rw. reflexivity.
    + apply G; assumption.
  - repeat split; intros; try discriminate.
    + rewrite H0. reflexivity.
    + rewrite H0. eqb_rw. reflexivity.
    + rewrite H0. apply G; assumption.
  - repeat split; intros; try discriminate; reflexivity.
  - repeat split; intros; try discriminate; reflexivity.
  - repeat split; intros; try discriminate; reflexivity.
  - repeat split; intros; try discriminate; reflexivity.
  - repeat split; intros; try discriminate; reflexivity.
Qed.

(* the configured number of SYN-ACKs went unanswered: the poll fails at once *)
Theorem synack_exhausted_poll : forall (s : vsock) script k,
  v_state s = SynAckSent k -> timer_expired (v_t_syn_ack_resend s) (v_env_now s) = true ->
  k = o_max_retx (v_opts s) -> vsock_closed (v_rx s) = false ->
  exists s', poll cci (set_sends s script) = (s', PollReadyErr ErrMaxSynAckRetransmissionsReached) /\
             v_state s' = SynAckSent k /\ both_closed s' /\ q (v_rx s') = q (v_rx s) ++ [QError].
Proof.
  intros s script k Hs Hexp Hk Hlive.
  unfold poll. set (s0 := set_arm_in (set_wakes (set_out (set_sends s script) []) []) None).
  change (poll_loop cci 64 s0) with
    (match poll_body cci s0 with
     | BrReturn s' r => (s', r) | BrRestart s' => poll_loop cci 63 s' | BrPanic => (s0, PollPanic) end).
  rewrite poll_body_decomp.
  assert (Hsyn : maybe_send_syn_ack (body_start s0) = SErr (body_start s0) ErrMaxSynAckRetransmissionsReached).
  { unfold maybe_send_syn_ack. change (v_state (body_start s0)) with (v_state s). rewrite Hs.
    change (timer_expired (v_t_syn_ack_resend (body_start s0)) (v_now (body_start s0)))
      with (timer_expired (v_t_syn_ack_resend s) (v_env_now s)). rewrite Hexp.
    change (o_max_retx (v_opts (body_start s0))) with (o_max_retx (v_opts s)). eqb_rw. reflexivity. }
  rewrite Hsyn. unfold pend, bail, die. eexists. split; [reflexivity|].
  pose proof (just_before_death_spec (body_start s0) (Some ErrMaxSynAckRetransmissionsReached) Hlive) as H.
  cbv zeta in H. destruct H as (B & _ & Hst & _ & _ & _ & Hq & _).
  split; [rewrite Hst; exact Hs|]. split; [exact B|exact Hq].
Qed.

End WithCC.

(* ================================================================== regression witnesses *)
(* a congestion controller with a constant window (the witnesses do not depend on CUBIC) *)
Definition fixed_cc (w : Z) : cc_iface unit :=
  {| cc_window := fun _ => w; cc_sshthresh := fun _ => w; cc_set_mss := fun c _ => c;
     cc_smss := fun _ => 528; cc_on_recovered := fun c _ _ => c; cc_on_ack := fun c _ _ _ => Some c;
     cc_on_rto := fun c _ => c; cc_on_enter_recovery := fun c _ => c;
     cc_set_remote_window := fun c _ => c |}.

Definition wit_cfg (mtu : Z) : vconfig :=
  {| vc_incoming := false; vc_ipv4 := true; vc_link_mtu := mtu; vc_rx_buf := 1048576;
     vc_tx_init := 32768; vc_tx_max := 1048576; vc_nagle := true; vc_max_retx := 5;
     vc_inactivity := 10000000000; vc_wait_last_ack := true; vc_mtu_probe_max_retx := 1;
     vc_isn := 100; vc_remote_seq := 1; vc_remote_conn_id := 7; vc_remote_wnd := 1048576;
     vc_remote_ts := 0; vc_syn_sent := 0; vc_now0 := 1000000000 |}.

(* D10 (repaired): 528 + 991 bytes written and sent (the second segment is an MTU probe, outstanding);
   100 more bytes written; both halves dropped; the next poll returns early from
   split_tx_queue_into_segments (PeNotExpired).  Before the repair `unsegmented` stayed 0 and the FIN
   was numbered 103 and sent while 100 bytes of the ring were never segmented; now `unsegmented` is
   100, the connection stays Established and no FIN is emitted *)
Definition d10_ops : list vop :=
  [VoWrite (repeat 7 1519); VoPoll []; VoWrite (repeat 9 100); VoDropReader; VoDropWriter; VoPoll []].

Definition d10_regression_b : bool :=
  match vsock_new (fixed_cc 4096) (fun _ _ => tt) (wit_cfg 1500) with
  | Some s0 =>
      let tr := ftrace (fixed_cc 4096) s0 d10_ops in
      forallb (c17_fin_after_data_ok (wit_cfg 1500)) tr &&
      c17_fin_seq_ok (wit_cfg 1500) tr &&
      negb (existsb (pkt_is ST_FIN) (all_pkts tr)) &&
      match last tr {| fs_now := 0; fs_pre := fp_of_vsock (fixed_cc 4096) s0; fs_event := FeFlush;
                       fs_result := FrNone; fs_disp_woken := false; fs_self_woken := false;
                       fs_post := fp_of_vsock (fixed_cc 4096) s0 |} with
      | st => match f_state (fs_post st), fs_result st with
              | Established, FrPoll PollPending _ _ _ =>
                  (f_tx_len (fs_post st) =? 1619) && (f_seg_len_bytes (fs_post st) =? 1519) &&
                  (f_unsegmented (fs_post st) =? 100)
              | _, _ => false
              end
      end
  | None => false
  end.

Theorem fin_overtakes_data_regression : d10_regression_b = true.
Proof. vm_compute. reflexivity. Qed.

(* D13 (repaired): three segments 101..103 sent; RTO resends 101 and rewinds last_sent_seq_nr to 101;
   the ack of 101 (window 528) lets 102 go out again.  Before the repair send_data set seq_nr := 103
   although segment 103 is still outstanding and the FIN took the number of a data segment; now
   seq_nr stays 104: both halves dropped, the FIN is numbered 104 (FinWait1 104), above the number of
   every data segment on the wire (103 among them) and of every segment still outstanding *)
Definition d13_ack : msg :=
  {| m_hdr := {| ch_type := ST_STATE; ch_conn_id := 0; ch_ts := 6; ch_ts_diff := 0; ch_wnd := 528;
                 ch_seq := 1; ch_ack := 101; ch_sack := None; ch_close_reason := None |};
     m_payload := [] |}.
Definition d13_ops : list vop :=
  [VoWrite (repeat 7 1584); VoPoll []; VoSetNow 8000000000; VoPoll []; VoDeliver d13_ack; VoPoll [];
   VoDropReader; VoDropWriter; VoPoll []].

Definition d13_regression_b : bool :=
  match vsock_new (fixed_cc 1584) (fun _ _ => tt) (wit_cfg 576) with
  | Some s0 =>
      let tr := ftrace (fixed_cc 1584) s0 d13_ops in
      c17_fin_seq_ok (wit_cfg 576) tr &&
      forallb (c17_fin_number_step_ok (wit_cfg 576)) tr &&
      forallb (c17_fin_after_data_ok (wit_cfg 576)) tr &&
      existsb (fun p => pkt_is ST_DATA p && (pkt_seq p =? 103)) (all_pkts tr) &&
      match last tr {| fs_now := 0; fs_pre := fp_of_vsock (fixed_cc 1584) s0; fs_event := FeFlush;
                       fs_result := FrNone; fs_disp_woken := false; fs_self_woken := false;
                       fs_post := fp_of_vsock (fixed_cc 1584) s0 |} with
      | st => match f_state (fs_post st) with
              | FinWait1 f =>
                  (f =? 104) && (f_seq_nr (fs_post st) =? 105) &&
                  (* above every data segment ever put on the wire ... *)
                  forallb (fun p => if pkt_is ST_DATA p then seq_lt (pkt_seq p) f else true) (all_pkts tr) &&
                  (* ... and above every segment still outstanding (snd_una + index) *)
                  negb (match f_segs (fs_post st) with [] => true | _ => false end) &&
                  seq_lt (wadd16 (f_snd_una (fs_post st))
                                 (Z.of_nat (length (f_segs (fs_post st))) - 1)) f
              | _ => false
              end
      end
  | None => false
  end.

Theorem fin_number_collides_with_data_regression : d13_regression_b = true.
Proof. vm_compute. reflexivity. Qed.

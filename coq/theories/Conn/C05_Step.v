(* C05 — the step predicates of Conn/C05_Pred.v / Conn/C0506_Pred2.v as THEOREMS about every step of the
   model (forall state satisfying a proved invariant, forall event) and about every trace from vsock_new.
     c05_rto_single_ok     under ti (an invariant)       c05_rto_single_ok_step / _trace *)
From Utp Require Import Base.Prelude Wire.SeqNr Wire.Header Rtt.Rtte Rtt.Rtte_Proofs Mtu.SegSizes Rx.Rx Tx.Ring
  Tx.Segments Conn.Recovery Conn.Msg Conn.VSockRec Conn.VSock Conn.VSockRun Conn.VObs
  Conn.VSock_Lemmas Conn.VSock_LemmasTx Conn.VSock_LemmasStep Conn.VSock_LemmasTimers
  Conn.C17_StepLemmas Conn.C05_Pred Conn.C06_Pred Conn.C0506_Pred2 Conn.C05_Pred3 Conn.C05_StepLemmas
  Conn.C10_Pred Conn.VSock_Inv Conn.C10_Proofs Conn.C05_Refuted.

(* ------------------------------------------------------------------ lists *)
Lemma filter_rev' {A} (p : A -> bool) : forall l, filter p (rev l) = rev (filter p l).
Proof.
  induction l as [|x xs IH]; [reflexivity|]. cbn [rev filter]. rewrite filter_app, IH. cbn [filter].
  destruct (p x); cbn [rev]; [reflexivity|rewrite app_nil_r; reflexivity].
Qed.

Lemma filter_map_comm {A X} (f : A -> X) (p : X -> bool) (q : A -> bool) :
  (forall x, p (f x) = q x) -> forall l, filter p (map f l) = map f (filter q l).
Proof.
  intros H. induction l as [|x xs IH]; [reflexivity|]. cbn [map filter]. rewrite H, IH.
  destruct (q x); reflexivity.
Qed.

Section WithCC.
Context {CC : Type} (cci : cc_iface CC).
Notation vsock := (vsock CC).

Lemma data_filter_out (s' : vsock) :
  filter fq_is_data (map fpacket_of (rev (v_out s'))) = map fpacket_of (rev (dout s')).
Proof.
  rewrite (filter_map_comm fpacket_of fq_is_data is_data); [|intro x; reflexivity].
  rewrite filter_rev'. reflexivity.
Qed.

(* ------------------------------------------------------------------ poll_loop from poll_start *)
Lemma poll_body_start (s : vsock) : poll_body cci (poll_start s) = poll_body cci s.
Proof. reflexivity. Qed.

Lemma poll_loop_start : forall fuel (s s' : vsock),
  poll_loop cci fuel s = (s', PollPending) -> poll_loop cci fuel (poll_start s) = (s', PollPending).
Proof.
  intros [|fuel] s s' H; cbn [poll_loop] in *; [discriminate|].
  rewrite poll_body_start. destruct (poll_body cci s); [exact H|exact H|discriminate].
Qed.

(* ------------------------------------------------------------------ the relation KJ through a Pending poll *)
Lemma poll_start_KJ (s : vsock) : KJ s (poll_start s).
Proof.
  intros now r0 e0 H0 (Ht & Hn & He) HJ. split.
  - split; [apply (poll_start_ti s); exact Ht|]. split; [exact He|exact He].
  - eapply J_QREL; [exact HJ|]. apply SQ_QREL. apply poll_start_SQ.
Qed.

Lemma send_tx_queue_KJ (s : vsock) : stRk KJ s (send_tx_queue cci s).
Proof.
  pose proof (send_tx_queue_ti cci s) as Ht. pose proof (send_tx_queue_frame cci s) as Hf.
  destruct (send_tx_queue cci s) as [s' u|s' e|] eqn:E; cbn [stRk stR step_frame] in *; auto.
  intros now r0 e0 H0 HB HJ. split; [eapply B_frame; eauto|].
  pose proof (send_tx_queue_J cci now r0 e0 s HB H0 HJ) as H. rewrite E in H. exact H.
Qed.

Lemma maybe_send_fin_KJ (s : vsock) : stRk KJ s (maybe_send_fin s).
Proof.
  apply stk_KQ_KJ. intro now. apply stk_KQ; [apply maybe_send_fin_ti|apply maybe_send_fin_frame|].
  apply maybe_send_fin_QREL.
Qed.

Lemma poll_tail_KJ (s : vsock) : KJ s (poll_tail s).
Proof.
  destruct (poll_tail_fields s) as (_ & _ & _ & _ & _ & _ & Hn & _ & _ & _ & _ & He & _).
  apply SQ_KJ; [apply poll_tail_SQ|apply poll_tail_ti|exact Hn|exact He].
Qed.

Theorem poll_pending_KJ (s s' : vsock) :
  poll cci s = (s', PollPending) -> KJ (poll_start (poll_init s)) s'.
Proof.
  intro H. rewrite poll_unfold in H. apply poll_loop_start in H.
  apply (poll_loop_Rp2 cci KJ KJ_refl KJ_trans) in H.
  - destruct H as (s1 & H1 & H2). eapply KJ_trans; [exact H1|].
    eapply KJ_trans; [apply poll_start_KJ|].
    destruct H2 as [[_ H2]|(sa & sb & b & G1 & G2 & G3 & _ & _ & _ & ->)]; [exact H2|].
    eapply KJ_trans; [exact G1|]. eapply KJ_trans; [exact G3|]. apply poll_tail_KJ.
  - apply poll_start_KJ.
  - intro s0. apply stk_SQ_KJ; [apply maybe_send_syn_ack_ti|apply step_frame_frame0, maybe_send_syn_ack_frame|
      apply maybe_send_syn_ack_SQ].
  - intro s0. apply stk_SQ_KJ; [apply send_ack_ti|apply step_frame_frame0, send_ack_frame|apply send_ack_SQ].
  - intro s0. apply stk_KQ_KJ. intro now. apply process_all_KQ.
  - intros s0 rx1 fb w _. apply SQ_KJ; [apply add_wakes_rx_SQ|apply rx_flush_ti|reflexivity|reflexivity].
  - intro s0. apply stk_KQ_KJ. intro now. apply split_KQ.
  - apply send_tx_queue_KJ.
  - intro s0. pose proof (transition_to_fin_wait_1_frame s0) as (_ & E & N & _).
    apply SQ_KJ; [apply transition_to_fin_wait_1_SQ|apply transition_to_fin_wait_1_ti|exact N|exact E].
  - apply maybe_send_fin_KJ.
  - intro s0. apply stk_SQ_KJ; [apply maybe_send_ack_ti|exact (maybe_send_ack_frame0 s0)|apply maybe_send_ack_SQ].
Qed.

(* what a Pending poll leaves: the ghost invariant with the counter / timer of the state before *)
Theorem poll_pending_J (s : vsock) sc s' :
  ti s -> poll cci (VSockRec.set_sends s sc) = (s', PollPending) ->
  v_env_now s' = v_env_now s /\
  J (v_rto_retransmissions s) (timer_expired (v_t_retransmit s) (v_env_now s)) (v_env_now s) s'.
Proof.
  intros Hti H. apply poll_pending_KJ in H.
  destruct Hti as (T1 & T2 & T3).
  destruct (H (v_env_now s) (v_rto_retransmissions s) (timer_expired (v_t_retransmit s) (v_env_now s)) T2)
    as [(_ & _ & He) HJ].
  - split; [split; [exact T1|split; [exact T2|exact T3]]|]. split; reflexivity.
  - apply JA; [reflexivity|reflexivity|]. unfold texp. cbn. auto.
  - split; [exact He|exact HJ].
Qed.

(* ================================================================== c05_rto_single_ok *)
Theorem c05_rto_single_ok_step : forall cfg (s : vsock) o,
  ti s -> c05_rto_single_ok cfg (fstep_of cci s o) = true.
Proof.
  intros cfg s o Hti.
  destruct o; try (unfold c05_rto_single_ok; rewrite fstep_of_event; reflexivity).
  destruct (poll cci (VSockRec.set_sends s script)) as [s' r] eqn:E.
  rewrite (fstep_of_poll cci s script s' r E). unfold c05_rto_single_ok.
  cbn [fs_event fs_result fs_pre fs_post fs_now].
  destruct r; try reflexivity.
  destruct (poll_pending_J s script s' Hti E) as [He HJ].
  cbn [fp_of_vsock f_rto_retx f_last_sent_seq_nr f_t_retransmit].
  destruct (Z.ltb_spec 0 (v_rto_retransmissions s')) as [Hpos|Hz]; [|reflexivity].
  rewrite data_filter_out, He.
  destruct HJ as [A1 A2 A3|A1 A2|p A1 A2 A3 A4 A5 A6].
  - rewrite A1. cbn [rev map]. apply Z.eqb_eq. exact A2.
  - lia.
  - rewrite A1. cbn [rev app map fpacket_of fq_hdr]. rewrite A2, A3, Z.eqb_refl. cbn [andb].
    rewrite andb_true_r. apply orb_true_iff.
    destruct A6 as [A6|[A6 _]]; [left|right]; apply Z.eqb_eq; exact A6.
Qed.

Theorem c05_rto_single_ok_trace : forall cfg mk c (s0 : vsock) ops,
  vsock_new cci mk c = Some s0 -> forallb (c05_rto_single_ok cfg) (ftrace cci s0 ops) = true.
Proof.
  intros cfg mk c s0 ops H0.
  apply (ftrace_forallb cci ti).
  - intros s o Hp. apply c05_rto_single_ok_step; exact Hp.
  - intros s o Hp. apply ti_vstep; exact Hp.
  - eapply ti_vsock_new; exact H0.
Qed.

End WithCC.

(* ================================================================== c05_rto_exit_ok is FALSE of the model
   (boundary B6 in a form the predicate does not recognise).  Single-segment mode is left when the
   expired MTU probe is popped; the predicate excuses that exit when max_ss was lowered by the poll, but
   on_probe_failed lowers max_ss only down to min_ss, and the peer's own payloads may have raised min_ss
   to max_ss while the probe was outstanding.
   Scenario (constant window, link MTU 1500: min_ss 528, max_ss 1452): write 3000 bytes, poll (segment
   101 of 528 bytes and the probe 102 of 991 bytes go out), ACK of 101, 3 s later the timer fires and the
   probe is retransmitted (counter 1), the peer's ST_DATA of 1452 bytes arrives (min_ss := 1452 = max_ss),
   3 s later the timer fires again: the probe is popped as expired, the counter is reset, max_ss stays
   1452, nothing was acknowledged - and the same poll sends two new segments (102 with 1452 bytes, 103). *)
Definition b6_ops : list vop :=
  [VoWrite (repeat 0 (Z.to_nat 3000)); VoPoll []; VoDeliver (wmsg ST_STATE 1 101 0); VoPoll [];
   VoSetNow 3000000000; VoPoll [];
   VoDeliver (wmsg ST_DATA 1 101 1452);
   VoSetNow 6000000000; VoPoll []].

Lemma rto_exit_ok_b6_refuted :
  exists w cfg ops,
    vconfig_ok cfg = true /\ Forall op_msg_ok ops /\
    forallb (c05_rto_exit_ok cfg) (wtrace w cfg ops) = false /\
    (* the failing step is in the class B6, and outside that class the clause holds on this trace *)
    existsb (c05_rto_exit_b6_class cfg) (wtrace w cfg ops) = true /\
    forallb (fun st => c05_rto_exit_ok cfg st || c05_rto_exit_b6_class cfg st) (wtrace w cfg ops) = true /\
    (* the restated clause holds, the other C05 step clauses hold *)
    forallb (c05_rto_exit_ok2 cfg) (wtrace w cfg ops) = true /\
    forallb (c05_rto_single_ok cfg) (wtrace w cfg ops) = true /\
    (* what the last poll did: counter 1 -> 0, max_ss unchanged, two ST_DATA *)
    match rev (wtrace w cfg ops) with
    | st :: _ => f_rto_retx (fs_pre st) = 1 /\ f_rto_retx (fs_post st) = 0 /\
                 f_max_ss (fs_post st) = f_max_ss (fs_pre st) /\
                 f_snd_una (fs_post st) = f_snd_una (fs_pre st) /\
                 match fs_result st with
                 | FrPoll PollPending pkts _ _ => length (filter fq_is_data pkts) = 2%nat
                 | _ => False
                 end
    | [] => False
    end.
Proof.
  exists 100000, d16_cfg, b6_ops.
  split; [vm_compute; reflexivity|]. split.
  { repeat constructor; cbv [op_msg_ok msg_ok wmsg m_hdr ch_type m_payload]; vm_compute; discriminate. }
  split; [vm_compute; reflexivity|]. split; [vm_compute; reflexivity|].
  split; [vm_compute; reflexivity|]. split; [vm_compute; reflexivity|].
  split; [vm_compute; reflexivity|]. vm_compute. repeat split.
Qed.

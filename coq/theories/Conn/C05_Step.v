(* C05 — the step predicates of Conn/C05_Pred.v / Conn/C0506_Pred2.v as THEOREMS about every step of the
   model (forall state satisfying a proved invariant, forall event) and about every trace from vsock_new.
     c05_rto_single_ok     under ti (an invariant)       c05_rto_single_ok_step / _trace *)
From Utp Require Import Base.Prelude Wire.SeqNr Wire.Header Rtt.Rtte Rtt.Rtte_Proofs Mtu.SegSizes Rx.Rx Tx.Ring
  Tx.Segments Conn.Recovery Conn.Msg Conn.VSockRec Conn.VSock Conn.VSockRun Conn.VObs
  Conn.VSock_Lemmas Conn.VSock_LemmasTx Conn.VSock_LemmasStep Conn.VSock_LemmasTimers
  Conn.VSock_LemmasPipe Conn.C17_StepLemmas Conn.C07_Proofs Conn.C05_Pred Conn.C06_Pred Conn.C0506_Pred2 Conn.C05_Pred3
  Conn.C05_Proofs Conn.C05_Flight Conn.C05_StepLemmas Conn.C05_Segs Conn.C05_Walk Conn.C05_StepZw Conn.C05_StepWin Conn.C05_StepExit
  Conn.C10_Pred Conn.VSock_Inv Conn.C10_Proofs Conn.C05_Refuted.

(* ------------------------------------------------------------------ lists *)
Lemma filter_rev' {A} (p : A -> bool) : forall l, filter p (rev l) = rev (filter p l).
Proof.
  induction l as [|x xs IH]; [reflexivity|]. cbn [rev filter]. rewrite filter_app, IH. cbn [filter].
  destruct (p x); cbn [rev]; [reflexivity|rewrite app_nil_r; reflexivity].
Qed.

Lemma filter_map_comm {A X} (f : A -> X) (p : X -> bool) (q : A -> bool) :
  (forall x, p (f x) = q x) -> forall l, filter p (map f l) = map f (filter q l).
Proof.
  intros H. induction l as [|x xs IH]; [reflexivity|]. cbn [map filter]. rewrite H, IH.
  destruct (q x); reflexivity.
Qed.

Section WithCC.
Context {CC : Type} (cci : cc_iface CC).
Notation vsock := (vsock CC).

Lemma data_filter_out (s' : vsock) :
  filter fq_is_data (map fpacket_of (rev (v_out s'))) = map fpacket_of (rev (dout s')).
Proof.
  rewrite (filter_map_comm fpacket_of fq_is_data is_data); [|intro x; reflexivity].
  rewrite filter_rev'. reflexivity.
Qed.

(* ------------------------------------------------------------------ the relation KJ through a Pending poll *)
Theorem poll_pending_KJ (s s' : vsock) :
  poll cci s = (s', PollPending) -> KJ (poll_start (poll_init s)) s'.
Proof.
  intro H. rewrite poll_unfold in H. apply poll_loop_start in H.
  apply (poll_loop_Rp2 cci KJ KJ_refl KJ_trans) in H.
  - destruct H as (s1 & H1 & H2). eapply KJ_trans; [exact H1|].
    eapply KJ_trans; [apply poll_start_KJ|].
    destruct H2 as [[_ H2]|(sa & sb & b & G1 & G2 & G3 & _ & _ & _ & ->)]; [exact H2|].
    eapply KJ_trans; [exact G1|]. eapply KJ_trans; [exact G3|]. apply poll_tail_KJ.
  - apply poll_start_KJ.
  - apply maybe_send_syn_ack_KJ.
  - apply send_ack_KJ.
  - apply process_all_KJ.
  - intros s0 rx1 fb w _. apply rx_flush_KJ.
  - apply split_KJ.
  - apply send_tx_queue_KJ.
  - apply transition_to_fin_wait_1_KJ.
  - apply maybe_send_fin_KJ.
  - apply maybe_send_ack_KJ.
Qed.

(* what a Pending poll leaves: the ghost invariant with the counter / timer of the state before *)
Theorem poll_pending_J (s : vsock) sc s' :
  ti s -> poll cci (VSockRec.set_sends s sc) = (s', PollPending) ->
  v_env_now s' = v_env_now s /\
  J (v_rto_retransmissions s) (timer_expired (v_t_retransmit s) (v_env_now s)) (v_env_now s) s'.
Proof.
  intros Hti H. apply poll_pending_KJ in H.
  destruct Hti as (T1 & T2 & T3).
  destruct (H (v_env_now s) (v_rto_retransmissions s) (timer_expired (v_t_retransmit s) (v_env_now s)) T2)
    as [(_ & _ & He) HJ].
  - split; [split; [exact T1|split; [exact T2|exact T3]]|]. split; reflexivity.
  - apply JA; [reflexivity|reflexivity|]. unfold texp. cbn. auto.
  - split; [exact He|exact HJ].
Qed.

(* ================================================================== c05_rto_single_ok *)
Theorem c05_rto_single_ok_step : forall cfg (s : vsock) o,
  ti s -> c05_rto_single_ok cfg (fstep_of cci s o) = true.
Proof.
  intros cfg s o Hti.
  destruct o; try (unfold c05_rto_single_ok; rewrite fstep_of_event; reflexivity).
  destruct (poll cci (VSockRec.set_sends s script)) as [s' r] eqn:E.
  rewrite (fstep_of_poll cci s script s' r E). unfold c05_rto_single_ok.
  cbn [fs_event fs_result fs_pre fs_post fs_now].
  destruct r; try reflexivity.
  destruct (poll_pending_J s script s' Hti E) as [He HJ].
  cbn [fp_of_vsock f_rto_retx f_last_sent_seq_nr f_t_retransmit].
  destruct (Z.ltb_spec 0 (v_rto_retransmissions s')) as [Hpos|Hz]; [|reflexivity].
  rewrite data_filter_out, He.
  destruct HJ as [A1 A2 A3|A1 A2|p A1 A2 A3 A4 A5 A6].
  - rewrite A1. cbn [rev map]. apply Z.eqb_eq. exact A2.
  - lia.
  - rewrite A1. cbn [rev app map fpacket_of fq_hdr]. rewrite A2, A3, Z.eqb_refl. cbn [andb].
    rewrite andb_true_r. apply orb_true_iff.
    destruct A6 as [A6|[A6 _]]; [left|right]; apply Z.eqb_eq; exact A6.
Qed.

Theorem c05_rto_single_ok_trace : forall cfg mk c (s0 : vsock) ops,
  vsock_new cci mk c = Some s0 -> forallb (c05_rto_single_ok cfg) (ftrace cci s0 ops) = true.
Proof.
  intros cfg mk c s0 ops H0.
  apply (ftrace_forallb cci ti).
  - intros s o Hp. apply c05_rto_single_ok_step; exact Hp.
  - intros s o Hp. apply ti_vstep; exact Hp.
  - eapply ti_vsock_new; exact H0.
Qed.

(* ================================================================== c05_zero_window_ok
   for the polls that end with the connection still open (post_open): every queued message was processed
   before anything was sent, so the window the ST_DATA went into is the one the poll leaves behind.
   Invariants: ti, sp (every segment holds at least one byte), and the options are those of cfg. *)
Definition optc (cfg : vconfig) (s : vsock) : Prop :=
  o_wait_for_last_ack (v_opts s) = vc_wait_last_ack cfg.

Lemma optc_vstep cfg (s : vsock) o : optc cfg s -> optc cfg (vstep_state cci s o).
Proof. unfold optc. destruct (vstep_keeps cci s o) as (K & _). rewrite K. auto. Qed.

Lemma optc_vsock_new mk c (s : vsock) : vsock_new cci mk c = Some s -> optc c s.
Proof.
  intro H. unfold vsock_new in H.
  destruct (match (if vc_incoming c then None else _) with Some r => _ | None => _ end); [|discriminate].
  inversion H; subst. reflexivity.
Qed.

Lemma phase_recovering_fp (s : vsock) :
  phase_recovering (f_recovery (fp_of_vsock cci s)) = is_recovering (v_recovery s).
Proof. cbn [fp_of_vsock f_recovery]. unfold is_recovering. destruct (rv_phase (v_recovery s)); reflexivity. Qed.

Theorem c05_zero_window_ok_open_step : forall cfg (s : vsock) o,
  ti s -> C05_Segs.sp s -> optc cfg s -> c05_zero_window_ok_open cfg (fstep_of cci s o) = true.
Proof.
  intros cfg s o Hti Hsp Hopt. unfold c05_zero_window_ok_open.
  destruct (post_open cfg (fstep_of cci s o)) eqn:Hopen; [|reflexivity].
  destruct o; try (unfold c05_zero_window_ok; rewrite fstep_of_event; reflexivity).
  destruct (poll cci (VSockRec.set_sends s script)) as [s' r] eqn:E.
  rewrite (fstep_of_poll cci s script s' r E) in *. unfold c05_zero_window_ok, post_open in *.
  cbn [fs_event fs_result fs_pre fs_post fs_now] in *.
  destruct r; try reflexivity.
  destruct (poll_pending_zw cci s script s' Hti Hsp E) as (He & HJ & HW).
  destruct (poll_pframe0 cci _ _ _ E) as (Po & _).
  rewrite phase_recovering_fp. cbn [fp_of_vsock f_last_remote_window f_rto_retx f_state] in *.
  destruct (Z.eqb_spec (v_last_remote_window s') 0) as [Hw|Hw]; [|reflexivity].
  destruct (is_recovering (v_recovery s')) eqn:Hrec; [reflexivity|]. cbn [negb andb].
  rewrite data_filter_out, map_length, rev_length.
  assert (HZ : ZW s').
  { destruct HW as [HW|HW]; [|exact HW]. unfold SC in HW. unfold optc in Hopt.
    rewrite Po in HW. cbn [v_opts VSockRec.set_sends] in HW. rewrite Hopt in HW. rewrite HW in Hopen. discriminate. }
  destruct (Z.eqb_spec (v_rto_retransmissions s') 0) as [Hr|Hr].
  - destruct HZ as [HZ|[HZ|[HZ|HZ]]]; [rewrite HZ; reflexivity|lia| |contradiction].
    unfold RECb in HZ. congruence.
  - destruct HJ as [A1 A2 A3|A1 A2|p A1 A2 A3 A4 A5 A6]; [rewrite A1; reflexivity|contradiction|rewrite A1; reflexivity].
Qed.

Theorem c05_zero_window_ok_open_trace : forall mk c (s0 : vsock) ops,
  0 <= vc_isn c < M16 -> vsock_new cci mk c = Some s0 ->
  forallb (c05_zero_window_ok_open c) (ftrace cci s0 ops) = true.
Proof.
  intros mk c s0 ops Hisn H0.
  apply (ftrace_forallb_live cci (fun s => ti s /\ C05_Segs.sp s /\ optc c s)).
  - intros s o (H1 & H2 & H3). apply c05_zero_window_ok_open_step; assumption.
  - intros s o (H1 & H2 & H3) Hl. split; [apply ti_vstep; exact H1|].
    split; [apply sp_vstep_live; assumption|apply optc_vstep; exact H3].
  - split; [eapply ti_vsock_new; exact H0|]. split; [eapply sp_vsock_new; [exact Hisn|exact H0]|eapply optc_vsock_new; exact H0].
Qed.

(* ================================================================== "no NEW payload into a zero window"
   outside the known class D16, for the polls that end open: with a zero window and outside recovery the
   only ST_DATA of the poll is the one the RTO branch sent (c05_zero_window_strict_or_d16_open) *)
Theorem c05_zero_window_strict_or_d16_open_step : forall cfg (s : vsock) o,
  ti s -> C05_Segs.sp s -> optc cfg s -> c05_zero_window_strict_or_d16_open cfg (fstep_of cci s o) = true.
Proof.
  intros cfg s o Hti Hsp Hopt. unfold c05_zero_window_strict_or_d16_open.
  destruct (post_open cfg (fstep_of cci s o)) eqn:Hopen; [|reflexivity].
  destruct o; try (unfold c05_zero_window_strict; rewrite fstep_of_event; reflexivity).
  destruct (poll cci (VSockRec.set_sends s script)) as [s' r] eqn:E.
  rewrite (fstep_of_poll cci s script s' r E) in *.
  unfold c05_zero_window_strict, c05_d16_class2, post_open in *.
  cbn [fs_event fs_result fs_pre fs_post fs_now] in *.
  destruct r; try reflexivity.
  destruct (poll_pending_zw cci s script s' Hti Hsp E) as (He & HJ & HW).
  destruct (poll_pframe0 cci _ _ _ E) as (Po & _).
  rewrite phase_recovering_fp.
  cbn [fp_of_vsock f_last_remote_window f_rto_retx f_state f_t_retransmit f_last_sent_seq_nr] in *.
  destruct (Z.eqb_spec (v_last_remote_window s') 0) as [Hw|Hw]; [|reflexivity].
  destruct (is_recovering (v_recovery s')) eqn:Hrec; [reflexivity|]. cbn [negb andb].
  destruct (Z.of_nat (length (f_segs (fp_of_vsock cci s))) <=? 1024); [|reflexivity].
  rewrite data_filter_out.
  assert (HZ : ZW s').
  { destruct HW as [HW|HW]; [|exact HW]. unfold SC in HW. unfold optc in Hopt.
    rewrite Po in HW. cbn [v_opts VSockRec.set_sends] in HW. rewrite Hopt in HW. rewrite HW in Hopen. discriminate. }
  destruct HJ as [A1 A2 A3|A1 A2|p A1 A2 A3 A4 A5 A6].
  - rewrite A1. reflexivity.
  - destruct HZ as [HZ|[HZ|[HZ|HZ]]]; [rewrite HZ; reflexivity|lia| |contradiction].
    unfold RECb in HZ. congruence.
  - rewrite A1. cbn [rev app map forallb filter].
    destruct (was_sent_before (fp_of_vsock cci s) (fpacket_of p)); [reflexivity|].
    cbn [andb negb orb fpacket_of fq_hdr]. rewrite He, A3, A2, Z.eqb_refl. cbn [andb].
    apply orb_true_iff. destruct A6 as [A6|[A6 _]]; [left|right]; apply Z.eqb_eq; exact A6.
Qed.

Theorem c05_zero_window_strict_or_d16_open_trace : forall mk c (s0 : vsock) ops,
  0 <= vc_isn c < M16 -> vsock_new cci mk c = Some s0 ->
  forallb (c05_zero_window_strict_or_d16_open c) (ftrace cci s0 ops) = true.
Proof.
  intros mk c s0 ops Hisn H0.
  apply (ftrace_forallb_live cci (fun s => ti s /\ C05_Segs.sp s /\ optc c s)).
  - intros s o (H1 & H2 & H3). apply c05_zero_window_strict_or_d16_open_step; assumption.
  - intros s o (H1 & H2 & H3) Hl. split; [apply ti_vstep; exact H1|].
    split; [apply sp_vstep_live; assumption|apply optc_vstep; exact H3].
  - split; [eapply ti_vsock_new; exact H0|]. split; [eapply sp_vsock_new; [exact Hisn|exact H0]|eapply optc_vsock_new; exact H0].
Qed.

(* ================================================================== the window clause
   c05_window_ok2 (the clause as intended) and c05_window_ok (as written) under the guards c05_win_guard *)
Lemma fflight_fseg : forall (l : list seg) n, fflight (firstn n (map fseg_of l)) = FLp l n.
Proof.
  unfold FLp. induction l as [|g r IH]; intros [|n]; cbn [map firstn fflight flight_sum]; try reflexivity.
  rewrite IH. unfold fseg_of. cbn [fg_delivered fg_size]. reflexivity.
Qed.

Lemma plen_sum_app a b : plen_sum (a ++ b) = plen_sum a + plen_sum b.
Proof. induction a as [|x xs IH]; cbn [app plen_sum]; lia. Qed.

Lemma plen_sum_rev l : plen_sum (rev l) = plen_sum l.
Proof. induction l as [|x xs IH]; [reflexivity|]. cbn [rev plen_sum]. rewrite plen_sum_app, IH. cbn [plen_sum]. lia. Qed.

Lemma plen_sum_data (l : list packet) : plen_sum (map fpacket_of (filter is_data l)) = data_bytes (filter is_data l).
Proof.
  induction l as [|p r IH]; [reflexivity|]. cbn [filter]. destruct (is_data p) eqn:E; [|exact IH].
  cbn [map plen_sum data_bytes]. rewrite IH. unfold is_data in E. destruct (ch_type (p_hdr p)); try discriminate.
  reflexivity.
Qed.

Lemma plen_sum_nonneg l : 0 <= plen_sum (map fpacket_of l).
Proof. induction l as [|p r IH]; cbn [map plen_sum fpacket_of fq_plen]; lia. Qed.

Theorem c05_window_ok2_step : forall cfg (s : vsock) o,
  ti s -> C05_Segs.sp s -> optc cfg s ->
  c05_window_ok2 cfg (fstep_of cci s o) = true /\ c05_window_ok_g cfg (fstep_of cci s o) = true.
Proof.
  intros cfg s o Hti Hsp Hopt.
  destruct o; try (unfold c05_window_ok2, c05_window_ok_g; rewrite fstep_of_event; split; reflexivity).
  destruct (poll cci (VSockRec.set_sends s script)) as [s' r] eqn:E.
  unfold c05_window_ok2, c05_window_ok_g, c05_window_ok.
  rewrite (fstep_of_poll cci s script s' r E). cbn [fs_event fs_result].
  destruct r; try (split; reflexivity).
  destruct (c05_win_guard cfg _) eqn:G; [|split; reflexivity].
  unfold c05_win_guard, post_open in G. cbn [fs_pre fs_post fs_now] in G.
  rewrite phase_recovering_fp in G.
  cbn [fp_of_vsock f_t_retransmit f_rto_retx f_segs f_last_sent_seq_nr f_snd_una f_state] in G.
  repeat (apply andb_true_iff in G; destruct G as [G ?]).
  rename H into Gd, H0 into Gl2, H1 into Gl1, H2 into Glen, H3 into Grec, H4 into Grto, H5 into Gexp.
  apply andb_true_iff in Gd. destruct Gd as [Gd1 Gd2].
  apply negb_true_iff in Gexp, Grec, G. apply Z.eqb_eq in Grto.
  rewrite map_length in Glen.
  destruct (poll_pframe0 cci _ _ _ E) as (Po & Pe & _).
  cbn [v_env_now VSockRec.set_sends] in Pe. rewrite Pe in Gexp.
  assert (Hsp' : C05_Segs.sp s') by (eapply poll_pending_sp; eauto).
  assert (Hu : 0 <= ss_snd_una (v_segs s') < M16) by apply Hsp'.
  destruct (poll_pending_xw cci s script s' (ss_snd_una (v_segs s')) Hti Hsp Gexp ltac:(lia) Hu ltac:(lia) E)
    as (_ & HJ & HW).
  cbn [fs_post]. rewrite phase_recovering_fp.
  cbn [fp_of_vsock f_rto_retx f_segs f_snd_una f_cc_window f_last_remote_window].
  rewrite Grto, Grec. cbn [Z.eqb negb andb].
  replace (Z.of_nat (length (map fseg_of (ss_segs (v_segs s')))) <=? 1024) with true
    by (symmetry; rewrite map_length; apply Z.leb_le; lia).
  rewrite data_filter_out.
  destruct HW as [HW|(k' & Hk & HW)].
  { exfalso. unfold SC in HW. unfold optc in Hopt. rewrite Po in HW. cbn [v_opts VSockRec.set_sends] in HW.
    rewrite Hopt in HW. congruence. }
  destruct HW as [HW|(idxs & c & Hc & H1 & H2 & H3)]; [unfold RECb in HW; congruence|].
  assert (Fi : Forall (fun i => (i < 1024)%nat) idxs).
  { eapply Forall_impl; [|exact H2]. intros i Hi. cbn beta in Hi. unfold C05_StepWin.sgs in Hi. lia. }
  destruct (H3 eq_refl Fi) as (A & B0 & C0).
  unfold seqs_of in H1.
  destruct (rev (dout s')) as [|p1 later] eqn:Erev; [split; reflexivity|].
  destruct idxs as [|i1 r]; [discriminate|]. cbn [map] in H1. injection H1 as Hp1 _.
  destruct C0 as (_ & C2 & C3).
  cbn [map fpacket_of fq_hdr].
  assert (Hi1 : (i1 < 1024)%nat) by (inversion Fi; assumption).
  assert (Ek : seq_sub (ch_seq (p_hdr p1)) (ss_snd_una (v_segs s')) = Z.of_nat i1).
  { rewrite Hp1. apply seq_sub_seq_at_u; [exact Hu|lia]. }
  rewrite Ek, Nat2Z.id, fflight_fseg.
  assert (Hsum : plen_sum (map fpacket_of (p1 :: later)) = dby s').
  { rewrite <- Erev, <- plen_sum_rev, <- map_rev, rev_involutive. unfold dby, dout. apply plen_sum_data. }
  unfold C05_StepWin.Wn, C05_StepWin.sgs in C3.
  split.
  - change (fpacket_of p1 :: map fpacket_of later) with (map fpacket_of (p1 :: later)). rewrite Hsum.
    unfold c05_window_core. apply Z.leb_le. lia.
  - unfold c05_window_core. apply Z.leb_le.
    pose proof (plen_sum_nonneg later). cbn [map plen_sum] in Hsum.
    assert (0 <= fq_plen (fpacket_of p1)) by (cbn [fpacket_of fq_plen]; lia). lia.
Qed.

Theorem c05_window_ok2_trace : forall mk c (s0 : vsock) ops,
  0 <= vc_isn c < M16 -> vsock_new cci mk c = Some s0 ->
  forallb (c05_window_ok2 c) (ftrace cci s0 ops) = true.
Proof.
  intros mk c s0 ops Hisn H0.
  apply (ftrace_forallb_live cci (fun s => ti s /\ C05_Segs.sp s /\ optc c s)).
  - intros s o (H1 & H2 & H3). apply c05_window_ok2_step; assumption.
  - intros s o (H1 & H2 & H3) Hl. split; [apply ti_vstep; exact H1|].
    split; [apply sp_vstep_live; assumption|apply optc_vstep; exact H3].
  - split; [eapply ti_vsock_new; exact H0|]. split; [eapply sp_vsock_new; [exact Hisn|exact H0]|eapply optc_vsock_new; exact H0].
Qed.

Theorem c05_window_ok_g_trace : forall mk c (s0 : vsock) ops,
  0 <= vc_isn c < M16 -> vsock_new cci mk c = Some s0 ->
  forallb (c05_window_ok_g c) (ftrace cci s0 ops) = true.
Proof.
  intros mk c s0 ops Hisn H0.
  apply (ftrace_forallb_live cci (fun s => ti s /\ C05_Segs.sp s /\ optc c s)).
  - intros s o (H1 & H2 & H3). apply c05_window_ok2_step; assumption.
  - intros s o (H1 & H2 & H3) Hl. split; [apply ti_vstep; exact H1|].
    split; [apply sp_vstep_live; assumption|apply optc_vstep; exact H3].
  - split; [eapply ti_vsock_new; exact H0|]. split; [eapply sp_vsock_new; [exact Hisn|exact H0]|eapply optc_vsock_new; exact H0].
Qed.

(* ================================================================== the monitored preconditions, the
   part that is an invariant: c05_monitor_core_ok *)
Lemma fp_core_of (s : vsock) : ti s -> C05_Segs.sp s -> c05_fp_core (fp_of_vsock cci s) = true.
Proof.
  intros (_ & Hr & _) (Hm & (Hp & _)). unfold c05_fp_core. cbn [fp_of_vsock f_segs f_rto_retx f_mss].
  apply andb_true_iff. split; [apply andb_true_iff; split|].
  - apply forallb_forall. intros fg Hfg. apply in_map_iff in Hfg. destruct Hfg as (g & <- & Hg).
    unfold segs_pos in Hp. rewrite Forall_forall in Hp.
    specialize (Hp g Hg). cbn [fseg_of fg_size]. apply Z.leb_le. exact Hp.
  - apply Z.leb_le. exact Hr.
  - apply Z.leb_le. exact Hm.
Qed.

Theorem c05_monitor_core_ok_step : forall cfg (s : vsock) o,
  ti s -> C05_Segs.sp s -> c05_monitor_core_ok cfg (fstep_of cci s o) = true.
Proof.
  intros cfg s o Hti Hsp. unfold c05_monitor_core_ok. rewrite fstep_of_pre, fstep_of_result, fstep_of_post.
  rewrite (fp_core_of s Hti Hsp). cbn [andb].
  pose proof (ti_vstep cci s o Hti) as Hti'.
  pose proof (sp_vstep_live cci s o Hsp) as Hsp'.
  destruct (vstep_out cci s o) as [|r pk w a|r|r|r] eqn:Eo; cbn [fresult_of poll_finished] in *.
  - apply fp_core_of; auto.
  - destruct r; try reflexivity. apply fp_core_of; auto.
  - apply fp_core_of; auto.
  - apply fp_core_of; auto.
  - destruct r; apply fp_core_of; auto.
Qed.

Theorem c05_monitor_core_ok_trace : forall cfg mk c (s0 : vsock) ops,
  0 <= vc_isn c < M16 -> vsock_new cci mk c = Some s0 ->
  forallb (c05_monitor_core_ok cfg) (ftrace cci s0 ops) = true.
Proof.
  intros cfg mk c s0 ops Hisn H0.
  apply (ftrace_forallb_live cci (fun s => ti s /\ C05_Segs.sp s)).
  - intros s o (H1 & H2). apply c05_monitor_core_ok_step; assumption.
  - intros s o (H1 & H2) Hl. split; [apply ti_vstep; exact H1|apply sp_vstep_live; assumption].
  - split; [eapply ti_vsock_new; exact H0|eapply sp_vsock_new; [exact Hisn|exact H0]].
Qed.

(* ================================================================== leaving single-segment mode:
   c05_rto_exit_ok2 *)
Definition optm (cfg : vconfig) (s : vsock) : Prop :=
  o_mtu_probe_max_retx (v_opts s) = vc_mtu_probe_max_retx cfg.

Lemma optm_vstep cfg (s : vsock) o : optm cfg s -> optm cfg (vstep_state cci s o).
Proof. unfold optm. destruct (vstep_keeps cci s o) as (K & _). rewrite K. auto. Qed.

Lemma optm_vsock_new mk c (s : vsock) : vsock_new cci mk c = Some s -> optm c s.
Proof.
  intro H. unfold vsock_new in H.
  destruct (match (if vc_incoming c then None else _) with Some r => _ | None => _ end); [|discriminate].
  inversion H; subst. reflexivity.
Qed.

Lemma count_delivered_fseg (l : list seg) : count_delivered (map fseg_of l) = cds l.
Proof. induction l as [|g r IH]; [reflexivity|]. cbn [map count_delivered cds fseg_of fg_delivered]. rewrite IH. reflexivity. Qed.

Theorem c05_rto_exit_ok2_step : forall cfg (s : vsock) o,
  ti s -> C05_Segs.sp s -> optm cfg s -> c05_rto_exit_ok2 cfg (fstep_of cci s o) = true.
Proof.
  intros cfg s o Hti Hsp Hopt.
  destruct o; try (unfold c05_rto_exit_ok2; rewrite fstep_of_event; reflexivity).
  destruct (poll cci (VSockRec.set_sends s script)) as [s' r] eqn:E.
  unfold c05_rto_exit_ok2. rewrite (fstep_of_poll cci s script s' r E).
  cbn [fs_event fs_result fs_pre fs_post fs_now].
  destruct r; try reflexivity.
  cbn [fp_of_vsock f_rto_retx f_seg_removed f_segs].
  destruct (Z.ltb_spec 0 (v_rto_retransmissions s)) as [Hr|Hr]; [|reflexivity].
  destruct (Z.eqb_spec (v_rto_retransmissions s') 0) as [Hz|Hz]; [|reflexivity]. cbn [andb].
  destruct (poll_pframe0 cci _ _ _ E) as (_ & Pe & _). cbn [v_env_now VSockRec.set_sends] in Pe.
  destruct (poll_pending_exit cci s script s' Hti Hsp Hr E) as [X|[X|[[X1 X2]|X]]]; [lia| | |].
  - apply orb_true_iff. left. apply orb_true_iff. left. apply Z.ltb_lt. exact X.
  - apply orb_true_iff. left. apply orb_true_iff. right. apply Z.ltb_lt.
    rewrite map_length, firstn_map, !count_delivered_fseg. exact X2.
  - apply orb_true_iff. right. destruct X as (Xe & init & g & Xl & Xp & Xd & Xm).
    unfold probe_expiry_due. cbn [fp_of_vsock f_t_retransmit f_segs]. rewrite Pe, Xe. cbn [andb].
    unfold C05_StepExit.sgs in Xl. rewrite Xl. unfold last_fseg. rewrite map_app, rev_app_distr. cbn [map rev app].
    cbn [fseg_of fg_probe fg_delivered fg_retx]. rewrite Xp, Xd. cbn [andb negb].
    apply Z.leb_le. unfold optm in Hopt. rewrite <- Hopt. exact Xm.
Qed.

Theorem c05_rto_exit_ok2_trace : forall mk c (s0 : vsock) ops,
  0 <= vc_isn c < M16 -> vsock_new cci mk c = Some s0 ->
  forallb (c05_rto_exit_ok2 c) (ftrace cci s0 ops) = true.
Proof.
  intros mk c s0 ops Hisn H0.
  apply (ftrace_forallb_live cci (fun s => ti s /\ C05_Segs.sp s /\ optm c s)).
  - intros s o (H1 & H2 & H3). apply c05_rto_exit_ok2_step; assumption.
  - intros s o (H1 & H2 & H3) Hl. split; [apply ti_vstep; exact H1|].
    split; [apply sp_vstep_live; assumption|apply optm_vstep; exact H3].
  - split; [eapply ti_vsock_new; exact H0|]. split; [eapply sp_vsock_new; [exact Hisn|exact H0]|eapply optm_vsock_new; exact H0].
Qed.

End WithCC.

(* ================================================================== c05_rto_exit_ok is FALSE of the model
   (boundary B6 in a form the predicate does not recognise).  Single-segment mode is left when the
   expired MTU probe is popped; the predicate excuses that exit when max_ss was lowered by the poll, but
   on_probe_failed lowers max_ss only down to min_ss, and the peer's own payloads may have raised min_ss
   to max_ss while the probe was outstanding.
   Scenario (constant window, link MTU 1500: min_ss 528, max_ss 1452): write 3000 bytes, poll (segment
   101 of 528 bytes and the probe 102 of 991 bytes go out), ACK of 101, 3 s later the timer fires and the
   probe is retransmitted (counter 1), the peer's ST_DATA of 1452 bytes arrives (min_ss := 1452 = max_ss),
   3 s later the timer fires again: the probe is popped as expired, the counter is reset, max_ss stays
   1452, nothing was acknowledged - and the same poll sends two new segments (102 with 1452 bytes, 103). *)
Definition b6_ops : list vop :=
  [VoWrite (repeat 0 (Z.to_nat 3000)); VoPoll []; VoDeliver (wmsg ST_STATE 1 101 0); VoPoll [];
   VoSetNow 3000000000; VoPoll [];
   VoDeliver (wmsg ST_DATA 1 101 1452);
   VoSetNow 6000000000; VoPoll []].

Lemma rto_exit_ok_b6_refuted :
  exists w cfg ops,
    vconfig_ok cfg = true /\ Forall op_msg_ok ops /\
    forallb (c05_rto_exit_ok cfg) (wtrace w cfg ops) = false /\
    (* the failing step is in the class B6, and outside that class the clause holds on this trace *)
    existsb (c05_rto_exit_b6_class cfg) (wtrace w cfg ops) = true /\
    forallb (fun st => c05_rto_exit_ok cfg st || c05_rto_exit_b6_class cfg st) (wtrace w cfg ops) = true /\
    (* the restated clause holds, the other C05 step clauses hold *)
    forallb (c05_rto_exit_ok2 cfg) (wtrace w cfg ops) = true /\
    forallb (c05_rto_single_ok cfg) (wtrace w cfg ops) = true /\
    (* what the last poll did: counter 1 -> 0, max_ss unchanged, two ST_DATA *)
    match rev (wtrace w cfg ops) with
    | st :: _ => f_rto_retx (fs_pre st) = 1 /\ f_rto_retx (fs_post st) = 0 /\
                 f_max_ss (fs_post st) = f_max_ss (fs_pre st) /\
                 f_snd_una (fs_post st) = f_snd_una (fs_pre st) /\
                 match fs_result st with
                 | FrPoll PollPending pkts _ _ => length (filter fq_is_data pkts) = 2%nat
                 | _ => False
                 end
    | [] => False
    end.
Proof.
  exists 100000, d16_cfg, b6_ops.
  split; [vm_compute; reflexivity|]. split.
  { repeat constructor; cbv [op_msg_ok msg_ok wmsg m_hdr ch_type m_payload]; vm_compute; discriminate. }
  split; [vm_compute; reflexivity|]. split; [vm_compute; reflexivity|].
  split; [vm_compute; reflexivity|]. split; [vm_compute; reflexivity|].
  split; [vm_compute; reflexivity|]. vm_compute. repeat split.
Qed.

(* ================================================================== c05_zero_window_ok without the guard
   post_open is FALSE of the model: a poll whose receive loop stops early on a closed connection (here
   LastAck with wait_for_last_ack = false) may send before it has processed every queued message; the
   restart after an EMSGSIZE on the MTU probe runs the receive loop again, and the window the poll
   leaves behind is not the one its ST_DATA went into.
   Scenario: 3000 bytes are written and segmented (528 bytes, probe of 991) but the transport is blocked;
   the peer's FIN and an old ST_DATA advertising a ZERO window are queued, the path limit is set to 600;
   the next poll takes the FIN (LastAck: closed), sends segment 101 (528 bytes), gets EMSGSIZE on the
   probe, restarts, processes the second message (window := 0), and ends Pending on a blocked ACK. *)
Definition closed_cfg : vconfig :=
  {| vc_incoming := false; vc_ipv4 := true; vc_link_mtu := 1500; vc_rx_buf := 1048576;
     vc_tx_init := 32768; vc_tx_max := 1048576; vc_nagle := false; vc_max_retx := 5;
     vc_inactivity := 10000000000; vc_wait_last_ack := false; vc_mtu_probe_max_retx := 1;
     vc_isn := 100; vc_remote_seq := 1; vc_remote_conn_id := 7; vc_remote_wnd := 1048576;
     vc_remote_ts := 5; vc_syn_sent := 0; vc_now0 := 1000000 |}.

Definition zero_wnd_data : msg :=
  {| m_hdr := {| ch_type := ST_DATA; ch_conn_id := 0; ch_ts := 10; ch_ts_diff := 0; ch_wnd := 0;
                 ch_seq := 1; ch_ack := 100; ch_sack := None; ch_close_reason := None |};
     m_payload := [0] |}.

Definition closed_ops : list vop :=
  [VoWrite (repeat 0 (Z.to_nat 3000)); VoPoll [TPending];
   VoDeliver (wmsg ST_FIN 1 100 0); VoDeliver zero_wnd_data; VoSetLimit (Some 600);
   VoPoll [TSent; TSent; TPending]].

Lemma zero_window_ok_closed_refuted :
  exists w cfg ops,
    vconfig_ok cfg = true /\ Forall op_msg_ok ops /\
    forallb (c05_zero_window_ok cfg) (wtrace w cfg ops) = false /\
    (* the failing poll ends with the connection closed; the guarded clause holds *)
    forallb (c05_zero_window_ok_open cfg) (wtrace w cfg ops) = true /\
    forallb (fun st => c05_zero_window_ok cfg st || negb (post_open cfg st)) (wtrace w cfg ops) = true /\
    match rev (wtrace w cfg ops) with
    | st :: _ => f_last_remote_window (fs_post st) = 0 /\ f_rto_retx (fs_post st) = 0 /\
                 f_state (fs_post st) = LastAck 101 1 /\
                 match fs_result st with
                 | FrPoll PollPending pkts _ _ =>
                     map (fun q => (ch_seq (fq_hdr q), fq_plen q)) (filter fq_is_data pkts) = [(101, 528)]
                 | _ => False
                 end
    | [] => False
    end.
Proof.
  exists 100000, closed_cfg, closed_ops.
  split; [vm_compute; reflexivity|]. split.
  { repeat constructor; cbv [op_msg_ok msg_ok wmsg zero_wnd_data m_hdr ch_type m_payload]; vm_compute; try discriminate; reflexivity. }
  split; [vm_compute; reflexivity|]. split; [vm_compute; reflexivity|].
  split; [vm_compute; reflexivity|]. vm_compute. repeat split.
Qed.

(* ================================================================== the guards are met by reachable steps *)
(* the window clause: the first poll after a write sends two segments under the guard *)
Lemma win_guard_nonvacuous :
  exists w cfg ops,
    vconfig_ok cfg = true /\ Forall op_msg_ok ops /\
    existsb (fun st => c05_win_guard cfg st &&
                       match fs_result st with
                       | FrPoll PollPending pkts _ _ => (2 <=? Z.of_nat (length (filter fq_is_data pkts)))
                       | _ => false
                       end) (wtrace w cfg ops) = true /\
    forallb (c05_window_ok2 cfg) (wtrace w cfg ops) = true /\
    forallb (c05_window_ok_g cfg) (wtrace w cfg ops) = true.
Proof.
  exists 100000, d16_cfg, [VoWrite (repeat 0 (Z.to_nat 3000)); VoPoll []].
  split; [vm_compute; reflexivity|]. split; [repeat constructor|].
  split; [vm_compute; reflexivity|]. split; vm_compute; reflexivity.
Qed.

(* the zero-window clauses: the D16 scenario has polls with a zero window that end open; the RTO poll
   is in the class D16 (c05_d16_class2), the others send nothing *)
Lemma zero_window_open_nonvacuous :
  exists w cfg ops,
    vconfig_ok cfg = true /\ Forall op_msg_ok ops /\
    existsb (fun st => post_open cfg st && (f_last_remote_window (fs_post st) =? 0) &&
                       match fs_result st with FrPoll PollPending _ _ _ => true | _ => false end)
            (wtrace w cfg ops) = true /\
    existsb (c05_d16_class2 cfg) (wtrace w cfg ops) = true /\
    forallb (c05_zero_window_ok_open cfg) (wtrace w cfg ops) = true /\
    forallb (c05_zero_window_strict_or_d16_open cfg) (wtrace w cfg ops) = true.
Proof.
  exists 1056, d16_cfg, d16_ops.
  split; [vm_compute; reflexivity|]. split; [repeat constructor|].
  split; [vm_compute; reflexivity|]. split; [vm_compute; reflexivity|]. split; vm_compute; reflexivity.
Qed.

(* single-segment mode: the poll in which the timer fires emits exactly one ST_DATA and the counter grows *)
Lemma rto_single_nonvacuous :
  exists w cfg ops,
    vconfig_ok cfg = true /\ Forall op_msg_ok ops /\
    existsb (fun st => (0 <? f_rto_retx (fs_post st)) &&
                       match fs_result st with
                       | FrPoll PollPending pkts _ _ => Z.of_nat (length (filter fq_is_data pkts)) =? 1
                       | _ => false
                       end) (wtrace w cfg ops) = true /\
    forallb (c05_rto_single_ok cfg) (wtrace w cfg ops) = true.
Proof.
  exists 1056, d16_cfg, d16_ops.
  split; [vm_compute; reflexivity|]. split; [repeat constructor|]. split; vm_compute; reflexivity.
Qed.

(* leaving single-segment mode by an ACK: the timer fires (counter 1), the ACK of the retransmitted segment
   arrives, the next poll resets the counter - the cumulative-progress disjunct of c05_rto_exit_ok2 *)
Definition exit_ops : list vop :=
  [VoWrite (repeat 0 (Z.to_nat 400)); VoPoll []; VoSetNow 3000000000; VoPoll [];
   VoDeliver (wmsg ST_STATE 1 101 0); VoPoll []].

Lemma rto_exit_nonvacuous :
  exists w cfg ops,
    vconfig_ok cfg = true /\ Forall op_msg_ok ops /\
    existsb (fun st => (0 <? f_rto_retx (fs_pre st)) && (f_rto_retx (fs_post st) =? 0) &&
                       (f_seg_removed (fs_pre st) <? f_seg_removed (fs_post st)) &&
                       match fs_result st with FrPoll PollPending _ _ _ => true | _ => false end)
            (wtrace w cfg ops) = true /\
    forallb (c05_rto_exit_ok2 cfg) (wtrace w cfg ops) = true /\
    forallb (c05_rto_exit_ok cfg) (wtrace w cfg ops) = true.
Proof.
  exists 100000, d16_cfg, exit_ops.
  split; [vm_compute; reflexivity|]. split; [repeat constructor|].
  split; [vm_compute; reflexivity|]. split; vm_compute; reflexivity.
Qed.

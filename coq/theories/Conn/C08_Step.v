(* C08 at connection level — the step predicate c08_deadline_ok of Conn/C14C08_Pred.v as a THEOREM
   about every step of the model and every trace, and what the armed deadline is good for: a poll
   that starts at or after the deadline, with nothing from the peer in the inbox and a transport
   that does not block, does not return Pending (the task ends). *)
From Utp Require Import Base.Prelude Wire.SeqNr Wire.Header Rtt.Rtte Mtu.SegSizes Rx.Rx Tx.Ring Tx.Segments
  Conn.Recovery Conn.Msg Conn.VSockRec Conn.VSock Conn.VSockRun Conn.VObs Conn.C10_Pred Conn.C05_Pred
  Conn.C14C08_Pred Conn.C08_Pred2 Conn.VSock_Lemmas Conn.VSock_LemmasStep Conn.VSock_LemmasPipe
  Conn.C17_StepLemmas Conn.C17_Step Conn.VSock_Inv Conn.C10_Proofs.

Lemma opt_min_le_r : forall a b x, b = Some x -> exists y, opt_min a b = Some y /\ y <= x.
Proof. intros a b x ->. destruct a as [z|]; cbn [opt_min]; eexists; split; try reflexivity; lia. Qed.

Lemma opt_min_le_l : forall a b x, a = Some x -> exists y, opt_min a b = Some y /\ y <= x.
Proof. intros a b x ->. destruct b as [z|]; cbn [opt_min]; eexists; split; try reflexivity; lia. Qed.

Lemma timer_arm_keep_le : forall t now d, exists e, timer_arm t now d false = Some e /\ e <= now + d.
Proof. intros t now d. destruct t as [e|]; cbn [timer_arm]; eexists; split; try reflexivity; lia. Qed.

Section WithCC.
Context {CC : Type} (cci : cc_iface CC).
Notation vsock := (vsock CC).

(* ------------------------------------------------------------------ the timer tail of a poll that
   leaves our FIN out: the final-chance / inactivity deadline is armed, at most one second away,
   and the sleep asked for ends no later *)
Lemma tail_deadline : forall (sb : vsock),
  v_transport_pending sb = false -> is_local_fin_or_later (v_state sb) = true ->
  exists t d,
    v_t_inactivity (poll_tail sb) = Some t /\ t <= v_now sb + SHUTDOWN_FINAL_CHANCE_DELAY /\
    v_arm_in (poll_tail sb) = Some d /\ v_now sb + d <= Z.max t (v_now sb) /\ 0 <= d /\
    (forall t0, v_t_inactivity sb = Some t0 -> t <= t0).
Proof.
  intros sb Tp Hf. unfold poll_tail. rewrite Hf.
  destruct (timer_arm_keep_le (v_t_inactivity sb) (v_now sb) SHUTDOWN_FINAL_CHANCE_DELAY) as (t & Et & Ht).
  assert (Hmon : forall t0, v_t_inactivity sb = Some t0 -> t <= t0).
  { intros t0 E0. rewrite E0 in Et. cbn [timer_arm] in Et. injection Et as <-. lia. }
  set (s1 := set_t_inactivity sb (timer_arm (v_t_inactivity sb) (v_now sb) SHUTDOWN_FINAL_CHANCE_DELAY false)).
  assert (K : v_transport_pending s1 = false /\ v_t_inactivity s1 = Some t /\ v_now s1 = v_now sb).
  { subst s1. split; [exact Tp|]. split; [exact Et|exact eq_refl]. }
  clearbody s1. destruct K as (T1 & I1 & N1).
  unfold next_timer_to_poll. rewrite T1.
  destruct (opt_min_le_l (v_t_inactivity s1) (opt_min (v_t_recovery_pipe s1) (v_t_syn_ack_resend s1)) t I1)
    as (y1 & E1 & L1).
  destruct (opt_min_le_r (v_t_retransmit s1) _ y1 E1) as (y2 & E2 & L2).
  destruct (opt_min_le_r (v_t_ack_delay s1) _ y2 E2) as (y3 & E3 & L3).
  rewrite E3. unfold arm_in, add_wakes.
  change (v_now (set_t_recovery_pipe s1 None)) with (v_now s1). rewrite N1.
  destruct (Z.leb_spec (sat_sub y3 (v_now sb)) 0) as [Hz|Hp].
  - exists t, 0. split; [exact I1|]. split; [exact Ht|]. split; [exact eq_refl|].
    split; [lia|]. split; [lia|exact Hmon].
  - exists t, (sat_sub y3 (v_now sb)). split; [exact I1|]. split; [exact Ht|]. split; [exact eq_refl|].
    unfold sat_sub in *. split; [lia|]. split; [lia|exact Hmon].
Qed.

(* ================================================================== c08_deadline_ok *)
Theorem c08_deadline_ok_step : forall cfg (s : vsock) o, c08_deadline_ok cfg (fstep_of cci s o) = true.
Proof.
  intros cfg s o.
  destruct o; try (unfold c08_deadline_ok; rewrite fstep_of_event; reflexivity).
  destruct (poll cci (VSockRec.set_sends s script)) as [s' r] eqn:E.
  rewrite (fstep_of_poll cci s script s' r E). unfold c08_deadline_ok.
  cbn [fs_event fs_result fs_post fs_now]. destruct r; try reflexivity.
  cbn [fp_of_vsock f_state f_transport_pending f_t_inactivity].
  destruct (is_local_fin_or_later (v_state s') && negb (v_transport_pending s')) eqn:G; [|reflexivity].
  apply andb_true_iff in G. destruct G as [G1 G2]. apply negb_true_iff in G2.
  apply poll_pending_inv in E; [|exact G2].
  destruct E as (sa & sb & b & _ & Ea & Na & _ & _ & Em & Tb & ->).
  pose proof (maybe_send_ack_frame0 sa) as F0. rewrite Em in F0. destruct F0 as (_ & F2 & F3 & _).
  destruct (poll_tail_fields sb) as (_ & _ & _ & Hst & _ & _ & _ & _ & _ & _ & _ & Hen & _).
  rewrite Hst in G1. rewrite Hen.
  assert (Hnow : v_now sb = v_env_now sb) by congruence.
  destruct (tail_deadline sb Tb G1) as (t & d & E1 & L1 & E2 & L2 & _).
  rewrite E1, E2. rewrite <- Hnow. unfold SHUTDOWN_FINAL_CHANCE_DELAY in L1.
  apply andb_true_intro. split; apply Z.leb_le; lia.
Qed.

Theorem c08_deadline_ok_trace : forall cfg ops (s : vsock),
  forallb (c08_deadline_ok cfg) (ftrace cci s ops) = true.
Proof.
  intros cfg ops s. apply (ftrace_forallb cci (fun _ => True)); auto.
  intros s0 o _. apply c08_deadline_ok_step.
Qed.

(* ================================================================== the deadline fires
   A poll that starts at or after the inactivity / final-chance deadline, with nothing from the peer
   in the inbox (and the inbox open), handed a transport that never answers Pending in this poll,
   does not return Pending: it ends the task (Ready with RemoteInactiveForTooLong, or with an
   earlier error of the same poll). *)
Definition nopend (o : send_outcome) : Prop := o <> TPending.

Lemma script_nopending_Forall : forall sc, script_nopending sc = true -> Forall nopend sc.
Proof.
  intros sc H. apply Forall_forall. intros o Ho. unfold script_nopending in H.
  rewrite forallb_forall in H. specialize (H o Ho). unfold nopend. intro E. subst o. discriminate.
Qed.

Definition Qd (t : Z) (s : vsock) : Prop :=
  v_t_inactivity s = Some t /\ t <= v_now s /\ v_inbox s = [] /\ v_inbox_closed s = false /\
  v_transport_pending s = false /\ v_restart s = false /\ Forall nopend (v_sends s).

Lemma Qd_same : forall t (a b : vsock), Qd t a ->
  v_t_inactivity b = v_t_inactivity a -> v_now b = v_now a -> v_inbox b = v_inbox a ->
  v_inbox_closed b = v_inbox_closed a -> v_transport_pending b = v_transport_pending a ->
  v_restart b = v_restart a -> v_sends b = v_sends a -> Qd t b.
Proof.
  unfold Qd. intros t a b (A1 & A2 & A3 & A4 & A5 & A6 & A7) E1 E2 E3 E4 E5 E6 E7.
  rewrite E1, E2, E3, E4, E5, E6, E7. tauto.
Qed.

Lemma next_send_Qd : forall (s : vsock) n s1 o,
  Forall nopend (v_sends s) -> next_send s n = (s1, o) ->
  o <> TPending /\ Forall nopend (v_sends s1) /\
  v_t_inactivity s1 = v_t_inactivity s /\ v_now s1 = v_now s /\ v_inbox s1 = v_inbox s /\
  v_inbox_closed s1 = v_inbox_closed s /\ v_transport_pending s1 = v_transport_pending s /\
  v_restart s1 = v_restart s.
Proof.
  intros s n s1 o Hf. unfold next_send. destruct (v_sends s) as [|o0 r] eqn:Es.
  - destruct (v_emsg_limit s) as [m|]; [destruct (m <? n)|]; intro H; injection H as <- <-;
      (split; [discriminate|]); rewrite Es; (split; [constructor|]); repeat split.
  - inversion Hf as [|? ? Ho Hr]; subst. unfold nopend in Ho.
    destruct o0; try contradiction;
      [destruct (v_emsg_limit s) as [m|]; [destruct (m <? n)|]| |];
      intro H; injection H as <- <-; (split; [discriminate|]); (split; [exact Hr|]); repeat split.
Qed.

Definition stQ (t : Z) {A} (m : step A) : Prop := stU (Qd t) m.

Lemma send_control_packet_Qd : forall t (s : vsock) h, Qd t s -> stU (Qd t) (send_control_packet s h).
Proof.
  intros t s h HQ. pose proof HQ as (A1 & A2 & A3 & A4 & A5 & A6 & A7). unfold send_control_packet. rewrite A5.
  destruct (next_send s _) as [s1 o] eqn:E.
  destruct (next_send_Qd _ _ _ _ A7 E) as (N0 & N1 & N2 & N3 & N4 & N5 & N6 & N7).
  assert (HQ1 : Qd t s1) by (unfold Qd; rewrite N2, N3, N4, N5, N6, N7; tauto).
  destruct o; cbn [stU]; try exact I; [|contradiction].
  unfold on_packet_sent, emit. eapply Qd_same; [exact HQ1|exact eq_refl ..].
Qed.

Lemma send_ack_Qd : forall t (s : vsock), Qd t s -> stU (Qd t) (send_ack s).
Proof. intros t s H. unfold send_ack. apply send_control_packet_Qd. exact H. Qed.

Lemma maybe_send_syn_ack_Qd : forall t (s : vsock), Qd t s -> stU (Qd t) (maybe_send_syn_ack s).
Proof.
  intros t s HQ. unfold maybe_send_syn_ack.
  assert (G : forall c, stU (Qd t)
     (if c =? o_max_retx (v_opts s) then SErr s ErrMaxSynAckRetransmissionsReached
      else sbind (send_ack s) (fun s1 sent =>
        if sent then SOk (set_t_syn_ack_resend (set_state s1 (SynAckSent (c + 1)))
               (timer_arm (v_t_syn_ack_resend s1) (v_now s1) SYNACK_RESEND_INTERNAL true)) tt
        else SOk s1 tt))).
  { intros c. destruct (_ =? _); [exact I|].
    pose proof (send_ack_Qd t s HQ) as Hs.
    destruct (send_ack s) as [s1 sent|s1 e|]; cbn [sbind stU] in *; try exact I.
    destruct sent; cbn [stU]; [|exact Hs]. eapply Qd_same; [exact Hs|exact eq_refl ..]. }
  destruct (v_state s); try (cbn [stU]; eapply Qd_same; [exact HQ|exact eq_refl ..]).
  - apply G.
  - destruct (timer_expired _ _); [apply G|exact HQ].
Qed.

Lemma process_all_Qd : forall t (s : vsock), Qd t s -> stU (Qd t) (process_all_incoming_messages cci s).
Proof.
  intros t s HQ. pose proof HQ as (A1 & A2 & A3 & A4 & A5 & A6 & A7).
  rewrite process_all_eq. rewrite A3. cbn [app recv_loop]. rewrite A3, A4. cbn [sbind].
  unfold pa_tail.
  cbn [on_ack_result_default ar_acked_segments ar_newly_sacked_segments Z.ltb Z.compare orb sbind].
  assert (HQ1 : Qd t (set_inbox_waker s true)) by (eapply Qd_same; [exact HQ|exact eq_refl ..]).
  destruct (rv_phase (v_recovery (set_inbox_waker s true))); cbn [stU]; try exact HQ1.
  destruct (calc_pipe _ _ _ _ _) as [[[sg pp] rcl]|]; [|exact I].
  cbn [stU]. unfold set_recovering. eapply Qd_same; [exact HQ1|exact eq_refl ..].
Qed.

(* neither Pending nor a restart *)
Definition ends (r : body_res (CC := CC)) : Prop :=
  match r with BrReturn _ PollPending => False | BrRestart _ => False | _ => True end.

Lemma pend_ends : forall t X (m : step X) k,
  stU (Qd t) m -> (forall s1 a, Qd t s1 -> ends (k s1 a)) -> ends (pend m k).
Proof.
  intros t X m k Hm Hk. unfold pend, bail. destruct m as [s1 a|s1 e|]; cbn [stU] in Hm.
  - pose proof Hm as (_ & _ & _ & _ & A5 & A6 & _). rewrite A6, A5. apply Hk. exact Hm.
  - unfold die. exact I.
  - exact I.
Qed.

Theorem poll_body_deadline : forall t (s0 : vsock),
  v_t_inactivity s0 = Some t -> t <= v_env_now s0 -> v_inbox s0 = [] -> v_inbox_closed s0 = false ->
  Forall nopend (v_sends s0) -> ends (poll_body cci s0).
Proof.
  intros t s0 H1 H2 H3 H4 H5. unfold poll_body. fold (poll_start s0).
  assert (HQ : Qd t (poll_start s0)).
  { unfold Qd. repeat split; try assumption; exact eq_refl. }
  generalize dependent (poll_start s0). clear s0 H1 H2 H3 H4 H5. intros s0 HQ.
  apply (pend_ends t); [apply maybe_send_syn_ack_Qd; exact HQ|]. intros s1 _ HQ1.
  apply (pend_ends t); [destruct (immediate_ack_to_transmit s1); [apply send_ack_Qd|]; exact HQ1|].
  intros s2 _ HQ2.
  apply (pend_ends t); [apply process_all_Qd; exact HQ2|]. intros s3 _ HQ3.
  destruct (rx_flush (v_rx s3)) as [[rx1 fr] w]. destruct fr as [fb|]; [|exact I].
  assert (HQ4 : Qd t (add_wakes (set_rx s3 rx1) (rx_wakes w))).
  { unfold add_wakes. eapply Qd_same; [exact HQ3|exact eq_refl ..]. }
  set (s4 := add_wakes (set_rx s3 rx1) (rx_wakes w)) in *. clearbody s4.
  destruct HQ4 as (B1 & B2 & _). unfold timer_expired. rewrite B1.
  destruct (Z.leb_spec t (v_now s4)); [unfold die; exact I|lia].
Qed.

Lemma poll_loop_ends : forall fuel (s s' : vsock) r,
  ends (poll_body cci s) -> poll_loop cci (S fuel) s = (s', r) -> r <> PollPending.
Proof.
  intros fuel s s' r He H. cbn [poll_loop] in H.
  destruct (poll_body cci s) as [s1 r1|s1|]; cbn [ends] in He.
  - injection H as <- <-. destruct r1; try discriminate. contradiction.
  - contradiction.
  - injection H as <- <-. discriminate.
Qed.

Theorem deadline_fires : forall (s : vsock) sc t s' r,
  v_t_inactivity s = Some t -> t <= v_env_now s -> v_inbox s = [] -> v_inbox_closed s = false ->
  script_nopending sc = true ->
  poll cci (VSockRec.set_sends s sc) = (s', r) -> r <> PollPending.
Proof.
  intros s sc t s' r H1 H2 H3 H4 H5 E. rewrite poll_unfold in E.
  change 64%nat with (S 63) in E. eapply poll_loop_ends; [|exact E].
  apply (poll_body_deadline t); try assumption. apply script_nopending_Forall. exact H5.
Qed.

(* ================================================================== between polls *)
(* a poll that returns Pending with a writable transport has drained the inbox, and the
   dispatcher's channel is still open *)
Theorem poll_pending_ibe : forall (s s' : vsock),
  poll cci s = (s', PollPending) -> v_transport_pending s' = false ->
  v_inbox s' = [] /\ v_inbox_closed s' = false.
Proof.
  intros s s' E T. rewrite poll_unfold in E.
  pose proof (poll_loop_ind cci (fun _ => True)
    (fun s' r => r = PollPending -> v_transport_pending s' = false -> IBE s')) as H.
  specialize (H ltac:(intros; discriminate)).
  assert (Hb : forall t : vsock, True -> match poll_body cci t with
     | BrReturn s'0 r => r = PollPending -> v_transport_pending s'0 = false -> IBE s'0
     | BrRestart _ => True | BrPanic => True end).
  { intros t _. rewrite poll_body_parts. unfold body_front.
    apply (body_head_walk cci (fun r => match r with
       | BrReturn s'0 r => r = PollPending -> v_transport_pending s'0 = false -> IBE s'0
       | _ => True end)).
    - intros r He. destruct r as [s1 [| |e|]|s1|]; cbn [early] in He; auto; try contradiction;
        try (intros; discriminate). destruct He as [_ He]. intros _ X. congruence.
    - intros s2 s3 _ _ E3 _ _ T3. pose proof (process_all_incoming_messages_post cci _ _ _ E3) as D.
      pose proof (body_mid_back_G0 cci s3 s3 (G_refl s3)) as B.
      destruct (body_mid cci body_back s3) as [s1 r|s1|]; auto.
      intros -> T1. cbn [bG0] in B. destruct B as [B1 B2]. specialize (B2 T1).
      destruct D as [D|[D|D]]; [|congruence|].
      + pose proof (closed_mono _ _ B1 D) as Cm. unfold not_closed in B2. congruence.
      + destruct D as [D1 D2]. destruct B1 as (_ & _ & G3 & G4 & _).
        split; [apply G3; exact D1|congruence]. }
  specialize (H Hb 64%nat (poll_init s) I). rewrite E in H. apply H; auto.
Qed.

(* our FIN is out, the transport is writable, the poll returned Pending: the deadline is armed at most
   one second ahead, the sleep ends no later, and if the peer stays silent the first poll at or after
   the deadline with a transport that does not block ends the task *)
Theorem silence_ends : forall (s : vsock) sc s1,
  poll cci (VSockRec.set_sends s sc) = (s1, PollPending) ->
  v_transport_pending s1 = false -> is_local_fin_or_later (v_state s1) = true ->
  exists t d,
    v_t_inactivity s1 = Some t /\ t <= v_env_now s1 + SHUTDOWN_FINAL_CHANCE_DELAY /\
    v_arm_in s1 = Some d /\ v_env_now s1 + d <= Z.max t (v_env_now s1) /\
    forall now' sc' s2 r, t <= now' -> script_nopending sc' = true ->
      poll cci (VSockRec.set_sends (set_env_now s1 now') sc') = (s2, r) -> r <> PollPending.
Proof.
  intros s sc s1 E T1 G1.
  destruct (poll_pending_ibe _ _ E T1) as [I1 I2].
  apply poll_pending_inv in E; [|exact T1].
  destruct E as (sa & sb & b & _ & Ea & Na & _ & _ & Em & Tb & ->).
  pose proof (maybe_send_ack_frame0 sa) as F0. rewrite Em in F0. destruct F0 as (_ & F2 & F3 & _).
  destruct (poll_tail_fields sb) as (_ & _ & _ & Hst & _ & _ & _ & _ & _ & _ & _ & Hen & _).
  rewrite Hst in G1. rewrite Hen.
  assert (Hnow : v_now sb = v_env_now sb) by congruence.
  destruct (tail_deadline sb Tb G1) as (t & d & E1 & L1 & E2 & L2 & _).
  exists t, d. rewrite <- Hnow. split; [exact E1|]. split; [exact L1|]. split; [exact E2|]. split; [exact L2|].
  intros now' sc' s2 r Hn Hs E'.
  eapply (deadline_fires (set_env_now (poll_tail sb) now') sc' t); try eassumption.
Qed.

(* ================================================================== the trace predicate *)
Definition fires_inv (dl : option Z) (s : vsock) : Prop :=
  forall t, dl = Some t -> v_inbox s = [] /\ v_inbox_closed s = false /\ v_t_inactivity s = Some t.

Lemma vstep_quiet_keeps : forall (s : vsock) o,
  match o with
  | VoPoll _ | VoDeliver _ | VoCloseInbox => True
  | _ => v_inbox (vstep_state cci s o) = v_inbox s /\
         v_inbox_closed (vstep_state cci s o) = v_inbox_closed s /\
         v_t_inactivity (vstep_state cci s o) = v_t_inactivity s
  end.
Proof.
  intros s o. unfold vstep_state. destruct o; try exact I.
  - cbn [vstep fst]; repeat split; exact eq_refl.
  - cbn [vstep fst]; repeat split; exact eq_refl.
  - cbn [vstep]. destruct (writer_dropped _); [|destruct (poll_write _ _) as [[tx1 r] w]];
      cbn [fst]; (split; [|split]); exact eq_refl.
  - cbn [vstep]. destruct (writer_dropped _); [|destruct (poll_flush _) as [[tx1 r] w]];
      cbn [fst]; (split; [|split]); exact eq_refl.
  - cbn [vstep]. destruct (writer_dropped _); [|destruct (poll_shutdown _) as [[tx1 r] w]];
      cbn [fst]; (split; [|split]); exact eq_refl.
  - cbn [vstep]. destruct (reader_dropped _); [|destruct (rx_read _ _) as [[rx1 r] w]];
      cbn [fst]; (split; [|split]); exact eq_refl.
  - cbn [vstep]. destruct (reader_dropped _); [|destruct (rx_drop_reader _) as [rx1 w]];
      cbn [fst]; (split; [|split]); exact eq_refl.
  - cbn [vstep]. destruct (drop_writer _) as [tx1 w]; cbn [fst]; (split; [|split]); exact eq_refl.
Qed.

Theorem c08_fires_step : forall dl (s : vsock) o,
  fires_inv dl s ->
  c08_fires_at dl (fstep_of cci s o) = true /\
  fires_inv (c08_fires_next dl (fstep_of cci s o)) (vstep_state cci s o).
Proof.
  intros dl s o Hi. pose proof (vstep_quiet_keeps s o) as K.
  destruct o;
    try (unfold c08_fires_at, c08_fires_next; rewrite fstep_of_event; cbn [fevent_of];
         split; [reflexivity|];
         first [ intros t0 Ht0; discriminate
               | destruct K as (K1 & K2 & K3); intros t0 Ht0; rewrite K1, K2, K3; exact (Hi t0 Ht0) ]).
  destruct (poll cci (VSockRec.set_sends s script)) as [s' r] eqn:E.
  destruct (vstep_poll cci s script s' r E) as [V1 _]. rewrite V1.
  rewrite (fstep_of_poll cci s script s' r E). unfold c08_fires_at, c08_fires_next.
  cbn [fs_event fs_result fs_post fs_now fp_of_vsock f_transport_pending f_t_inactivity].
  destruct r; try (split; [reflexivity|intros t Ht; discriminate]).
  split.
  - destruct dl as [t|]; [|reflexivity]. destruct (Hi t eq_refl) as (I1 & I2 & I3).
    destruct (script_nopending script) eqn:Es; [|reflexivity].
    destruct (Z.leb_spec t (v_env_now s')) as [Hle|Hgt]; [exfalso|reflexivity].
    destruct (poll_pframe0 cci _ _ _ E) as (_ & P2 & _). rewrite P2 in Hle.
    exact (deadline_fires s script t s' PollPending I3 Hle I1 I2 Es E eq_refl).
  - destruct (v_transport_pending s') eqn:T; [intros t Ht; discriminate|].
    destruct (poll_pending_ibe _ _ E T) as [I1 I2]. intros t Ht. auto.
Qed.

Theorem c08_fires_from_trace : forall ops dl (s : vsock),
  fires_inv dl s -> c08_fires_from dl (ftrace cci s ops) = true.
Proof.
  induction ops as [|o rest IH]; intros dl s Hi; [reflexivity|].
  rewrite ftrace_cons'. cbn [c08_fires_from].
  destruct (c08_fires_step dl s o Hi) as [H1 H2]. rewrite H1. cbn [andb].
  destruct (poll_finished _); [reflexivity|]. apply IH. exact H2.
Qed.

Theorem c08_fires_ok_trace : forall cfg ops (s : vsock), c08_fires_ok cfg (ftrace cci s ops) = true.
Proof. intros cfg ops s. apply c08_fires_from_trace. intros t Ht. discriminate. Qed.

End WithCC.

(* ------------------------------------------------------------------ the guards are met by reachable
   steps: both halves dropped on an idle connection, the poll sends our FIN (FinWait1) and arms the
   final-chance deadline one second ahead; the peer stays silent; the poll at the deadline ends the
   task with RemoteInactiveForTooLong *)
Definition c08_ops : list vop :=
  [VoPoll []; VoDropReader; VoDropWriter; VoPoll []; VoSetNow 900000000; VoPoll [];
   VoSetNow 1001000000; VoPoll []].

Definition deadline_guard (st : fstep) : bool :=
  match fs_event st, fs_result st with
  | FePoll _, FrPoll PollPending _ _ _ =>
      is_local_fin_or_later (f_state (fs_post st)) && negb (f_transport_pending (fs_post st))
  | _, _ => false
  end.

Lemma c08_nonvacuous :
  exists w cfg ops,
    vconfig_ok cfg = true /\ Forall op_msg_ok ops /\
    existsb deadline_guard (wtrace w cfg ops) = true /\
    forallb (c08_deadline_ok cfg) (wtrace w cfg ops) = true /\
    c08_fires_guard_from None (wtrace w cfg ops) = true /\
    c08_fires_ok cfg (wtrace w cfg ops) = true /\
    match rev (wtrace w cfg ops) with
    | st :: _ => match fs_result st with
                 | FrPoll (PollReadyErr ErrRemoteInactiveForTooLong) _ _ _ => true
                 | _ => false
                 end
    | [] => false
    end = true.
Proof.
  exists 1048576, (wcfg 1048576), c08_ops.
  split; [vm_compute; reflexivity|].
  split; [repeat constructor|].
  repeat split; vm_compute; reflexivity.
Qed.

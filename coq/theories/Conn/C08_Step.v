(* C08 at connection level — the step predicate c08_deadline_ok of Conn/C14C08_Pred.v as a THEOREM
   about every step of the model and every trace, and what the armed deadline is good for: a poll
   that starts at or after the deadline, with nothing from the peer in the inbox and a transport
   that does not block, does not return Pending (the task ends). *)
From Utp Require Import Base.Prelude Wire.SeqNr Wire.Header Rtt.Rtte Mtu.SegSizes Rx.Rx Tx.Ring Tx.Segments
  Conn.Recovery Conn.Msg Conn.VSockRec Conn.VSock Conn.VSockRun Conn.VObs Conn.C10_Pred Conn.C05_Pred
  Conn.C14C08_Pred Conn.VSock_Lemmas Conn.VSock_LemmasStep.

Lemma opt_min_le_r : forall a b x, b = Some x -> exists y, opt_min a b = Some y /\ y <= x.
Proof. intros a b x ->. destruct a as [z|]; cbn [opt_min]; eexists; split; try reflexivity; lia. Qed.

Lemma opt_min_le_l : forall a b x, a = Some x -> exists y, opt_min a b = Some y /\ y <= x.
Proof. intros a b x ->. destruct b as [z|]; cbn [opt_min]; eexists; split; try reflexivity; lia. Qed.

Lemma timer_arm_keep_le : forall t now d, exists e, timer_arm t now d false = Some e /\ e <= now + d.
Proof. intros t now d. destruct t as [e|]; cbn [timer_arm]; eexists; split; try reflexivity; lia. Qed.

Section WithCC.
Context {CC : Type} (cci : cc_iface CC).
Notation vsock := (vsock CC).

(* ------------------------------------------------------------------ the timer tail of a poll that
   leaves our FIN out: the final-chance / inactivity deadline is armed, at most one second away,
   and the sleep asked for ends no later *)
Lemma tail_deadline : forall (sb : vsock),
  v_transport_pending sb = false -> is_local_fin_or_later (v_state sb) = true ->
  exists t d,
    v_t_inactivity (poll_tail sb) = Some t /\ t <= v_now sb + SHUTDOWN_FINAL_CHANCE_DELAY /\
    v_arm_in (poll_tail sb) = Some d /\ v_now sb + d <= Z.max t (v_now sb) /\ 0 <= d /\
    (forall t0, v_t_inactivity sb = Some t0 -> t <= t0).
Proof.
  intros sb Tp Hf. unfold poll_tail. rewrite Hf.
  destruct (timer_arm_keep_le (v_t_inactivity sb) (v_now sb) SHUTDOWN_FINAL_CHANCE_DELAY) as (t & Et & Ht).
  assert (Hmon : forall t0, v_t_inactivity sb = Some t0 -> t <= t0).
  { intros t0 E0. rewrite E0 in Et. cbn [timer_arm] in Et. injection Et as <-. lia. }
  set (s1 := set_t_inactivity sb (timer_arm (v_t_inactivity sb) (v_now sb) SHUTDOWN_FINAL_CHANCE_DELAY false)).
  assert (K : v_transport_pending s1 = false /\ v_t_inactivity s1 = Some t /\ v_now s1 = v_now sb).
  { subst s1. split; [exact Tp|]. split; [exact Et|exact eq_refl]. }
  clearbody s1. destruct K as (T1 & I1 & N1).
  unfold next_timer_to_poll. rewrite T1.
  destruct (opt_min_le_l (v_t_inactivity s1) (opt_min (v_t_recovery_pipe s1) (v_t_syn_ack_resend s1)) t I1)
    as (y1 & E1 & L1).
  destruct (opt_min_le_r (v_t_retransmit s1) _ y1 E1) as (y2 & E2 & L2).
  destruct (opt_min_le_r (v_t_ack_delay s1) _ y2 E2) as (y3 & E3 & L3).
  rewrite E3. unfold arm_in, add_wakes.
  change (v_now (set_t_recovery_pipe s1 None)) with (v_now s1). rewrite N1.
  destruct (Z.leb_spec (sat_sub y3 (v_now sb)) 0) as [Hz|Hp].
  - exists t, 0. split; [exact I1|]. split; [exact Ht|]. split; [exact eq_refl|].
    split; [lia|]. split; [lia|exact Hmon].
  - exists t, (sat_sub y3 (v_now sb)). split; [exact I1|]. split; [exact Ht|]. split; [exact eq_refl|].
    unfold sat_sub in *. split; [lia|]. split; [lia|exact Hmon].
Qed.

(* ================================================================== c08_deadline_ok *)
Theorem c08_deadline_ok_step : forall cfg (s : vsock) o, c08_deadline_ok cfg (fstep_of cci s o) = true.
Proof.
  intros cfg s o.
  destruct o; try (unfold c08_deadline_ok; rewrite fstep_of_event; reflexivity).
  destruct (poll cci (VSockRec.set_sends s script)) as [s' r] eqn:E.
  rewrite (fstep_of_poll cci s script s' r E). unfold c08_deadline_ok.
  cbn [fs_event fs_result fs_post fs_now]. destruct r; try reflexivity.
  cbn [fp_of_vsock f_state f_transport_pending f_t_inactivity].
  destruct (is_local_fin_or_later (v_state s') && negb (v_transport_pending s')) eqn:G; [|reflexivity].
  apply andb_true_iff in G. destruct G as [G1 G2]. apply negb_true_iff in G2.
  apply poll_pending_inv in E; [|exact G2].
  destruct E as (sa & sb & b & _ & Ea & Na & _ & _ & Em & Tb & ->).
  pose proof (maybe_send_ack_frame0 sa) as F0. rewrite Em in F0. destruct F0 as (_ & F2 & F3 & _).
  destruct (poll_tail_fields sb) as (_ & _ & _ & Hst & _ & _ & _ & _ & _ & _ & _ & Hen & _).
  rewrite Hst in G1. rewrite Hen.
  assert (Hnow : v_now sb = v_env_now sb) by congruence.
  destruct (tail_deadline sb Tb G1) as (t & d & E1 & L1 & E2 & L2 & _).
  rewrite E1, E2. rewrite <- Hnow. unfold SHUTDOWN_FINAL_CHANCE_DELAY in L1.
  apply andb_true_intro. split; apply Z.leb_le; lia.
Qed.

Theorem c08_deadline_ok_trace : forall cfg ops (s : vsock),
  forallb (c08_deadline_ok cfg) (ftrace cci s ops) = true.
Proof.
  intros cfg ops s. apply (ftrace_forallb cci (fun _ => True)); auto.
  intros s0 o _. apply c08_deadline_ok_step.
Qed.

End WithCC.

(* M2: src/recovery.rs — duplicate-ACK / SACK counting and NewReno-style recovery phases.
   Model only.  The congestion controller is abstract (record of functions). *)
From Utp Require Import Base.Prelude Wire.SeqNr Wire.Header Tx.Segments.

(* UtpHeader as the connection sees it (the SACK already as the sender-side bit view) *)
Record chdr := {
  ch_type : ptype;
  ch_conn_id : Z;
  ch_ts : Z;            (* timestamp_microseconds *)
  ch_ts_diff : Z;       (* timestamp_difference_microseconds *)
  ch_wnd : Z;           (* wnd_size, u32 *)
  ch_seq : Z;
  ch_ack : Z;
  ch_sack : option sackbits;
  ch_close_reason : option Z;
}.

(* the congestion-controller trait object, as a record of functions over an abstract state *)
Record cc_iface (CC : Type) := {
  cc_window : CC -> Z;
  cc_sshthresh : CC -> Z;
  cc_set_mss : CC -> Z -> CC;
  cc_smss : CC -> Z;
  cc_on_recovered : CC -> Z -> Z -> CC;
  cc_on_ack : CC -> Z -> Z -> Z -> option CC;     (* now len rtt ; None = panic *)
  cc_on_rto : CC -> Z -> CC;
  cc_on_enter_recovery : CC -> Z -> CC;
  cc_set_remote_window : CC -> Z -> CC;
}.
Arguments cc_window {CC}. Arguments cc_sshthresh {CC}. Arguments cc_set_mss {CC}.
Arguments cc_smss {CC}. Arguments cc_on_recovered {CC}. Arguments cc_on_ack {CC}.
Arguments cc_on_rto {CC}. Arguments cc_on_enter_recovery {CC}. Arguments cc_set_remote_window {CC}.

Definition SACK_DUP_THRESH : Z := 3.

Record recovering := {
  rc_recovery_point : Z;
  rc_high_rxt : Z;
  rc_total_retx : Z;       (* total_retransmitted_segments *)
  rc_pipe : Z;             (* pipe_estimate.pipe *)
  rc_recalc : option Z;    (* pipe_estimate.recalc_timer *)
  rc_cwnd : Z;
}.

Inductive rphase :=
| IgnoringUntilRecoveryPoint (recovery_point : Z)
| CountingDuplicates (dup_acks : Z)
| Recovering (r : recovering).

Record recovery := {
  rv_supports_sack : bool;
  rv_last_ack : option (Z * Z);     (* (window, ack_nr) *)
  rv_phase : rphase;
}.

Definition recovery_new : recovery :=
  {| rv_supports_sack := false; rv_last_ack := None; rv_phase := CountingDuplicates 0 |}.

Definition is_recovering (r : recovery) : bool :=
  match rv_phase r with Recovering _ => true | _ => false end.

(* Recovering::cwnd() *)
Definition rec_cwnd (r : recovering) : Z := sat_sub (rc_cwnd r) (rc_pipe r).

(* Recovery::remaining_cwnd *)
Definition remaining_cwnd (r : recovery) (last_remote_window : Z) : option Z :=
  match rv_phase r with
  | Recovering rc => Some (sat_sub (Z.min (rc_cwnd rc) last_remote_window) (rc_pipe rc))
  | _ => None
  end.

Definition count_ones (l : list bool) : Z :=
  fold_right (fun (b : bool) acc => if b then acc + 1 else acc) 0 l.

(* u8 arithmetic of dup_acks: `prev + 1` is checked (None = overflow panic), saturating_add saturates *)
Definition count_sack_duplicates (h : chdr) (prev : Z) : option Z :=
  match ch_sack h with
  | Some k =>
      if SACK_DUP_THRESH <=? count_ones (sk_bits k) then Some SACK_DUP_THRESH
      else if prev + 1 <=? 255 then Some (prev + 1) else None
  | None => Some 0
  end.

Definition count_non_sack_duplicates (h : chdr) (prev : Z) (last_ack : option (Z * Z))
  : Z * option (Z * Z) :=
  let is_window_update :=
    match last_ack with Some (w, _) => negb (w =? ch_wnd h) | None => false end in
  match last_ack with
  | Some (w, a) =>
      if ptype_eqb (ch_type h) ST_STATE && (a =? ch_ack h) && negb is_window_update
      then (Z.min 255 (prev + 1), last_ack)
      else (0, Some (ch_wnd h, ch_ack h))
  | None => (0, Some (ch_wnd h, ch_ack h))
  end.

Section WithCC.
Context {CC : Type} (cci : cc_iface CC).

(* None = panic (calc_pipe index panic, u8 overflow) *)
Definition recovery_on_ack (r : recovery) (h : chdr) (segs : segments) (last_sent_seq_nr : Z)
  (cc : CC) (now rtt : Z) : option (recovery * segments * CC) :=
  let r0 := {| rv_supports_sack := rv_supports_sack r || (match ch_sack h with Some _ => true | None => false end);
               rv_last_ack := rv_last_ack r; rv_phase := rv_phase r |} in
  match rv_phase r0 with
  | IgnoringUntilRecoveryPoint rp =>
      if seq_ge (ch_ack h) rp then
        Some ({| rv_supports_sack := rv_supports_sack r0; rv_last_ack := rv_last_ack r0;
                 rv_phase := CountingDuplicates 0 |}, segs, cc)
      else Some (r0, segs, cc)
  | CountingDuplicates dup =>
      match ss_segs segs with
      | [] => Some ({| rv_supports_sack := rv_supports_sack r0; rv_last_ack := rv_last_ack r0;
                       rv_phase := CountingDuplicates 0 |}, segs, cc)
      | _ :: _ =>
          let high_ack := wsub16 (ss_snd_una segs) 1 in
          let counted :=
            if rv_supports_sack r0 then
              match count_sack_duplicates h dup with
              | Some d => Some (d, rv_last_ack r0)
              | None => None
              end
            else Some (count_non_sack_duplicates h dup (rv_last_ack r0)) in
          match counted with
          | None => None
          | Some (dup', la') =>
              if dup' <? SACK_DUP_THRESH then
                Some ({| rv_supports_sack := rv_supports_sack r0; rv_last_ack := la';
                         rv_phase := CountingDuplicates dup' |}, segs, cc)
              else
                let cc1 := cc_on_enter_recovery cci cc now in
                match calc_pipe segs high_ack last_sent_seq_nr rtt now with
                | None => None
                | Some (segs', pipe, recalc) =>
                    let rc := {| rc_recovery_point := last_sent_seq_nr; rc_high_rxt := high_ack;
                                 rc_total_retx := 0; rc_pipe := pipe; rc_recalc := recalc;
                                 rc_cwnd := cc_sshthresh cci cc1 |} in
                    Some ({| rv_supports_sack := rv_supports_sack r0; rv_last_ack := la';
                             rv_phase := Recovering rc |}, segs', cc1)
                end
          end
      end
  | Recovering rc =>
      if seq_ge (ch_ack h) (rc_recovery_point rc) then
        let mss := cc_smss cci cc in
        let cwnd := Z.min (cc_sshthresh cci cc)
                          (Z.max (calc_flight_size segs last_sent_seq_nr) mss + mss) in
        let cc1 := cc_on_recovered cci cc cwnd (rc_cwnd rc) in
        Some ({| rv_supports_sack := rv_supports_sack r0; rv_last_ack := rv_last_ack r0;
                 rv_phase := CountingDuplicates 0 |}, segs, cc1)
      else Some (r0, segs, cc)
  end.

End WithCC.

Definition recovery_on_rto_timeout (r : recovery) (last_sent_seq_nr : Z) : recovery :=
  match rv_phase r with
  | Recovering _ => {| rv_supports_sack := rv_supports_sack r; rv_last_ack := rv_last_ack r;
                       rv_phase := IgnoringUntilRecoveryPoint last_sent_seq_nr |}
  | _ => r
  end.

(* C07 — the trigger side of the immediate ACK.
   [kf]: through every function of poll_body the list of emitted packets only grows, mss stays below
   2^16, and a forced ACK (consumed_but_unacked_bytes = usize::MAX) stays forced until a packet goes out.
   [pim_trigger]: process_incoming_message on a duplicate ST_DATA, a FIN, or an ST_DATA arriving while the
   reassembly queue holds data forces the ACK (or sends it on the spot).
   [pim_status]: an ST_DATA that changes the empty/non-empty status of the reassembly queue does the same.
   [poll_trigger] / [poll_status]: a poll that ran to its end (Pending, transport writable) after such an
   arrival emitted at least one packet. *)
From Utp Require Import Base.Prelude Wire.SeqNr Wire.SeqNr_Proofs Wire.Header Rtt.Rtte Mtu.SegSizes
  Rx.Rx Rx.Rx_Proofs Tx.Ring Tx.Segments Conn.Recovery Conn.Msg Conn.VSockRec Conn.VSock Conn.VSockRun
  Conn.VObs Conn.VSock_LemmasTx Conn.VSock_LemmasIn Conn.VSock_Lemmas Conn.VSock_LemmasStep
  Conn.VSock_LemmasReach Conn.VSock_LemmasTimers Conn.VSock_LemmasPipe Conn.VSock_LemmasEof
  Conn.C07_Pred Conn.C07_Proofs Conn.C07_Pred2.

(* ------------------------------------------------------------------ arithmetic / Rx facts *)
Lemma mss_opd_hi ss n : mss (on_payload_delivered ss n) <= Z.max (mss ss) U16_MAX.
Proof.
  unfold mss, on_payload_delivered; cbn [min_ss]. unfold U16_MAX.
  pose proof (Z.mod_pos_bound (Z.min n 65535) M16 ltac:(unfold M16; lia)) as B. unfold M16 in *. lia.
Qed.

Lemma mss_ss_new_hi c : mss (ss_new c) <= U16_MAX.
Proof.
  unfold mss, ss_new, ss_calc, clamped_link_mtu, default_min_mtu, ip_header,
    IPV4_HEADER, IPV6_HEADER, UDP_HEADER, UTP_HEADER, U16_MAX; cbn [min_ss cfg_ipv4].
  destruct (cfg_ipv4 c); lia.
Qed.

Lemma sat_add_forced b : 0 <= b -> sat_add_usize USIZE_MAX b = USIZE_MAX.
Proof. intro H. unfold sat_add_usize. lia. Qed.

Lemma twf_b_nonneg l : 0 <= twf_b l.
Proof.
  unfold twf_b. induction l as [|x xs IH]; cbn [take_while_filled snd]; [lia|].
  destruct (slot_is_default x); cbn [snd]; [lia|].
  destruct (take_while_filled xs) as [n b]. cbn [snd] in *. pose proof (slot_len_nonneg x). lia.
Qed.

Lemma rx_add_remove_bytes r k p off r' n b w :
  rx_add_remove r k p off = (r', UarOk (ArConsumed n b), w) -> 0 <= b.
Proof.
  unfold rx_add_remove. destruct (ooq_add_remove r k p off) as [s1 a] eqn:E.
  destruct (ooq_add_remove_cases _ _ _ _ _ _ E) as [[-> Ha]|(m & old & _ & _ & _ & _ & _ & Hs')].
  - destruct a; try contradiction; intro H; injection H as _ H _; discriminate H.
  - cbv zeta in Hs'. destruct Hs' as [_ ->].
    destruct (_ && _).
    + destruct (rx_flush s1) as [[s2 fr] w2]. destruct fr; intro H; [|discriminate].
      injection H as _ _ <- _. apply twf_b_nonneg.
    + intro H. injection H as _ _ <- _. apply twf_b_nonneg.
Qed.

(* the flush pops delivered slots from the front: the empty/non-empty status of the queue stays *)
Lemma flush_loop_status : forall fuel s w fb fp s1 w1 fb1 fp1,
  flush_loop fuel s w fb fp = Some (s1, w1, fb1, fp1) -> ooq_is_empty s1 = ooq_is_empty s.
Proof.
  induction fuel as [|fuel IH]; intros s w fb fp s1 w1 fb1 fp1; cbn [flush_loop].
  - intro H; injection H as <- _ _ _. reflexivity.
  - destruct (filled_front s =? 0); [intro H; injection H as <- _ _ _; reflexivity|].
    destruct (ooq_data s) as [|m rest]; [discriminate|].
    destruct (w <? _); [intro H; injection H as <- _ _ _; reflexivity|].
    destruct (reader_dropped s); [intro H; injection H as <- _ _ _; reflexivity|].
    destruct (_ <? _); [discriminate|].
    intro H. apply IH in H. rewrite H. unfold ooq_is_empty. cbn [pop_front_state filled_front ooq_len].
    destruct (Z.eqb_spec (filled_front s - 1) (ooq_len s - 1)), (Z.eqb_spec (filled_front s) (ooq_len s));
      try reflexivity; lia.
Qed.

Lemma rx_flush_status r r' fr w : rx_flush r = (r', fr, w) -> ooq_is_empty r' = ooq_is_empty r.
Proof.
  unfold rx_flush. intro H.
  set (s0 := set_wakers r _ (reader_waker r) (last_remaining_rx_window r)) in *.
  destruct (flush_loop _ s0 _ 0 0) as [[[[s1 w1] fb] fp]|] eqn:E.
  - apply flush_loop_status in E.
    destruct (0 <? fp); injection H as <- _ _; exact E.
  - injection H as <- _ _. reflexivity.
Qed.

Section WithCC.
Context {CC : Type} (cci : cc_iface CC).
Notation vsock := (vsock CC).

(* ------------------------------------------------------------------ kf *)
Definition kf (s s' : vsock) : Prop :=
  mss (v_ss s') <= Z.max (mss (v_ss s)) U16_MAX /\
  exists l, v_out s' = l ++ v_out s /\ (l = [] -> v_cbu s = USIZE_MAX -> v_cbu s' = USIZE_MAX).

Lemma kf_refl : forall s, kf s s.
Proof. intros s. unfold kf. split; [lia|]. exists []. split; auto. Qed.

Lemma kf_trans : forall a b c, kf a b -> kf b c -> kf a c.
Proof.
  intros a b c (A1 & l1 & A2 & A3) (B1 & l2 & B2 & B3). unfold kf. split; [lia|].
  exists (l2 ++ l1). split.
  - rewrite B2, A2. apply app_assoc.
  - intros E. apply app_eq_nil in E. destruct E as [E2 E1]. auto.
Qed.

Lemma kf_ext : forall s a b : vsock, kf s a ->
  mss (v_ss b) <= Z.max (mss (v_ss a)) U16_MAX -> v_out b = v_out a ->
  (v_cbu a = USIZE_MAX -> v_cbu b = USIZE_MAX) -> kf s b.
Proof.
  intros s a b (A1 & l & A2 & A3) B1 B2 B3. unfold kf. split; [lia|].
  exists l. split; [congruence|]. auto.
Qed.

Lemma kf_same : forall s a b : vsock, kf s a ->
  v_ss b = v_ss a -> v_out b = v_out a -> v_cbu b = v_cbu a -> kf s b.
Proof.
  intros s a b F B1 B2 B3. apply (kf_ext s a b F); [rewrite B1; lia | exact B2 | congruence].
Qed.

Notation stk := (stR kf).

Ltac kf_leaf := match goal with |- kf ?a _ => apply (kf_same a a); [apply kf_refl | exact eq_refl ..] end.
Ltac kf_via H := eapply kf_same; [exact H | exact eq_refl ..].

Lemma next_send_kf : forall (s : vsock) n s1 o, next_send s n = (s1, o) -> kf s s1.
Proof.
  intros s n s1 o H. unfold next_send in H.
  repeat break_match_hyp H; inversion H; subst; try inversion Heqp; subst; kf_leaf.
Qed.

Lemma kf_emit_sent : forall (s s1 : vsock) p h, kf s s1 -> kf s (on_packet_sent (emit s1 p) h).
Proof.
  intros s s1 p h (A1 & l & A2 & A3). unfold kf, on_packet_sent, emit. vsimpl_goal. split; [exact A1|].
  exists (p :: l). split; [rewrite A2; reflexivity|]. intros E; discriminate E.
Qed.

Lemma send_control_packet_kf : forall (s : vsock) h, stk s (send_control_packet s h).
Proof.
  intros s h. unfold send_control_packet.
  destruct (v_transport_pending s); [apply kf_refl|].
  destruct (next_send s _) as [s1 o] eqn:E. apply next_send_kf in E.
  destruct o; cbn [stR]; auto. apply kf_emit_sent; exact E.
Qed.

Lemma send_ack_kf : forall (s : vsock), stk s (send_ack s).
Proof. intros s. unfold send_ack. apply send_control_packet_kf. Qed.

Lemma maybe_send_fin_kf : forall (s : vsock), stk s (maybe_send_fin s).
Proof.
  intros s. unfold maybe_send_fin.
  destruct (v_transport_pending s); [apply kf_refl|].
  destruct (our_fin_if_unacked (v_state s)); [|apply kf_refl].
  destruct (negb _); [apply kf_refl|].
  apply (stR_sbind kf kf_trans); [apply send_control_packet_kf|].
  intros s1 [|]; cbn [stR]; [kf_leaf | apply kf_refl].
Qed.

Lemma send_data_kf : forall (s : vsock) h f, stk s (send_data s h f).
Proof.
  intros s h f. unfold send_data.
  destruct (_ =? o_max_retx _); [apply kf_refl|].
  destruct (_ <? 0); [exact I|].
  destruct (_ <? fs_payload_offset f); [apply kf_refl|].
  destruct (_ <? _ + _); [apply kf_refl|].
  destruct (next_send s _) as [s1 o] eqn:E. apply next_send_kf in E.
  destruct o; cbn [stR]; auto; try (kf_via E).
  match goal with |- context [emit s1 ?p] =>
    match goal with |- context [on_packet_sent _ ?hd] =>
      pose proof (kf_emit_sent s s1 p hd E) as F end end.
  destruct (seq_gt _ _); try destruct (seq_gt _ _); exact F.
Qed.

Lemma on_rto_reactions_kf : forall (s s1 : vsock), on_rto_reactions cci s = Some s1 -> kf s s1.
Proof.
  intros s s1 H. unfold on_rto_reactions in H.
  destruct (Rtte.on_rto_timeout _); inversion H; subst. kf_leaf.
Qed.

Lemma recovery_loop_kf : forall items (s : vsock) h mss0 st, stk s (recovery_loop items s h mss0 st).
Proof.
  induction items as [|f rest IH]; intros s h mss0 st; cbn [recovery_loop].
  - apply kf_refl.
  - destruct (negb _); [apply kf_refl|].
    destruct (_ && negb (sg_lost _)); [apply IH|].
    destruct (_ && negb (sg_sacks_after _)); [apply kf_refl|].
    pose proof (send_data_kf s h f) as F.
    destruct (send_data s h f) as [s1 r|s1 e|]; cbn [stR] in *; auto.
    destruct r; cbn [stR]; auto.
    eapply (stR_weaken kf kf_trans); [exact F | apply IH].
Qed.

Lemma new_data_loop_kf : forall items (s : vsock) h remaining, stk s (new_data_loop items s h remaining).
Proof.
  induction items as [|f rest IH]; intros s h remaining; cbn [new_data_loop].
  - apply kf_refl.
  - destruct (_ <? _); [apply kf_refl|].
    pose proof (send_data_kf s h f) as F.
    destruct (send_data s h f) as [s1 r|s1 e|]; cbn [stR] in *; auto.
    destruct r; cbn [stR]; auto.
    eapply (stR_weaken kf kf_trans); [exact F | apply IH].
Qed.

Lemma set_recovering_kf : forall (s : vsock) rc, kf s (set_recovering s rc).
Proof. intros. unfold set_recovering. kf_leaf. Qed.

Lemma send_tx_queue_kf : forall (s : vsock), stk s (send_tx_queue cci s).
Proof.
  intros s. unfold send_tx_queue.
  destruct (v_transport_pending s); [apply kf_refl|].
  apply (stR_sbind kf kf_trans).
  - destruct (timer_expired _ _); [|apply kf_refl].
    destruct (iter_for_sending _ _) as [|f l].
    + destruct (our_fin_if_unacked _); [|cbn [stR]; kf_leaf].
      destruct (_ =? _); [|cbn [stR]; kf_leaf].
      apply (stR_weaken kf kf_trans) with (s := set_last_sent_seq_nr s (wsub16 (v_last_sent_seq_nr s) 1));
        [kf_leaf|].
      apply (stR_sbind kf kf_trans); [apply maybe_send_fin_kf|].
      intros s1 a. destruct a; [|apply kf_refl].
      destruct (on_rto_reactions cci s1) eqn:E; [|exact I]. apply on_rto_reactions_kf in E.
      cbn [stR]. kf_via E.
    + pose proof (send_data_kf s (outgoing_header s) f) as Hd.
      destruct (send_data _ _ f) as [s1 r|s1 e|]; cbn [stR] in *; auto.
      destruct r; cbn [stR]; auto.
      cbv zeta.
      match goal with |- stR _ _ (match ?o with _ => _ end) => destruct o as [s2|] eqn:E end; [|exact I].
      assert (F2 : kf s1 s2).
      { destruct (negb _); [apply on_rto_reactions_kf; exact E|injection E as <-; apply kf_refl]. }
      cbn [stR]. pose proof (kf_trans _ _ _ Hd F2) as F3. kf_via F3.
  - intros s1 ret. destruct ret; [apply kf_refl|].
    destruct (0 <? _); [apply kf_refl|]. destruct (ss_segs _); [apply kf_refl|].
    apply (stR_sbind kf kf_trans).
    + destruct (rv_phase _); try apply kf_refl.
      apply (stR_sbind kf kf_trans); [apply recovery_loop_kf|].
      intros s2 [st early]. cbv beta iota zeta.
      destruct early; [apply set_recovering_kf|].
      match goal with |- stR _ _ (match our_fin_if_unacked (v_state ?y) with _ => _ end) =>
        assert (F3 : kf s2 y); [|revert F3; generalize y; intros sy F3] end.
      { eapply kf_trans; [apply set_recovering_kf|].
        destruct (_ <? _); [|apply kf_refl]. destruct (rc_recalc _); [kf_leaf|].
        destruct (0 <? _); [kf_leaf|apply kf_refl]. }
      destruct (our_fin_if_unacked _); [destruct (_ =? _)|]; cbn [stR]; auto.
    + intros s2 ret. destruct ret; [apply kf_refl|].
      apply (stR_sbind kf kf_trans); [apply new_data_loop_kf|].
      intros s3 tl. destruct tl as [[sq sz]|]; [|apply kf_refl].
      destruct (pop_mtu_probe _ _) as [segs' popped]. destruct popped; cbn [stR]; [|apply kf_refl].
      apply (kf_ext s3 s3); [apply kf_refl | | exact eq_refl | intro K; exact K].
      vsimpl_goal. rewrite mss_disarm_cooldown, mss_on_probe_failed. lia.
Qed.

Lemma maybe_send_ack_kf : forall (s : vsock), stk s (maybe_send_ack s).
Proof.
  intros s. unfold maybe_send_ack.
  pose proof (send_ack_kf s) as G.
  destruct (immediate_ack_to_transmit s); [exact G|].
  destruct (should_send_window_update s); [exact G|].
  destruct (timer_expired _ _).
  - destruct (ack_to_transmit s); [exact G|]. cbn [stR]. kf_leaf.
  - destruct (0 <? v_cbu s); cbn [stR]; kf_leaf.
Qed.

Lemma maybe_send_syn_ack_kf : forall (s : vsock), stk s (maybe_send_syn_ack s).
Proof.
  intros s. unfold maybe_send_syn_ack.
  assert (G : forall c, stk s
     (if c =? o_max_retx (v_opts s) then SErr s ErrMaxSynAckRetransmissionsReached
      else sbind (send_ack s) (fun s1 sent =>
        if sent then SOk (set_t_syn_ack_resend (set_state s1 (SynAckSent (c + 1)))
               (timer_arm (v_t_syn_ack_resend s1) (v_now s1) SYNACK_RESEND_INTERNAL true)) tt
        else SOk s1 tt))).
  { intros c. destruct (_ =? _); [apply kf_refl|].
    apply (stR_sbind kf kf_trans); [apply send_ack_kf|].
    intros s1 [|]; cbn [stR]; [kf_leaf | apply kf_refl]. }
  destruct (v_state s); try (cbn [stR]; kf_leaf).
  - apply G.
  - destruct (timer_expired _ _); [apply G | apply kf_refl].
Qed.

Lemma transition_to_fin_wait_1_kf : forall (s : vsock), kf s (transition_to_fin_wait_1 s).
Proof. intros s. unfold transition_to_fin_wait_1. destruct (v_state s); first [apply kf_refl | kf_leaf]. Qed.

Lemma rx_flush_kf : forall (s : vsock) rx1 w, kf s (add_wakes (set_rx s rx1) w).
Proof. intros. unfold add_wakes. kf_leaf. Qed.

Lemma split_tx_queue_into_segments_kf : forall (s : vsock), stk s (split_tx_queue_into_segments cci s).
Proof.
  intros s. unfold split_tx_queue_into_segments.
  destruct (_ =? 0); [cbn [stR]; kf_leaf|].
  match goal with |- context [is_remote_fin_or_later (v_state ?x)] => set (s1 := x) end.
  assert (F1 : kf s s1).
  { subst s1. destruct (_ && _); [|apply kf_refl].
    destruct (grow _ _) as [tx1 g]. destruct g; [destruct (wake_writer tx1)|]; unfold add_wakes; kf_leaf. }
  clearbody s1.
  destruct (is_remote_fin_or_later _); [exact F1|].
  destruct (pop_expired_mtu_probe _ _ _) as [segs1 pe].
  assert (Hcont : forall s2 : vsock, kf s s2 ->
    stk s
      (if Z.of_nat (length (ring (v_tx s))) <? ss_len_bytes (v_segs s2)
       then SErr s2 (ErrBug BugInBufferComputations)
       else match segment_loop (ring (v_tx s2)) (o_nagle (v_opts s2)) (v_ss s2) (v_segs s2)
                    (Z.of_nat (length (ring (v_tx s))) - ss_len_bytes (v_segs s2))
                    (v_last_remote_window s2) with
            | Some (ss', segs', remaining) =>
                SOk (set_unsegmented (VSockRec.set_segs (set_ss s2 ss') segs') remaining) tt
            | None => SPanic
            end)).
  { intros s2 F2. destruct (_ <? _); [exact F2|].
    destruct (segment_loop _ _ _ _ _ _) as [[[ss' segs'] rem']|] eqn:E; [|exact I].
    apply segment_loop_mss in E. cbn [stR].
    apply (kf_ext s s2); [exact F2 | vsimpl_goal; lia | exact eq_refl | intro K; exact K]. }
  destruct pe.
  - apply Hcont. eapply kf_trans; [exact F1|].
    destruct (seq_gt _ _);
      (apply (kf_ext s1 s1); [apply kf_refl | vsimpl_goal; rewrite mss_on_probe_failed; lia
                              | exact eq_refl | intro K; exact K]).
  - cbn [stR]. kf_via F1.
  - apply Hcont. exact F1.
Qed.

(* ---- incoming messages ---- *)
Lemma state_table_kf : forall (s : vsock) h,
  match state_table s h with TblDrop s1 | TblErr s1 _ | TblContinue s1 => kf s s1 end.
Proof.
  intros s h. unfold state_table, restart_remote_inactivity_timer.
  repeat break_match; first [apply kf_refl | kf_leaf].
Qed.

Lemma process_incoming_message_kf : forall (s : vsock) m, stk s (process_incoming_message cci s m).
Proof.
  intros s m. unfold process_incoming_message.
  pose proof (state_table_kf s (m_hdr m)) as T.
  destruct (state_table s (m_hdr m)) as [s1|s1 e|s1]; cbn [stR] in *; auto.
  destruct (remove_up_to_ack _ _ _ _) as [segs1 res].
  match goal with |- context [on_payload_delivered (v_ss s1) ?n] =>
    pose proof (mss_opd_hi (v_ss s1) n) as M1; set (ss1 := on_payload_delivered (v_ss s1) n) in * end.
  destruct (match is_recovering _, _ with | false, Some rtt => _ | _, _ => _ end) as [rtte1|]; [|exact I].
  destruct (cc_on_ack _ _ _ _ _) as [cc3|]; [|exact I].
  destruct (recovery_on_ack _ _ _ _ _ _ _ _) as [[[rec1 segs2] cc4]|]; [|exact I].
  match goal with |- context [seq_sub _ (wadd16 (v_last_consumed ?x) 1)] => set (s2 := x) end.
  assert (F2 : kf s s2).
  { subst s2. apply (kf_ext s s1); [exact T | vsimpl_goal; exact M1 | exact eq_refl | intro K; exact K]. }
  clearbody s2.
  destruct (ch_type (m_hdr m)); try exact F2.
  - (* ST_DATA *)
    destruct (_ <? 0).
    { cbn [stR]. unfold force_immediate_ack.
      apply (kf_ext s s2); [exact F2 | vsimpl_goal; lia | exact eq_refl | intros _; exact eq_refl]. }
    match goal with |- context [on_payload_delivered (v_ss s2) ?n] =>
      pose proof (mss_opd_hi (v_ss s2) n) as M2; set (ss2 := on_payload_delivered (v_ss s2) n) in * end.
    match goal with |- context [rx_add_remove (v_rx ?x)] => set (s3 := x) end.
    assert (F3 : kf s s3).
    { subst s3. apply (kf_ext s s2); [exact F2 | vsimpl_goal; exact M2 | exact eq_refl | intro K; exact K]. }
    clearbody s3.
    destruct (rx_add_remove _ _ _ _) as [[rx1 ar] w] eqn:Ea.
    assert (F4 : kf s (add_wakes (set_rx s3 rx1) (rx_wakes w))) by (unfold add_wakes; kf_via F3).
    assert (C4 : v_cbu (add_wakes (set_rx s3 rx1) (rx_wakes w)) = v_cbu s3) by reflexivity.
    set (s4 := add_wakes (set_rx s3 rx1) (rx_wakes w)) in *. clearbody s4.
    destruct ar as [r|]; [|exact I].
    destruct (add_err r); [exact F4|].
    match goal with |- context [send_ack (force_immediate_ack ?x)] => set (s5 := x) end.
    assert (F5 : kf s s5).
    { subst s5. destruct r; try exact F4.
      apply rx_add_remove_bytes in Ea. unfold restart_remote_inactivity_timer.
      apply (kf_ext s s4); [exact F4 | vsimpl_goal; lia | exact eq_refl |].
      vsimpl_goal. intro K. rewrite K. apply sat_add_forced. exact Ea. }
    clearbody s5.
    destruct (_ || _); [|exact F5].
    assert (F6 : kf s (force_immediate_ack s5)).
    { unfold force_immediate_ack.
      apply (kf_ext s s5); [exact F5 | vsimpl_goal; lia | exact eq_refl | intros _; exact eq_refl]. }
    set (s6 := force_immediate_ack s5) in *. clearbody s6.
    apply (stR_weaken kf kf_trans) with (s := s6); [exact F6|].
    apply (stR_sbind kf kf_trans); [apply send_ack_kf|].
    intros s7 _. apply kf_refl.
  - (* ST_FIN *)
    assert (F3 : kf s (force_immediate_ack s2)).
    { unfold force_immediate_ack.
      apply (kf_ext s s2); [exact F2 | vsimpl_goal; lia | exact eq_refl | intros _; exact eq_refl]. }
    destruct (_ && _); [|exact F3].
    match goal with |- context [rx_add_remove (v_rx ?x)] => set (s4 := x) end.
    assert (F4 : kf s s4) by (subst s4; kf_via F3).
    clearbody s4.
    destruct (rx_add_remove _ _ _ _) as [[rx1 ar] w].
    assert (F5 : kf s (add_wakes (set_rx s4 rx1) (rx_wakes w))) by (unfold add_wakes; kf_via F4).
    set (s5 := add_wakes (set_rx s4 rx1) (rx_wakes w)) in *. clearbody s5.
    destruct ar as [r|]; [|exact I].
    destruct (add_err r); [exact F5|].
    destruct (mark_vsock_closed _) as [tx1 w2]. cbn [stR]. unfold add_wakes. kf_via F5.
Qed.

Lemma recv_loop_kf : forall fuel (s : vsock) acc, stk s (recv_loop cci fuel s acc).
Proof.
  assert (Hclosed : forall (s : vsock) (acc : on_ack_result),
    stk s (sbind (maybe_send_fin (transition_to_fin_wait_1 s))
                 (fun s2 _ => SOk (set_state s2 Closed) (acc, true)))).
  { intros s acc.
    apply (stR_weaken kf kf_trans) with (s := transition_to_fin_wait_1 s);
      [apply transition_to_fin_wait_1_kf|].
    apply (stR_sbind kf kf_trans); [apply maybe_send_fin_kf|].
    intros s2 _. cbn [stR]. kf_leaf. }
  induction fuel as [|x fuel IH]; intros s acc.
  - cbn [recv_loop]. destruct (v_inbox s).
    + destruct (v_inbox_closed s); [apply Hclosed|cbn [stR]; kf_leaf].
    + exact I.
  - cbn [recv_loop]. destruct (v_inbox s) as [|m rest].
    + destruct (v_inbox_closed s); [apply Hclosed|cbn [stR]; kf_leaf].
    + apply (stR_weaken kf kf_trans) with (s := set_inbox s rest); [kf_leaf|].
      apply (stR_sbind kf kf_trans).
      * apply process_incoming_message_kf.
      * intros s1 r. destruct (_ || _); [apply kf_refl|]. apply IH.
Qed.

Lemma paim_rest_kf : forall (s1 : vsock) r, stk s1 (paim_rest s1 r).
Proof.
  intros s1 r. unfold paim_rest.
  match goal with |- stR kf s1 (sbind ?m _) =>
    match m with context [acked_counts_as_sent ?x] => set (s2 := x) end end.
  assert (F2 : kf s1 s2).
  { subst s2. unfold restart_remote_inactivity_timer. repeat break_match; first [apply kf_refl | kf_leaf]. }
  clearbody s2.
  apply (stR_weaken kf kf_trans) with (s := s2); [exact F2|].
  apply (stR_sbind kf kf_trans).
  - destruct (0 <? _); [|apply kf_refl].
    assert (F2' : kf s2 (acked_counts_as_sent s2)).
    { unfold acked_counts_as_sent. destruct (seq_gt _ _ && seq_lt _ _); [kf_leaf | apply kf_refl]. }
    apply (stR_weaken kf kf_trans) with (s := acked_counts_as_sent s2); [exact F2'|].
    generalize (acked_counts_as_sent s2). intro s2'.
    destruct (truncate_front _ _) as [tx1 tr].
    destruct tr; [|cbn [stR]; kf_leaf].
    destruct (wake_writer tx1) as [tx2 w]. cbn [stR]. unfold add_wakes. kf_leaf.
  - intros s3 _. unfold set_recovering. repeat break_match; cbn [stR]; first [exact I | apply kf_refl | kf_leaf].
Qed.

Lemma process_all_incoming_messages_kf : forall (s : vsock),
  stk s (process_all_incoming_messages cci s).
Proof.
  intros s. rewrite paim_eq.
  apply (stR_sbind kf kf_trans); [apply recv_loop_kf|].
  intros s1 res. apply paim_rest_kf.
Qed.

End WithCC.

(* ================================================================== the triggers *)
Section Trig.
Context {CC : Type} (cci : cc_iface CC).
Notation vsock := (vsock CC).

(* the message is a trigger in the state in which it is processed *)
Definition trig (s : vsock) (m : msg) : bool :=
  c07_is_trigger (v_state s) (v_last_consumed s) (ooq_is_empty (v_rx s)) (m_hdr m).

Lemma state_table_rx : forall (s : vsock) h,
  match state_table s h with
  | TblDrop s1 | TblErr s1 _ | TblContinue s1 => v_rx s1 = v_rx s /\ v_out s1 = v_out s
  end.
Proof.
  intros s h. unfold state_table, restart_remote_inactivity_timer.
  repeat break_match; split; reflexivity.
Qed.

Lemma state_table_continues (s : vsock) h :
  c07_hs_done (v_state s) = true -> c07_tbl_continues (v_state s) (v_last_consumed s) h = true ->
  exists s1, state_table s h = TblContinue s1 /\ v_last_consumed s1 = v_last_consumed s /\
             v_rx s1 = v_rx s /\ v_out s1 = v_out s /\ v_cbu s1 = v_cbu s.
Proof.
  intros Hh Ht. unfold c07_tbl_continues in Ht. unfold state_table, restart_remote_inactivity_timer.
  destruct (ch_type h) eqn:Et; try discriminate;
    destruct (v_state s) eqn:Est; try discriminate; cbn [negb];
    try rewrite Ht; cbn [negb];
    repeat match goal with |- context [if ?c then _ else _] => destruct c eqn:? end;
    try (eexists; repeat split; reflexivity).
  (* LastAck, ST_DATA beyond the remote FIN: excluded by the guard *)
  all: exfalso; cbn [orb negb] in Ht; congruence.
Qed.

Lemma pim_ack_fields (s1 : vsock) h s2 res : pim_ack cci s1 h = Some (s2, res) ->
  v_last_consumed s2 = v_last_consumed s1 /\ v_rx s2 = v_rx s1 /\ v_out s2 = v_out s1 /\
  v_cbu s2 = v_cbu s1.
Proof.
  unfold pim_ack. destruct (remove_up_to_ack _ _ _ _) as [segs1 res0].
  destruct (match is_recovering (v_recovery s1) with true => _ | false => _ end) as [rtte1|]; [|discriminate].
  destruct (cc_on_ack cci _ _ _ _) as [cc3|]; [|discriminate].
  destruct (recovery_on_ack cci _ _ _ _ _ _ _) as [[[rec1 segs2] cc4]|]; [|discriminate].
  intro H; injection H as <- _. repeat split; reflexivity.
Qed.

(* a forced ACK handed to send_ack: it goes out, or stays forced *)
Lemma send_ack_forced (s s' : vsock) b :
  send_ack s = SOk s' b -> v_cbu s = USIZE_MAX ->
  v_cbu s' = USIZE_MAX \/ exists p, v_out s' = p :: v_out s.
Proof.
  intros H C. unfold send_ack, send_control_packet in H.
  destruct (v_transport_pending s); [inversion H; subst; left; exact C|].
  destruct (next_send s _) as [s0 o] eqn:E. apply next_send_fields in E.
  destruct E as (E1 & _ & _ & _ & _ & E6 & _).
  destruct o; try discriminate; inversion H; subst.
  - right. unfold on_packet_sent, emit. vsimpl_goal. rewrite E6. eexists. reflexivity.
  - left. vsimpl_goal. congruence.
Qed.

Lemma pim_data_out (s2 : vsock) (m : msg) rx1 w (r : add_result) :
  let s3 := set_cc (set_ss s2 (on_payload_delivered (v_ss s2) (Z.of_nat (length (m_payload m)))))
                   (cc_set_mss cci (v_cc s2)
                      (mss (on_payload_delivered (v_ss s2) (Z.of_nat (length (m_payload m)))))) in
  let s4 := add_wakes (set_rx s3 rx1) (rx_wakes w) in
  let s5 := match r with
            | ArConsumed n bytes =>
                set_cbu (set_last_consumed (restart_remote_inactivity_timer s4)
                           (wadd16 (v_last_consumed s4) (n mod M16)))
                        (sat_add_usize (v_cbu s4) bytes)
            | _ => s4
            end in
  v_out (force_immediate_ack s5) = v_out s2 /\ v_rx s5 = rx1.
Proof. cbv zeta. destruct r; split; reflexivity. Qed.

Lemma pim_data_cases (s2 : vsock) m res offset s' r :
  pim_data cci s2 m res offset = SOk s' r ->
  (offset <? 0 = true /\ v_cbu s' = USIZE_MAX) \/
  (offset <? 0 = false /\
   ((ooq_is_empty (v_rx s') = true /\ ooq_is_empty (v_rx s2) = true) \/
    v_cbu s' = USIZE_MAX \/ exists p, v_out s' = p :: v_out s2) /\
   (ooq_is_empty (v_rx s2) = false -> v_cbu s' = USIZE_MAX \/ exists p, v_out s' = p :: v_out s2)).
Proof.
  unfold pim_data. destruct (offset <? 0) eqn:Eo.
  { intros H. inversion H; subst. left. split; reflexivity. }
  cbv zeta. intro H. right. split; [reflexivity|].
  destruct (rx_add_remove _ KData (m_payload m) offset) as [[rx1 ar] w].
  destruct ar as [a|]; [|discriminate]. destruct (add_err a); [discriminate|].
  destruct (pim_data_out s2 m rx1 w a) as [Ho Hr]. cbv zeta in Ho, Hr.
  match type of H with (if ?c then _ else _) = _ => destruct c eqn:Ec end.
  - match type of H with context [send_ack ?x] => destruct (send_ack x) as [s6 b| |] eqn:Es end;
      cbn [sbind] in H; try discriminate. inversion H; subst.
    apply send_ack_forced in Es; [|reflexivity].
    assert (G : v_cbu s' = USIZE_MAX \/ exists p, v_out s' = p :: v_out s2).
    { destruct Es as [K|[p Hp]]; [left; exact K|right]. exists p. rewrite Hp, Ho. reflexivity. }
    split; [right; exact G | intros _; exact G].
  - inversion H; subst. apply orb_false_iff in Ec. destruct Ec as [Ec1 Ec2].
    rewrite negb_false_iff in Ec1, Ec2.
    split; [left; split; [exact Ec1 | exact Ec2] | intro K; congruence].
Qed.

Lemma pim_fin_forced (s2 : vsock) m res offset seen s' r :
  pim_fin s2 m res offset seen = SOk s' r -> v_cbu s' = USIZE_MAX.
Proof.
  unfold pim_fin. cbv zeta. destruct (_ && _).
  - destruct (rx_add_remove _ KFin _ _) as [[rx1 ar] w].
    destruct ar as [a|]; [|discriminate]. destruct (add_err a); [discriminate|].
    destruct (mark_vsock_closed _) as [tx1 w2]. intro H; inversion H; subst. reflexivity.
  - intro H; inversion H; subst. reflexivity.
Qed.

(* a trigger message: the ACK is forced, or was sent on the spot *)
Theorem pim_trigger (s : vsock) m s' r :
  process_incoming_message cci s m = SOk s' r -> trig s m = true ->
  v_cbu s' = USIZE_MAX \/ exists p, v_out s' = p :: v_out s.
Proof.
  intros H Ht. rewrite process_incoming_message_eq in H. unfold trig, c07_is_trigger in Ht.
  rewrite !andb_true_iff in Ht. destruct Ht as ((Hh & Hc) & Hk).
  destruct (state_table_continues s (m_hdr m) Hh Hc) as (s1 & Es & L1 & R1 & O1 & C1).
  rewrite Es in H. unfold pim_cont in H.
  destruct (pim_ack cci s1 (m_hdr m)) as [[s2 res]|] eqn:Ea; [|discriminate].
  destruct (pim_ack_fields _ _ _ _ Ea) as (L2 & R2 & O2 & C2).
  cbv zeta in H. destruct (ch_type (m_hdr m)) eqn:Et; try discriminate.
  - apply pim_data_cases in H. rewrite L2, L1 in H. rewrite R2, R1, O2, O1 in H.
    destruct H as [[_ H]|(Eo & _ & H)]; [left; exact H|].
    rewrite Eo in Hk. cbn [orb] in Hk. rewrite negb_true_iff in Hk. exact (H Hk).
  - left. eapply pim_fin_forced; exact H.
Qed.

(* any message: the empty/non-empty status of the reassembly queue stays, or the ACK is forced / sent *)
Theorem pim_status (s : vsock) m s' r :
  process_incoming_message cci s m = SOk s' r ->
  ooq_is_empty (v_rx s') = ooq_is_empty (v_rx s) \/ v_cbu s' = USIZE_MAX \/
  exists p, v_out s' = p :: v_out s.
Proof.
  intros H. rewrite process_incoming_message_eq in H.
  pose proof (state_table_rx s (m_hdr m)) as T.
  destruct (state_table s (m_hdr m)) as [s1|s1 e|s1]; try discriminate.
  - inversion H; subst. left. destruct T as [T _]. rewrite T. reflexivity.
  - destruct T as [R1 O1]. unfold pim_cont in H.
    destruct (pim_ack cci s1 (m_hdr m)) as [[s2 res]|] eqn:Ea; [|discriminate].
    destruct (pim_ack_fields _ _ _ _ Ea) as (L2 & R2 & O2 & C2).
    cbv zeta in H. destruct (ch_type (m_hdr m)) eqn:Et.
    + apply pim_data_cases in H. rewrite R2, R1, O2, O1 in H.
      destruct H as [[_ H]|(_ & [[H1 H2]|H] & _)]; [right; left; exact H | left; congruence | right; exact H].
    + right; left. eapply pim_fin_forced; exact H.
    + inversion H; subst. left. congruence.
    + inversion H; subst. left. congruence.
    + inversion H; subst. left. congruence.
Qed.

End Trig.

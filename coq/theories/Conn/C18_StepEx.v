(* C18, step level: the guards of the predicates are met by steps of reachable traces
   (constant-window congestion controller; computed). *)
From Utp Require Import Base.Prelude Wire.SeqNr Wire.Header Rtt.Rtte Mtu.SegSizes
  Rx.Rx Tx.Ring Tx.Segments Conn.Recovery Conn.Msg Conn.VSockRec Conn.VSock
  Conn.VSockRun Conn.VObs Conn.C10_Pred Conn.C10_Proofs Conn.C18_Pred Conn.C18_Pred2.

Definition c18_cfg (nagle : bool) : vconfig :=
  {| vc_incoming := false; vc_ipv4 := true; vc_link_mtu := 1500; vc_rx_buf := 1048576;
     vc_tx_init := 32768; vc_tx_max := 1048576; vc_nagle := nagle; vc_max_retx := 5;
     vc_inactivity := 10000000000; vc_wait_last_ack := true; vc_mtu_probe_max_retx := 1;
     vc_isn := 100; vc_remote_seq := 1; vc_remote_conn_id := 7; vc_remote_wnd := 1048576;
     vc_remote_ts := 5; vc_syn_sent := 0; vc_now0 := 1000000 |}.

Definition c18_msg (ack wnd : Z) : msg :=
  {| m_hdr := {| ch_type := ST_STATE; ch_conn_id := 0; ch_ts := 10; ch_ts_diff := 0; ch_wnd := wnd;
                 ch_seq := 1; ch_ack := ack; ch_sack := None; ch_close_reason := None |};
     m_payload := [] |}.

(* 3000 bytes: a 528-byte segment and a 991-byte MTU probe; both acknowledged (mss becomes 991);
   the next poll cuts one full segment and holds 490 bytes back; 600 more bytes are written: *)
Definition c18_ops_on : list vop :=
  [VoWrite (repeat 0 (Z.to_nat 3000)); VoPoll [];
   VoDeliver (c18_msg 102 1048576); VoPoll [];
   VoWrite (repeat 0 600%nat); VoPoll []].

(* Nagle on: in the last poll the table is not empty, the newest segment is no probe, a new FULL
   segment is cut behind it and the partial rest (99 bytes) stays unsegmented *)
Lemma c18_nagle_guard_nonvacuous :
  exists w cfg ops,
    vconfig_ok cfg = true /\ vc_nagle cfg = true /\
    existsb (fun st => c18_is_poll st && c18_pre (fs_pre st) && c18_no_probe_last (fs_pre st)
                       && nonempty (f_segs (fs_pre st))
                       && (f_seg_offset (fs_pre st) <? f_seg_offset (fs_post st))
                       && (0 <? f_unsegmented (fs_post st))
                       && (f_unsegmented (fs_post st) <? f_mss (fs_pre st)))
            (wtrace w cfg ops) = true /\
    forallb (c18_nagle_ok cfg) (wtrace w cfg ops) = true /\
    (* the pipe has not drained: buffered bytes remain unsegmented, the table is not empty *)
    existsb (fun st => c18_completed st && (0 <? f_last_remote_window (fs_post st))
                       && (f_seg_len_bytes (fs_post st) <? f_tx_len (fs_post st)))
            (wtrace w cfg ops) = true /\
    forallb (c18_drain_sends_ok cfg) (wtrace w cfg ops) = true.
Proof.
  exists 100000, (c18_cfg true), c18_ops_on.
  split; [vm_compute; reflexivity|]. split; [reflexivity|].
  split; [vm_compute; reflexivity|]. split; [vm_compute; reflexivity|].
  split; vm_compute; reflexivity.
Qed.

(* Nagle off: the same start; then the peer's window shrinks to 700 bytes and 3000 bytes are
   written: 700 bytes are segmented, the window is the limit *)
Definition c18_ops_off : list vop :=
  [VoWrite (repeat 0 (Z.to_nat 3000)); VoPoll [];
   VoDeliver (c18_msg 102 1048576); VoPoll [];
   VoWrite (repeat 0 400%nat); VoPoll [];
   VoDeliver (c18_msg 104 700); VoWrite (repeat 0 3000%nat); VoPoll []].

Definition c18_off_guard (cfg : vconfig) (st : fstep) : bool :=
  c18_completed st && negb (vc_nagle cfg)
  && c18_no_probe_last (fs_pre st) && c18_no_probe_last (fs_post st)
  && negb (is_remote_fin_or_later (f_state (fs_post st)))
  && (0 <? f_tx_len (fs_post st)).

Lemma c18_off_guard_nonvacuous :
  exists w cfg ops,
    vconfig_ok cfg = true /\ vc_nagle cfg = false /\
    (* everything segmented *)
    existsb (fun st => c18_off_guard cfg st && (f_unsegmented (fs_post st) =? 0)
                       && (f_seg_offset (fs_pre st) <? f_seg_offset (fs_post st)))
            (wtrace w cfg ops) = true /\
    (* the window was the limit *)
    existsb (fun st => c18_off_guard cfg st && (0 <? f_unsegmented (fs_post st))
                       && (f_last_remote_window (fs_post st) =? f_seg_offset (fs_post st) - f_seg_offset (fs_pre st)))
            (wtrace w cfg ops) = true /\
    forallb (c18_off_all_segmented_ok cfg) (wtrace w cfg ops) = true.
Proof.
  exists 100000, (c18_cfg false), c18_ops_off.
  split; [vm_compute; reflexivity|]. split; [reflexivity|].
  split; [vm_compute; reflexivity|]. split; vm_compute; reflexivity.
Qed.

(* why c18_off_all_segmented_ok asks for "no undelivered probe outstanding" BEFORE the poll too:
   an expired probe is popped and its bytes are cut again from below the old next-byte offset, so
   the offset difference no longer measures what was segmented.  3000 bytes, the 528-byte segment
   acknowledged with a window of 600, the 991-byte probe retransmitted once and expired: the poll
   pops it, cuts 528 + 72 bytes (the window IS the limit), and the next-byte offset ends 391
   bytes below where it started. *)
Definition c18_ops_expired : list vop :=
  [VoWrite (repeat 0 (Z.to_nat 3000)); VoPoll [];
   VoDeliver (c18_msg 101 600); VoPoll [];
   VoSetNow 3000000000; VoPoll [];
   VoSetNow 9000000000; VoPoll []].

Lemma c18_off_probe_guard_needed :
  exists w cfg ops,
    vconfig_ok cfg = true /\ vc_nagle cfg = false /\
    existsb (fun st => c18_completed st && negb (c18_no_probe_last (fs_pre st))
                       && c18_no_probe_last (fs_post st)
                       && negb (is_remote_fin_or_later (f_state (fs_post st)))
                       && (0 <? f_unsegmented (fs_post st))
                       && (f_seg_offset (fs_post st) - f_seg_offset (fs_pre st) <? f_last_remote_window (fs_post st))
                       && (f_seg_offset (fs_post st) <? f_seg_offset (fs_pre st)))
            (wtrace w cfg ops) = true /\
    forallb (c18_off_all_segmented_ok cfg) (wtrace w cfg ops) = true.
Proof.
  exists 100000, (c18_cfg false), c18_ops_expired.
  split; [vm_compute; reflexivity|]. split; [reflexivity|].
  split; vm_compute; reflexivity.
Qed.

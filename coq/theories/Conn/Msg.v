(* Types shared by the connection model (src/stream_dispatch.rs). Model only. *)
From Utp Require Import Base.Prelude Wire.SeqNr Wire.Header Tx.Segments Conn.Recovery.

Record msg := { m_hdr : chdr; m_payload : list Z }.

(* a datagram handed to the transport *)
Record packet := { p_hdr : chdr; p_payload : list Z }.

(* what the transport answers to one send attempt *)
Inductive send_outcome := TSent | TPending | TEmsgsize | TIoErr.

(* wake-ups fired by the dispatcher during a poll *)
Inductive vwake := VwReader | VwWriter | VwSelf.

(* enum VirtualSocketState *)
Inductive vstate :=
| SynReceived
| SynAckSent (count : Z)
| Established
| FinWait1 (our_fin : Z)
| FinWait2
| LastAck (our_fin remote_fin : Z)
| Closed.

Definition state_is_closed (s : vstate) (wait_for_last_ack : bool) : bool :=
  match s with
  | Closed => true
  | LastAck _ _ => negb wait_for_last_ack
  | _ => false
  end.

Definition is_local_fin_or_later (s : vstate) : bool :=
  match s with
  | SynReceived | SynAckSent _ | Established => false
  | _ => true
  end.

Definition our_fin_if_unacked (s : vstate) : option Z :=
  match s with FinWait1 f | LastAck f _ => Some f | _ => None end.

Definition is_remote_fin_or_later (s : vstate) : bool :=
  match s with LastAck _ _ | Closed => true | _ => false end.

(* ValidatedSocketOpts, the part the connection reads *)
Record vopts := {
  o_nagle : bool;
  o_max_retx : Z;                 (* max_segment_retransmissions *)
  o_tx_max : Z;                   (* vsock_tx_bufsize_bytes_max *)
  o_inactivity : Z;               (* remote_inactivity_timeout, ns *)
  o_wait_for_last_ack : bool;
  o_mtu_probe_max_retx : Z;
  o_tmp_buf_len : Z;              (* this_poll.tmp_buf.len() = max_ss at creation + UTP_HEADER *)
}.

Inductive bug_site :=
| BugRecvInClosed | BugUnexpectedPacketInSynReceived | BugEmsgSizeNoProbe
| BugInBufferComputations | BugCantEnqueue | BugOffsetBeyondBufferBounds
| BugRequestedLengthExceedsBufferBounds | BugTruncateFront
| BugInvalidMessageExpectedStDataOrFin | BugAssemblerMissingSlot | BugUnreachable.

Inductive verror :=
| ErrStResetReceived
| ErrMaxRetransmissionsReached
| ErrMaxSynAckRetransmissionsReached
| ErrRemoteInactiveForTooLong
| ErrSend                         (* transport error other than EMSGSIZE on a data segment *)
| ErrZeroPayloadStData
| ErrBug (b : bug_site).

Inductive poll_result := PollPending | PollReadyOk | PollReadyErr (e : verror) | PollPanic.

(* protocol constants (src/constants.rs); re-read from the compiled crate on every run *)
Definition ACK_DELAY : Z := 40000000.
Definition IMMEDIATE_ACK_EVERY_RMSS : Z := 2.
Definition SYNACK_RESEND_INTERNAL : Z := 200000000.
Definition SHUTDOWN_FINAL_CHANCE_DELAY : Z := 1000000000.

(* Timer<..> : Idle = None, Armed{expires_at} = Some *)
Definition timer_expired (t : option Z) (now : Z) : bool :=
  match t with Some e => e <=? now | None => false end.

Definition timer_arm (t : option Z) (now delay : Z) (restart : bool) : option Z :=
  match t with
  | None => Some (now + delay)
  | Some e => if restart then Some (now + delay) else Some (Z.min e (now + delay))
  end.

Definition opt_min (a b : option Z) : option Z :=
  match a, b with
  | None, x | x, None => x
  | Some x, Some y => Some (Z.min x y)
  end.

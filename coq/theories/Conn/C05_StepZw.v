(* C05, zero-window clause at step level, for the polls that end with the connection still open:
   - [pim_idle]: with the inbox drained and its channel open, process_all_incoming_messages leaves the sender
     alone;
   - [Z]: whatever ST_DATA a poll has emitted so far went out in single-segment mode (counter positive), in
     loss recovery, or into a window that is not zero;
   - the staged walk (Conn/C05_Walk.v) that carries [Z], the ghost invariant [J] of Conn/C05_StepLemmas.v,
     the bundle [B] and the segment-size invariant [sp] through a Pending poll. *)
From Utp Require Import Base.Prelude Wire.SeqNr Wire.Header Rtt.Rtte Rtt.Rtte_Proofs Mtu.SegSizes Rx.Rx Tx.Ring
  Tx.Segments Tx.Segments_Proofs Conn.Recovery Conn.Msg Conn.VSockRec Conn.VSock Conn.VSockRun Conn.VObs
  Conn.VSock_Lemmas Conn.VSock_LemmasTx Conn.VSock_LemmasIn Conn.VSock_LemmasStep Conn.VSock_LemmasReach
  Conn.VSock_LemmasTimers Conn.VSock_LemmasPipe Conn.C17_StepLemmas Conn.C05_Pred Conn.C05_Proofs
  Conn.C05_StepLemmas Conn.C05_Segs Conn.C05_Walk.

Section WithCC.
Context {CC : Type} (cci : cc_iface CC).
Notation vsock := (vsock CC).

(* ------------------------------------------------------------------ closed is absorbing *)
Lemma st_rel_closed_mono a b w : st_rel a b -> state_is_closed a w = true -> state_is_closed b w = true.
Proof. destruct a, b; cbn [st_rel state_is_closed]; intros; try tauto; try discriminate; auto. Qed.

(* ------------------------------------------------------------------ a drained inbox *)
Lemma pim_idle (s s' : vsock) u :
  IBE s -> process_all_incoming_messages cci s = SOk s' u ->
  v_out s' = v_out s /\ v_rto_retransmissions s' = v_rto_retransmissions s /\
  v_last_remote_window s' = v_last_remote_window s /\ v_cc s' = v_cc s /\
  v_t_retransmit s' = v_t_retransmit s /\ v_last_sent_seq_nr s' = v_last_sent_seq_nr s /\
  v_state s' = v_state s /\ v_ss s' = v_ss s /\
  is_recovering (v_recovery s') = is_recovering (v_recovery s) /\
  v_inbox s' = [] /\ v_inbox_closed s' = false.
Proof.
  intros [Hi Hc] H. rewrite paim_eq in H. rewrite Hi in H. cbn [app recv_loop] in H.
  rewrite Hi, Hc in H. cbn [sbind fst] in H. unfold paim_rest in H.
  cbn [on_ack_result_default ar_acked_segments ar_newly_sacked_segments Z.ltb Z.compare orb sbind] in H.
  destruct (rv_phase (v_recovery (set_inbox_waker s true))) eqn:Ep.
  - inversion H; subst. vsimpl_goal. repeat split; auto.
  - inversion H; subst. vsimpl_goal. repeat split; auto.
  - destruct (calc_pipe _ _ _ _ _) as [[[sg pp] rcl]|]; [|discriminate].
    inversion H; subst. unfold set_recovering. vsimpl_goal. unfold is_recovering. cbn [rv_phase].
    cbn [v_recovery set_inbox_waker] in Ep. rewrite Ep. repeat split; auto.
Qed.

(* ---- ZW *)
Definition RECb (s : vsock) : bool := is_recovering (v_recovery s).

Definition ZW (s : vsock) : Prop :=
  dout s = [] \/ 0 < v_rto_retransmissions s \/ RECb s = true \/ v_last_remote_window s <> 0.

(* the fields Z reads, kept *)
Lemma Z_keep (s s' : vsock) :
  dout s' = dout s -> v_rto_retransmissions s' = v_rto_retransmissions s ->
  RECb s' = RECb s -> v_last_remote_window s' = v_last_remote_window s -> ZW s -> ZW s'.
Proof. unfold ZW. intros -> -> -> ->. auto. Qed.

Lemma SQ_Z (s s' : vsock) : SQ s s' -> ZW s -> ZW s'.
Proof.
  intros (A1&A2&A3&A4&A5&A6&A7&A8&A9&A10&A11). apply Z_keep; auto. unfold RECb. rewrite A9. reflexivity.
Qed.

(* ------------------------------------------------------------------ the two loops of send_tx_queue *)
Lemma rec_new_keeps (s : vsock) h :
  stk (fun s s' => v_last_remote_window s' = v_last_remote_window s /\
                   (RECb s = true -> RECb s' = true) /\
                   (RECb s = false -> v_last_remote_window s = 0 -> segs_pos (v_segs s) -> s' = s))
      s (rec_new cci s h).
Proof.
  unfold rec_new.
  destruct (rec_branch s h) as [s1 ret|s1 e|] eqn:Er; cbn [sbind stk]; auto.
  assert (Hs1 : step_st (rec_branch s h) = Some s1) by (rewrite Er; reflexivity).
  assert (H1 : v_last_remote_window s1 = v_last_remote_window s /\
               (RECb s = true -> RECb s1 = true) /\ (RECb s = false -> s1 = s /\ ret = false)).
  { unfold rec_branch, RECb, is_recovering in *. destruct (rv_phase (v_recovery s)) as [rp|d|rc] eqn:Eph.
    - injection Er as <- <-. repeat split; auto; discriminate.
    - injection Er as <- <-. repeat split; auto; discriminate.
    - destruct (recovery_loop (rec_items s rc) s h (mss (v_ss s)) (rec_st0 rc)) as [s0 res|s0 e|] eqn:El;
        cbn [sbind] in Er; try discriminate.
      assert (Hl : step_st (recovery_loop (rec_items s rc) s h (mss (v_ss s)) (rec_st0 rc)) = Some s0)
        by (rewrite El; reflexivity).
      destruct (recovery_loop_spec _ _ _ _ _ _ Hl) as (sent & _ & (Hf & _) & _).
      unfold sd_frame in Hf. destruct Hf as (F1 & F2 & F3 & _).
      assert (Ha : step_st (rec_after rc h (mss (v_ss s)) s0 res) = Some s1) by (rewrite Er; reflexivity).
      destruct (rec_after_spec _ _ _ _ _ _ Ha) as (P & A1 & A2 & A3 & A4 & A5 & A6 & A7 & A8 & A9 & A10).
      split; [congruence|]. split; [intros _; exact A10|discriminate]. }
  destruct H1 as (L1 & R1 & N1).
  destruct ret.
  { cbn [stk]. split; [exact L1|]. split; [exact R1|]. intros Hn. destruct (N1 Hn) as [_ X]. discriminate. }
  destruct (new_branch cci s1 h) as [s2 u|s2 e|] eqn:En; cbn [stk]; auto.
  assert (Hs2 : step_st (new_branch cci s1 h) = Some s2) by (rewrite En; reflexivity).
  destruct (new_branch_spec cci _ _ _ Hs2) as (sent & rest & s1' & E & (Hf & _) & _ & P & A1 & A2 & A3 & A4 & A5 & _).
  unfold sd_frame in Hf. destruct Hf as (F1 & F2 & F3 & F4 & _).
  split; [congruence|]. split.
  - intro Hr. unfold RECb in *. rewrite A5, F4. auto.
  - intros Hn Hz Hp. destruct (N1 Hn) as [-> _].
    unfold new_branch in En. rewrite zero_window_budget in En; auto.
    rewrite zero_window_loop in En by exact Hp. cbn [sbind new_after] in En. congruence.
Qed.

(* ------------------------------------------------------------------ send_tx_queue keeps Z *)
Lemma send_tx_queue_Z now r0 e0 (s : vsock) :
  B now s -> J r0 e0 now s -> sp s -> ZW s -> stk (fun _ s' => ZW s') s (send_tx_queue cci s).
Proof.
  intros HB HJ [_ [Hsp _]] HZ. rewrite send_tx_queue_eq.
  destruct (v_transport_pending s); [exact HZ|].
  set (h := outgoing_header s).
  destruct (rto_branch cci s h) as [s1 ret|s1 e|] eqn:Er; cbn [sbind stk]; auto.
  assert (Hs : step_st (rto_branch cci s h) = Some s1) by (rewrite Er; reflexivity).
  pose proof (rto_branch_spec cci _ _ _ Hs) as Ho. rewrite Er in Ho.
  assert (Hn : v_now s = now) by apply HB.
  assert (Hrto0 : 0 <= v_rto_retransmissions s) by apply HB.
  (* the state after the RTO part: Z holds, and the table keeps its sizes *)
  assert (H1 : ZW s1 /\ (0 < v_rto_retransmissions s1 \/ segs_pos (v_segs s1))).
  { destruct Ho as [Ho Hf Hsg Hls Hne Hnq
                   | f rest Hexp Hit Hr Ho Hok Hsg Hrto Hls Htx Hop Hnow Hrw Hst Hpr Htr P
                   | fin Hexp Hit Hfin Hls Hr Ho Hsg Hrto Hls' Htx Hop Hnow Hrt Htr P].
    - unfold sd_frame in Hf. destruct Hf as (F1 & F2 & F3 & F4 & F5 & _).
      split; [|right; rewrite Hsg; exact Hsp].
      eapply Z_keep; [apply dout_eq; exact Ho|exact F5|unfold RECb; rewrite F4; reflexivity|exact F3|exact HZ].
    - split; [right; left; lia|left; lia].
    - split; [|right; rewrite Hsg; exact Hsp]. left.
      assert (Ee : texp s now = true) by (unfold texp; rewrite <- Hn; exact Hexp).
      destruct (J_A_of_expired _ _ _ _ HJ Ee) as (A1 & _).
      unfold dout. rewrite Ho. cbn [filter]. unfold fin_pkt.
      rewrite is_data_ctrl by (cbn [hdr_with ch_type]; discriminate). exact A1. }
  destruct H1 as (Z1 & P1).
  unfold after_rto_k.
  destruct ret; [exact Z1|].
  destruct (Z.ltb_spec 0 (v_rto_retransmissions s1)) as [Hpos|Hz]; [exact Z1|].
  destruct (ss_segs (v_segs s1)) as [|g0 gs] eqn:Esg; [exact Z1|].
  fold (rec_new cci s1 h).
  destruct P1 as [P1|P1]; [lia|].
  pose proof (rec_new_keeps s1 h) as Hk.
  destruct (rec_new cci s1 h) as [s' u|s' e|]; cbn [stk] in *; auto.
  destruct Hk as (K1 & K2 & K3).
  destruct (RECb s1) eqn:Erec.
  - right; right; left. auto.
  - destruct (Z.eq_dec (v_last_remote_window s1) 0) as [Hw|Hw].
    + rewrite (K3 eq_refl Hw P1). exact Z1.
    + right; right; right. rewrite K1. exact Hw.
Qed.

(* ------------------------------------------------------------------ KJ, function by function *)
Lemma poll_start_KJ (s : vsock) : KJ s (poll_start s).
Proof.
  intros now r0 e0 H0 (Ht & Hn & He) HJ. split.
  - split; [apply (poll_start_ti s); exact Ht|]. split; [exact He|exact He].
  - eapply J_QREL; [exact HJ|]. apply SQ_QREL. apply poll_start_SQ.
Qed.

Lemma maybe_send_syn_ack_KJ (s : vsock) : stRk KJ s (maybe_send_syn_ack s).
Proof.
  apply stk_SQ_KJ; [apply maybe_send_syn_ack_ti|apply step_frame_frame0, maybe_send_syn_ack_frame|
    apply maybe_send_syn_ack_SQ].
Qed.

Lemma send_ack_KJ (s : vsock) : stRk KJ s (send_ack s).
Proof. apply stk_SQ_KJ; [apply send_ack_ti|apply step_frame_frame0, send_ack_frame|apply send_ack_SQ]. Qed.

Lemma process_all_KJ (s : vsock) : stRk KJ s (process_all_incoming_messages cci s).
Proof. apply stk_KQ_KJ. intro now. apply process_all_KQ. Qed.

Lemma rx_flush_KJ (s : vsock) rx1 w : KJ s (add_wakes (set_rx s rx1) (rx_wakes w)).
Proof. apply SQ_KJ; [apply add_wakes_rx_SQ|apply rx_flush_ti|reflexivity|reflexivity]. Qed.

Lemma split_KJ (s : vsock) : stRk KJ s (split_tx_queue_into_segments cci s).
Proof. apply stk_KQ_KJ. intro now. apply split_KQ. Qed.

Lemma send_tx_queue_KJ (s : vsock) : stRk KJ s (send_tx_queue cci s).
Proof.
  pose proof (send_tx_queue_ti cci s) as Ht. pose proof (send_tx_queue_frame cci s) as Hf.
  destruct (send_tx_queue cci s) as [s' u|s' e|] eqn:E; cbn [stRk stR step_frame] in *; auto.
  intros now r0 e0 H0 HB HJ. split; [eapply B_frame; eauto|].
  pose proof (send_tx_queue_J cci now r0 e0 s HB H0 HJ) as H. rewrite E in H. exact H.
Qed.

Lemma transition_to_fin_wait_1_KJ (s : vsock) : KJ s (transition_to_fin_wait_1 s).
Proof.
  pose proof (transition_to_fin_wait_1_frame s) as (_ & E & N & _).
  apply SQ_KJ; [apply transition_to_fin_wait_1_SQ|apply transition_to_fin_wait_1_ti|exact N|exact E].
Qed.

Lemma maybe_send_fin_KJ (s : vsock) : stRk KJ s (maybe_send_fin s).
Proof.
  apply stk_KQ_KJ. intro now. apply stk_KQ; [apply maybe_send_fin_ti|apply maybe_send_fin_frame|].
  apply maybe_send_fin_QREL.
Qed.

Lemma maybe_send_ack_KJ (s : vsock) : stRk KJ s (maybe_send_ack s).
Proof.
  apply stk_SQ_KJ; [apply maybe_send_ack_ti|exact (maybe_send_ack_frame0 s)|apply maybe_send_ack_SQ].
Qed.

Lemma poll_tail_KJ (s : vsock) : KJ s (poll_tail s).
Proof.
  destruct (poll_tail_fields s) as (_ & _ & _ & _ & _ & _ & Hn & _ & _ & _ & _ & He & _).
  apply SQ_KJ; [apply poll_tail_SQ|apply poll_tail_ti|exact Hn|exact He].
Qed.

(* ------------------------------------------------------------------ the stage predicates *)
Definition GG (now r0 : Z) (e0 : bool) (s : vsock) : Prop := B now s /\ J r0 e0 now s /\ sp s.

Definition W0 (s : vsock) : Prop := SC s \/ (ZW s /\ (dout s = [] \/ IBE s)).
Definition W1 (s : vsock) : Prop := SC s \/ (ZW s /\ (v_transport_pending s = true \/ IBE s)).
Definition WQ (s : vsock) : Prop := SC s \/ ZW s.

Lemma W0_WQ s : W0 s -> WQ s.
Proof. unfold W0, WQ. tauto. Qed.
Lemma W1_WQ s : W1 s -> WQ s.
Proof. unfold W1, WQ. tauto. Qed.

Lemma GG_step now r0 e0 (s s' : vsock) :
  0 <= r0 -> KJ s s' -> spR s s' -> GG now r0 e0 s -> GG now r0 e0 s'.
Proof.
  intros H0 HK HS (HB & HJ & HP). destruct (HK now r0 e0 H0 HB HJ) as [HB' HJ'].
  split; [exact HB'|]. split; [exact HJ'|apply HS; exact HP].
Qed.

Lemma qb_IBE (s s' : vsock) : qb s s' -> IBE s -> IBE s'.
Proof. intros (_&_&_&_&_&Q6&Q7&_) [H1 H2]. unfold IBE. rewrite Q6, Q7. auto. Qed.

Lemma qb_SC (s s' : vsock) : qb s s' -> SC s -> SC s'.
Proof. intros (_&_&_&_&_&_&_&_&_&_&Q11&_). exact Q11. Qed.

Lemma qb_tp (s s' : vsock) : qb s s' -> v_transport_pending s = true -> v_transport_pending s' = true.
Proof. intros (_&_&_&_&_&_&_&_&_&Q10&_). exact Q10. Qed.

(* a function that leaves the sender alone keeps W0 and W1 *)
Lemma W0_SQ (s s' : vsock) : SQ s s' -> qb s s' -> W0 s -> W0 s'.
Proof.
  intros HS HQ [H|[HZ H]]; [left; eapply qb_SC; eauto|right].
  split; [eapply SQ_Z; eauto|]. destruct H as [H|H]; [left|right; eapply qb_IBE; eauto].
  destruct HS as (A1 & _). congruence.
Qed.

Lemma W1_SQ (s s' : vsock) : SQ s s' -> qb s s' -> W1 s -> W1 s'.
Proof.
  intros HS HQ [H|[HZ H]]; [left; eapply qb_SC; eauto|right].
  split; [eapply SQ_Z; eauto|]. destruct H as [H|H]; [left; eapply qb_tp; eauto|right; eapply qb_IBE; eauto].
Qed.

Lemma poll_start_qb0 (s : vsock) : SC s -> SC (poll_start s).
Proof. intro H; exact H. Qed.

(* ---- segmentation keeps Z ---- *)
Lemma split_rto (s : vsock) :
  stk (fun s s' => v_last_remote_window s' = v_last_remote_window s /\
                   (v_rto_retransmissions s' = v_rto_retransmissions s \/
                    timer_expired (v_t_retransmit s) (v_now s) = true))
      s (split_tx_queue_into_segments cci s).
Proof.
  unfold split_tx_queue_into_segments. cbv zeta.
  destruct (_ =? 0); [cbn [stk]; auto|].
  match goal with |- stk _ _ (if is_remote_fin_or_later (v_state ?x) then _ else _) => set (sx := x) end.
  assert (F : v_last_remote_window sx = v_last_remote_window s /\
              v_rto_retransmissions sx = v_rto_retransmissions s /\
              v_t_retransmit sx = v_t_retransmit s /\ v_now sx = v_now s).
  { subst sx. destruct (_ && _); [|auto]. destruct (grow _ _) as [tx1 g]. destruct g; [|auto].
    destruct (wake_writer tx1) as [tx2 w]. unfold add_wakes. vsimpl_goal. auto. }
  clearbody sx. destruct F as (F1 & F2 & F3 & F4).
  destruct (is_remote_fin_or_later _); [cbn [stk]; auto|].
  destruct (pop_expired_mtu_probe (v_segs sx) _ _) as [segs1 pe] eqn:Ep.
  assert (Hcont : forall (tl : Z) (s2 : vsock),
    (v_last_remote_window s2 = v_last_remote_window s /\
     (v_rto_retransmissions s2 = v_rto_retransmissions s \/ timer_expired (v_t_retransmit s) (v_now s) = true)) ->
    stk (fun s s' => v_last_remote_window s' = v_last_remote_window s /\
                   (v_rto_retransmissions s' = v_rto_retransmissions s \/
                    timer_expired (v_t_retransmit s) (v_now s) = true)) s
      (if tl <? ss_len_bytes (v_segs s2) then SErr s2 (ErrBug BugInBufferComputations)
       else match segment_loop (ring (v_tx s2)) (o_nagle (v_opts s2)) (v_ss s2) (v_segs s2)
                    (tl - ss_len_bytes (v_segs s2)) (v_last_remote_window s2) with
            | Some (ss', segs', remaining) =>
                SOk (set_unsegmented (VSockRec.set_segs (set_ss s2 ss') segs') remaining) tt
            | None => SPanic
            end)).
  { intros tl s2 G2. destruct (_ <? _); [exact I|].
    destruct (segment_loop _ _ _ _ _ _) as [[[ss' segs'] rem]|]; [|exact I]. cbn [stk]. vsimpl_goal. exact G2. }
  destruct pe.
  - apply Hcont. split; [destruct (seq_gt _ _); vsimpl_goal; exact F1|]. right.
    unfold pop_expired_mtu_probe in Ep. rewrite <- F3, <- F4.
    destruct (last_and_init _) as [[init g]|]; [|discriminate].
    destruct (sg_delivered g); [discriminate|].
    destruct (timer_expired (v_t_retransmit sx) (v_now sx)); [reflexivity|].
    cbn [andb] in Ep. destruct (sg_probe g); discriminate.
    (* (repair of D6: the flag is `expired && not local-fin`; false when not expired) *)
  - cbn [stk]. vsimpl_goal. auto.
  - apply Hcont. auto.
Qed.

Lemma split_Z now r0 e0 (s : vsock) :
  B now s -> J r0 e0 now s -> ZW s -> stk (fun _ s' => ZW s') s (split_tx_queue_into_segments cci s).
Proof.
  intros HB HJ HZ.
  pose proof (split_rto s) as H1. pose proof (split_QREL cci now s HB) as H2.
  pose proof (split_tx_queue_into_segments_qb cci s) as H3.
  destruct (split_tx_queue_into_segments cci s) as [s' u|s' e|]; cbn [stk stR] in *; auto.
  destruct H1 as (L1 & L2). destruct H2 as (D1 & _). destruct H3 as (_ & _ & Q3 & _).
  destruct L2 as [L2|L2].
  - eapply Z_keep; [exact D1|exact L2|unfold RECb; rewrite Q3; reflexivity|exact L1|exact HZ].
  - left. rewrite D1.
    assert (Ee : texp s now = true) by (unfold texp; destruct HB as (_ & Hn & _); rewrite <- Hn; exact L2).
    apply (J_A_of_expired _ _ _ _ HJ Ee).
Qed.

Lemma maybe_send_fin_Z (s : vsock) : ZW s -> stk (fun _ s' => ZW s') s (maybe_send_fin s).
Proof.
  intro HZ. pose proof (maybe_send_fin_spec s) as H.
  destruct (maybe_send_fin s) as [s' [|]|s' e|]; cbn [stk]; auto.
  - destruct H as (seq & _ & _ & Hf & Ho & _).
    unfold sd_frame in Hf. destruct Hf as (F1 & F2 & F3 & F4 & F5 & _).
    eapply Z_keep; [|exact F5|unfold RECb; rewrite F4; reflexivity|exact F3|exact HZ].
    eapply dout_cons_ctrl; [exact Ho|]. apply is_data_ctrl. cbn [hdr_with ch_type]. discriminate.
  - eapply SQ_Z; [apply sd_unchanged_SQ; exact H|exact HZ].
Qed.

(* ------------------------------------------------------------------ poll_loop from poll_start *)
Lemma poll_body_start (s : vsock) : poll_body cci (poll_start s) = poll_body cci s.
Proof. reflexivity. Qed.

Lemma poll_loop_start : forall fuel (s s' : vsock),
  poll_loop cci fuel s = (s', PollPending) -> poll_loop cci fuel (poll_start s) = (s', PollPending).
Proof.
  intros [|fuel] s s' H; cbn [poll_loop] in *; [discriminate|].
  rewrite poll_body_start. destruct (poll_body cci s); [exact H|exact H|discriminate].
Qed.

(* ------------------------------------------------------------------ the walk *)
Section Walk.
Variables (now r0 : Z) (e0 : bool).
Hypothesis H0 : 0 <= r0.

Let G := GG now r0 e0.
Let PA (s : vsock) : Prop := G s /\ W0 s.
Let PB (s : vsock) : Prop := G s /\ W1 s.
Let PQ (s : vsock) : Prop := G s /\ WQ s.

Lemma stk_G {A} (s : vsock) (m : step A) :
  stRk KJ s m -> stRk spR s m -> G s -> stW G m.
Proof.
  intros HK HS HG. destruct m as [s' a|s' e|]; cbn [stRk stW] in *; auto.
  eapply GG_step; eauto.
Qed.

Lemma stW_and (P Q' : vsock -> Prop) {A} (m : step A) :
  stW P m -> stW Q' m -> stW (fun s => P s /\ Q' s) m.
Proof. destruct m; cbn [stW]; auto. Qed.

Lemma stW_SQ_W0 {A} (s : vsock) (m : step A) : stk SQ s m -> stR qb s m -> W0 s -> stW W0 m.
Proof. destruct m; cbn [stk stR stW]; auto. intros. eapply W0_SQ; eauto. Qed.

Lemma stW_SQ_W1 {A} (s : vsock) (m : step A) : stk SQ s m -> stR qb s m -> W1 s -> stW W1 m.
Proof. destruct m; cbn [stk stR stW]; auto. intros. eapply W1_SQ; eauto. Qed.

Theorem poll_loop_zw : forall fuel (s s' : vsock),
  PA s -> poll_loop cci fuel s = (s', PollPending) -> PQ s'.
Proof.
  intros fuel s s' HA H.
  cut (exists k' : nat, (k' < 0 + fuel)%nat /\ PQ s'); [intros (k' & _ & HQ); exact HQ|].
  apply (poll_loop_W cci (fun _ => PA) (fun _ => PA) (fun _ => PB) (fun _ => PB) (fun _ => PB)
              (fun _ => PB) (fun _ => PB) (fun _ => PQ)) with (s := s); try assumption.
  - (* poll_start *)
    intros _ a [HG HW]. split.
    + eapply GG_step; [exact H0|apply poll_start_KJ|apply SQ_spR, poll_start_SQ|exact HG].
    + destruct HW as [HW|[HZ HW]]; [left; exact HW|right]. split; [eapply SQ_Z; [apply poll_start_SQ|exact HZ]|].
      destruct HW as [HW|HW]; [left; exact HW|right; exact HW].
  - intros _ a [HG HW] _. apply stW_and.
    + apply (stk_G a); [apply maybe_send_syn_ack_KJ|apply stk_SQ_spR, maybe_send_syn_ack_SQ|exact HG].
    + apply (stW_SQ_W0 a); [apply maybe_send_syn_ack_SQ|apply maybe_send_syn_ack_qb|exact HW].
  - intros _ a [HG HW] _. apply stW_and.
    + apply (stk_G a); [apply send_ack_KJ|apply stk_SQ_spR, send_ack_SQ|exact HG].
    + apply (stW_SQ_W0 a); [apply send_ack_SQ|apply send_ack_qb|exact HW].
  - (* process_all_incoming_messages *)
    intros _ a [HG HW] _. apply stW_and.
    + apply (stk_G a); [apply process_all_KJ|apply process_all_spR|exact HG].
    + pose proof (process_all_incoming_messages_pimr cci a) as P'.
      pose proof (process_all_incoming_messages_post cci a) as Post.
      pose proof (pim_idle a) as Idle.
      pose proof (process_all_KQ cci now a) as KQ'.
      destruct (process_all_incoming_messages cci a) as [b u|b e|]; cbn [stW stR stk] in *; auto.
      specialize (Post b u eq_refl). specialize (Idle b u).
      destruct HW as [HW|[HZ HW]]; [left; apply P'; exact HW|].
      destruct HW as [HW|HW].
      * destruct Post as [Po|Po]; [left; exact Po|right].
        split; [|destruct Po as [Po|Po]; [left; exact Po|right; exact Po]].
        left. destruct HG as (HB & _). destruct (KQ' HB) as [_ (D1 & _)]. congruence.
      * destruct (Idle HW eq_refl) as (I1 & I2 & I3 & I4 & I5 & I6 & I7 & I8 & I9 & I10 & I11).
        right. split; [|right; split; assumption].
        eapply Z_keep; [apply dout_eq; exact I1|exact I2|exact I9|exact I3|exact HZ].
  - (* flush *)
    intros _ a rx1 fb w [HG HW] _ _. split.
    + eapply GG_step; [exact H0|apply rx_flush_KJ|apply SQ_spR, add_wakes_rx_SQ|exact HG].
    + eapply W1_SQ; [apply add_wakes_rx_SQ|apply rx_flush_qb|exact HW].
  - (* split *)
    intros _ a [HG HW] [T0 _]. apply stW_and.
    + apply (stk_G a); [apply split_KJ|apply split_spR|exact HG].
    + destruct HG as (HB & HJ & _).
      pose proof (split_Z now r0 e0 a HB HJ) as HZ'.
      pose proof (split_tx_queue_into_segments_qb cci a) as HQ.
      destruct (split_tx_queue_into_segments cci a) as [b u|b e|]; cbn [stW stR stk] in *; auto.
      destruct HW as [HW|[HZ HW]]; [left; eapply qb_SC; eauto|right].
      split; [apply HZ'; exact HZ|]. destruct HW as [HW|HW]; [congruence|right; eapply qb_IBE; eauto].
  - (* send_tx_queue *)
    intros _ a [HG HW] [T0 R0].
    pose proof (stk_G a _ (send_tx_queue_KJ a) (send_tx_queue_spR cci a) HG) as HG'.
    destruct HG as (HB & HJ & HP).
    pose proof (send_tx_queue_Z now r0 e0 a HB HJ HP) as HZ'.
    pose proof (send_tx_queue_txf cci a) as X'.
    pose proof (send_tx_queue_frame cci a) as F'.
    destruct (send_tx_queue cci a) as [b u|b e|]; cbn [stW stR stk step_frame] in *; auto.
    destruct X' as (X1 & X2 & X3 & X4 & X5 & X6 & X7 & X8). destruct F' as (F1 & _).
    assert (HW' : SC b \/ (ZW b /\ IBE b)).
    { destruct HW as [HW|[HZ HW]]; [left; unfold SC in *; rewrite X7, F1; exact HW|right].
      split; [apply HZ'; exact HZ|]. destruct HW as [HW|HW]; [congruence|].
      unfold IBE in *. rewrite X5, X6. exact HW. }
    split; [|split]; intros; (split; [exact HG'|]); unfold W0, W1, WQ; tauto.
  - (* transition_to_fin_wait_1 *)
    intros _ a [HG HW] _. split.
    + eapply GG_step; [exact H0|apply transition_to_fin_wait_1_KJ|apply SQ_spR, transition_to_fin_wait_1_SQ|exact HG].
    + eapply W1_SQ; [apply transition_to_fin_wait_1_SQ|apply transition_to_fin_wait_1_qb|exact HW].
  - (* maybe_send_fin *)
    intros _ a [HG HW] _. apply stW_and.
    + apply (stk_G a); [apply maybe_send_fin_KJ|apply maybe_send_fin_spR|exact HG].
    + pose proof (maybe_send_fin_qb a) as HQ.
      assert (HZ' : ZW a -> stk (fun _ s' => ZW s') a (maybe_send_fin a)) by apply maybe_send_fin_Z.
      destruct (maybe_send_fin a) as [b u|b e|]; cbn [stW stR stk] in *; auto.
      destruct HW as [HW|[HZ HW]]; [left; eapply qb_SC; eauto|right].
      split; [apply HZ'; exact HZ|].
      destruct HW as [HW|HW]; [left; eapply qb_tp; eauto|right; eapply qb_IBE; eauto].
  - (* maybe_send_ack *)
    intros _ a [HG HW] _. apply stW_and.
    + apply (stk_G a); [apply maybe_send_ack_KJ|apply stk_SQ_spR, maybe_send_ack_SQ|exact HG].
    + apply (stW_SQ_W1 a); [apply maybe_send_ack_SQ|apply maybe_send_ack_qb|exact HW].
  - intros _ a [HG HW] _. split; [exact HG|apply W0_WQ; exact HW].
  - intros _ a [HG HW] _. split; [exact HG|apply W1_WQ; exact HW].
  - intros _ a [HG HW] _. split; [exact HG|apply W1_WQ; exact HW].
  - intros _ a [HG HW] _. split; [exact HG|apply W1_WQ; exact HW].
  - (* the timer tail *)
    intros _ a [HG HW] _ _. split.
    + eapply GG_step; [exact H0|apply poll_tail_KJ|apply SQ_spR, poll_tail_SQ|exact HG].
    + destruct (poll_tail_fields a) as (_ & _ & _ & St & _ & _ & _ & _ & _ & _ & _ & _ & _ & _ & Op & _).
      destruct HW as [HW|[HZ _]]; [left; unfold SC in *; rewrite St, Op; exact HW|right].
      eapply SQ_Z; [apply poll_tail_SQ|exact HZ].
Qed.

End Walk.

(* what a Pending poll leaves behind, from a state that satisfies the invariants ti and sp *)
Theorem poll_pending_zw (s : vsock) sc s' :
  ti s -> sp s -> poll cci (VSockRec.set_sends s sc) = (s', PollPending) ->
  v_env_now s' = v_env_now s /\
  J (v_rto_retransmissions s) (timer_expired (v_t_retransmit s) (v_env_now s)) (v_env_now s) s' /\
  (SC s' \/ ZW s').
Proof.
  intros Hti Hsp H. rewrite poll_unfold in H. apply poll_loop_start in H.
  assert (Hr0 : 0 <= v_rto_retransmissions s) by apply Hti.
  apply (poll_loop_zw (v_env_now s) (v_rto_retransmissions s)
           (timer_expired (v_t_retransmit s) (v_env_now s)) Hr0) in H.
  - destruct H as ((HB & HJ & _) & HW). split; [apply HB|]. split; [exact HJ|exact HW].
  - split; [split; [|split]|].
    + split; [exact Hti|]. split; reflexivity.
    + apply JA; [reflexivity|reflexivity|]. unfold texp. cbn. auto.
    + exact Hsp.
    + right. split; [left; reflexivity|left; reflexivity].
Qed.

End WithCC.

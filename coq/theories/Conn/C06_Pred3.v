(* C06 — guarded form of c06_stable_plen_ok.  Model-only file: no proofs.
   "payload size per sequence number is stable; only a segment that went out as an MTU probe may come back
   with another size".  The map of Conn/C06_Pred.v (sequence number -> (payload size, was a probe)) is never
   emptied there, so after 65536 emitted segments a number of the next lap meets the entry of the previous one.
   Here the map FORGETS: after each poll every entry whose number the table after the poll no longer names
   (acknowledged, or a popped probe that was not re-created) is dropped.  The check is claimed of the polls
   the transport cannot answer with EMSGSIZE (Conn/C06_Pred2.v poll_noemsg) whose tables before and after are
   within the wrap tolerance (tol_ok); any other poll empties the map (nothing is claimed across it). *)
From Utp Require Import Base.Prelude Wire.SeqNr Wire.Header Conn.Recovery Conn.Msg Conn.VSockRun Conn.VObs
  Conn.C06_Pred Conn.C06_Pred2.

Definition seq_named (f : vfp) (q : Z) : bool :=
  match fseg_of_seq f q with Some _ => true | None => false end.

Definition stable_step_g (lim : option Z) (acc : list (Z * (Z * bool))) (st : fstep)
  : bool * list (Z * (Z * bool)) :=
  match fs_event st with
  | FePoll _ =>
      if poll_noemsg lim st && tol_ok (fs_pre st) && tol_ok (fs_post st) then
        let '(ok, m) := stable_step acc st in
        (ok, filter (fun e : Z * (Z * bool) => seq_named (fs_post st) (fst e)) m)
      else (true, [])
  | _ => (true, acc)
  end.

Fixpoint stable_trace_g (lim : option Z) (acc : list (Z * (Z * bool))) (l : list fstep) : bool :=
  match l with
  | [] => true
  | st :: r => let '(ok, acc') := stable_step_g lim acc st in ok && stable_trace_g (lim_next lim st) acc' r
  end.

Definition c06_stable_plen_ok_g (cfg : vconfig) (l : list fstep) : bool := stable_trace_g None [] l.

(* the unconditional core: WITHIN one poll (EMSGSIZE-free, table after it within the tolerance) the datagrams
   that carry the same sequence number carry the same payload size, unless the first one was an MTU probe *)
Definition c06_stable_plen_poll (cfg : vconfig) (st : fstep) : bool :=
  if tol_ok (fs_post st) then fst (stable_step [] st) else true.

Definition c06_stable_plen_ok_p (cfg : vconfig) (tr : list fstep) : bool :=
  noemsg_scan (c06_stable_plen_poll cfg) None tr.

(* C03 (connection-level half) — proofs. *)
From Utp Require Import Base.Prelude Wire.SeqNr Wire.Header Rtt.Rtte Mtu.SegSizes Rx.Rx Rx.Rx_Proofs
  Tx.Ring Tx.Ring_Proofs Tx.Segments Conn.Recovery Conn.Msg Conn.VSockRec Conn.VSock Conn.VSockRun
  Conn.VObs Conn.VSock_LemmasFin Conn.C17_Proofs Conn.C03_Pred.

(* ================================================================== the reader after death *)
Lemma read_loop_grows : forall fuel s room out s' out' dead err,
  read_loop fuel s room out = (s', out', dead, err) -> out <> [] -> out' <> [].
Proof.
  induction fuel as [|fuel IH]; intros s room out s' out' dead err; cbn [read_loop].
  { intro H; injection H as <- <- <- <-. auto. }
  destruct (room <=? 0); [intro H; injection H as <- <- <- <-; auto|].
  destruct (current s) as [|c cs] eqn:Ec.
  - destruct (is_eof s); [intro H; injection H as <- <- <- <-; auto|].
    destruct (q s) as [|item qrest].
    + destruct (vsock_closed s); intro H; injection H as <- <- <- <-; auto.
    + destruct item; try (intro H; injection H as <- <- <- <-; auto).
      intros H Hn. eapply IH; eauto.
  - intros H Hn. eapply IH; [exact H|]. destruct out; [congruence|discriminate].
Qed.

(* with the dispatcher gone the read loop always reaches a verdict *)
Lemma read_loop_closed : forall fuel s room out s' out' dead err,
  vsock_closed s = true -> 0 < room ->
  (2 * length (q s) + (match current s with [] => 0 | _ => 1 end) + 1 <= fuel)%nat ->
  read_loop fuel s room out = (s', out', dead, err) ->
  out' <> [] \/ is_eof s' = true \/ dead = true \/ err = true.
Proof.
  induction fuel as [|fuel IH]; intros s room out s' out' dead err Hc Hr Hf; [lia|].
  cbn [read_loop]. destruct (Z.leb_spec room 0) as [Hle|Hgt]; [lia|].
  destruct (current s) as [|c cs] eqn:Ec.
  - destruct (is_eof s) eqn:Ee; [intro H; injection H as <- <- <- <-; auto|].
    destruct (q s) as [|item qrest] eqn:Eq.
    + rewrite Hc. intro H; injection H as <- <- <- <-; auto.
    + destruct item as [bs| |].
      * intro H. eapply IH in H; eauto. cbn [q current length] in *. destruct bs; lia.
      * intro H; injection H as <- <- <- <-. cbn [is_eof]. auto.
      * intro H; injection H as <- <- <- <-. auto.
  - intro H. left. eapply read_loop_grows; [exact H|].
    assert (Hn : (0 < Z.to_nat (Z.min room (Z.of_nat (length (c :: cs)))))%nat) by (cbn [length]; lia).
    destruct (Z.to_nat _); [lia|]. cbn [firstn]. destruct out; discriminate.
Qed.

Theorem read_after_close_never_pending : forall s n s' r w,
  vsock_closed s = true -> 0 < n -> rx_read s n = (s', r, w) -> r <> RdPending.
Proof.
  intros s n s' r w Hc Hn. unfold rx_read.
  destruct (read_loop _ s n []) as [[[s1 out] dead] err] eqn:E.
  apply read_loop_closed in E; [|exact Hc|exact Hn|destruct (current s); lia].
  destruct err; [intro H; injection H as <- <- <-; discriminate|].
  destruct out; [|intro H; injection H as <- <- <-; discriminate].
  destruct (is_eof s1); [intro H; injection H as <- <- <-; discriminate|].
  destruct dead; [intro H; injection H as <- <- <-; discriminate|].
  destruct E as [E|[E|[E|E]]]; congruence.
Qed.

(* reading keeps the half closed, so every later read resolves as well *)
Theorem read_keeps_closed : forall s n s' r w,
  rx_inv s -> rx_read s n = (s', r, w) -> vsock_closed s' = vsock_closed s.
Proof. intros s n s' r w Hi H. apply (rx_read_spec _ _ _ _ _ Hi H). Qed.

(* ================================================================== the writer after death *)
Theorem write_after_close : forall s buf,
  t_vsock_closed s = true ->
  poll_write s buf = (s, WrErrClosed, []) \/
  (exists s', poll_write s buf = (s', WrPending, [TwSelf]) /\ t_vsock_closed s' = true /\
              forall buf', poll_write s' buf' = (s', WrErrClosed, [])).
Proof.
  intros s buf Hc. unfold poll_write.
  destruct (YIELD_EVERY <? written_without_yield s) eqn:Ey.
  - right. eexists. split; [reflexivity|]. cbn [t_vsock_closed upd]. split; [exact Hc|].
    intro buf'. unfold poll_write. cbn [written_without_yield upd t_vsock_closed]. rewrite Hc.
    reflexivity.
  - left. rewrite Hc. reflexivity.
Qed.

Theorem flush_after_close : forall s,
  t_vsock_closed s = true ->
  poll_flush s = (s, (match ring s with [] => UrOk | _ => UrErr end), []).
Proof. intros s Hc. unfold poll_flush. destruct (ring s); [reflexivity|]. rewrite Hc. reflexivity. Qed.

Theorem shutdown_after_close : forall s,
  t_vsock_closed s = true ->
  poll_shutdown s = (s, (match ring s with [] => UrOk | _ => UrErr end), []).
Proof. intros s Hc. unfold poll_shutdown. destruct (ring s); rewrite Hc; reflexivity. Qed.

(* ================================================================== (f) death resolves *)
Section WithCC.
Context {CC : Type} (cci : cc_iface CC).
Notation vsock := (vsock CC).

(* error death: the state just_before_death leaves behind, in terms of the component models *)
Theorem death_resolves : forall (s : vsock) e,
  vsock_closed (v_rx s) = false ->
  let s' := just_before_death s (Some e) in
  vsock_closed (v_rx s') = true /\ t_vsock_closed (v_tx s') = true /\
  q (v_rx s') = q (v_rx s) ++ [QError] /\
  reader_waker (v_rx s') = false /\ writer_waker (v_tx s') = false /\
  (reader_waker (v_rx s) = true -> In VwReader (v_wakes s')) /\
  (writer_waker (v_tx s) = true -> In VwWriter (v_wakes s')) /\
  (forall n, 0 < n -> snd (fst (rx_read (v_rx s') n)) <> RdPending) /\
  (forall buf, snd (fst (poll_write (v_tx s') buf)) = WrErrClosed \/
               (snd (fst (poll_write (v_tx s') buf)) = WrPending /\ snd (poll_write (v_tx s') buf) = [TwSelf])) /\
  snd (fst (poll_flush (v_tx s'))) = (match ring (v_tx s) with [] => UrOk | _ => UrErr end) /\
  snd (fst (poll_shutdown (v_tx s'))) = (match ring (v_tx s) with [] => UrOk | _ => UrErr end) /\
  drop_vsock s' = add_wakes s' [].
Proof.
  intros s e Hlive. pose proof (just_before_death_spec s (Some e) Hlive) as H. cbv zeta in *.
  destruct H as ((B1 & B2 & B3) & Hrw & Hst & Hring & _ & _ & Hq & HwR & HwW & _).
  repeat split; auto.
  - intros n Hn. destruct (rx_read _ n) as [[s1 r] w] eqn:E. cbn [fst snd].
    eapply read_after_close_never_pending; eauto.
  - intro buf. destruct (write_after_close (v_tx (just_before_death s (Some e))) buf B2) as [->|(s1 & -> & _)];
      cbn [fst snd]; auto.
  - rewrite (flush_after_close _ B2). cbn [fst snd]. rewrite Hring. reflexivity.
  - rewrite (shutdown_after_close _ B2). cbn [fst snd]. rewrite Hring. reflexivity.
  - unfold drop_vsock, mark_both_closed, rx_mark_vsock_closed, mark_vsock_closed. rewrite B1.
    set (s' := just_before_death s (Some e)) in *.
    assert (Ht : upd (v_tx s') (ring (v_tx s')) (cap (v_tx s')) true (writer_dropped (v_tx s'))
                   (writer_shutdown (v_tx s')) (t_disp_waker (v_tx s')) false
                   (written_without_yield (v_tx s')) (g_written (v_tx s')) (g_removed (v_tx s')) = v_tx s').
    { destruct (v_tx s'). cbn in *. subst. reflexivity. }
    rewrite Ht, B3. cbn [rx_wakes tx_wakes flat_map app]. destruct s'. reflexivity.
Qed.

(* clean death (both FINs exchanged): same, without a queued error *)
Theorem ok_death_resolves : forall (s : vsock),
  vsock_closed (v_rx s) = false ->
  let s' := just_before_death s None in
  vsock_closed (v_rx s') = true /\ t_vsock_closed (v_tx s') = true /\ q (v_rx s') = q (v_rx s) /\
  reader_waker (v_rx s') = false /\ writer_waker (v_tx s') = false /\
  (reader_waker (v_rx s) = true -> In VwReader (v_wakes s')) /\
  (writer_waker (v_tx s) = true -> In VwWriter (v_wakes s')) /\
  v_out s' = v_out s /\
  (forall n, 0 < n -> snd (fst (rx_read (v_rx s') n)) <> RdPending).
Proof.
  intros s Hlive. pose proof (just_before_death_spec s None Hlive) as H. cbv zeta in *.
  destruct H as ((B1 & B2 & B3) & Hrw & Hst & Hring & _ & _ & Hq & HwR & HwW & Hout).
  repeat split; auto.
  intros n Hn. destruct (rx_read _ n) as [[s1 r] w] eqn:E. cbn [fst snd].
  eapply read_after_close_never_pending; eauto.
Qed.

(* cancellation (the future is dropped without a Ready result): Drop marks both halves closed *)
Theorem drop_resolves : forall (s : vsock),
  let s' := drop_vsock s in
  vsock_closed (v_rx s') = true /\ t_vsock_closed (v_tx s') = true /\ writer_waker (v_tx s') = false /\
  (vsock_closed (v_rx s) = false -> reader_waker (v_rx s') = false) /\
  (forall n, 0 < n -> snd (fst (rx_read (v_rx s') n)) <> RdPending).
Proof.
  intro s. pose proof (mark_both_closed_spec s) as H. cbv zeta in *. unfold drop_vsock.
  destruct H as ((B1 & B2 & B3) & _ & _ & _ & _ & _ & _ & _ & B9 & _).
  repeat split; auto.
  intros n Hn. destruct (rx_read _ n) as [[s1 r] w] eqn:E. cbn [fst snd].
  eapply read_after_close_never_pending; eauto.
Qed.

(* ---- the poll that returns Ready went through just_before_death ---- *)
Lemma bail_ready {A} (m : step A) k (s : vsock) r :
  bail m k = BrReturn s r -> r <> PollPending ->
  (exists s0 e, m = SErr s0 e /\ s = just_before_death s0 (Some e) /\ r = PollReadyErr e) \/
  (exists s1 a, m = SOk s1 a /\ k s1 a = BrReturn s r).
Proof.
  unfold bail, die. destruct m as [s1 a|s1 e|]; intros H Hr; try discriminate.
  - destruct (v_restart s1); [discriminate|]. right. eauto.
  - injection H as <- <-. left. eauto.
Qed.

Lemma pend_ready {A} (m : step A) k (s : vsock) r :
  pend m k = BrReturn s r -> r <> PollPending ->
  (exists s0 e, m = SErr s0 e /\ s = just_before_death s0 (Some e) /\ r = PollReadyErr e) \/
  (exists s1 a, m = SOk s1 a /\ k s1 a = BrReturn s r).
Proof.
  unfold pend. intros H Hr. apply bail_ready in H; [|exact Hr].
  destruct H as [H|(s1 & a & Hm & Hk)]; [left; exact H|right].
  destruct (v_transport_pending s1); [injection Hk as <- <-; congruence|].
  destruct (v_restart s1); [discriminate|]. eauto.
Qed.

Definition died (s : vsock) (r : poll_result) : Prop :=
  exists s0 eo, s = just_before_death s0 eo /\
    match eo with Some e => r = PollReadyErr e | None => r = PollReadyOk end.

Theorem poll_body_ready_died : forall s0 s r,
  poll_body cci s0 = BrReturn s r -> r <> PollPending -> died s r.
Proof.
  intros s0 s r H Hr. unfold poll_body in H.
  assert (E : forall s1 e, s = just_before_death s1 (Some e) /\ r = PollReadyErr e -> died s r).
  { intros s1 e [H1 H2]. exists s1, (Some e). auto. }
  repeat (apply pend_ready in H; [|exact Hr];
          destruct H as [(? & ? & _ & H)|(? & ? & _ & H)]; [eapply E; exact H|]).
  destruct (rx_flush _) as [[rx1 fr] w]. destruct fr; cbv beta iota zeta in H; [|discriminate].
  destruct (timer_expired _ _).
  { unfold die in H. injection H as Hs Hrr. eexists _, (Some _). split; [symmetry; exact Hs|symmetry; exact Hrr]. }
  apply bail_ready in H; [|exact Hr].
  destruct H as [(? & ? & _ & H)|(? & ? & _ & H)]; [eapply E; exact H|].
  repeat (apply pend_ready in H; [|exact Hr];
          destruct H as [(? & ? & _ & H)|(? & ? & _ & H)]; [eapply E; exact H|]).
  destruct (state_is_closed _ _).
  - injection H as Hs Hrr. eexists _, None. split; [symmetry; exact Hs|symmetry; exact Hrr].
  - destruct (next_timer_to_poll _) as [s9 t]. injection H as Hs Hrr. congruence.
Qed.

Theorem poll_ready_died : forall fuel s0 s r,
  poll_loop cci fuel s0 = (s, r) -> r = PollReadyOk \/ (exists e, r = PollReadyErr e) -> died s r.
Proof.
  induction fuel as [|fuel IH]; intros s0 s r; cbn [poll_loop].
  { intros H [->|[e ->]]; discriminate. }
  destruct (poll_body cci s0) as [s1 r1|s1|] eqn:E.
  - intros H Hr. injection H as <- <-. eapply poll_body_ready_died; [exact E|].
    destruct Hr as [->|[e ->]]; discriminate.
  - apply IH.
  - intros H [->|[e ->]]; discriminate.
Qed.

(* ================================================================== (h) bounded failure *)
Theorem max_retransmissions_error : forall (s : vsock) h f,
  seg_retransmit_count (fs_seg f) = o_max_retx (v_opts s) ->
  send_data s h f = SErr s ErrMaxRetransmissionsReached.
Proof. intros s h f H. unfold send_data. rewrite H, Z.eqb_refl. reflexivity. Qed.

(* an RTO expiry on a segment already retransmitted max_retx times fails the connection *)
Theorem rto_exhausted_error : forall (s : vsock) f l,
  v_transport_pending s = false -> timer_expired (v_t_retransmit s) (v_now s) = true ->
  iter_for_sending (v_segs s) None = f :: l ->
  seg_retransmit_count (fs_seg f) = o_max_retx (v_opts s) ->
  send_tx_queue cci s = SErr s ErrMaxRetransmissionsReached.
Proof.
  intros s f l Hp Ht Hi Hc. unfold send_tx_queue. rewrite Hp, Ht, Hi.
  rewrite (max_retransmissions_error s (outgoing_header s) f Hc). reflexivity.
Qed.

(* each successful RTO retransmission raises the count by one (so the (max_retx+1)-th expiry fails) *)
Theorem seg_on_sent_counts : forall g now,
  seg_retransmit_count (seg_on_sent g now) =
  match sg_sent g with NotSent => 0 | SentTime _ => 1 | Retransmitted c _ => c + 1 end.
Proof. intros g now. unfold seg_on_sent, seg_retransmit_count. cbn [sg_sent]. destruct (sg_sent g); reflexivity. Qed.

(* ================================================================== (g) EOF only after everything *)
(* a FIN is stored for the reader only when the table lets it through: in the data states - and, since
   the repair of D19, while our SYN-ACK is unanswered - only the in-sequence FIN (every earlier
   sequence number consumed); otherwise the message changes nothing *)
Theorem fin_stored_only_in_sequence : forall (s : vsock) m s' r,
  ch_type (m_hdr m) = ST_FIN ->
  ((exists k, v_state s = SynAckSent k) \/
   v_state s = Established \/ (exists f, v_state s = FinWait1 f) \/ v_state s = FinWait2) ->
  process_incoming_message cci s m = SOk s' r -> v_rx s' <> v_rx s ->
  ch_seq (m_hdr m) = wadd16 (v_last_consumed s) 1.
Proof.
  intros s m s' r Ht Hs H Hne.
  destruct (Z.eq_dec (ch_seq (m_hdr m)) (wadd16 (v_last_consumed s) 1)) as [E|E]; [exact E|].
  rewrite (peer_fin_out_of_sequence cci s m Ht Hs E) in H. injection H as <- _. congruence.
Qed.

End WithCC.

(* What a poll does to the application halves (UserRx / UserTx), to the wake-up list and to the
   sleep it arms:
   - [txf]: the sending functions (send_control_packet ... send_tx_queue, maybe_send_ack) leave
     rx, tx, the wake-ups, arm_in, the inbox and the connection state alone;
   - [reach]: every function of poll_body changes (rx, tx, wakes, arm_in) only through the
     dispatcher-side operations of Rx/Rx.v and Tx/Ring.v, each wake-up they return being appended
     to v_wakes; proved for every result of a poll ([poll_reach]) and, without the death
     operations and the timer tail, for the Pending ones ([poll_reach_pending]). *)
From Utp Require Import Base.Prelude Wire.SeqNr Wire.Header Rtt.Rtte Mtu.SegSizes Rx.Rx Tx.Ring
  Tx.Segments Conn.Recovery Conn.Msg Conn.VSockRec Conn.VSock Conn.VSockRun Conn.VObs
  Conn.VSock_Lemmas Conn.VSock_LemmasStep.

Section WithCC.
Context {CC : Type} (cci : cc_iface CC).
Notation vsock := (vsock CC).

(* ------------------------------------------------------------------ the sending path *)
Definition txf (s s' : vsock) : Prop :=
  v_rx s' = v_rx s /\ v_tx s' = v_tx s /\ v_wakes s' = v_wakes s /\ v_arm_in s' = v_arm_in s /\
  v_inbox s' = v_inbox s /\ v_inbox_closed s' = v_inbox_closed s /\ v_state s' = v_state s /\
  v_inbox_waker s' = v_inbox_waker s.

Lemma txf_refl : forall s, txf s s.
Proof. intros s. unfold txf. repeat split. Qed.

Lemma txf_trans : forall a b c, txf a b -> txf b c -> txf a c.
Proof.
  unfold txf. intros a b c (A1 & A2 & A3 & A4 & A5 & A6 & A7 & A8) (B1 & B2 & B3 & B4 & B5 & B6 & B7 & B8).
  repeat split; congruence.
Qed.

Notation stf := (stR txf).

Ltac txf_leaf := unfold txf; repeat split; exact eq_refl.

(* goal [txf s b] from [H : txf s a] where b = setters applied to a *)
Ltac txf_via H :=
  let A1 := fresh in let A2 := fresh in let A3 := fresh in let A4 := fresh in
  let A5 := fresh in let A6 := fresh in let A7 := fresh in let A8 := fresh in
  destruct H as (A1 & A2 & A3 & A4 & A5 & A6 & A7 & A8);
  unfold txf; vsimpl_goal; repeat split; assumption.

Lemma next_send_txf : forall (s : vsock) n s1 o, next_send s n = (s1, o) -> txf s s1.
Proof.
  intros s n s1 o H. unfold next_send in H.
  repeat break_match_hyp H; inversion H; subst; try inversion Heqp; subst; txf_leaf.
Qed.

Lemma send_control_packet_txf : forall (s : vsock) h, stf s (send_control_packet s h).
Proof.
  intros s h. unfold send_control_packet.
  destruct (v_transport_pending s); [apply txf_refl|].
  destruct (next_send s _) as [s1 o] eqn:E. apply next_send_txf in E.
  destruct o; cbn [stR]; auto; unfold on_packet_sent, emit; txf_via E.
Qed.

Lemma send_ack_txf : forall (s : vsock), stf s (send_ack s).
Proof. intros s. unfold send_ack. apply send_control_packet_txf. Qed.

Lemma maybe_send_fin_txf : forall (s : vsock), stf s (maybe_send_fin s).
Proof.
  intros s. unfold maybe_send_fin.
  destruct (v_transport_pending s); [apply txf_refl|].
  destruct (our_fin_if_unacked (v_state s)); [|apply txf_refl].
  destruct (negb _); [apply txf_refl|].
  apply (stR_sbind txf txf_trans); [apply send_control_packet_txf|].
  intros s1 [|]; cbn [stR]; [txf_leaf | apply txf_refl].
Qed.

Lemma send_data_txf : forall (s : vsock) h f, stf s (send_data s h f).
Proof.
  intros s h f. unfold send_data.
  destruct (_ =? o_max_retx _); [apply txf_refl|].
  destruct (_ <? 0); [exact I|].
  destruct (_ <? fs_payload_offset f); [apply txf_refl|].
  destruct (_ <? _ + _); [apply txf_refl|].
  destruct (next_send s _) as [s1 o] eqn:E. apply next_send_txf in E.
  destruct o; cbn [stR]; auto; try (unfold on_packet_sent, emit; txf_via E).
  unfold on_packet_sent, emit.
  destruct (seq_gt _ _); try destruct (seq_gt _ _); txf_via E.
Qed.

Lemma on_rto_reactions_txf : forall (s s1 : vsock), on_rto_reactions cci s = Some s1 -> txf s s1.
Proof.
  intros s s1 H. unfold on_rto_reactions in H.
  destruct (Rtte.on_rto_timeout _); inversion H; subst. txf_leaf.
Qed.

Lemma recovery_loop_txf : forall items (s : vsock) h mss0 st,
  stf s (recovery_loop items s h mss0 st).
Proof.
  induction items as [|f rest IH]; intros s h mss0 st; cbn [recovery_loop].
  - apply txf_refl.
  - destruct (negb _); [apply txf_refl|].
    destruct (_ && negb (sg_lost _)); [apply IH|].
    destruct (_ && negb (sg_sacks_after _)); [apply txf_refl|].
    pose proof (send_data_txf s h f) as F.
    destruct (send_data s h f) as [s1 r|s1 e|]; cbn [stR] in *; auto.
    destruct r; cbn [stR]; auto.
    eapply (stR_weaken txf txf_trans); [exact F | apply IH].
Qed.

Lemma new_data_loop_txf : forall items (s : vsock) h remaining,
  stf s (new_data_loop items s h remaining).
Proof.
  induction items as [|f rest IH]; intros s h remaining; cbn [new_data_loop].
  - apply txf_refl.
  - destruct (_ <? _); [apply txf_refl|].
    pose proof (send_data_txf s h f) as F.
    destruct (send_data s h f) as [s1 r|s1 e|]; cbn [stR] in *; auto.
    destruct r; cbn [stR]; auto.
    eapply (stR_weaken txf txf_trans); [exact F | apply IH].
Qed.

Lemma set_recovering_txf : forall (s : vsock) rc, txf s (set_recovering s rc).
Proof. intros. unfold set_recovering. txf_leaf. Qed.

Lemma send_tx_queue_txf : forall (s : vsock), stf s (send_tx_queue cci s).
Proof.
  intros s. unfold send_tx_queue.
  destruct (v_transport_pending s); [apply txf_refl|].
  apply (stR_sbind txf txf_trans).
  - destruct (timer_expired _ _); [|apply txf_refl].
    destruct (iter_for_sending _ _) as [|f l].
    + destruct (our_fin_if_unacked _); [|cbn [stR]; txf_leaf].
      destruct (_ =? _); [|cbn [stR]; txf_leaf].
      apply (stR_weaken txf txf_trans) with (s := set_last_sent_seq_nr s (wsub16 (v_last_sent_seq_nr s) 1));
        [txf_leaf|].
      apply (stR_sbind txf txf_trans); [apply maybe_send_fin_txf|].
      intros s1 a. destruct a; [|apply txf_refl].
      destruct (on_rto_reactions cci s1) eqn:E; [|exact I]. apply on_rto_reactions_txf in E.
      cbn [stR]. txf_via E.
    + pose proof (send_data_txf s (outgoing_header s) f) as Hd.
      destruct (send_data _ _ f) as [s1 r|s1 e|]; cbn [stR] in *; auto.
      destruct r; cbn [stR]; auto.
      cbv zeta.
      match goal with |- stR _ _ (match ?o with _ => _ end) => destruct o as [s2|] eqn:E end; [|exact I].
      assert (F2 : txf s1 s2).
      { destruct (negb _); [apply on_rto_reactions_txf; exact E|injection E as <-; apply txf_refl]. }
      cbn [stR]. pose proof (txf_trans _ _ _ Hd F2) as F3. txf_via F3.
  - intros s1 ret. destruct ret; [apply txf_refl|].
    destruct (0 <? _); [apply txf_refl|]. destruct (ss_segs _); [apply txf_refl|].
    apply (stR_sbind txf txf_trans).
    + destruct (rv_phase _); try apply txf_refl.
      apply (stR_sbind txf txf_trans); [apply recovery_loop_txf|].
      intros s2 [st early]. cbv beta iota zeta.
      destruct early; [apply set_recovering_txf|].
      match goal with |- stR _ _ (match our_fin_if_unacked (v_state ?y) with _ => _ end) =>
        assert (F3 : txf s2 y); [|revert F3; generalize y; intros sy F3] end.
      { eapply txf_trans; [apply set_recovering_txf|].
        destruct (_ <? _); [|apply txf_refl]. destruct (rc_recalc _); [txf_leaf|].
        destruct (0 <? _); [txf_leaf|apply txf_refl]. }
      destruct (our_fin_if_unacked _); [destruct (_ =? _)|]; cbn [stR]; auto.
    + intros s2 ret. destruct ret; [apply txf_refl|].
      apply (stR_sbind txf txf_trans); [apply new_data_loop_txf|].
      intros s3 tl. destruct tl as [[sq sz]|]; [|apply txf_refl].
      destruct (pop_mtu_probe _ _) as [segs' popped]. destruct popped; cbn [stR]; [txf_leaf|apply txf_refl].
Qed.

Lemma maybe_send_ack_txf : forall (s : vsock), stf s (maybe_send_ack s).
Proof.
  intros s. unfold maybe_send_ack.
  pose proof (send_ack_txf s) as G.
  destruct (immediate_ack_to_transmit s); [exact G|].
  destruct (should_send_window_update s); [exact G|].
  destruct (timer_expired _ _).
  - destruct (ack_to_transmit s); [exact G|]. cbn [stR]. txf_leaf.
  - destruct (0 <? v_cbu s); cbn [stR]; txf_leaf.
Qed.

(* ------------------------------------------------------------------ dispatcher-side operations *)
Inductive rx_dop (death : bool) : rx -> rx -> list Rx.wake -> Prop :=
| RxFlush : forall r r' fr w, rx_flush r = (r', fr, w) -> rx_dop death r r' w
| RxAdd : forall r k p off r' ar w, 0 <= off -> rx_add_remove r k p off = (r', ar, w) -> rx_dop death r r' w
| RxClose : forall r r' w, death = true -> rx_mark_vsock_closed r = (r', w) -> rx_dop death r r' w
| RxErr : forall r r' w, death = true -> rx_enqueue_error r = (r', w) -> rx_dop death r r' w.

Inductive tx_dop : tx -> tx -> list twake -> Prop :=
| TxClose : forall t t' w, mark_vsock_closed t = (t', w) -> tx_dop t t' w
| TxWake : forall t t' w, wake_writer t = (t', w) -> tx_dop t t' w
| TxTrunc : forall t n t' r, truncate_front t n = (t', r) -> tx_dop t t' []
| TxGrow : forall t m t' g, grow t m = (t', g) -> tx_dop t t' []
| TxReg : forall t, tx_dop t (register_dispatcher_if_empty t) [].

(* death: the operations of just_before_death are allowed; tl: the timer tail (arm_in) is *)
Inductive reach (death tl : bool) : vsock -> vsock -> Prop :=
| ReRefl : forall s, reach death tl s s
| ReTrans : forall a b c, reach death tl a b -> reach death tl b c -> reach death tl a c
| ReSame : forall s s',
    v_rx s' = v_rx s -> v_tx s' = v_tx s -> v_wakes s' = v_wakes s -> v_arm_in s' = v_arm_in s ->
    reach death tl s s'
| ReRx : forall s s' w,
    rx_dop death (v_rx s) (v_rx s') w -> v_tx s' = v_tx s ->
    v_wakes s' = rev (rx_wakes w) ++ v_wakes s -> v_arm_in s' = v_arm_in s -> reach death tl s s'
| ReTx : forall s s' w,
    tx_dop (v_tx s) (v_tx s') w -> v_rx s' = v_rx s ->
    v_wakes s' = rev (tx_wakes w) ++ v_wakes s -> v_arm_in s' = v_arm_in s -> reach death tl s s'
| ReArm : forall s s' d,
    tl = true -> v_rx s' = v_rx s -> v_tx s' = v_tx s -> v_arm_in s' = Some d ->
    (v_wakes s' = v_wakes s \/ (d = 0 /\ v_wakes s' = VwSelf :: v_wakes s)) ->
    reach death tl s s'.

Lemma rx_dop_mono : forall d r r' w, rx_dop d r r' w -> rx_dop true r r' w.
Proof.
  intros d r r' w H. destruct H.
  - eapply RxFlush; eauto.
  - eapply RxAdd; eauto.
  - eapply RxClose; eauto.
  - eapply RxErr; eauto.
Qed.

Lemma reach_mono : forall d t s s', reach d t s s' -> reach true true s s'.
Proof.
  intros d t s s' H. induction H.
  - apply ReRefl.
  - eapply ReTrans; eauto.
  - apply ReSame; auto.
  - eapply ReRx; eauto using rx_dop_mono.
  - eapply ReTx; eauto.
  - eapply ReArm; eauto.
Qed.

Lemma reach_mono_d : forall d t s s', reach false t s s' -> reach d t s s'.
Proof.
  intros d t s s' H. induction H.
  - apply ReRefl.
  - eapply ReTrans; eauto.
  - apply ReSame; auto.
  - eapply ReRx; eauto. destruct H; [eapply RxFlush|eapply RxAdd|discriminate|discriminate]; eauto.
  - eapply ReTx; eauto.
  - eapply ReArm; eauto.
Qed.

Lemma reach_mono_t : forall d t s s', reach d false s s' -> reach d t s s'.
Proof.
  intros d t s s' H. induction H.
  - apply ReRefl.
  - eapply ReTrans; eauto.
  - apply ReSame; auto.
  - eapply ReRx; eauto.
  - eapply ReTx; eauto.
  - discriminate.
Qed.

Lemma reach_arm_in : forall d s s', reach d false s s' -> v_arm_in s' = v_arm_in s.
Proof. intros d s s' H. induction H; try congruence. Qed.

Lemma txf_reach : forall d t s s', txf s s' -> reach d t s s'.
Proof. intros d t s s' (A1 & A2 & A3 & A4 & _). apply ReSame; assumption. Qed.

Section Live.
Variables (d t : bool).
Notation rch := (reach d t).
Notation strch := (stR rch).

Lemma rch_trans : forall a b c, rch a b -> rch b c -> rch a c.
Proof. intros a b c. apply ReTrans. Qed.

Lemma stf_strch : forall A (s : vsock) (m : step A), stf s m -> strch s m.
Proof. intros A s m H. destruct m; cbn [stR] in *; auto using txf_reach. Qed.

(* goal [rch s b] where b = setters (other than rx/tx/wakes/arm_in) applied to s *)
Ltac same_leaf := apply ReSame; exact eq_refl.

Lemma state_table_reach : forall (s : vsock) h,
  match state_table s h with TblDrop s1 | TblErr s1 _ | TblContinue s1 => rch s s1 end.
Proof.
  intros s h. unfold state_table, restart_remote_inactivity_timer.
  repeat break_match; first [apply ReRefl | same_leaf].
Qed.

Lemma add_wakes_rx_reach : forall (s : vsock) rx1 w,
  rx_dop d (v_rx s) rx1 w -> rch s (add_wakes (set_rx s rx1) (rx_wakes w)).
Proof. intros s rx1 w H. unfold add_wakes. eapply ReRx; [exact H|exact eq_refl..]. Qed.

Lemma add_wakes_tx_reach : forall (s : vsock) tx1 w,
  tx_dop (v_tx s) tx1 w -> rch s (add_wakes (set_tx s tx1) (tx_wakes w)).
Proof. intros s tx1 w H. unfold add_wakes. eapply ReTx; [exact H|exact eq_refl..]. Qed.

Lemma set_tx_reach : forall (s : vsock) tx1,
  tx_dop (v_tx s) tx1 [] -> rch s (set_tx s tx1).
Proof. intros s tx1 H. eapply ReTx; [exact H|exact eq_refl..]. Qed.

Lemma process_incoming_message_reach : forall (s : vsock) m,
  strch s (process_incoming_message cci s m).
Proof.
  intros s m. unfold process_incoming_message.
  pose proof (state_table_reach s (m_hdr m)) as T.
  destruct (state_table s (m_hdr m)) as [s1|s1 e|s1]; cbn [stR] in *; auto.
  destruct (remove_up_to_ack _ _ _ _) as [segs1 res].
  destruct (match is_recovering _, _ with | false, Some rtt => _ | _, _ => _ end) as [rtte1|]; [|exact I].
  destruct (cc_on_ack _ _ _ _ _) as [cc3|]; [|exact I].
  destruct (recovery_on_ack _ _ _ _ _ _ _ _) as [[[rec1 segs2] cc4]|]; [|exact I].
  match goal with |- context [seq_sub _ (wadd16 (v_last_consumed ?x) 1)] => set (s2 := x) end.
  assert (F2 : rch s s2) by (eapply rch_trans; [exact T|]; subst s2; same_leaf).
  clearbody s2.
  destruct (ch_type (m_hdr m)); try exact F2.
  - (* ST_DATA *)
    destruct (_ <? 0) eqn:Eoff; [cbn [stR]; eapply rch_trans; [exact F2|]; unfold force_immediate_ack; same_leaf|].
    match goal with |- context [rx_add_remove (v_rx ?x)] => set (s3 := x) end.
    assert (F3 : rch s s3) by (eapply rch_trans; [exact F2|]; subst s3; same_leaf).
    clearbody s3.
    match goal with |- context [rx_add_remove _ _ _ ?off] => assert (Hoff : 0 <= off) by lia end.
    destruct (rx_add_remove _ _ _ _) as [[rx1 ar] w] eqn:Ea.
    assert (F4 : rch s (add_wakes (set_rx s3 rx1) (rx_wakes w))).
    { eapply rch_trans; [exact F3|]. apply add_wakes_rx_reach. eapply RxAdd; [exact Hoff | exact Ea]. }
    set (s4 := add_wakes (set_rx s3 rx1) (rx_wakes w)) in *. clearbody s4.
    destruct ar as [r|]; [|exact I].
    destruct (add_err r); [exact F4|].
    match goal with |- context [send_ack (force_immediate_ack ?x)] => set (s5 := x) end.
    assert (F5 : rch s s5).
    { eapply rch_trans; [exact F4|]. subst s5. unfold restart_remote_inactivity_timer.
      destruct r; first [apply ReRefl | same_leaf]. }
    clearbody s5.
    destruct (_ || _); [|exact F5].
    assert (F6 : rch s (force_immediate_ack s5))
      by (eapply rch_trans; [exact F5|]; unfold force_immediate_ack; same_leaf).
    set (s6 := force_immediate_ack s5) in *. clearbody s6.
    apply (stR_weaken rch rch_trans) with (s := s6); [exact F6|].
    apply (stR_sbind rch rch_trans); [apply stf_strch, send_ack_txf|].
    intros s7 _. apply ReRefl.
  - (* ST_FIN *)
    destruct (_ && _) eqn:Eoff; [|cbn [stR]; eapply rch_trans; [exact F2|]; unfold force_immediate_ack; same_leaf].
    match goal with |- context [rx_add_remove (v_rx ?x)] => set (s4 := x) end.
    assert (F3 : rch s s4) by (eapply rch_trans; [exact F2|]; subst s4; unfold force_immediate_ack; same_leaf).
    clearbody s4.
    match goal with |- context [rx_add_remove _ _ _ ?off] =>
      assert (Hoff : 0 <= off) by (apply andb_true_iff in Eoff; destruct Eoff as [_ Eoff]; lia) end.
    destruct (rx_add_remove _ _ _ _) as [[rx1 ar] w] eqn:Ea.
    assert (F4 : rch s (add_wakes (set_rx s4 rx1) (rx_wakes w))).
    { eapply rch_trans; [exact F3|]. apply add_wakes_rx_reach. eapply RxAdd; [exact Hoff | exact Ea]. }
    set (s5 := add_wakes (set_rx s4 rx1) (rx_wakes w)) in *. clearbody s5.
    destruct ar as [r|]; [|exact I].
    destruct (add_err r); [exact F4|].
    destruct (mark_vsock_closed _) as [tx1 w2] eqn:Em. cbn [stR].
    eapply rch_trans; [exact F4|]. apply add_wakes_tx_reach. apply TxClose. exact Em.
Qed.

Lemma transition_to_fin_wait_1_reach : forall (s : vsock), rch s (transition_to_fin_wait_1 s).
Proof.
  intros s. unfold transition_to_fin_wait_1. destruct (v_state s); first [apply ReRefl | same_leaf].
Qed.

Lemma recv_loop_reach : forall fuel (s : vsock) acc, strch s (recv_loop cci fuel s acc).
Proof.
  assert (Hclosed : forall (s : vsock) (acc : on_ack_result),
    strch s (sbind (maybe_send_fin (transition_to_fin_wait_1 s))
                   (fun s2 _ => SOk (set_state s2 Closed) (acc, true)))).
  { intros s acc.
    apply (stR_weaken rch rch_trans) with (s := transition_to_fin_wait_1 s);
      [apply transition_to_fin_wait_1_reach|].
    apply (stR_sbind rch rch_trans); [apply stf_strch, maybe_send_fin_txf|].
    intros s2 _. cbn [stR]. same_leaf. }
  induction fuel as [|x fuel IH]; intros s acc.
  - cbn [recv_loop]. destruct (v_inbox s).
    + destruct (v_inbox_closed s); [apply Hclosed|cbn [stR]; same_leaf].
    + exact I.
  - cbn [recv_loop]. destruct (v_inbox s) as [|m rest].
    + destruct (v_inbox_closed s); [apply Hclosed|cbn [stR]; same_leaf].
    + apply (stR_weaken rch rch_trans) with (s := set_inbox s rest); [same_leaf|].
      apply (stR_sbind rch rch_trans).
      * apply process_incoming_message_reach.
      * intros s1 r. destruct (_ || _); [apply ReRefl|]. apply IH.
Qed.

Lemma process_all_incoming_messages_reach : forall (s : vsock),
  strch s (process_all_incoming_messages cci s).
Proof.
  intros s. unfold process_all_incoming_messages.
  apply (stR_sbind rch rch_trans); [apply recv_loop_reach|].
  intros s1 [r early].
  match goal with |- context [acked_counts_as_sent ?x] => set (s2 := x) end.
  assert (F2 : rch s1 s2).
  { subst s2. unfold restart_remote_inactivity_timer.
    repeat break_match; first [apply ReRefl | same_leaf]. }
  clearbody s2.
  apply (stR_weaken rch rch_trans) with (s := s2); [exact F2|].
  apply (stR_sbind rch rch_trans).
  - destruct (0 <? _); [|apply ReRefl].
    assert (F2' : rch s2 (acked_counts_as_sent s2)).
    { unfold acked_counts_as_sent. destruct (seq_gt _ _ && seq_lt _ _); [same_leaf | apply ReRefl]. }
    apply (stR_weaken rch rch_trans) with (s := acked_counts_as_sent s2); [exact F2'|].
    generalize (acked_counts_as_sent s2). intro s2'.
    destruct (truncate_front _ _) as [tx1 tr] eqn:Et.
    assert (F3 : rch s2' (set_tx s2' tx1)) by (apply set_tx_reach; eapply TxTrunc; exact Et).
    destruct tr; [|exact F3].
    destruct (wake_writer tx1) as [tx2 w] eqn:Ew. cbn [stR].
    eapply rch_trans; [exact F3|].
    assert (E : add_wakes (set_tx s2' tx2) (tx_wakes w)
                = add_wakes (set_tx (set_tx s2' tx1) tx2) (tx_wakes w)) by exact eq_refl.
    rewrite E. apply add_wakes_tx_reach. apply TxWake. exact Ew.
  - intros s3 _. unfold set_recovering.
    repeat break_match; cbn [stR]; first [exact I | apply ReRefl | same_leaf].
Qed.

Lemma maybe_send_syn_ack_reach : forall (s : vsock), strch s (maybe_send_syn_ack s).
Proof.
  intros s. unfold maybe_send_syn_ack.
  assert (G : forall c, strch s
     (if c =? o_max_retx (v_opts s) then SErr s ErrMaxSynAckRetransmissionsReached
      else sbind (send_ack s) (fun s1 sent =>
        if sent then SOk (set_t_syn_ack_resend (set_state s1 (SynAckSent (c + 1)))
               (timer_arm (v_t_syn_ack_resend s1) (v_now s1) SYNACK_RESEND_INTERNAL true)) tt
        else SOk s1 tt))).
  { intros c. destruct (_ =? _); [apply ReRefl|].
    apply (stR_sbind rch rch_trans); [apply stf_strch, send_ack_txf|].
    intros s1 [|]; cbn [stR]; [same_leaf | apply ReRefl]. }
  destruct (v_state s); try (cbn [stR]; same_leaf).
  - apply G.
  - destruct (timer_expired _ _); [apply G | apply ReRefl].
Qed.

Lemma split_tx_queue_into_segments_reach : forall (s : vsock),
  strch s (split_tx_queue_into_segments cci s).
Proof.
  intros s. unfold split_tx_queue_into_segments.
  destruct (_ =? 0); [cbn [stR]; apply set_tx_reach; apply TxReg|].
  match goal with |- context [is_remote_fin_or_later (v_state ?x)] => set (s1 := x) end.
  assert (F1 : rch s s1).
  { subst s1. destruct (_ && _); [|apply ReRefl].
    destruct (grow _ _) as [tx1 g] eqn:Eg.
    assert (F : rch s (set_tx s tx1)) by (apply set_tx_reach; eapply TxGrow; exact Eg).
    destruct g; [|exact F].
    destruct (wake_writer tx1) as [tx2 w] eqn:Ew.
    eapply rch_trans; [exact F|].
    assert (E : add_wakes (set_tx s tx2) (tx_wakes w)
                = add_wakes (set_tx (set_tx s tx1) tx2) (tx_wakes w)) by exact eq_refl.
    rewrite E. apply add_wakes_tx_reach. apply TxWake. exact Ew. }
  clearbody s1.
  destruct (is_remote_fin_or_later _); [exact F1|].
  destruct (pop_expired_mtu_probe _ _ _) as [segs1 pe].
  assert (Hcont : forall s2 : vsock, rch s s2 ->
    strch s
      (if Z.of_nat (length (ring (v_tx s))) <? ss_len_bytes (v_segs s2)
       then SErr s2 (ErrBug BugInBufferComputations)
       else match segment_loop (ring (v_tx s2)) (o_nagle (v_opts s2)) (v_ss s2) (v_segs s2)
                    (Z.of_nat (length (ring (v_tx s))) - ss_len_bytes (v_segs s2))
                    (v_last_remote_window s2) with
            | Some (ss', segs', remaining) =>
                SOk (set_unsegmented (VSockRec.set_segs (set_ss s2 ss') segs') remaining) tt
            | None => SPanic
            end)).
  { intros s2 F2. destruct (_ <? _); [exact F2|].
    destruct (segment_loop _ _ _ _ _ _) as [[[ss' segs'] rem']|]; [|exact I].
    cbn [stR]. eapply rch_trans; [exact F2|]. same_leaf. }
  destruct pe.
  - apply Hcont. eapply rch_trans; [exact F1|]. destruct (seq_gt _ _); same_leaf.
  - cbn [stR]. eapply rch_trans; [exact F1|]. same_leaf.
  - apply Hcont. exact F1.
Qed.

Lemma rx_flush_reach : forall (s : vsock) rx1 fb w,
  rx_flush (v_rx s) = (rx1, FlOk fb, w) -> rch s (add_wakes (set_rx s rx1) (rx_wakes w)).
Proof. intros s rx1 fb w H. apply add_wakes_rx_reach. eapply RxFlush; exact H. Qed.

Lemma poll_start_reach : forall (s : vsock), rch s (poll_start s).
Proof. intros s. unfold poll_start. same_leaf. Qed.

End Live.

(* ---- death and the timer tail ---- *)
Lemma mark_both_closed_reach : forall t (s : vsock), reach true t s (mark_both_closed s).
Proof.
  intros t s. unfold mark_both_closed.
  destruct (rx_mark_vsock_closed (v_rx s)) as [rx1 w1] eqn:E1.
  destruct (mark_vsock_closed (v_tx s)) as [tx1 w2] eqn:E2.
  eapply ReTrans; [apply (add_wakes_rx_reach true t s rx1 w1); apply RxClose; [reflexivity|exact E1]|].
  eapply ReTx with (w := w2); unfold add_wakes; vsimpl_goal.
  - apply TxClose. exact E2.
  - reflexivity.
  - rewrite rev_app_distr, app_assoc. reflexivity.
  - reflexivity.
Qed.

Lemma just_before_death_reach : forall t (s : vsock) e, reach true t s (just_before_death s e).
Proof.
  intros t s e. unfold just_before_death.
  match goal with |- context [mark_both_closed ?x] => set (s1 := x) end.
  assert (F1 : reach true t s s1).
  { subst s1. destruct e; [|apply ReRefl].
    destruct (rx_enqueue_error _) as [rx1 w] eqn:E.
    apply add_wakes_rx_reach. apply RxErr; [reflexivity|exact E]. }
  clearbody s1.
  pose proof (mark_both_closed_reach t s1) as F2.
  set (s2 := mark_both_closed s1) in *. clearbody s2.
  pose proof (ReTrans _ _ _ _ _ F1 F2) as F3.
  destruct e; [|exact F3].
  destruct (negb _); [|exact F3].
  match goal with |- context [send_control_packet ?x ?h] =>
    pose proof (send_control_packet_txf x h) as F4; destruct (send_control_packet x h) end;
    cbn [stR] in F4.
  - eapply ReTrans; [exact F3|]. eapply ReTrans; [|apply txf_reach; exact F4]. apply ReSame; exact eq_refl.
  - eapply ReTrans; [exact F3|]. eapply ReTrans; [|apply txf_reach; exact F4]. apply ReSame; exact eq_refl.
  - eapply ReTrans; [exact F3|]. apply ReSame; exact eq_refl.
Qed.

Lemma poll_tail_reach : forall d (s : vsock), reach d true s (poll_tail s).
Proof.
  intros d s. unfold poll_tail.
  match goal with |- context [next_timer_to_poll ?x] => set (s1 := x) end.
  assert (F1 : reach d true s s1).
  { subst s1. destruct (is_local_fin_or_later _); [apply ReSame; exact eq_refl | apply ReRefl]. }
  clearbody s1. eapply ReTrans; [exact F1|].
  unfold next_timer_to_poll. destruct (v_transport_pending s1).
  - destruct (v_t_inactivity s1) as [i|]; [|apply ReRefl].
    unfold arm_in, add_wakes. destruct (_ <=? 0) eqn:Z0.
    + eapply ReArm with (d := 0); vsimpl_goal; try reflexivity. right. split; reflexivity.
    + eapply ReArm; vsimpl_goal; try reflexivity. left; reflexivity.
  - match goal with |- context [match ?o with Some _ => _ | None => _ end] => destruct o as [i|] end.
    + unfold arm_in, add_wakes. destruct (_ <=? 0) eqn:Z0.
      * eapply ReArm with (d := 0); vsimpl_goal; try reflexivity. right. split; reflexivity.
      * eapply ReArm; vsimpl_goal; try reflexivity. left; reflexivity.
    + apply ReSame; exact eq_refl.
Qed.

(* ------------------------------------------------------------------ a whole poll *)
Theorem poll_reach : forall (s s' : vsock) r,
  poll cci s = (s', r) -> reach true true (poll_init s) s'.
Proof.
  intros s s' r H.
  apply (poll_R cci (reach true true) (ReRefl true true) (ReTrans true true)) with (r := r); try exact H.
  - apply poll_start_reach.
  - apply maybe_send_syn_ack_reach.
  - intros s0. apply stf_strch, send_ack_txf.
  - apply process_all_incoming_messages_reach.
  - apply rx_flush_reach.
  - apply split_tx_queue_into_segments_reach.
  - intros s0. apply stf_strch, send_tx_queue_txf.
  - apply transition_to_fin_wait_1_reach.
  - intros s0. apply stf_strch, maybe_send_fin_txf.
  - intros s0. apply stf_strch, maybe_send_ack_txf.
  - apply just_before_death_reach.
  - apply poll_tail_reach.
Qed.

Theorem poll_reach_pending : forall (s s' : vsock),
  poll cci s = (s', PollPending) -> pend_shape (reach false false) (poll_init s) s'.
Proof.
  intros s s' H.
  apply (poll_Rp cci (reach false false) (ReRefl false false) (ReTrans false false)); try exact H.
  - apply poll_start_reach.
  - intros s0. apply stR_stRk, maybe_send_syn_ack_reach.
  - intros s0. apply stR_stRk, stf_strch, send_ack_txf.
  - intros s0. apply stR_stRk, process_all_incoming_messages_reach.
  - apply rx_flush_reach.
  - intros s0. apply stR_stRk, split_tx_queue_into_segments_reach.
  - intros s0. apply stR_stRk, stf_strch, send_tx_queue_txf.
  - apply transition_to_fin_wait_1_reach.
  - intros s0. apply stR_stRk, stf_strch, maybe_send_fin_txf.
  - intros s0. apply stR_stRk, stf_strch, maybe_send_ack_txf.
Qed.

End WithCC.

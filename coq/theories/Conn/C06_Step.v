(* C06, step level: the predicates of Conn/C06_Pred.v (and c06_no_resend_acked of Conn/C0506_Pred2.v) as
   THEOREMS about every step of the model (every state satisfying a proved invariant, every event) and about
   every trace from vsock_new.  Machinery: Conn/C06_StepLemmas.v (PollHoare, SendRule, PimRule, fpr, CAP, OUT),
   Conn/C06_StepLemmas2.v (RTO modes, back-off, DM), Conn/C06_StepLemmas3.v (fast retransmit).
     c06_joint_ok         every trace (valid configuration)                           c06_joint_ok_trace
     c06_cap_ok           under CAPc (an invariant), every step, every result         c06_cap_ok_step / _trace
     c06_backoff_ok       under ti /\ LB 0 (invariants), every step, restarts incl.  c06_backoff_ok_step / _trace
     c06_emitted_live_ok  FALSE as stated (emitted_live_restart_refuted: restart after EMSGSIZE);
                          every poll the transport cannot answer with EMSGSIZE        c06_emitted_live_ok_poll,
                          guarded trace predicate c06_emitted_live_ok_g               c06_emitted_live_ok_g_trace
     c06_no_resend_acked  EMSGSIZE-free polls, tables within the wrap tolerance       c06_no_resend_acked_t_poll,
                          (c06_no_resend_acked_t / _g, Conn/C06_Pred2.v)              c06_no_resend_acked_g_trace
     c06_fast_retx_ok     EMSGSIZE-free polls, guard of c06_fast_retx_ok_t            c06_fast_retx_ok_t_poll,
                                                                                      c06_fast_retx_ok_g_trace
   Non-vacuity: backoff_cap_nonvacuous, fast_retx_nonvacuous.
   NOT done here: c06_rp_exit_ok, c06_stable_plen_ok (trace level). *)
From Utp Require Conn.VSock_Inv.
From Utp Require Import Base.Prelude Wire.SeqNr Wire.SeqNr_Proofs Wire.Header Rtt.Rtte Rtt.Rtte_Proofs
  Mtu.SegSizes Rx.Rx Tx.Ring Tx.Ring_Proofs Tx.Segments Tx.Segments_Proofs Tx.Segments_ProofsOut
  Conn.Recovery Conn.Msg Conn.VSockRec Conn.VSock Conn.VSockRun Conn.VObs
  Conn.VSock_Lemmas Conn.VSock_LemmasStep Conn.VSock_LemmasReach Conn.VSock_LemmasTx
  Conn.VSock_LemmasIn Conn.VSock_LemmasTimers Conn.VSock_LemmasPipe Conn.C17_StepLemmas
  Conn.C10_Pred Conn.C05_Pred Conn.C06_Pred Conn.C0506_Pred2 Conn.C06_Pred2 Conn.C06_RecProofs
  Conn.C06_StepLemmas Conn.C06_StepLemmas2 Conn.C06_StepLemmas3 Conn.C10_Proofs.

Section WithCC.
Context {CC : Type} (cci : cc_iface CC).
Notation vsock := (vsock CC).

(* ================================================================== c06_joint_ok *)
Lemma poll_write_TW : forall t buf t' r w,
  poll_write t buf = (t', r, w) ->
  g_removed t' = g_removed t /\
  Z.of_nat (length (ring t')) = Z.of_nat (length (ring t)) + match r with WrOk n => n | _ => 0 end.
Proof.
  intros t buf t' r w. unfold poll_write.
  destruct (_ <? _); [intro H; injection H as <- <- _; cbn [g_removed ring upd]; split; lia|].
  destruct (t_vsock_closed t); [intro H; injection H as <- <- _; split; lia|].
  destruct (writer_shutdown t); [intro H; injection H as <- <- _; split; lia|].
  destruct (writer_dropped t); [intro H; injection H as <- <- _; split; lia|].
  cbv zeta. destruct (Z.eqb_spec (Z.min (Z.of_nat (length buf)) (Z.max (cap t - Z.of_nat (length (ring t))) 0)) 0) as [E|E];
    intro H; injection H as <- <- _; cbn [g_removed ring upd]; [split; lia|].
  split; [reflexivity|]. rewrite app_length, firstn_length. lia.
Qed.

(* the state after an application event, and what it did to the three numbers *)
Lemma vstep_nonpoll_JI : forall w (s : vsock) o,
  JI w s -> (forall sc, o <> VoPoll sc) ->
  JI (match fresult_of (vstep_out cci s o) with FrWrite (WrOk n) => w + n | _ => w end) (vstep_state cci s o).
Proof.
  intros w s o HJ Hnp. pose proof (vstep_LB cci s o (proj1 HJ)) as L'.
  destruct HJ as (L & Q & T). unfold vstep_out, vstep_state in *.
  assert (Hsame : forall s' : vsock, v_tx s' = v_tx s -> v_segs s' = v_segs s -> JQ s' /\ TW s' = w).
  { intros s' E1 E2. unfold JQ, TW in *. rewrite E1, E2. auto. }
  destruct o; cbn [vstep fst snd fresult_of] in *.
  - split; [exact L'|]. apply Hsame; reflexivity.
  - split; [exact L'|]. apply Hsame; reflexivity.
  - exfalso. eapply Hnp; reflexivity.
  - destruct (v_inbox_closed s); cbn [fst snd fresult_of] in *; (split; [exact L'|]); apply Hsame; reflexivity.
  - split; [exact L'|]. apply Hsame; reflexivity.
  - destruct (writer_dropped (v_tx s)); [cbn [fst snd fresult_of] in *; split; [exact L'|]; apply Hsame; reflexivity|].
    destruct (poll_write (v_tx s) buf) as [[tx1 r] w0] eqn:E. cbn [fst snd fresult_of] in *.
    destruct (poll_write_TW _ _ _ _ _ E) as [G R]. split; [exact L'|].
    unfold JQ, TW in *. vsimpl_goal. rewrite G. split; [exact Q|].
    destruct r; try (destruct r); lia.
  - destruct (writer_dropped (v_tx s)); [cbn [fst snd fresult_of] in *; split; [exact L'|]; apply Hsame; reflexivity|].
    destruct (poll_flush (v_tx s)) as [[tx1 r] w0] eqn:E. cbn [fst snd fresult_of] in *.
    destruct (proj1 (VSock_Inv.tx_flag_ops (v_tx s)) _ _ _ E) as [F1 F2].
    split; [exact L'|]. unfold JQ, TW in *. vsimpl_goal. rewrite F1, F2. auto.
  - destruct (writer_dropped (v_tx s)); [cbn [fst snd fresult_of] in *; split; [exact L'|]; apply Hsame; reflexivity|].
    destruct (poll_shutdown (v_tx s)) as [[tx1 r] w0] eqn:E. cbn [fst snd fresult_of] in *.
    destruct (proj1 (proj2 (VSock_Inv.tx_flag_ops (v_tx s))) _ _ _ E) as [F1 F2].
    split; [exact L'|]. unfold JQ, TW in *. vsimpl_goal. rewrite F1, F2. auto.
  - destruct (reader_dropped (v_rx s)); [cbn [fst snd fresult_of] in *; split; [exact L'|]; apply Hsame; reflexivity|].
    destruct (rx_read (v_rx s) n) as [[rx1 r] w0]. cbn [fst snd fresult_of] in *.
    split; [exact L'|]. destruct r; apply Hsame; reflexivity.
  - destruct (reader_dropped (v_rx s)); [cbn [fst snd fresult_of] in *; split; [exact L'|]; apply Hsame; reflexivity|].
    destruct (rx_drop_reader (v_rx s)) as [rx1 w0]. cbn [fst snd fresult_of] in *.
    split; [exact L'|]. apply Hsame; reflexivity.
  - destruct (drop_writer (v_tx s)) as [tx1 w0] eqn:E. cbn [fst snd fresult_of] in *.
    destruct (proj2 (proj2 (VSock_Inv.tx_flag_ops (v_tx s))) _ _ E) as [F1 F2].
    split; [exact L'|]. unfold JQ, TW in *. vsimpl_goal. rewrite F1, F2. auto.
Qed.

Lemma vstep_nonpoll_out : forall (s : vsock) o,
  (forall sc, o <> VoPoll sc) ->
  poll_finished (vstep_out cci s o) = false /\
  forall r pk wk a, fresult_of (vstep_out cci s o) <> FrPoll r pk wk a.
Proof.
  intros s o Hnp. unfold vstep_out.
  destruct o; cbn [vstep]; try (exfalso; eapply Hnp; reflexivity);
    repeat break_match; cbn [fst snd poll_finished fresult_of]; split; try reflexivity;
    intros ? ? ? ? H; repeat break_match_hyp H; discriminate H.
Qed.

Theorem joint_trace_ok : forall ops w (s : vsock), JI w s -> joint_trace w (ftrace cci s ops) = true.
Proof.
  induction ops as [|o rest IH]; intros w s HJ; [reflexivity|].
  rewrite ftrace_cons'. cbn [joint_trace].
  assert (Hnon : (forall sc, o <> VoPoll sc) ->
    (match fs_result (fstep_of cci s o) with
     | FrPoll PollPending _ _ _ =>
         (f_seg_removed (fs_post (fstep_of cci s o)) =?
          match fs_result (fstep_of cci s o) with FrWrite (WrOk n) => w + n | _ => w end -
          f_tx_len (fs_post (fstep_of cci s o))) &&
         (f_seg_len_bytes (fs_post (fstep_of cci s o)) <=? f_tx_len (fs_post (fstep_of cci s o)))
     | _ => true
     end) &&
    joint_trace (match fs_result (fstep_of cci s o) with FrWrite (WrOk n) => w + n | _ => w end)
      (if poll_finished (vstep_out cci s o) then [] else ftrace cci (vstep_state cci s o) rest) = true).
  { intro Hnp. pose proof (vstep_nonpoll_JI w s o HJ Hnp) as K.
    destruct (vstep_nonpoll_out s o Hnp) as [Hf Hr]. rewrite Hf, fstep_of_result.
    destruct (fresult_of (vstep_out cci s o)) as [|r pk wk a|r|r|?| | | |] eqn:Er;
      try (exfalso; eapply Hr; reflexivity); cbn [andb]; apply IH; exact K. }
  destruct o as [t|m|sc|m| |buf| | |n| |]; try (apply Hnon; discriminate). clear Hnon.
  (* the poll *)
  destruct (poll cci (VSockRec.set_sends s sc)) as [s' r] eqn:E.
  destruct (vstep_poll cci s sc s' r E) as [V1 V2]. rewrite V1, V2.
  rewrite (fstep_of_poll cci s sc s' r E). cbn [fs_result fs_post poll_finished].
  destruct r; try reflexivity.
  assert (HJ' : JI w s') by (eapply (poll_JI cci w (VSockRec.set_sends s sc)); [exact HJ | exact E]).
  rewrite (IH w s' HJ'). rewrite andb_true_r.
  destruct HJ' as ((A & B & C & D) & Q & T). unfold JQ, TW in *.
  cbn [fp_of_vsock f_seg_removed f_tx_len f_seg_len_bytes].
  apply andb_true_intro. split; [apply Z.eqb_eq; lia | apply Z.leb_le; lia].
Qed.

Theorem c06_joint_ok_trace : forall cfg mk c (s0 : vsock) ops,
  vconfig_ok c = true -> vsock_new cci mk c = Some s0 -> c06_joint_ok cfg (ftrace cci s0 ops) = true.
Proof.
  intros cfg mk c s0 ops Hc H0. unfold c06_joint_ok. apply joint_trace_ok.
  split; [eapply vsock_new_LB; eassumption|].
  unfold vsock_new in H0.
  destruct (match (if vc_incoming c then None else _) with Some r => _ | None => _ end); [|discriminate].
  inversion H0; subst. unfold JQ, TW. cbn. auto.
Qed.

(* ================================================================== c06_cap_ok *)
Lemma vstep_nonpoll_segs : forall (s : vsock) o,
  match o with VoPoll _ => True | _ => v_segs (vstep_state cci s o) = v_segs s end.
Proof.
  intros s o. unfold vstep_state. destruct o; try exact I; cbn [vstep]; repeat break_match; reflexivity.
Qed.

Lemma CAP_forallb : forall cfg (s : vsock),
  CAP s -> o_max_retx (v_opts s) = vc_max_retx cfg ->
  forallb (fun g => fg_retx g <=? vc_max_retx cfg) (f_segs (fp_of_vsock cci s)) = true.
Proof.
  intros cfg s [Hc _] Hm. cbn [fp_of_vsock f_segs]. apply forallb_forall. intros x Hx.
  apply in_map_iff in Hx. destruct Hx as (g & <- & Hg).
  unfold SP in Hc. rewrite Forall_forall in Hc. specialize (Hc g Hg).
  unfold fseg_of, seg_retransmit_count, capP in *. cbn [fg_retx]. apply Z.leb_le. rewrite <- Hm. lia.
Qed.

Lemma MAXW_existsb : forall cfg (s : vsock),
  MAXW s -> o_max_retx (v_opts s) = vc_max_retx cfg ->
  existsb (fun g => (fg_retx g =? vc_max_retx cfg) && negb (fg_delivered g)) (f_segs (fp_of_vsock cci s)) = true.
Proof.
  intros cfg s (g & Hg & Hc & Hd) Hm. cbn [fp_of_vsock f_segs]. apply existsb_exists.
  exists (fseg_of g). split; [apply in_map; exact Hg|].
  unfold fseg_of. cbn [fg_retx fg_delivered]. rewrite Hd, Hc, Hm, Z.eqb_refl. reflexivity.
Qed.

Definition CAPc (c : vconfig) (s : vsock) : Prop := CAP s /\ o_max_retx (v_opts s) = vc_max_retx c.

Theorem c06_cap_ok_step : forall cfg (s : vsock) o,
  CAPc cfg s -> CAPc cfg (vstep_state cci s o) /\ c06_cap_ok cfg (fstep_of cci s o) = true.
Proof.
  intros cfg s o [Hc Hm].
  destruct (vstep_keeps cci s o) as (Ko & _ & _).
  assert (Hnon : (forall sc, o <> VoPoll sc) -> v_segs (vstep_state cci s o) = v_segs s ->
                 CAPc cfg (vstep_state cci s o) /\ c06_cap_ok cfg (fstep_of cci s o) = true).
  { intros Hnp Hs.
    assert (Hc' : CAP (vstep_state cci s o)) by (eapply CAP_eq; eauto).
    split; [split; [exact Hc' | congruence]|].
    unfold c06_cap_ok. rewrite fstep_of_post, fstep_of_result.
    rewrite (CAP_forallb cfg _ Hc') by congruence. cbn [andb].
    destruct (vstep_nonpoll_out s o Hnp) as [_ Hr].
    destruct (fresult_of (vstep_out cci s o)) eqn:Er; try reflexivity.
    exfalso. eapply Hr. reflexivity. }
  pose proof (vstep_nonpoll_segs s o) as Hsg.
  destruct o as [t|m|sc|m| |buf| | |n| |]; try (apply Hnon; [discriminate | exact Hsg]). clear Hnon Hsg.
  destruct (poll cci (VSockRec.set_sends s sc)) as [s' r] eqn:E.
  destruct (vstep_poll cci s sc s' r E) as [V1 V2]. rewrite V1 in *.
  assert (Hc0 : CAP (VSockRec.set_sends s sc)) by (eapply CAP_eq; [| |exact Hc]; reflexivity).
  destruct (poll_CAP cci _ _ _ Hc0 E) as [Hc' Hx].
  split; [split; [exact Hc' | congruence]|].
  rewrite (fstep_of_poll cci s sc s' r E). unfold c06_cap_ok. cbn [fs_post fs_result].
  rewrite (CAP_forallb cfg _ Hc') by congruence. cbn [andb].
  destruct r; try reflexivity. destruct e; try reflexivity.
  apply MAXW_existsb; [apply Hx; reflexivity | congruence].
Qed.

Lemma CAPc_vsock_new : forall mk c (s0 : vsock),
  0 <= vc_max_retx c -> vsock_new cci mk c = Some s0 -> CAPc c s0.
Proof.
  intros mk c s0 H0 Hn. unfold vsock_new in Hn.
  destruct (match (if vc_incoming c then None else _) with Some r => _ | None => _ end); [|discriminate].
  inversion Hn; subst. unfold CAPc, CAP. cbn. split; [split; [constructor | exact H0] | reflexivity].
Qed.

Theorem c06_cap_ok_trace : forall mk c (s0 : vsock) ops,
  0 <= vc_max_retx c -> vsock_new cci mk c = Some s0 ->
  forallb (c06_cap_ok c) (ftrace cci s0 ops) = true.
Proof.
  intros mk c s0 ops H0 Hn.
  apply (ftrace_forallb cci (CAPc c)).
  - intros s o Hp. apply c06_cap_ok_step; exact Hp.
  - intros s o Hp. apply c06_cap_ok_step; exact Hp.
  - eapply CAPc_vsock_new; eassumption.
Qed.

(* ================================================================== c06_emitted_live_ok *)
(* the snapshot segment a sequence number of the table names *)
Lemma fseg_of_seq_table : forall (s : vsock) j g,
  seg_inv (v_segs s) -> tol_ok (fp_of_vsock cci s) = true ->
  nth_error (ss_segs (v_segs s)) j = Some g ->
  fseg_of_seq (fp_of_vsock cci s) (wadd16 (ss_snd_una (v_segs s)) (Z.of_nat j mod M16)) = Some (fseg_of g).
Proof.
  intros s j g (_ & _ & _ & _ & Hu) Ht Hn. unfold tol_ok, fseg_of_seq in *.
  cbn [fp_of_vsock f_segs f_snd_una] in *. rewrite map_length in *. apply Z.leb_le in Ht.
  assert (Hj : (j < length (ss_segs (v_segs s)))%nat) by (apply nth_error_Some; congruence).
  assert (Hk : seq_sub (wadd16 (ss_snd_una (v_segs s)) (Z.of_nat j mod M16)) (ss_snd_una (v_segs s)) = Z.of_nat j).
  { unfold seq_sub, wadd16. rewrite (Z.mod_small (Z.of_nat j)) by (unfold M16; lia).
    apply offset_true_distance; unfold WRAP_TOLERANCE; try lia; try exact Hu. }
  rewrite Hk.
  replace ((0 <=? Z.of_nat j) && (Z.of_nat j <? Z.of_nat (length (ss_segs (v_segs s))))) with true
    by (symmetry; apply andb_true_intro; split; [apply Z.leb_le | apply Z.ltb_lt]; lia).
  rewrite Nat2Z.id. apply map_nth_error. exact Hn.
Qed.

Lemma OUT_emitted_live : forall cfg (s s' : vsock) sc,
  poll cci (VSockRec.set_sends s sc) = (s', PollPending) ->
  seg_inv (v_segs s') -> NW s' -> OUT s' ->
  c06_emitted_live_ok cfg (fstep_of cci s (VoPoll sc)) = true.
Proof.
  intros cfg s s' sc E Hinv Hnw Hout. rewrite (fstep_of_poll cci s sc s' _ E). unfold c06_emitted_live_ok.
  cbn [fs_event fs_result fs_post fs_now].
  destruct (tol_ok (fp_of_vsock cci s')) eqn:Ht; [|reflexivity].
  apply forallb_forall. intros x Hx. apply filter_In in Hx. destruct Hx as [Hx Hd].
  apply in_map_iff in Hx. destruct Hx as (p & <- & Hp). apply in_rev in Hp.
  unfold OUT in Hout. rewrite Forall_forall in Hout. specialize (Hout p Hp).
  assert (Hty : ch_type (p_hdr p) = ST_DATA).
  { unfold fq_is_data, fpacket_of in Hd. cbn [fq_hdr] in Hd. destruct (ch_type (p_hdr p)); try discriminate; reflexivity. }
  destruct (Hout Hty) as (j & g & A1 & A2 & A3 & A4 & A5 & A6).
  unfold fpacket_of. cbn [fq_hdr fq_plen]. rewrite A2, (fseg_of_seq_table s' j g Hinv Ht A1).
  unfold fseg_of. cbn [fg_delivered fg_sent_kind fg_size fg_last_sent]. rewrite A3, A5, A6, Z.eqb_refl.
  unfold NW in Hnw. rewrite Hnw, Z.eqb_refl. destruct (sg_sent g); [contradiction | reflexivity | reflexivity].
Qed.

(* every poll that the transport cannot answer with EMSGSIZE *)
Theorem c06_emitted_live_ok_poll : forall cfg (s : vsock) sc,
  LB 0 s -> v_emsg_limit s = None -> script_legit sc = true ->
  c06_emitted_live_ok cfg (fstep_of cci s (VoPoll sc)) = true.
Proof.
  intros cfg s sc HL Hl Hs.
  destruct (poll cci (VSockRec.set_sends s sc)) as [s' r] eqn:E.
  destruct r; try (rewrite (fstep_of_poll cci s sc s' _ E); reflexivity).
  assert (HL0 : LB 0 (VSockRec.set_sends s sc)) by (eapply LB_kp; [exact HL|]; unfold kp; auto).
  pose proof (poll_LB cci _ HL0) as HL'. rewrite E in HL'. cbn [fst] in HL'.
  assert (HE : EF (VSockRec.set_sends s sc)) by (split; [exact Hs | exact Hl]).
  destruct (poll_OUT_strict cci _ _ HL0 HE E) as [Hnw Hout].
  eapply OUT_emitted_live; eauto. apply HL'.
Qed.

Theorem c06_emitted_live_ok_other : forall cfg (s : vsock) o,
  (forall sc, o <> VoPoll sc) -> c06_emitted_live_ok cfg (fstep_of cci s o) = true.
Proof.
  intros cfg s o Hnp. unfold c06_emitted_live_ok. rewrite fstep_of_event.
  destruct o; try reflexivity. exfalso. eapply Hnp. reflexivity.
Qed.

(* the path limit a trace carries along *)
Lemma vstep_limit : forall (s : vsock) o,
  v_emsg_limit (vstep_state cci s o) = match o with VoSetLimit m => m | _ => v_emsg_limit s end.
Proof.
  intros s o. unfold vstep_state. destruct o; cbn [vstep]; try (repeat break_match; reflexivity).
  destruct (poll cci (VSockRec.set_sends s script)) as [s' r] eqn:E. cbn [fst].
  rewrite poll_unfold in E.
  pose proof (VSock_LemmasFin.poll_loop_frame0 cci 64 (poll_init (VSockRec.set_sends s script))) as F.
  rewrite E in F. cbn [fst] in F. destruct F as (_ & _ & _ & _ & F5 & _). exact F5.
Qed.

Theorem noemsg_scan_ok : forall (P : fstep -> bool),
  (forall (s : vsock) o, (forall sc, o <> VoPoll sc) -> P (fstep_of cci s o) = true) ->
  (forall (s : vsock) sc, LB 0 s -> v_emsg_limit s = None -> script_legit sc = true ->
                          P (fstep_of cci s (VoPoll sc)) = true) ->
  forall ops (s : vsock), LB 0 s -> noemsg_scan P (v_emsg_limit s) (ftrace cci s ops) = true.
Proof.
  intros P Hother Hpoll. induction ops as [|o rest IH]; intros s HL; [reflexivity|].
  rewrite ftrace_cons'. cbn [noemsg_scan].
  assert (Hn : lim_next (v_emsg_limit s) (fstep_of cci s o) = v_emsg_limit (vstep_state cci s o)).
  { unfold lim_next. rewrite fstep_of_event, vstep_limit. destruct o; reflexivity. }
  rewrite Hn. apply andb_true_intro. split.
  - unfold poll_noemsg. rewrite fstep_of_event.
    destruct o; cbn [fevent_of]; try (apply Hother; discriminate).
    destruct (script_legit script) eqn:Es; [|reflexivity].
    destruct (v_emsg_limit s) eqn:El; [reflexivity|]. cbn [andb]. apply Hpoll; assumption.
  - destruct (poll_finished _); [reflexivity|]. apply IH. apply (vstep_LB cci s o HL).
Qed.

Theorem c06_emitted_live_ok_g_trace : forall cfg mk c (s0 : vsock) ops,
  vconfig_ok c = true -> vsock_new cci mk c = Some s0 ->
  c06_emitted_live_ok_g cfg (ftrace cci s0 ops) = true.
Proof.
  intros cfg mk c s0 ops Hc H0. unfold c06_emitted_live_ok_g.
  assert (Hl : v_emsg_limit s0 = None).
  { unfold vsock_new in H0.
    destruct (match (if vc_incoming c then None else _) with Some r => _ | None => _ end); [|discriminate].
    inversion H0; subst. reflexivity. }
  rewrite <- Hl. apply noemsg_scan_ok.
  - apply c06_emitted_live_ok_other.
  - apply c06_emitted_live_ok_poll.
  - eapply vsock_new_LB; eassumption.
Qed.

(* ================================================================== c06_no_resend_acked *)
Lemma seq_sub_ahead : forall u m, 0 <= u < M16 -> 0 <= m <= 4096 ->
  seq_sub ((u + m) mod M16) u = m \/ seq_sub ((u + m) mod M16) u < 0.
Proof.
  intros u m Hu Hm. unfold seq_sub, seq_nr_offset, wsub16, WRAP_TOLERANCE, M16 in *.
  destruct (Z.ltb_spec ((u + m) mod 65536) u);
  [ destruct (Z.leb_spec (((u + m) mod 65536 - u) mod 65536) 1024)
  | destruct (Z.eqb_spec ((u + m) mod 65536) u);
    [ | destruct (Z.leb_spec ((u - (u + m) mod 65536) mod 65536) 1024) ] ]; lia.
Qed.

Theorem c06_no_resend_acked_t_poll : forall cfg (s : vsock) sc,
  LB 0 s -> v_emsg_limit s = None -> script_legit sc = true ->
  c06_no_resend_acked_t cfg (fstep_of cci s (VoPoll sc)) = true.
Proof.
  intros cfg s sc HL Hl Hs. unfold c06_no_resend_acked_t, c06_no_resend_acked.
  destruct (poll cci (VSockRec.set_sends s sc)) as [s' r] eqn:E.
  rewrite (fstep_of_poll cci s sc s' r E). cbn [fs_event fs_result fs_pre fs_post].
  destruct (tol_ok (fp_of_vsock cci s')) eqn:Ht'; [|reflexivity].
  destruct (tol_ok (fp_of_vsock cci s)) eqn:Ht; [|reflexivity].
  assert (HL0 : LB 0 (VSockRec.set_sends s sc)) by (eapply LB_kp; [exact HL|]; unfold kp; auto).
  assert (HE : EF (VSockRec.set_sends s sc)) by (split; [exact Hs | exact Hl]).
  pose proof (poll_OUT_DM_strict_all cci _ _ _ HL0 HE E) as K.
  assert (Hcase : v_out s' = [] \/ (OUT s' /\ DM (v_segs s) (v_segs s'))).
  { destruct r; [right|right|right|left]; try (destruct K as (_ & K2 & K3); split; assumption). exact K. }
  clear K. destruct Hcase as [Ho|[Hout (d & D1 & D2 & D3)]]; [rewrite Ho; reflexivity|].
  apply forallb_forall. intros x Hx. apply filter_In in Hx. destruct Hx as [Hx Hd].
  apply in_map_iff in Hx. destruct Hx as (p & <- & Hp). apply in_rev in Hp.
  unfold OUT in Hout. rewrite Forall_forall in Hout. specialize (Hout p Hp).
  assert (Hty : ch_type (p_hdr p) = ST_DATA).
  { unfold fq_is_data, fpacket_of in Hd. cbn [fq_hdr] in Hd. destruct (ch_type (p_hdr p)); try discriminate; reflexivity. }
  destruct (Hout Hty) as (j & g' & A1 & A2 & A3 & _).
  unfold fpacket_of. cbn [fq_hdr]. unfold fseg_of_seq.
  unfold tol_ok in Ht, Ht'. cbn [fp_of_vsock f_segs f_snd_una] in *. rewrite map_length in *.
  apply Z.leb_le in Ht, Ht'.
  assert (Hj : (j < length (ss_segs (v_segs s')))%nat) by (apply nth_error_Some; congruence).
  destruct HL as ((_ & _ & _ & _ & Hu) & _).
  rewrite A2, D2. change (v_segs (VSockRec.set_sends s sc)) with (v_segs s) in *.
  rewrite wadd16_wadd16 by lia. unfold wadd16.
  rewrite (Z.mod_small (Z.of_nat d + Z.of_nat j)) by (unfold M16; lia).
  destruct (seq_sub_ahead (ss_snd_una (v_segs s)) (Z.of_nat d + Z.of_nat j) Hu ltac:(lia)) as [Hk|Hk].
  - rewrite Hk.
    destruct ((0 <=? Z.of_nat d + Z.of_nat j) && (Z.of_nat d + Z.of_nat j <? Z.of_nat (length (ss_segs (v_segs s))))) eqn:Eb;
      [|reflexivity].
    replace (Z.to_nat (Z.of_nat d + Z.of_nat j)) with (d + j)%nat by lia.
    rewrite nth_error_map. destruct (nth_error (ss_segs (v_segs s)) (d + j)) as [g0|] eqn:E0; [|reflexivity].
    cbn [option_map]. unfold fseg_of. cbn [fg_delivered].
    destruct (sg_delivered g0) eqn:Ed0; [|reflexivity].
    exfalso. destruct (D3 j g0 E0 Ed0) as (g2 & G1 & G2). congruence.
  - replace (0 <=? seq_sub ((ss_snd_una (v_segs s) + (Z.of_nat d + Z.of_nat j)) mod M16) (ss_snd_una (v_segs s)))
      with false by (symmetry; apply Z.leb_gt; exact Hk). reflexivity.
Qed.

Theorem c06_no_resend_acked_t_other : forall cfg (s : vsock) o,
  (forall sc, o <> VoPoll sc) -> c06_no_resend_acked_t cfg (fstep_of cci s o) = true.
Proof.
  intros cfg s o Hnp. unfold c06_no_resend_acked_t, c06_no_resend_acked. rewrite fstep_of_event.
  destruct (tol_ok _); [|reflexivity]. destruct o; try reflexivity. exfalso. eapply Hnp. reflexivity.
Qed.

Theorem c06_no_resend_acked_g_trace : forall cfg mk c (s0 : vsock) ops,
  vconfig_ok c = true -> vsock_new cci mk c = Some s0 ->
  c06_no_resend_acked_g cfg (ftrace cci s0 ops) = true.
Proof.
  intros cfg mk c s0 ops Hc H0. unfold c06_no_resend_acked_g.
  assert (Hl : v_emsg_limit s0 = None).
  { unfold vsock_new in H0.
    destruct (match (if vc_incoming c then None else _) with Some r => _ | None => _ end); [|discriminate].
    inversion H0; subst. reflexivity. }
  rewrite <- Hl. apply noemsg_scan_ok.
  - apply c06_no_resend_acked_t_other.
  - apply c06_no_resend_acked_t_poll.
  - eapply vsock_new_LB; eassumption.
Qed.

(* ================================================================== c06_fast_retx_ok *)
Theorem c06_fast_retx_ok_t_poll : forall cfg (s : vsock) sc,
  LB 0 s -> ti s -> v_emsg_limit s = None -> script_legit sc = true ->
  c06_fast_retx_ok_t cfg (fstep_of cci s (VoPoll sc)) = true.
Proof.
  intros cfg s sc HL Hti Hl Hs. unfold c06_fast_retx_ok_t, c06_fast_retx_ok.
  destruct (poll cci (VSockRec.set_sends s sc)) as [s' r] eqn:E.
  rewrite (fstep_of_poll cci s sc s' r E). cbn [fs_event fs_result fs_pre fs_post].
  match goal with |- (if ?c then _ else _) = true => destruct c eqn:G end; [|reflexivity].
  destruct r; try reflexivity.
  apply andb_true_iff in G. destruct G as [G1 G2]. apply Z.leb_le in G1.
  cbn [fp_of_vsock f_recovery f_sack_depth f_segs f_rto_retx f_transport_pending f_snd_una] in *.
  destruct (rv_phase (v_recovery s)) as [rp0|d0|rc0] eqn:E0; try reflexivity;
    (destruct (rv_phase (v_recovery s')) as [rp1|d1|rc1] eqn:E1; try reflexivity).
  all: match goal with |- (if ?c then _ else _) = true => destruct c eqn:G3 end; [|reflexivity].
  all: repeat (apply andb_true_iff in G3; destruct G3 as [G3 ?]).
  all: destruct (first_undelivered (map fseg_of (ss_segs (v_segs s')))) as [[i g]|] eqn:Ef; [|reflexivity].
  all: match goal with |- (if ?c then _ else _) = true => destruct c eqn:G4 end; [|reflexivity].
  all: apply andb_true_iff in G4; destruct G4 as [_ G4]; cbn [rc_recovery_point] in G4.
  all: assert (HL0 : LB 0 (VSockRec.set_sends s sc)) by (eapply LB_kp; [exact HL|]; unfold kp; auto).
  all: assert (HE : EF (VSockRec.set_sends s sc)) by (split; [exact Hs | exact Hl]).
  all: assert (Hnr : is_recovering (v_recovery (VSockRec.set_sends s sc)) = false)
         by (unfold is_recovering; change (v_recovery (VSockRec.set_sends s sc)) with (v_recovery s); rewrite E0; reflexivity).
  all: pose proof (poll_fast_strict cci (Z.of_nat (length (ss_segs (v_segs s)))) _ _ HL0 Hti HE Hnr
                     ltac:(unfold len_z; cbn; lia) E) as K.
  all: rewrite map_length in G2; apply Z.ltb_lt in G2.
  all: apply negb_true_iff in H0; apply Z.eqb_eq in H1.
  all: destruct (K H0 H1 rc1 i E1 (first_undelivered_fu _ _ _ Ef) G1 G2 G4) as (p & P1 & P2 & P3).
  all: apply existsb_exists; exists (fpacket_of p); split;
         [apply in_map; rewrite <- in_rev; exact P1|];
         unfold fq_is_data, fpacket_of; cbn [fq_hdr]; rewrite P2, P3; cbn [andb]; apply Z.eqb_refl.
Qed.

Theorem c06_fast_retx_ok_t_other : forall cfg (s : vsock) o,
  (forall sc, o <> VoPoll sc) -> c06_fast_retx_ok_t cfg (fstep_of cci s o) = true.
Proof.
  intros cfg s o Hnp. unfold c06_fast_retx_ok_t, c06_fast_retx_ok. rewrite fstep_of_event.
  destruct (_ && _); [|reflexivity]. destruct o; try reflexivity. exfalso. eapply Hnp. reflexivity.
Qed.

Theorem c06_fast_retx_ok_g_trace : forall cfg mk c (s0 : vsock) ops,
  vconfig_ok c = true -> vsock_new cci mk c = Some s0 ->
  c06_fast_retx_ok_g cfg (ftrace cci s0 ops) = true.
Proof.
  intros cfg mk c s0 ops Hc H0. unfold c06_fast_retx_ok_g.
  assert (Hl : v_emsg_limit s0 = None).
  { unfold vsock_new in H0.
    destruct (match (if vc_incoming c then None else _) with Some r => _ | None => _ end); [|discriminate].
    inversion H0; subst. reflexivity. }
  rewrite <- Hl.
  (* noemsg_scan_ok with the invariant LB 0 /\ ti *)
  assert (Hgen : forall ops (s : vsock), LB 0 s -> ti s ->
            noemsg_scan (c06_fast_retx_ok_t cfg) (v_emsg_limit s) (ftrace cci s ops) = true).
  { induction ops0 as [|o rest IH]; intros s HL Ht; [reflexivity|].
    rewrite ftrace_cons'. cbn [noemsg_scan].
    assert (Hn : lim_next (v_emsg_limit s) (fstep_of cci s o) = v_emsg_limit (vstep_state cci s o)).
    { unfold lim_next. rewrite fstep_of_event, vstep_limit. destruct o; reflexivity. }
    rewrite Hn. apply andb_true_intro. split.
    - unfold poll_noemsg. rewrite fstep_of_event.
      destruct o; cbn [fevent_of]; try (apply c06_fast_retx_ok_t_other; discriminate).
      destruct (script_legit script) eqn:Es; [|reflexivity].
      destruct (v_emsg_limit s) eqn:El; [reflexivity|]. cbn [andb]. apply c06_fast_retx_ok_t_poll; assumption.
    - destruct (poll_finished _); [reflexivity|]. apply IH; [apply (vstep_LB cci s o HL) | apply ti_vstep; exact Ht]. }
  apply Hgen; [eapply vsock_new_LB; eassumption | eapply ti_vsock_new; exact H0].
Qed.

(* ================================================================== c06_backoff_ok *)
Lemma filter_data_nodata : forall l, Forall nodata l -> filter fq_is_data (map fpacket_of l) = [].
Proof.
  induction l as [|p r IH]; intro H; [reflexivity|]. inversion H; subst. cbn [map filter].
  unfold fq_is_data at 1, fpacket_of at 1. cbn [fq_hdr]. unfold nodata in H2.
  destruct (ch_type (p_hdr p)); try (apply IH; assumption). contradiction.
Qed.

Lemma filter_data_one : forall p l1 l2,
  Forall nodata l1 -> Forall nodata l2 -> ch_type (p_hdr p) = ST_DATA ->
  filter fq_is_data (map fpacket_of (rev (l2 ++ p :: l1))) = [fpacket_of p].
Proof.
  intros p l1 l2 H1 H2 Hp. rewrite rev_app_distr. cbn [rev]. rewrite <- app_assoc. cbn [app].
  rewrite map_app, filter_app.
  rewrite (filter_data_nodata (rev l1)) by (apply Forall_rev; exact H1).
  cbn [map filter app].
  assert (Hd : fq_is_data (fpacket_of p) = true) by (unfold fq_is_data, fpacket_of; cbn [fq_hdr]; rewrite Hp; reflexivity).
  rewrite Hd. rewrite (filter_data_nodata (rev l2)) by (apply Forall_rev; exact H2). reflexivity.
Qed.

Lemma RB_bounds : forall s : vsock, RB s ->
  (RTTE_MIN_RTO <=? f_rto (fp_of_vsock cci s)) && (f_rto (fp_of_vsock cci s) <=? RTTE_MAX_RTO) = true.
Proof.
  intros s [H1 H2]. cbn [fp_of_vsock f_rto]. apply andb_true_intro. split; apply Z.leb_le; assumption.
Qed.

Theorem c06_backoff_ok_step : forall cfg (s : vsock) o,
  ti s -> LB 0 s -> c06_backoff_ok cfg (fstep_of cci s o) = true.
Proof.
  intros cfg s o Hti HL. unfold c06_backoff_ok.
  pose proof (ti_vstep cci s o Hti) as Hti'.
  rewrite fstep_of_post, (RB_bounds _ (proj1 Hti')). cbn [andb]. clear Hti'.
  destruct o as [t|m|sc|m| |buf| | |n| |]; try (rewrite fstep_of_event; reflexivity).
  destruct (poll cci (VSockRec.set_sends s sc)) as [s' r] eqn:E.
  rewrite (fstep_of_poll cci s sc s' r E). cbn [fs_event fs_result fs_pre fs_post fs_now].
  destruct r; try reflexivity.
  destruct (vstep_poll cci s sc s' _ E) as [V1 _]. rewrite V1.
  assert (HL0 : LB 0 (VSockRec.set_sends s sc)) by (eapply LB_kp; [exact HL|]; unfold kp; auto).
  pose proof (poll_LB cci _ HL0) as HL'. rewrite E in HL'. cbn [fst] in HL'.
  assert (Hti0 : ti (VSockRec.set_sends s sc)) by exact Hti.
  pose proof (poll_backoff cci (v_rto_retransmissions s) (v_rtte s) _ _ Hti0 eq_refl eq_refl E) as (T & N & M).
  match goal with |- (if ?c then _ else _) = true => destruct c eqn:G end; [|reflexivity].
  apply andb_true_iff in G. destruct G as [G1 G2]. apply Z.eqb_eq in G1. cbn [fp_of_vsock f_rto_retx] in G1.
  destruct M as [(p & l1 & l2 & j & g & A1 & A2 & A3 & A4 & A5 & A6 & A7 & A8 & A9)|M]; [|exfalso; lia].
  rewrite A1, (filter_data_one p l1 l2 A2 A3 A4).
  unfold fpacket_of. cbn [fq_hdr]. rewrite A6.
  rewrite (fseg_of_seq_table s' j g (proj1 HL') G2 A5).
  unfold fseg_of at 1. cbn [fg_probe]. cbn [fp_of_vsock f_rto f_t_retransmit]. rewrite A8.
  unfold NW in N. rewrite N, Z.eqb_refl, andb_true_r.
  destruct (sg_probe g).
  - rewrite A7. apply Z.eqb_refl.
  - unfold c06_backoff_core. apply Z.eqb_eq.
    rewrite (timeout_doubles_rto _ _ (proj1 Hti) A7). reflexivity.
Qed.

Theorem c06_backoff_ok_trace : forall cfg mk c (s0 : vsock) ops,
  vconfig_ok c = true -> vsock_new cci mk c = Some s0 ->
  forallb (c06_backoff_ok cfg) (ftrace cci s0 ops) = true.
Proof.
  intros cfg mk c s0 ops Hc H0.
  apply (ftrace_forallb cci (fun s => ti s /\ LB 0 s)).
  - intros s o [H1 H2]. apply c06_backoff_ok_step; assumption.
  - intros s o [H1 H2]. split; [apply ti_vstep; exact H1 | apply (vstep_LB cci s o H2)].
  - split; [eapply ti_vsock_new; exact H0 | eapply vsock_new_LB; eassumption].
Qed.

End WithCC.

(* ------------------------------------------------------------------ c06_emitted_live_ok without the guard is
   FALSE of the model: a poll that pops a failed MTU probe restarts, and the restarted iteration processes
   the messages still queued AFTER the first iteration sent data.
   Scenario (wait_for_last_ack off, nagle off, constant window): 4000 bytes written, first poll blocked
   (segments 101 = 528 bytes and 102 = 991-byte probe unsent); path limit 600; the peer's FIN and a duplicate
   ST_DATA acknowledging 101 are queued; poll [Sent; Sent; Pending]: the FIN is taken (LastAck, the receive
   loop stops), 101 goes out, the probe is answered EMSGSIZE and popped, restart; the second iteration takes
   the queued ACK: 101 leaves the table; the ACK the duplicate forces blocks: Pending.  The poll emitted
   ST_DATA 101, and 101 is not in the table afterwards. *)
Definition live_cfg : vconfig :=
  {| vc_incoming := false; vc_ipv4 := true; vc_link_mtu := 1500; vc_rx_buf := 1048576;
     vc_tx_init := 32768; vc_tx_max := 1048576; vc_nagle := false; vc_max_retx := 5;
     vc_inactivity := 10000000000; vc_wait_last_ack := false; vc_mtu_probe_max_retx := 1;
     vc_isn := 100; vc_remote_seq := 1; vc_remote_conn_id := 7; vc_remote_wnd := 1048576;
     vc_remote_ts := 5; vc_syn_sent := 0; vc_now0 := 1000000 |}.

Definition live_ops : list vop :=
  [VoPoll []; VoWrite (repeat 0 (Z.to_nat 4000)); VoPoll [TPending];
   VoSetLimit (Some 600);
   VoDeliver (wmsg ST_FIN 1 100 0); VoDeliver (wmsg ST_DATA 0 101 10);
   VoPoll [TSent; TSent; TPending]].

Lemma emitted_live_restart_refuted :
  exists w cfg ops,
    vconfig_ok cfg = true /\ Forall op_msg_ok ops /\
    forallb (c06_emitted_live_ok cfg) (wtrace w cfg ops) = false /\
    (* the failing poll runs under a path limit: the guarded predicate does not claim it *)
    c06_emitted_live_ok_g cfg (wtrace w cfg ops) = true /\
    (* and the other predicates of the step family hold of the scenario *)
    forallb (c06_cap_ok cfg) (wtrace w cfg ops) = true.
Proof.
  exists 100000, live_cfg, live_ops.
  split; [vm_compute; reflexivity|]. split.
  { unfold live_ops. repeat (apply Forall_cons; [try exact I|]); try apply Forall_nil.
    - vm_compute. reflexivity.
    - vm_compute. discriminate. }
  split; [vm_compute; reflexivity|]. split; vm_compute; reflexivity.
Qed.

(* ------------------------------------------------------------------ the guards of the theorems above are met
   by reachable steps (the theorems are not vacuous) *)
Definition nv_cfg : vconfig :=
  {| vc_incoming := false; vc_ipv4 := true; vc_link_mtu := 1500; vc_rx_buf := 1048576;
     vc_tx_init := 32768; vc_tx_max := 1048576; vc_nagle := false; vc_max_retx := 5;
     vc_inactivity := 1000000000000; vc_wait_last_ack := true; vc_mtu_probe_max_retx := 1;
     vc_isn := 100; vc_remote_seq := 1; vc_remote_conn_id := 7; vc_remote_wnd := 1048576;
     vc_remote_ts := 5; vc_syn_sent := 0; vc_now0 := 1000000 |}.

(* six expiries of the retransmission timer with max_retransmissions = 5: five back-offs, then the cap *)
Definition nv_rto_ops : list vop :=
  [VoWrite (repeat 0 (Z.to_nat 528)); VoPoll []; VoSetNow 2000000000; VoPoll []; VoSetNow 5000000000; VoPoll [];
   VoSetNow 9000000000; VoPoll []; VoSetNow 20000000000; VoPoll []; VoSetNow 40000000000; VoPoll [];
   VoSetNow 80000000000; VoPoll []].

Definition rto_fired (st : fstep) : bool :=
  match fs_result st with
  | FrPoll PollPending _ _ _ => (f_rto_retx (fs_post st) =? f_rto_retx (fs_pre st) + 1) && tol_ok (fs_post st)
  | _ => false
  end.

Definition gave_up (st : fstep) : bool :=
  match fs_result st with FrPoll (PollReadyErr ErrMaxRetransmissionsReached) _ _ _ => true | _ => false end.

Lemma backoff_cap_nonvacuous :
  exists w cfg ops,
    vconfig_ok cfg = true /\ Forall op_msg_ok ops /\
    Z.of_nat (length (filter rto_fired (wtrace w cfg ops))) = 5 /\
    existsb gave_up (wtrace w cfg ops) = true /\
    forallb (c06_backoff_ok cfg) (wtrace w cfg ops) = true /\
    forallb (c06_cap_ok cfg) (wtrace w cfg ops) = true /\
    c06_emitted_live_ok_g cfg (wtrace w cfg ops) = true /\
    c06_no_resend_acked_g cfg (wtrace w cfg ops) = true /\
    c06_joint_ok cfg (wtrace w cfg ops) = true.
Proof.
  exists 1000, nv_cfg, nv_rto_ops.
  split; [vm_compute; reflexivity|]. split; [repeat constructor|].
  repeat split; vm_compute; reflexivity.
Qed.

(* three duplicate ACKs: the poll enters Recovering and retransmits the first undelivered segment *)
Definition nv_dup : msg := wmsg ST_STATE 1 100 0.
Definition nv_fast_ops : list vop :=
  [VoWrite (repeat 0 (Z.to_nat 528)); VoPoll [];
   VoDeliver nv_dup; VoDeliver nv_dup; VoDeliver nv_dup; VoDeliver nv_dup; VoPoll []].

Definition entered_recovery (st : fstep) : bool :=
  match fs_result st, f_recovery (fs_pre st), f_recovery (fs_post st) with
  | FrPoll PollPending pk _ _, CountingDuplicates _, Recovering _ =>
      (f_rto_retx (fs_post st) =? 0) && negb (f_transport_pending (fs_post st)) &&
      existsb fq_is_data pk
  | _, _, _ => false
  end.

Lemma fast_retx_nonvacuous :
  exists w cfg ops,
    vconfig_ok cfg = true /\ Forall op_msg_ok ops /\
    existsb entered_recovery (wtrace w cfg ops) = true /\
    c06_fast_retx_ok_g cfg (wtrace w cfg ops) = true /\
    forallb (c06_fast_retx_ok cfg) (wtrace w cfg ops) = true.
Proof.
  exists 1000, nv_cfg, nv_fast_ops.
  split; [vm_compute; reflexivity|]. split.
  { unfold nv_fast_ops. repeat (apply Forall_cons; [try exact I|]); try apply Forall_nil; vm_compute; reflexivity. }
  repeat split; vm_compute; reflexivity.
Qed.

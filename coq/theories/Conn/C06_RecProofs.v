(* C06, second part: duplicate-ACK threshold (Conn/Recovery.v), fast retransmit, Karn. *)
From Utp Require Import Base.Prelude Wire.SeqNr Wire.Header Rtt.Rtte Mtu.SegSizes Rx.Rx Tx.Ring Tx.Segments Tx.Segments_Proofs
  Conn.Recovery Conn.Msg Conn.VSockRec Conn.VSock Conn.VSock_LemmasTx Conn.VSock_LemmasIn.

(* ---- how duplicates are counted ---- *)
Lemma count_sack_three h d k :
  ch_sack h = Some k -> 3 <= count_ones (sk_bits k) -> count_sack_duplicates h d = Some 3.
Proof.
  intros E H. unfold count_sack_duplicates, SACK_DUP_THRESH. rewrite E.
  destruct (Z.leb_spec 3 (count_ones (sk_bits k))); [reflexivity|lia].
Qed.

Lemma count_sack_one h d k :
  ch_sack h = Some k -> count_ones (sk_bits k) < 3 -> d + 1 <= 255 -> count_sack_duplicates h d = Some (d + 1).
Proof.
  intros E H Hd. unfold count_sack_duplicates, SACK_DUP_THRESH. rewrite E.
  destruct (Z.leb_spec 3 (count_ones (sk_bits k))); [lia|].
  destruct (Z.leb_spec (d + 1) 255); [reflexivity|lia].
Qed.

Lemma count_sack_none h d : ch_sack h = None -> count_sack_duplicates h d = Some 0.
Proof. intro E. unfold count_sack_duplicates. rewrite E. reflexivity. Qed.

Lemma count_non_sack_repeat h d w a :
  ch_type h = ST_STATE -> a = ch_ack h -> w = ch_wnd h ->
  count_non_sack_duplicates h d (Some (w, a)) = (Z.min 255 (d + 1), Some (w, a)).
Proof.
  intros Ht -> ->. unfold count_non_sack_duplicates. rewrite Ht, !Z.eqb_refl. reflexivity.
Qed.

Lemma count_non_sack_reset h d la :
  (match la with
   | Some (w, a) => ch_type h <> ST_STATE \/ a <> ch_ack h \/ w <> ch_wnd h
   | None => True
   end) ->
  count_non_sack_duplicates h d la = (0, Some (ch_wnd h, ch_ack h)).
Proof.
  unfold count_non_sack_duplicates. destruct la as [[w a]|]; [|reflexivity].
  intros [H|[H|H]].
  - destruct (ch_type h); try reflexivity. congruence.
  - destruct (Z.eqb_spec a (ch_ack h)); [congruence|]. rewrite andb_false_r. reflexivity.
  - destruct (Z.eqb_spec w (ch_wnd h)); [congruence|]. cbn [negb]. rewrite andb_false_r. reflexivity.
Qed.

Section WithCC.
Context {CC : Type} (cci : cc_iface CC).
Notation vsock := (vsock CC).

Definition counted_dups (r : recovery) (h : chdr) (d : Z) : option Z :=
  if rv_supports_sack r || (match ch_sack h with Some _ => true | None => false end)
  then count_sack_duplicates h d
  else Some (fst (count_non_sack_duplicates h d (rv_last_ack r))).

(* (i) from CountingDuplicates the phase becomes Recovering exactly when the count reaches 3 *)
Theorem dup_threshold r h segs ls cc now rtt d r' segs' cc' :
  rv_phase r = CountingDuplicates d -> ss_segs segs <> [] ->
  recovery_on_ack cci r h segs ls cc now rtt = Some (r', segs', cc') ->
  exists c, counted_dups r h d = Some c /\
    (c < 3 -> rv_phase r' = CountingDuplicates c /\ segs' = segs /\ cc' = cc) /\
    (3 <= c -> exists rc, rv_phase r' = Recovering rc /\
                 rc_high_rxt rc = wsub16 (ss_snd_una segs) 1 /\ rc_recovery_point rc = ls /\
                 rc_total_retx rc = 0 /\ cc' = cc_on_enter_recovery cci cc now).
Proof.
  intros Hph Hne. unfold recovery_on_ack, counted_dups. cbn [rv_phase rv_supports_sack rv_last_ack].
  rewrite Hph. destruct (ss_segs segs) as [|g0 gs] eqn:Es; [congruence|].
  destruct (rv_supports_sack r || _).
  - destruct (count_sack_duplicates h d) as [c|]; [|discriminate].
    unfold SACK_DUP_THRESH. destruct (Z.ltb_spec c 3) as [Hc|Hc].
    + intro H; injection H as <- <- <-. exists c. cbn [rv_phase]. split; [reflexivity|]. split; [auto|lia].
    + destruct (calc_pipe _ _ _ _ _) as [[[sg pipe] recalc]|]; [|discriminate].
      intro H; injection H as <- <- <-. exists c. cbn [rv_phase]. split; [reflexivity|]. split; [lia|].
      intros _. eexists. split; [reflexivity|]. cbn. auto.
  - destruct (count_non_sack_duplicates h d (rv_last_ack r)) as [c la'].
    cbn [fst]. unfold SACK_DUP_THRESH. destruct (Z.ltb_spec c 3) as [Hc|Hc].
    + intro H; injection H as <- <- <-. exists c. cbn [rv_phase]. split; [reflexivity|]. split; [auto|lia].
    + destruct (calc_pipe _ _ _ _ _) as [[[sg pipe] recalc]|]; [|discriminate].
      intro H; injection H as <- <- <-. exists c. cbn [rv_phase]. split; [reflexivity|]. split; [lia|].
      intros _. eexists. split; [reflexivity|]. cbn. auto.
Qed.

Theorem dup_empty_table_resets r h segs ls cc now rtt d r' segs' cc' :
  rv_phase r = CountingDuplicates d -> ss_segs segs = [] ->
  recovery_on_ack cci r h segs ls cc now rtt = Some (r', segs', cc') ->
  rv_phase r' = CountingDuplicates 0 /\ segs' = segs /\ cc' = cc.
Proof.
  intros Hph He. unfold recovery_on_ack. cbn [rv_phase]. rewrite Hph, He.
  intro H; injection H as <- <- <-. cbn [rv_phase]. auto.
Qed.

Theorem dup_ignored_until_recovery_point r h segs ls cc now rtt rp r' segs' cc' :
  rv_phase r = IgnoringUntilRecoveryPoint rp ->
  recovery_on_ack cci r h segs ls cc now rtt = Some (r', segs', cc') ->
  is_recovering r' = false /\ segs' = segs /\ cc' = cc /\
  (rv_phase r' = IgnoringUntilRecoveryPoint rp \/
   (seq_ge (ch_ack h) rp = true /\ rv_phase r' = CountingDuplicates 0)).
Proof.
  intros Hph. unfold recovery_on_ack, is_recovering. cbn [rv_phase]. rewrite Hph.
  destruct (seq_ge (ch_ack h) rp) eqn:E; intro H; injection H as <- <- <-; cbn [rv_phase];
    (split; [reflexivity|]); (split; [reflexivity|]); (split; [reflexivity|]); [right; split; reflexivity|left; reflexivity].
Qed.

(* (i) fast retransmit: in Recovering with no retransmission made yet the first item of the
   recovery iterator goes out although no RTO expired *)
Theorem fast_retransmit s s' rc f rest s1 :
  v_transport_pending s = false ->
  timer_expired (v_t_retransmit s) (v_now s) = false ->
  v_rto_retransmissions s = 0 ->
  ss_segs (v_segs s) <> [] ->
  rv_phase (v_recovery s) = Recovering rc -> rc_total_retx rc = 0 ->
  rec_items s rc = f :: rest ->
  send_data s (outgoing_header s) f = SOk s1 SdSent ->
  step_st (send_tx_queue cci s) = Some s' ->
  In f (iter_for_sending (v_segs s) None) /\
  exists more, v_out s' = more ++ data_pkt s (outgoing_header s) f :: v_out s.
Proof.
  intros Hp Hexp Hcnt Hne Hph Htot Hit Hsd.
  split; [apply (rec_items_incl s rc); rewrite Hit; left; reflexivity|].
  revert H. rewrite send_tx_queue_eq, Hp. unfold rto_branch. rewrite Hexp. cbn [sbind].
  unfold after_rto_k. rewrite Hcnt. cbn [Z.ltb Z.compare].
  destruct (ss_segs (v_segs s)) as [|g0 gs]; [congruence|].
  set (h := outgoing_header s) in *.
  destruct (rec_branch s h) as [s2 ret|s2 e|] eqn:Erb; cbn [sbind]; [| |discriminate].
  - assert (Hs2 : step_st (rec_branch s h) = Some s2) by (rewrite Erb; reflexivity).
    destruct (rec_branch_spec _ _ _ Hs2) as [(Hnr & _)|(rc' & sent & sx & Eph & Hincl & Hem & P & A1 & _ & _ & _ & _ & _ & Hfirst)].
    { unfold is_recovering in Hnr. rewrite Hph in Hnr. discriminate. }
    rewrite Hph in Eph. injection Eph as <-.
    specialize (Hfirst Htot f rest Hit). rewrite Hsd in Hfirst. destruct Hfirst as (sent' & ->).
    destruct Hem as (_ & Ho & _). cbn [map rev] in Ho. rewrite <- app_assoc in Ho. cbn [app] in Ho.
    destruct ret.
    + cbn [step_st]. intro H; injection H as <-. eexists. rewrite A1, Ho. reflexivity.
    + intro H. destruct (new_branch_spec cci _ _ _ H) as (sn & rn & s3 & _ & (_ & Ho3 & _) & _ & _ & B1 & _).
      eexists. rewrite B1, Ho3, A1, Ho, app_assoc. reflexivity.
  - cbn [step_st]. intro H; injection H as <-.
    assert (Hs2 : step_st (rec_branch s h) = Some s2) by (rewrite Erb; reflexivity).
    destruct (rec_branch_spec _ _ _ Hs2) as [(_ & Hx & _)|(rc' & sent & sx & Eph & Hincl & Hem & P & A1 & _ & _ & _ & _ & _ & Hfirst)];
      [rewrite Erb in Hx; discriminate|].
    rewrite Hph in Eph. injection Eph as <-.
    specialize (Hfirst Htot f rest Hit). rewrite Hsd in Hfirst. destruct Hfirst as (sent' & ->).
    destruct Hem as (_ & Ho & _). cbn [map rev] in Ho. rewrite <- app_assoc in Ho. cbn [app] in Ho.
    eexists. rewrite A1, Ho. reflexivity.
Qed.

End WithCC.

(* ---- (j) Karn: an RTT sample only comes from a segment sent exactly once ---- *)
Definition rtt_from (l : list seg) (now : Z) (o : option Z) : Prop :=
  match o with
  | None => True
  | Some x => exists g ts, In g l /\ sg_sent g = SentTime ts /\ x = sat_sub now ts
  end.

Lemma update_rtt_from l now o s : rtt_from l now o -> In s l -> rtt_from l now (update_rtt s now o).
Proof.
  intros Ho Hin. unfold update_rtt. destruct (sg_sent s) as [|ts|c t] eqn:Es; try exact Ho.
  destruct o as [y|]; cbn [rtt_min rtt_from].
  - destruct (Z.min_spec y (sat_sub now ts)) as [[_ ->]|[_ ->]]; [exact Ho|eauto].
  - eauto.
Qed.

Lemma drain_acc_from l now : forall l' a,
  incl l' l -> rtt_from l now (ac_rtt a) -> rtt_from l now (ac_rtt (drain_acc l' now a)).
Proof.
  induction l' as [|s r IH]; intros a Hi Ha; cbn [drain_acc]; [exact Ha|].
  apply IH; [intros x Hx; apply Hi; right; exact Hx|]. cbn [ac_rtt].
  apply update_rtt_from; [exact Ha|apply Hi; left; reflexivity].
Qed.

Lemma apply_sack_from l now : forall l' bits a l'' a',
  incl l' l -> rtt_from l now (ac_rtt a) -> apply_sack l' bits now a = (l'', a') ->
  rtt_from l now (ac_rtt a').
Proof.
  induction l' as [|s r IH]; intros bits a l'' a' Hi Ha; cbn [apply_sack].
  - intro H; injection H as _ <-. exact Ha.
  - destruct bits as [|b bs]; [intro H; injection H as _ <-; exact Ha|].
    assert (Hr : incl r l) by (intros x Hx; apply Hi; right; exact Hx).
    destruct (negb (sg_delivered s) && b).
    + destruct (apply_sack r bs now _) as [r' a''] eqn:E. intro H; injection H as _ <-.
      eapply IH; [exact Hr| |exact E]. cbn [ac_rtt]. apply update_rtt_from; [exact Ha|apply Hi; left; reflexivity].
    + destruct (apply_sack r bs now a) as [r' a''] eqn:E. intro H; injection H as _ <-.
      eapply IH; [exact Hr|exact Ha|exact E].
Qed.

Lemma incl_firstn {A} n (l : list A) : incl (firstn n l) l.
Proof. intros x Hx. rewrite <- (firstn_skipn n l). apply in_or_app. left; exact Hx. Qed.
Lemma incl_skipn {A} n (l : list A) : incl (skipn n l) l.
Proof. intros x Hx. rewrite <- (firstn_skipn n l). apply in_or_app. right; exact Hx. Qed.

Theorem karn_sample_source t now ack sk t' r x :
  remove_up_to_ack t now ack sk = (t', r) -> ar_new_rtt r = Some x ->
  exists g ts, In g (ss_segs t) /\ sg_sent g = SentTime ts /\ x = sat_sub now ts.
Proof.
  unfold remove_up_to_ack.
  set (dc := if 0 <=? seq_sub ack (ss_snd_una t) then _ else 0%nat).
  set (a1 := drain_acc (firstn dc (ss_segs t)) now _).
  assert (H1 : rtt_from (ss_segs t) now (ac_rtt a1)).
  { apply drain_acc_from; [apply incl_firstn|exact I]. }
  destruct (sack_phase t (skipn dc (ss_segs t)) a1 _ now ack sk) as [[[rest2 a2] depth] lse] eqn:E2.
  assert (H2 : rtt_from (ss_segs t) now (ac_rtt a2)).
  { unfold sack_phase in E2.
    destruct (skipn dc (ss_segs t)) as [|s0 r0] eqn:Er; [injection E2 as _ <- _ _; exact H1|].
    destruct sk as [k|]; [|injection E2 as _ <- _ _; exact H1].
    destruct (seq_gt _ ack); [|injection E2 as _ <- _ _; exact H1].
    assert (Hrest : incl (s0 :: r0) (ss_segs t)) by (rewrite <- Er; apply incl_skipn).
    destruct (0 <=? seq_sub (wadd16 ack 2) _).
    - destruct (apply_sack (skipn _ (s0 :: r0)) (sk_bits k) now _) as [tl' a'] eqn:Ea.
      injection E2 as _ <- _ _.
      refine (apply_sack_from (ss_segs t) now _ _ {| ac_rtt := ac_rtt a1; ac_maxp := ac_maxp a1; ac_cnt := 0; ac_bytes := 0 |} _ _ _ H1 Ea).
      intros y Hy. apply Hrest. eapply incl_skipn; exact Hy.
    - destruct (apply_sack (s0 :: r0) _ now _) as [l' a'] eqn:Ea.
      injection E2 as _ <- _ _. exact (apply_sack_from (ss_segs t) now _ _ {| ac_rtt := ac_rtt a1; ac_maxp := ac_maxp a1; ac_cnt := 0; ac_bytes := 0 |} _ _ Hrest H1 Ea). }
  destruct (strip_delivered rest2 0 0) as [[rest3 cnt3] bytes3].
  intro H; injection H as _ <-. cbn [ar_new_rtt]. intro Hx. rewrite Hx in H2. exact H2.
Qed.

Section WithCC2.
Context {CC : Type} (cci : cc_iface CC).

(* at the connection: the estimator changes in the ACK processing of a message only by one sample,
   taken outside Recovering, and that sample comes from a segment transmitted exactly once *)
Theorem karn_conn (s1 : vsock CC) h s2 res :
  pim_ack cci s1 h = Some (s2, res) ->
  v_rtte s2 = v_rtte s1 \/
  (is_recovering (v_recovery s1) = false /\
   exists x g ts, sample (v_rtte s1) x = Some (v_rtte s2) /\
     In g (ss_segs (v_segs s1)) /\ sg_sent g = SentTime ts /\ x = sat_sub (v_now s1) ts).
Proof.
  unfold pim_ack.
  destruct (remove_up_to_ack (v_segs s1) (v_now s1) (ch_ack h) (ch_sack h)) as [segs1 res0] eqn:Er.
  destruct (is_recovering (v_recovery s1)) eqn:Erec.
  - destruct (cc_on_ack cci _ _ _ _) as [cc3|]; [|discriminate].
    destruct (recovery_on_ack cci _ _ _ _ _ _ _) as [[[rec1 segs2] cc4]|]; [|discriminate].
    intro H; injection H as <- _. left. vsimpl. reflexivity.
  - destruct (ar_new_rtt res0) as [x|] eqn:Ex.
    + destruct (sample (v_rtte s1) x) as [rt|] eqn:Es; [|discriminate].
      destruct (cc_on_ack cci _ _ _ _) as [cc3|]; [|discriminate].
      destruct (recovery_on_ack cci _ _ _ _ _ _ _) as [[[rec1 segs2] cc4]|]; [|discriminate].
      intro H; injection H as <- _. right. split; [reflexivity|].
      destruct (karn_sample_source _ _ _ _ _ _ _ Er Ex) as (g & ts & Hin & Hs & Hx).
      exists x, g, ts. vsimpl. auto.
    + destruct (cc_on_ack cci _ _ _ _) as [cc3|]; [|discriminate].
      destruct (recovery_on_ack cci _ _ _ _ _ _ _) as [[[rec1 segs2] cc4]|]; [|discriminate].
      intro H; injection H as <- _. left. vsimpl. reflexivity.
Qed.
End WithCC2.

(* ---- (h) PARTIAL: what a datagram carries, in terms of the stream the application wrote ---- *)
(* under the joint invariant of ring and table (removed_offset = bytes truncated from the ring, and
   Tx/Ring_Proofs.tx_inv: the ring is the suffix of g_written after g_removed bytes) the payload cut
   from the ring at abs - removed is the slice [abs, abs + size) of everything ever written *)
Lemma payload_is_stream_slice (gw ring : list Z) (gr abs size : Z) :
  gw = firstn (Z.to_nat gr) gw ++ ring -> 0 <= gr <= abs -> (Z.to_nat gr <= length gw)%nat ->
  firstn (Z.to_nat size) (skipn (Z.to_nat (abs - gr)) ring) =
  firstn (Z.to_nat size) (skipn (Z.to_nat abs) gw).
Proof.
  intros Hg Hr Hl. rewrite Hg at 1. rewrite skipn_app.
  assert (Hlen : length (firstn (Z.to_nat gr) gw) = Z.to_nat gr) by (apply firstn_length_le; lia).
  rewrite Hlen. rewrite (skipn_all2 (firstn (Z.to_nat gr) gw)) by lia. cbn [app].
  replace (Z.to_nat abs - Z.to_nat gr)%nat with (Z.to_nat (abs - gr)) by lia. reflexivity.
Qed.

(* the stream only grows by appending: a slice that lay within it stays the same bytes *)
Lemma stream_slice_stable (gw ext : list Z) (abs size : Z) :
  0 <= abs -> 0 <= size -> abs + size <= Z.of_nat (length gw) ->
  firstn (Z.to_nat size) (skipn (Z.to_nat abs) (gw ++ ext)) =
  firstn (Z.to_nat size) (skipn (Z.to_nat abs) gw).
Proof.
  intros Ha Hs Hb. rewrite skipn_app, firstn_app, skipn_length.
  replace (Z.to_nat size - (length gw - Z.to_nat abs))%nat with 0%nat by lia.
  cbn [firstn]. apply app_nil_r.
Qed.

(* two transmissions of a segment with the same (abs, size), at two moments between which the
   joint invariant held and the stream only grew, carry the same bytes *)
Theorem stable_content_partial (gw1 ext ring1 ring2 : list Z) (gr1 gr2 abs size : Z) :
  gw1 = firstn (Z.to_nat gr1) gw1 ++ ring1 ->
  gw1 ++ ext = firstn (Z.to_nat gr2) (gw1 ++ ext) ++ ring2 ->
  0 <= gr1 <= abs -> 0 <= gr2 <= abs -> (Z.to_nat gr1 <= length gw1)%nat -> (Z.to_nat gr2 <= length (gw1 ++ ext))%nat ->
  0 <= size -> abs + size <= Z.of_nat (length gw1) ->
  firstn (Z.to_nat size) (skipn (Z.to_nat (abs - gr1)) ring1) =
  firstn (Z.to_nat size) (skipn (Z.to_nat (abs - gr2)) ring2).
Proof.
  intros H1 H2 R1 R2 L1 L2 Hs Hb.
  rewrite (payload_is_stream_slice gw1 ring1 gr1 abs size H1 R1 L1).
  rewrite (payload_is_stream_slice (gw1 ++ ext) ring2 gr2 abs size H2 R2 L2).
  symmetry. apply stream_slice_stable; lia.
Qed.

(* the dispatcher's own step that re-establishes the joint invariant: remove_up_to_ack advances
   removed_offset by exactly the acknowledged bytes it reports, truncate_front by what it is given *)
Theorem joint_inv_ack_then_truncate t now ack sk t' r (tx tx' : tx) :
  seg_inv t -> remove_up_to_ack t now ack sk = (t', r) ->
  ss_removed t = g_removed tx -> ar_acked_bytes r <= Z.of_nat (length (ring tx)) ->
  truncate_front tx (ar_acked_bytes r) = (tx', TrOk) ->
  ss_removed t' = g_removed tx'.
Proof.
  intros Hinv Hr Hj Hle Ht.
  destruct (remove_up_to_ack_inv _ _ _ _ _ _ Hinv Hr) as (_ & Hb & Hb0 & _).
  unfold truncate_front in Ht.
  destruct (Z.min (ar_acked_bytes r) (Z.of_nat (length (ring tx))) =? ar_acked_bytes r); [|discriminate].
  injection Ht as <-. cbn [g_removed upd]. lia.
Qed.

(* ---- the joint relation of ring and table across process_all_incoming_messages ----
   Since the repair of D17 (finding T1) the bookkeeping after the receive loop runs whichever
   way the loop ended, so the relation is re-established also in the poll in which the message
   channel closes.  p = bytes acknowledged by the messages processed so far in this call and not
   yet truncated from the ring. *)
Lemma sum_sizes_len0 (l : list seg) : length l = 0%nat -> sum_sizes l = 0.
Proof. destruct l; [reflexivity|discriminate]. Qed.

(* an ACK that removed no segment removed no byte *)
Lemma remove_up_to_ack_zero t now ack sk t' r :
  remove_up_to_ack t now ack sk = (t', r) -> ar_acked_segments r = 0 -> ar_acked_bytes r = 0.
Proof.
  unfold remove_up_to_ack.
  set (dc := if 0 <=? seq_sub ack (ss_snd_una t) then _ else 0%nat).
  set (a1 := drain_acc (firstn dc (ss_segs t)) now _).
  destruct (drain_acc_spec (firstn dc (ss_segs t)) now {| ac_rtt := None; ac_maxp := 0; ac_cnt := 0; ac_bytes := 0 |})
    as [Hc1 Hb1]. fold a1 in Hc1, Hb1. cbn [ac_cnt ac_bytes] in Hc1, Hb1.
  destruct (sack_phase t (skipn dc (ss_segs t)) a1 _ now ack sk) as [[[rest2 a2] depth] lse].
  destruct (strip_delivered rest2 0 0) as [[rest3 cnt3] bytes3] eqn:E3.
  destruct (strip_delivered_spec _ _ _ _ _ _ E3) as (dropped & Hd & Hc3 & Hb3 & _).
  intro H; injection H as _ <-. cbn [ar_acked_segments ar_acked_bytes]. intro Hz.
  rewrite (sum_sizes_len0 (firstn dc (ss_segs t))) in Hb1 by lia.
  rewrite (sum_sizes_len0 dropped) in Hb3 by lia. lia.
Qed.

Lemma calc_pipe_fields t hr hd rtt now t' p rc :
  calc_pipe t hr hd rtt now = Some (t', p, rc) ->
  ss_removed t' = ss_removed t /\ ss_offset t' = ss_offset t.
Proof.
  unfold calc_pipe. destruct (_ <? _); [discriminate|].
  destruct (pipe_loop _ t hr _ now _) as [u a]. intro H; injection H as <- _ _.
  unfold Segments.set_segs; cbn [ss_removed ss_offset]. auto.
Qed.

Section Joint.
Context {CC : Type} (cci : cc_iface CC).
Notation vsock := (vsock CC).

Definition joint_rel (p : Z) (s : vsock) : Prop :=
  seg_inv (v_segs s) /\
  g_removed (v_tx s) + p = ss_removed (v_segs s) /\
  ss_offset (v_segs s) <= g_removed (v_tx s) + Z.of_nat (length (ring (v_tx s))).

(* the table and the two ring fields the relation reads are unchanged *)
Definition jt_frame (s s' : vsock) : Prop :=
  v_segs s' = v_segs s /\ ring (v_tx s') = ring (v_tx s) /\ g_removed (v_tx s') = g_removed (v_tx s).

Lemma jt_refl s : jt_frame s s.
Proof. unfold jt_frame; repeat split. Qed.

Lemma jt_trans a b c : jt_frame a b -> jt_frame b c -> jt_frame a c.
Proof. unfold jt_frame. intros (A1&A2&A3) (B1&B2&B3). repeat split; congruence. Qed.

Lemma joint_frame p s s' : joint_rel p s -> jt_frame s s' -> joint_rel p s'.
Proof. unfold joint_rel, jt_frame. intros (A&B&C) (E1&E2&E3). rewrite E1, E2, E3. auto. Qed.

Lemma sd_jt s s' : sd_frame s s' -> v_segs s' = v_segs s -> jt_frame s s'.
Proof.
  unfold sd_frame, jt_frame. intros (Htx & _) Hs. rewrite Htx. auto.
Qed.

Lemma send_ack_jt (s : vsock) :
  match send_ack s with
  | SOk s1 _ | SErr s1 _ => jt_frame s s1
  | SPanic => True
  end.
Proof.
  unfold send_ack. pose proof (send_control_packet_spec s
    (hdr_with (outgoing_header s) ST_STATE (ch_seq (outgoing_header s)) (sack_of_rx (v_rx s)))) as H.
  destruct (send_control_packet s _) as [s1 [|]|s1 e|]; try exact I.
  - destruct H as (Hf & _ & A & _). apply sd_jt; assumption.
  - destruct H as (Hf & _ & A & _). apply sd_jt; assumption.
  - destruct H as (Hf & _ & A & _). apply sd_jt; assumption.
Qed.

Lemma maybe_send_fin_jt (s : vsock) :
  match maybe_send_fin s with
  | SOk s1 _ | SErr s1 _ => jt_frame s s1
  | SPanic => True
  end.
Proof.
  pose proof (maybe_send_fin_spec s) as H.
  destruct (maybe_send_fin s) as [s1 [|]|s1 e|]; try exact I.
  - destruct H as (seq & _ & _ & Hf & _ & A & _). apply sd_jt; assumption.
  - destruct H as (Hf & _ & A & _). apply sd_jt; assumption.
  - destruct H as (Hf & _ & A & _). apply sd_jt; assumption.
Qed.

Lemma state_table_jt (s : vsock) h : jt_frame s (tbl_state (state_table s h)).
Proof.
  unfold state_table, restart_remote_inactivity_timer, jt_frame.
  destruct (ch_type h); destruct (v_state s); cbn [tbl_state negb];
    repeat (match goal with |- context [if ?c then _ else _] => destruct c end);
    cbn [tbl_state]; vsimpl; repeat split.
Qed.

Lemma pim_data_jt s2 m res offset s' r :
  pim_data cci s2 m res offset = SOk s' r -> jt_frame s2 s' /\ r = res.
Proof.
  unfold pim_data. destruct (offset <? 0).
  { intro H; injection H as <- <-. split; [|reflexivity]. unfold jt_frame, force_immediate_ack. vsimpl. repeat split. }
  cbv zeta.
  destruct (rx_add_remove _ KData (m_payload m) offset) as [[rx1 ar] w].
  set (s4 := add_wakes _ _).
  assert (H4 : jt_frame s2 s4) by (unfold s4, add_wakes, jt_frame; vsimpl; repeat split).
  clearbody s4.
  destruct ar as [r0|]; [|discriminate].
  destruct (add_err r0); [discriminate|].
  set (s5 := match r0 with ArConsumed _ _ => _ | _ => s4 end).
  assert (H5 : jt_frame s2 s5).
  { eapply jt_trans; [exact H4|]. unfold s5, restart_remote_inactivity_timer, jt_frame.
    destruct r0; vsimpl; repeat split. }
  clearbody s5.
  destruct (_ || _).
  - pose proof (send_ack_jt (force_immediate_ack s5)) as Ha.
    destruct (send_ack (force_immediate_ack s5)) as [s6 b|s6 e|]; cbn [sbind]; [|discriminate|discriminate].
    intro H; injection H as <- <-. split; [|reflexivity].
    eapply jt_trans; [exact H5|]. eapply jt_trans; [|exact Ha].
    unfold jt_frame, force_immediate_ack; vsimpl; repeat split.
  - intro H; injection H as <- <-. auto.
Qed.

Lemma pim_fin_jt s2 m res offset seen s' r :
  pim_fin s2 m res offset seen = SOk s' r -> jt_frame s2 s' /\ r = res.
Proof.
  unfold pim_fin. cbv zeta. destruct (_ && _).
  - destruct (rx_add_remove _ KFin _ _) as [[rx1 ar] w].
    destruct ar as [r0|]; [|discriminate].
    destruct (add_err r0); [discriminate|].
    unfold mark_vsock_closed. intro H; injection H as <- <-. split; [|reflexivity].
    unfold jt_frame, add_wakes, force_immediate_ack. vsimpl. cbn [ring g_removed upd]. repeat split.
  - intro H; injection H as <- <-. split; [|reflexivity].
    unfold jt_frame, force_immediate_ack. vsimpl. repeat split.
Qed.

Lemma recovery_on_ack_segs r h segs ls cc now rtt r' segs' cc' :
  seg_inv segs -> recovery_on_ack cci r h segs ls cc now rtt = Some (r', segs', cc') ->
  seg_inv segs' /\ ss_removed segs' = ss_removed segs /\ ss_offset segs' = ss_offset segs.
Proof.
  intros Hinv. unfold recovery_on_ack. cbn [rv_phase rv_supports_sack rv_last_ack].
  destruct (rv_phase r) as [rp|d|rc].
  - destruct (seq_ge _ _); intro H; injection H as _ <- _; auto.
  - destruct (ss_segs segs) as [|g0 gs]; [intro H; injection H as _ <- _; auto|].
    destruct (rv_supports_sack r || _).
    + destruct (count_sack_duplicates h d) as [c|]; [|discriminate].
      destruct (c <? SACK_DUP_THRESH); [intro H; injection H as _ <- _; auto|].
      destruct (calc_pipe _ _ _ _ _) as [[[sg pipe] recalc]|] eqn:Ec; [|discriminate].
      intro H; injection H as _ <- _.
      destruct (calc_pipe_fields _ _ _ _ _ _ _ _ Ec) as (A & B).
      split; [eapply calc_pipe_inv; eauto|auto].
    + destruct (count_non_sack_duplicates h d (rv_last_ack r)) as [c la'].
      destruct (c <? SACK_DUP_THRESH); [intro H; injection H as _ <- _; auto|].
      destruct (calc_pipe _ _ _ _ _) as [[[sg pipe] recalc]|] eqn:Ec; [|discriminate].
      intro H; injection H as _ <- _.
      destruct (calc_pipe_fields _ _ _ _ _ _ _ _ Ec) as (A & B).
      split; [eapply calc_pipe_inv; eauto|auto].
  - destruct (seq_ge _ _); intro H; injection H as _ <- _; auto.
Qed.

(* what the result of a message, or the sum of the results of several, says about removed bytes *)
Definition acc_ok (a : on_ack_result) : Prop :=
  0 <= ar_acked_segments a /\ 0 <= ar_acked_bytes a /\ (ar_acked_segments a = 0 -> ar_acked_bytes a = 0).

Lemma acc_ok_default : acc_ok on_ack_result_default.
Proof. unfold acc_ok, on_ack_result_default; cbn [ar_acked_segments ar_acked_bytes]. lia. Qed.

Lemma acc_ok_update a b : acc_ok a -> acc_ok b -> acc_ok (result_update a b).
Proof. unfold acc_ok, result_update; cbn [ar_acked_segments ar_acked_bytes]. lia. Qed.

Lemma pim_ack_joint s1 h s2 res p :
  joint_rel p s1 -> pim_ack cci s1 h = Some (s2, res) ->
  joint_rel (p + ar_acked_bytes res) s2 /\ acc_ok res.
Proof.
  intros (Hinv & Hj & Hb). unfold pim_ack.
  destruct (remove_up_to_ack (v_segs s1) (v_now s1) (ch_ack h) (ch_sack h)) as [segs1 res0] eqn:Er.
  destruct (match is_recovering (v_recovery s1) with true => _ | false => _ end) as [rtte1|]; [|discriminate].
  destruct (cc_on_ack cci _ _ _ _) as [cc3|]; [|discriminate].
  destruct (recovery_on_ack cci _ _ _ _ _ _ _) as [[[rec1 segs2] cc4]|] eqn:Eo; [|discriminate].
  intro H; injection H as <- <-.
  destruct (remove_up_to_ack_inv _ _ _ _ _ _ Hinv Er) as (I1 & B1 & B2 & O1 & _ & C1).
  destruct (recovery_on_ack_segs _ _ _ _ _ _ _ _ _ _ I1 Eo) as (I2 & R2 & O2).
  pose proof (remove_up_to_ack_zero _ _ _ _ _ _ Er) as Hz.
  split; [|unfold acc_ok; auto].
  unfold joint_rel. vsimpl. split; [exact I2|]. split; lia.
Qed.

Lemma process_incoming_message_joint (s : vsock) m s' r p :
  joint_rel p s -> process_incoming_message cci s m = SOk s' r ->
  joint_rel (p + ar_acked_bytes r) s' /\ acc_ok r.
Proof.
  intro Hj. rewrite process_incoming_message_eq.
  pose proof (state_table_jt s (m_hdr m)) as Ht.
  destruct (state_table s (m_hdr m)) as [s1|s1 e|s1]; cbn [tbl_state] in Ht; [|discriminate|].
  - intro H; injection H as <- <-. split; [|apply acc_ok_default].
    cbn [on_ack_result_default ar_acked_bytes]. replace (p + 0) with p by lia.
    eapply joint_frame; eauto.
  - unfold pim_cont. destruct (pim_ack cci s1 (m_hdr m)) as [[s2 res]|] eqn:Ea; [|discriminate].
    destruct (pim_ack_joint _ _ _ _ p (joint_frame _ _ _ Hj Ht) Ea) as (Hj2 & Hok). cbv zeta.
    destruct (ch_type (m_hdr m)).
    + intro H. destruct (pim_data_jt _ _ _ _ _ _ H) as (Hf & ->). split; [eapply joint_frame; eauto|exact Hok].
    + intro H. destruct (pim_fin_jt _ _ _ _ _ _ _ H) as (Hf & ->). split; [eapply joint_frame; eauto|exact Hok].
    + intro H; injection H as <- <-. auto.
    + intro H; injection H as <- <-. auto.
    + intro H; injection H as <- <-. auto.
Qed.

Lemma recv_loop_joint : forall fuel (s : vsock) acc s' r early,
  acc_ok acc -> joint_rel (ar_acked_bytes acc) s ->
  recv_loop cci fuel s acc = SOk s' (r, early) ->
  acc_ok r /\ joint_rel (ar_acked_bytes r) s'.
Proof.
  assert (Hbase : forall (s : vsock) (acc : on_ack_result) s' r early,
    acc_ok acc -> joint_rel (ar_acked_bytes acc) s ->
    (if v_inbox_closed s
     then sbind (maybe_send_fin (transition_to_fin_wait_1 s))
                (fun s2 _ => SOk (set_state s2 Closed) (acc, true))
     else SOk (set_inbox_waker s true) (acc, false)) = SOk s' (r, early) ->
    acc_ok r /\ joint_rel (ar_acked_bytes r) s').
  { intros s acc s' r early Hok Hj. destruct (v_inbox_closed s).
    - pose proof (maybe_send_fin_jt (transition_to_fin_wait_1 s)) as Hm.
      assert (Ht : jt_frame s (transition_to_fin_wait_1 s))
        by (unfold transition_to_fin_wait_1, jt_frame; destruct (v_state s); vsimpl; repeat split).
      destruct (maybe_send_fin (transition_to_fin_wait_1 s)) as [s2 b|s2 e|]; cbn [sbind]; [|discriminate|discriminate].
      intro H; injection H as <- <- _. split; [exact Hok|].
      eapply joint_frame; [exact Hj|]. eapply jt_trans; [exact Ht|]. eapply jt_trans; [exact Hm|].
      unfold jt_frame; vsimpl; repeat split.
    - intro H; injection H as <- <- _. split; [exact Hok|].
      eapply joint_frame; [exact Hj|]. unfold jt_frame; vsimpl; repeat split. }
  induction fuel as [|m0 fuel IH]; intros s acc s' r early Hok Hj; cbn [recv_loop];
    destruct (v_inbox s) as [|m rest] eqn:Ei; try (apply Hbase; assumption); try discriminate.
  destruct (process_incoming_message cci (set_inbox s rest) m) as [s1 r0|s1 e|] eqn:Ep; cbn [sbind];
    [|discriminate|discriminate].
  assert (Hj0 : joint_rel (ar_acked_bytes acc) (set_inbox s rest))
    by (eapply joint_frame; [exact Hj|]; unfold jt_frame; vsimpl; repeat split).
  destruct (process_incoming_message_joint _ _ _ _ _ Hj0 Ep) as (Hj1 & Hok0).
  assert (Hok1 : acc_ok (result_update acc r0)) by (apply acc_ok_update; assumption).
  assert (Hj1' : joint_rel (ar_acked_bytes (result_update acc r0)) s1) by exact Hj1.
  destruct (_ || _).
  - intro H; injection H as <- <- _. auto.
  - intro H. eapply IH; eauto.
Qed.

(* once the receive loop has returned (with either value of `early`: the channel-closed arm
   included), the rest of process_all_incoming_messages never reports BugTruncateFront and
   re-establishes removed_offset = bytes truncated from the ring, in every state *)
Theorem joint_inv_process_all (s : vsock) s1 r early :
  joint_rel 0 s ->
  recv_loop cci (v_inbox s ++ [ {| m_hdr := outgoing_header s; m_payload := [] |} ]) s
            on_ack_result_default = SOk s1 (r, early) ->
  match process_all_incoming_messages cci s with
  | SOk s' _ => joint_rel 0 s'
  | SErr _ _ => False
  | SPanic => True
  end.
Proof.
  intros Hj El. unfold process_all_incoming_messages. rewrite El. cbn [sbind].
  assert (Hj' : joint_rel (ar_acked_bytes on_ack_result_default) s) by exact Hj.
  destruct (recv_loop_joint _ _ _ _ _ _ acc_ok_default Hj' El) as ((Hs0 & Hb0 & Hz) & Hj1).
  set (s2 := if (0 <? ar_acked_segments r) || (0 <? ar_newly_sacked_segments r) then _ else s1).
  assert (H2 : jt_frame s1 s2).
  { unfold s2. destruct (_ || _); [|apply jt_refl].
    unfold restart_remote_inactivity_timer.
    destruct (ss_segs (v_segs (set_rto_retransmissions s1 0))); [destruct (our_fin_if_unacked _)|];
      unfold jt_frame; vsimpl; repeat split. }
  pose proof (joint_frame _ _ _ Hj1 H2) as Hj2. clearbody s2.
  assert (Hb : jt_frame s2 (acked_counts_as_sent s2)).
  { unfold acked_counts_as_sent. destruct (seq_gt _ _ && seq_lt _ _); unfold jt_frame; vsimpl; repeat split. }
  assert (Hfin : forall s3 : vsock, joint_rel 0 s3 ->
    match (match rv_phase (v_recovery s3) with
           | Recovering rc =>
               match calc_pipe (v_segs s3) (rc_high_rxt rc) (v_last_sent_seq_nr s3)
                               (roundtrip_time (v_rtte s3)) (v_now s3) with
               | None => SPanic
               | Some (segs', pipe, recalc) =>
                   SOk (set_recovering (VSockRec.set_segs s3 segs')
                          {| rc_recovery_point := rc_recovery_point rc; rc_high_rxt := rc_high_rxt rc;
                             rc_total_retx := rc_total_retx rc; rc_pipe := pipe; rc_recalc := recalc;
                             rc_cwnd := rc_cwnd rc |}) tt
               end
           | _ => SOk s3 tt
           end) with
    | SOk s' _ => joint_rel 0 s'
    | SErr _ _ => False
    | SPanic => True
    end).
  { intros s3 (I3 & J3 & B3). destruct (rv_phase (v_recovery s3)); try (unfold joint_rel; auto; fail).
    destruct (calc_pipe _ _ _ _ _) as [[[segs' pipe] recalc]|] eqn:Ec; [|exact I].
    destruct (calc_pipe_fields _ _ _ _ _ _ _ _ Ec) as (A & B).
    unfold joint_rel, set_recovering. vsimpl. rewrite A, B.
    split; [eapply calc_pipe_inv; eauto|auto]. }
  destruct (Z.ltb_spec 0 (ar_acked_segments r)) as [Hpos|Hneg].
  - pose proof (joint_frame _ _ _ Hj2 Hb) as Hj2b. clear Hj2 Hb. revert Hj2b.
    generalize (acked_counts_as_sent s2). clear s2 H2. intros s2 Hj2.
    destruct Hj2 as (I2 & J2 & B2).
    assert (Hle : ar_acked_bytes r <= Z.of_nat (length (ring (v_tx s2)))).
    { destruct I2 as (L1 & L2 & L3 & _). pose proof (tiled_sizes_nonneg _ _ L3). lia. }
    unfold truncate_front. cbv zeta. rewrite (Z.min_l _ _ Hle), Z.eqb_refl.
    unfold wake_writer. cbn [sbind]. apply Hfin.
    unfold joint_rel, add_wakes. vsimpl. cbn [upd ring g_removed].
    split; [exact I2|]. rewrite skipn_length. split; lia.
  - destruct Hj2 as (I2 & J2 & B2).
    cbn [sbind]. apply Hfin. unfold joint_rel. split; [exact I2|]. split; lia.
Qed.

End Joint.

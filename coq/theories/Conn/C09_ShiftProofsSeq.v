(* C09 trace shift, layer 0: sequence-number arithmetic under the relabelling sh16 d. *)
From Utp Require Import Base.Prelude Wire.SeqNr Wire.SeqNr_Proofs Wire.Header Tx.Segments
  Conn.Recovery Conn.Msg Conn.C09_Pred Conn.C09_Shift.

Lemma sh16_range d x : 0 <= sh16 d x < M16.
Proof. unfold sh16, M16. lia. Qed.

Lemma u16_ok_iff x : u16_ok x = true <-> 0 <= x < M16.
Proof. unfold u16_ok. lia. Qed.

Lemma u16_ok_sh16 d x : u16_ok (sh16 d x) = true.
Proof. apply u16_ok_iff, sh16_range. Qed.

Lemma u16_ok_wadd16 a b : u16_ok (wadd16 a b) = true.
Proof. apply u16_ok_iff. unfold wadd16, M16. lia. Qed.

Lemma u16_ok_wsub16 a b : u16_ok (wsub16 a b) = true.
Proof. apply u16_ok_iff. unfold wsub16, M16. lia. Qed.

Lemma sh16_wadd16 d x k : wadd16 (sh16 d x) k = sh16 d (wadd16 x k).
Proof. unfold wadd16, sh16, M16. lia. Qed.

Lemma sh16_wsub16 d x k : wsub16 (sh16 d x) k = sh16 d (wsub16 x k).
Proof. unfold wsub16, sh16, M16. lia. Qed.

Lemma sh16_eqb d a b : u16_ok a = true -> u16_ok b = true -> (sh16 d a =? sh16 d b) = (a =? b).
Proof.
  intros Ha%u16_ok_iff Hb%u16_ok_iff. unfold sh16, M16 in *.
  destruct (Z.eqb_spec a b) as [->|N]; [apply Z.eqb_refl|].
  apply Z.eqb_neq. lia.
Qed.

Lemma cmp_ok_parts a b : cmp_ok a b = true ->
  0 <= a < M16 /\ 0 <= b < M16 /\
  exists k, - WRAP_TOLERANCE <= k <= WRAP_TOLERANCE /\ (a - b - k) mod M16 = 0.
Proof.
  unfold cmp_ok, near. intros H.
  apply andb_true_iff in H as [H Hn]. apply andb_true_iff in H as [Ha%u16_ok_iff Hb%u16_ok_iff].
  split; [assumption|]. split; [assumption|].
  unfold WRAP_TOLERANCE, M16 in *.
  apply orb_true_iff in Hn as [Hn|Hn].
  - exists ((a - b) mod 65536). lia.
  - exists ((a - b) mod 65536 - 65536). lia.
Qed.

Lemma cmp_ok_seq_sub d a b : cmp_ok a b = true ->
  seq_sub (sh16 d a) (sh16 d b) = seq_sub a b.
Proof.
  intros H. destruct (cmp_ok_parts _ _ H) as (Ha & Hb & k & Hk & Hm).
  unfold seq_sub, sh16. apply (offset_shift a b d WRAP_TOLERANCE k); try assumption.
  unfold WRAP_TOLERANCE; lia.
Qed.

Lemma cmp_ok_seq_gt d a b : cmp_ok a b = true -> seq_gt (sh16 d a) (sh16 d b) = seq_gt a b.
Proof. intros H. unfold seq_gt. now rewrite cmp_ok_seq_sub. Qed.
Lemma cmp_ok_seq_ge d a b : cmp_ok a b = true -> seq_ge (sh16 d a) (sh16 d b) = seq_ge a b.
Proof. intros H. unfold seq_ge. now rewrite cmp_ok_seq_sub. Qed.
Lemma cmp_ok_seq_lt d a b : cmp_ok a b = true -> seq_lt (sh16 d a) (sh16 d b) = seq_lt a b.
Proof. intros H. unfold seq_lt. now rewrite cmp_ok_seq_sub. Qed.
Lemma cmp_ok_seq_le d a b : cmp_ok a b = true -> seq_le (sh16 d a) (sh16 d b) = seq_le a b.
Proof. intros H. unfold seq_le. now rewrite cmp_ok_seq_sub. Qed.

(* `seq_sub a b = 1` needs no tolerance: outside the tolerance the result is the plain integer
   difference, whose absolute value exceeds the tolerance *)
Lemma seq_sub_is1 a b : 0 <= a < M16 -> 0 <= b < M16 ->
  (seq_sub a b =? 1) = ((a - b - 1) mod M16 =? 0).
Proof.
  intros Ha Hb. unfold seq_sub, seq_nr_offset, wsub16, WRAP_TOLERANCE, M16 in *.
  destruct (Z.ltb_spec a b);
  [ destruct (Z.leb_spec ((a - b) mod 65536) 1024)
  | destruct (Z.eqb_spec a b);
    [ | destruct (Z.leb_spec ((b - a) mod 65536) 1024) ] ];
  match goal with |- (?x =? 1) = (?y =? 0) =>
    destruct (Z.eqb_spec x 1); destruct (Z.eqb_spec y 0); try reflexivity; exfalso; lia end.
Qed.

Lemma seq_sub_eq1_shift d a b : u16_ok a = true -> u16_ok b = true ->
  (seq_sub (sh16 d a) (sh16 d b) =? 1) = (seq_sub a b =? 1).
Proof.
  intros Ha%u16_ok_iff Hb%u16_ok_iff.
  rewrite !seq_sub_is1 by (try apply sh16_range; assumption).
  unfold sh16, M16 in *.
  destruct (Z.eqb_spec ((a - b - 1) mod 65536) 0); destruct (Z.eqb_spec (((a + d) mod 65536 - (b + d) mod 65536 - 1) mod 65536) 0);
    try reflexivity; exfalso; lia.
Qed.

Lemma cmp_ok_u16_l a b : cmp_ok a b = true -> u16_ok a = true.
Proof. unfold cmp_ok. intros H. apply andb_true_iff in H as [H _]. now apply andb_true_iff in H as [H _]. Qed.
Lemma cmp_ok_u16_r a b : cmp_ok a b = true -> u16_ok b = true.
Proof. unfold cmp_ok. intros H. apply andb_true_iff in H as [H _]. now apply andb_true_iff in H as [_ H]. Qed.

(* the atomic condition of the guard is tight: two u16 values farther apart than the tolerance are
   compared differently after a suitable relabelling *)
Lemma seq_sub_shift_tight a b : u16_ok a = true -> u16_ok b = true -> near WRAP_TOLERANCE a b = false ->
  exists d, seq_sub (sh16 d a) (sh16 d b) <> seq_sub a b.
Proof.
  intros Ha%u16_ok_iff Hb%u16_ok_iff Hn. unfold near in Hn. apply orb_false_iff in Hn as [H1 H2].
  apply Z.leb_gt in H1. apply Z.leb_gt in H2.
  destruct (Z.ltb_spec a b) as [L|L].
  - exists (M16 - b).
    unfold seq_sub, seq_nr_offset, sh16, wsub16, WRAP_TOLERANCE, M16 in *.
    replace ((b + (65536 - b)) mod 65536) with 0 by lia.
    replace ((a + (65536 - b)) mod 65536) with (a - b + 65536) by lia.
    destruct (Z.ltb_spec (a - b + 65536) 0); [lia|].
    destruct (Z.eqb_spec (a - b + 65536) 0); [lia|].
    destruct (Z.ltb_spec a b); [|lia].
    destruct (Z.leb_spec ((0 - (a - b + 65536)) mod 65536) 1024); [lia|].
    destruct (Z.leb_spec ((a - b) mod 65536) 1024); lia.
  - exists (M16 - a).
    unfold seq_sub, seq_nr_offset, sh16, wsub16, WRAP_TOLERANCE, M16 in *.
    assert (a <> b) by lia.
    replace ((a + (65536 - a)) mod 65536) with 0 by lia.
    replace ((b + (65536 - a)) mod 65536) with (b - a + 65536) by lia.
    destruct (Z.ltb_spec 0 (b - a + 65536)); [|lia].
    destruct (Z.leb_spec ((0 - (b - a + 65536)) mod 65536) 1024); [lia|].
    destruct (Z.ltb_spec a b); [lia|].
    destruct (Z.eqb_spec a b); [lia|].
    destruct (Z.leb_spec ((b - a) mod 65536) 1024); lia.
Qed.

(* C04 at connection level — the guard under which c04_vsock_ack_ok (Conn/C04_Pred.v) is a theorem of every
   model trace (Conn/C04_Step.v).  Model only.
   c04_vsock_ack_ok is FALSE of the model in two ways (Conn/C04_Step.v):
   (1) it measures every acknowledgement against the number the connection started with by seq_sub, i.e. inside
       WRAP_TOLERANCE only (D4): once more than 1024 sequence numbers were consumed across the wrap of the 16-bit
       space the distance is read as negative (c04_vsock_ack_ok_refuted_wrap);
   (2) a peer that sends ST_DATA ABOVE its own FIN makes the endpoint acknowledge a number it never received
       (c04_vsock_ack_ok_refuted_after_fin, the same on the real code): the FIN consumes the slots filled behind
       it but last_consumed only moves to the FIN; an ST_DATA accepted on the LastAck -> Closed transition is
       then counted together with slots that stand for other numbers.
   The guard: the peer delivers at most WRAP_TOLERANCE packets that carry a sequence number, their sequence
   numbers are 16-bit values (what the wire parser produces), and no ST_DATA it delivers is numbered at or
   above an ST_FIN it delivers (position counted from the number the connection started with). *)
From Utp Require Import Base.Prelude Wire.SeqNr Wire.Header Conn.Recovery Conn.Msg Conn.VSockRun Conn.VObs
  Conn.C04_Pred.

Definition c04_pos (base x : Z) : Z := wsub16 x base.

Fixpoint c04_guard_scan (tr : list fstep) (base : Z) (rd rf : list Z) : bool :=
  match tr with
  | [] => true
  | st :: r =>
      match fs_event st with
      | FeDeliver h plen =>
          if carries_seq h plen then
            u16_ok (ch_seq h) &&
            (Z.of_nat (length rd + length rf) <? WRAP_TOLERANCE) &&
            (if ptype_eqb (ch_type h) ST_FIN
             then forallb (fun d => c04_pos base d <? c04_pos base (ch_seq h)) rd &&
                  c04_guard_scan r base rd (ch_seq h :: rf)
             else forallb (fun f => c04_pos base (ch_seq h) <? c04_pos base f) rf &&
                  c04_guard_scan r base (ch_seq h :: rd) rf)
          else c04_guard_scan r base rd rf
      | _ => c04_guard_scan r base rd rf
      end
  end.

Definition c04_peer_ok (cfg : vconfig) (tr : list fstep) : bool :=
  match tr with
  | [] => true
  | st :: _ => c04_guard_scan tr (f_last_consumed (fs_pre st)) [] []
  end.

Definition c04_vsock_ack_guarded (cfg : vconfig) (tr : list fstep) : bool :=
  if c04_peer_ok cfg tr then c04_vsock_ack_ok cfg tr else true.

(* ---- the two parts of the guard, separately: the tolerance part (what the property text allows to exclude, D4)
   and the order part, whose failure is the KNOWN CLASS D22: the peer delivered an ST_DATA numbered at or above
   an ST_FIN it delivered (data beyond its own FIN was delivered / held in the reassembly queue) ---- *)
Fixpoint c04_tol_scan (tr : list fstep) (n : Z) : bool :=
  match tr with
  | [] => true
  | st :: r =>
      match fs_event st with
      | FeDeliver h plen =>
          if carries_seq h plen
          then u16_ok (ch_seq h) && (n <? WRAP_TOLERANCE) && c04_tol_scan r (n + 1)
          else c04_tol_scan r n
      | _ => c04_tol_scan r n
      end
  end.

Fixpoint c04_order_scan (tr : list fstep) (base : Z) (rd rf : list Z) : bool :=
  match tr with
  | [] => true
  | st :: r =>
      match fs_event st with
      | FeDeliver h plen =>
          if carries_seq h plen then
            if ptype_eqb (ch_type h) ST_FIN
            then forallb (fun d => c04_pos base d <? c04_pos base (ch_seq h)) rd &&
                 c04_order_scan r base rd (ch_seq h :: rf)
            else forallb (fun f => c04_pos base (ch_seq h) <? c04_pos base f) rf &&
                 c04_order_scan r base (ch_seq h :: rd) rf
          else c04_order_scan r base rd rf
      | _ => c04_order_scan r base rd rf
      end
  end.

Definition c04_tol_ok (cfg : vconfig) (tr : list fstep) : bool := c04_tol_scan tr 0.

Definition c04_d22_class (cfg : vconfig) (tr : list fstep) : bool :=
  match tr with
  | [] => false
  | st :: _ => negb (c04_order_scan tr (f_last_consumed (fs_pre st)) [] [])
  end.

(* inside the tolerance a failure of c04_vsock_ack_ok is of the class D22 *)
Definition c04_vsock_ack_or_d22 (cfg : vconfig) (tr : list fstep) : bool :=
  if c04_tol_ok cfg tr then c04_vsock_ack_ok cfg tr || c04_d22_class cfg tr else true.

(* C09 — behaviour invariant under the choice of initial sequence numbers and connection ids
   (trace-shift clause).  Relabelling of one observed step by (da, db, dc):
     da = shift of OUR sequence numbers (seq_nr of what we emit, ack_nr of what we receive),
     db = shift of the PEER's sequence numbers (ack_nr of what we emit, seq_nr of what we receive),
     dc = shift of the connection id we send with;
   `c09_shift_ok da db dc tr1 tr2` = tr2 is tr1 relabelled, field by field.  Evaluated on two runs
   of the implementation whose inputs differ by exactly that relabelling.
   `c09_within_tol` is the guard under which the property is claimed ("every distance the configured
   windows allow" read against WRAP_TOLERANCE): every sequence number a step compares lies within
   the tolerance of the reference it is compared with.  Model only: no proofs here. *)
From Utp Require Import Base.Prelude Wire.SeqNr Wire.Header Rtt.Rtte Mtu.SegSizes Rx.Rx Tx.Ring
  Tx.Segments Conn.Recovery Conn.Msg Conn.VSockRec Conn.VSock Conn.VSockRun Conn.VObs.

Definition sh16 (d x : Z) : Z := (x + d) mod M16.

(* ---- boolean equalities ---- *)
Definition oz_eqb (a b : option Z) : bool :=
  match a, b with Some x, Some y => x =? y | None, None => true | _, _ => false end.

Fixpoint list_eqb {A} (e : A -> A -> bool) (a b : list A) : bool :=
  match a, b with
  | [], [] => true
  | x :: r, y :: q => e x y && list_eqb e r q
  | _, _ => false
  end.

Definition vstate_eqb (a b : vstate) : bool :=
  match a, b with
  | SynReceived, SynReceived | Established, Established | FinWait2, FinWait2 | Closed, Closed => true
  | SynAckSent x, SynAckSent y => x =? y
  | FinWait1 x, FinWait1 y => x =? y
  | LastAck x r, LastAck y q => (x =? y) && (r =? q)
  | _, _ => false
  end.

Definition rphase_eqb (a b : rphase) : bool :=
  match a, b with
  | IgnoringUntilRecoveryPoint x, IgnoringUntilRecoveryPoint y => x =? y
  | CountingDuplicates x, CountingDuplicates y => x =? y
  | Recovering x, Recovering y =>
      (rc_recovery_point x =? rc_recovery_point y) && (rc_high_rxt x =? rc_high_rxt y) &&
      (rc_total_retx x =? rc_total_retx y) && (rc_pipe x =? rc_pipe y) &&
      oz_eqb (rc_recalc x) (rc_recalc y) && (rc_cwnd x =? rc_cwnd y)
  | _, _ => false
  end.

Definition fseg_eqb (a b : fseg) : bool :=
  (fg_size a =? fg_size b) && (fg_abs a =? fg_abs b) && Bool.eqb (fg_delivered a) (fg_delivered b) &&
  (fg_sent_kind a =? fg_sent_kind b) && (fg_retx a =? fg_retx b) &&
  oz_eqb (fg_last_sent a) (fg_last_sent b) && Bool.eqb (fg_probe a) (fg_probe b) &&
  Bool.eqb (fg_lost a) (fg_lost b) && Bool.eqb (fg_expired a) (fg_expired b) &&
  Bool.eqb (fg_sacks_after a) (fg_sacks_after b).

Definition vfp_eqb (a b : vfp) : bool :=
  vstate_eqb (f_state a) (f_state b) &&
  (f_seq_nr a =? f_seq_nr b) && (f_last_sent_seq_nr a =? f_last_sent_seq_nr b) &&
  (f_last_consumed a =? f_last_consumed b) && (f_last_sent_ack_nr a =? f_last_sent_ack_nr b) &&
  (f_last_sent_window a =? f_last_sent_window b) && (f_last_remote_window a =? f_last_remote_window b) &&
  (f_cbu a =? f_cbu b) && (f_rto_retx a =? f_rto_retx b) &&
  oz_eqb (f_t_retransmit a) (f_t_retransmit b) && oz_eqb (f_t_inactivity a) (f_t_inactivity b) &&
  oz_eqb (f_t_ack_delay a) (f_t_ack_delay b) && oz_eqb (f_t_recovery_pipe a) (f_t_recovery_pipe b) &&
  oz_eqb (f_t_syn_ack_resend a) (f_t_syn_ack_resend b) &&
  (f_mss a =? f_mss b) && (f_max_ss a =? f_max_ss b) && (f_unsegmented a =? f_unsegmented b) &&
  (f_rto a =? f_rto b) && (f_rtt a =? f_rtt b) &&
  (f_cc_window a =? f_cc_window b) && (f_cc_sshthresh a =? f_cc_sshthresh b) &&
  rphase_eqb (f_recovery a) (f_recovery b) && Bool.eqb (f_supports_sack a) (f_supports_sack b) &&
  Bool.eqb (f_transport_pending a) (f_transport_pending b) &&
  (f_snd_una a =? f_snd_una b) && (f_seg_len_bytes a =? f_seg_len_bytes b) &&
  (f_seg_offset a =? f_seg_offset b) && (f_seg_removed a =? f_seg_removed b) &&
  (f_sack_depth a =? f_sack_depth b) && Bool.eqb (f_last_sack_empty a) (f_last_sack_empty b) &&
  list_eqb fseg_eqb (f_segs a) (f_segs b) &&
  (f_rx_ff a =? f_rx_ff b) && (f_rx_len a =? f_rx_len b) && (f_rx_len_bytes a =? f_rx_len_bytes b) &&
  (f_rx_qbytes a =? f_rx_qbytes b) &&
  Bool.eqb (f_rx_disp_waker a) (f_rx_disp_waker b) && Bool.eqb (f_rx_reader_waker a) (f_rx_reader_waker b) &&
  Bool.eqb (f_rx_reader_dropped a) (f_rx_reader_dropped b) && Bool.eqb (f_rx_closed a) (f_rx_closed b) &&
  (f_tx_len a =? f_tx_len b) && (f_tx_cap a =? f_tx_cap b) &&
  Bool.eqb (f_tx_closed a) (f_tx_closed b) && Bool.eqb (f_tx_writer_dropped a) (f_tx_writer_dropped b) &&
  Bool.eqb (f_tx_writer_shutdown a) (f_tx_writer_shutdown b) &&
  Bool.eqb (f_tx_disp_waker a) (f_tx_disp_waker b) && Bool.eqb (f_tx_writer_waker a) (f_tx_writer_waker b).

Definition sack_eqb (a b : option sackbits) : bool :=
  match a, b with
  | Some x, Some y => list_eqb Bool.eqb (sk_bits x) (sk_bits y) && (sk_len x =? sk_len y)
  | None, None => true
  | _, _ => false
  end.

Definition chdr_eqb (a b : chdr) : bool :=
  ptype_eqb (ch_type a) (ch_type b) && (ch_conn_id a =? ch_conn_id b) && (ch_ts a =? ch_ts b) &&
  (ch_ts_diff a =? ch_ts_diff b) && (ch_wnd a =? ch_wnd b) && (ch_seq a =? ch_seq b) &&
  (ch_ack a =? ch_ack b) && sack_eqb (ch_sack a) (ch_sack b) &&
  oz_eqb (ch_close_reason a) (ch_close_reason b).

Definition fpacket_eqb (a b : fpacket) : bool :=
  chdr_eqb (fq_hdr a) (fq_hdr b) && (fq_plen a =? fq_plen b).

Definition vwake_eqb (a b : vwake) : bool :=
  match a, b with
  | VwReader, VwReader | VwWriter, VwWriter | VwSelf, VwSelf => true
  | _, _ => false
  end.

Definition verror_eqb (a b : verror) : bool :=
  match a, b with
  | ErrStResetReceived, ErrStResetReceived
  | ErrMaxRetransmissionsReached, ErrMaxRetransmissionsReached
  | ErrMaxSynAckRetransmissionsReached, ErrMaxSynAckRetransmissionsReached
  | ErrRemoteInactiveForTooLong, ErrRemoteInactiveForTooLong
  | ErrSend, ErrSend | ErrZeroPayloadStData, ErrZeroPayloadStData => true
  | ErrBug _, ErrBug _ => true      (* any internal-bug report is C10's business *)
  | _, _ => false
  end.

Definition poll_result_eqb (a b : poll_result) : bool :=
  match a, b with
  | PollPending, PollPending | PollReadyOk, PollReadyOk | PollPanic, PollPanic => true
  | PollReadyErr x, PollReadyErr y => verror_eqb x y
  | _, _ => false
  end.

Definition write_result_eqb (a b : write_result) : bool :=
  match a, b with
  | WrOk x, WrOk y => x =? y
  | WrPending, WrPending | WrErrClosed, WrErrClosed | WrErrShutdown, WrErrShutdown
  | WrErrDropped, WrErrDropped => true
  | _, _ => false
  end.

Definition unit_result_eqb (a b : unit_result) : bool :=
  match a, b with UrOk, UrOk | UrPending, UrPending | UrErr, UrErr => true | _, _ => false end.

Definition fresult_eqb (a b : fresult) : bool :=
  match a, b with
  | FrNone, FrNone | FrReadEof, FrReadEof | FrReadErrMsg, FrReadErrMsg
  | FrReadErrDead, FrReadErrDead | FrReadPending, FrReadPending => true
  | FrPoll r pk w arm, FrPoll r' pk' w' arm' =>
      poll_result_eqb r r' && list_eqb fpacket_eqb pk pk' && list_eqb vwake_eqb w w' && oz_eqb arm arm'
  | FrWrite x, FrWrite y => write_result_eqb x y
  | FrUnit x, FrUnit y => unit_result_eqb x y
  | FrReadBytes x, FrReadBytes y => x =? y
  | _, _ => false
  end.

(* ---- the relabelling ---- *)
Definition shift_state (da db : Z) (s : vstate) : vstate :=
  match s with
  | FinWait1 f => FinWait1 (sh16 da f)
  | LastAck f r => LastAck (sh16 da f) (sh16 db r)
  | x => x
  end.

Definition shift_rphase (da : Z) (p : rphase) : rphase :=
  match p with
  | IgnoringUntilRecoveryPoint rp => IgnoringUntilRecoveryPoint (sh16 da rp)
  | CountingDuplicates d => CountingDuplicates d
  | Recovering r =>
      Recovering {| rc_recovery_point := sh16 da (rc_recovery_point r);
                    rc_high_rxt := sh16 da (rc_high_rxt r);
                    rc_total_retx := rc_total_retx r; rc_pipe := rc_pipe r;
                    rc_recalc := rc_recalc r; rc_cwnd := rc_cwnd r |}
  end.

Definition shift_fp (da db : Z) (f : vfp) : vfp :=
  {| f_state := shift_state da db (f_state f);
     f_seq_nr := sh16 da (f_seq_nr f); f_last_sent_seq_nr := sh16 da (f_last_sent_seq_nr f);
     f_last_consumed := sh16 db (f_last_consumed f); f_last_sent_ack_nr := sh16 db (f_last_sent_ack_nr f);
     f_last_sent_window := f_last_sent_window f; f_last_remote_window := f_last_remote_window f;
     f_cbu := f_cbu f; f_rto_retx := f_rto_retx f;
     f_t_retransmit := f_t_retransmit f; f_t_inactivity := f_t_inactivity f;
     f_t_ack_delay := f_t_ack_delay f; f_t_recovery_pipe := f_t_recovery_pipe f;
     f_t_syn_ack_resend := f_t_syn_ack_resend f;
     f_mss := f_mss f; f_max_ss := f_max_ss f; f_unsegmented := f_unsegmented f;
     f_rto := f_rto f; f_rtt := f_rtt f; f_cc_window := f_cc_window f; f_cc_sshthresh := f_cc_sshthresh f;
     f_recovery := shift_rphase da (f_recovery f); f_supports_sack := f_supports_sack f;
     f_transport_pending := f_transport_pending f;
     f_snd_una := sh16 da (f_snd_una f); f_seg_len_bytes := f_seg_len_bytes f;
     f_seg_offset := f_seg_offset f; f_seg_removed := f_seg_removed f;
     f_sack_depth := f_sack_depth f; f_last_sack_empty := f_last_sack_empty f; f_segs := f_segs f;
     f_rx_ff := f_rx_ff f; f_rx_len := f_rx_len f; f_rx_len_bytes := f_rx_len_bytes f;
     f_rx_qbytes := f_rx_qbytes f;
     f_rx_disp_waker := f_rx_disp_waker f; f_rx_reader_waker := f_rx_reader_waker f;
     f_rx_reader_dropped := f_rx_reader_dropped f; f_rx_closed := f_rx_closed f;
     f_tx_len := f_tx_len f; f_tx_cap := f_tx_cap f;
     f_tx_closed := f_tx_closed f; f_tx_writer_dropped := f_tx_writer_dropped f;
     f_tx_writer_shutdown := f_tx_writer_shutdown f;
     f_tx_disp_waker := f_tx_disp_waker f; f_tx_writer_waker := f_tx_writer_waker f |}.

(* a datagram WE emit: seq_nr is ours, ack_nr the peer's, the connection id the one we send with *)
Definition shift_out_hdr (da db dc : Z) (h : chdr) : chdr :=
  {| ch_type := ch_type h; ch_conn_id := sh16 dc (ch_conn_id h); ch_ts := ch_ts h;
     ch_ts_diff := ch_ts_diff h; ch_wnd := ch_wnd h; ch_seq := sh16 da (ch_seq h);
     ch_ack := sh16 db (ch_ack h); ch_sack := ch_sack h; ch_close_reason := ch_close_reason h |}.

(* a datagram we RECEIVE: seq_nr is the peer's, ack_nr ours (the connection id was consumed by the socket) *)
Definition shift_in_hdr (da db : Z) (h : chdr) : chdr :=
  {| ch_type := ch_type h; ch_conn_id := ch_conn_id h; ch_ts := ch_ts h;
     ch_ts_diff := ch_ts_diff h; ch_wnd := ch_wnd h; ch_seq := sh16 db (ch_seq h);
     ch_ack := sh16 da (ch_ack h); ch_sack := ch_sack h; ch_close_reason := ch_close_reason h |}.

Definition shift_pkt (da db dc : Z) (p : fpacket) : fpacket :=
  {| fq_hdr := shift_out_hdr da db dc (fq_hdr p); fq_plen := fq_plen p |}.

Definition shift_result (da db dc : Z) (r : fresult) : fresult :=
  match r with
  | FrPoll res pk w arm => FrPoll res (map (shift_pkt da db dc) pk) w arm
  | x => x
  end.

Definition fevent_eqb (a b : fevent) : bool :=
  match a, b with
  | FeSetNow x, FeSetNow y => x =? y
  | FeSetLimit x, FeSetLimit y => oz_eqb x y
  | FePoll x, FePoll y => (Z.of_nat (length x) =? Z.of_nat (length y))
  | FeDeliver h n, FeDeliver h' n' => chdr_eqb h h' && (n =? n')
  | FeCloseInbox, FeCloseInbox | FeFlush, FeFlush | FeShutdown, FeShutdown
  | FeDropReader, FeDropReader | FeDropWriter, FeDropWriter => true
  | FeWrite x, FeWrite y => x =? y
  | FeRead x, FeRead y => x =? y
  | _, _ => false
  end.

Definition shift_event (da db : Z) (e : fevent) : fevent :=
  match e with FeDeliver h n => FeDeliver (shift_in_hdr da db h) n | x => x end.

(* the second run's step is the first run's step relabelled *)
Definition c09_step_shift_ok (da db dc : Z) (a b : fstep) : bool :=
  (fs_now a =? fs_now b) &&
  fevent_eqb (shift_event da db (fs_event a)) (fs_event b) &&
  vfp_eqb (shift_fp da db (fs_pre a)) (fs_pre b) &&
  fresult_eqb (shift_result da db dc (fs_result a)) (fs_result b) &&
  Bool.eqb (fs_disp_woken a) (fs_disp_woken b) && Bool.eqb (fs_self_woken a) (fs_self_woken b) &&
  vfp_eqb (shift_fp da db (fs_post a)) (fs_post b).

Fixpoint c09_shift_ok (da db dc : Z) (tr1 tr2 : list fstep) : bool :=
  match tr1, tr2 with
  | [], [] => true
  | a :: r, b :: q => c09_step_shift_ok da db dc a b && c09_shift_ok da db dc r q
  | _, _ => false
  end.

(* index of the first step that is not the relabelling of its twin (for the report) *)
Fixpoint c09_first_bad (da db dc : Z) (tr1 tr2 : list fstep) (i : Z) : option Z :=
  match tr1, tr2 with
  | [], [] => None
  | a :: r, b :: q => if c09_step_shift_ok da db dc a b then c09_first_bad da db dc r q (i + 1) else Some i
  | _, _ => Some i
  end.

(* ---- the guard: all compared distances within the tolerance ----
   |x - ref| <= tol in true modular distance *)
Definition near (tol x ref : Z) : bool :=
  let d := (x - ref) mod M16 in (d <=? tol) || (M16 - tol <=? d).

Definition c09_step_within_tol (tol : Z) (st : fstep) : bool :=
  let pre := fs_pre st in
  (* fewer outstanding segments than the tolerance; sequence-number state mutually near *)
  (Z.of_nat (length (f_segs pre)) <? tol / 4) &&
  near (tol / 4) (f_seq_nr pre) (f_snd_una pre) && near (tol / 4) (f_last_sent_seq_nr pre) (f_snd_una pre) &&
  near (tol / 4) (f_last_sent_ack_nr pre) (f_last_consumed pre) &&
  (f_rx_len pre <? tol / 4) &&
  match fs_event st with
  | FeDeliver h _ =>
      (* the peer's number against what we consumed, its ack against what we sent; a quarter of the
         tolerance leaves room for what messages queued before this one may still move *)
      near (tol / 4) (ch_seq h) (f_last_consumed pre) &&
      near (tol / 4) (ch_ack h) (f_snd_una pre) && near (tol / 4) (ch_ack h) (f_seq_nr pre)
  | _ => true
  end.

Definition c09_within_tol (tol : Z) (tr : list fstep) : bool := forallb (c09_step_within_tol tol) tr.

(* M3: src/stream_dispatch.rs — VirtualSocket::poll and everything it calls, one Gallina
   function per Rust method, same names, same order of effects.  Model only.
   The congestion controller is abstract (Conn.Recovery.cc_iface). *)
From Utp Require Import Base.Prelude Wire.SeqNr Wire.Header Rtt.Rtte Mtu.SegSizes Rx.Rx Tx.Ring
  Tx.Segments Conn.Recovery Conn.Msg Conn.VSockRec.

Section WithCC.
Context {CC : Type} (cci : cc_iface CC).
Notation vsock := (vsock CC).

Inductive step (A : Type) :=
| SOk (s : vsock) (a : A)
| SErr (s : vsock) (e : verror)
| SPanic.
Arguments SOk {A}. Arguments SErr {A}. Arguments SPanic {A}.

Definition sbind {A B} (m : step A) (f : vsock -> A -> step B) : step B :=
  match m with SOk s a => f s a | SErr s e => SErr s e | SPanic => SPanic end.

(* ------------------------------------------------------------------ small helpers *)
Definition timestamp_microseconds (s : vsock) : Z :=
  (sat_sub (v_now s) (v_socket_created s) / 1000) mod M32.

Definition rx_window (s : vsock) : Z :=
  let wnd := remaining_rx_window (v_rx s) mod M32 in
  let rmss := mss (v_ss s) in
  if wnd <? rmss then 0 else wnd - (wnd mod rmss).

Definition outgoing_header (s : vsock) : chdr :=
  let ts := timestamp_microseconds s in
  {| ch_type := ST_STATE; ch_conn_id := v_conn_id_send s; ch_ts := ts;
     ch_ts_diff := (ts - v_last_remote_timestamp s) mod M32;
     ch_wnd := rx_window s; ch_seq := v_seq_nr s; ch_ack := v_last_consumed s;
     ch_sack := None; ch_close_reason := None |}.

Definition hdr_with (h : chdr) (t : ptype) (seq : Z) (sk : option sackbits) : chdr :=
  {| ch_type := t; ch_conn_id := ch_conn_id h; ch_ts := ch_ts h; ch_ts_diff := ch_ts_diff h;
     ch_wnd := ch_wnd h; ch_seq := seq; ch_ack := ch_ack h; ch_sack := sk;
     ch_close_reason := ch_close_reason h |}.

Definition on_packet_sent (s : vsock) (h : chdr) : vsock :=
  set_t_ack_delay (set_cbu (set_last_sent_window (set_last_sent_ack_nr s (ch_ack h)) (ch_wnd h)) 0) None.

(* one attempt to hand a datagram to the transport: consumes one scripted outcome *)
Definition next_send (s : vsock) (size : Z) : vsock * send_outcome :=
  let '(s1, o) := match v_sends s with
                  | [] => (s, TSent)
                  | o :: r => (set_sends s r, o)
                  end in
  match o, v_emsg_limit s with
  | TSent, Some m => if m <? size then (s1, TEmsgsize) else (s1, TSent)
  | _, _ => (s1, o)
  end.

Definition emit (s : vsock) (p : packet) : vsock := set_out s (p :: v_out s).

Definition rx_wakes (w : list Rx.wake) : list vwake :=
  flat_map (fun x => match x with WakeReader => [VwReader] | WakeDispatcher => [] end) w.
Definition tx_wakes (w : list twake) : list vwake :=
  flat_map (fun x => match x with TwWriter => [VwWriter] | _ => [] end) w.
Definition add_wakes (s : vsock) (w : list vwake) : vsock := set_wakes s (rev w ++ v_wakes s).

Definition restart_remote_inactivity_timer (s : vsock) : vsock :=
  set_t_inactivity s (timer_arm (v_t_inactivity s) (v_now s) (o_inactivity (v_opts s)) true).

Definition force_immediate_ack (s : vsock) : vsock := set_cbu s USIZE_MAX.

Definition immediate_ack_to_transmit (s : vsock) : bool :=
  IMMEDIATE_ACK_EVERY_RMSS * mss (v_ss s) <=? v_cbu s.

Definition ack_to_transmit (s : vsock) : bool := seq_gt (v_last_consumed s) (v_last_sent_ack_nr s).

Definition should_send_window_update (s : vsock) : bool :=
  if is_remote_fin_or_later (v_state s) then false
  else xorb (rx_window s =? 0) (v_last_sent_window s =? 0).

(* ------------------------------------------------------------------ control packets *)
(* the SACK extension is written only if it fits into tmp_buf (UtpHeader::serialize) *)
Definition fit_sack (s : vsock) (sk : option sackbits) : option sackbits :=
  if 30 <=? o_tmp_buf_len (v_opts s) then sk else None.

Definition send_control_packet (s : vsock) (h : chdr) : step bool :=
  if v_transport_pending s then SOk s false
  else
    let hw := hdr_with h (ch_type h) (ch_seq h) (fit_sack s (ch_sack h)) in
    let '(s1, o) := next_send s (match ch_sack hw with Some _ => 30 | None => 20 end) in
    match o with
    | TSent =>
        SOk (on_packet_sent (emit s1 {| p_hdr := hw; p_payload := [] |}) h) true
    | TPending => SOk (set_transport_pending s1 true) false
    | TEmsgsize | TIoErr => SErr s1 ErrSend
    end.

Definition sack_of_rx (r : rx) : option sackbits :=
  match selective_ack r with
  | Some bits => Some {| sk_bits := bits; sk_len := 64 |}
  | None => None
  end.

Definition send_ack (s : vsock) : step bool :=
  let h := outgoing_header s in
  send_control_packet s (hdr_with h ST_STATE (ch_seq h) (sack_of_rx (v_rx s))).

Definition maybe_send_fin (s : vsock) : step bool :=
  if v_transport_pending s then SOk s false
  else
    match our_fin_if_unacked (v_state s) with
    | None => SOk s false
    | Some seq =>
        if negb (seq_sub seq (v_last_sent_seq_nr s) =? 1) then SOk s false
        else
          let fin := hdr_with (outgoing_header s) ST_FIN seq None in
          sbind (send_control_packet s fin) (fun s1 sent =>
            if sent then
              SOk (set_last_sent_seq_nr
                     (set_t_retransmit s1 (timer_arm (v_t_retransmit s1) (v_now s1)
                                             (retransmission_timeout (v_rtte s1)) false)) seq) true
            else SOk s1 false)
    end.

(* ------------------------------------------------------------------ data packets *)
Inductive send_res := SdSent | SdPending | SdEmsgsize.

(* send_data!(self, cx, header, item) *)
Definition send_data (s : vsock) (h : chdr) (f : for_sending) : step send_res :=
  if seg_retransmit_count (fs_seg f) =? o_max_retx (v_opts s) then SErr s ErrMaxRetransmissionsReached
  else
    let ts := timestamp_microseconds s in
    let hd := {| ch_type := ST_DATA; ch_conn_id := ch_conn_id h; ch_ts := ts;
                 ch_ts_diff := (ts - v_last_remote_timestamp s) mod M32;
                 ch_wnd := ch_wnd h; ch_seq := fs_seq f; ch_ack := ch_ack h;
                 ch_sack := None; ch_close_reason := None |} in
    let off := fs_payload_offset f in
    let plen := sg_size (fs_seg f) in
    let ringlen := Z.of_nat (length (ring (v_tx s))) in
    if off <? 0 then SPanic   (* checked_sub().unwrap() in iter_mut_for_sending *)
    else if ringlen <? off then SErr s (ErrBug BugOffsetBeyondBufferBounds)
    else if ringlen <? off + plen then SErr s (ErrBug BugRequestedLengthExceedsBufferBounds)
    else
      let payload := firstn (Z.to_nat plen) (skipn (Z.to_nat off) (ring (v_tx s))) in
      let '(s1, o) := next_send s (20 + plen) in
      match o with
      | TPending => SOk (set_transport_pending s1 true) SdPending
      | TEmsgsize => SOk s1 SdEmsgsize
      | TIoErr => SErr s1 ErrSend
      | TSent =>
          let s2 := emit s1 {| p_hdr := hd; p_payload := payload |} in
          let s3 := set_segs s2 (on_sent (v_segs s2) (fs_idx f) (v_now s2)) in
          let s4 := on_packet_sent s3 hd in
          (* seq_nr (the number of the next NEW packet) only ever moves forward: after an RTO
             rewound last_sent_seq_nr later segments are still outstanding (repair of D13) *)
          let s5 := if seq_gt (fs_seq f) (v_last_sent_seq_nr s4)
                    then let s4' := set_last_sent_seq_nr s4 (fs_seq f) in
                         if seq_gt (wadd16 (fs_seq f) 1) (v_seq_nr s4')
                         then set_seq_nr s4' (wadd16 (fs_seq f) 1) else s4'
                    else s4 in
          let s6 := set_t_retransmit s5 (timer_arm (v_t_retransmit s5) (v_now s5)
                                           (retransmission_timeout (v_rtte s5)) false) in
          let s7 := set_t_inactivity s6 (timer_arm (v_t_inactivity s6) (v_now s6)
                                           (o_inactivity (v_opts s6)) false) in
          SOk s7 SdSent
      end.

(* the congestion / RTO / recovery reaction shared by the two RTO branches *)
Definition on_rto_reactions (s : vsock) : option vsock :=
  match Rtte.on_rto_timeout (v_rtte s) with
  | None => None
  | Some rt =>
      Some (set_recovery
              (set_rtte (set_cc s (cc_on_rto cci (v_cc s) (v_now s))) rt)
              (recovery_on_rto_timeout (v_recovery s) (v_last_sent_seq_nr s)))
  end.

(* ---- the recovery retransmission loop of send_tx_queue ---- *)
Record rec_loop_st := {
  rl_high_rxt : Z; rl_total : Z; rl_pipe : Z; rl_cwnd : Z; rl_sent : Z;
}.

(* returns the state, the loop bookkeeping and whether the function must return early
   (transport pending) *)
Fixpoint recovery_loop (items : list for_sending) (s : vsock) (h : chdr) (mss0 : Z) (st : rec_loop_st)
  : step (rec_loop_st * bool) :=
  match items with
  | [] => SOk s (st, false)
  | f :: rest =>
      if negb ((rl_total st =? 0) || (mss0 <? rl_cwnd st)) then SOk s (st, false)
      else if (0 <? rl_total st) && negb (sg_lost (fs_seg f)) then recovery_loop rest s h mss0 st
      else if (0 <? rl_total st) && negb (sg_sacks_after (fs_seg f)) then SOk s (st, false)
      else
        match send_data s h f with
        | SPanic => SPanic
        | SErr s1 e => SErr s1 e
        | SOk s1 SdEmsgsize => SErr s1 ErrSend
        | SOk s1 SdPending => SOk s1 (st, true)
        | SOk s1 SdSent =>
            let sz := sg_size (fs_seg f) in
            recovery_loop rest s1 h mss0
              {| rl_high_rxt := fs_seq f; rl_total := rl_total st + 1; rl_pipe := rl_pipe st + sz;
                 rl_cwnd := sat_sub (rl_cwnd st) sz; rl_sent := rl_sent st + 1 |}
        end
  end.

Fixpoint skip_while {A} (p : A -> bool) (l : list A) : list A :=
  match l with [] => [] | x :: r => if p x then skip_while p r else l end.
Fixpoint take_while {A} (p : A -> bool) (l : list A) : list A :=
  match l with [] => [] | x :: r => if p x then x :: take_while p r else [] end.

(* ---- the new-data loop of send_tx_queue ---- *)
Fixpoint new_data_loop (items : list for_sending) (s : vsock) (h : chdr) (remaining : Z)
  : step (option (Z * Z)) :=          (* Some (seq, size) = message too long *)
  match items with
  | [] => SOk s None
  | f :: rest =>
      let sz := sg_size (fs_seg f) in
      if remaining <? sz then SOk s None
      else
        match send_data s h f with
        | SPanic => SPanic
        | SErr s1 e => SErr s1 e
        | SOk s1 SdSent => new_data_loop rest s1 h (remaining - sz)
        | SOk s1 SdPending => SOk s1 None
        | SOk s1 SdEmsgsize => SOk s1 (Some (fs_seq f, sz))
        end
  end.

Definition set_recovering (s : vsock) (rc : recovering) : vsock :=
  set_recovery s {| rv_supports_sack := rv_supports_sack (v_recovery s);
                    rv_last_ack := rv_last_ack (v_recovery s); rv_phase := Recovering rc |}.

Definition send_tx_queue (s : vsock) : step unit :=
  if v_transport_pending s then SOk s tt
  else
    let h := outgoing_header s in
    (* 1. RTO branch *)
    let after_rto : step bool :=       (* bool: return early *)
      if timer_expired (v_t_retransmit s) (v_now s) then
        match iter_for_sending (v_segs s) None with
        | f :: _ =>
            match send_data s h f with
            | SPanic => SPanic
            | SErr s1 e => SErr s1 e
            | SOk s1 SdEmsgsize => SErr s1 ErrSend
            | SOk s1 SdPending => SOk s1 true
            | SOk s1 SdSent =>
                let s2o := if negb (sg_probe (fs_seg f)) then on_rto_reactions s1 else Some s1 in
                match s2o with
                | None => SPanic
                | Some s2 =>
                    let s3 := set_t_retransmit s2 (timer_arm (v_t_retransmit s2) (v_now s2)
                                                     (retransmission_timeout (v_rtte s2)) true) in
                    SOk (set_rto_retransmissions (set_last_sent_seq_nr s3 (fs_seq f))
                                                 (v_rto_retransmissions s3 + 1)) false
                end
            end
        | [] =>
            match our_fin_if_unacked (v_state s) with
            | Some fin =>
                if v_last_sent_seq_nr s =? fin then
                  let s1 := set_last_sent_seq_nr s (wsub16 (v_last_sent_seq_nr s) 1) in
                  sbind (maybe_send_fin s1) (fun s2 sent =>
                    if sent then
                      match on_rto_reactions s2 with
                      | None => SPanic
                      | Some s3 =>
                          SOk (set_t_retransmit s3 (timer_arm (v_t_retransmit s3) (v_now s3)
                                                      (retransmission_timeout (v_rtte s3)) true)) false
                      end
                    else SOk s2 false)
                else SOk (set_t_retransmit s None) false
            | None => SOk (set_t_retransmit s None) false
            end
        end
      else SOk s false in
    sbind after_rto (fun s ret =>
    if ret then SOk s tt
    else if 0 <? v_rto_retransmissions s then SOk s tt
    else match ss_segs (v_segs s) with
    | [] => SOk s tt
    | _ :: _ =>
      (* 2. recovery branch *)
      let after_rec : step bool :=
        match rv_phase (v_recovery s) with
        | Recovering rc =>
            let high_rxt := rc_high_rxt rc in
            let rp := rc_recovery_point rc in
            let depth := ss_sack_depth (v_segs s) in
            let items :=
              take_while (fun f => seq_le (fs_seq f) rp)
                (skip_while (fun f => seq_le (fs_seq f) high_rxt)
                   (firstn (Z.to_nat (depth + 1)) (iter_for_sending (v_segs s) None))) in
            let mss0 := mss (v_ss s) in
            let st0 := {| rl_high_rxt := high_rxt; rl_total := rc_total_retx rc;
                          rl_pipe := rc_pipe rc; rl_cwnd := rec_cwnd rc; rl_sent := 0 |} in
            sbind (recovery_loop items s h mss0 st0) (fun s1 res =>
              let '(st, early) := res in
              let rc1 := {| rc_recovery_point := rp; rc_high_rxt := rl_high_rxt st;
                            rc_total_retx := rl_total st; rc_pipe := rl_pipe st;
                            rc_recalc := rc_recalc rc; rc_cwnd := rc_cwnd rc |} in
              let s2 := set_recovering s1 rc1 in
              if early then SOk s2 true
              else
                let s3 :=
                  if rl_cwnd st <? mss0 then
                    match rc_recalc rc with
                    | Some t => set_t_recovery_pipe s2 (Some t)
                    | None =>
                        if 0 <? rl_sent st then
                          set_t_recovery_pipe s2
                            (timer_arm (v_t_recovery_pipe s2) (v_now s2)
                               (calc_pipe_expiry (roundtrip_time (v_rtte s2))) true)
                        else s2
                    end
                  else s2 in
                match our_fin_if_unacked (v_state s3) with
                | Some our_fin =>
                    if rl_high_rxt st =? wsub16 our_fin 1 then
                      let rc2 := {| rc_recovery_point := rp; rc_high_rxt := our_fin;
                                    rc_total_retx := rl_total st + 1; rc_pipe := rl_pipe st;
                                    rc_recalc := rc_recalc rc; rc_cwnd := rc_cwnd rc |} in
                      SOk (set_recovering (set_last_sent_seq_nr s3 (wsub16 our_fin 1)) rc2) true
                    else SOk s3 false
                | None => SOk s3 false
                end)
        | _ => SOk s false
        end in
      sbind after_rec (fun s ret =>
      if ret then SOk s tt
      else
        (* 3. never-sent data *)
        let remaining :=
          match remaining_cwnd (v_recovery s) (v_last_remote_window s) with
          | Some r => r
          | None => sat_sub (Z.min (cc_window cci (v_cc s)) (v_last_remote_window s))
                            (calc_flight_size (v_segs s) (v_last_sent_seq_nr s))
          end in
        let items := iter_for_sending (v_segs s) (Some (wadd16 (v_last_sent_seq_nr s) 1)) in
        sbind (new_data_loop items s h remaining) (fun s1 too_long =>
          match too_long with
          | None => SOk s1 tt
          | Some (seq, size) =>
              let '(segs', popped) := pop_mtu_probe (v_segs s1) seq in
              if popped then
                SOk (set_restart
                       (set_ss (set_segs s1 segs')
                               (disarm_cooldown (on_probe_failed (v_ss s1) size))) true) tt
              else SErr s1 (ErrBug BugEmsgSizeNoProbe)
          end))
    end).

(* ------------------------------------------------------------------ ACK policy *)
Definition maybe_send_ack (s : vsock) : step bool :=
  if immediate_ack_to_transmit s then send_ack s
  else if should_send_window_update s then send_ack s
  else if timer_expired (v_t_ack_delay s) (v_now s) then
    if ack_to_transmit s then send_ack s
    else SOk (set_t_ack_delay s None) false
  else if 0 <? v_cbu s then
    SOk (set_t_ack_delay s (timer_arm (v_t_ack_delay s) (v_now s) ACK_DELAY false)) false
  else SOk s false.

(* ------------------------------------------------------------------ segmentation *)
(* the `while remaining > 0 && remote_window_remaining > 0` loop; `fuel` is the ring itself
   (each iteration segments at least one byte).  None = u16 overflow panic in next_probe. *)
Fixpoint segment_loop (fuel : list Z) (nagle : bool) (ss : segsizes) (segs : segments)
  (remaining rwr : Z) : option (segsizes * segments * Z) :=
  match fuel with
  | [] => Some (ss, segs, remaining)
  | _ :: fuel' =>
      if (0 <? remaining) && (0 <? rwr) then
        match next_segment_size ss with
        | None => None
        | Some (ss1, sz) =>
            let min_ss0 := mss ss1 in
            let max_payload := Z.min sz rwr in
            let payload := Z.min max_payload remaining in
            let can_send_full := payload =? max_payload in
            let in_flight := match ss_segs segs with [] => false | _ => true end in
            if nagle && negb can_send_full && in_flight then Some (ss1, segs, remaining)
            else
              let is_probe := min_ss0 <? payload in
              let segs1 := enqueue segs payload is_probe in
              if is_probe then Some (ss1, segs1, remaining - payload)
              else segment_loop fuel' nagle ss1 segs1 (remaining - payload) (rwr - payload)
        end
      else Some (ss, segs, remaining)
  end.

Definition split_tx_queue_into_segments (s : vsock) : step unit :=
  let tx_len := Z.of_nat (length (ring (v_tx s))) in
  if tx_len =? 0 then SOk (set_tx s (register_dispatcher_if_empty (v_tx s))) tt
  else
    let grow_limit := Z.min (Z.min (cc_window cci (v_cc s)) (v_last_remote_window s))
                            (o_tx_max (v_opts s)) in
    let capc := cap (v_tx s) in
    let s1 :=
      if (capc <? grow_limit) && (9 * capc <? 10 * tx_len) then
        let '(tx1, g) := grow (v_tx s) (o_tx_max (v_opts s)) in
        match g with
        | Some _ => let '(tx2, w) := wake_writer tx1 in add_wakes (set_tx s tx2) (tx_wakes w)
        | None => set_tx s tx1
        end
      else s in
    if is_remote_fin_or_later (v_state s1) then SOk s1 tt
    else
      (* (repair of D6) once our FIN has been numbered the probe is no longer given up and re-cut *)
      let '(segs1, pe) := pop_expired_mtu_probe (v_segs s1)
                            (timer_expired (v_t_retransmit s1) (v_now s1)
                             && negb (is_local_fin_or_later (v_state s1)))
                            (o_mtu_probe_max_retx (v_opts s1)) in
      let cont (s2 : vsock) : step unit :=
        let segmented_len := ss_len_bytes (v_segs s2) in
        if tx_len <? segmented_len then SErr s2 (ErrBug BugInBufferComputations)
        else
          match segment_loop (ring (v_tx s2)) (o_nagle (v_opts s2)) (v_ss s2) (v_segs s2)
                             (tx_len - segmented_len) (v_last_remote_window s2) with
          | None => SPanic
          | Some (ss', segs', remaining) =>
              SOk (set_unsegmented (set_segs (set_ss s2 ss') segs') remaining) tt
          end in
      match pe with
      | PeExpired rewind_to payload_size =>
          (* other segments still unacknowledged keep a retransmission timer (repair of D14) *)
          let s1' := set_segs s1 segs1 in
          let s2 := set_rto_retransmissions
                      (set_t_retransmit s1'
                         (match ss_segs segs1 with
                          | [] => None
                          | _ => timer_arm (v_t_retransmit s1') (v_now s1')
                                           (retransmission_timeout (v_rtte s1')) true
                          end)) 0 in
          let s3 := if seq_gt (v_last_sent_seq_nr s2) rewind_to
                    then set_last_sent_seq_nr s2 rewind_to else s2 in
          cont (set_ss s3 (on_probe_failed (v_ss s3) payload_size))
      | PeNotExpired =>
          (* bytes written while the probe is outstanding are unsent data (repair of D10) *)
          SOk (set_unsegmented s1 (sat_sub tx_len (ss_len_bytes (v_segs s1)))) tt
      | PeEmpty => cont s1
      end.

(* ------------------------------------------------------------------ death *)
Definition mark_both_closed (s : vsock) : vsock :=
  let '(rx1, w1) := rx_mark_vsock_closed (v_rx s) in
  let '(tx1, w2) := mark_vsock_closed (v_tx s) in
  add_wakes (set_tx (set_rx s rx1) tx1) (rx_wakes w1 ++ tx_wakes w2).

Definition just_before_death (s : vsock) (err : option verror) : vsock :=
  let s1 := match err with
            | Some _ => let '(rx1, w) := rx_enqueue_error (v_rx s) in
                        add_wakes (set_rx s rx1) (rx_wakes w)
            | None => s end in
  let s2 := mark_both_closed s1 in
  match err with
  | Some _ =>
      if negb (is_local_fin_or_later (v_state s2)) then
        let fin := hdr_with (outgoing_header s2) ST_FIN (v_seq_nr s2) None in
        let s3 := set_seq_nr s2 (wadd16 (v_seq_nr s2) 1) in
        match send_control_packet s3 fin with
        | SOk s4 _ => s4
        | SErr s4 _ => s4
        | SPanic => s3
        end
      else s2
  | None => s2
  end.

Definition transition_to_fin_wait_1 (s : vsock) : vsock :=
  match v_state s with
  | Established | SynReceived | SynAckSent _ =>
      set_seq_nr (set_state s (FinWait1 (v_seq_nr s))) (wadd16 (v_seq_nr s) 1)
  | _ => s
  end.

(* ------------------------------------------------------------------ incoming messages *)
Definition result_update (a b : on_ack_result) : on_ack_result :=
  {| ar_acked_segments := ar_acked_segments a + ar_acked_segments b;
     ar_acked_bytes := ar_acked_bytes a + ar_acked_bytes b;
     ar_max_acked_payload := ar_max_acked_payload a;
     ar_newly_sacked_segments := ar_newly_sacked_segments a + ar_newly_sacked_segments b;
     ar_newly_sacked_bytes := ar_newly_sacked_bytes a + ar_newly_sacked_bytes b;
     ar_new_rtt := rtt_min (ar_new_rtt a) (ar_new_rtt b) |}.

Definition add_err (r : add_result) : option verror :=
  match r with
  | ArErrZeroPayload => Some ErrZeroPayloadStData
  | ArErrBugInvalidMessage => Some (ErrBug BugInvalidMessageExpectedStDataOrFin)
  | ArErrBugMissingSlot => Some (ErrBug BugAssemblerMissingSlot)
  | _ => None
  end.

(* the state/validity table at the top of process_incoming_message.
   inl r = return Ok(default) or Err right away; inr s = continue with the common part *)
Inductive table_res := TblDrop (s : vsock) | TblErr (s : vsock) (e : verror) | TblContinue (s : vsock).

Definition state_table (s : vsock) (h : chdr) : table_res :=
  let t := ch_type h in
  let data_or_state := match t with ST_DATA | ST_STATE => true | _ => false end in
  match t with
  | ST_RESET =>
      match v_state s with
      | LastAck our_fin _ =>
          if ch_ack h =? our_fin then TblDrop (set_state s Closed)
          else TblErr (set_state s Closed) ErrStResetReceived
      | _ => TblErr (set_state s Closed) ErrStResetReceived
      end
  | ST_SYN => TblDrop s
  | _ =>
      match v_state s with
      | Closed => TblDrop s   (* already closed: ignored (repair of D15) *)
      | SynReceived => TblErr s (ErrBug BugUnexpectedPacketInSynReceived)
      | SynAckSent _ =>
          if data_or_state then
            if negb (ch_ack h =? wsub16 (v_seq_nr s) 1) then TblDrop s
            else TblContinue (set_state (restart_remote_inactivity_timer s) Established)
          else (* ST_FIN: honoured only in sequence, as in the established states (repair of D19) *)
            if negb (ch_seq h =? wadd16 (v_last_consumed s) 1) then TblDrop s
            else TblContinue (set_state s Closed)
      | Established =>
          if data_or_state then TblContinue s
          else if negb (ch_seq h =? wadd16 (v_last_consumed s) 1) then TblDrop s
          else TblContinue (set_seq_nr (set_state s (LastAck (v_seq_nr s) (ch_seq h)))
                                       (wadd16 (v_seq_nr s) 1))
      | FinWait1 our_fin =>
          if data_or_state then
            if ch_ack h =? our_fin then
              let s1 := set_state (restart_remote_inactivity_timer s) FinWait2 in
              match t with
              | ST_STATE =>
                  if seq_sub (ch_seq h) (v_last_consumed s) =? 1 then TblContinue (set_state s1 Closed)
                  else TblContinue s1
              | _ => TblContinue s1
              end
            else TblContinue s
          else if negb (ch_seq h =? wadd16 (v_last_consumed s) 1) then TblDrop s
          else if ch_ack h =? our_fin then TblContinue (set_state s Closed)
          else TblContinue (set_state s (LastAck our_fin (ch_seq h)))
      | FinWait2 =>
          if data_or_state then TblContinue s
          else if negb (ch_seq h =? wadd16 (v_last_consumed s) 1) then TblDrop s
          else TblContinue (set_state (restart_remote_inactivity_timer s) Closed)
      | LastAck our_fin remote_fin =>
          if ch_ack h =? our_fin then
            TblContinue (set_state (restart_remote_inactivity_timer s) Closed)
          else if seq_gt (ch_seq h) remote_fin then
            match t with ST_DATA => TblDrop s | _ => TblContinue s end
          else TblContinue s
      end
  end.

Definition process_incoming_message (s : vsock) (m : msg) : step on_ack_result :=
  let h := m_hdr m in
  let previously_seen_remote_fin := is_remote_fin_or_later (v_state s) in
  match state_table s h with
  | TblDrop s1 => SOk s1 on_ack_result_default
  | TblErr s1 e => SErr s1 e
  | TblContinue s1 =>
      let '(segs1, res) := remove_up_to_ack (v_segs s1) (v_now s1) (ch_ack h) (ch_sack h) in
      let ss1 := on_payload_delivered (v_ss s1) (ar_max_acked_payload res) in
      let cc1 := cc_set_mss cci (v_cc s1) (mss ss1) in
      let rtte1o :=
        match is_recovering (v_recovery s1), ar_new_rtt res with
        | false, Some rtt => sample (v_rtte s1) rtt
        | _, _ => Some (v_rtte s1)
        end in
      match rtte1o with
      | None => SPanic
      | Some rtte1 =>
          let cc2 := cc_set_remote_window cci cc1 (ch_wnd h) in
          match cc_on_ack cci cc2 (v_now s1) (ar_acked_bytes res) (roundtrip_time rtte1) with
          | None => SPanic
          | Some cc3 =>
              match recovery_on_ack cci (v_recovery s1) h segs1 (v_last_sent_seq_nr s1) cc3
                                    (v_now s1) (roundtrip_time rtte1) with
              | None => SPanic
              | Some (rec1, segs2, cc4) =>
                  let s2 := set_recovery
                              (set_last_remote_window
                                 (set_last_remote_timestamp
                                    (set_cc (set_rtte (set_ss (set_segs s1 segs2) ss1) rtte1) cc4)
                                    (ch_ts h))
                                 (ch_wnd h))
                              rec1 in
                  let offset := seq_sub (ch_seq h) (wadd16 (v_last_consumed s2) 1) in
                  match ch_type h with
                  | ST_DATA =>
                      if offset <? 0 then SOk (force_immediate_ack s2) res
                      else
                        let was_empty := ooq_is_empty (v_rx s2) in
                        let ss2 := on_payload_delivered (v_ss s2) (Z.of_nat (length (m_payload m))) in
                        let s3 := set_cc (set_ss s2 ss2) (cc_set_mss cci (v_cc s2) (mss ss2)) in
                        let '(rx1, ar, w) := rx_add_remove (v_rx s3) KData (m_payload m) offset in
                        let s4 := add_wakes (set_rx s3 rx1) (rx_wakes w) in
                        match ar with
                        | UarPanic => SPanic
                        | UarOk r =>
                            match add_err r with
                            | Some e => SErr s4 e
                            | None =>
                                let s5 :=
                                  match r with
                                  | ArConsumed n bytes =>
                                      set_cbu
                                        (set_last_consumed (restart_remote_inactivity_timer s4)
                                           (wadd16 (v_last_consumed s4) (n mod M16)))
                                        (sat_add_usize (v_cbu s4) bytes)
                                  | _ => s4
                                  end in
                                if negb (ooq_is_empty (v_rx s5)) || negb was_empty then
                                  sbind (send_ack (force_immediate_ack s5)) (fun s6 _ => SOk s6 res)
                                else SOk s5 res
                            end
                        end
                  | ST_FIN =>
                      let s3 := force_immediate_ack s2 in
                      if negb previously_seen_remote_fin && (0 <=? offset) then
                        let s4 := set_last_consumed s3 (ch_seq h) in
                        let '(rx1, ar, w) := rx_add_remove (v_rx s4) KFin (m_payload m) offset in
                        let s5 := add_wakes (set_rx s4 rx1) (rx_wakes w) in
                        match ar with
                        | UarPanic => SPanic
                        | UarOk r =>
                            match add_err r with
                            | Some e => SErr s5 e
                            | None =>
                                let '(tx1, w2) := mark_vsock_closed (v_tx s5) in
                                SOk (add_wakes (set_tx s5 tx1) (tx_wakes w2)) res
                            end
                        end
                      else SOk s3 res
                  | _ => SOk s2 res
                  end
              end
          end
      end
  end.

(* the `while let Poll::Ready(msg) = self.rx.poll_recv(cx)` loop; fuel = the inbox itself.
   Returns the accumulated result and whether the channel-closed arm returned early. *)
Fixpoint recv_loop (fuel : list msg) (s : vsock) (acc : on_ack_result)
  : step (on_ack_result * bool) :=
  match v_inbox s with
  | [] =>
      if v_inbox_closed s then
        let s1 := transition_to_fin_wait_1 s in
        sbind (maybe_send_fin s1) (fun s2 _ => SOk (set_state s2 Closed) (acc, true))
      else SOk (set_inbox_waker s true) (acc, false)
  | m :: rest =>
      match fuel with
      | [] => SPanic   (* unreachable: fuel is the initial inbox *)
      | _ :: fuel' =>
          sbind (process_incoming_message (set_inbox s rest) m) (fun s1 r =>
            let acc1 := result_update acc r in
            if state_is_closed (v_state s1) (o_wait_for_last_ack (v_opts s1)) || v_transport_pending s1
            then SOk s1 (acc1, false)
            else recv_loop fuel' s1 acc1)
      end
  end.

(* everything below snd_una was acknowledged, hence sent - as far as the numbers were used at all (an ACK
   may cover segments that were never sent: those numbers are still below seq_nr only if they were) *)
Definition acked_counts_as_sent (s : vsock) : vsock :=
  let acked_up_to := wsub16 (ss_snd_una (v_segs s)) 1 in
  if seq_gt acked_up_to (v_last_sent_seq_nr s) && seq_lt acked_up_to (v_seq_nr s)
  then set_last_sent_seq_nr s acked_up_to else s.

Definition process_all_incoming_messages (s : vsock) : step unit :=
  sbind (recv_loop (v_inbox s ++ [ {| m_hdr := outgoing_header s; m_payload := [] |} ]) s
                   on_ack_result_default)
  (fun s1 res =>
    (* the channel-closed arm `break`s: the bookkeeping below still runs (repair of D17) *)
    let '(r, _) := res in
      let s2 :=
        if (0 <? ar_acked_segments r) || (0 <? ar_newly_sacked_segments r) then
          let s' := set_rto_retransmissions s1 0 in
          match ss_segs (v_segs s'), our_fin_if_unacked (v_state s') with
          | [], None => set_t_inactivity (set_t_retransmit s' None) None
          | _, _ =>
              restart_remote_inactivity_timer
                (set_t_retransmit s' (timer_arm (v_t_retransmit s') (v_now s')
                                        (retransmission_timeout (v_rtte s')) true))
          end
        else s1 in
      let s3o : step unit :=
        if 0 <? ar_acked_segments r then
          (* an acknowledged sequence number was sent: an RTO may have rewound last_sent_seq_nr
             below segments the peer had received all along (repair of D20) *)
          let s2 := acked_counts_as_sent s2 in
          let '(tx1, tr) := truncate_front (v_tx s2) (ar_acked_bytes r) in
          match tr with
          | TrBug _ _ => SErr (set_tx s2 tx1) (ErrBug BugTruncateFront)
          | TrOk => let '(tx2, w) := wake_writer tx1 in
                    SOk (add_wakes (set_tx s2 tx2) (tx_wakes w)) tt
          end
        else SOk s2 tt in
      sbind s3o (fun s3 _ =>
        match rv_phase (v_recovery s3) with
        | Recovering rc =>
            match calc_pipe (v_segs s3) (rc_high_rxt rc) (v_last_sent_seq_nr s3)
                            (roundtrip_time (v_rtte s3)) (v_now s3) with
            | None => SPanic
            | Some (segs', pipe, recalc) =>
                SOk (set_recovering (set_segs s3 segs')
                       {| rc_recovery_point := rc_recovery_point rc; rc_high_rxt := rc_high_rxt rc;
                          rc_total_retx := rc_total_retx rc; rc_pipe := pipe; rc_recalc := recalc;
                          rc_cwnd := rc_cwnd rc |}) tt
            end
        | _ => SOk s3 tt
        end)).

(* ------------------------------------------------------------------ handshake *)
Definition maybe_send_syn_ack (s : vsock) : step unit :=
  let go (sent_count : Z) : step unit :=
    if sent_count =? o_max_retx (v_opts s) then SErr s ErrMaxSynAckRetransmissionsReached
    else sbind (send_ack s) (fun s1 sent =>
      if sent then
        SOk (set_t_syn_ack_resend (set_state s1 (SynAckSent (sent_count + 1)))
               (timer_arm (v_t_syn_ack_resend s1) (v_now s1) SYNACK_RESEND_INTERNAL true)) tt
      else SOk s1 tt) in
  match v_state s with
  | SynReceived => go 0
  | SynAckSent count =>
      if timer_expired (v_t_syn_ack_resend s) (v_now s) then go count else SOk s tt
  | _ => SOk (set_t_syn_ack_resend s None) tt
  end.

(* ------------------------------------------------------------------ timers *)
Definition next_timer_to_poll (s : vsock) : vsock * option Z :=
  if v_transport_pending s then (s, v_t_inactivity s)
  else
    (set_t_recovery_pipe s None,
     opt_min (v_t_ack_delay s)
       (opt_min (v_t_retransmit s)
          (opt_min (v_t_inactivity s)
             (opt_min (v_t_recovery_pipe s) (v_t_syn_ack_resend s))))).

(* (repair of D6, second part) an unacknowledged MTU probe counts as unsent data: our FIN is not numbered behind it *)
Definition unsent_data_exists (s : vsock) : bool :=
  (0 <? v_unsegmented s) ||
  existsb (fun f => (seg_send_count (fs_seg f) =? 0) ||
                    (sg_probe (fs_seg f) && negb (sg_delivered (fs_seg f))))
          (iter_for_sending (v_segs s) None).

(* ------------------------------------------------------------------ poll *)
Inductive body_res :=
| BrReturn (s : vsock) (r : poll_result)
| BrRestart (s : vsock)
| BrPanic.

Definition die (s : vsock) (e : verror) : body_res :=
  BrReturn (just_before_death s (Some e)) (PollReadyErr e).

(* bail_if_err! / pending_if_cannot_send! as continuation combinators *)
Definition bail {A} (m : step A) (k : vsock -> A -> body_res) : body_res :=
  match m with
  | SPanic => BrPanic
  | SErr s e => die s e
  | SOk s a => if v_restart s then BrRestart s else k s a
  end.

Definition pend {A} (m : step A) (k : vsock -> A -> body_res) : body_res :=
  bail m (fun s a => if v_transport_pending s then BrReturn s PollPending
                     else if v_restart s then BrRestart s else k s a).

(* Timers::arm_in: a zero duration is already elapsed, the poll wakes itself instead *)
Definition arm_in (s : vsock) (duration : Z) : vsock :=
  if duration <=? 0 then add_wakes (set_arm_in s (Some 0)) [VwSelf]
  else set_arm_in s (Some duration).

Definition should_close_on_own_initiative (s : vsock) : bool :=
  ((reader_dropped (v_rx s) && writer_dropped (v_tx s)) || writer_shutdown (v_tx s))
  && negb (unsent_data_exists s) && negb (is_local_fin_or_later (v_state s)).

(* one iteration of `while self.this_poll.restart { ... }` *)
Definition poll_body (s0 : vsock) : body_res :=
  let s := set_restart (set_now (set_transport_pending s0 false) (v_env_now s0)) false in
  pend (maybe_send_syn_ack s) (fun s _ =>
  pend (if immediate_ack_to_transmit s then send_ack s else SOk s false) (fun s _ =>
  pend (process_all_incoming_messages s) (fun s _ =>
  let '(rx1, fr, w) := rx_flush (v_rx s) in
  match fr with
  | FlPanic => BrPanic
  | FlOk _ =>
    let s := add_wakes (set_rx s rx1) (rx_wakes w) in
    if timer_expired (v_t_inactivity s) (v_now s) then die s ErrRemoteInactiveForTooLong
    else
    bail (split_tx_queue_into_segments s) (fun s _ =>
    pend (send_tx_queue s) (fun s _ =>
    let s := if should_close_on_own_initiative s then transition_to_fin_wait_1 s else s in
    pend (maybe_send_fin s) (fun s _ =>
    pend (maybe_send_ack s) (fun s _ =>
    if state_is_closed (v_state s) (o_wait_for_last_ack (v_opts s)) then
      BrReturn (just_before_death s None) PollReadyOk
    else
      let s := if is_local_fin_or_later (v_state s)
               then set_t_inactivity s (timer_arm (v_t_inactivity s) (v_now s)
                                          SHUTDOWN_FINAL_CHANCE_DELAY false)
               else s in
      let '(s, t) := next_timer_to_poll s in
      let s := match t with
               | Some instant => arm_in s (sat_sub instant (v_now s))
               | None => s
               end in
      BrReturn s PollPending))))
  end))).

Fixpoint poll_loop (fuel : nat) (s : vsock) : vsock * poll_result :=
  match fuel with
  | O => (s, PollPanic)
  | S fuel' =>
      match poll_body s with
      | BrReturn s' r => (s', r)
      | BrRestart s' => poll_loop fuel' s'
      | BrPanic => (s, PollPanic)
      end
  end.

(* VirtualSocket::poll.  The restart loop runs once per popped MTU probe; 64 > 17 probes. *)
Definition poll (s : vsock) : vsock * poll_result :=
  poll_loop 64 (set_arm_in (set_wakes (set_out s []) []) None).

(* Drop for VirtualSocket (the future is dropped after Ready, or on cancellation) *)
Definition drop_vsock (s : vsock) : vsock := mark_both_closed s.

End WithCC.

(* One whole poll and every event list: the extended joint invariant vs_x (byte accounting of
   VSock_Inv.vs_inv + the per-segment facts of VSock_PollAux) is kept by poll_body, by the restart
   loop (64 iterations of fuel are never exhausted: every restart after the first halves
   max_ss - min_ss) and by every event; poll never panics and reports no Bug error other than
   BugEmsgSizeNoProbe (none at all when the transport never answers EMSGSIZE).
   Hypotheses: cc_total (the congestion controller's on_ack is total), a clock bound at each poll
   (0 <= now <= 2^60 s, needed by Rtte.sample), and pipe-safety of the state at each poll
   (poll_safe: calc_pipe's argument stays inside the table; poll_pipe_refuted shows the panic
   that happens without it). *)
From Utp Require Import Base.Prelude Wire.SeqNr Wire.SeqNr_Proofs Wire.Header Rtt.Rtte Rtt.Rtte_Proofs
  Mtu.SegSizes Rx.Rx Rx.Rx_Proofs Tx.Ring Tx.Ring_Proofs Tx.Segments Tx.Segments_Proofs
  Conn.Recovery Conn.Msg Conn.VSockRec Conn.VSock Conn.VSockRun Conn.VObs Conn.C10_Pred
  Conn.VSock_LemmasTx Conn.VSock_LemmasIn Conn.C06_RecProofs Conn.VSock_Inv Conn.VSock_PollAux
  Conn.VSock_PollIn Conn.VSock_PollTx.

Definition qT : Z -> Prop := fun _ => True.
Definition qF : Z -> Prop := fun _ => False.

Section Poll.
Context {CC : Type} (cci : cc_iface CC).
Notation vsock := (vsock CC).
Notation step := (@step CC).
Variable strict : bool.
Hypothesis Hcc : cc_total cci.
Variables ti tm : Z.

(* ------------------------------------------------------------------ death *)
Lemma rx_mark_closed_inv r r1 w : rx_inv r -> rx_mark_vsock_closed r = (r1, w) -> rx_inv r1.
Proof.
  intros Hinv E.
  assert (Hst : rx_step r OMarkClosed = (r1, OutUnit, w)) by (cbn [rx_step]; rewrite E; reflexivity).
  exact (proj1 (rx_step_spec r OMarkClosed r1 OutUnit w Hinv I Hst)).
Qed.

Lemma rx_enqueue_error_inv r r1 w : rx_inv r -> rx_enqueue_error r = (r1, w) -> rx_inv r1.
Proof.
  intros Hinv E.
  assert (Hst : rx_step r OEnqueueError = (r1, OutUnit, w)) by (cbn [rx_step]; rewrite E; reflexivity).
  exact (proj1 (rx_step_spec r OEnqueueError r1 OutUnit w Hinv I Hst)).
Qed.

Lemma mark_both_closed_x p q (s : vsock) :
  vs_x ti tm p q s -> vs_x ti tm p q (mark_both_closed s) /\ v_state (mark_both_closed s) = v_state s.
Proof.
  intros Hx. destruct (inv_parts _ _ _ _ (proj1 Hx)) as (I1 & I2 & I3 & I4 & I5 & I6 & I7 & I8).
  unfold mark_both_closed.
  destruct (rx_mark_vsock_closed (v_rx s)) as [rx1 w1] eqn:E1.
  destruct (mark_vsock_closed (v_tx s)) as [tx1 w2] eqn:E2.
  destruct (mark_closed_fields _ _ _ E2) as (M1 & M2 & M3).
  unfold add_wakes. vsimpl. split; [|reflexivity].
  eapply x_update; [exact Hx|..]; vsimpl; auto; try lia.
  eapply rx_mark_closed_inv; eauto.
Qed.

Lemma just_before_death_x p q (s : vsock) err :
  vs_x ti tm p q s -> vs_x ti tm p q (just_before_death s err).
Proof.
  intros Hx. unfold just_before_death.
  set (s1 := match err with Some _ => _ | None => s end).
  assert (H1 : vs_x ti tm p q s1).
  { unfold s1. destruct err; [|exact Hx].
    destruct (rx_enqueue_error (v_rx s)) as [rx1 w] eqn:E.
    destruct (inv_parts _ _ _ _ (proj1 Hx)) as (I1 & I2 & I3 & I4 & I5 & I6 & I7 & I8).
    unfold add_wakes. eapply x_update; [exact Hx|..]; vsimpl; auto; try lia.
    eapply rx_enqueue_error_inv; eauto. }
  clearbody s1. destruct (mark_both_closed_x p q s1 H1) as [H2 _].
  generalize dependent (mark_both_closed s1). intros s2 H2.
  destruct err; [|exact H2].
  destruct (negb _); [|exact H2].
  set (s3 := set_seq_nr s2 _).
  assert (H3 : vs_x ti tm p q s3) by exact H2.
  pose proof (send_control_packet_x strict s3 (hdr_with (outgoing_header s2) ST_FIN (v_seq_nr s2) None)) as Hs.
  destruct (send_control_packet s3 _) as [s4 b|s4 e|]; cbn [spx] in Hs; [| |exact H3].
  - destruct Hs as [[[Hc _] _] _]. eapply x_same_core; eauto.
  - destruct Hs as [_ [[[Hc _] _] _]]. eapply x_same_core; eauto.
Qed.

(* ------------------------------------------------------------------ the result of one iteration *)
Definition ret_ok (s' : vsock) (r : poll_result) : Prop :=
  match r with
  | PollReadyErr e => allowed strict e /\ vs_xe ti tm qT s'
  | PollPanic => False
  | _ => vs_x ti tm 0 qT s'
  end.

Definition br_ok (R : vsock -> Prop) (b : body_res (CC:=CC)) : Prop :=
  match b with
  | BrReturn s' r => ret_ok s' r
  | BrRestart s' => R s'
  | BrPanic => False
  end.

Lemma xe_weaken q (s : vsock) : vs_xe ti tm q s -> vs_xe ti tm qT s.
Proof. intros [p H]. exists p. eapply x_weaken; [|exact H]. unfold qT; auto. Qed.

Lemma x_qT p q (s : vsock) : vs_x ti tm p q s -> vs_x ti tm p qT s.
Proof. apply x_weaken. unfold qT; auto. Qed.

Lemma die_ok (R : vsock -> Prop) q (s : vsock) e : allowed strict e -> vs_xe ti tm q s -> br_ok R (die s e).
Proof.
  intros Ha [p Hx]. unfold die. cbn [br_ok ret_ok]. split; [exact Ha|].
  exists p. apply just_before_death_x. eapply x_qT; exact Hx.
Qed.

Lemma bail_ok {A} (R : vsock -> Prop) q (m : step A) (k : vsock -> A -> body_res) (Q : vsock -> A -> Prop) :
  spx strict m Q (vs_xe ti tm q) ->
  (forall s a, Q s a -> v_restart s = true -> R s) ->
  (forall s a, Q s a -> v_restart s = false -> br_ok R (k s a)) ->
  br_ok R (bail m k).
Proof.
  intros Hm Hr Hk. unfold bail. destruct m as [s a|s e|]; cbn [spx] in Hm.
  - destruct (v_restart s) eqn:Er; [cbn [br_ok]; eapply Hr; eauto|eapply Hk; eauto].
  - destruct Hm as [Ha Hx]. eapply die_ok; eauto.
  - destruct Hm.
Qed.

Lemma pend_ok {A} (R : vsock -> Prop) q (m : step A) (k : vsock -> A -> body_res) (Q : vsock -> A -> Prop) :
  spx strict m Q (vs_xe ti tm q) ->
  (forall s a, Q s a -> v_restart s = true -> R s) ->
  (forall s a, Q s a -> vs_x ti tm 0 qT s) ->
  (forall s a, Q s a -> v_restart s = false -> v_transport_pending s = false -> br_ok R (k s a)) ->
  br_ok R (pend m k).
Proof.
  intros Hm Hr Hp Hk. unfold pend. eapply bail_ok; [exact Hm|exact Hr|].
  intros s a HQ Er. destruct (v_transport_pending s) eqn:Ep.
  - cbn [br_ok ret_ok]. eapply Hp; eauto.
  - rewrite Er. eapply Hk; eauto.
Qed.

End Poll.

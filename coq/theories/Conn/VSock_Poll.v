(* One whole poll and every event list: the extended joint invariant vs_x (byte accounting of
   VSock_Inv.vs_inv + the per-segment facts of VSock_PollAux) is kept by poll_body, by the restart
   loop (64 iterations of fuel are never exhausted: every restart after the first halves
   max_ss - min_ss) and by every event; poll never panics and reports no Bug error other than
   BugEmsgSizeNoProbe (none at all when the transport never answers EMSGSIZE).
   Hypotheses: cc_total (the congestion controller's on_ack is total), a clock bound at each poll
   (0 <= now <= 2^60 s, needed by Rtte.sample), and pipe-safety of the state at each poll
   (poll_safe: calc_pipe's argument stays inside the table; poll_pipe_refuted shows the panic
   that happens without it). *)
From Utp Require Import Base.Prelude Wire.SeqNr Wire.SeqNr_Proofs Wire.Header Rtt.Rtte Rtt.Rtte_Proofs
  Mtu.SegSizes Rx.Rx Rx.Rx_Proofs Tx.Ring Tx.Ring_Proofs Tx.Segments Tx.Segments_Proofs
  Conn.Recovery Conn.Msg Conn.VSockRec Conn.VSock Conn.VSockRun Conn.VObs Conn.C10_Pred
  Conn.VSock_LemmasTx Conn.VSock_LemmasIn Conn.C06_RecProofs Conn.VSock_Inv Conn.VSock_PollAux
  Conn.VSock_PollIn Conn.VSock_PollTx.

Definition qT : Z -> Prop := fun _ => True.
Definition qF : Z -> Prop := fun _ => False.

Section Poll.
Context {CC : Type} (cci : cc_iface CC).
Notation vsock := (vsock CC).
Notation step := (@step CC).
Variable strict : bool.
Hypothesis Hcc : cc_total cci.
Variables ti tm : Z.

(* ------------------------------------------------------------------ death *)
Lemma rx_mark_closed_inv r r1 w : rx_inv r -> rx_mark_vsock_closed r = (r1, w) -> rx_inv r1.
Proof.
  intros Hinv E.
  assert (Hst : rx_step r OMarkClosed = (r1, OutUnit, w)) by (cbn [rx_step]; rewrite E; reflexivity).
  exact (proj1 (rx_step_spec r OMarkClosed r1 OutUnit w Hinv I Hst)).
Qed.

Lemma rx_enqueue_error_inv r r1 w : rx_inv r -> rx_enqueue_error r = (r1, w) -> rx_inv r1.
Proof.
  intros Hinv E.
  assert (Hst : rx_step r OEnqueueError = (r1, OutUnit, w)) by (cbn [rx_step]; rewrite E; reflexivity).
  exact (proj1 (rx_step_spec r OEnqueueError r1 OutUnit w Hinv I Hst)).
Qed.

Lemma mark_both_closed_x p q (s : vsock) :
  vs_x ti tm p q s -> vs_x ti tm p q (mark_both_closed s) /\ v_state (mark_both_closed s) = v_state s.
Proof.
  intros Hx. destruct (inv_parts _ _ _ _ (proj1 Hx)) as (I1 & I2 & I3 & I4 & I5 & I6 & I7 & I8).
  unfold mark_both_closed.
  destruct (rx_mark_vsock_closed (v_rx s)) as [rx1 w1] eqn:E1.
  destruct (mark_vsock_closed (v_tx s)) as [tx1 w2] eqn:E2.
  destruct (mark_closed_fields _ _ _ E2) as (M1 & M2 & M3).
  unfold add_wakes. vsimpl. split; [|reflexivity].
  eapply x_update; [exact Hx|..]; vsimpl; auto; try lia.
  eapply rx_mark_closed_inv; eauto.
Qed.

Lemma just_before_death_x p q (s : vsock) err :
  vs_x ti tm p q s -> vs_x ti tm p q (just_before_death s err).
Proof.
  intros Hx. unfold just_before_death.
  set (s1 := match err with Some _ => _ | None => s end).
  assert (H1 : vs_x ti tm p q s1).
  { unfold s1. destruct err; [|exact Hx].
    destruct (rx_enqueue_error (v_rx s)) as [rx1 w] eqn:E.
    destruct (inv_parts _ _ _ _ (proj1 Hx)) as (I1 & I2 & I3 & I4 & I5 & I6 & I7 & I8).
    unfold add_wakes. eapply x_update; [exact Hx|..]; vsimpl; auto; try lia.
    eapply rx_enqueue_error_inv; eauto. }
  clearbody s1. destruct (mark_both_closed_x p q s1 H1) as [H2 _].
  generalize dependent (mark_both_closed s1). intros s2 H2.
  destruct err; [|exact H2].
  destruct (negb _); [|exact H2].
  set (s3 := set_seq_nr s2 _).
  assert (H3 : vs_x ti tm p q s3) by exact H2.
  pose proof (send_control_packet_x strict s3 (hdr_with (outgoing_header s2) ST_FIN (v_seq_nr s2) None)) as Hs.
  destruct (send_control_packet s3 _) as [s4 b|s4 e|]; cbn [spx] in Hs; [| |exact H3].
  - destruct Hs as [[[Hc _] _] _]. eapply x_same_core; eauto.
  - destruct Hs as [_ [[[Hc _] _] _]]. eapply x_same_core; eauto.
Qed.

(* ------------------------------------------------------------------ the result of one iteration *)
(* the environment of the poll: the clock (env.now()) and the path limit of the scripted transport;
   a Pending poll leaves both alone *)
Definition envp (s : vsock) : Z * option Z := (v_env_now s, v_emsg_limit s).

Definition ret_ok (e0 : Z * option Z) (s' : vsock) (r : poll_result) : Prop :=
  match r with
  | PollReadyErr e => allowed strict e /\ vs_xe ti tm qT s'
  | PollPanic => False
  | PollPending => vs_x ti tm 0 qT s' /\ envp s' = e0
  | PollReadyOk => vs_x ti tm 0 qT s'
  end.

Definition br_ok (R : vsock -> Prop) (e0 : Z * option Z) (b : body_res (CC:=CC)) : Prop :=
  match b with
  | BrReturn s' r => ret_ok e0 s' r
  | BrRestart s' => R s'
  | BrPanic => False
  end.

Lemma xe_weaken q (s : vsock) : vs_xe ti tm q s -> vs_xe ti tm qT s.
Proof. intros [p H]. exists p. eapply x_weaken; [|exact H]. unfold qT; auto. Qed.

Lemma x_qT p q (s : vsock) : vs_x ti tm p q s -> vs_x ti tm p qT s.
Proof. apply x_weaken. unfold qT; auto. Qed.

Lemma die_ok (R : vsock -> Prop) e0 q (s : vsock) e : allowed strict e -> vs_xe ti tm q s -> br_ok R e0 (die s e).
Proof.
  intros Ha [p Hx]. unfold die. cbn [br_ok ret_ok]. split; [exact Ha|].
  exists p. apply just_before_death_x. eapply x_qT; exact Hx.
Qed.

Lemma bail_ok {A} (R : vsock -> Prop) e0 q (m : step A) (k : vsock -> A -> body_res) (Q : vsock -> A -> Prop) :
  spx strict m Q (vs_xe ti tm q) ->
  (forall s a, Q s a -> v_restart s = true -> R s) ->
  (forall s a, Q s a -> v_restart s = false -> br_ok R e0 (k s a)) ->
  br_ok R e0 (bail m k).
Proof.
  intros Hm Hr Hk. unfold bail. destruct m as [s a|s e|]; cbn [spx] in Hm.
  - destruct (v_restart s) eqn:Er; [cbn [br_ok]; eapply Hr; eauto|eapply Hk; eauto].
  - destruct Hm as [Ha Hx]. eapply die_ok; eauto.
  - destruct Hm.
Qed.

Lemma pend_ok {A} (R : vsock -> Prop) e0 q (m : step A) (k : vsock -> A -> body_res) (Q : vsock -> A -> Prop) :
  spx strict m Q (vs_xe ti tm q) ->
  (forall s a, Q s a -> v_restart s = true -> R s) ->
  (forall s a, Q s a -> vs_x ti tm 0 qT s /\ envp s = e0) ->
  (forall s a, Q s a -> v_restart s = false -> v_transport_pending s = false -> br_ok R e0 (k s a)) ->
  br_ok R e0 (pend m k).
Proof.
  intros Hm Hr Hp Hk. unfold pend. eapply bail_ok; [exact Hm|exact Hr|].
  intros s a HQ Er. destruct (v_transport_pending s) eqn:Ep.
  - cbn [br_ok ret_ok]. eapply Hp; eauto.
  - rewrite Er. eapply Hk; eauto.
Qed.

(* ------------------------------------------------------------------ the small steps of the body *)
Definition body_rel (s s' : vsock) : Prop :=
  v_restart s' = v_restart s /\ v_now s' = v_now s /\ envp s' = envp s /\
  ss_mono (v_ss s) (v_ss s').

Lemma body_rel_refl s : body_rel s s.
Proof. unfold body_rel, ss_mono. repeat (split; [reflexivity|]). lia. Qed.

Lemma body_rel_trans a b c : body_rel a b -> body_rel b c -> body_rel a c.
Proof.
  unfold body_rel. intros (A1&A2&A3&A4) (B1&B2&B3&B4).
  repeat (split; [congruence|]). eapply ss_mono_trans; eauto.
Qed.

Lemma ctl_body_rel s s' : ctl_rel s s' -> body_rel s s'.
Proof.
  intros (((C1&C2&C3&C4&C5&C6&C7&C8&C9&C10&C11&C12&C13&C14) & Hf & Hr) & Hq & He).
  unfold body_rel, ss_mono, envp. rewrite C4, C11, He. repeat (split; [first [assumption|reflexivity]|]). lia.
Qed.

Lemma loop_body_rel s s' : loop_rel s s' -> body_rel s s'.
Proof. unfold loop_rel, body_rel, envp. intros (A1&A2&A3&A4&A5&A6&A7). rewrite A3, A6. tauto. Qed.

Lemma tx_body_rel s s' : tx_rel s s' -> body_rel s s'.
Proof.
  unfold tx_rel, body_rel, ss_mono, envp. intros ((_&_&_&_&_&_&A1) & A2 & A3 & A4 & A5).
  rewrite A1, A3, A5. repeat (split; [first [assumption|reflexivity]|]). lia.
Qed.

Lemma ctl_set_t_ack_delay (s : vsock) x : ctl_rel s (set_t_ack_delay s x).
Proof. unfold ctl_rel, send_frame, same_core, emsg_free. vsimpl. repeat split; tauto. Qed.

Lemma send_ack_ctl (s : vsock) : spx strict (send_ack s) (fun s' _ => ctl_rel s s') (ctl_rel s).
Proof. eapply spx_weaken; [apply (send_ack_x strict)|intros ? ? [H _]; exact H|intros ? [H _]; exact H]. Qed.

Lemma maybe_send_ack_x (s : vsock) : spx strict (maybe_send_ack s) (fun s' _ => ctl_rel s s') (ctl_rel s).
Proof.
  unfold maybe_send_ack. pose proof (send_ack_ctl s) as Ha.
  destruct (immediate_ack_to_transmit s); [exact Ha|].
  destruct (should_send_window_update s); [exact Ha|].
  destruct (timer_expired _ _).
  - destruct (ack_to_transmit s); [exact Ha|cbn [spx]; apply ctl_set_t_ack_delay].
  - destruct (0 <? _); cbn [spx]; [apply ctl_set_t_ack_delay|apply ctl_refl].
Qed.

Lemma x_ctl p q (s s' : vsock) : vs_x ti tm p q s -> ctl_rel s s' -> vs_x ti tm p q s'.
Proof. intros Hx [[Hc _] _]. eapply x_same_core; eauto. Qed.

Lemma ef_ctl (s s' : vsock) : ef strict s -> ctl_rel s s' -> ef strict s'.
Proof. intros He [[_ [Hf _]] _]. unfold ef in *. auto. Qed.

Lemma ctl_state (s s' : vsock) : ctl_rel s s' -> v_state s' = v_state s.
Proof. intros [[(_&_&_&_&_&_&_&E&_) _] _]. exact E. Qed.

Definition mb (q : Z -> Prop) (sB s : vsock) : Prop :=
  vs_x ti tm 0 q s /\ ef strict s /\ body_rel sB s.

Lemma mb_ctl q sB s s' : mb q sB s -> ctl_rel s s' -> mb q sB s'.
Proof.
  intros (H1 & H2 & H3) Hc. split; [eapply x_ctl; eauto|]. split; [eapply ef_ctl; eauto|].
  eapply body_rel_trans; [exact H3|apply ctl_body_rel; exact Hc].
Qed.

Lemma mb_pending q sB (s : vsock) : mb q sB s -> vs_x ti tm 0 qT s /\ envp s = envp sB.
Proof. intros (H & _ & (_ & _ & E & _)). split; [eapply x_qT; exact H|exact E]. Qed.

Lemma maybe_send_syn_ack_x q (s : vsock) :
  vs_x ti tm 0 q s -> ef strict s ->
  spx strict (maybe_send_syn_ack s)
      (fun s' _ => mb q s s' /\ (v_transport_pending s' = false -> v_state s' <> SynReceived))
      (vs_xe ti tm q).
Proof.
  intros Hx Hef.
  assert (H0 : mb q s s) by (split; [exact Hx|split; [exact Hef|apply body_rel_refl]]).
  assert (Hgo : forall c, v_state s <> Closed ->
    spx strict
      (if c =? o_max_retx (v_opts s) then SErr s ErrMaxSynAckRetransmissionsReached
       else sbind (send_ack s) (fun s1 sent =>
         if sent then
           SOk (set_t_syn_ack_resend (set_state s1 (SynAckSent (c + 1)))
                  (timer_arm (v_t_syn_ack_resend s1) (v_now s1) SYNACK_RESEND_INTERNAL true)) tt
         else SOk s1 tt))
      (fun s' _ => mb q s s' /\ (v_transport_pending s' = false -> v_state s' <> SynReceived))
      (vs_xe ti tm q)).
  { intros c Hnc. destruct (_ =? _); [cbn [spx allowed]; split; [exact I|eapply x_xe; exact Hx]|].
    pose proof (send_ack_ctl s) as Ha. pose proof (send_control_packet_sent strict s
      (hdr_with (outgoing_header s) ST_STATE (ch_seq (outgoing_header s)) (sack_of_rx (v_rx s)))) as Hb.
    unfold send_ack in *.
    destruct (send_control_packet s _) as [s1 sent|s1 e|]; cbn [sbind spx sp] in *; [| |exact Ha].
    - pose proof (mb_ctl _ _ _ _ H0 Ha) as (A1 & A2 & A3).
      destruct sent; cbn [spx].
      + split; [|vsimpl; discriminate].
        split; [eapply x_state; [exact A1|..]; vsimpl; try reflexivity; intros _; rewrite (ctl_state _ _ Ha); exact Hnc|].
        split; [exact A2|exact A3].
      + split; [split; [exact A1|split; [exact A2|exact A3]]|].
        intro Hp. rewrite (Hb eq_refl) in Hp. discriminate.
    - destruct Ha as [Hal Hc]. split; [exact Hal|]. eapply x_xe, x_ctl; eauto. }
  unfold maybe_send_syn_ack. destruct (v_state s) eqn:Est.
  - apply Hgo. discriminate.
  - destruct (timer_expired _ _); [apply Hgo; discriminate|].
    cbn [spx]. split; [exact H0|]. intros _. rewrite Est. discriminate.
  - cbn [spx]. split; [exact H0|]. vsimpl. intros _. rewrite Est. discriminate.
  - cbn [spx]. split; [exact H0|]. vsimpl. intros _. rewrite Est. discriminate.
  - cbn [spx]. split; [exact H0|]. vsimpl. intros _. rewrite Est. discriminate.
  - cbn [spx]. split; [exact H0|]. vsimpl. intros _. rewrite Est. discriminate.
  - cbn [spx]. split; [exact H0|]. vsimpl. intros _. rewrite Est. discriminate.
Qed.

(* ------------------------------------------------------------------ one iteration of the restart loop *)
Definition dss (ss : segsizes) : Z := max_ss ss - min_ss ss.

(* what a restart leaves behind, relative to the state s0 the iteration started from *)
Definition restart_R (q : Z -> Prop) (s0 s' : vsock) : Prop :=
  strict = false /\ vs_x ti tm 0 qF s' /\ envp s' = envp s0 /\
  exists ssm zp z, ss_ok ssm /\ ss_mono (v_ss s0) ssm /\ (q zp \/ PB ssm zp) /\ 0 <= z /\
    ((q z \/ PB ssm z) \/ z <= min_ss ssm) /\ v_ss s' = disarm_cooldown (on_probe_failed ssm z).

Lemma poll_body_x q (s0 : vsock) :
  vs_x ti tm 0 q s0 -> 0 <= v_env_now s0 <= SAMPLE_BOUND -> ef strict s0 ->
  br_ok (restart_R q s0) (envp s0) (poll_body cci s0).
Proof.
  intros Hx0 Hclk Hef0. unfold poll_body.
  set (sB := set_restart (set_now (set_transport_pending s0 false) (v_env_now s0)) false).
  assert (HxB : vs_x ti tm 0 q sB).
  { split; [exact (proj1 Hx0)|]. unfold sx, sB. vsimpl. split; [exact (proj1 (proj2 Hx0))|exact Hclk]. }
  assert (HefB : ef strict sB) by exact Hef0.
  assert (HrB : v_restart sB = false) by reflexivity.
  assert (HeB : envp sB = envp s0) by reflexivity.
  assert (HsB : v_ss sB = v_ss s0) by reflexivity.
  clearbody sB.
  assert (Hnr : forall s : vsock, body_rel sB s -> v_restart s = true -> restart_R q s0 s).
  { intros s (E1 & _) Hr. rewrite E1, HrB in Hr. discriminate. }
  (* 1. the SYN-ACK *)
  eapply pend_ok with (q := q); [apply maybe_send_syn_ack_x; assumption| | |].
  { intros s a [(_ & _ & Hb) _]. apply Hnr. exact Hb. }
  { intros s a [H _]. rewrite <- HeB. eapply mb_pending; exact H. }
  intros s1 u1 [Hm1 Hst1] _ Hp1. specialize (Hst1 Hp1).
  (* 2. the immediate ACK *)
  eapply pend_ok with (q := q) (Q := fun s (_ : bool) => mb q sB s /\ v_state s <> SynReceived).
  { destruct (immediate_ack_to_transmit s1); [|cbn [spx]; auto].
    eapply spx_weaken; [apply send_ack_ctl| |].
    - intros s b Hc. split; [eapply mb_ctl; eauto|]. rewrite (ctl_state _ _ Hc). exact Hst1.
    - intros s Hc. eapply x_xe, x_ctl; [exact (proj1 Hm1)|exact Hc]. }
  { intros s a [(_ & _ & Hb) _]. apply Hnr. exact Hb. }
  { intros s a [H _]. rewrite <- HeB. eapply mb_pending; exact H. }
  intros s2 u2 [(Hx2 & Hef2 & Hb2) Hst2] _ _.
  (* 3. the incoming messages *)
  eapply pend_ok with (q := q) (Q := fun s (_ : unit) => mb q sB s).
  { eapply spx_weaken; [apply (process_all_x cci strict Hcc ti tm q); assumption| |auto].
    intros s u (A1 & A2 & A3). split; [exact A1|]. split; [exact A2|].
    eapply body_rel_trans; [exact Hb2|apply loop_body_rel; exact A3]. }
  { intros s a (_ & _ & Hb). apply Hnr. exact Hb. }
  { intros s a H. rewrite <- HeB. eapply mb_pending; exact H. }
  intros s3 u3 (Hx3 & Hef3 & Hb3) _ _.
  (* 4. flush *)
  destruct (rx_flush (v_rx s3)) as [[rx1 fr] w] eqn:Efl.
  destruct (inv_parts _ _ _ _ (proj1 Hx3)) as (I1 & I2 & I3 & I4 & I5 & I6 & I7 & I8).
  destruct (rx_flush_spec _ _ _ _ I1 Efl) as (Hrx1 & (fb & -> & _) & _).
  set (s4 := add_wakes (set_rx s3 rx1) (rx_wakes w)).
  assert (Hm4 : mb q sB s4).
  { unfold s4, add_wakes. split; [eapply x_update; [exact Hx3|..]; vsimpl; auto; try lia|].
    split; [exact Hef3|exact Hb3]. }
  clearbody s4. destruct Hm4 as (Hx4 & Hef4 & Hb4).
  destruct (timer_expired (v_t_inactivity s4) (v_now s4)).
  { eapply die_ok; [cbn [allowed]; exact I|eapply x_xe; exact Hx4]. }
  (* 5. segmentation *)
  eapply bail_ok with (q := q) (Q := fun s (_ : unit) => split_post strict ti tm q s4 s).
  { eapply spx_weaken; [apply (split_x cci strict ti tm q); assumption|auto|intros s []]. }
  { intros s a (_ & _ & (_&_&_&_&_&_&_&_&Er) & _) Hr. exfalso.
    destruct Hb4 as (E1 & _). rewrite Er, E1, HrB in Hr. discriminate. }
  intros s5 u5 (Hx5 & Hef5 & Hsr5 & Hmono5 & Hnow5 & Henv5) Hr5.
  assert (Hb5 : body_rel sB s5).
  { eapply body_rel_trans; [exact Hb4|]. destruct Hsr5 as (_&_&_&_&_&El&_&_&Er).
    unfold body_rel, envp. rewrite El, Henv5. auto. }
  (* 6. send_tx_queue *)
  set (q5 := fun z => q z \/ PB (v_ss s5) z) in *.
  eapply pend_ok with (q := q5) (Q := fun s (_ : unit) => stq_post strict ti tm 0 q5 s5 s).
  { apply (send_tx_queue_x cci strict ti tm 0 q5); assumption. }
  { intros s a [(_ & _ & Ht)|(A1 & A2 & A3 & A4 & A5)] Hr.
    - exfalso. destruct Ht as (_ & E2 & _). rewrite E2, Hr5 in Hr. discriminate.
    - destruct A5 as (_ & Hns & zp & z & Z1 & Z0 & Z2 & Z3 & Z4).
      unfold restart_R. split; [exact Hns|]. split; [exact Z4|].
      split; [destruct A2 as (_&_&_&_&_&_&Al); destruct Hb5 as (_ & _ & E & _);
              unfold envp in *; rewrite A4, Al; congruence|].
      exists (v_ss s5), zp, z.
      destruct (inv_parts _ _ _ _ (proj1 Hx5)) as (_ & _ & _ & _ & _ & K6 & _).
      split; [exact K6|]. split; [destruct Hb5 as (_ & _ & _ & E); rewrite <- HsB; exact E|].
      split; [exact Z1|]. split; [exact Z0|]. split; [|exact Z3].
      destruct Z2 as [Z2|Z2]; [left; exact Z2|right; exact Z2]. }
  { assert (He5 : envp s5 = envp s0) by (destruct Hb5 as (_ & _ & E & _); congruence).
    intros s a [(H & _ & Ht)|(_ & A2 & _ & E & (_ & _ & zp & z & _ & _ & _ & _ & H))].
    - split; [eapply x_qT; exact H|]. destruct (tx_body_rel _ _ Ht) as (_ & _ & E & _). congruence.
    - split; [eapply x_qT; exact H|]. destruct A2 as (_&_&_&_&_&_&Al).
      unfold envp in *. rewrite E, Al. exact He5. }
  intros s6 u6 Hpost Hr6 _.
  assert (H6 : TQX strict ti tm 0 q5 s5 s6).
  { destruct Hpost as [H|(_ & _ & _ & _ & (Hr & _))]; [exact H|]. rewrite Hr in Hr6. discriminate. }
  destruct H6 as (Hx6 & Hef6 & Ht6).
  assert (Hb6 : body_rel sB s6) by (eapply body_rel_trans; [exact Hb5|apply tx_body_rel; exact Ht6]).
  (* 7. closing on our own initiative, FIN, ACK *)
  set (s7 := if should_close_on_own_initiative s6 then transition_to_fin_wait_1 s6 else s6).
  assert (Hm7 : mb q5 sB s7).
  { unfold s7. destruct (should_close_on_own_initiative s6); [|split; [exact Hx6|split; [exact Hef6|exact Hb6]]].
    destruct (transition_x ti tm 0 q5 s6 Hx6) as (T1 & T2 & T3 & T4 & T5).
    split; [exact T1|]. split.
    - unfold ef, emsg_free in *. rewrite T4. destruct T5 as (_ & _ & T5 & _). rewrite T5. exact Hef6.
    - eapply body_rel_trans; [exact Hb6|apply loop_body_rel; exact T5]. }
  clearbody s7.
  eapply pend_ok with (q := q5) (Q := fun s (_ : bool) => mb q5 sB s).
  { eapply spx_weaken; [apply (maybe_send_fin_x strict)| |].
    - intros s b [Hc _]. eapply mb_ctl; eauto.
    - intros s [Hc _]. eapply x_xe, x_ctl; [exact (proj1 Hm7)|exact Hc]. }
  { intros s a (_ & _ & Hb). apply Hnr. exact Hb. }
  { intros s a H. rewrite <- HeB. eapply mb_pending; exact H. }
  intros s8 u8 Hm8 _ _.
  eapply pend_ok with (q := q5) (Q := fun s (_ : bool) => mb q5 sB s).
  { eapply spx_weaken; [apply maybe_send_ack_x| |].
    - intros s b Hc. eapply mb_ctl; eauto.
    - intros s Hc. eapply x_xe, x_ctl; [exact (proj1 Hm8)|exact Hc]. }
  { intros s a (_ & _ & Hb). apply Hnr. exact Hb. }
  { intros s a H. rewrite <- HeB. eapply mb_pending; exact H. }
  intros s9 u9 Hm9 _ _. destruct (mb_pending _ _ _ Hm9) as (Hx9T & He9). rewrite HeB in He9.
  (* 8. the end of the iteration *)
  destruct (state_is_closed _ _).
  { cbn [br_ok ret_ok]. apply just_before_death_x. exact Hx9T. }
  set (sa := if is_local_fin_or_later (v_state s9) then _ else s9).
  assert (Ha : vs_x ti tm 0 qT sa /\ envp sa = envp s0)
    by (unfold sa; destruct (is_local_fin_or_later _); (split; [exact Hx9T|exact He9])).
  clearbody sa.
  destruct (next_timer_to_poll sa) as [sb t] eqn:En.
  assert (Hbq : vs_x ti tm 0 qT sb /\ envp sb = envp s0).
  { unfold next_timer_to_poll in En. destruct (v_transport_pending sa); injection En as <- _; exact Ha. }
  cbn [br_ok ret_ok]. destruct t; [|exact Hbq].
  unfold arm_in. destruct (_ <=? 0); unfold add_wakes; exact Hbq.
Qed.

(* ------------------------------------------------------------------ the restart loop *)
Lemma restart_measure q (s0 s' : vsock) :
  ss_ok (v_ss s0) -> restart_R q s0 s' ->
  0 <= dss (v_ss s') <= dss (v_ss s0) /\
  ((forall z, ~ q z) -> 1 <= dss (v_ss s0) /\ 2 * dss (v_ss s') <= dss (v_ss s0)).
Proof.
  intros Hok (_ & _ & _ & ssm & zp & z & Hokm & Hmono & Hzp & Hz0 & Hz & ->).
  unfold dss, on_probe_failed, disarm_cooldown, sat_sub, ss_ok, ss_mono, PB, U16_MAX, M16 in *.
  cbn [min_ss max_ss]. split; [lia|].
  intros Hq. destruct Hzp as [Hzp|Hzp]; [destruct (Hq _ Hzp)|].
  destruct Hz as [[Hz|Hz]|Hz]; [destruct (Hq _ Hz)| |].
  - assert (z mod 65536 = z) by (apply Z.mod_small; lia). lia.
  - assert (z mod 65536 = z) by (apply Z.mod_small; lia). lia.
Qed.

Lemma poll_loop_S (f : nat) (s : vsock) :
  poll_loop cci (S f) s =
  match poll_body cci s with
  | BrReturn s' r => (s', r)
  | BrRestart s' => poll_loop cci f s'
  | BrPanic => (s, PollPanic)
  end.
Proof. reflexivity. Qed.

Lemma poll_loop_x : forall (fuel : nat) (s : vsock),
  vs_x ti tm 0 qF s -> 0 <= v_env_now s <= SAMPLE_BOUND -> ef strict s ->
  dss (v_ss s) < 2 ^ (Z.of_nat fuel - 1) -> (1 <= fuel)%nat ->
  let '(s', r) := poll_loop cci fuel s in ret_ok (envp s) s' r.
Proof.
  induction fuel as [|f IH]; intros s Hx Hclk Hef Hd Hf; [lia|].
  rewrite poll_loop_S. pose proof (poll_body_x qF s Hx Hclk Hef) as Hb.
  destruct (poll_body cci s) as [s' r|s'|]; cbn [br_ok] in Hb; [exact Hb| |destruct Hb].
  pose proof Hb as (Hns & Hx' & Henv & _).
  destruct (inv_parts _ _ _ _ (proj1 Hx)) as (_ & _ & _ & _ & _ & K6 & _).
  destruct (restart_measure qF s s' K6 Hb) as (M0 & M1).
  destruct M1 as (M1 & M2); [unfold qF; tauto|].
  assert (Hf1 : (1 <= f)%nat).
  { destruct f; [|lia]. cbn in Hd. lia. }
  assert (He : v_env_now s' = v_env_now s) by (unfold envp in Henv; congruence).
  rewrite <- Henv. apply IH; [exact Hx'|rewrite He; exact Hclk|unfold ef; rewrite Hns; discriminate| |exact Hf1].
  replace (Z.of_nat (S f) - 1) with (Z.succ (Z.of_nat f - 1)) in Hd by lia.
  rewrite Z.pow_succ_r in Hd by lia. lia.
Qed.

(* VirtualSocket::poll: the 64 iterations of fuel are never exhausted *)
Theorem poll_x (s : vsock) :
  vs_x ti tm 0 qT s -> 0 <= v_env_now s <= SAMPLE_BOUND -> ef strict s ->
  let '(s', r) := poll cci s in ret_ok (envp s) s' r.
Proof.
  intros Hx Hclk Hef. unfold poll.
  set (s1 := set_arm_in (set_wakes (set_out s []) []) None).
  assert (Hx1 : vs_x ti tm 0 qT s1) by exact Hx.
  assert (Hclk1 : 0 <= v_env_now s1 <= SAMPLE_BOUND) by exact Hclk.
  assert (Hef1 : ef strict s1) by exact Hef.
  change (envp s) with (envp s1).
  clearbody s1. change 64%nat with (S 63). remember 63%nat as f63 eqn:E63. rewrite poll_loop_S.
  pose proof (poll_body_x qT s1 Hx1 Hclk1 Hef1) as Hb.
  destruct (poll_body cci s1) as [s' r|s'|]; cbn [br_ok] in Hb; [exact Hb| |destruct Hb].
  pose proof Hb as (Hns & Hx' & Henv & _).
  destruct (inv_parts _ _ _ _ (proj1 Hx1)) as (_ & _ & _ & _ & _ & K6 & _).
  destruct (restart_measure qT s1 s' K6 Hb) as (M0 & _).
  assert (He : v_env_now s' = v_env_now s1) by (unfold envp in Henv; congruence).
  rewrite <- Henv. apply poll_loop_x; [exact Hx'|rewrite He; exact Hclk1|unfold ef; rewrite Hns; discriminate| |subst f63; lia].
  subst f63. unfold dss, ss_ok, U16_MAX in *. change (Z.of_nat 63 - 1) with 62.
  assert (65535 < 2 ^ 62) by (vm_compute; reflexivity). lia.
Qed.

(* in the strict reading (the transport never answers EMSGSIZE) an iteration never restarts *)
Lemma poll_body_strict q (s0 : vsock) :
  strict = true -> vs_x ti tm 0 q s0 -> 0 <= v_env_now s0 <= SAMPLE_BOUND -> ef strict s0 ->
  forall s', poll_body cci s0 <> BrRestart s'.
Proof.
  intros Hs Hx Hclk Hef s' E. pose proof (poll_body_x q s0 Hx Hclk Hef) as Hb.
  rewrite E in Hb. cbn [br_ok] in Hb. destruct Hb as (Hns & _). congruence.
Qed.

(* ------------------------------------------------------------------ every event *)
(* the invariant of a trace: the extended joint invariant and the clock bound *)
Definition tinv (s : vsock) : Prop := vs_x ti tm 0 qT s /\ 0 <= v_env_now s <= SAMPLE_BOUND.

Definition op_clock_ok (o : vop) : Prop :=
  match o with VoSetNow t => 0 <= t <= SAMPLE_BOUND | _ => True end.

(* strict reading: the transport never answers EMSGSIZE to this poll *)
Definition op_ef (s : vsock) (o : vop) : Prop :=
  match o with
  | VoPoll sc => strict = true -> script_legit sc = true /\ v_emsg_limit s = None
  | _ => True
  end.

Definition out_ok (s s' : vsock) (out : vout) : Prop :=
  match out with
  | VrPoll r _ _ _ => ret_ok (envp s) s' r
  | _ => tinv s'
  end.

Lemma vstep_app_sx (s : vsock) o :
  sx qT s -> (forall sc, o <> VoPoll sc) ->
  let '(s', out, _, _) := vstep cci s o in
  sx qT s' /\ (forall r a b c, out <> VrPoll r a b c) /\
  v_env_now s' = match o with VoSetNow t => t | _ => v_env_now s end /\
  v_emsg_limit s' = match o with VoSetLimit m => m | _ => v_emsg_limit s end.
Proof.
  intros Hsx Hnp.
  assert (Hfin : forall (s' : vsock) out e l,
            sx qT s' -> (forall r a b c, out <> VrPoll r a b c) -> v_env_now s' = e -> v_emsg_limit s' = l ->
            sx qT s' /\ (forall r a b c, out <> VrPoll r a b c) /\ v_env_now s' = e /\ v_emsg_limit s' = l) by auto.
  destruct o; cbn [vstep]; try (exfalso; eapply Hnp; reflexivity).
  - apply Hfin; [exact Hsx|discriminate|reflexivity|reflexivity].
  - apply Hfin; [exact Hsx|discriminate|reflexivity|reflexivity].
  - destruct (v_inbox_closed s); (apply Hfin; [exact Hsx|discriminate|reflexivity|reflexivity]).
  - apply Hfin; [exact Hsx|discriminate|reflexivity|reflexivity].
  - destruct (writer_dropped (v_tx s)); [apply Hfin; [exact Hsx|discriminate|reflexivity|reflexivity]|].
    destruct (poll_write (v_tx s) buf) as [[tx1 r] w]. apply Hfin; [exact Hsx|discriminate|reflexivity|reflexivity].
  - destruct (writer_dropped (v_tx s)); [apply Hfin; [exact Hsx|discriminate|reflexivity|reflexivity]|].
    destruct (poll_flush (v_tx s)) as [[tx1 r] w]. apply Hfin; [exact Hsx|discriminate|reflexivity|reflexivity].
  - destruct (writer_dropped (v_tx s)); [apply Hfin; [exact Hsx|discriminate|reflexivity|reflexivity]|].
    destruct (poll_shutdown (v_tx s)) as [[tx1 r] w]. apply Hfin; [exact Hsx|discriminate|reflexivity|reflexivity].
  - destruct (reader_dropped (v_rx s)); [apply Hfin; [exact Hsx|discriminate|reflexivity|reflexivity]|].
    destruct (rx_read (v_rx s) n) as [[rx1 r] w]. apply Hfin; [exact Hsx|discriminate|reflexivity|reflexivity].
  - destruct (reader_dropped (v_rx s)); [apply Hfin; [exact Hsx|discriminate|reflexivity|reflexivity]|].
    destruct (rx_drop_reader (v_rx s)) as [rx1 w]. apply Hfin; [exact Hsx|discriminate|reflexivity|reflexivity].
  - destruct (drop_writer (v_tx s)) as [tx1 w]. apply Hfin; [exact Hsx|discriminate|reflexivity|reflexivity].
Qed.

Lemma vstep_x_app (s : vsock) o :
  tinv s -> op_clock_ok o -> (forall sc, o <> VoPoll sc) ->
  let '(s', out, _, _) := vstep cci s o in out_ok s s' out.
Proof.
  intros [Hx Hclk] Hoc Hnp.
  pose proof (vstep_app_inv cci ti tm s o (proj1 Hx) Hnp) as Hi.
  pose proof (vstep_app_sx s o (proj2 Hx) Hnp) as Hs.
  destruct (vstep cci s o) as [[[s' out] dw] sw]. destruct Hs as (S1 & S2 & S3 & S4).
  destruct out; [| exfalso; eapply S2; reflexivity | | |];
    cbn [out_ok]; (split; [split; [exact Hi|exact S1]|]); rewrite S3; destruct o; try exact Hclk; exact Hoc.
Qed.

Theorem vstep_x (s : vsock) o :
  tinv s -> op_clock_ok o -> op_ef s o ->
  let '(s', out, _, _) := vstep cci s o in out_ok s s' out.
Proof.
  intros Ht Hoc Hoe.
  destruct o as [t|m|sc|m| |buf| | |n| |]; try (apply vstep_x_app; [exact Ht|exact Hoc|discriminate]).
  destruct Ht as [Hx Hclk]. cbn [vstep].
  pose proof (poll_x (set_sends s sc)) as Hp.
  destruct (poll cci (set_sends s sc)) as [s' r]. cbn [out_ok]. apply Hp; [exact Hx|exact Hclk|].
  intro Hs. cbn [op_ef] in Hoe. destruct (Hoe Hs) as [H1 H2]. split; vsimpl; assumption.
Qed.

(* a poll that returned Pending, or any other event, leaves a state the next event can start from *)
Lemma out_ok_next (s s' : vsock) out :
  tinv s -> out_ok s s' out -> poll_finished out = false -> tinv s'.
Proof.
  intros [_ Hclk] Ho Hf. destruct out as [|r pk w a| | |]; cbn [out_ok] in Ho; try exact Ho.
  destruct r; cbn [poll_finished] in Hf; try discriminate.
  cbn [ret_ok] in Ho. destruct Ho as [Hx He]. split; [exact Hx|].
  unfold envp in He. injection He as He _. rewrite He. exact Hclk.
Qed.

Lemma vstep_limit (s : vsock) o :
  tinv s ->
  let '(s', out, _, _) := vstep cci s o in
  out_ok s s' out -> poll_finished out = false ->
  v_emsg_limit s' = match o with VoSetLimit m => m | _ => v_emsg_limit s end.
Proof.
  intros [Hx Hclk].
  assert (Happ : (forall sc, o <> VoPoll sc) ->
            let '(s', out, _, _) := vstep cci s o in
            out_ok s s' out -> poll_finished out = false ->
            v_emsg_limit s' = match o with VoSetLimit m => m | _ => v_emsg_limit s end).
  { intro Hnp. pose proof (vstep_app_sx s o (proj2 Hx) Hnp) as Hs.
    destruct (vstep cci s o) as [[[s' out] dw] sw]. destruct Hs as (S1 & S2 & S3 & S4). intros _ _. exact S4. }
  destruct o as [t|m|sc|m| |buf| | |n| |]; try (apply Happ; discriminate).
  cbn [vstep]. destruct (poll cci (set_sends s sc)) as [s' r]. cbn [out_ok poll_finished].
  intros Ho Hf. destruct r; try discriminate. destruct Ho as [_ He]. unfold envp in He.
  injection He as _ He. exact He.
Qed.

(* what ret_ok says about the result alone *)
Lemma ret_ok_result e0 (s' : vsock) r :
  ret_ok e0 s' r ->
  r <> PollPanic /\
  (forall b, r = PollReadyErr (ErrBug b) -> b = BugEmsgSizeNoProbe /\ strict = false).
Proof.
  destruct r as [| |e|]; cbn [ret_ok]; intro H.
  - split; [discriminate|intros b Hb; discriminate].
  - split; [discriminate|intros b Hb; discriminate].
  - split; [discriminate|]. intros b Hb. injection Hb as ->. destruct H as [Ha _]. cbn [allowed] in Ha.
    destruct b; try (exfalso; exact Ha). split; [reflexivity|exact Ha].
  - destruct H.
Qed.

Lemma x_inv p q (s : vsock) : vs_x ti tm p q s -> vs_inv_p ti tm p s.
Proof. intros [H _]. exact H. Qed.

End Poll.

(* ------------------------------------------------------------------ every event list *)
Definition op_nolimit (o : vop) : Prop := match o with VoSetLimit m => m = None | _ => True end.
Definition op_script_legit (o : vop) : Prop := match o with VoPoll sc => script_legit sc = true | _ => True end.

Section Traces.
Context {CC : Type} (cci : cc_iface CC).
Notation vsock := (vsock CC).
Hypothesis Hcc : cc_total cci.
Variables ti tm : Z.

(* one observation of a trace, in the reading `strict` (true: no Bug error at all; false:
   BugEmsgSizeNoProbe is the one Bug error allowed) *)
Definition obs_ok (strict : bool) (ob : vobs (CC:=CC)) : Prop :=
  match vo_out ob with
  | VrPoll (PollReadyErr e) _ _ _ => allowed strict e /\ vs_xe ti tm qT (vo_state ob)
  | VrPoll PollPanic _ _ _ => False
  | _ => vs_x ti tm 0 qT (vo_state ob)
  end.

Lemma out_obs_ok strict (s s' : vsock) out dw sw :
  out_ok strict ti tm s s' out ->
  obs_ok strict {| vo_out := out; vo_disp_woken := dw; vo_self_woken := sw; vo_state := s' |}.
Proof.
  unfold obs_ok; cbn [vo_out vo_state]. destruct out as [|r pk w a| | |]; cbn [out_ok]; try (intros [H _]; exact H).
  destruct r; cbn [ret_ok]; auto. intros [H _]; exact H.
Qed.

Lemma op_ef_false (s : vsock) o : op_ef false s o.
Proof. destruct o; cbn [op_ef]; try exact I. discriminate. Qed.

(* (6) every state of every trace satisfies the invariant; no step panics or reports a Bug other
   than BugEmsgSizeNoProbe *)
Theorem vtrace_x : forall ops (s : vsock),
  tinv ti tm s -> Forall op_clock_ok ops -> Forall (obs_ok false) (vtrace cci s ops).
Proof.
  induction ops as [|o rest IH]; intros s Ht Hoc; cbn [vtrace]; [constructor|].
  inversion Hoc as [|? ? Ho Hrest]; subst.
  pose proof (vstep_x cci false Hcc ti tm s o Ht Ho (op_ef_false s o)) as Hs.
  destruct (vstep cci s o) as [[[s' out] dw] sw].
  constructor; [apply (out_obs_ok false s); exact Hs|].
  destruct (poll_finished out) eqn:Ef; [constructor|].
  apply IH; [eapply out_ok_next; eauto|exact Hrest].
Qed.

(* ... and no Bug error at all when the transport never answers EMSGSIZE (no path limit is ever
   set, the scripts contain no EMSGSIZE) *)
Theorem vtrace_strict : forall ops (s : vsock),
  tinv ti tm s -> v_emsg_limit s = None ->
  Forall op_clock_ok ops -> Forall op_nolimit ops -> Forall op_script_legit ops ->
  Forall (obs_ok true) (vtrace cci s ops).
Proof.
  induction ops as [|o rest IH]; intros s Ht Hl Hoc Hnl Hsl; cbn [vtrace]; [constructor|].
  inversion Hoc as [|? ? Ho Hrest]; subst. inversion Hnl as [|? ? Hn Hnrest]; subst.
  inversion Hsl as [|? ? Hs0 Hsrest]; subst.
  assert (Hef : op_ef true s o) by (destruct o; cbn [op_ef]; try exact I; intros _; split; assumption).
  pose proof (vstep_x cci true Hcc ti tm s o Ht Ho Hef) as Hs.
  pose proof (vstep_limit cci true ti tm s o Ht) as Hlim.
  destruct (vstep cci s o) as [[[s' out] dw] sw].
  constructor; [apply (out_obs_ok true s); exact Hs|].
  destruct (poll_finished out) eqn:Ef; [constructor|].
  apply IH; [eapply out_ok_next; eauto| |exact Hrest|exact Hnrest|exact Hsrest].
  rewrite (Hlim Hs eq_refl). destruct o; try exact Hl. exact Hn.
Qed.

(* the extracted predicate c10_step_ok on the model's own observation trace: holds whenever no
   path limit is set (with a limit it is refuted: KF2, C10_Proofs.v) *)
Lemma fresult_not_bug (out : vout) :
  (forall r a b c, out <> VrPoll r a b c) -> is_bug_result (fresult_of out) = false.
Proof.
  destruct out as [|r pk w a|r|r|r]; intro H; try reflexivity.
  - exfalso. eapply H. reflexivity.
  - destruct r; reflexivity.
Qed.

Lemma vstep_poll_eq (s : vsock) sc :
  vstep cci s (VoPoll sc) =
  (let '(s', r) := poll cci (set_sends s sc) in
   (s', VrPoll r (rev (v_out s')) (rev (v_wakes s')) (v_arm_in s'), false, false)).
Proof. reflexivity. Qed.

Lemma poll_strict_no_bug (s s1 : vsock) sc r :
  tinv ti tm s -> v_emsg_limit s = None -> script_legit sc = true ->
  poll cci (set_sends s sc) = (s1, r) ->
  forall pk w a, is_bug_result (FrPoll r pk w a) = false.
Proof.
  intros [Hx Hclk] Hl Esl Est pk w a.
  pose proof (poll_x cci true Hcc ti tm (set_sends s sc) Hx Hclk) as Hp. rewrite Est in Hp.
  assert (Hr : ret_ok true ti tm (envp (set_sends s sc)) s1 r) by (apply Hp; intros _; split; assumption).
  destruct (ret_ok_result true ti tm _ _ _ Hr) as [Hnp Hnb].
  cbn [is_bug_result]. destruct r as [| |e|]; try reflexivity; [|congruence].
  destruct e; try reflexivity. destruct (Hnb b eq_refl) as [_ Hf]. discriminate.
Qed.

Lemma c10_step_at_nolimit c a (s s' : vsock) o out dw sw st :
  tinv ti tm s -> v_emsg_limit s = None ->
  vstep cci s o = (s', out, dw, sw) ->
  fs_event st = fevent_of o -> fs_result st = fresult_of out ->
  c10_step_ok_at c a st = true.
Proof.
  intros Ht Hl Est Hev Hres. unfold c10_step_ok_at, transport_legit. rewrite Hev, Hres.
  assert (Happ : (forall sc, o <> VoPoll sc) -> is_bug_result (fresult_of out) = false).
  { intro Hnp. pose proof (vstep_app_sx cci s o (proj2 (proj1 Ht)) Hnp) as H. rewrite Est in H.
    apply fresult_not_bug. apply H. }
  destruct o as [t|m|sc|m| |buf| | |n| |]; cbn [fevent_of];
    try (rewrite Happ; [reflexivity|discriminate]).
  destruct (script_legit sc) eqn:Esl; [|reflexivity].
  destruct (limit_legit c (ca_lim a)); destruct (negb (ca_changed a)); cbn [andb]; try reflexivity.
  rewrite vstep_poll_eq in Est. destruct (poll cci (set_sends s sc)) as [s1 r] eqn:Ep.
  injection Est as _ <- _ _. cbn [fresult_of].
  rewrite (poll_strict_no_bug s s1 sc r Ht Hl Esl Ep). reflexivity.
Qed.

Theorem c10_trace_nolimit c : forall ops (s : vsock) a,
  tinv ti tm s -> v_emsg_limit s = None ->
  Forall op_clock_ok ops -> Forall op_nolimit ops ->
  c10_trace_from c a (ftrace cci s ops) = true.
Proof.
  induction ops as [|o rest IH]; intros s a Ht Hl Hoc Hnl; cbn [ftrace]; [reflexivity|].
  inversion Hoc as [|? ? Ho Hrest]; subst. inversion Hnl as [|? ? Hn Hnrest]; subst.
  pose proof (vstep_x cci false Hcc ti tm s o Ht Ho (op_ef_false s o)) as Hs.
  pose proof (vstep_limit cci false ti tm s o Ht) as Hlim.
  destruct (vstep cci s o) as [[[s' out] dw] sw] eqn:Est.
  cbn [c10_trace_from]. apply andb_true_iff. split.
  - eapply c10_step_at_nolimit; [exact Ht|exact Hl|exact Est|reflexivity|reflexivity].
  - destruct (poll_finished out) eqn:Ef; [reflexivity|].
    apply IH; [eapply out_ok_next; eauto| |exact Hrest|exact Hnrest].
    rewrite (Hlim Hs eq_refl). destruct o; try exact Hl. exact Hn.
Qed.

End Traces.

(* ------------------------------------------------------------------ from a fresh connection *)
Section FromNew.
Context {CC : Type} (cci : cc_iface CC).
Hypothesis Hcc : cc_total cci.

Theorem vsock_new_x (mk_cc : Z -> Z -> CC) c :
  vconfig_ok c = true ->
  exists s0, vsock_new cci mk_cc c = Some s0 /\ tinv (vc_tx_init c) (vc_tx_max c) s0 /\
             v_emsg_limit s0 = None.
Proof.
  intro Hok. destruct (vsock_new_inv cci mk_cc c Hok) as (s0 & E & Hinv).
  exists s0. split; [exact E|].
  unfold vconfig_ok in Hok. repeat (apply andb_true_iff in Hok; destruct Hok as [Hok ?]).
  unfold vsock_new in E.
  destruct (match (if vc_incoming c then None else Some (sat_sub (vc_now0 c) (vc_syn_sent c))) with
            | Some r => sample rtte_default r | None => Some rtte_default end) as [rtte0|]; [|discriminate].
  injection E as <-.
  split; [split; [split; [exact Hinv|]|]|reflexivity].
  - unfold sx, segs_aux, no_live, lp_all, np_le. cbn [v_segs v_ss v_now ss_segs segments_new removelast].
    repeat split; try constructor; lia.
  - cbn [v_env_now]. lia.
Qed.

(* (6) run_no_panic_no_bug: from a fresh connection with a valid configuration, every state of
   every trace satisfies the invariant and no step panics or reports a Bug other than
   BugEmsgSizeNoProbe *)
Theorem run_no_panic_no_bug (mk_cc : Z -> Z -> CC) c ops :
  vconfig_ok c = true -> Forall op_clock_ok ops ->
  exists s0, vsock_new cci mk_cc c = Some s0 /\
    Forall (obs_ok (vc_tx_init c) (vc_tx_max c) false) (vtrace cci s0 ops).
Proof.
  intros Hok Hoc. destruct (vsock_new_x mk_cc c Hok) as (s0 & E & Ht & _).
  exists s0. split; [exact E|]. apply vtrace_x; assumption.
Qed.

Theorem run_no_bug_strict (mk_cc : Z -> Z -> CC) c ops :
  vconfig_ok c = true -> Forall op_clock_ok ops -> Forall op_nolimit ops -> Forall op_script_legit ops ->
  exists s0, vsock_new cci mk_cc c = Some s0 /\
    Forall (obs_ok (vc_tx_init c) (vc_tx_max c) true) (vtrace cci s0 ops).
Proof.
  intros Hok Hoc Hnl Hsl. destruct (vsock_new_x mk_cc c Hok) as (s0 & E & Ht & Hl).
  exists s0. split; [exact E|]. apply vtrace_strict; assumption.
Qed.

(* the extracted predicate of C10 (b) holds on the model's observation trace when no path limit is set *)
Theorem c10_step_ok_nolimit (mk_cc : Z -> Z -> CC) c ops :
  vconfig_ok c = true -> Forall op_clock_ok ops -> Forall op_nolimit ops ->
  exists s0, vsock_new cci mk_cc c = Some s0 /\ c10_step_ok c (ftrace cci s0 ops) = true.
Proof.
  intros Hok Hoc Hnl. destruct (vsock_new_x mk_cc c Hok) as (s0 & E & Ht & Hl).
  exists s0. split; [exact E|]. unfold c10_step_ok.
  eapply (c10_trace_nolimit cci Hcc); eassumption.
Qed.

End FromNew.

(* ------------------------------------------------------------------ witnesses *)
(* the hypotheses are satisfiable: a total congestion controller, a valid configuration, an event
   list within the clock bound, without path limit, with EMSGSIZE-free scripts *)
Lemma fixed_cc_total w : cc_total (fixed_cc w).
Proof. intros c now len rtt. discriminate. Qed.

Definition p1_cfg : vconfig :=
  {| vc_incoming := false; vc_ipv4 := true; vc_link_mtu := 1500; vc_rx_buf := 1048576;
     vc_tx_init := 32768; vc_tx_max := 1048576; vc_nagle := true; vc_max_retx := 5;
     vc_inactivity := 10000000000; vc_wait_last_ack := true; vc_mtu_probe_max_retx := 1;
     vc_isn := 100; vc_remote_seq := 1; vc_remote_conn_id := 7; vc_remote_wnd := 1048576;
     vc_remote_ts := 5; vc_syn_sent := 0; vc_now0 := 1000000 |}.

Definition p1_ops : list vop :=
  [VoPoll []; VoWrite (repeat 0 (Z.to_nat 3000)); VoPoll []; VoSetNow 2000000;
   VoDeliver {| m_hdr := {| ch_type := ST_STATE; ch_conn_id := 0; ch_ts := 10; ch_ts_diff := 0;
                             ch_wnd := 1048576; ch_seq := 1; ch_ack := 101; ch_sack := None;
                             ch_close_reason := None |}; m_payload := [] |};
   VoPoll [TPending]; VoShutdown; VoPoll []].

Example p1_hyps_satisfiable :
  cc_total (fixed_cc 100000) /\ vconfig_ok p1_cfg = true /\
  Forall op_clock_ok p1_ops /\ Forall op_nolimit p1_ops /\ Forall op_script_legit p1_ops.
Proof.
  split; [apply fixed_cc_total|]. split; [vm_compute; reflexivity|].
  split; [repeat constructor; unfold SAMPLE_BOUND, NS_PER_SEC; lia|].
  split; repeat constructor.
Qed.

(* the restart loop is not vacuous: with a path limit of 1000 bytes the first MTU probe (991 bytes)
   is answered EMSGSIZE, popped, and the iteration restarts once *)
Fixpoint restarts {CC} (cci : cc_iface CC) (fuel : nat) (s : vsock CC) : nat :=
  match fuel with
  | O => O
  | S f => match poll_body cci s with BrRestart s' => S (restarts cci f s') | _ => O end
  end.

Definition last_state_of (w : Z) (cfg : vconfig) (ops : list vop) : option (vsock unit) :=
  match vsock_new (fixed_cc w) (fun _ _ => tt) cfg with
  | Some s0 => match rev (vtrace (fixed_cc w) s0 ops) with ob :: _ => Some (vo_state ob) | [] => None end
  | None => None
  end.

Example restart_reachable :
  match last_state_of 100000 p1_cfg [VoSetLimit (Some 1000); VoPoll []; VoWrite (repeat 0 (Z.to_nat 3000))] with
  | Some s => restarts (fixed_cc 100000) 64 (set_arm_in (set_wakes (set_out (set_sends s []) []) []) None) = 1%nat
  | None => False
  end.
Proof. vm_compute. reflexivity. Qed.

(* REFUTED as asked ("every BrReturn state satisfies vs_inv"): after an error exit the bytes
   acknowledged by the messages of this poll are still in the ring (they are truncated only after the
   receive loop), so the state of a PollReadyErr satisfies vs_inv_p for some p > 0 (vs_xe), not vs_inv.
   Witness: 100 bytes sent; an out-of-order ST_DATA acknowledges them and forces an immediate ACK;
   the transport answers that ACK with an I/O error: PollReadyErr ErrSend with removed_offset = 100
   and nothing truncated from the ring.  (The connection is dead after an error; only the statement
   has to say vs_xe.) *)
Lemma inv_ring_b {CC} ti tm (s : vsock CC) :
  vs_inv ti tm s ->
  (match v_state s with Closed => true | _ => g_removed (v_tx s) =? ss_removed (v_segs s) end) = true.
Proof.
  intros (_ & _ & _ & _ & (_ & _ & R2 & _) & _).
  destruct (v_state s); try reflexivity; apply Z.eqb_eq;
    (assert (Hc : g_removed (v_tx s) + 0 = ss_removed (v_segs s)) by (apply R2; discriminate)); lia.
Qed.

Definition err_exit_ops : list vop :=
  [VoPoll []; VoWrite (repeat 0 (Z.to_nat 100)); VoPoll [];
   VoDeliver {| m_hdr := {| ch_type := ST_DATA; ch_conn_id := 0; ch_ts := 10; ch_ts_diff := 0;
                             ch_wnd := 1048576; ch_seq := 3; ch_ack := 101; ch_sack := None;
                             ch_close_reason := None |}; m_payload := repeat 0 10 |};
   VoPoll [TIoErr]].

Lemma err_exit_not_inv_refuted :
  exists w cfg ops,
    vconfig_ok cfg = true /\ Forall op_clock_ok ops /\
    match last_state_of w cfg ops with
    | Some s => forall ti tm, ~ vs_inv ti tm s
    | None => False
    end.
Proof.
  exists 100000, p1_cfg, err_exit_ops.
  split; [vm_compute; reflexivity|]. split; [repeat constructor|].
  assert (Hb : match last_state_of 100000 p1_cfg err_exit_ops with
               | Some s => (match v_state s with Closed => true
                            | _ => g_removed (v_tx s) =? ss_removed (v_segs s) end) = false
               | None => False
               end) by (vm_compute; reflexivity).
  destruct (last_state_of 100000 p1_cfg err_exit_ops) as [s|]; [|exact Hb].
  intros ti tm H. rewrite (inv_ring_b ti tm s H) in Hb. discriminate.
Qed.

(* ------------------------------------------------------------------ the hypotheses as booleans
   (what a checker evaluates on the events of a real trace) *)
Definition op_clock_okb (o : vop) : bool :=
  match o with VoSetNow t => (0 <=? t) && (t <=? SAMPLE_BOUND) | _ => true end.
Definition op_nolimitb (o : vop) : bool :=
  match o with VoSetLimit (Some _) => false | _ => true end.
Definition op_script_legitb (o : vop) : bool :=
  match o with VoPoll sc => script_legit sc | _ => true end.

Lemma op_clock_okb_ok o : op_clock_okb o = true <-> op_clock_ok o.
Proof. destruct o; cbn [op_clock_okb op_clock_ok]; try tauto. rewrite andb_true_iff, !Z.leb_le. tauto. Qed.

Lemma op_nolimitb_ok o : op_nolimitb o = true <-> op_nolimit o.
Proof.
  destruct o as [|[l|]| | | | | | | | |]; cbn [op_nolimitb op_nolimit]; try tauto;
    split; intro H; try reflexivity; discriminate.
Qed.

Lemma op_script_legitb_ok o : op_script_legitb o = true <-> op_script_legit o.
Proof. destruct o; cbn [op_script_legitb op_script_legit]; tauto. Qed.

Lemma ops_clock_okb_ok ops : forallb op_clock_okb ops = true -> Forall op_clock_ok ops.
Proof.
  intro H. apply Forall_forall. intros o Ho. apply op_clock_okb_ok.
  rewrite forallb_forall in H. apply H. exact Ho.
Qed.

(* C06 — boolean predicates over observed steps / traces (Conn/VObs).  Model-only file: no proofs. *)
From Utp Require Import Base.Prelude Wire.SeqNr Wire.Header Rtt.Rtte Tx.Segments Tx.Ring Conn.Recovery Conn.Msg
  Conn.VSockRun Conn.VObs Conn.C05_Pred.

Definition fseg_default : fseg :=
  {| fg_size := 0; fg_abs := 0; fg_delivered := true; fg_sent_kind := 0; fg_retx := 0;
     fg_last_sent := None; fg_probe := false; fg_lost := false; fg_expired := false;
     fg_sacks_after := false |}.

(* the snapshot segment a sequence number names, if the table holds it *)
Definition fseg_of_seq (f : vfp) (q : Z) : option fseg :=
  let k := seq_sub q (f_snd_una f) in
  if (0 <=? k) && (k <? Z.of_nat (length (f_segs f))) then nth_error (f_segs f) (Z.to_nat k) else None.

Definition tol_ok (f : vfp) : bool := Z.of_nat (length (f_segs f)) <=? 1024.

Definition c06_backoff_core (prev_rto new_rto : Z) : bool :=
  new_rto =? Z.min (2 * prev_rto) RTTE_MAX_RTO.

(* the poll in which the RTO part retransmitted a data segment (counter grew by one): the estimator's
   RTO doubled (capped) and the timer restarts at now + RTO — unless the segment is an MTU probe
   (boundary B6: no back-off); RTO always within [200 ms, 60 s] *)
Definition c06_backoff_ok (cfg : vconfig) (st : fstep) : bool :=
  let pre := fs_pre st in let post := fs_post st in
  (RTTE_MIN_RTO <=? f_rto post) && (f_rto post <=? RTTE_MAX_RTO) &&
  match fs_event st, fs_result st with
  | FePoll _, FrPoll PollPending pkts _ _ =>
      if (f_rto_retx post =? f_rto_retx pre + 1) && tol_ok post then
        match filter fq_is_data pkts with
        | [p] =>
            match fseg_of_seq post (ch_seq (fq_hdr p)) with
            | Some g =>
                (if fg_probe g then f_rto post =? f_rto pre
                 else c06_backoff_core (f_rto pre) (f_rto post)) &&
                (match f_t_retransmit post with
                 | Some t => t =? fs_now st + f_rto post
                 | None => false
                 end)
            | None => false
            end
        | _ => false
        end
      else true
  | _, _ => true
  end.

(* the retry cap: no segment ever shows more retransmissions than configured, and the poll that
   gives up shows a segment at the cap *)
Definition c06_cap_ok (cfg : vconfig) (st : fstep) : bool :=
  forallb (fun g => fg_retx g <=? vc_max_retx cfg) (f_segs (fs_post st)) &&
  match fs_result st with
  | FrPoll (PollReadyErr ErrMaxRetransmissionsReached) _ _ _ =>
      existsb (fun g => (fg_retx g =? vc_max_retx cfg) && negb (fg_delivered g)) (f_segs (fs_post st))
  | _ => true
  end.

(* every ST_DATA of a Pending poll names a segment that is in the table afterwards, not delivered,
   transmitted at this poll's clock, with that payload size *)
Definition c06_emitted_live_ok (cfg : vconfig) (st : fstep) : bool :=
  match fs_event st, fs_result st with
  | FePoll _, FrPoll PollPending pkts _ _ =>
      let post := fs_post st in
      if tol_ok post then
        forallb (fun p =>
          match fseg_of_seq post (ch_seq (fq_hdr p)) with
          | Some g => negb (fg_delivered g) && (1 <=? fg_sent_kind g) &&
                      (fg_size g =? fq_plen p) &&
                      (match fg_last_sent g with Some t => t =? fs_now st | None => false end)
          | None => false
          end) (filter fq_is_data pkts)
      else true
  | _, _ => true
  end.

(* fast retransmit: the poll in which Recovering is entered (no RTO mode, transport writable)
   retransmits the first undelivered segment if that one was sent before and lies within the
   recovery point *)
Definition first_undelivered (l : list fseg) : option (nat * fseg) :=
  (fix go (i : nat) (l : list fseg) :=
     match l with
     | [] => None
     | g :: r => if fg_delivered g then go (S i) r else Some (i, g)
     end) O l.

Definition c06_fast_retx_ok (cfg : vconfig) (st : fstep) : bool :=
  match fs_event st, fs_result st with
  | FePoll _, FrPoll PollPending pkts _ _ =>
      let pre := fs_pre st in let post := fs_post st in
      match f_recovery pre, f_recovery post with
      | Recovering _, _ => true
      | _, Recovering rc =>
          if (f_rto_retx pre =? 0) && (f_rto_retx post =? 0) && negb (f_transport_pending post)
             && tol_ok post then
            match first_undelivered (f_segs post) with
            | Some (i, g) =>
                let q := wadd16 (f_snd_una post) (Z.of_nat i mod M16) in
                if (1 <=? fg_sent_kind g) && seq_le q (rc_recovery_point rc) then
                  existsb (fun p => fq_is_data p && (ch_seq (fq_hdr p) =? q)) pkts
                else true
            | None => true
            end
          else true
      | _, _ => true
      end
  | _, _ => true
  end.

(* ---- trace level ---- *)
(* payload size per sequence number is stable; only a segment that went out as an MTU probe may
   come back with another size *)
Fixpoint assoc_z {A} (k : Z) (l : list (Z * A)) : option A :=
  match l with [] => None | (k', v) :: r => if k =? k' then Some v else assoc_z k r end.

Definition stable_step (acc : list (Z * (Z * bool))) (st : fstep) : bool * list (Z * (Z * bool)) :=
  match fs_event st, fs_result st with
  | FePoll _, FrPoll _ pkts _ _ =>
      fold_left (fun (a : bool * list (Z * (Z * bool))) p =>
        let '(ok, m) := a in
        if fq_is_data p then
          let q := ch_seq (fq_hdr p) in
          let probe := match fseg_of_seq (fs_post st) q with Some g => fg_probe g | None => false end in
          let ok' := match assoc_z q m with
                     | Some (pl, was_probe) => (pl =? fq_plen p) || was_probe
                     | None => true
                     end in
          (ok && ok', (q, (fq_plen p, probe)) :: m)
        else a) pkts (true, acc)
  | _, _ => (true, acc)
  end.

Fixpoint stable_trace (acc : list (Z * (Z * bool))) (l : list fstep) : bool :=
  match l with
  | [] => true
  | st :: r => let '(ok, acc') := stable_step acc st in ok && stable_trace acc' r
  end.

Definition c06_stable_plen_ok (cfg : vconfig) (l : list fstep) : bool := stable_trace [] l.

(* the joint invariant of ring and table, observably: bytes accepted from the writer minus bytes
   still in the ring = bytes the table has dropped as acknowledged.  Evaluated after every Pending
   poll of the trace, the polls after the inbox was closed included: since the repair of D17
   (finding T1) the poll that sees the closed channel runs truncate_front like any other
   (Conn/C06_RecProofs.v joint_inv_process_all). *)
Fixpoint joint_trace (written : Z) (l : list fstep) : bool :=
  match l with
  | [] => true
  | st :: r =>
      let written' := match fs_result st with FrWrite (WrOk n) => written + n | _ => written end in
      (match fs_result st with
       | FrPoll PollPending _ _ _ =>
           (f_seg_removed (fs_post st) =? written' - f_tx_len (fs_post st)) &&
           (f_seg_len_bytes (fs_post st) <=? f_tx_len (fs_post st))
       | _ => true
       end) && joint_trace written' r
  end.

Definition c06_joint_ok (cfg : vconfig) (l : list fstep) : bool := joint_trace 0 l.

(* ---- "unless a timeout recovery is already in progress": the phase in which duplicate ACKs are ignored
   (entered by an RTO that hits during fast recovery) ENDS with the acknowledgement that reaches the recovery
   point.  Trace level: `pending` = headers delivered since the last poll that drained the inbox. ---- *)
Definition near_z (tol x ref : Z) : bool :=
  let d := (x - ref) mod M16 in (d <=? tol) || (M16 - tol <=? d).

Definition reaches_rp (rp : Z) (h : chdr) : bool :=
  match ch_type h with
  | ST_DATA | ST_STATE => seq_le rp (ch_ack h)
  | _ => false
  end.

Definition rp_exit_poll_ok (pending : list chdr) (st : fstep) : bool :=
  let pre := fs_pre st in
  let post := fs_post st in
  match f_recovery pre, f_state pre, f_state post with
  | IgnoringUntilRecoveryPoint rp, Established, Established =>
      if existsb (reaches_rp rp) pending &&
         (* all of the pending messages are plausible peers' packets: ack numbers near our numbering *)
         forallb (fun h => near_z 256 (ch_ack h) (f_snd_una pre)) pending &&
         negb (timer_expired (f_t_retransmit pre) (fs_now st)) && tol_ok pre
      then match f_recovery post with
           | IgnoringUntilRecoveryPoint rp' => negb (rp' =? rp)
           | _ => true
           end
      else true
  | _, _, _ => true
  end.

Fixpoint rp_exit_scan (tr : list fstep) (pending : option (list chdr)) : bool :=
  match tr with
  | [] => true
  | st :: r =>
      match fs_event st with
      | FeDeliver h _ =>
          rp_exit_scan r (match pending with Some l => Some (l ++ [h]) | None => None end)
      | FeCloseInbox => rp_exit_scan r None
      | FePoll _ =>
          (match pending, fs_result st with
           | Some l, FrPoll PollPending _ _ _ =>
               if f_transport_pending (fs_post st) then true else rp_exit_poll_ok l st
           | _, _ => true
           end) &&
          rp_exit_scan r (if f_transport_pending (fs_post st) then None
                          else match pending with Some _ => Some [] | None => None end)
      | _ => rp_exit_scan r pending
      end
  end.

Definition c06_rp_exit_ok (cfg : vconfig) (tr : list fstep) : bool := rp_exit_scan tr (Some []).
